import PysamlModel.Core.Proto
