import PysamlModel.Core.Proto
import PysamlModel.Props.C01
import PysamlModel.Props.C04
import PysamlModel.Props.C05
import PysamlModel.Props.C06
import PysamlModel.Props.C07
import PysamlModel.Props.C08
import PysamlModel.Props.C20
