import PysamlModel.Core.Proto
import PysamlModel.Props.C08
