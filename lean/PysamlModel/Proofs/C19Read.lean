/-
  C19 helper lemmas, part 2: what the read operations of the cache can return, relative to the
  bookkeeping of live logins (`LiveInv`).
-/
import PysamlModel.Proofs.C19Dict
import PysamlModel.Spec.C19

namespace Session

/-- Every non-empty cache entry was stored by a live login of that subject and issuer, with the
    login's expiry as its timestamp. -/
def LiveInv (db : Db) (live : List Live) : Prop :=
  ∀ s i e x, entryAt db s i = some e → e.info = some x → (⟨s, i, x⟩ : Live) ∈ live ∧ e.ts = x.nooa

theorem after_false {now ts : Int} (h : after now ts = false) : expired now ts = false := by
  unfold after before at h
  unfold expired
  by_cases h0 : ts = 0
  · simp [h0] at h
  · simp [h0] at h ⊢
    omega

theorem after_false' {now ts : Int} (h : after now ts = false) : ts ≠ 0 ∧ now ≤ ts := by
  unfold after before at h
  by_cases h0 : ts = 0
  · simp [h0] at h
  · simp [h0] at h
    exact ⟨h0, h⟩

/-- A usable source for a read of subject `s`: an entry with content that passes the expiry test. -/
def Src (db : Db) (now : Int) (s : Subj) (check : Bool) (i : Idp) (x : Info) : Prop :=
  ∃ e, entryAt db s i = some e ∧ e.info = some x ∧ (check = true → after now e.ts = false)

theorem cacheGet_info {db : Db} {now : Int} {s : Subj} {i : Idp} {check : Bool} {x : Info}
    (h : cacheGet db now s i check = .info x) : Src db now s check i x := by
  rw [cacheGet_eq] at h
  cases he : entryAt db s i with
  | none => simp [he] at h
  | some e =>
    simp only [he] at h
    by_cases hc : (check && after now e.ts) = true
    · simp [hc] at h
    · simp only [hc] at h
      cases hi : e.info with
      | none => simp [hi] at h
      | some y =>
        simp [hi] at h
        subst h
        refine ⟨e, he, hi, ?_⟩
        intro hch
        cases ha : after now e.ts with
        | false => rfl
        | true => simp [hch, ha] at hc

theorem liveFor_of_src {db : Db} {g : Ghost} {s : Subj} {check : Bool} {i : Idp} {x : Info} {ents : List Idp}
    (hl : LiveInv db g.live) (hs : Src db g.now s check i x) (hi : ents.isEmpty = true ∨ i ∈ ents)
    (p : Live → Bool) (hp : p ⟨s, i, x⟩ = true) : liveFor g s ents check p = true := by
  obtain ⟨e, he, hx, hc⟩ := hs
  obtain ⟨hmem, hts⟩ := hl s i e x he hx
  unfold liveFor
  apply List.any_eq_true.mpr
  refine ⟨⟨s, i, x⟩, hmem, ?_⟩
  have h2 : (ents.isEmpty || decide (i ∈ ents)) = true := by
    rcases hi with h | h
    · simp [h]
    · simp [h]
  have h3 : (!check || !expired g.now x.nooa) = true := by
    cases hch : check with
    | false => rfl
    | true =>
      have := after_false (hc hch)
      rw [hts] at this
      simp [this]
  simp only [decide_true, Bool.true_and, h2, h3, hp]

/-! ### get_identity -/

/-- Everything in a merged `ava` comes from a usable source among `ents`. -/
def AvaFrom (db : Db) (now : Int) (s : Subj) (check : Bool) (ents : List Idp) (res : Ava) : Prop :=
  ∀ kv ∈ res, (∃ i x, i ∈ ents ∧ Src db now s check i x) ∧
    ∀ v ∈ kv.2, ∃ i x, i ∈ ents ∧ Src db now s check i x ∧ ∃ vs, (kv.1, vs) ∈ x.ava ∧ v ∈ vs

theorem avaFrom_mono {db : Db} {now : Int} {s : Subj} {check : Bool} {ents ents' : List Idp} {res : Ava}
    (h : AvaFrom db now s check ents res) (hsub : ∀ i ∈ ents, i ∈ ents') : AvaFrom db now s check ents' res := by
  intro kv hkv
  obtain ⟨⟨i, x, hi, hs⟩, h2⟩ := h kv hkv
  refine ⟨⟨i, x, hsub i hi, hs⟩, ?_⟩
  intro v hv
  obtain ⟨i, x, hi, hs, r⟩ := h2 v hv
  exact ⟨i, x, hsub i hi, hs, r⟩

theorem avaFrom_merge {db : Db} {now : Int} {s : Subj} {check : Bool} {ents : List Idp} {i : Idp} {x : Info}
    (hi : i ∈ ents) (hs : Src db now s check i x) :
    ∀ (ava res : Ava), (∀ kv ∈ ava, kv ∈ x.ava) → AvaFrom db now s check ents res →
      AvaFrom db now s check ents (mergeAva res ava) := by
  intro ava
  induction ava with
  | nil => intro res _ h; exact h
  | cons kv t ih =>
    intro res hsub h
    obtain ⟨k, vals⟩ := kv
    unfold mergeAva
    apply ih
    · intro kv hkv; exact hsub kv (List.mem_cons_of_mem _ hkv)
    · have hk : (k, vals) ∈ x.ava := hsub _ (List.mem_cons_self ..)
      intro kv hkv
      cases hg : Dict.get? k res with
      | none =>
        simp only [hg] at hkv
        rcases Dict.mem_set hkv with h1 | h1
        · subst h1
          exact ⟨⟨i, x, hi, hs⟩, fun v hv => ⟨i, x, hi, hs, vals, hk, hv⟩⟩
        · exact h kv h1
      | some old =>
        simp only [hg] at hkv
        rcases Dict.mem_set hkv with h1 | h1
        · subst h1
          refine ⟨⟨i, x, hi, hs⟩, ?_⟩
          intro v hv
          simp only at hv
          rw [mem_dedup, List.mem_append] at hv
          rcases hv with hv | hv
          · exact (h (k, old) (Dict.get?_mem hg)).2 v hv
          · exact ⟨i, x, hi, hs, vals, hk, hv⟩
        · exact h kv h1

theorem identityLoop_from {db : Db} {now : Int} {s : Subj} {check : Bool} {all : List Idp} :
    ∀ (ents : List Idp) (res : Ava) (old : List Idp) (r : Ava × List Idp),
      (∀ i ∈ ents, i ∈ all) → AvaFrom db now s check all res →
      identityLoop db now s check ents res old = some r → AvaFrom db now s check all r.1 := by
  intro ents
  induction ents with
  | nil =>
    intro res old r _ h hr
    simp [identityLoop] at hr
    subst hr
    exact h
  | cons e t ih =>
    intro res old r hsub h hr
    unfold identityLoop at hr
    have ht : ∀ i ∈ t, i ∈ all := fun i hi => hsub i (List.mem_cons_of_mem _ hi)
    cases hg : cacheGet db now s e check with
    | keyError => simp [hg] at hr
    | tooOld => simp only [hg] at hr; exact ih _ _ _ ht h hr
    | empty => simp only [hg] at hr; exact ih _ _ _ ht h hr
    | info x =>
      simp only [hg] at hr
      refine ih _ _ _ ht ?_ hr
      exact avaFrom_merge (hsub e (List.mem_cons_self ..)) (cacheGet_info hg) x.ava res (fun _ h => h) h

theorem getIdentity_from {db : Db} {now : Int} {s : Subj} {check : Bool} {ents : List Idp} {r : Ava × List Idp}
    (h : getIdentity db now s ents check = some r) :
    ∃ all, (ents.isEmpty = false → all = ents) ∧ AvaFrom db now s check all r.1 := by
  unfold getIdentity at h
  by_cases he : ents.isEmpty = true
  · simp only [he, if_true] at h
    cases hm : Dict.get? s db with
    | none =>
      simp [hm] at h
      subst h
      exact ⟨[], by simp [he], by intro kv hkv; simp at hkv⟩
    | some m =>
      simp only [hm] at h
      refine ⟨Dict.keys m, by simp [he], ?_⟩
      exact identityLoop_from _ _ _ _ (fun _ h => h) (by intro kv hkv; simp at hkv) h
  · simp only [he] at h
    refine ⟨ents, fun _ => rfl, ?_⟩
    exact identityLoop_from _ _ _ _ (fun _ h => h) (by intro kv hkv; simp at hkv) h

theorem identityOk_of {db : Db} {g : Ghost} {s : Subj} {check : Bool} {ents : List Idp} {r : Ava × List Idp}
    (hl : LiveInv db g.live) (h : getIdentity db g.now s ents check = some r) :
    identityOk g s ents check r.1 = true := by
  obtain ⟨all, hall, hfrom⟩ := getIdentity_from h
  unfold identityOk
  rw [List.all_eq_true]
  intro kv hkv
  rw [List.all_eq_true]
  intro v hv
  obtain ⟨i, x, hi, hs, vs, hvs, hvv⟩ := (hfrom kv hkv).2 v hv
  apply liveFor_of_src hl hs
  · cases he : ents.isEmpty with
    | true => exact Or.inl rfl
    | false => exact Or.inr (hall he ▸ hi)
  · unfold hasValue
    apply List.any_eq_true.mpr
    exact ⟨(kv.1, vs), hvs, by simp [hvv]⟩

theorem loggedIn_of {db : Db} {g : Ghost} {s : Subj} (hl : LiveInv db g.live)
    (h : isLoggedIn db g.now s = true) : liveFor g s [] true (fun _ => true) = true := by
  unfold isLoggedIn at h
  cases hg : getIdentity db g.now s [] true with
  | none => simp [hg] at h
  | some r =>
    obtain ⟨ava, old⟩ := r
    simp only [hg] at h
    obtain ⟨all, _, hfrom⟩ := getIdentity_from hg
    cases ava with
    | nil => simp at h
    | cons kv t =>
      obtain ⟨⟨i, x, _, hs⟩, _⟩ := hfrom kv (List.mem_cons_self ..)
      exact liveFor_of_src hl hs (Or.inl rfl) _ rfl

theorem infoOk_of {db : Db} {g : Ghost} {s : Subj} {i : Idp} {check : Bool} {x : Info}
    (hl : LiveInv db g.live) (h : cacheGet db g.now s i check = .info x) : infoOk g s i check x s = true := by
  unfold infoOk
  simp only [decide_true, Bool.true_and]
  exact liveFor_of_src hl (cacheGet_info h) (Or.inr (by simp)) _ (by simp)

end Session
