/-
  C18 — helper lemmas about histories: the invariant along in-scope histories, and that a registered
  persistent identifier keeps its value until it is removed.
-/
import PysamlModel.Proofs.C18Step

namespace Ident
set_option linter.unusedSimpArgs false

/-- every operation of the history is inside the property's quantifier when it is executed -/
def InScope (K : Consts) (cfg : Cfg) (users : List Str) : State → List Op → Prop
  | _, [] => True
  | P, op :: ops =>
    opOk users cfg op = true ∧ stOk K cfg P.db op = true ∧ InScope K cfg users (step K cfg P op).2 ops

theorem inScope_append {K : Consts} {cfg : Cfg} {users : List Str} {P : State} {a b : List Op} :
    InScope K cfg users P (a ++ b) ↔ InScope K cfg users P a ∧ InScope K cfg users (endState K cfg P a) b := by
  induction a generalizing P with
  | nil => simp [InScope, endState]
  | cons op a ih => simp only [List.cons_append, InScope, endState, ih, and_assoc]

theorem endState_append (K : Consts) (cfg : Cfg) (P : State) (a b : List Op) :
    endState K cfg P (a ++ b) = endState K cfg (endState K cfg P a) b := by
  induction a generalizing P with
  | nil => rfl
  | cons op a ih => simp only [List.cons_append, endState, ih]

theorem inv_endState {K : Consts} (hK : ConstsOk K) {cfg : Cfg} {users : List Str} {P : State} {ops : List Op}
    (inv : Inv K users P.db) (hs : InScope K cfg users P ops) : Inv K users (endState K cfg P ops).db := by
  induction ops generalizing P with
  | nil => exact inv
  | cons op ops ih =>
    obtain ⟨h1, h2, h3⟩ := hs
    exact ih (step_spec hK [] inv op h1 h2).2 h3

/-- the trace of the model meets the per-step specification, from any well-formed state -/
theorem specTrace_model {K : Consts} (hK : ConstsOk K) (cfg : Cfg) (users : List Str) (watch : List NameId)
    (P : State) (inv : Inv K users P.db) (ops : List Op) :
    specTrace K cfg users watch P (trace K cfg P ops) = true := by
  induction ops generalizing P with
  | nil => rfl
  | cons op ops ih =>
    unfold trace specTrace
    by_cases h : (opOk users cfg op && stOk K cfg P.db op) = true
    · rw [if_pos h]
      simp only [Bool.and_eq_true] at h
      obtain ⟨h1, h2⟩ := step_spec hK watch inv op h.1 h.2
      rw [h1, ih _ h2]; rfl
    · rw [if_neg h]

/-! ### a registered persistent identifier keeps its value -/

theorem regIn_congr (K : Consts) (l : List NameId) {spq spq' nq nq' : Option Str}
    (h1 : normF spq' = normF spq) (h2 : normF nq' = normF nq) : regIn K l spq' nq' = regIn K l spq nq := by
  unfold regIn
  congr 1
  funext m
  simp [isReg, sameQual, h1, h2]

/-- with the invariant, a persistent identifier held for (requester, qualifier) IS the registered one -/
theorem reg_of_mem {K : Consts} {users : List Str} {db : DB} (inv : Inv K users db) {u : Str} (hu : u ∈ users)
    {spq nq : Option Str} {a : NameId} (ha : a ∈ held db u) (hr : isReg K spq nq a = true) :
    regIn K (held db u) spq nq = some a := by
  cases hf : regIn K (held db u) spq nq with
  | none =>
    unfold regIn at hf
    exact absurd hr (by simpa using List.find?_eq_none.mp hf a ha)
  | some b =>
    obtain ⟨hb, hbf, hbq⟩ := regIn_mem hf
    by_cases hab : b = a
    · rw [hab]
    · exfalso
      refine pairwise_symm_mem (R := fun a b => ¬ Clash K a b) (fun a b hab hba => hab (clash_symm hba))
        (inv.uniq u hu) hb ha hab ⟨hbf, ?_⟩
      unfold isReg sameQual at hr ⊢
      unfold sameQual at hbq
      simp only [Bool.and_eq_true, beq_iff_eq] at hr hbq ⊢
      exact ⟨hr.1, by rw [hr.2.1, hbq.1], by rw [hr.2.2, hbq.2]⟩

theorem Issued.held_mono {K : Consts} {users : List Str} {P Q : DB} {u : Str} {n : NameId}
    (i : Issued K users P u n Q) {u' : Str} (hu' : u' ∈ users) {m : NameId} (hm : m ∈ held P u') : m ∈ held Q u' := by
  cases i with
  | existing hQ _ => rw [hQ]; exact hm
  | created t c =>
    by_cases h : u' = u
    · subst h; rw [c.heldU]; exact List.mem_append_left _ hm
    · rw [c.other u' hu' h]; exact hm

/-- the operation removes the identifier with value `t` -/
def removes (t : Str) : Op → Prop
  | .removeRemote n => n.text = some t
  | _ => False

theorem reg_kept {K : Consts} (hK : ConstsOk K) {cfg : Cfg} {users : List Str} {P : State}
    (inv : Inv K users P.db) (op : Op) (hop : opOk users cfg op = true) (hst : stOk K cfg P.db op = true)
    {u : Str} (hu : u ∈ users) {spq nq : Option Str} {a : NameId} {t : Str}
    (hreg : regIn K (held P.db u) spq nq = some a) (hat : a.text = some t) (hno : ¬ removes t op) :
    ∃ a', regIn K (held (step K cfg P op).2.db u) spq nq = some a' ∧ a'.text = some t := by
  obtain ⟨haP, haf, haq⟩ := regIn_mem hreg
  have hisreg : isReg K spq nq a = true := by simp [isReg, haf, haq]
  have invQ := (step_spec hK [] inv op hop hst).2
  -- it is enough that `a` is still held
  have keep : a ∈ held (step K cfg P op).2.db u →
      ∃ a', regIn K (held (step K cfg P op).2.db u) spq nq = some a' ∧ a'.text = some t :=
    fun h => ⟨a, reg_of_mem invQ hu h hisreg, hat⟩
  have same : (step K cfg P op).2.db = P.db →
      ∃ a', regIn K (held (step K cfg P op).2.db u) spq nq = some a' ∧ a'.text = some t :=
    fun h => keep (by rw [h]; exact haP)
  have issued : ∀ {u0 n Q}, Issued K users P.db u0 n Q → (step K cfg P op).2.db = Q →
      ∃ a', regIn K (held (step K cfg P op).2.db u) spq nq = some a' ∧ a'.text = some t :=
    fun i h => keep (by rw [h]; exact i.held_mono hu haP)
  cases op with
  | persistent u0 spq0 nq0 cands =>
    simp only [opOk, Bool.and_eq_true] at hop
    have hem : K.persistent = K.email → ∀ c ∈ cands, P.db.get (c ++ 64 :: cfg.domain) = none :=
      fun e => stOk_unpack hst (by simp [effFmt, e])
    cases hres : persistentNameid K cfg P.db u0 spq0 nq0 cands with
    | error e => exact same (by simp [step, hres, liftNid])
    | ok r =>
      obtain ⟨n, Q⟩ := r
      have hQ : (step K cfg P (.persistent u0 spq0 nq0 cands)).2.db = Q := by simp [step, hres, liftNid]
      rcases persistentNameid_issued inv (mem_users hop.1) hop.2 hem hres with ⟨hr, rfl⟩ | ⟨_, _, _, _, _, t', c⟩
      · exact same hQ
      · exact issued (.created t' c) hQ
  | transient u0 spq0 nq0 cands =>
    simp only [opOk, Bool.and_eq_true] at hop
    have hem : K.transient = K.email → ∀ c ∈ cands, P.db.get (c ++ 64 :: cfg.domain) = none :=
      fun e => stOk_unpack hst (by simp [effFmt, e])
    cases hres : getNameid K cfg P.db u0 K.transient spq0 nq0 cands with
    | error e => exact same (by simp [step, hres, liftNid])
    | ok r =>
      obtain ⟨n, Q⟩ := r
      exact issued (getNameid_issued' inv (mem_users hop.1) hop.2 hem hres) (by simp [step, hres, liftNid])
  | getNameid u0 fmt spq0 nq0 cands =>
    simp only [opOk, Bool.and_eq_true] at hop
    have hem : fmt = K.email → ∀ c ∈ cands, P.db.get (c ++ 64 :: cfg.domain) = none :=
      fun e => stOk_unpack hst (by simp [effFmt, e])
    cases hres : getNameid K cfg P.db u0 fmt spq0 nq0 cands with
    | error e => exact same (by simp [step, hres, liftNid])
    | ok r =>
      obtain ⟨n, Q⟩ := r
      exact issued (getNameid_issued' inv (mem_users hop.1) hop.2 hem hres) (by simp [step, hres, liftNid])
  | construct u0 lf spq0 pol nq0 cands =>
    simp only [opOk, Bool.and_eq_true] at hop
    have hem : ∀ fmt, constructFmt lf pol = some fmt → fmt = K.email →
        ∀ c ∈ cands, P.db.get (c ++ 64 :: cfg.domain) = none :=
      fun fmt h1 e => stOk_unpack hst (by simp [effFmt, h1, e])
    cases hres : constructNameid K cfg P.db u0 lf spq0 pol nq0 cands with
    | error e => exact same (by simp [step, hres, liftNid])
    | ok r =>
      obtain ⟨n, Q⟩ := r
      exact issued (constructNameid_issued inv (mem_users hop.1) hop.2 hem hres) (by simp [step, hres, liftNid])
  | findNameid u0 flt =>
    apply same
    simp only [step]
    cases findNameid P.db u0 flt <;> rfl
  | findLocalId n => exact same rfl
  | mapping n0 pol cands =>
    simp only [opOk, Bool.and_eq_true] at hop
    obtain ⟨t0, ht0, _, htu⟩ := textOk_unpack hop.1.1
    have hem : pol.fmt = some K.email → ∀ c ∈ cands, P.db.get (c ++ 64 :: cfg.domain) = none :=
      fun e => stOk_unpack hst (by simp [effFmt, e])
    cases hres : mappingRequest K cfg P.db n0 pol cands with
    | error e => exact same (by simp [step, hres, liftNid])
    | ok r =>
      obtain ⟨n, Q⟩ := r
      obtain ⟨id, _, _, i, _, _⟩ := mappingRequest_outcome inv ht0 htu hop.1.2 hop.2 hem hres
      exact issued i (by simp [step, hres, liftNid])
  | manage n m =>
    simp only [opOk] at hop
    obtain ⟨t0, ht0, hne0, htu⟩ := textOk_unpack hop
    cases hres : manageRequest P.db n m with
    | error e => exact same (by simp [step, hres, liftNid])
    | ok r =>
      obtain ⟨n', Q⟩ := r
      have hQ : (step K cfg P (.manage n m)).2.db = Q := by simp [step, hres, liftNid]
      by_cases hm : m = .noop
      · subst hm
        simp only [manageRequest, if_true, Except.ok.injEq, Prod.mk.injEq] at hres
        exact same (by rw [hQ]; exact hres.2.symm)
      · obtain ⟨htext, id, M⟩ := manageRequest_outcome inv ht0 hne0 htu hm hres
        rw [hQ] at invQ keep ⊢
        by_cases hid : u = id
        · subst hid
          by_cases han : a = n.norm
          · -- the managed identifier is the registered one: its replacement has the same value and qualifiers
            refine ⟨n'.norm, reg_of_mem invQ hu (by rw [M.heldId]; simp) ?_, ?_⟩
            · have hf' : n'.fmt = n.fmt ∧ n'.spq = n.spq ∧ n'.nq = n.nq := by
                have : n' = m.apply n := by
                  unfold manageRequest at hres
                  simp only [hm, if_false] at hres
                  cases hfl : findLocalId P.db n with
                  | none => simp [hfl] at hres
                  | some id' =>
                    simp only [hfl] at hres
                    cases hrr : removeRemote P.db n with
                    | error e => simp [hrr] at hres
                    | ok db1 =>
                      simp only [hrr] at hres
                      cases hs : store db1 id' (m.apply n) with
                      | error e => simp [hs, Except.map] at hres
                      | ok db2 =>
                        simp only [hs, Except.map, Except.ok.injEq, Prod.mk.injEq] at hres
                        exact hres.1.symm
                subst this
                cases m <;> simp [Manage.apply]
              rw [han] at hisreg
              unfold isReg sameQual at hisreg ⊢
              simpa [NameId.norm, hf'.1, hf'.2.1, hf'.2.2] using hisreg
            · rw [M.rtext]
              have := norm_text_some ht0 hne0
              rw [← han, hat] at this
              exact this.symm ▸ rfl
          · apply keep
            rw [M.heldId]
            exact List.mem_append_left _ ((List.Nodup.mem_erase_iff (inv.held_nodup hu)).mpr ⟨han, haP⟩)
        · apply keep
          rw [M.other u hu hid]; exact haP
  | removeRemote n =>
    simp only [opOk] at hop
    obtain ⟨t0, ht0, hne0, htu⟩ := textOk_unpack hop
    cases hres : removeRemote P.db n with
    | error e => exact same (by simp [step, hres])
    | ok Q =>
      have hQ : (step K cfg P (.removeRemote n)).2.db = Q := by simp [step, hres]
      obtain ⟨id, R⟩ := removeRemote_outcome inv ht0 hne0 htu hres
      have htt : t0 ≠ t := fun e => hno (by simp [removes, ht0, e])
      apply keep
      rw [hQ]
      by_cases hid : u = id
      · subst hid
        rw [R.heldId]
        refine (List.Nodup.mem_erase_iff (inv.held_nodup hu)).mpr ⟨?_, haP⟩
        intro e
        have := norm_text_some ht0 hne0
        rw [← e, hat] at this
        cases this; exact htt rfl
      · rw [R.other u hu hid]; exact haP
  | removeLocal u0 => exact same rfl
  | storeAuthn m => exact same rfl
  | authnCount m => exact same rfl
  | cleanOut n =>
    apply same
    simp only [step]
    cases cleanOut P.db P.sdb n with
    | error e => rfl
    | ok r => rfl

theorem reg_kept_run {K : Consts} (hK : ConstsOk K) {cfg : Cfg} {users : List Str} {u : Str} (hu : u ∈ users)
    {spq nq : Option Str} {t : Str} (ops : List Op) :
    ∀ {P : State} {a : NameId}, Inv K users P.db → InScope K cfg users P ops →
      regIn K (held P.db u) spq nq = some a → a.text = some t → (∀ op ∈ ops, ¬ removes t op) →
      ∃ a', regIn K (held (endState K cfg P ops).db u) spq nq = some a' ∧ a'.text = some t := by
  induction ops with
  | nil => intro P a _ _ hreg hat _; exact ⟨a, hreg, hat⟩
  | cons op ops ih =>
    intro P a inv hs hreg hat hno
    obtain ⟨h1, h2, h3⟩ := hs
    obtain ⟨a', hreg', hat'⟩ := reg_kept hK inv op h1 h2 hu hreg hat (hno op (List.mem_cons_self ..))
    exact ih (step_spec hK [] inv op h1 h2).2 h3 hreg' hat' (fun o ho => hno o (List.mem_cons_of_mem _ ho))

end Ident
