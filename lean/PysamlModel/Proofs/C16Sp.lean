/-
  C16 — helper lemmas about the shared SP model: encrypting the single assertion of a Response is
  transparent to a recipient that can open it (whenever the clear variant yields identity, the sealed one
  yields the same identity), and a sealed assertion that does not open yields no identity.
-/
import PysamlModel.Proofs.Sp

namespace Sp

/-- the same assertion, sent in clear -/
def asPlain (a : Assertion) : Assertion := { a with encrypted := false, decryptable := true }
/-- the same assertion, sent as an EncryptedAssertion the recipient can open -/
def asEnc (a : Assertion) : Assertion := { a with encrypted := true, decryptable := true }

def withA (r : Response) (a : Assertion) : Response := { r with assertions := [a] }

@[simp] theorem plainOf_plain (r : Response) (a : Assertion) : plainOf (withA r (asPlain a)) = [asPlain a] := by
  simp [plainOf, withA, asPlain]
@[simp] theorem encOf_plain (r : Response) (a : Assertion) : encOf (withA r (asPlain a)) = [] := by
  simp [encOf, withA, asPlain]
@[simp] theorem decOf_plain (r : Response) (a : Assertion) : decOf (withA r (asPlain a)) = [] := by
  simp [decOf]
@[simp] theorem plainOf_enc (r : Response) (a : Assertion) : plainOf (withA r (asEnc a)) = [] := by
  simp [plainOf, withA, asEnc]
@[simp] theorem encOf_enc (r : Response) (a : Assertion) : encOf (withA r (asEnc a)) = [asEnc a] := by
  simp [encOf, withA, asEnc]
@[simp] theorem decOf_enc (r : Response) (a : Assertion) : decOf (withA r (asEnc a)) = [asEnc a] := by
  rw [decOf, encOf_enc]; simp [asEnc]

theorem checkAssertion_asPlain (cfg : Cfg) (env : Env) (rs v : Bool) (st : St) (a : Assertion) :
    checkAssertion cfg env rs v st (asPlain a) = checkAssertion cfg env rs v st a := rfl
theorem checkAssertion_asEnc (cfg : Cfg) (env : Env) (rs v : Bool) (st : St) (a : Assertion) :
    checkAssertion cfg env rs v st (asEnc a) = checkAssertion cfg env rs v st a := rfl
theorem scan_asPlain (irt : Option String) (a : Assertion) :
    scanAssertions irt [asPlain a] = scanAssertions irt [a] := rfl
theorem scan_asEnc (irt : Option String) (a : Assertion) :
    scanAssertions irt [asEnc a] = scanAssertions irt [a] := rfl

/-! ### `loads` / pass 1 -/


theorem loads_withA (cfg : Cfg) (env : Env) (req : Bool) (r : Response) (x : Assertion) :
    loads cfg env req (withA r x) =
      if r.sig.present && r.sig != .valid then .error .sigBadResponse
      else if !r.sig.present && req then .error .sigMissingResponse
      else if env.asynchop then
        match r.inResponseTo.bind (fun i => env.outstanding.lookup i) with
        | some cf => if scanAssertions r.inResponseTo (plainOf (withA r x)) then .error .unsolicited else .ok (some cf)
        | none => if cfg.allowUnsolicited then .ok none else .error .unsolicited
      else .ok none := rfl

theorem loads_enc_ok {cfg : Cfg} {env : Env} {req : Bool} {r : Response} {a : Assertion} {cf : Option String}
    (h : loads cfg env req (withA r (asPlain a)) = .ok cf) :
    loads cfg env req (withA r (asEnc a)) = .ok cf := by
  rw [loads_withA] at h ⊢
  simp only [plainOf_plain, plainOf_enc, scanAssertions] at h ⊢
  grind

theorem loads_enc_err {cfg : Cfg} {env : Env} {req : Bool} {r : Response} {a : Assertion} {e : Err}
    (h : loads cfg env req (withA r (asPlain a)) = .error e) (hne : e ≠ .unsolicited) :
    loads cfg env req (withA r (asEnc a)) = .error e := by
  rw [loads_withA] at h ⊢
  simp only [plainOf_plain, plainOf_enc, scanAssertions] at h ⊢
  grind

theorem loads_plain_scan {cfg : Cfg} {env : Env} {req : Bool} {r : Response} {a : Assertion} {cf : Option String}
    (h : loads cfg env req (withA r (asPlain a)) = .ok cf) :
    (env.asynchop && (r.inResponseTo.bind (fun i => env.outstanding.lookup i)).isSome
        && scanAssertions r.inResponseTo [a]) = false := by
  rw [loads_withA] at h
  simp only [plainOf_plain, scan_asPlain] at h
  grind

theorem pass1_enc {cfg : Cfg} {env : Env} {r : Response} {a : Assertion} {x : Option String × Bool}
    (h : pass1 cfg env (withA r (asPlain a)) = .ok x) :
    pass1 cfg env (withA r (asEnc a)) = .ok x ∧
    (env.asynchop && (r.inResponseTo.bind (fun i => env.outstanding.lookup i)).isSome
        && scanAssertions r.inResponseTo [a]) = false := by
  unfold pass1 at h ⊢
  split at h
  next cf hl =>
    rw [loads_enc_ok hl]
    exact ⟨h, loads_plain_scan hl⟩
  next e hl =>
    split at h
    · cases h
    next hne =>
      have hne' : e ≠ .unsolicited := by intro he; exact hne (by subst he; rfl) |>.elim
      rw [loads_enc_err hl hne']
      split at h
      · cases h
      · split at h
        next cf hl2 =>
          rw [loads_enc_ok hl2]
          refine ⟨?_, loads_plain_scan hl2⟩
          cases e <;> simp_all
        · cases h

/-! ### `_assertion`, `parse_assertion`, `verify`, pass 2 -/


def checkRest (cfg : Cfg) (env : Env) (st : St) (a : Assertion) : Except Err St :=
  match authnStatementOk cfg env { st with hasAssertion := true } a with
  | .error e => .error e
  | .ok st1 =>
    match conditionOk cfg env st1 a with
    | .error e => .error e
    | .ok st2 =>
      match getSubject cfg env st2 a with
      | .error e => .error e
      | .ok st3 =>
        if env.asynchop && !cfg.allowUnsolicited && st3.cameFrom.isNone then .error .cameFrom else .ok st3

theorem checkAssertion_eq16 (cfg : Cfg) (env : Env) (rs v : Bool) (st : St) (a : Assertion) :
    checkAssertion cfg env rs v st a =
      if !a.sig.present && rs then .error .sigMissingAssertion
      else if a.sig.present && !v && a.sig != .valid then .error .sigBadAssertion
      else checkRest cfg env st a := rfl

theorem checkAssertion_verified {cfg : Cfg} {env : Env} {rs : Bool} {st st' : St} {a : Assertion}
    (h : checkAssertion cfg env rs false st a = .ok st') :
    checkAssertion cfg env rs true st a = .ok st' ∧ (a.sig.present && a.sig != .valid) = false := by
  rw [checkAssertion_eq16] at h ⊢
  generalize checkRest cfg env st a = t at h ⊢
  cases hp : a.sig.present <;> cases rs <;> simp_all <;> (split at h <;> simp_all)

theorem checkAssertion_missing {cfg : Cfg} {env : Env} {st st' : St} {a : Assertion} {e : Err}
    (h1 : checkAssertion cfg env true false st a = .error e)
    (h2 : checkAssertion cfg env false false st a = .ok st') :
    checkAssertion cfg env true true st a = .error .sigMissingAssertion := by
  rw [checkAssertion_eq16] at h1 h2 ⊢
  generalize checkRest cfg env st a = t at h1 h2 ⊢
  cases hp : a.sig.present <;> simp_all

theorem parseAssertion_withA (cfg : Cfg) (env : Env) (rs : Bool) (st : St) (r : Response) (x : Assertion) :
    parseAssertion cfg env rs st (withA r x) =
      if (plainOf (withA r x)).length != 1 && (encOf (withA r x)).length != 1 && !st.hasAssertion then .error .invalidAssertionCount
      else
        match checkAll cfg env rs false st (plainOf (withA r x)) with
        | .error e => .error e
        | .ok st1 =>
          if (decOf (withA r x)).any (fun a => a.sig.present && a.sig != .valid) then .error .sigBadAssertion
          else if env.asynchop && (r.inResponseTo.bind (fun i => env.outstanding.lookup i)).isSome
              && scanAssertions r.inResponseTo (decOf (withA r x)) then .error .unsolicited
          else
            match checkAll cfg env rs true st1 (decOf (withA r x)) with
            | .error e => .error e
            | .ok st2 => .ok { st := st2, used := decOf (withA r x) ++ plainOf (withA r x),
                               encLeft := !(encOf (withA r x)).isEmpty && (decOf (withA r x)).isEmpty } := rfl

theorem parseAssertion_plain (cfg : Cfg) (env : Env) (rs : Bool) (st : St) (r : Response) (a : Assertion) :
    parseAssertion cfg env rs st (withA r (asPlain a)) =
      match checkAssertion cfg env rs false st a with
      | .error e => .error e
      | .ok st1 => .ok { st := st1, used := [asPlain a], encLeft := false } := by
  rw [parseAssertion_withA]
  simp only [plainOf_plain, encOf_plain, decOf_plain, checkAll, checkAssertion_asPlain]
  cases checkAssertion cfg env rs false st a <;> simp [scanAssertions]

theorem parseAssertion_enc (cfg : Cfg) (env : Env) (rs : Bool) (st : St) (r : Response) (a : Assertion) :
    parseAssertion cfg env rs st (withA r (asEnc a)) =
      if a.sig.present && a.sig != .valid then .error .sigBadAssertion
      else if env.asynchop && (r.inResponseTo.bind (fun i => env.outstanding.lookup i)).isSome
          && scanAssertions r.inResponseTo [a] then .error .unsolicited
      else
        match checkAssertion cfg env rs true st a with
        | .error e => .error e
        | .ok st1 => .ok { st := st1, used := [asEnc a], encLeft := false } := by
  rw [parseAssertion_withA]
  simp only [plainOf_enc, encOf_enc, decOf_enc, checkAll, checkAssertion_asEnc, scan_asEnc]
  have hs : (asEnc a).sig = a.sig := rfl
  simp only [List.any_cons, List.any_nil, Bool.or_false, hs]
  cases checkAssertion cfg env rs true st a <;> simp

theorem verify_withA (cfg : Cfg) (env : Env) (rs : Bool) (st : St) (r : Response) (x : Assertion) :
    verify cfg env rs st (withA r x) =
      match verifyEnvelope cfg env r with
      | .error e => .error e
      | .ok false => .ok none
      | .ok true =>
        match parseAssertion cfg env rs st (withA r x) with
        | .error e => .error e
        | .ok p => .ok (some p) := rfl

/-- `verify` on the clear variant succeeded: the sealed variant succeeds with the same state. -/
theorem verify_enc_ok {cfg : Cfg} {env : Env} {rs : Bool} {st : St} {r : Response} {a : Assertion} {p : Option Parsed}
    (hscan : (env.asynchop && (r.inResponseTo.bind (fun i => env.outstanding.lookup i)).isSome
        && scanAssertions r.inResponseTo [a]) = false)
    (h : verify cfg env rs st (withA r (asPlain a)) = .ok p) :
    (p = none ∧ verify cfg env rs st (withA r (asEnc a)) = .ok none) ∨
    (∃ st1, p = some { st := st1, used := [asPlain a], encLeft := false } ∧
       verify cfg env rs st (withA r (asEnc a)) = .ok (some { st := st1, used := [asEnc a], encLeft := false })) := by
  rw [verify_withA] at h ⊢
  rw [parseAssertion_plain] at h
  rw [parseAssertion_enc, hscan]
  cases hv : verifyEnvelope cfg env r with
  | error e => rw [hv] at h; cases h
  | ok b =>
    rw [hv] at h
    cases b with
    | false => cases h; exact Or.inl ⟨rfl, rfl⟩
    | true =>
      simp only at h ⊢
      cases hc : checkAssertion cfg env rs false st a with
      | error e => rw [hc] at h; cases h
      | ok st1 =>
        rw [hc] at h
        cases h
        obtain ⟨hv1, hs⟩ := checkAssertion_verified hc
        right
        refine ⟨st1, rfl, ?_⟩
        simp [hs, hv1]

theorem verify_enc_forced_fail {cfg : Cfg} {env : Env} {st : St} {r : Response} {a : Assertion} {e : Err} {p : Parsed}
    (hscan : (env.asynchop && (r.inResponseTo.bind (fun i => env.outstanding.lookup i)).isSome
        && scanAssertions r.inResponseTo [a]) = false)
    (h1 : verify cfg env true st (withA r (asPlain a)) = .error e)
    (h2 : verify cfg env false st (withA r (asPlain a)) = .ok (some p)) :
    verify cfg env true st (withA r (asEnc a)) = .error .sigMissingAssertion := by
  rw [verify_withA, parseAssertion_plain] at h1 h2
  rw [verify_withA, parseAssertion_enc, hscan]
  cases hv : verifyEnvelope cfg env r with
  | error e' => rw [hv] at h2; cases h2
  | ok b =>
    rw [hv] at h1 h2
    cases b with
    | false => cases h2
    | true =>
      simp only at h1 h2 ⊢
      cases hc2 : checkAssertion cfg env false false st a with
      | error e' => rw [hc2] at h2; cases h2
      | ok st1 =>
        cases hc1 : checkAssertion cfg env true false st a with
        | ok st1' => rw [hc1] at h1; cases h1
        | error e1 =>
          have hm := checkAssertion_missing hc1 hc2
          obtain ⟨_, hs⟩ := checkAssertion_verified hc2
          simp [hs, hm]

theorem pass2_enc {cfg : Cfg} {env : Env} {st : St} {r : Response} {a : Assertion} {p : Option Parsed} {as : Bool}
    (hscan : (env.asynchop && (r.inResponseTo.bind (fun i => env.outstanding.lookup i)).isSome
        && scanAssertions r.inResponseTo [a]) = false)
    (h : pass2 cfg env st (withA r (asPlain a)) = .ok (p, as)) :
    (p = none ∧ pass2 cfg env st (withA r (asEnc a)) = .ok (none, as)) ∨
    (∃ st1, p = some { st := st1, used := [asPlain a], encLeft := false } ∧
       pass2 cfg env st (withA r (asEnc a)) = .ok (some { st := st1, used := [asEnc a], encLeft := false }, as)) := by
  unfold pass2 at h ⊢
  split at h
  next p' hv =>
    cases h
    rcases verify_enc_ok hscan hv with ⟨hp, he⟩ | ⟨st1, hp, he⟩
    · left; rw [he]; exact ⟨hp, rfl⟩
    · right; rw [he]; exact ⟨st1, hp, rfl⟩
  next e hv =>
    split at h
    next hse =>
      split at h
      · cases h
      next hwa =>
        split at h
        next p' hv' =>
          cases h
          rcases verify_enc_ok hscan hv' with ⟨hp, he⟩ | ⟨st1, hp, he⟩
          · -- verify(false) returned None: so did verify(true) before it could fail … it could not have failed
            exfalso
            subst hp
            rw [verify_withA] at hv hv'
            cases hve : verifyEnvelope cfg env r with
            | error e' => rw [hve] at hv'; cases hv'
            | ok b =>
              rw [hve] at hv hv'
              cases b with
              | false => cases hv
              | true =>
                simp only at hv'
                split at hv'
                · cases hv'
                · cases hv'
          · right
            subst hp
            rw [verify_enc_forced_fail hscan hv hv']
            simp only [Err.isSignatureError, if_true, hwa]
            rw [he]
            exact ⟨st1, rfl, rfl⟩
        · cases h
    · cases h

/-- Encryption is transparent to a recipient that can open it: whenever the Response with its single
    assertion in clear yields identity, the same Response with the assertion sealed (and openable)
    yields the same identity — for every configuration, clock, envelope and assertion content. -/
theorem process_transparent {cfg : Cfg} {env : Env} {r : Response} {a : Assertion} {o : Reported}
    (h : process cfg env (withA r (asPlain a)) = .identity o) :
    process cfg env (withA r (asEnc a)) = .identity o := by
  unfold process at h ⊢
  split at h
  · cases h
  next hb =>
    simp only [hb]
    split at h
    · cases h
    next cf respSigned h1 =>
      obtain ⟨h1e, hscan⟩ := pass1_enc h1
      rw [h1e]
      simp only at h ⊢
      split at h
      · cases h
      next pp assertSigned h2 =>
        rcases pass2_enc hscan h2 with ⟨hp, he⟩ | ⟨st1, hp, he⟩
        · subst hp
          rw [he]
          simp only at h ⊢
          split at h <;> cases h
        · subst hp
          rw [he]
          simp only at h ⊢
          split at h
          · cases h
          next hei =>
            simp only [hei, if_false]
            exact h

/-! ### the reported subject identifier is the assertion's -/

theorem bearerConfirmed_nameId {cfg : Cfg} {env : Env} {st st' : St} {d : Option ScData}
    (h : bearerConfirmed cfg env st d = .yes st') : st'.nameId = st.nameId := by
  unfold bearerConfirmed at h
  split at h
  · cases h
  next dd =>
    split at h
    · cases h
    split at h
    · cases h
    split at h
    · cases h
    split at h
    · split at h
      next i hi =>
        split at h
        · cases h; rfl
        · split at h
          · cases h; rfl
          · split at h
            · cases h; rfl
            · cases h
      · cases h; rfl
    · cases h; rfl

theorem confirmLoop_nameId {cfg : Cfg} {env : Env} :
    ∀ {confs : List SubjConf} {st st' : St} {n m : Nat},
      confirmLoop cfg env st confs n = .ok (st', m) → st'.nameId = st.nameId
  | [], st, st', n, m, h => by
    unfold confirmLoop at h; cases h; rfl
  | sc :: rest, st, st', n, m, h => by
    unfold confirmLoop at h
    simp only at h
    split at h
    · cases h
    · exact confirmLoop_nameId h
    next st1 hstep =>
      have hc1 : st1.nameId = st.nameId := by
        split at hstep
        · exact bearerConfirmed_nameId hstep
        · split at hstep
          · split at hstep
            · cases hstep; rfl
            · cases hstep
          · cases hstep
        · cases hstep; rfl
        · cases hstep
      split at h
      · cases h
      next d hd =>
        split at h
        next r hr =>
          split at h
          · rw [confirmLoop_nameId h, hc1]
          · cases h
        · cases h

theorem conditionOk_nameId {cfg : Cfg} {env : Env} {st st' : St} {a : Assertion}
    (h : conditionOk cfg env st a = .ok st') : st'.nameId = st.nameId := by
  unfold conditionOk at h
  split at h
  · cases h; rfl
  next c hc =>
    split at h
    · cases h; rfl
    split at h
    · cases h
    split at h
    · cases h
    split at h
    · cases h
    split at h
    · cases h
    split at h
    · cases h
    cases h; rfl

theorem getSubject_nameId {cfg : Cfg} {env : Env} {st st' : St} {a : Assertion}
    (hn : st.nameId = none) (h : getSubject cfg env st a = .ok st') :
    st'.nameId = a.subject.bind (·.nameId) := by
  unfold getSubject at h
  split at h
  · cases h
  next s hs =>
    split at h
    · cases h
    split at h
    · cases h
    next st1 n hl =>
      have h1 := confirmLoop_nameId hl
      rw [hs]
      simp only [Option.bind_some]
      split at h
      · cases h
      · -- `subjectId` (Model/Sp.lean): the identifier is `s.nameId` whenever it is read at all
        have hid : ∀ x, subjectId s = .ok x → x = s.nameId := by
          intro x hx
          unfold subjectId at hx
          split at hx
          · cases hx
          · exact (Except.ok.inj hx).symm
        split at h
        · cases h
        next hnone => cases h; rw [h1, hn]; exact hid _ hnone
        next m hsome => cases h; exact hid _ hsome

theorem checkAssertion_nameId {cfg : Cfg} {env : Env} {rs v : Bool} {st st' : St} {a : Assertion}
    (hn : st.nameId = none) (h : checkAssertion cfg env rs v st a = .ok st') :
    st'.nameId = a.subject.bind (·.nameId) := by
  obtain ⟨_, st1, st2, e1, e2, e3, _⟩ := checkAssertion_inv h
  obtain ⟨_, _, _, _, _, h1, _⟩ := authnStatementOk_inv e1
  have h2 := conditionOk_nameId e2
  apply getSubject_nameId _ e3
  rw [h2, h1]; exact hn

/-- The subject identifier reported for a single-assertion Response is the one in that assertion. -/
theorem process_nameId {cfg : Cfg} {env : Env} {r : Response} {a : Assertion} {o : Reported}
    (h : process cfg env (withA r (asPlain a)) = .identity o) :
    o.nameId = a.subject.bind (·.nameId) := by
  obtain ⟨_, cf, _, rs, p, _, _, _, hv, _, _, _, a', rest, s, srest, _, _, ho⟩ := process_identity_inv h
  rw [verify_withA, parseAssertion_plain] at hv
  subst ho
  simp only
  cases hve : verifyEnvelope cfg env r with
  | error e => rw [hve] at hv; cases hv
  | ok b =>
    rw [hve] at hv
    cases b with
    | false => cases hv
    | true =>
      simp only at hv
      cases hc : checkAssertion cfg env rs false { cameFrom := cf } a with
      | error e => rw [hc] at hv; cases hv
      | ok st1 =>
        rw [hc] at hv
        cases hv
        exact checkAssertion_nameId rfl hc

/-! ### a sealed assertion that does not open -/

/-- A Response whose single assertion is an EncryptedAssertion the recipient cannot open (wrong key,
    damaged ciphertext or wrapped key, or no EncryptedData at all) never yields identity. -/
theorem process_shut {cfg : Cfg} {env : Env} {r : Response} {a : Assertion}
    (ha : a.encrypted = true) (hd : a.decryptable = false) :
    (process cfg env (withA r a)).isIdentity = false := by
  cases hp : process cfg env (withA r a) with
  | noIdentity => rfl
  | rejected e => rfl
  | identity o =>
    exfalso
    obtain ⟨_, cf, _, rs, p, _, _, _, hv, _, _, _, a', rest, _, _, hused, _⟩ := process_identity_inv hp
    obtain ⟨_, hpa⟩ := verify_some_inv hv
    obtain ⟨_, _, _, hu, _⟩ := parseAssertion_inv hpa
    have h1 : plainOf (withA r a) = [] := by simp [plainOf, withA, ha]
    have h2 : decOf (withA r a) = [] := by simp [decOf, encOf, withA, ha, hd]
    rw [hu, h1, h2] at hused
    cases hused

end Sp
