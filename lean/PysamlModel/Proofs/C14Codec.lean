/-
  C14 — helper lemmas about the codecs of `Model/Codec.lean` (base64, html.escape, quote_plus,
  urlencode / parse_qsl).  The property theorems built from them are in `Props/C14.lean`.
-/
import PysamlModel.Model.Codec
namespace Codec



theorem b64val_char (n : Nat) (h : n < 64) : b64val (b64char n) = some n := by
  unfold b64char b64val; grind

theorem b64char_ne_pad (n : Nat) : b64char n ≠ 61 := by
  unfold b64char; grind

theorem b64dec_char0 (l p n : Nat) (rest : Bytes) (h : n < 64) :
    b64dec 0 l p (b64char n :: rest) = b64dec 1 n 0 rest := by
  rw [b64dec]; simp only [b64char_ne_pad, if_false, b64val_char n h]
theorem b64dec_char1 (l p n : Nat) (rest : Bytes) (h : n < 64) :
    b64dec 1 l p (b64char n :: rest) = (b64dec 2 (n % 16) 0 rest).map ((l * 4 + n / 16) :: ·) := by
  rw [b64dec]; simp only [b64char_ne_pad, if_false, b64val_char n h]
theorem b64dec_char2 (l p n : Nat) (rest : Bytes) (h : n < 64) :
    b64dec 2 l p (b64char n :: rest) = (b64dec 3 (n % 4) 0 rest).map ((l * 16 + n / 4) :: ·) := by
  rw [b64dec]; simp only [b64char_ne_pad, if_false, b64val_char n h]
theorem b64dec_char3 (l p n : Nat) (rest : Bytes) (h : n < 64) :
    b64dec 3 l p (b64char n :: rest) = (b64dec 0 0 0 rest).map ((l * 64 + n) :: ·) := by
  rw [b64dec]; simp only [b64char_ne_pad, if_false, b64val_char n h]

theorem b64dec_quad (a b c : Nat) (rest : Bytes) (ha : a < 256) (hb : b < 256) (hc : c < 256) :
    b64dec 0 0 0 (b64char (a / 4) :: b64char (a % 4 * 16 + b / 16) :: b64char (b % 16 * 4 + c / 64)
      :: b64char (c % 64) :: rest) = (b64dec 0 0 0 rest).map (fun t => a :: b :: c :: t) := by
  rw [b64dec_char0 _ _ _ _ (by omega), b64dec_char1 _ _ _ _ (by omega), b64dec_char2 _ _ _ _ (by omega),
    b64dec_char3 _ _ _ _ (by omega)]
  have h1 : a / 4 * 4 + (a % 4 * 16 + b / 16) / 16 = a := by omega
  have h2 : (a % 4 * 16 + b / 16) % 16 * 16 + (b % 16 * 4 + c / 64) / 4 = b := by omega
  have h3 : (b % 16 * 4 + c / 64) % 4 * 64 + c % 64 = c := by omega
  simp only [Option.map_map, h1, h2, h3]
  rfl

theorem b64_roundtrip (bs : Bytes) (h : IsBytes bs) : b64decode (b64encode bs) = some bs := by
  unfold b64decode
  induction bs using b64encode.induct with
  | case1 => simp [b64encode, b64dec]
  | case2 a =>
    have ha : a < 256 := h a (by simp)
    have h1 : a / 4 * 4 + (a % 4 * 16) / 16 = a := by omega
    rw [b64encode, b64dec_char0 _ _ _ _ (by omega), b64dec_char1 _ _ _ _ (by omega)]
    simp [b64dec]
    omega
  | case3 a b =>
    have ha : a < 256 := h a (by simp)
    have hb : b < 256 := h b (by simp)
    have h1 : a / 4 * 4 + (a % 4 * 16 + b / 16) / 16 = a := by omega
    have h2 : (a % 4 * 16 + b / 16) % 16 * 16 + (b % 16 * 4) / 4 = b := by omega
    rw [b64encode, b64dec_char0 _ _ _ _ (by omega), b64dec_char1 _ _ _ _ (by omega), b64dec_char2 _ _ _ _ (by omega)]
    simp [b64dec]
    omega
  | case4 a b c rest ih =>
    have ha : a < 256 := h a (by simp)
    have hb : b < 256 := h b (by simp)
    have hc : c < 256 := h c (by simp)
    have hr : IsBytes rest := fun x hx => h x (by simp [hx])
    rw [b64encode, b64dec_quad a b c _ ha hb hc, ih hr]
    rfl


theorem unescGo_skip (p s : Bytes) : unescGo p.length (p ++ s) = unescGo 0 s := by
  induction p with
  | nil => rfl
  | cons x p ih => simpa [unescGo] using ih

theorem unesc_escByte (x : Nat) (s : Bytes) : unescGo 0 (escByte x ++ s) = x :: unescGo 0 s := by
  unfold escByte
  by_cases h1 : x = 38
  · subst h1; simp [entAmp, unescGo, entityAt]
  by_cases h2 : x = 60
  · subst h2; simp [entLt, unescGo, entityAt]
  by_cases h3 : x = 62
  · subst h3; simp [entGt, unescGo, entityAt]
  by_cases h4 : x = 34
  · subst h4; simp [entQuot, unescGo, entityAt]
  by_cases h5 : x = 39
  · subst h5; simp [entApos, unescGo, entityAt]
  simp [h1, h2, h3, h4, h5, unescGo]

theorem htmlUnescape_escape (s : Bytes) : htmlUnescape (htmlEscape s) = s := by
  rw [htmlEscape_eq]; unfold htmlUnescape
  induction s with
  | nil => rfl
  | cons x s ih => rw [List.flatMap_cons, unesc_escByte, ih]

theorem escByte_clean (x : Nat) : ∀ c ∈ escByte x, c ≠ 60 ∧ c ≠ 62 ∧ c ≠ 34 ∧ c ≠ 39 := by
  unfold escByte
  intro c hc
  split at hc
  · revert c; decide
  split at hc
  · revert c; decide
  split at hc
  · revert c; decide
  split at hc
  · revert c; decide
  split at hc
  · revert c; decide
  simp at hc; subst hc; omega

theorem ampOk_escByte (x : Nat) (t : Bytes) : ampOk (escByte x ++ t) = ampOk t := by
  unfold escByte
  by_cases h1 : x = 38
  · subst h1; simp [entAmp, ampOk, entityAt]
  by_cases h2 : x = 60
  · subst h2; simp [entLt, ampOk, entityAt]
  by_cases h3 : x = 62
  · subst h3; simp [entGt, ampOk, entityAt]
  by_cases h4 : x = 34
  · subst h4; simp [entQuot, ampOk, entityAt]
  by_cases h5 : x = 39
  · subst h5; simp [entApos, ampOk, entityAt]
  simp [h1, h2, h3, h4, h5, ampOk]

/-- `html.escape` output is inert: none of `< > " '`, and `&` only as the start of an entity. -/
theorem htmlEscape_inert (s : Bytes) : inertEscaped (htmlEscape s) = true := by
  rw [htmlEscape_eq]
  unfold inertEscaped
  rw [Bool.and_eq_true]
  constructor
  · rw [List.all_eq_true]
    intro c hc
    obtain ⟨x, _, hx⟩ := List.mem_flatMap.mp hc
    have := escByte_clean x c hx
    simp [this]
  · induction s with
    | nil => rfl
    | cons x s ih => rw [List.flatMap_cons, ampOk_escByte, ih]

theorem htmlEscape_no_quote (s : Bytes) : 34 ∉ htmlEscape s := by
  intro h
  have := htmlEscape_inert s
  unfold inertEscaped at this
  rw [Bool.and_eq_true, List.all_eq_true] at this
  have := this.1 34 h
  simp at this



theorem hexVal_digit (n : Nat) (h : n < 16) : hexVal (hexDigit n) = some n := by
  unfold hexDigit hexVal; grind

theorem unqGo_skip (p s : Bytes) : unqGo p.length (p ++ s) = unqGo 0 s := by
  induction p with
  | nil => rfl
  | cons x p ih => simpa [unqGo] using ih

theorem unq_quoteByte (x : Nat) (hx : x < 256) (s : Bytes) :
    unqGo 0 ((quoteByte x).map (fun c => if c = 43 then 32 else c) ++ s) = x :: unqGo 0 s := by
  unfold quoteByte
  by_cases hu : isUnreserved x = true
  · have h37 : x ≠ 37 := by intro h; subst h; simp [isUnreserved] at hu
    have h43 : x ≠ 43 := by intro h; subst h; simp [isUnreserved] at hu
    simp [hu, h43, unqGo, h37]
  · by_cases hs : x = 32
    · subst hs; simp [isUnreserved, unqGo]
    · have d1 : hexDigit (x / 16) ≠ 43 := by unfold hexDigit; grind
      have d2 : hexDigit (x % 16) ≠ 43 := by unfold hexDigit; grind
      have v1 := hexVal_digit (x / 16) (by omega)
      have v2 := hexVal_digit (x % 16) (by omega)
      have hh : x / 16 * 16 + x % 16 = x := by omega
      have := unqGo_skip [hexDigit (x / 16), hexDigit (x % 16)] s
      simp [hu, hs, d1, d2, unqGo, v1, v2, hh] at this ⊢

theorem quote_roundtrip (s : Bytes) (h : IsBytes s) : unquotePlus (quotePlus s) = s := by
  unfold unquotePlus unquote quotePlus
  induction s with
  | nil => rfl
  | cons x s ih =>
    have hx : x < 256 := h x (by simp)
    have hs : IsBytes s := fun y hy => h y (by simp [hy])
    rw [List.flatMap_cons, List.map_append, unq_quoteByte x hx, ih hs]

theorem quotePlus_injective (a b : Bytes) (ha : IsBytes a) (hb : IsBytes b) (h : quotePlus a = quotePlus b) : a = b := by
  rw [← quote_roundtrip a ha, ← quote_roundtrip b hb, h]

theorem quoteByte_safe (x c : Nat) (hc : c ∈ quoteByte x) : c = 37 ∨ c = 43 ∨ isUnreserved c = true ∨ (65 ≤ c ∧ c ≤ 70) ∨ 71 ≤ c := by
  unfold quoteByte at hc
  split at hc
  · simp at hc; subst hc; simp [*]
  split at hc
  · simp at hc; simp [hc]
  · simp at hc
    unfold hexDigit at hc
    unfold isUnreserved
    rcases hc with h | h | h
    · simp [h]
    · subst h; split <;> simp <;> omega
    · subst h; split <;> simp <;> omega

/-- Reserved characters never appear in `quote_plus` output: no `&`, `=`, `#`, `?`, space. -/
theorem quotePlus_no_amp_eq (s : Bytes) : ∀ c ∈ quotePlus s, c ≠ 38 ∧ c ≠ 61 ∧ c ≠ 35 ∧ c ≠ 63 ∧ c ≠ 32 := by
  intro c hc
  obtain ⟨x, _, hx⟩ := List.mem_flatMap.mp hc
  rcases quoteByte_safe x c hx with h | h | h | h | h
  · omega
  · omega
  · unfold isUnreserved at h
    refine ⟨?_, ?_, ?_, ?_, ?_⟩ <;> (intro e; subst e; simp at h)
  · omega
  · omega


theorem splitOn_append_sep (sep : Nat) (a b : Bytes) (h : sep ∉ a) :
    splitOn sep (a ++ sep :: b) = (a, (splitOn sep b).1 :: (splitOn sep b).2) := by
  induction a with
  | nil => simp [splitOn]
  | cons x a ih =>
    have hx : x ≠ sep := by intro e; subst e; simp at h
    have ha : sep ∉ a := by intro e; exact h (by simp [e])
    simp [splitOn, hx, ih ha]

theorem splitOn_no_sep (sep : Nat) (a : Bytes) (h : sep ∉ a) : splitOn sep a = (a, []) := by
  induction a with
  | nil => rfl
  | cons x a ih =>
    have hx : x ≠ sep := by intro e; subst e; simp at h
    have ha : sep ∉ a := by intro e; exact h (by simp [e])
    simp [splitOn, hx, ih ha]

theorem split_append_sep (sep : Nat) (a b : Bytes) (h : sep ∉ a) :
    split sep (a ++ sep :: b) = a :: split sep b := by
  simp [split, splitOn_append_sep sep a b h]

theorem split_no_sep (sep : Nat) (a : Bytes) (h : sep ∉ a) : split sep a = [a] := by
  simp [split, splitOn_no_sep sep a h]

/-- Splitting distributes over a separator for ANY left part. -/
theorem split_append_sep_any (sep : Nat) (a b : Bytes) :
    split sep (a ++ sep :: b) = split sep a ++ split sep b := by
  induction a with
  | nil => simp [split, splitOn]
  | cons x a ih =>
    simp only [split] at ih ⊢
    simp only [List.cons_append, splitOn]
    by_cases hx : x = sep
    · simp [hx]; simpa using ih
    · simp [hx]
      have := ih
      simp at this
      exact this

theorem split_join (sep : Nat) (ps : List Bytes) (hne : ps ≠ []) (h : ∀ p ∈ ps, sep ∉ p) :
    split sep (joinWith sep ps) = ps := by
  induction ps with
  | nil => exact absurd rfl hne
  | cons p ps ih =>
    cases ps with
    | nil => simp [joinWith, split_no_sep sep p (h p (by simp))]
    | cons q rest =>
      rw [joinWith, split_append_sep sep p _ (h p (by simp)), ih (by simp) (fun x hx => h x (by simp [hx]))]

theorem splitFirst_append (sep : Nat) (a b : Bytes) (h : sep ∉ a) :
    splitFirst sep (a ++ sep :: b) = some (a, b) := by
  induction a with
  | nil => simp [splitFirst]
  | cons x a ih =>
    have hx : x ≠ sep := by intro e; subst e; simp at h
    have ha : sep ∉ a := by intro e; exact h (by simp [e])
    simp [splitFirst, hx, ih ha]


theorem quotePlus_eq_nil (s : Bytes) (h : quotePlus s = []) : s = [] := by
  cases s with
  | nil => rfl
  | cons x s =>
    exfalso
    unfold quotePlus at h
    rw [List.flatMap_cons] at h
    have : quoteByte x ≠ [] := by unfold quoteByte; split <;> (try split) <;> simp
    simp at h
    exact this h.1

theorem quotePlus_no (s : Bytes) (c : Nat) (hc : c = 38 ∨ c = 61 ∨ c = 35) : c ∉ quotePlus s := by
  intro h
  have := quotePlus_no_amp_eq s c h
  omega

theorem parseField_encodePair (k v : Bytes) (hk : IsBytes k) (hv : IsBytes v) (hne : v ≠ []) :
    parseField (encodePair (k, v)) = some (k, v) := by
  unfold parseField encodePair
  simp only
  rw [splitFirst_append 61 _ _ (quotePlus_no k 61 (by simp))]
  have : quotePlus v ≠ [] := fun e => hne (quotePlus_eq_nil v e)
  simp [this, quote_roundtrip k hk, quote_roundtrip v hv]

theorem encodePair_no_amp (kv : Bytes × Bytes) : 38 ∉ encodePair kv := by
  unfold encodePair
  intro h
  rcases List.mem_append.mp h with h | h
  · exact quotePlus_no _ 38 (by simp) h
  · simp at h
    exact quotePlus_no _ 38 (by simp) h

/-- `parse_qsl(urlencode(ps)) == ps` for any list of parameters with non-empty values. -/
theorem urlencode_roundtrip (ps : List (Bytes × Bytes))
    (h : ∀ kv ∈ ps, IsBytes kv.1 ∧ IsBytes kv.2 ∧ kv.2 ≠ []) : parseQsl (urlencode ps) = ps := by
  unfold parseQsl urlencode
  cases hps : ps with
  | nil => simp [joinWith, split, splitOn, parseField, splitFirst]
  | cons p rest =>
    rw [← hps, split_join 38 (ps.map encodePair) (by simp [hps])]
    · rw [List.filterMap_map]
      have : ∀ kv ∈ ps, (parseField ∘ encodePair) kv = some kv := by
        intro kv hkv
        obtain ⟨h1, h2, h3⟩ := h kv hkv
        exact parseField_encodePair kv.1 kv.2 h1 h2 h3
      clear hps
      induction ps with
      | nil => rfl
      | cons q qs ih =>
        rw [List.filterMap_cons, this q (by simp)]
        simp only
        rw [ih (fun kv hkv => h kv (by simp [hkv])) (fun kv hkv => this kv (by simp [hkv]))]
    · intro p hp
      obtain ⟨kv, _, rfl⟩ := List.mem_map.mp hp
      exact encodePair_no_amp kv

theorem urlencode_no_hash (ps : List (Bytes × Bytes)) : 35 ∉ urlencode ps := by
  unfold urlencode
  induction ps with
  | nil => simp [joinWith]
  | cons p ps ih =>
    have hp : 35 ∉ encodePair p := by
      unfold encodePair
      intro h
      rcases List.mem_append.mp h with h | h
      · exact quotePlus_no _ 35 (by simp) h
      · simp at h; exact quotePlus_no _ 35 (by simp) h
    cases ps with
    | nil => simpa [joinWith] using hp
    | cons q rest =>
      simp only [List.map_cons, joinWith] at ih ⊢
      intro h
      rcases List.mem_append.mp h with h | h
      · exact hp h
      · simp at h; exact ih h


end Codec
