/-
  C03 — helper lemmas about the key-selection model (no property statements here).
-/
import PysamlModel.Model.Keys
import PysamlModel.Spec.C03

namespace Keys
variable {ι κ : Type} [DecidableEq κ]

/-! ### `seqAppend` -/

omit [DecidableEq κ] in
theorem seqAppend_mem {xs : List (Option (List κ))} {cs : List κ} (h : seqAppend xs = some cs) (c : κ) :
    c ∈ cs ↔ ∃ l, some l ∈ xs ∧ c ∈ l := by
  induction xs generalizing cs with
  | nil =>
    simp only [seqAppend, Option.some.injEq] at h
    subst h
    simp
  | cons x rest ih =>
    cases x with
    | none => simp [seqAppend] at h
    | some l =>
      simp only [seqAppend] at h
      cases hr : seqAppend rest with
      | none => rw [hr] at h; cases h
      | some r =>
        rw [hr] at h
        simp only [Option.some.injEq] at h
        subst h
        simp only [List.mem_append, List.mem_cons, Option.some.injEq]
        rw [ih hr]
        constructor
        · rintro (h1 | ⟨l', hl', hc⟩)
          · exact ⟨l, Or.inl rfl, h1⟩
          · exact ⟨l', Or.inr hl', hc⟩
        · rintro ⟨l', (h1 | h1), hc⟩
          · subst h1; exact Or.inl hc
          · exact Or.inr ⟨l', h1, hc⟩

omit [DecidableEq κ] in
theorem seqAppend_some_of_all {xs : List (Option (List κ))} (h : ∀ x ∈ xs, x ≠ none) :
    ∃ cs, seqAppend xs = some cs := by
  induction xs with
  | nil => exact ⟨[], rfl⟩
  | cons x rest ih =>
    cases x with
    | none => exact absurd rfl (h none (by simp))
    | some l =>
      obtain ⟨r, hr⟩ := ih (fun y hy => h y (List.mem_cons_of_mem _ hy))
      exact ⟨l ++ r, by simp [seqAppend, hr]⟩

omit [DecidableEq κ] in
theorem seqAppend_all_of_some {xs : List (Option (List κ))} {cs : List κ} (h : seqAppend xs = some cs) :
    ∀ x ∈ xs, x ≠ none := by
  induction xs generalizing cs with
  | nil => intro x hx; cases hx
  | cons y rest ih =>
    cases y with
    | none => simp [seqAppend] at h
    | some l =>
      simp only [seqAppend] at h
      cases hr : seqAppend rest with
      | none => rw [hr] at h; cases h
      | some r =>
        intro x hx
        rcases List.mem_cons.mp hx with h1 | h1
        · subst h1; simp
        · exact ih hr x h1

/-! ### `use` filter -/

omit [DecidableEq κ] in
theorem applicable_signing_iff (kd : KeyDescr κ) :
    applicable .signing kd = true ↔ kd.use ≠ some .encryption := by
  unfold applicable
  cases h : kd.use with
  | none => simp
  | some u => cases u <;> simp

/-! ### what the metadata binds (declarative side) -/

omit [DecidableEq κ] in
theorem mem_kdBound {kd : KeyDescr κ} {c : κ} :
    c ∈ kdBound kd ↔ applicable .signing kd = true ∧ ∃ l, kd.certs = some l ∧ c ∈ l := by
  rw [applicable_signing_iff]
  unfold kdBound
  cases hu : kd.use with
  | none =>
    cases hcs : kd.certs with
    | none => simp
    | some l => simp
  | some u =>
    cases u with
    | encryption => simp
    | signing =>
      cases hcs : kd.certs with
      | none => simp
      | some l => simp

omit [DecidableEq κ] in
theorem mem_boundKeys {md : Metadata ι κ} {i : ι} {c : κ} :
    c ∈ boundKeys md (some i) ↔
      ∃ ent, md i = some ent ∧ ∃ r ∈ ent.roles, ∃ kd ∈ r.keys, applicable .signing kd = true ∧
        ∃ l, kd.certs = some l ∧ c ∈ l := by
  simp only [boundKeys]
  cases hmd : md i with
  | none => simp
  | some ent =>
    simp only [entBound, List.mem_flatMap, mem_kdBound, Option.some.injEq, exists_eq_left']

omit [DecidableEq κ] in
theorem boundKeys_none (md : Metadata ι κ) : boundKeys md none = [] := rfl

omit [DecidableEq κ] in
theorem boundKeys_unknown {md : Metadata ι κ} {i : ι} (h : md i = none) : boundKeys md (some i) = [] := by
  simp only [boundKeys, h]

/-! ### `MetaData.certs`: soundness (only bound certificates) and, for well-keyed entities and a
    complete role order, completeness -/

omit [DecidableEq κ] in
theorem extractCerts_sound {use : Use} {kds : List (KeyDescr κ)} {cs : List κ}
    (h : extractCerts use kds = some cs) {c : κ} (hc : c ∈ cs) :
    ∃ kd ∈ kds, applicable use kd = true ∧ ∃ l, kd.certs = some l ∧ c ∈ l := by
  unfold extractCerts at h
  obtain ⟨l, hl, hcl⟩ := (seqAppend_mem h c).mp hc
  obtain ⟨kd, hkd, hkdl⟩ := List.mem_map.mp hl
  obtain ⟨hin, happ⟩ := List.mem_filter.mp hkd
  exact ⟨kd, hin, happ, l, hkdl, hcl⟩

omit [DecidableEq κ] in
theorem certsAny_sound {order : List RoleKind} {use : Use} {ent : Entity κ} {cs : List κ}
    (h : certsAny order use ent = some cs) {c : κ} (hc : c ∈ cs) :
    ∃ r ∈ ent.roles, ∃ kd ∈ r.keys, applicable use kd = true ∧ ∃ l, kd.certs = some l ∧ c ∈ l := by
  unfold certsAny at h
  obtain ⟨l, hl, hcl⟩ := (seqAppend_mem h c).mp hc
  obtain ⟨k, _, hk⟩ := List.mem_map.mp hl
  unfold roleCerts at hk
  obtain ⟨kd, hkd, happ, l', hl', hcl'⟩ := extractCerts_sound hk hcl
  obtain ⟨r, hr, hkdr⟩ := List.mem_flatMap.mp hkd
  exact ⟨r, (List.mem_filter.mp hr).1, kd, hkdr, happ, l', hl', hcl'⟩

omit [DecidableEq κ] in
/-- Every certificate the metadata lookup returns is bound to the issuer for signing
    (for every role order, every metadata shape). -/
theorem mdCerts_sound {order : List RoleKind} {md : Metadata ι κ} {issuer : Option ι} {cs : List κ}
    (h : mdCerts order md issuer .signing = some cs) {c : κ} (hc : c ∈ cs) :
    c ∈ boundKeys md issuer := by
  unfold mdCerts at h
  cases issuer with
  | none => cases h
  | some i =>
    simp only at h
    cases hmd : md i with
    | none => rw [hmd] at h; cases h
    | some ent =>
      rw [hmd] at h
      simp only at h
      obtain ⟨r, hr, kd, hkd, happ, l, hl, hcl⟩ := certsAny_sound h hc
      exact mem_boundKeys.mpr ⟨ent, hmd, r, hr, kd, hkd, happ, l, hl, hcl⟩

omit [DecidableEq κ] in
theorem wellKeyed_kd {md : Metadata ι κ} {i : ι} {ent : Entity κ} (hw : wellKeyed md (some i) = true)
    (hmd : md i = some ent) {r : RoleDescr κ} (hr : r ∈ ent.roles) {kd : KeyDescr κ} (hkd : kd ∈ r.keys)
    (happ : applicable .signing kd = true) : kd.certs ≠ none := by
  simp only [wellKeyed, hmd, List.all_eq_true, Bool.or_eq_true, Bool.not_eq_true'] at hw
  rcases hw r hr kd hkd with h | h
  · rw [happ] at h; cases h
  · intro hn; rw [hn] at h; cases h

omit [DecidableEq κ] in
theorem roleCerts_some {md : Metadata ι κ} {i : ι} {ent : Entity κ} (hw : wellKeyed md (some i) = true)
    (hmd : md i = some ent) (k : RoleKind) : ∃ cs, roleCerts .signing ent k = some cs := by
  unfold roleCerts extractCerts
  apply seqAppend_some_of_all
  intro x hx
  obtain ⟨kd, hkd, rfl⟩ := List.mem_map.mp hx
  obtain ⟨hin, happ⟩ := List.mem_filter.mp hkd
  obtain ⟨r, hr, hkdr⟩ := List.mem_flatMap.mp hin
  exact wellKeyed_kd hw hmd (List.mem_filter.mp hr).1 hkdr happ

omit [DecidableEq κ] in
/-- For a well-keyed entity and a role order that names every role kind, the lookup succeeds
    and returns every bound certificate. -/
theorem certsAny_complete {order : List RoleKind} (hord : ∀ k : RoleKind, k ∈ order) {md : Metadata ι κ}
    {i : ι} {ent : Entity κ} (hw : wellKeyed md (some i) = true) (hmd : md i = some ent) :
    ∃ cs, certsAny order .signing ent = some cs ∧ ∀ c ∈ boundKeys md (some i), c ∈ cs := by
  have hall : ∀ x ∈ order.map (roleCerts .signing ent), x ≠ none := by
    intro x hx
    obtain ⟨k, _, rfl⟩ := List.mem_map.mp hx
    obtain ⟨cs, hcs⟩ := roleCerts_some hw hmd k
    rw [hcs]; simp
  obtain ⟨cs, hcs⟩ := seqAppend_some_of_all hall
  refine ⟨cs, hcs, ?_⟩
  intro c hc
  obtain ⟨ent', hmd', r, hr, kd, hkd, happ, l, hl, hcl⟩ := mem_boundKeys.mp hc
  rw [hmd] at hmd'
  cases hmd'
  obtain ⟨rc, hrc⟩ := roleCerts_some hw hmd r.kind
  have hc_rc : c ∈ rc := by
    have hrc' := hrc
    unfold roleCerts extractCerts at hrc'
    refine (seqAppend_mem hrc' c).mpr ⟨l, ?_, hcl⟩
    refine List.mem_map.mpr ⟨kd, List.mem_filter.mpr ⟨?_, happ⟩, hl⟩
    exact List.mem_flatMap.mpr ⟨r, List.mem_filter.mpr ⟨hr, by simp⟩, hkd⟩
  refine (seqAppend_mem hcs c).mpr ⟨rc, ?_, hc_rc⟩
  exact List.mem_map.mpr ⟨r.kind, hord r.kind, hrc⟩

/-! ### the verification loop -/

theorem verifies_restricted (c : κ) (m : Msg ι κ) : verifies true c m = true ↔ m.signer = some c := by
  simp [verifies, verifyKey]

theorem tryCerts_true {restricted : Bool} {m : Msg ι κ} {cs : List κ}
    (h : (tryCerts restricted m cs).1 = true) : ∃ c ∈ cs, verifies restricted c m = true := by
  induction cs with
  | nil => simp [tryCerts] at h
  | cons c rest ih =>
    unfold tryCerts at h
    by_cases hv : verifies restricted c m = true
    · exact ⟨c, by simp, hv⟩
    · rw [if_neg hv] at h
      obtain ⟨c', hc', hv'⟩ := ih h
      exact ⟨c', List.mem_cons_of_mem _ hc', hv'⟩

theorem tryCerts_of_mem {restricted : Bool} {m : Msg ι κ} {cs : List κ} {c : κ} (hc : c ∈ cs)
    (hv : verifies restricted c m = true) : (tryCerts restricted m cs).1 = true := by
  induction cs with
  | nil => cases hc
  | cons d rest ih =>
    unfold tryCerts
    by_cases hd : verifies restricted d m = true
    · rw [if_pos hd]
    · rw [if_neg hd]
      rcases List.mem_cons.mp hc with h1 | h1
      · subst h1; exact absurd hv hd
      · exact ih h1

theorem tryCerts_handed_subset {restricted : Bool} {m : Msg ι κ} {cs : List κ} {c : κ}
    (h : c ∈ (tryCerts restricted m cs).2) : c ∈ cs := by
  induction cs with
  | nil => simp [tryCerts] at h
  | cons d rest ih =>
    unfold tryCerts at h
    by_cases hd : verifies restricted d m = true
    · rw [if_pos hd] at h
      simp only [List.mem_singleton] at h
      subst h; simp
    · rw [if_neg hd] at h
      rcases List.mem_cons.mp h with h1 | h1
      · subst h1; simp
      · exact List.mem_cons_of_mem _ (ih h1)

/-! ### `_check_signature` -/

theorem checkSignature_accepted {restricted : Bool} {order : List RoleKind} {onlyMd : Bool}
    {md : Metadata ι κ} {m : Msg ι κ}
    (h : (checkSignature restricted order onlyMd md m).verdict = .accepted) :
    ∃ c ∈ selectCerts order onlyMd md m, verifies restricted c m = true := by
  unfold checkSignature at h
  simp only at h
  split at h
  · cases h
  · simp only at h
    split at h
    next hv => exact tryCerts_true hv
    next => cases h

theorem checkSignature_handed_subset {restricted : Bool} {order : List RoleKind} {onlyMd : Bool}
    {md : Metadata ι κ} {m : Msg ι κ} {c : κ}
    (h : c ∈ (checkSignature restricted order onlyMd md m).handed) :
    c ∈ selectCerts order onlyMd md m := by
  unfold checkSignature at h
  simp only at h
  split at h
  · cases h
  · exact tryCerts_handed_subset h

omit [DecidableEq κ] in
/-- Where the selected certificates come from. -/
theorem selectCerts_cases (order : List RoleKind) (onlyMd : Bool) (md : Metadata ι κ) (m : Msg ι κ) :
    (∃ cs, mdCerts order md m.issuer .signing = some cs ∧ selectCerts order onlyMd md m = cs) ∨
    (onlyMd = false ∧ (mdCerts order md m.issuer .signing = none ∨ mdCerts order md m.issuer .signing = some []) ∧
      selectCerts order onlyMd md m = m.keyInfo.certs) ∨
    (onlyMd = true ∧ selectCerts order onlyMd md m = []) := by
  unfold selectCerts
  cases hmc : mdCerts order md m.issuer .signing with
  | none =>
    cases onlyMd with
    | true => right; right; simp
    | false => right; left; simp
  | some cs =>
    cases cs with
    | nil =>
      cases onlyMd with
      | true => right; right; simp
      | false => right; left; simp
    | cons c rest => left; exact ⟨c :: rest, rfl, by simp⟩

omit [DecidableEq κ] in
/-- When the lookup gives nothing for a well-keyed issuer (complete role order), nothing is bound. -/
theorem boundKeys_nil_of_lookup_empty {order : List RoleKind} (hord : ∀ k : RoleKind, k ∈ order)
    {md : Metadata ι κ} {issuer : Option ι} (hw : wellKeyed md issuer = true)
    (h : mdCerts order md issuer .signing = none ∨ mdCerts order md issuer .signing = some []) :
    boundKeys md issuer = [] := by
  cases issuer with
  | none => rfl
  | some i =>
    cases hmd : md i with
    | none => exact boundKeys_unknown hmd
    | some ent =>
      obtain ⟨cs, hcs, hsub⟩ := certsAny_complete hord hw hmd
      have hmc : mdCerts order md (some i) .signing = some cs := by
        simp only [mdCerts, hmd, hcs]
      rw [hmc] at h
      rcases h with h | h
      · cases h
      · simp only [Option.some.injEq] at h
        subst h
        apply List.eq_nil_iff_forall_not_mem.mpr
        intro c hc
        exact absurd (hsub c hc) (by simp)

theorem tryCerts_congr {m m' : Msg ι κ} (hs : m.signer = m'.signer) (cs : List κ) :
    tryCerts true m cs = tryCerts true m' cs := by
  induction cs with
  | nil => rfl
  | cons c rest ih =>
    unfold tryCerts
    have : verifies true c m = verifies true c m' := by simp [verifies, verifyKey, hs]
    rw [this, ih]

theorem redirectCheck_accepted {order : List RoleKind} {md : Metadata ι κ} {issuer : Option ι}
    {signer : Option κ} (h : (redirectCheck order md issuer signer).verdict = .accepted) :
    ∃ cs, mdCerts order md issuer .signing = some cs ∧ ∃ c ∈ cs, signer = some c := by
  unfold redirectCheck at h
  cases hmc : mdCerts order md issuer .signing with
  | none => rw [hmc] at h; cases h
  | some cs =>
    rw [hmc] at h
    simp only at h
    split at h
    next hv =>
      obtain ⟨c, hc, hvc⟩ := tryCerts_true hv
      exact ⟨cs, rfl, c, hc, (verifies_restricted c _).mp hvc⟩
    next => cases h

theorem accept_detached_accepted {restricted : Bool} {order : List RoleKind} {onlyMd : Bool}
    {md : Metadata ι κ} {env : Bool} {m : Msg ι κ}
    (h : (accept restricted order onlyMd md (.detached env) m).accepted = true) :
    (redirectCheck order md m.issuer m.signer).verdict = .accepted := by
  unfold accept at h
  simp only at h
  split at h
  · split at h
    · simpa using h
    · cases h
  · split at h
    · simpa using h
    · cases h

end Keys
