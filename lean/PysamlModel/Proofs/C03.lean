/-
  C03 — helper lemmas about the key-selection model (no property statements here).
-/
import PysamlModel.Model.Keys
import PysamlModel.Spec.C03

namespace Keys
variable {ι κ : Type} [DecidableEq κ]

/-! ### `use` filter -/

omit [DecidableEq κ] in
theorem applicable_signing_iff (kd : KeyDescr κ) :
    applicable .signing kd = true ↔ kd.use ≠ some .encryption := by
  unfold applicable
  cases h : kd.use with
  | none => simp
  | some u => cases u <;> simp

/-! ### what the metadata binds (declarative side) -/

omit [DecidableEq κ] in
theorem mem_kdBound {kd : KeyDescr κ} {c : κ} :
    c ∈ kdBound kd ↔ applicable .signing kd = true ∧ c ∈ kdCerts kd := by
  rw [applicable_signing_iff]
  unfold kdBound kdCerts
  cases hu : kd.use with
  | none => simp
  | some u => cases u <;> simp

omit [DecidableEq κ] in
theorem mem_boundKeys {md : Metadata ι κ} {i : ι} {c : κ} :
    c ∈ boundKeys md (some i) ↔
      ∃ ent, md i = some ent ∧ ∃ r ∈ ent.roles, ∃ kd ∈ r.keys, applicable .signing kd = true ∧ c ∈ kdCerts kd := by
  simp only [boundKeys]
  cases hmd : md i with
  | none => simp
  | some ent =>
    simp only [entBound, List.mem_flatMap, mem_kdBound, Option.some.injEq, exists_eq_left']

omit [DecidableEq κ] in
theorem boundKeys_none (md : Metadata ι κ) : boundKeys md none = [] := rfl

omit [DecidableEq κ] in
theorem boundKeys_unknown {md : Metadata ι κ} {i : ι} (h : md i = none) : boundKeys md (some i) = [] := by
  simp only [boundKeys, h]

/-! ### `MetaData.certs`: soundness (only bound certificates, any role order) and completeness
    (every bound certificate, for a role order that names every role kind) -/

omit [DecidableEq κ] in
theorem mem_extractCerts {use : Use} {kds : List (KeyDescr κ)} {c : κ} :
    c ∈ extractCerts use kds ↔ ∃ kd ∈ kds, applicable use kd = true ∧ c ∈ kdCerts kd := by
  unfold extractCerts
  simp only [List.mem_flatMap, List.mem_filter]
  constructor
  · rintro ⟨kd, ⟨h1, h2⟩, h3⟩; exact ⟨kd, h1, h2, h3⟩
  · rintro ⟨kd, h1, h2, h3⟩; exact ⟨kd, ⟨h1, h2⟩, h3⟩

omit [DecidableEq κ] in
theorem mem_roleCerts {use : Use} {ent : Entity κ} {k : RoleKind} {c : κ} :
    c ∈ roleCerts use ent k ↔
      ∃ r ∈ ent.roles, r.kind = k ∧ ∃ kd ∈ r.keys, applicable use kd = true ∧ c ∈ kdCerts kd := by
  unfold roleCerts
  rw [mem_extractCerts]
  simp only [List.mem_flatMap, List.mem_filter, decide_eq_true_eq]
  constructor
  · rintro ⟨kd, ⟨r, ⟨hr, hk⟩, hkd⟩, happ, hc⟩; exact ⟨r, hr, hk, kd, hkd, happ, hc⟩
  · rintro ⟨r, hr, hk, kd, hkd, happ, hc⟩; exact ⟨kd, ⟨r, ⟨hr, hk⟩, hkd⟩, happ, hc⟩

omit [DecidableEq κ] in
theorem certsAny_sound {order : List RoleKind} {use : Use} {ent : Entity κ} {c : κ}
    (hc : c ∈ certsAny order use ent) :
    ∃ r ∈ ent.roles, ∃ kd ∈ r.keys, applicable use kd = true ∧ c ∈ kdCerts kd := by
  unfold certsAny at hc
  obtain ⟨k, _, hk⟩ := List.mem_flatMap.mp hc
  obtain ⟨r, hr, _, kd, hkd, happ, hckd⟩ := mem_roleCerts.mp hk
  exact ⟨r, hr, kd, hkd, happ, hckd⟩

omit [DecidableEq κ] in
theorem certsAny_complete {order : List RoleKind} (hord : ∀ k : RoleKind, k ∈ order) {use : Use}
    {ent : Entity κ} {r : RoleDescr κ} (hr : r ∈ ent.roles) {kd : KeyDescr κ} (hkd : kd ∈ r.keys)
    (happ : applicable use kd = true) {c : κ} (hc : c ∈ kdCerts kd) :
    c ∈ certsAny order use ent := by
  unfold certsAny
  exact List.mem_flatMap.mpr ⟨r.kind, hord r.kind, mem_roleCerts.mpr ⟨r, hr, rfl, kd, hkd, happ, hc⟩⟩

omit [DecidableEq κ] in
/-- Every certificate the metadata lookup returns is bound to the issuer for signing
    (for every role order, every metadata shape). -/
theorem mdCerts_sound {order : List RoleKind} {md : Metadata ι κ} {issuer : Option ι} {cs : List κ}
    (h : mdCerts order md issuer .signing = some cs) {c : κ} (hc : c ∈ cs) :
    c ∈ boundKeys md issuer := by
  unfold mdCerts at h
  cases issuer with
  | none => cases h
  | some i =>
    simp only at h
    cases hmd : md i with
    | none => rw [hmd] at h; cases h
    | some ent =>
      rw [hmd] at h
      simp only [Option.some.injEq] at h
      subst h
      obtain ⟨r, hr, kd, hkd, happ, hckd⟩ := certsAny_sound hc
      exact mem_boundKeys.mpr ⟨ent, hmd, r, hr, kd, hkd, happ, hckd⟩

omit [DecidableEq κ] in
/-- For a role order that names every role kind the lookup returns every bound certificate. -/
theorem mdCerts_complete {order : List RoleKind} (hord : ∀ k : RoleKind, k ∈ order) {md : Metadata ι κ}
    {issuer : Option ι} {c : κ} (hc : c ∈ boundKeys md issuer) :
    ∃ cs, mdCerts order md issuer .signing = some cs ∧ c ∈ cs := by
  cases issuer with
  | none => cases hc
  | some i =>
    obtain ⟨ent, hmd, r, hr, kd, hkd, happ, hckd⟩ := mem_boundKeys.mp hc
    exact ⟨certsAny order .signing ent, by simp only [mdCerts, hmd],
      certsAny_complete hord hr hkd happ hckd⟩

omit [DecidableEq κ] in
/-- When the lookup gives nothing (complete role order), nothing is bound. -/
theorem boundKeys_nil_of_lookup_empty {order : List RoleKind} (hord : ∀ k : RoleKind, k ∈ order)
    {md : Metadata ι κ} {issuer : Option ι}
    (h : mdCerts order md issuer .signing = none ∨ mdCerts order md issuer .signing = some []) :
    boundKeys md issuer = [] := by
  apply List.eq_nil_iff_forall_not_mem.mpr
  intro c hc
  obtain ⟨cs, hcs, hmem⟩ := mdCerts_complete hord hc
  rw [hcs] at h
  rcases h with h | h
  · cases h
  · simp only [Option.some.injEq] at h
    subst h
    cases hmem

/-! ### the verification loop -/

theorem verifies_restricted {kindOf : κ → CertKind} {c : κ} {m : Msg ι κ}
    (h : verifies true kindOf c m = true) : m.signer = some c ∧ kindOf c = .rsa := by
  unfold verifies at h
  cases hk : kindOf c with
  | malformed => rw [hk] at h; cases h
  | other => rw [hk] at h; simp at h
  | rsa => rw [hk] at h; exact ⟨by simpa [verifyKey] using h, rfl⟩

theorem verifies_restricted_rsa {kindOf : κ → CertKind} {c : κ} {m : Msg ι κ} (hk : kindOf c = .rsa)
    (hs : m.signer = some c) : verifies true kindOf c m = true := by
  unfold verifies
  rw [hk]
  simp [verifyKey, hs]

theorem tryCerts_true {restricted : Bool} {kindOf : κ → CertKind} {m : Msg ι κ} {cs : List κ}
    (h : (tryCerts restricted kindOf m cs).1 = true) : ∃ c ∈ cs, verifies restricted kindOf c m = true := by
  induction cs with
  | nil => simp [tryCerts] at h
  | cons c rest ih =>
    unfold tryCerts at h
    by_cases hv : verifies restricted kindOf c m = true
    · exact ⟨c, by simp, hv⟩
    · rw [if_neg hv] at h
      obtain ⟨c', hc', hv'⟩ := ih h
      exact ⟨c', List.mem_cons_of_mem _ hc', hv'⟩

theorem tryCerts_of_mem {restricted : Bool} {kindOf : κ → CertKind} {m : Msg ι κ} {cs : List κ} {c : κ}
    (hc : c ∈ cs) (hv : verifies restricted kindOf c m = true) : (tryCerts restricted kindOf m cs).1 = true := by
  induction cs with
  | nil => cases hc
  | cons d rest ih =>
    unfold tryCerts
    by_cases hd : verifies restricted kindOf d m = true
    · rw [if_pos hd]
    · rw [if_neg hd]
      rcases List.mem_cons.mp hc with h1 | h1
      · subst h1; exact absurd hv hd
      · exact ih h1

theorem tryCerts_handed_subset {restricted : Bool} {kindOf : κ → CertKind} {m : Msg ι κ} {cs : List κ} {c : κ}
    (h : c ∈ (tryCerts restricted kindOf m cs).2) : c ∈ cs := by
  induction cs with
  | nil => simp [tryCerts] at h
  | cons d rest ih =>
    unfold tryCerts at h
    by_cases hd : verifies restricted kindOf d m = true
    · rw [if_pos hd] at h
      simp only [List.mem_singleton] at h
      subst h; simp
    · rw [if_neg hd] at h
      rcases List.mem_cons.mp h with h1 | h1
      · subst h1; simp
      · exact List.mem_cons_of_mem _ (ih h1)

theorem verifies_congr {kindOf : κ → CertKind} {m m' : Msg ι κ} (hs : m.signer = m'.signer) (c : κ) :
    verifies true kindOf c m = verifies true kindOf c m' := by
  unfold verifies
  cases kindOf c <;> simp [verifyKey, hs]

theorem tryCerts_congr {kindOf : κ → CertKind} {m m' : Msg ι κ} (hs : m.signer = m'.signer) (cs : List κ) :
    tryCerts true kindOf m cs = tryCerts true kindOf m' cs := by
  induction cs with
  | nil => rfl
  | cons c rest ih =>
    unfold tryCerts
    rw [verifies_congr hs c, ih]

/-! ### `_check_signature` -/

theorem checkSignature_accepted {restricted : Bool} {kindOf : κ → CertKind} {order : List RoleKind}
    {onlyMd : Bool} {md : Metadata ι κ} {m : Msg ι κ}
    (h : (checkSignature restricted kindOf order onlyMd md m).verdict = .accepted) :
    ∃ c ∈ selectCerts order onlyMd md m, verifies restricted kindOf c m = true := by
  unfold checkSignature at h
  simp only at h
  split at h
  · cases h
  · simp only at h
    split at h
    next hv => exact tryCerts_true hv
    next => cases h

theorem checkSignature_handed_subset {restricted : Bool} {kindOf : κ → CertKind} {order : List RoleKind}
    {onlyMd : Bool} {md : Metadata ι κ} {m : Msg ι κ} {c : κ}
    (h : c ∈ (checkSignature restricted kindOf order onlyMd md m).handed) :
    c ∈ selectCerts order onlyMd md m := by
  unfold checkSignature at h
  simp only at h
  split at h
  · cases h
  · exact tryCerts_handed_subset h

omit [DecidableEq κ] in
/-- Where the selected certificates come from. -/
theorem selectCerts_cases (order : List RoleKind) (onlyMd : Bool) (md : Metadata ι κ) (m : Msg ι κ) :
    (∃ cs, mdCerts order md m.issuer .signing = some cs ∧ selectCerts order onlyMd md m = cs) ∨
    (onlyMd = false ∧ (mdCerts order md m.issuer .signing = none ∨ mdCerts order md m.issuer .signing = some []) ∧
      selectCerts order onlyMd md m = m.keyInfo.certs) ∨
    (onlyMd = true ∧ selectCerts order onlyMd md m = []) := by
  unfold selectCerts
  cases hmc : mdCerts order md m.issuer .signing with
  | none =>
    cases onlyMd with
    | true => right; right; simp
    | false => right; left; simp
  | some cs =>
    cases cs with
    | nil =>
      cases onlyMd with
      | true => right; right; simp
      | false => right; left; simp
    | cons c rest => left; exact ⟨c :: rest, rfl, by simp⟩

omit [DecidableEq κ] in
theorem effIssuer_of_some {arg : Option ι} {m : Msg ι κ} {i : ι} (h : m.issuer = some i) :
    effIssuer arg m = some i := by
  simp [effIssuer, h]

/-! ### Redirect and the message kinds -/

theorem redirectVerifyOne_true {kindOf : κ → CertKind} {own : κ} {signer : Option κ} {c : κ}
    (h : redirectVerifyOne kindOf own signer c = some true) : signer = some c ∧ kindOf c = .rsa := by
  unfold redirectVerifyOne extractKey at h
  cases hk : kindOf c with
  | malformed => rw [hk] at h; cases h
  | other => rw [hk] at h; simp [signerVerify] at h
  | rsa => rw [hk] at h; exact ⟨by simpa [signerVerify] using h, rfl⟩

/-- The receiver's own key is never the key a detached signature is checked with. -/
theorem redirectVerifyOne_own_irrelevant (kindOf : κ → CertKind) (own own' : κ) (signer : Option κ) (c : κ) :
    redirectVerifyOne kindOf own signer c = redirectVerifyOne kindOf own' signer c := by
  unfold redirectVerifyOne extractKey
  cases kindOf c <;> simp [signerVerify]

theorem tryRedirect_true {kindOf : κ → CertKind} {own : κ} {signer : Option κ} {cs : List κ}
    (h : (tryRedirect kindOf own signer cs).1 = some true) :
    ∃ c ∈ cs, signer = some c ∧ kindOf c = .rsa := by
  induction cs with
  | nil => simp [tryRedirect] at h
  | cons c rest ih =>
    unfold tryRedirect at h
    cases hv : redirectVerifyOne kindOf own signer c with
    | none => rw [hv] at h; cases h
    | some b =>
      cases b with
      | true =>
        obtain ⟨h1, h2⟩ := redirectVerifyOne_true hv
        exact ⟨c, by simp, h1, h2⟩
      | false =>
        rw [hv] at h
        obtain ⟨c', hc', h'⟩ := ih h
        exact ⟨c', List.mem_cons_of_mem _ hc', h'⟩

theorem tryRedirect_own_irrelevant (kindOf : κ → CertKind) (own own' : κ) (signer : Option κ) (cs : List κ) :
    tryRedirect kindOf own signer cs = tryRedirect kindOf own' signer cs := by
  induction cs with
  | nil => rfl
  | cons c rest ih =>
    unfold tryRedirect
    rw [redirectVerifyOne_own_irrelevant kindOf own own' signer c, ih]

theorem redirectCheck_accepted {kindOf : κ → CertKind} {own : κ} {order : List RoleKind} {md : Metadata ι κ}
    {issuer : Option ι} {signer : Option κ}
    (h : (redirectCheck kindOf own order md issuer signer).verdict = .accepted) :
    ∃ cs, mdCerts order md issuer .signing = some cs ∧ ∃ c ∈ cs, signer = some c ∧ kindOf c = .rsa := by
  unfold redirectCheck at h
  cases hmc : mdCerts order md issuer .signing with
  | none => rw [hmc] at h; cases h
  | some cs =>
    rw [hmc] at h
    simp only at h
    cases hr : (tryRedirect kindOf own signer cs).1 with
    | none => rw [hr] at h; cases h
    | some b =>
      cases b with
      | false => rw [hr] at h; cases h
      | true => exact ⟨cs, rfl, tryRedirect_true hr⟩

theorem checkSignatureOvc_false (restricted : Bool) (kindOf : κ → CertKind) (order : List RoleKind)
    (onlyMd : Bool) (md : Metadata ι κ) (m : Msg ι κ) :
    checkSignatureOvc restricted kindOf order onlyMd false md m = checkSignature restricted kindOf order onlyMd md m := by
  simp [checkSignatureOvc, checkSignature]

omit [DecidableEq κ] in
theorem redirectCheckP_accepted {kindOf : κ → CertKind} {own : κ} {order : List RoleKind} {md : Metadata ι κ}
    {issuer : Option ι} {signer : Option κ} {p : DetParams} [DecidableEq κ]
    (h : (redirectCheckP kindOf own order md issuer signer p).verdict = .accepted) :
    p = .ok ∧ (redirectCheck kindOf own order md issuer signer).verdict = .accepted := by
  cases p with
  | missing => cases h
  | unimplemented =>
    unfold redirectCheckP at h
    cases hmc : mdCerts order md issuer .signing with
    | none => rw [hmc] at h; cases h
    | some cs => rw [hmc] at h; cases h
  | ok => exact ⟨rfl, h⟩

theorem accept_detached_accepted {restricted : Bool} {kindOf : κ → CertKind} {own : κ} {order : List RoleKind}
    {onlyMd ovc must : Bool} {md : Metadata ι κ} {env : Bool} {p : DetParams} {m : Msg ι κ} (hm : (must || ovc) = true)
    (h : (accept restricted kindOf own order onlyMd ovc must md (.detached env p) m).accepted = true) :
    (redirectCheckP kindOf own order md m.issuer m.signer p).verdict = .accepted := by
  unfold accept at h
  simp only [hm, if_true] at h
  split at h
  · split at h
    · simpa using h
    · cases h
  · split at h
    · simpa using h
    · cases h

theorem accept_detached_env_accepted {restricted : Bool} {kindOf : κ → CertKind} {own : κ} {order : List RoleKind}
    {onlyMd ovc must : Bool} {md : Metadata ι κ} {p : DetParams} {m : Msg ι κ}
    (h : (accept restricted kindOf own order onlyMd ovc must md (.detached true p) m).accepted = true) :
    (checkSignatureOvc restricted kindOf order onlyMd ovc md m).verdict = .accepted := by
  unfold accept at h
  simp only [if_true] at h
  split at h
  next hx => exact hx
  next => cases h

theorem accept_after_accepted {restricted : Bool} {kindOf : κ → CertKind} {own : κ} {order : List RoleKind}
    {onlyMd ovc must : Bool} {md : Metadata ι κ} {first : Msg ι κ} {withArg : Bool} {m : Msg ι κ}
    (h : (accept restricted kindOf own order onlyMd ovc must md (.after first withArg) m).accepted = true) :
    (checkSignature restricted kindOf order onlyMd md first).verdict = .accepted ∧
    (checkSignatureArg restricted kindOf order onlyMd md (if withArg then first.issuer else none) m).verdict
      = .accepted := by
  unfold accept at h
  simp only at h
  split at h
  next h1 => exact ⟨h1, by simpa using h⟩
  next => cases h

omit [DecidableEq κ] in
/-- The metadata-only policy is the stricter one. -/
theorem KeyOrigin_mono {md : Metadata ι κ} {m : Msg ι κ} (h : KeyOrigin true md m) (b : Bool) : KeyOrigin b md m := by
  rcases h with h | ⟨hf, _⟩
  · exact Or.inl h
  · cases hf

/-- Whenever a value is meant as "on", the code reads it as "on" (top-level options). -/
theorem policy_le_normCommon (f : CfgForm) (dflt : Bool) (hd : dflt = true) (h : policy f = true) :
    normCommon dflt f = true := by
  cases f with
  | absent => simp [normCommon, hd]
  | bool b => simpa [policy, meaning, intended, normCommon] using h
  | int n =>
    match n with
    | 0 => simp [policy, meaning, intended] at h
    | 1 => simp [normCommon]
    | n + 2 => simp [normCommon]
  | textTrue => rfl
  | textFalse => rfl
  | textEmpty => simp [policy, meaning, intended] at h
  | textOther => rfl

/-- Per-service options: a value not meant as "on" is read as "off" by the code, and one meant as
    "on" is read as "on". -/
theorem meaning_normService (f : CfgForm) : meaning normService f = normService f := by
  cases f with
  | int n =>
    match n with
    | 0 => rfl
    | 1 => rfl
    | n + 2 => simp [meaning, intended]
  | _ => rfl

end Keys
