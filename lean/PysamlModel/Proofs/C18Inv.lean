/-
  C18 — helper lemmas: what the store operations do to a user's list of identifiers, and the
  invariant carried along arbitrary histories.
-/
import PysamlModel.Spec.C18
import PysamlModel.Proofs.C18Db
import PysamlModel.Proofs.C18Codec

namespace Ident
set_option linter.unusedSimpArgs false

/-! ### pieces and the identifiers they stand for -/

def heldOf (l : List Str) : List NameId := l.filterMap pieceNid

theorem held_eq (db : DB) (u : Str) : held db u = heldOf (userPieces db u) := rfl

theorem pieceNid_nil : pieceNid [] = none := by simp [pieceNid]

theorem pieceNid_code (n : NameId) (h : truthy n.text = true) : pieceNid (code n) = some n.norm := by
  have hne := code_ne_nil n h
  unfold pieceNid
  have : (code n).isEmpty = false := by
    cases hc : code n with
    | nil => exact absurd hc hne
    | cons _ _ => rfl
  simp [this, decode_code, Except.toOption]

theorem heldOf_append (a b : List Str) : heldOf (a ++ b) = heldOf a ++ heldOf b := by
  simp [heldOf, List.filterMap_append]

theorem heldOf_nilPiece : heldOf [[]] = [] := by simp [heldOf, pieceNid_nil]

theorem heldOf_ite (l : List Str) : heldOf (if l = [] then [[]] else l) = heldOf l := by
  by_cases h : l = []
  · subst h; simp [heldOf, pieceNid_nil]
  · simp [h]

theorem mem_heldOf {l : List Str} {m : NameId} : m ∈ heldOf l ↔ ∃ p ∈ l, pieceNid p = some m := by
  simp [heldOf, List.mem_filterMap]

theorem userPieces_congr {db db' : DB} {u : Str} (h : db'.get u = db.get u) :
    userPieces db' u = userPieces db u := by
  simp [userPieces, pieces, h]

theorem userPieces_noSpace (db : DB) (u : Str) : ∀ p ∈ userPieces db u, (32 : UInt8) ∉ p := by
  intro p hp
  unfold userPieces pieces at hp
  cases hg : db.get u with
  | none => simp [hg] at hp
  | some s =>
    simp only [hg, Option.map_some, Option.getD_some] at hp
    exact splitOn_noSep 32 s p hp

theorem userPieces_set_join (db : DB) (u : Str) (l : List Str) (hl : ∀ p ∈ l, (32 : UInt8) ∉ p) :
    userPieces (db.set u (joinWith 32 l)) u = if l = [] then [[]] else l := by
  unfold userPieces pieces
  rw [DB.get_set_self]
  simp only [Option.map_some, Option.getD_some]
  by_cases h : l = []
  · subst h; simp [joinWith, splitOn]
  · simp only [h, if_false]
    exact splitOn_join 32 l h hl

/-- a stored piece is `""` or the code of a normalised identifier with a value -/
def GoodP (p : Str) : Prop := p = [] ∨ ∃ n : NameId, p = code n ∧ n.norm = n ∧ truthy n.text = true

theorem goodP_nil : GoodP [] := Or.inl rfl

theorem goodP_code (n : NameId) (h : truthy n.text = true) : GoodP (code n) := by
  refine Or.inr ⟨n.norm, (code_norm n).symm, norm_norm n, ?_⟩
  simp only [NameId.norm]
  rw [truthy_normF]; exact h

theorem GoodP.nid {p : Str} {m : NameId} (g : GoodP p) (h : pieceNid p = some m) :
    p = code m ∧ m.norm = m ∧ truthy m.text = true := by
  rcases g with rfl | ⟨n, rfl, hn, ht⟩
  · simp [pieceNid_nil] at h
  · rw [pieceNid_code n ht, hn] at h
    cases h
    exact ⟨rfl, hn, ht⟩

theorem mem_heldOf_good {l : List Str} (hl : ∀ p ∈ l, GoodP p) {m : NameId} :
    m ∈ heldOf l ↔ (code m ∈ l ∧ m.norm = m ∧ truthy m.text = true) := by
  rw [mem_heldOf]
  constructor
  · rintro ⟨p, hp, hm⟩
    obtain ⟨rfl, h2, h3⟩ := (hl p hp).nid hm
    exact ⟨hp, h2, h3⟩
  · rintro ⟨h1, h2, h3⟩
    exact ⟨code m, h1, by rw [pieceNid_code m h3, h2]⟩

theorem heldOf_erase {l : List Str} (hl : ∀ p ∈ l, GoodP p) (x : NameId) (hx : x.norm = x)
    (ht : truthy x.text = true) : heldOf (l.erase (code x)) = (heldOf l).erase x := by
  induction l with
  | nil => simp [heldOf]
  | cons p tl ih =>
    have htl : ∀ q ∈ tl, GoodP q := fun q hq => hl q (List.mem_cons_of_mem _ hq)
    by_cases hp : p = code x
    · subst hp
      have : heldOf (code x :: tl) = x :: heldOf tl := by
        simp [heldOf, List.filterMap_cons, pieceNid_code x ht, hx]
      rw [this]
      simp [List.erase_cons_head]
    · have hne : (p == code x) = false := by simpa using hp
      rw [List.erase_cons, hne]
      simp only [Bool.false_eq_true, if_false]
      cases hpn : pieceNid p with
      | none =>
        have h1 : heldOf (p :: tl.erase (code x)) = heldOf (tl.erase (code x)) := by
          simp [heldOf, List.filterMap_cons, hpn]
        have h2 : heldOf (p :: tl) = heldOf tl := by simp [heldOf, List.filterMap_cons, hpn]
        rw [h1, h2, ih htl]
      | some m =>
        have h1 : heldOf (p :: tl.erase (code x)) = m :: heldOf (tl.erase (code x)) := by
          simp [heldOf, List.filterMap_cons, hpn]
        have h2 : heldOf (p :: tl) = m :: heldOf tl := by simp [heldOf, List.filterMap_cons, hpn]
        have hmx : m ≠ x := by
          intro e; subst e
          exact hp ((hl p (List.mem_cons_self ..)).nid hpn).1
        have hne' : (m == x) = false := by simpa using hmx
        rw [h1, h2, ih htl, List.erase_cons, hne']
        simp

/-! ### what `store` and `remove_remote` do -/

theorem store_ok (db : DB) (u : Str) (n : NameId) (t : Str) (ht : n.text = some t) :
    ∃ db', store db u n = .ok db' ∧
      (t ≠ u → userPieces db' u = userPieces db u ++ [code n]) ∧
      db'.get t = some u ∧ (∀ k, k ≠ u → k ≠ t → db'.get k = db.get k) := by
  refine ⟨(db.set u (joinWith 32 ((pieces db u).getD [] ++ [code n]))).set t u, ?_, ?_, ?_, ?_⟩
  · simp [store, ht]
  · intro hne
    have hl : ∀ p ∈ (pieces db u).getD [] ++ [code n], (32 : UInt8) ∉ p := by
      intro p hp
      rcases List.mem_append.mp hp with h | h
      · exact userPieces_noSpace db u p h
      · simp at h; subst h; exact code_noSpace n
    have h1 : userPieces ((db.set u (joinWith 32 ((pieces db u).getD [] ++ [code n]))).set t u) u =
        userPieces (db.set u (joinWith 32 ((pieces db u).getD [] ++ [code n]))) u :=
      userPieces_congr (DB.get_set_ne _ _ _ _ (Ne.symm hne))
    rw [h1, userPieces_set_join db u _ hl]
    simp [userPieces]
  · exact DB.get_set_self _ _ _
  · intro k hk1 hk2
    rw [DB.get_set_ne _ _ _ _ hk2, DB.get_set_ne _ _ _ _ hk1]

theorem removeRemote_ok (db : DB) (n : NameId) (t id : Str) (ht : n.text = some t)
    (hg : db.get t = some id) (hid : (db.get id).isSome) (hc : code n ∈ userPieces db id) (hne : t ≠ id) :
    ∃ db', removeRemote db n = .ok db' ∧
      userPieces db' id = (if (userPieces db id).erase (code n) = [] then [[]] else (userPieces db id).erase (code n)) ∧
      db'.get t = none ∧ (∀ k, k ≠ id → k ≠ t → db'.get k = db.get k) := by
  obtain ⟨s, hs⟩ := Option.isSome_iff_exists.mp hid
  have hp : pieces db id = some (splitOn 32 s) := by simp [pieces, hs]
  have hup : userPieces db id = splitOn 32 s := by simp [userPieces, hp]
  rw [hup] at hc ⊢
  refine ⟨(db.set id (joinWith 32 ((splitOn 32 s).erase (code n)))).del t, ?_, ?_, ?_, ?_⟩
  · simp [removeRemote, ht, hg, hp, hc]
  · have hl : ∀ p ∈ (splitOn 32 s).erase (code n), (32 : UInt8) ∉ p :=
      fun p hp' => splitOn_noSep 32 s p (List.mem_of_mem_erase hp')
    rw [userPieces_congr (DB.get_del_ne _ _ _ (Ne.symm hne)), userPieces_set_join db id _ hl]
  · exact DB.get_del_self _ _
  · intro k hk1 hk2
    rw [DB.get_del_ne _ _ _ hk2, DB.get_set_ne _ _ _ _ hk1]

/-! ### the invariant -/

theorem nodup_of_map {α β : Type} (f : α → β) {l : List α} (h : (l.map f).Nodup) : l.Nodup := by
  induction l with
  | nil => simp
  | cons a l ih =>
    simp only [List.map_cons, List.nodup_cons, List.mem_map, not_exists, not_and] at h ⊢
    exact ⟨fun ha => h.1 a ha rfl, ih h.2⟩

theorem inj_of_nodup_map {α β : Type} {f : α → β} {l : List α} (h : (l.map f).Nodup) {a b : α}
    (ha : a ∈ l) (hb : b ∈ l) (e : f a = f b) : a = b := by
  induction l with
  | nil => cases ha
  | cons c l ih =>
    simp only [List.map_cons, List.nodup_cons, List.mem_map, not_exists, not_and] at h
    rcases List.mem_cons.mp ha with rfl | ha' <;> rcases List.mem_cons.mp hb with rfl | hb'
    · rfl
    · exact absurd e.symm (h.1 b hb')
    · exact absurd e (h.1 a ha')
    · exact ih h.2 ha' hb'

/-- two persistent identifiers of one user for the same requester and qualifier -/
def Clash (K : Consts) (a b : NameId) : Prop := a.fmt = some K.persistent ∧ isReg K a.spq a.nq b = true

structure Inv (K : Consts) (users : List Str) (db : DB) : Prop where
  good : ∀ u ∈ users, ∀ p ∈ userPieces db u, GoodP p
  owner : ∀ u ∈ users, ∀ m ∈ held db u, ∃ t, m.text = some t ∧ t ∉ users ∧ db.get t = some u
  nodup : ∀ u ∈ users, ((held db u).map (·.text)).Nodup
  rev : ∀ t v, db.get t = some v → t ∉ users → v ∈ users
  uniq : ∀ u ∈ users, (held db u).Pairwise (fun a b => ¬ Clash K a b)

theorem inv_empty (K : Consts) (users : List Str) : Inv K users [] := by
  refine ⟨?_, ?_, ?_, ?_, ?_⟩ <;> intros <;> simp_all [held, userPieces, pieces, DB.get_nil]

theorem held_congr {db db' : DB} {u : Str} (h : db'.get u = db.get u) : held db' u = held db u := by
  simp [held, userPieces_congr h]

theorem truthy_of_norm {x : NameId} {t : Str} (hx : x.norm = x) (ht : x.text = some t) : truthy x.text = true := by
  have : normF x.text = x.text := by
    have := congrArg NameId.text hx
    simpa [NameId.norm] using this
  rw [ht] at this ⊢
  unfold normF at this
  by_cases h : truthy (some t) = true
  · exact h
  · simp [h] at this

theorem Inv.held_nodup {K : Consts} {users : List Str} {db : DB} (inv : Inv K users db) {u : Str} (hu : u ∈ users) :
    (held db u).Nodup := nodup_of_map _ (inv.nodup u hu)

theorem Inv.text_inj {K : Consts} {users : List Str} {db : DB} (inv : Inv K users db) {u : Str} (hu : u ∈ users)
    {a b : NameId} (ha : a ∈ held db u) (hb : b ∈ held db u) (h : a.text = b.text) : a = b :=
  inj_of_nodup_map (inv.nodup u hu) ha hb h

theorem Inv.append {K : Consts} {users : List Str} {P Q : DB} (inv : Inv K users P) {u : Str} (hu : u ∈ users)
    (x : NameId) (t : Str) (hx : x.norm = x) (hxt : x.text = some t) (htu : t ∉ users) (hfresh : P.get t = none)
    (huniq : ∀ a ∈ held P u, ¬ Clash K a x)
    (hQu : userPieces Q u = userPieces P u ++ [code x]) (hQt : Q.get t = some u)
    (hQo : ∀ k, k ≠ u → k ≠ t → Q.get k = P.get k) :
    Inv K users Q ∧ held Q u = held P u ++ [x] ∧ (∀ u' ∈ users, u' ≠ u → held Q u' = held P u') := by
  have hxT := truthy_of_norm hx hxt
  have hheld : held Q u = held P u ++ [x] := by
    rw [held_eq, hQu, heldOf_append, ← held_eq]
    simp [heldOf, pieceNid_code x hxT, hx]
  have hne : ∀ u' ∈ users, u' ≠ t := fun u' hu' e => htu (e ▸ hu')
  have hget : ∀ u' ∈ users, u' ≠ u → Q.get u' = P.get u' := fun u' hu' h => hQo u' h (hne u' hu')
  have hother : ∀ u' ∈ users, u' ≠ u → held Q u' = held P u' := fun u' hu' h => held_congr (hget u' hu' h)
  -- a value held in P is not the new one, hence still mapped as before
  have hkeep : ∀ u' ∈ users, ∀ m ∈ held P u', ∃ t', m.text = some t' ∧ t' ∉ users ∧ Q.get t' = some u' := by
    intro u' hu' m hm
    obtain ⟨t', h1, h2, h3⟩ := inv.owner u' hu' m hm
    refine ⟨t', h1, h2, ?_⟩
    have : t' ≠ t := by intro e; rw [e, hfresh] at h3; cases h3
    rw [hQo t' (fun e => h2 (e ▸ hu)) this]; exact h3
  refine ⟨⟨?_, ?_, ?_, ?_, ?_⟩, hheld, hother⟩
  · intro u' hu' p hp
    by_cases h : u' = u
    · subst h
      rw [hQu] at hp
      rcases List.mem_append.mp hp with h1 | h1
      · exact inv.good _ hu' p h1
      · simp at h1; subst h1; exact goodP_code x hxT
    · rw [userPieces_congr (hget u' hu' h)] at hp
      exact inv.good u' hu' p hp
  · intro u' hu' m hm
    by_cases h : u' = u
    · subst h
      rw [hheld] at hm
      rcases List.mem_append.mp hm with h1 | h1
      · exact hkeep _ hu' m h1
      · simp at h1; subst h1; exact ⟨t, hxt, htu, hQt⟩
    · rw [hother u' hu' h] at hm
      exact hkeep u' hu' m hm
  · intro u' hu'
    by_cases h : u' = u
    · subst h
      rw [hheld, List.map_append, List.nodup_append]
      refine ⟨inv.nodup _ hu', by simp, ?_⟩
      intro a ha b hb
      simp at hb; subst hb
      obtain ⟨m, hm, rfl⟩ := List.mem_map.mp ha
      obtain ⟨t', h1, _, h3⟩ := inv.owner _ hu' m hm
      intro e
      rw [hxt] at e
      rw [h1] at e; cases e
      rw [hfresh] at h3; cases h3
    · rw [hother u' hu' h]; exact inv.nodup u' hu'
  · intro k v hk hku
    by_cases h : k = t
    · subst h; rw [hQt] at hk; cases hk; exact hu
    · rw [hQo k (fun e => hku (e ▸ hu)) h] at hk
      exact inv.rev k v hk hku
  · intro u' hu'
    by_cases h : u' = u
    · subst h
      rw [hheld, List.pairwise_append]
      refine ⟨inv.uniq _ hu', by simp, ?_⟩
      intro a ha b hb
      simp at hb; subst hb
      exact huniq a ha
    · rw [hother u' hu' h]; exact inv.uniq u' hu'

theorem Inv.erase {K : Consts} {users : List Str} {P Q : DB} (inv : Inv K users P) {u : Str} (hu : u ∈ users)
    (x : NameId) (t : Str) (hx : x ∈ held P u) (hxt : x.text = some t)
    (hQu : held Q u = (held P u).erase x) (hQg : ∀ p ∈ userPieces Q u, GoodP p) (hQt : Q.get t = none)
    (hQo : ∀ k, k ≠ u → k ≠ t → Q.get k = P.get k) :
    Inv K users Q ∧ (∀ u' ∈ users, u' ≠ u → held Q u' = held P u') ∧
      (∀ u' ∈ users, ∀ m ∈ held Q u', m.text ≠ some t) := by
  obtain ⟨t0, h0, htu, hPt⟩ := inv.owner u hu x hx
  rw [hxt] at h0; cases h0
  have hne : ∀ u' ∈ users, u' ≠ t := fun u' hu' e => htu (e ▸ hu')
  have hget : ∀ u' ∈ users, u' ≠ u → Q.get u' = P.get u' := fun u' hu' h => hQo u' h (hne u' hu')
  have hother : ∀ u' ∈ users, u' ≠ u → held Q u' = held P u' := fun u' hu' h => held_congr (hget u' hu' h)
  have hnd := inv.held_nodup hu
  -- identifiers that stay have another value than the removed one
  have hstay : ∀ u' ∈ users, ∀ m ∈ held Q u', m.text ≠ some t ∧ m ∈ held P u' := by
    intro u' hu' m hm
    by_cases h : u' = u
    · subst h
      rw [hQu] at hm
      obtain ⟨hmx, hmP⟩ := (List.Nodup.mem_erase_iff hnd).mp hm
      refine ⟨?_, hmP⟩
      intro e
      exact hmx (inv.text_inj hu' hmP hx (e.trans hxt.symm))
    · rw [hother u' hu' h] at hm
      refine ⟨?_, hm⟩
      intro e
      obtain ⟨t', h1, _, h3⟩ := inv.owner u' hu' m hm
      rw [e] at h1; cases h1
      rw [hPt] at h3; cases h3; exact h rfl
  refine ⟨⟨?_, ?_, ?_, ?_, ?_⟩, hother, fun u' hu' m hm => (hstay u' hu' m hm).1⟩
  · intro u' hu' p hp
    by_cases h : u' = u
    · subst h; exact hQg p hp
    · rw [userPieces_congr (hget u' hu' h)] at hp
      exact inv.good u' hu' p hp
  · intro u' hu' m hm
    obtain ⟨hmt, hmP⟩ := hstay u' hu' m hm
    obtain ⟨t', h1, h2, h3⟩ := inv.owner u' hu' m hmP
    refine ⟨t', h1, h2, ?_⟩
    have : t' ≠ t := by intro e; subst e; exact hmt h1
    rw [hQo t' (fun e => h2 (e ▸ hu)) this]; exact h3
  · intro u' hu'
    by_cases h : u' = u
    · subst h
      rw [hQu]
      exact List.Nodup.sublist (List.Sublist.map _ (List.erase_sublist ..)) (inv.nodup _ hu')
    · rw [hother u' hu' h]; exact inv.nodup u' hu'
  · intro k v hk hku
    have h : k ≠ t := by intro e; subst e; rw [hQt] at hk; cases hk
    rw [hQo k (fun e => hku (e ▸ hu)) h] at hk
    exact inv.rev k v hk hku
  · intro u' hu'
    by_cases h : u' = u
    · subst h
      rw [hQu]
      exact List.Pairwise.sublist (List.erase_sublist ..) (inv.uniq _ hu')
    · rw [hother u' hu' h]; exact inv.uniq u' hu'

/-! ### look-ups over a well-formed entry -/

theorem qualMatch_eq_sameQual (n : NameId) (spq nq : Option Str) : qualMatch n spq nq = sameQual n spq nq := by
  unfold qualMatch sameQual
  rcases hn : n.spq with _ | _ | ⟨a, as⟩ <;> rcases spq with _ | _ | ⟨b, bs⟩ <;>
    rcases hq : n.nq with _ | _ | ⟨c, cs⟩ <;> rcases nq with _ | _ | ⟨d, ds⟩ <;>
    simp [normF, truthy, Bool.beq_eq_decide_eq]

theorem decode_good {p : Str} (g : GoodP p) :
    (p = [] ∧ decode p = .ok {}) ∨ (∃ n, pieceNid p = some n ∧ decode p = .ok n) := by
  rcases g with rfl | ⟨n, rfl, hn, ht⟩
  · exact Or.inl ⟨rfl, decode_nil⟩
  · exact Or.inr ⟨n, by rw [pieceNid_code n ht, hn], by rw [decode_code, hn]⟩

theorem heldOf_cons_none {p : Str} {l : List Str} (h : pieceNid p = none) : heldOf (p :: l) = heldOf l := by
  simp [heldOf, h]

theorem heldOf_cons_some {p : Str} {l : List Str} {n : NameId} (h : pieceNid p = some n) :
    heldOf (p :: l) = n :: heldOf l := by
  simp [heldOf, h]

theorem matchLoop_good (K : Consts) (spq nq : Option Str) (l : List Str) (hl : ∀ p ∈ l, GoodP p) :
    matchLoop K spq nq l = .ok (regIn K (heldOf l) spq nq) := by
  induction l with
  | nil => simp [matchLoop, regIn, heldOf]
  | cons p tl ih =>
    have htl : ∀ q ∈ tl, GoodP q := fun q hq => hl q (List.mem_cons_of_mem _ hq)
    rcases decode_good (hl p (List.mem_cons_self ..)) with ⟨rfl, hd⟩ | ⟨n, hpn, hd⟩
    · rw [matchLoop, hd]
      simp only
      rw [heldOf_cons_none pieceNid_nil]
      have : (({} : NameId).fmt ≠ some K.persistent) := by simp
      simp only [this, ne_eq, not_false_eq_true, if_true]
      exact ih htl
    · rw [matchLoop, hd, heldOf_cons_some hpn]
      simp only
      unfold regIn
      rw [List.find?_cons]
      by_cases hf : n.fmt = some K.persistent
      · simp only [hf, ne_eq, not_true_eq_false, if_false]
        rw [qualMatch_eq_sameQual]
        by_cases hs : sameQual n spq nq = true
        · simp [isReg, hf, hs]
        · have hs' : sameQual n spq nq = false := by simpa using hs
          simp only [hs', Bool.false_eq_true, if_false, isReg, hf, beq_self_eq_true, Bool.and_false]
          exact ih htl
      · have : isReg K spq nq n = false := by simp [isReg, hf]
        simp only [ne_eq, hf, not_false_eq_true, if_true, this]
        exact ih htl

theorem matchLocalId_inv {K : Consts} {users : List Str} {db : DB} (inv : Inv K users db) {u : Str}
    (hu : u ∈ users) (spq nq : Option Str) :
    matchLocalId K db u spq nq = .ok (regIn K (held db u) spq nq) := by
  unfold matchLocalId
  cases hp : pieces db u with
  | none => simp [held, userPieces, hp, regIn, heldOf]
  | some vals =>
    have : userPieces db u = vals := by simp [userPieces, hp]
    simp only
    rw [matchLoop_good K spq nq vals (by rw [← this]; exact inv.good u hu), held_eq, this]

theorem createId_ok {db : DB} {cands : List Str} {c : Str} (h : createId db cands = .ok c) :
    c ∈ cands ∧ db.get c = none := by
  induction cands with
  | nil => simp [createId] at h
  | cons a as ih =>
    unfold createId at h
    by_cases ha : db.has a = true
    · simp only [ha, if_true] at h
      exact ⟨List.mem_cons_of_mem _ (ih h).1, (ih h).2⟩
    · simp only [ha, Bool.false_eq_true, if_false] at h
      cases h
      refine ⟨List.mem_cons_self .., ?_⟩
      rw [DB.has_eq] at ha
      cases hg : db.get c with
      | none => rfl
      | some _ => simp [hg] at ha

/-- all decoded pieces: the identifiers held, plus an empty identifier for every `""` piece -/
theorem decodeAll_good (l : List Str) (hl : ∀ p ∈ l, GoodP p) :
    ∃ ds, decodeAll l = .ok ds ∧ (∀ m ∈ heldOf l, m ∈ ds) ∧ (∀ m ∈ ds, m ∈ heldOf l ∨ m = {}) := by
  induction l with
  | nil => exact ⟨[], rfl, by simp [heldOf], by simp⟩
  | cons p tl ih =>
    obtain ⟨ds, hd, h1, h2⟩ := ih (fun q hq => hl q (List.mem_cons_of_mem _ hq))
    rcases decode_good (hl p (List.mem_cons_self ..)) with ⟨rfl, hdp⟩ | ⟨n, hpn, hdp⟩
    · refine ⟨{} :: ds, by simp [decodeAll, hdp, hd], ?_, ?_⟩
      · rw [heldOf_cons_none pieceNid_nil]; intro m hm; exact List.mem_cons_of_mem _ (h1 m hm)
      · rw [heldOf_cons_none pieceNid_nil]; intro m hm
        rcases List.mem_cons.mp hm with rfl | hm'
        · exact Or.inr rfl
        · exact h2 m hm'
    · refine ⟨n :: ds, by simp [decodeAll, hdp, hd], ?_, ?_⟩
      · rw [heldOf_cons_some hpn]; intro m hm
        rcases List.mem_cons.mp hm with rfl | hm'
        · exact List.mem_cons_self ..
        · exact List.mem_cons_of_mem _ (h1 m hm')
      · rw [heldOf_cons_some hpn]; intro m hm
        rcases List.mem_cons.mp hm with rfl | hm'
        · exact Or.inl (List.mem_cons_self ..)
        · rcases h2 m hm' with h | h
          · exact Or.inl (List.mem_cons_of_mem _ h)
          · exact Or.inr h

theorem mapLoop_good (pol : Policy) (hf : truthy pol.fmt = true) (l : List Str) (hl : ∀ p ∈ l, GoodP p) :
    ∃ r, mapLoop pol l = .ok r ∧ ∀ nid, r = some nid → nid ∈ heldOf l ∧ nid.fmt = pol.fmt ∧ nid.spq = pol.spq := by
  induction l with
  | nil => exact ⟨none, rfl, by simp⟩
  | cons p tl ih =>
    obtain ⟨r, hr, h1⟩ := ih (fun q hq => hl q (List.mem_cons_of_mem _ hq))
    rcases decode_good (hl p (List.mem_cons_self ..)) with ⟨rfl, hdp⟩ | ⟨n, hpn, hdp⟩
    · refine ⟨r, ?_, ?_⟩
      · rw [mapLoop, hdp]
        have : ((({} : NameId).fmt == pol.fmt) = false) := by
          cases hpf : pol.fmt with
          | none => simp [hpf, truthy] at hf
          | some _ => simp
        simp [this, hr]
      · rw [heldOf_cons_none pieceNid_nil]; exact h1
    · by_cases hc : (n.fmt == pol.fmt && n.spq == pol.spq) = true
      · refine ⟨some n, by rw [mapLoop, hdp]; simp [hc], ?_⟩
        intro nid h; cases h
        rw [heldOf_cons_some hpn]
        simp only [Bool.and_eq_true, beq_iff_eq] at hc
        exact ⟨List.mem_cons_self .., hc.1, hc.2⟩
      · refine ⟨r, by rw [mapLoop, hdp]; simp [hc, hr], ?_⟩
        intro nid h
        rw [heldOf_cons_some hpn]
        obtain ⟨h2, h3⟩ := h1 nid h
        exact ⟨List.mem_cons_of_mem _ h2, h3⟩

/-! ### the invariant as the spec sees it -/

theorem Inv.revOk {K : Consts} {users : List Str} {db : DB} (inv : Inv K users db) : revOk users db = true := by
  unfold Ident.revOk
  simp only [List.all_eq_true]
  intro u hu m hm
  obtain ⟨t, h1, _, h3⟩ := inv.owner u hu m hm
  simp [ownedBy, h1, h3]

theorem Inv.distinctOk {K : Consts} {users : List Str} {db : DB} (inv : Inv K users db) : distinctOk users db = true := by
  unfold Ident.distinctOk
  simp only [List.all_eq_true, decide_eq_true_eq]
  exact fun u hu => inv.nodup u hu

theorem Inv.uniqueRegOk {K : Consts} {users : List Str} {db : DB} (inv : Inv K users db) : uniqueRegOk K users db = true := by
  unfold Ident.uniqueRegOk
  simp only [List.all_eq_true, decide_eq_true_eq]
  exact fun u hu => inv.uniq u hu

theorem Inv.not_heldText {K : Consts} {users : List Str} {db : DB} (inv : Inv K users db) {t : Str}
    (h : db.get t = none) : (heldTexts users db).contains t = false := by
  cases hc : (heldTexts users db).contains t with
  | false => rfl
  | true =>
    rw [List.contains_iff_mem] at hc
    unfold heldTexts at hc
    obtain ⟨u, hu, hm⟩ := List.mem_flatMap.mp hc
    obtain ⟨m, hm1, hm2⟩ := List.mem_filterMap.mp hm
    obtain ⟨t', h1, _, h3⟩ := inv.owner u hu m hm1
    rw [h1] at hm2; cases hm2
    rw [h] at h3; cases h3

end Ident
