import PysamlModel.Model.Ident

/-!
  C18 — basic facts about the association-list store `DB`.
-/
namespace Ident

theorem DB.get_nil (k : Str) : DB.get [] k = none := rfl

theorem DB.get_cons (db : DB) (a b k : Str) :
    DB.get ((a, b) :: db) k = if k = a then some b else DB.get db k := by
  unfold DB.get
  rw [List.lookup_cons]
  by_cases h : k = a
  · subst h; simp
  · have : (k == a) = false := by simpa using h
    simp [this, h]

theorem DB.get_del (db : DB) (k k' : Str) : (db.del k).get k' = if k' = k then none else db.get k' := by
  induction db with
  | nil => simp [DB.del, DB.get]
  | cons e db ih =>
    obtain ⟨a, b⟩ := e
    have hdel : DB.del ((a, b) :: db) k = if a = k then DB.del db k else (a, b) :: DB.del db k := by
      by_cases h : a = k <;> simp [DB.del, h]
    rw [hdel]
    by_cases hak : a = k
    · subst hak
      rw [if_pos rfl, ih, DB.get_cons]
      by_cases h : k' = a <;> simp [h]
    · rw [if_neg hak, DB.get_cons, DB.get_cons, ih]
      by_cases h : k' = a
      · subst h; simp [hak]
      · simp [h]

theorem DB.get_set (db : DB) (k v k' : Str) : (db.set k v).get k' = if k' = k then some v else db.get k' := by
  unfold DB.set
  rw [DB.get_cons, DB.get_del]
  by_cases h : k' = k <;> simp [h]

theorem DB.get_set_self (db : DB) (k v : Str) : (db.set k v).get k = some v := by
  rw [DB.get_set, if_pos rfl]

theorem DB.get_set_ne (db : DB) (k v k' : Str) (h : k' ≠ k) : (db.set k v).get k' = db.get k' := by
  rw [DB.get_set, if_neg h]

theorem DB.get_del_self (db : DB) (k : Str) : (db.del k).get k = none := by
  rw [DB.get_del, if_pos rfl]

theorem DB.get_del_ne (db : DB) (k k' : Str) (h : k' ≠ k) : (db.del k).get k' = db.get k' := by
  rw [DB.get_del, if_neg h]

theorem DB.has_eq (db : DB) (k : Str) : db.has k = (db.get k).isSome := rfl

end Ident
