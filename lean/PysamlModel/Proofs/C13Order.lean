/-
  C13 — helper lemmas for `C13_order_partial`: a class row that is `orderCompat` with a content
  model serialises every instance that respects the class's own cardinalities to a child
  sequence in the language of the content model.
-/
import PysamlModel.Model.ClassOrder
import PysamlModel.Proofs.C13Regex

namespace Validate

theorem spanAdm_append (syms : List Sym) (ms : List Member) :
    (spanAdm syms ms).1 ++ (spanAdm syms ms).2 = ms := by
  induction ms with
  | nil => rfl
  | cons m ms ih =>
    unfold spanAdm
    by_cases h : admits syms m = true
    · simp only [h, if_true, List.cons_append, ih]
    · simp only [h, Bool.false_eq_true, if_false, List.nil_append]

theorem spanAdm_admits (syms : List Sym) (ms : List Member) :
    ∀ m ∈ (spanAdm syms ms).1, admits syms m = true := by
  induction ms with
  | nil => intro m hm; cases hm
  | cons a ms ih =>
    unfold spanAdm
    by_cases h : admits syms a = true
    · simp only [h, if_true]
      intro m hm
      rcases List.mem_cons.mp hm with rfl | hm
      · exact h
      · exact ih m hm
    · simp only [h, Bool.false_eq_true, if_false]
      intro m hm; cases hm

/-- splitting an instance along a split of the member list -/
theorem instOk_append (a b : List Member) (counts : List Nat) (h : instOk (a ++ b) counts = true) :
    instOk a (counts.take a.length) = true ∧ instOk b (counts.drop a.length) = true ∧
    tagsOf (a ++ b) counts = tagsOf a (counts.take a.length) ++ tagsOf b (counts.drop a.length) := by
  induction a generalizing counts with
  | nil => simpa [instOk, tagsOf] using h
  | cons m a ih =>
    cases counts with
    | nil => simp [instOk] at h
    | cons n ns =>
      simp only [List.cons_append, instOk, Bool.and_eq_true] at h
      obtain ⟨⟨h1, h2⟩, h3⟩ := h
      obtain ⟨i1, i2, i3⟩ := ih ns h3
      refine ⟨?_, ?_, ?_⟩
      · simp only [List.length_cons, List.take_succ_cons, instOk, Bool.and_eq_true]
        exact ⟨⟨h1, h2⟩, i1⟩
      · simpa using i2
      · simp only [List.cons_append, tagsOf, List.length_cons, List.take_succ_cons, List.drop_succ_cons, i3,
          List.append_assoc]

theorem tagsOf_mem (ms : List Member) (counts : List Nat) :
    ∀ x ∈ tagsOf ms counts, ∃ m ∈ ms, m.tag = x := by
  induction ms generalizing counts with
  | nil => intro x hx; simp [tagsOf] at hx
  | cons m ms ih =>
    cases counts with
    | nil => intro x hx; simp [tagsOf] at hx
    | cons n ns =>
      intro x hx
      simp only [tagsOf, List.mem_append, List.mem_replicate] at hx
      rcases hx with ⟨_, rfl⟩ | hx
      · exact ⟨m, List.mem_cons_self .., rfl⟩
      · obtain ⟨m', hm', ht⟩ := ih ns x hx
        exact ⟨m', List.mem_cons_of_mem _ hm', ht⟩

theorem tagsOf_length (ms : List Member) (counts : List Nat) (h : instOk ms counts = true) :
    sumMin ms ≤ (tagsOf ms counts).length ∧ ∀ k, sumMax ms = some k → (tagsOf ms counts).length ≤ k := by
  induction ms generalizing counts with
  | nil =>
    cases counts with
    | nil => simp [sumMin, sumMax, tagsOf]
    | cons _ _ => simp [instOk] at h
  | cons m ms ih =>
    cases counts with
    | nil => simp [instOk] at h
    | cons n ns =>
      simp only [instOk, Bool.and_eq_true, decide_eq_true_eq] at h
      obtain ⟨⟨h1, h2⟩, h3⟩ := h
      obtain ⟨i1, i2⟩ := ih ns h3
      constructor
      · simp only [sumMin, List.map_cons, List.sum_cons, tagsOf, List.length_append, List.length_replicate]
        simp only [sumMin] at i1
        omega
      · intro k hk
        simp only [tagsOf, List.length_append, List.length_replicate]
        unfold sumMax at hk
        cases hm : m.max with
        | none => simp [hm] at hk
        | some a =>
          cases hs : sumMax ms with
          | none => simp [hm, hs] at hk
          | some b =>
            simp only [hm, hs, Option.some.injEq] at hk
            have hb := i2 b hs
            have ha : n ≤ a := by simpa [hm] using h2
            omega

theorem admits_lang {syms : List Sym} {m : Member} (h : admits syms m = true) :
    Re.Lang Sym.sat (Re.altL (syms.map Re.sym)) [m.tag] := by
  unfold admits at h
  obtain ⟨s, hs, hsat⟩ := List.any_eq_true.mp h
  exact Re.lang_altL_mem (List.mem_map.mpr ⟨s, hs, rfl⟩) (Re.Lang.sym hsat)

/-- The core of `C13_order_partial`, at the level of languages. -/
theorem order_lang (ps : List Particle) (ms : List Member) (counts : List Nat)
    (hc : orderCompat ps ms = true) (hi : instOk ms counts = true) :
    Re.Lang Sym.sat (contentRe ps) (tagsOf ms counts) := by
  induction ps generalizing ms counts with
  | nil =>
    simp only [orderCompat, List.isEmpty_iff] at hc
    subst hc
    cases counts with
    | nil => exact Re.Lang.eps
    | cons _ _ => simp [instOk] at hi
  | cons p ps ih =>
    cases p with
    | group r => simp [orderCompat] at hc
    | leaf syms lo hi' =>
      simp only [orderCompat, Bool.and_eq_true, decide_eq_true_eq] at hc
      obtain ⟨⟨hlo, hhi⟩, hrest⟩ := hc
      have happ := spanAdm_append syms ms
      have hadm := spanAdm_admits syms ms
      generalize (spanAdm syms ms).1 = g1 at *
      generalize (spanAdm syms ms).2 = g2 at *
      subst happ
      obtain ⟨i1, i2, i3⟩ := instOk_append g1 g2 counts hi
      rw [i3]
      have hl := tagsOf_length g1 _ i1
      have hletters : ∀ x ∈ tagsOf g1 (counts.take g1.length),
          Re.Lang Sym.sat (Re.altL (syms.map Re.sym)) [x] := by
        intro x hx
        obtain ⟨m, hm, rfl⟩ := tagsOf_mem g1 _ x hx
        exact admits_lang (hadm m hm)
      have h1 : Re.Lang Sym.sat (Particle.re (.leaf syms lo hi')) (tagsOf g1 (counts.take g1.length)) := by
        simp only [Particle.re]
        apply Re.lang_rep hletters (Nat.le_trans hlo hl.1)
        intro h hh
        subst hh
        unfold leOpt at hhi
        simp only at hhi
        cases hs : sumMax g1 with
        | none => simp [hs] at hhi
        | some x =>
          simp only [hs, decide_eq_true_eq] at hhi
          exact Nat.le_trans (hl.2 x hs) hhi
      have h2 := ih g2 (counts.drop g1.length) hrest i2
      exact Re.Lang.seq h1 h2

end Validate
