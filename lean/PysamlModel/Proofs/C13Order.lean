/-
  C13 — helper lemmas for `C13_order_partial`: a class row that is `orderCompat` with a content
  model serialises every instance that respects the class's own cardinalities to a child
  sequence in the language of the content model.
-/
import PysamlModel.Model.ClassOrder
import PysamlModel.Proofs.C13Regex

namespace Validate

theorem spanAdm_append (syms : List Sym) (ms : List Member) :
    (spanAdm syms ms).1 ++ (spanAdm syms ms).2 = ms := by
  induction ms with
  | nil => rfl
  | cons m ms ih =>
    unfold spanAdm
    by_cases h : admits syms m = true
    · simp only [h, if_true, List.cons_append, ih]
    · simp only [h, Bool.false_eq_true, if_false, List.nil_append]

theorem spanAdm_admits (syms : List Sym) (ms : List Member) :
    ∀ m ∈ (spanAdm syms ms).1, admits syms m = true := by
  induction ms with
  | nil => intro m hm; cases hm
  | cons a ms ih =>
    unfold spanAdm
    by_cases h : admits syms a = true
    · simp only [h, if_true]
      intro m hm
      rcases List.mem_cons.mp hm with rfl | hm
      · exact h
      · exact ih m hm
    · simp only [h, Bool.false_eq_true, if_false]
      intro m hm; cases hm

/-- splitting an instance along a split of the member list -/
theorem instOk_append (a b : List Member) (counts : List Nat) (h : instOk (a ++ b) counts = true) :
    instOk a (counts.take a.length) = true ∧ instOk b (counts.drop a.length) = true ∧
    tagsOf (a ++ b) counts = tagsOf a (counts.take a.length) ++ tagsOf b (counts.drop a.length) := by
  induction a generalizing counts with
  | nil => simpa [instOk, tagsOf] using h
  | cons m a ih =>
    cases counts with
    | nil => simp [instOk] at h
    | cons n ns =>
      simp only [List.cons_append, instOk, Bool.and_eq_true] at h
      obtain ⟨⟨h1, h2⟩, h3⟩ := h
      obtain ⟨i1, i2, i3⟩ := ih ns h3
      refine ⟨?_, ?_, ?_⟩
      · simp only [List.length_cons, List.take_succ_cons, instOk, Bool.and_eq_true]
        exact ⟨⟨h1, h2⟩, i1⟩
      · simpa using i2
      · simp only [List.cons_append, tagsOf, List.length_cons, List.take_succ_cons, List.drop_succ_cons, i3,
          List.append_assoc]

theorem tagsOf_mem (ms : List Member) (counts : List Nat) :
    ∀ x ∈ tagsOf ms counts, ∃ m ∈ ms, m.tag = x := by
  induction ms generalizing counts with
  | nil => intro x hx; simp [tagsOf] at hx
  | cons m ms ih =>
    cases counts with
    | nil => intro x hx; simp [tagsOf] at hx
    | cons n ns =>
      intro x hx
      simp only [tagsOf, List.mem_append, List.mem_replicate] at hx
      rcases hx with ⟨_, rfl⟩ | hx
      · exact ⟨m, List.mem_cons_self .., rfl⟩
      · obtain ⟨m', hm', ht⟩ := ih ns x hx
        exact ⟨m', List.mem_cons_of_mem _ hm', ht⟩

theorem tagsOf_length (ms : List Member) (counts : List Nat) (h : instOk ms counts = true) :
    sumMin ms ≤ (tagsOf ms counts).length ∧ ∀ k, sumMax ms = some k → (tagsOf ms counts).length ≤ k := by
  induction ms generalizing counts with
  | nil =>
    cases counts with
    | nil => simp [sumMin, sumMax, tagsOf]
    | cons _ _ => simp [instOk] at h
  | cons m ms ih =>
    cases counts with
    | nil => simp [instOk] at h
    | cons n ns =>
      simp only [instOk, Bool.and_eq_true, decide_eq_true_eq] at h
      obtain ⟨⟨h1, h2⟩, h3⟩ := h
      obtain ⟨i1, i2⟩ := ih ns h3
      constructor
      · simp only [sumMin, List.map_cons, List.sum_cons, tagsOf, List.length_append, List.length_replicate]
        simp only [sumMin] at i1
        omega
      · intro k hk
        simp only [tagsOf, List.length_append, List.length_replicate]
        unfold sumMax at hk
        cases hm : m.max with
        | none => simp [hm] at hk
        | some a =>
          cases hs : sumMax ms with
          | none => simp [hm, hs] at hk
          | some b =>
            simp only [hm, hs, Option.some.injEq] at hk
            have hb := i2 b hs
            have ha : n ≤ a := by simpa [hm] using h2
            omega

theorem admits_lang {syms : List Sym} {m : Member} (h : admits syms m = true) :
    Re.Lang Sym.sat (Re.altL (syms.map Re.sym)) [m.tag] := by
  unfold admits at h
  obtain ⟨s, hs, hsat⟩ := List.any_eq_true.mp h
  exact Re.lang_altL_mem (List.mem_map.mpr ⟨s, hs, rfl⟩) (Re.Lang.sym hsat)

/-- The core of `C13_order_partial`, at the level of languages. -/
theorem order_lang (ps : List Particle) (ms : List Member) (counts : List Nat)
    (hc : orderCompat ps ms = true) (hi : instOk ms counts = true) :
    Re.Lang Sym.sat (contentRe ps) (tagsOf ms counts) := by
  induction ps generalizing ms counts with
  | nil =>
    simp only [orderCompat, List.isEmpty_iff] at hc
    subst hc
    cases counts with
    | nil => exact Re.Lang.eps
    | cons _ _ => simp [instOk] at hi
  | cons p ps ih =>
    cases p with
    | group r => simp [orderCompat] at hc
    | leaf syms lo hi' =>
      simp only [orderCompat, Bool.and_eq_true, decide_eq_true_eq] at hc
      obtain ⟨⟨hlo, hhi⟩, hrest⟩ := hc
      have happ := spanAdm_append syms ms
      have hadm := spanAdm_admits syms ms
      generalize (spanAdm syms ms).1 = g1 at *
      generalize (spanAdm syms ms).2 = g2 at *
      subst happ
      obtain ⟨i1, i2, i3⟩ := instOk_append g1 g2 counts hi
      rw [i3]
      have hl := tagsOf_length g1 _ i1
      have hletters : ∀ x ∈ tagsOf g1 (counts.take g1.length),
          Re.Lang Sym.sat (Re.altL (syms.map Re.sym)) [x] := by
        intro x hx
        obtain ⟨m, hm, rfl⟩ := tagsOf_mem g1 _ x hx
        exact admits_lang (hadm m hm)
      have h1 : Re.Lang Sym.sat (Particle.re (.leaf syms lo hi')) (tagsOf g1 (counts.take g1.length)) := by
        simp only [Particle.re]
        apply Re.lang_rep hletters (Nat.le_trans hlo hl.1)
        intro h hh
        subst hh
        unfold leOpt at hhi
        simp only at hhi
        cases hs : sumMax g1 with
        | none => simp [hs] at hhi
        | some x =>
          simp only [hs, decide_eq_true_eq] at hhi
          exact Nat.le_trans (hl.2 x hs) hhi
      have h2 := ih g2 (counts.drop g1.length) hrest i2
      exact Re.Lang.seq h1 h2

/-! ## Extension elements after the members -/

theorem lang_seqL_append {σ α : Type} {sat : σ → α → Bool} (rs qs : List (Re σ)) (u v : List α)
    (hu : Re.Lang sat (Re.seqL rs) u) (hv : Re.Lang sat (Re.seqL qs) v) :
    Re.Lang sat (Re.seqL (rs ++ qs)) (u ++ v) := by
  induction rs generalizing u with
  | nil =>
    have : u = [] := Re.lang_eps.mp (by simpa [Re.seqL] using hu)
    subst this
    simpa using hv
  | cons r rs ih =>
    simp only [Re.seqL] at hu
    obtain ⟨u1, u2, rfl, h1, h2⟩ := Re.lang_seq.mp hu
    have := Re.Lang.seq h1 (ih u2 h2)
    simpa [Re.seqL, List.append_assoc] using this

theorem extSplit_eq {ps pre : List Particle} {syms : List Sym} {lo : Nat}
    (h : extSplit ps = some (pre, syms, lo)) : ps = pre ++ [.leaf syms lo none] := by
  unfold extSplit at h
  split at h
  next s l hl =>
    simp only [Option.some.injEq, Prod.mk.injEq] at h
    obtain ⟨rfl, rfl, rfl⟩ := h
    obtain ⟨ys, rfl⟩ := List.getLast?_eq_some_iff.mp hl
    simp
  · cases h

/-- A class whose members follow the content model up to its final unbounded particle, with
    extension elements that this particle admits: members first, extension elements last is a word
    of the content model. -/
theorem order_ext_lang (ps : List Particle) (ms : List Member) (counts : List Nat) (exts : List QN)
    (hc : extCompat ps ms = true) (hi : instOk ms counts = true) (he : extsOk ps exts = true) :
    Re.Lang Sym.sat (contentRe ps) (tagsOfExt ms counts exts) := by
  unfold extCompat at hc
  unfold extsOk at he
  cases hs : extSplit ps with
  | none => simp [hs] at hc
  | some t =>
    obtain ⟨pre, syms, lo⟩ := t
    simp only [hs] at hc he
    simp only [Bool.and_eq_true, decide_eq_true_eq] at he
    obtain ⟨hlo, hall⟩ := he
    have hps := extSplit_eq hs
    have h1 := order_lang pre ms counts hc hi
    have hletters : ∀ x ∈ exts, Re.Lang Sym.sat (Re.altL (syms.map Re.sym)) [x] := by
      intro x hx
      have := List.all_eq_true.mp hall x hx
      obtain ⟨s, hs', hsat⟩ := List.any_eq_true.mp this
      exact Re.lang_altL_mem (List.mem_map.mpr ⟨s, hs', rfl⟩) (Re.Lang.sym hsat)
    have h2 : Re.Lang Sym.sat (Particle.re (.leaf syms lo none)) exts := by
      simp only [Particle.re]
      exact Re.lang_rep hletters hlo (by intro h hh; cases hh)
    have h2' : Re.Lang Sym.sat (Re.seqL ([Particle.leaf syms lo none].map Particle.re)) exts := by
      simpa [Re.seqL] using Re.Lang.seq h2 Re.Lang.eps
    subst hps
    unfold contentRe tagsOfExt
    rw [List.map_append]
    exact lang_seqL_append _ _ _ _ h1 h2'

theorem nullable_altL_sym (syms : List Sym) : (Re.altL (syms.map Re.sym)).nullable = false := by
  induction syms with
  | nil => rfl
  | cons s ss ih => simp [Re.altL, Re.nullable, ih]

end Validate
