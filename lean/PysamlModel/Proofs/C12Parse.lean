/-
  C12 helper lemmas, part 9: parsing an arbitrary element tree — nothing is dropped.
-/
import PysamlModel.Proofs.C12Emit

set_option linter.unusedSimpArgs false
set_option linter.unusedVariables false

namespace ObjModel

/-! ### one step of `harvestKids` -/

theorem harvestKids_cons_none (E : Env) (ds : List ChildDecl) (k : XNode) (r : List XNode) (ss : List (List Inst))
    (ee : List ExtEl) (h : findDecl ds k.tag = none) :
    harvestKids E ds (k :: r) ss ee = harvestKids E ds r ss (ee ++ [toExt k]) := by
  simp only [harvestKids, h]

theorem harvestKids_cons_some (E : Env) (ds : List ChildDecl) (k : XNode) (r : List XNode) (ss : List (List Inst))
    (ee : List ExtEl) (j : Nat) (d : ChildDecl) (c' : Nat) (h : findDecl ds k.tag = some (j, d)) (hc : d.cls = some c')
    (ht : (E.T c').tag = k.tag) :
    harvestKids E ds (k :: r) ss ee = harvestKids E ds r (putSlot ss j d.isList (harvest E c' k)) ee := by
  simp only [harvestKids, h, hc, ht, if_true]

theorem harvestKids_cons_mismatch (E : Env) (ds : List ChildDecl) (k : XNode) (r : List XNode) (ss : List (List Inst))
    (ee : List ExtEl) (j : Nat) (d : ChildDecl) (c' : Nat) (h : findDecl ds k.tag = some (j, d)) (hc : d.cls = some c')
    (ht : ¬ (E.T c').tag = k.tag) :
    harvestKids E ds (k :: r) ss ee = harvestKids E ds r (if d.isList = true then ss else ss.set j []) ee := by
  simp only [harvestKids, h, hc, ht, if_false]

theorem harvestKids_cons_nocls (E : Env) (ds : List ChildDecl) (k : XNode) (r : List XNode) (ss : List (List Inst))
    (ee : List ExtEl) (j : Nat) (d : ChildDecl) (h : findDecl ds k.tag = some (j, d)) (hc : d.cls = none) :
    harvestKids E ds (k :: r) ss ee = harvestKids E ds r ss ee := by
  simp only [harvestKids, h, hc]

/-- the four things that can happen to a child -/
theorem harvestKids_cases (E : Env) (ds : List ChildDecl) (k : XNode) :
    findDecl ds k.tag = none ∨
    (∃ j d c', findDecl ds k.tag = some (j, d) ∧ d.cls = some c' ∧ (E.T c').tag = k.tag) ∨
    (∃ j d c', findDecl ds k.tag = some (j, d) ∧ d.cls = some c' ∧ ¬ (E.T c').tag = k.tag) ∨
    (∃ j d, findDecl ds k.tag = some (j, d) ∧ d.cls = none) := by
  cases hf : findDecl ds k.tag with
  | none => exact Or.inl rfl
  | some p =>
    obtain ⟨j, d⟩ := p
    cases hc : d.cls with
    | none => exact Or.inr (Or.inr (Or.inr ⟨j, d, rfl, hc⟩))
    | some c' =>
      by_cases ht : (E.T c').tag = k.tag
      · exact Or.inr (Or.inl ⟨j, d, c', rfl, hc, ht⟩)
      · exact Or.inr (Or.inr (Or.inl ⟨j, d, c', rfl, hc, ht⟩))

/-! ### extension elements: exactly the undeclared children, in order -/

theorem harvestKids_ext_part (E : Env) (ds : List ChildDecl) (kids : List XNode) (ss : List (List Inst)) (ee : List ExtEl) :
    (harvestKids E ds kids ss ee).2 = ee ++ toExtList (kids.filter fun k => (findDecl ds k.tag).isNone) := by
  induction kids generalizing ss ee with
  | nil => simp [harvestKids, toExtList]
  | cons k r ih =>
    simp only [harvestKids, List.filter_cons]
    cases hf : findDecl ds k.tag with
    | none =>
      simp only [Option.isNone_none, if_true, toExtList]
      rw [ih]; simp
    | some p =>
      obtain ⟨j, d⟩ := p
      simp only [Option.isNone_some, Bool.false_eq_true, if_false]
      cases d.cls with
      | none => exact ih _ _
      | some c' =>
        simp only
        split
        · exact ih _ _
        · exact ih _ _

theorem harvestKids_length (E : Env) (ds : List ChildDecl) (kids : List XNode) (ss : List (List Inst)) (ee : List ExtEl) :
    (harvestKids E ds kids ss ee).1.length = ss.length := by
  induction kids generalizing ss ee with
  | nil => simp [harvestKids]
  | cons k r ih =>
    rcases harvestKids_cases E ds k with h | ⟨j, d, c', h, hc, ht⟩ | ⟨j, d, c', h, hc, ht⟩ | ⟨j, d, h, hc⟩
    · rw [harvestKids_cons_none E ds k r ss ee h, ih]
    · rw [harvestKids_cons_some E ds k r ss ee j d c' h hc ht, ih]; simp [putSlot]
    · rw [harvestKids_cons_mismatch E ds k r ss ee j d c' h hc ht, ih]; split <;> simp
    · rw [harvestKids_cons_nocls E ds k r ss ee j d h hc, ih]

/-! ### extension attributes: exactly the undeclared attributes, in order -/

theorem harvestAttrs_ext_part (ds : List AttrDecl) (l : Attrs) (as : List (Option Str)) (ea : Attrs) :
    (harvestAttrs ds l as ea).2 = dictSetAll ea (l.filter fun p => (attrIdx ds p.1).isNone) := by
  induction l generalizing as ea with
  | nil => simp [harvestAttrs, dictSetAll]
  | cons p r ih =>
    obtain ⟨k, v⟩ := p
    simp only [harvestAttrs, List.filter_cons]
    cases attrIdx ds k with
    | none => simp only [Option.isNone_none, if_true, dictSetAll, List.foldl_cons]; rw [ih]; rfl
    | some j => simp only [Option.isNone_some, Bool.false_eq_true, if_false]; exact ih _ _

theorem harvestAttrs_length (ds : List AttrDecl) (l : Attrs) (as : List (Option Str)) (ea : Attrs) :
    (harvestAttrs ds l as ea).1.length = as.length := by
  induction l generalizing as ea with
  | nil => simp [harvestAttrs]
  | cons p r ih =>
    obtain ⟨k, v⟩ := p
    simp only [harvestAttrs]
    cases attrIdx ds k with
    | none => exact ih _ _
    | some j => simp only; rw [ih]; simp

theorem setDefaults_filter (ds : List AttrDecl) (dfl : List (Name × Str)) (d : Attrs)
    (h : ∀ p ∈ dfl, (attrIdx ds p.1).isSome = true) :
    (dfl.foldl (fun d p => dictSetDefault d p.1 p.2) d).filter (fun p => (attrIdx ds p.1).isNone) =
      d.filter (fun p => (attrIdx ds p.1).isNone) := by
  induction dfl generalizing d with
  | nil => rfl
  | cons p r ih =>
    simp only [List.foldl_cons]
    rw [ih _ (fun q hq => h q (List.mem_cons_of_mem _ hq))]
    simp only [dictSetDefault]
    split
    · rfl
    · have := h p (by simp)
      cases hh : attrIdx ds p.1 with
      | none => rw [hh] at this; simp at this
      | some j => simp [List.filter_append, List.filter_cons, hh]

theorem keysOf_setDefaults_nodup (dfl : List (Name × Str)) (d : Attrs) (h : (keysOf d).Nodup) :
    (keysOf (dfl.foldl (fun d p => dictSetDefault d p.1 p.2) d)).Nodup := by
  induction dfl generalizing d with
  | nil => exact h
  | cons p r ih =>
    simp only [List.foldl_cons]
    apply ih
    simp only [dictSetDefault]
    split
    · exact h
    · rename_i hh
      have hk : p.1 ∉ keysOf d := by
        intro hm; exact hh (dictHas_iff.mpr hm)
      rw [keysOf_append]
      apply List.nodup_append.mpr
      refine ⟨h, by simp [keysOf], ?_⟩
      intro a ha b hb
      simp only [keysOf, List.map_cons, List.map_nil, List.mem_singleton] at hb
      subst hb
      intro e; subst e; exact hk ha

theorem dictGet_append_of_some (d d' : Attrs) (k : Name) (v : Str) (h : dictGet d k = some v) :
    dictGet (d ++ d') k = some v := by
  induction d with
  | nil => simp [dictGet] at h
  | cons p r ih =>
    obtain ⟨k', v'⟩ := p
    by_cases e : k' = k
    · simp [dictGet, e] at h ⊢; exact h
    · simp only [dictGet, e, if_false, List.cons_append] at h ⊢
      exact ih h

theorem dictGet_setDefaults (dfl : List (Name × Str)) (d : Attrs) (k : Name) (v : Str) (h : dictGet d k = some v) :
    dictGet (dfl.foldl (fun d p => dictSetDefault d p.1 p.2) d) k = some v := by
  induction dfl generalizing d with
  | nil => exact h
  | cons p r ih =>
    simp only [List.foldl_cons]
    apply ih
    simp only [dictSetDefault]
    split
    · exact h
    · exact dictGet_append_of_some _ _ _ _ h

/-! ### declared attributes arrive in their members -/

theorem attrIdx_eq_some {ds : List AttrDecl} {k : Name} {j : Nat} :
    attrIdx ds k = some j → ∃ h : j < ds.length, ds[j].name = k := by
  induction ds generalizing j with
  | nil => simp [attrIdx]
  | cons a r ih =>
    intro h
    by_cases e : a.name = k
    · simp [attrIdx, e] at h; subst h; exact ⟨by simp, by simp [e]⟩
    · simp only [attrIdx, e, if_false, Option.map_eq_some_iff] at h
      obtain ⟨j', hj', rfl⟩ := h
      obtain ⟨h1, h2⟩ := ih hj'
      exact ⟨by simp; omega, by simp [h2]⟩

theorem harvestAttrs_frame (ds : List AttrDecl) (l : Attrs) (as : List (Option Str)) (ea : Attrs)
    (j : Nat) (hj : j < ds.length) (hk : ds[j].name ∉ keysOf l) :
    (harvestAttrs ds l as ea).1[j]? = as[j]? := by
  induction l generalizing as ea with
  | nil => simp [harvestAttrs]
  | cons p r ih =>
    obtain ⟨k, v⟩ := p
    simp only [keysOf, List.map_cons, List.mem_cons, not_or] at hk
    simp only [harvestAttrs]
    cases hi : attrIdx ds k with
    | none => exact ih _ _ (by simpa [keysOf] using hk.2)
    | some j0 =>
      simp only
      rw [ih _ _ (by simpa [keysOf] using hk.2)]
      obtain ⟨h1, h2⟩ := attrIdx_eq_some hi
      have : j0 ≠ j := by
        intro e; subst e; exact hk.1 h2
      simp [List.getElem?_set, this]

theorem harvestAttrs_declared_get (ds : List AttrDecl) (hn : (ds.map (·.name)).Nodup) (l : Attrs) (hl : (keysOf l).Nodup)
    (as : List (Option Str)) (ea : Attrs) (hlen : as.length = ds.length)
    (j : Nat) (hj : j < ds.length) (v : Str) (hv : dictGet l ds[j].name = some v) :
    (harvestAttrs ds l as ea).1[j]? = some (some v) := by
  induction l generalizing as ea with
  | nil => simp [dictGet] at hv
  | cons p r ih =>
    obtain ⟨k, v0⟩ := p
    simp only [keysOf, List.map_cons, List.nodup_cons] at hl
    simp only [harvestAttrs]
    by_cases e : k = ds[j].name
    · subst e
      simp only [dictGet, if_true, Option.some.injEq] at hv
      subst hv
      rw [attrIdx_getElem_of_nodup hn hj]
      simp only
      rw [harvestAttrs_frame ds r _ _ j hj (by simpa [keysOf] using hl.1)]
      simp [List.getElem?_set, hlen, hj]
    · have hv' : dictGet r ds[j].name = some v := by
        simpa [dictGet, e] using hv
      cases hi : attrIdx ds k with
      | none => exact ih (by simpa [keysOf] using hl.2) _ _ hlen hv'
      | some j0 => exact ih (by simpa [keysOf] using hl.2) _ _ (by simpa using hlen) hv'

/-! ### declared children arrive in their members, in document order -/

theorem harvestKids_frame (E : Env) (ds : List ChildDecl) (hn : (ds.map (·.key)).Nodup) (kids : List XNode)
    (ss : List (List Inst)) (ee : List ExtEl) (j : Nat) (hj : j < ds.length)
    (hk : ∀ k ∈ kids, k.tag ≠ ds[j].key) :
    (harvestKids E ds kids ss ee).1[j]? = ss[j]? := by
  induction kids generalizing ss ee with
  | nil => simp [harvestKids]
  | cons k r ih =>
    have hkr : ∀ k' ∈ r, k'.tag ≠ ds[j].key := fun k' hk' => hk k' (List.mem_cons_of_mem _ hk')
    have hne : ∀ j0 d, findDecl ds k.tag = some (j0, d) → j0 ≠ j := by
      intro j0 d hf e
      obtain ⟨h1, h2, h3⟩ := findDecl_eq_some hf
      subst e
      exact hk k (by simp) (by rw [← h3, h2])
    rcases harvestKids_cases E ds k with h | ⟨j0, d, c', h, hc, ht⟩ | ⟨j0, d, c', h, hc, ht⟩ | ⟨j0, d, h, hc⟩
    · rw [harvestKids_cons_none E ds k r ss ee h, ih _ _ hkr]
    · rw [harvestKids_cons_some E ds k r ss ee j0 d c' h hc ht, ih _ _ hkr]
      simp [putSlot, List.getElem?_modify, hne j0 d h]
    · rw [harvestKids_cons_mismatch E ds k r ss ee j0 d c' h hc ht, ih _ _ hkr]
      split
      · rfl
      · simp [List.getElem?_set, hne j0 d h]
    · rw [harvestKids_cons_nocls E ds k r ss ee j0 d h hc, ih _ _ hkr]

/-- a sound declaration: what `findDecl` returns for a child carrying the declared tag -/
theorem findDecl_sound (E : Env) (ds : List ChildDecl) (hn : (ds.map (·.key)).Nodup)
    (hs : ∀ d ∈ ds, declSound E.T d = true) (j : Nat) (hj : j < ds.length) :
    ∃ c', ds[j].cls = some c' ∧ (E.T c').tag = ds[j].key := by
  have := hs ds[j] (List.getElem_mem hj)
  simp only [declSound] at this
  cases hc : ds[j].cls with
  | none => rw [hc] at this; simp at this
  | some c' => rw [hc] at this; exact ⟨c', rfl, by simpa using this⟩

theorem harvestKids_list_slot (E : Env) (ds : List ChildDecl) (hn : (ds.map (·.key)).Nodup)
    (hs : ∀ d ∈ ds, declSound E.T d = true) (kids : List XNode)
    (ss : List (List Inst)) (ee : List ExtEl) (j : Nat) (hj : j < ds.length) (hjs : j < ss.length)
    (c' : Nat) (hc : ds[j].cls = some c') (hl : ds[j].isList = true) :
    (harvestKids E ds kids ss ee).1[j]? =
      some (ss[j] ++ (kids.filter fun k => decide (k.tag = ds[j].key)).map (harvest E c')) := by
  induction kids generalizing ss ee with
  | nil => simp [harvestKids, hjs]
  | cons k r ih =>
    by_cases hkt : k.tag = ds[j].key
    · obtain ⟨c'', hc'', ht''⟩ := findDecl_sound E ds hn hs j hj
      rw [hc] at hc''; cases hc''
      have hf : findDecl ds k.tag = some (j, ds[j]) := by rw [hkt]; exact findDecl_getElem_of_nodup hn hj
      rw [harvestKids_cons_some E ds k r ss ee j ds[j] c' hf hc (by rw [ht'', hkt])]
      rw [ih _ _ (by simpa [putSlot] using hjs)]
      simp [putSlot, List.getElem_modify, hjs, hl, List.filter_cons, hkt]
    · have hfil : ((k :: r).filter fun k => decide (k.tag = ds[j].key)) = (r.filter fun k => decide (k.tag = ds[j].key)) := by
        simp [List.filter_cons, hkt]
      rw [hfil]
      have hne : ∀ j0 d, findDecl ds k.tag = some (j0, d) → j0 ≠ j := by
        intro j0 d hf e
        obtain ⟨h1, h2, h3⟩ := findDecl_eq_some hf
        subst e
        exact hkt (by rw [← h3, h2])
      rcases harvestKids_cases E ds k with h | ⟨j0, d, c0, h, hc0, ht⟩ | ⟨j0, d, c0, h, hc0, ht⟩ | ⟨j0, d, h, hc0⟩
      · rw [harvestKids_cons_none E ds k r ss ee h]; exact ih _ _ hjs
      · rw [harvestKids_cons_some E ds k r ss ee j0 d c0 h hc0 ht, ih _ _ (by simpa [putSlot] using hjs)]
        simp [putSlot, List.getElem_modify, hne j0 d h]
      · rw [harvestKids_cons_mismatch E ds k r ss ee j0 d c0 h hc0 ht]
        split
        · exact ih _ _ hjs
        · rw [ih _ _ (by simpa using hjs)]
          simp [List.getElem_set, hne j0 d h]
      · rw [harvestKids_cons_nocls E ds k r ss ee j0 d h hc0]; exact ih _ _ hjs

theorem harvestKids_single_slot (E : Env) (ds : List ChildDecl) (hn : (ds.map (·.key)).Nodup)
    (hs : ∀ d ∈ ds, declSound E.T d = true) (kids : List XNode)
    (ss : List (List Inst)) (ee : List ExtEl) (j : Nat) (hj : j < ds.length) (hjs : j < ss.length)
    (c' : Nat) (hc : ds[j].cls = some c') (hl : ds[j].isList = false) (hempty : ss[j] = [])
    (hone : (kids.filter fun k => decide (k.tag = ds[j].key)).length ≤ 1) :
    (harvestKids E ds kids ss ee).1[j]? =
      some ((kids.filter fun k => decide (k.tag = ds[j].key)).map (harvest E c')) := by
  induction kids generalizing ss ee with
  | nil => simp [harvestKids, hjs, hempty]
  | cons k r ih =>
    by_cases hkt : k.tag = ds[j].key
    · have hfil : ((k :: r).filter fun k => decide (k.tag = ds[j].key)) = k :: (r.filter fun k => decide (k.tag = ds[j].key)) := by
        simp [List.filter_cons, hkt]
      rw [hfil] at hone ⊢
      have hr0 : (r.filter fun k => decide (k.tag = ds[j].key)) = [] := by
        apply List.eq_nil_of_length_eq_zero
        have := hone
        simp only [List.length_cons] at this
        omega
      have hnone : ∀ k' ∈ r, k'.tag ≠ ds[j].key := by
        intro k' hk' e
        have : k' ∈ r.filter fun k => decide (k.tag = ds[j].key) := List.mem_filter.mpr ⟨hk', by simp [e]⟩
        rw [hr0] at this; cases this
      obtain ⟨c'', hc'', ht''⟩ := findDecl_sound E ds hn hs j hj
      rw [hc] at hc''; cases hc''
      have hf : findDecl ds k.tag = some (j, ds[j]) := by rw [hkt]; exact findDecl_getElem_of_nodup hn hj
      rw [harvestKids_cons_some E ds k r ss ee j ds[j] c' hf hc (by rw [ht'', hkt])]
      rw [harvestKids_frame E ds hn r _ _ j hj hnone]
      simp [putSlot, List.getElem?_modify, hjs, hl, hr0]
    · have hfil : ((k :: r).filter fun k => decide (k.tag = ds[j].key)) = (r.filter fun k => decide (k.tag = ds[j].key)) := by
        simp [List.filter_cons, hkt]
      rw [hfil] at hone ⊢
      have hne : ∀ j0 d, findDecl ds k.tag = some (j0, d) → j0 ≠ j := by
        intro j0 d hf e
        obtain ⟨h1, h2, h3⟩ := findDecl_eq_some hf
        subst e
        exact hkt (by rw [← h3, h2])
      rcases harvestKids_cases E ds k with h | ⟨j0, d, c0, h, hc0, ht⟩ | ⟨j0, d, c0, h, hc0, ht⟩ | ⟨j0, d, h, hc0⟩
      · rw [harvestKids_cons_none E ds k r ss ee h]; exact ih _ _ hjs hempty hone
      · rw [harvestKids_cons_some E ds k r ss ee j0 d c0 h hc0 ht]
        exact ih _ _ (by simpa [putSlot] using hjs) (by simp [putSlot, List.getElem_modify, hne j0 d h, hempty]) hone
      · rw [harvestKids_cons_mismatch E ds k r ss ee j0 d c0 h hc0 ht]
        split
        · exact ih _ _ hjs hempty hone
        · exact ih _ _ (by simpa using hjs) (by simp [List.getElem_set, hne j0 d h, hempty]) hone
      · rw [harvestKids_cons_nocls E ds k r ss ee j0 d h hc0]; exact ih _ _ hjs hempty hone

/-! ### the parsed object of a plain class -/

theorem harvest_unknown (E : Env) (hT : TableWf E.T) (c : Nat) (hkind : (E.T c).kind = .plain)
    (x : XNode) (hx : nodupKeys x.attrs = true) :
    (harvest E c x).extEls = toExtList (x.kids.filter fun k => (findDecl (E.T c).children k.tag).isNone) ∧
    (harvest E c x).extAttrs = x.attrs.filter (fun p => (attrIdx (E.T c).attrs p.1).isNone) ∧
    (harvest E c x).text = x.text := by
  obtain ⟨hcd, _⟩ := hT c
  obtain ⟨_, _, _, _, _, hdfl, _⟩ := classWf_spec (E.T c) hcd
  cases x with
  | mk tag attrs text kids =>
    simp only [XNode.attrs] at hx
    simp only [harvest, hkind, Inst.extEls, Inst.extAttrs, Inst.text, XNode.kids, XNode.attrs, XNode.text,
      harvestKids_ext_part, harvestAttrs_ext_part, List.nil_append, true_and, and_true]
    rw [setDefaults_filter _ _ _ hdfl]
    exact dictSetAll_nil_eq (keysOf_filter_nodup _ (nodupNat_iff.mp hx))

/-! ### AttributeValue: the xsi bookkeeping never touches a foreign attribute -/

def foreignKey (K : AvConsts) (k : Name) : Bool :=
  !(k == K.xsiNil) && !(k == K.xsiType) && !(k == K.xmlnsXs) && !(k == K.xmlnsXsd)

theorem foreignAttr_eq (K : AvConsts) : foreignAttr K = fun p => foreignKey K p.1 := rfl

theorem filter_foreign_dictDel (K : AvConsts) (d : Attrs) (k : Name) (hk : foreignKey K k = false) :
    (dictDel d k).filter (fun p => foreignKey K p.1) = d.filter (fun p => foreignKey K p.1) := by
  simp only [dictDel, List.filter_filter]
  apply List.filter_congr
  intro p _
  by_cases e : p.1 = k
  · simp [e, hk]
  · simp [e]

theorem filter_foreign_dictSet (K : AvConsts) (d : Attrs) (k : Name) (v : Str) (hk : foreignKey K k = false) :
    (dictSet d k v).filter (fun p => foreignKey K p.1) = d.filter (fun p => foreignKey K p.1) := by
  rw [filter_dictSet (foreignKey K)]; simp [hk]

theorem filter_foreign_avSetType (K : AvConsts) (ea : Attrs) (typ : Str) :
    (avSetType K ea typ).filter (fun p => foreignKey K p.1) = ea.filter (fun p => foreignKey K p.1) := by
  have hnil : foreignKey K K.xsiNil = false := by simp [foreignKey]
  have htyp : foreignKey K K.xsiType = false := by simp [foreignKey]
  have hxs : foreignKey K K.xmlnsXs = false := by simp [foreignKey]
  have hxsd : foreignKey K K.xmlnsXsd = false := by simp [foreignKey]
  simp only [avSetType]
  by_cases h1 : sXsColon.isPrefixOf typ = true <;> by_cases h2 : sXsdColon.isPrefixOf typ = true <;>
    simp only [h1, h2, if_true, if_false, Bool.false_eq_true, filter_foreign_dictSet K _ _ _ hxsd, filter_foreign_dictSet K _ _ _ hxs,
      filter_foreign_dictSet K _ _ _ htyp, filter_foreign_dictDel K _ _ hnil]

theorem avFinish_foreign (K : AvConsts) (conv : Conv) (ea : Attrs) (text : Option Str) (hasExt : Bool)
    (ea' : Attrs) (t' : Option Str) (h : avFinish K conv ea text hasExt = some (ea', t')) :
    ea'.filter (foreignAttr K) = ea.filter (foreignAttr K) := by
  have hnil : foreignKey K K.xsiNil = false := by simp [foreignKey]
  rw [foreignAttr_eq]
  unfold avFinish at h
  generalize avText1 text hasExt = t1 at h
  by_cases ht1 : t1 = []
  · simp only [ht1, if_true, Option.some.injEq, Prod.mk.injEq] at h
    rw [← h.1]
    cases hasExt with
    | true => exact filter_foreign_dictDel K ea _ hnil
    | false => rfl
  · simp only [ht1, if_false] at h
    cases hc : convert conv ((typeKind (avTypeParts K ea).2).getD TKind.str) t1 with
    | none => rw [hc] at h; cases h
    | some t2 =>
      rw [hc] at h
      simp only [Option.some.injEq, Prod.mk.injEq] at h
      rw [← h.1, filter_foreign_dictDel K _ _ hnil, filter_foreign_avSetType]

/-! ### the specification of parsing holds of `harvest`, at any depth -/

theorem specKids_map (E : Env) (c : Nat) (xs : List XNode)
    (h : ∀ x ∈ xs, specParse E c x (harvest E c x) = true) : specKids E c xs (xs.map (harvest E c)) = true := by
  induction xs with
  | nil => simp [specKids]
  | cons x r ih =>
    simp only [List.map_cons, specKids, Bool.and_eq_true]
    exact ⟨h x (by simp), ih (fun y hy => h y (List.mem_cons_of_mem _ hy))⟩

/-- what `specSlots` asks of one member -/
def slotCond (E : Env) (kids : List XNode) (d : ChildDecl) (s : List Inst) : Bool :=
  match d.cls with
  | some c' =>
    if d.isList || (kids.filter fun k => decide (k.tag = d.key)).length ≤ 1 then
      specKids E c' (kids.filter fun k => decide (k.tag = d.key)) s
    else true
  | none => (kids.filter fun k => decide (k.tag = d.key)).isEmpty

theorem specSlots_of_forall (E : Env) (kids : List XNode) (ds : List ChildDecl) (ss : List (List Inst))
    (hlen : ss.length = ds.length)
    (h : ∀ j (hj : j < ds.length) (hs : j < ss.length), slotCond E kids ds[j] ss[j] = true) :
    specSlots E ds kids ss = true := by
  induction ss generalizing ds with
  | nil =>
    cases ds with
    | nil => simp [specSlots]
    | cons _ _ => simp at hlen
  | cons s r ih =>
    cases ds with
    | nil => simp at hlen
    | cons d ds' =>
      simp only [specSlots, Bool.and_eq_true]
      constructor
      · have := h 0 (by simp) (by simp)
        simp only [List.getElem_cons_zero, slotCond] at this
        cases hc : d.cls with
        | none => rw [hc] at this; simpa using this
        | some c' => rw [hc] at this; simpa using this
      · apply ih ds' (by simpa using hlen)
        intro j hj hs
        have := h (j + 1) (by simpa using hj) (by simpa using hs)
        simpa using this

theorem xWfList_spec (l : List XNode) : xWfList l = true ↔ ∀ k ∈ l, xWf k = true := by
  induction l with
  | nil => simp [xWfList]
  | cons k r ih => simp [xWfList, ih]

theorem specParse_harvest (E : Env) (hT : TableWf E.T) :
    ∀ x, xWf x = true → ∀ c, raises E c x = false → specParse E c x (harvest E c x) = true := by
  intro x
  induction x using XNode.induct with
  | h tag attrs text kids ih =>
    intro hx c hr
    obtain ⟨hcd, hsound⟩ := hT c
    obtain ⟨hkeys, hnames, hord, hnons, hinit, hdfl, hav⟩ := classWf_spec (E.T c) hcd
    simp only [xWf, Bool.and_eq_true] at hx
    obtain ⟨hattrs, hkidsWf⟩ := hx
    have hkw := (xWfList_spec kids).mp hkidsWf
    have hnd : (keysOf attrs).Nodup := nodupNat_iff.mp hattrs
    simp only [raises, Bool.or_eq_false_iff] at hr
    obtain ⟨hrk, hrav⟩ := hr
    rw [raisesKids_eq_any] at hrk
    have hrk' : ∀ k ∈ kids, kidRaises E (E.T c).children k = false := by
      intro k hk
      cases hh : kidRaises E (E.T c).children k with
      | false => rfl
      | true =>
        have : kids.any (kidRaises E (E.T c).children) = true := List.any_eq_true.mpr ⟨k, hk, hh⟩
        rw [this] at hrk; cases hrk
    -- the members
    have hslots : specSlots E (E.T c).children kids
        (harvestKids E (E.T c).children kids ((E.T c).children.map fun _ => []) []).1 = true := by
      apply specSlots_of_forall
      · rw [harvestKids_length]; simp
      · intro j hj hs
        obtain ⟨c', hc', ht'⟩ := findDecl_sound E (E.T c).children hkeys hsound j hj
        have hst : j < ((E.T c).children.map fun _ => ([] : List Inst)).length := by simpa using hj
        have hmine : ∀ k ∈ kids.filter (fun k => decide (k.tag = (E.T c).children[j].key)),
            specParse E c' k (harvest E c' k) = true := by
          intro k hk
          obtain ⟨hk1, hk2⟩ := List.mem_filter.mp hk
          have hkt : k.tag = (E.T c).children[j].key := by simpa using hk2
          have hf : findDecl (E.T c).children k.tag = some (j, (E.T c).children[j]) := by
            rw [hkt]; exact findDecl_getElem_of_nodup hkeys hj
          have hkr := hrk' k hk1
          unfold kidRaises at hkr
          rw [hf] at hkr
          simp only [hc', ht', hkt, if_true] at hkr
          exact ih k hk1 (hkw k hk1) c' hkr
        simp only [slotCond, hc']
        by_cases hl : (E.T c).children[j].isList = true
        · have := harvestKids_list_slot E (E.T c).children hkeys hsound kids _ [] j hj hst c' hc' hl
          have hget : (harvestKids E (E.T c).children kids ((E.T c).children.map fun _ => []) []).1[j] =
              (kids.filter fun k => decide (k.tag = (E.T c).children[j].key)).map (harvest E c') := by
            have h2 := List.getElem?_eq_getElem hs
            rw [this] at h2
            simpa using h2.symm
          rw [hget]
          simp only [hl, Bool.true_or, if_true]
          exact specKids_map E c' _ hmine
        · have hl' : (E.T c).children[j].isList = false := by simpa using hl
          simp only [hl', Bool.false_or]
          split
          · rename_i hone
            have hone' : (kids.filter fun k => decide (k.tag = (E.T c).children[j].key)).length ≤ 1 := by simpa using hone
            have := harvestKids_single_slot E (E.T c).children hkeys hsound kids _ [] j hj hst c' hc' hl' (by simp) hone'
            have hget : (harvestKids E (E.T c).children kids ((E.T c).children.map fun _ => []) []).1[j] =
                (kids.filter fun k => decide (k.tag = (E.T c).children[j].key)).map (harvest E c') := by
              have h2 := List.getElem?_eq_getElem hs
              rw [this] at h2
              simpa using h2.symm
            rw [hget]
            exact specKids_map E c' _ hmine
          · rfl
    cases hkind : (E.T c).kind with
    | plain =>
      simp only [harvest, hkind, specParse, XNode.kids, XNode.attrs, XNode.text, harvestKids_ext_part, List.nil_append,
        harvestAttrs_ext_part, harvestAttrs_length, hinit, hslots, decide_true, Bool.true_and, Bool.and_true]
      rw [setDefaults_filter _ _ _ hdfl, dictSetAll_nil_eq (keysOf_filter_nodup _ hnd)]
      simp only [decide_true, Bool.true_and]
      rw [List.all_eq_true]
      intro j hj
      have hjl : j < (E.T c).attrs.length := by simpa using hj
      simp only [List.getElem?_eq_getElem hjl]
      cases hv : dictGet attrs (E.T c).attrs[j].name with
      | none => rfl
      | some v =>
        simp only [decide_eq_true_eq]
        exact harvestAttrs_declared_get (E.T c).attrs hnames _ (keysOf_setDefaults_nodup _ _ hnd) _ [] hinit j hjl v
          (dictGet_setDefaults _ _ _ _ hv)
    | attrValue =>
      obtain ⟨hc0, ha0, hd0⟩ := hav hkind
      have hini : (E.T c).attrInit = [] := by
        rw [ha0] at hinit; exact List.eq_nil_of_length_eq_zero (by simpa using hinit)
      rw [hkind] at hrav
      simp only [ha0, hini, harvestAttrs_nil] at hrav
      have hext := harvestKids_ext_part E (E.T c).children kids ((E.T c).children.map fun _ => []) []
      simp only [List.nil_append] at hext
      generalize hrdef : harvestKids E (E.T c).children kids ((E.T c).children.map fun _ => []) [] = r at hslots hrav hext
      cases hfin : avFinish E.K E.conv (dictSetAll [(E.K.xsiNil, sTrue)] attrs) text (!r.2.isEmpty) with
      | none => rw [hfin] at hrav; simp at hrav
      | some p =>
        obtain ⟨ea', t'⟩ := p
        have hfor := avFinish_foreign _ _ _ _ _ _ _ hfin
        have hfor2 : ea'.filter (foreignAttr E.K) = attrs.filter (foreignAttr E.K) := by
          rw [hfor, foreignAttr_eq, filter_dictSetAll (foreignKey E.K)]
          have : ([(E.K.xsiNil, sTrue)] : Attrs).filter (fun p => foreignKey E.K p.1) = [] := by
            simp [foreignKey]
          rw [this, dictSetAll_nil_eq (keysOf_filter_nodup _ hnd)]
        rw [hext] at hfin
        simp only [harvest, hkind, ha0, hini, harvestAttrs_nil, hrdef, hext, hfin, specParse, XNode.kids, XNode.attrs,
          hfor2, hslots, decide_true, Bool.true_and, Bool.and_true, List.length_nil,
          List.range_zero, List.all_nil]

theorem specDoc_parseDoc (E : Env) (hT : TableWf E.T) (c : Nat) (dtd : List DtdDecl) (x : XNode)
    (hx : xWf x = true) : specDoc E c dtd x (parseDoc E c dtd x) = true := by
  unfold parseDoc
  by_cases h1 : dtd.any DtdDecl.isEntity = true
  · simp [h1, specDoc]
  · have h1' : dtd.any DtdDecl.isEntity = false := by simpa using h1
    simp only [h1', Bool.false_eq_true, if_false]
    by_cases h2 : x.tag = (E.T c).tag
    · simp only [h2, if_true]
      cases h3 : raises E c x with
      | true => simp [specDoc, h1', h2, h3]
      | false =>
        simp only [Bool.false_eq_true, if_false, specDoc, h1', Bool.not_false, Bool.true_and, h2, decide_true]
        exact specParse_harvest E hT x hx c h3
    · simp [h2, specDoc, h1']

end ObjModel
