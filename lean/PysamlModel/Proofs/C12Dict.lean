/-
  C12 helper lemmas, part 1: Python-dict operations, index lookups, extension elements.
-/
import PysamlModel.Model.ObjModel
import PysamlModel.Spec.C12

set_option linter.unusedSimpArgs false
set_option linter.unusedVariables false

namespace ObjModel

/-! ### nodup checkers -/

theorem nodupNat_iff {l : List Nat} : nodupNat l = true ↔ l.Nodup := by
  induction l with
  | nil => simp [nodupNat]
  | cons a r ih => simp [nodupNat, ih, List.nodup_cons]

theorem nodupQ_iff {l : List QName} : nodupQ l = true ↔ l.Nodup := by
  induction l with
  | nil => simp [nodupQ]
  | cons a r ih => simp [nodupQ, ih, List.nodup_cons]

theorem nodupON_iff {l : List (Option Nat)} : nodupON l = true ↔ l.Nodup := by
  induction l with
  | nil => simp [nodupON]
  | cons a r ih => simp [nodupON, ih, List.nodup_cons]

/-! ### dicts -/

theorem dictHas_iff {d : Attrs} {k : Name} : dictHas d k = true ↔ k ∈ keysOf d := by
  induction d with
  | nil => simp [dictHas, keysOf]
  | cons p r ih =>
    simp only [dictHas, keysOf, List.any_cons, Bool.or_eq_true, beq_iff_eq, List.map_cons, List.mem_cons] at ih ⊢
    rw [ih]
    constructor
    · rintro (h | h)
      · exact Or.inl h.symm
      · exact Or.inr h
    · rintro (h | h)
      · exact Or.inl h.symm
      · exact Or.inr h

theorem dictSet_of_not_mem {d : Attrs} {k : Name} {v : Str} (h : k ∉ keysOf d) : dictSet d k v = d ++ [(k, v)] := by
  induction d with
  | nil => rfl
  | cons p r ih =>
    obtain ⟨k', v'⟩ := p
    simp only [keysOf, List.map_cons, List.mem_cons, not_or] at h
    have hne : ¬ k' = k := fun e => h.1 e.symm
    simp only [dictSet, hne, if_false, List.cons_append]
    rw [ih (by simpa [keysOf] using h.2)]

theorem keysOf_append (a b : Attrs) : keysOf (a ++ b) = keysOf a ++ keysOf b := by simp [keysOf]

theorem dictSetAll_eq_append {d l : Attrs} (hl : (keysOf l).Nodup) (hd : ∀ k ∈ keysOf l, k ∉ keysOf d) :
    dictSetAll d l = d ++ l := by
  induction l generalizing d with
  | nil => simp [dictSetAll]
  | cons p r ih =>
    obtain ⟨k, v⟩ := p
    simp only [keysOf, List.map_cons, List.nodup_cons] at hl
    have hk : k ∉ keysOf d := hd k (by simp [keysOf])
    simp only [dictSetAll, List.foldl_cons]
    rw [dictSet_of_not_mem hk]
    have := ih (d := d ++ [(k, v)]) hl.2 (by
      intro k' hk' hmem
      rw [keysOf_append] at hmem
      rcases List.mem_append.mp hmem with h1 | h1
      · exact hd k' (by simp only [keysOf, List.map_cons, List.mem_cons]; exact Or.inr hk') h1
      · simp [keysOf] at h1
        subst h1
        exact hl.1 hk')
    simp only [dictSetAll] at this
    rw [this]
    simp

theorem dictSetAll_nil_eq {l : Attrs} (hl : (keysOf l).Nodup) : dictSetAll [] l = l := by
  rw [dictSetAll_eq_append hl (by simp [keysOf])]; rfl

theorem dictGet_eq_some_of_mem_nodup {d : Attrs} {k : Name} {v : Str} (hd : (keysOf d).Nodup) (h : (k, v) ∈ d) :
    dictGet d k = some v := by
  induction d with
  | nil => cases h
  | cons p r ih =>
    obtain ⟨k', v'⟩ := p
    simp only [keysOf, List.map_cons, List.nodup_cons] at hd
    rcases List.mem_cons.mp h with h1 | h1
    · cases h1; simp [dictGet]
    · have : k' ≠ k := by
        intro e; subst e
        exact hd.1 (List.mem_map.mpr ⟨(k', v), h1, rfl⟩)
      simp [dictGet, this, ih hd.2 h1]

theorem dictGet_none_of_not_mem {d : Attrs} {k : Name} (h : k ∉ keysOf d) : dictGet d k = none := by
  induction d with
  | nil => rfl
  | cons p r ih =>
    obtain ⟨k', v'⟩ := p
    simp only [keysOf, List.map_cons, List.mem_cons, not_or] at h
    have : ¬ k' = k := fun e => h.1 e.symm
    simp [dictGet, this, ih (by simpa [keysOf] using h.2)]

theorem dictSet_same {d : Attrs} {k : Name} {v : Str} (h : dictGet d k = some v) : dictSet d k v = d := by
  induction d with
  | nil => simp [dictGet] at h
  | cons p r ih =>
    obtain ⟨k', v'⟩ := p
    by_cases e : k' = k
    · subst e; simp [dictGet] at h; subst h; simp [dictSet]
    · simp only [dictGet, e, if_false] at h
      simp [dictSet, e, ih h]

theorem dictDel_of_not_mem {d : Attrs} {k : Name} (h : k ∉ keysOf d) : dictDel d k = d := by
  simp only [dictDel]
  apply List.filter_eq_self.mpr
  intro p hp
  have : p.1 ≠ k := fun e => h (e ▸ List.mem_map.mpr ⟨p, hp, rfl⟩)
  simp [this]

/-- filtering on a predicate of the key commutes with assignment -/
theorem filter_dictSet (q : Name → Bool) (d : Attrs) (k : Name) (v : Str) :
    (dictSet d k v).filter (fun p => q p.1) =
      if q k then dictSet (d.filter fun p => q p.1) k v else d.filter fun p => q p.1 := by
  induction d with
  | nil => by_cases h : q k <;> simp [dictSet, h]
  | cons p r ih =>
    obtain ⟨k', v'⟩ := p
    by_cases e : k' = k
    · subst e
      by_cases h : q k' <;> simp [dictSet, h, List.filter_cons]
    · by_cases h : q k
      · simp only [h, if_true] at ih ⊢
        by_cases h' : q k'
        · simp [dictSet, e, List.filter_cons, h', ih]
        · simp [dictSet, e, List.filter_cons, h', ih]
      · simp only [h] at ih ⊢
        by_cases h' : q k'
        · simp [dictSet, e, List.filter_cons, h', ih]
        · simp [dictSet, e, List.filter_cons, h', ih]

theorem filter_dictSetAll (q : Name → Bool) (d l : Attrs) :
    (dictSetAll d l).filter (fun p => q p.1) = dictSetAll (d.filter fun p => q p.1) (l.filter fun p => q p.1) := by
  induction l generalizing d with
  | nil => simp [dictSetAll]
  | cons p r ih =>
    obtain ⟨k, v⟩ := p
    simp only [dictSetAll, List.foldl_cons] at ih ⊢
    rw [ih, filter_dictSet]
    by_cases h : q k <;> simp [h, List.filter_cons]

/-! ### positions -/

theorem idxOf_eq_some_iff {l : List Name} {m : Name} {j : Nat} :
    idxOf l m = some j → ∃ h : j < l.length, l[j] = m := by
  induction l generalizing j with
  | nil => simp [idxOf]
  | cons a r ih =>
    intro h
    by_cases e : a = m
    · simp [idxOf, e] at h; subst h; exact ⟨by simp, by simp [e]⟩
    · simp only [idxOf, e, if_false, Option.map_eq_some_iff] at h
      obtain ⟨j', hj', rfl⟩ := h
      obtain ⟨h1, h2⟩ := ih hj'
      exact ⟨by simp; omega, by simp [h2]⟩

theorem idxOf_getElem_of_nodup {l : List Name} (hl : l.Nodup) {j : Nat} (hj : j < l.length) : idxOf l l[j] = some j := by
  induction l generalizing j with
  | nil => cases hj
  | cons a r ih =>
    simp only [List.nodup_cons] at hl
    cases j with
    | zero => simp [idxOf]
    | succ j' =>
      have hj' : j' < r.length := by simpa using hj
      have : ¬ a = r[j'] := fun e => hl.1 (e ▸ List.getElem_mem hj')
      simp [idxOf, this, ih hl.2 hj']

theorem findDecl_eq_some {ds : List ChildDecl} {q : QName} {j : Nat} {d : ChildDecl} :
    findDecl ds q = some (j, d) → ∃ h : j < ds.length, ds[j] = d ∧ d.key = q := by
  induction ds generalizing j with
  | nil => simp [findDecl]
  | cons a r ih =>
    intro h
    by_cases e : a.key = q
    · simp [findDecl, e] at h; obtain ⟨rfl, rfl⟩ := h; exact ⟨by simp, by simp, e⟩
    · simp only [findDecl, e, if_false, Option.map_eq_some_iff] at h
      obtain ⟨⟨j', d'⟩, hj', heq⟩ := h
      simp only [Prod.mk.injEq] at heq
      obtain ⟨rfl, rfl⟩ := heq
      obtain ⟨h1, h2, h3⟩ := ih hj'
      exact ⟨by simp; omega, by simp [h2], h3⟩

theorem findDecl_getElem_of_nodup {ds : List ChildDecl} (hl : (ds.map (·.key)).Nodup) {j : Nat} (hj : j < ds.length) :
    findDecl ds ds[j].key = some (j, ds[j]) := by
  induction ds generalizing j with
  | nil => cases hj
  | cons a r ih =>
    simp only [List.map_cons, List.nodup_cons] at hl
    cases j with
    | zero => simp [findDecl]
    | succ j' =>
      have hj' : j' < r.length := by simpa using hj
      have : ¬ a.key = r[j'].key := fun e => hl.1 (e ▸ List.mem_map.mpr ⟨r[j'], List.getElem_mem hj', rfl⟩)
      simp [findDecl, this, ih hl.2 hj']

theorem findDecl_eq_none_iff {ds : List ChildDecl} {q : QName} : findDecl ds q = none ↔ q ∉ ds.map (·.key) := by
  induction ds with
  | nil => simp [findDecl]
  | cons a r ih =>
    by_cases e : a.key = q
    · simp [findDecl, e]
    · have e' : ¬ q = a.key := fun h => e h.symm
      simp only [findDecl, e, if_false, Option.map_eq_none_iff, ih, List.map_cons, List.mem_cons, not_or, e', not_false_eq_true, true_and]

theorem attrIdx_eq_none_iff {ds : List AttrDecl} {k : Name} : attrIdx ds k = none ↔ k ∉ ds.map (·.name) := by
  induction ds with
  | nil => simp [attrIdx]
  | cons a r ih =>
    by_cases e : a.name = k
    · simp [attrIdx, e]
    · have e' : ¬ k = a.name := fun h => e h.symm
      simp only [attrIdx, e, if_false, Option.map_eq_none_iff, ih, List.map_cons, List.mem_cons, not_or, e', not_false_eq_true, true_and]

theorem attrIdx_getElem_of_nodup {ds : List AttrDecl} (hl : (ds.map (·.name)).Nodup) {j : Nat} (hj : j < ds.length) :
    attrIdx ds ds[j].name = some j := by
  induction ds generalizing j with
  | nil => cases hj
  | cons a r ih =>
    simp only [List.map_cons, List.nodup_cons] at hl
    cases j with
    | zero => simp [attrIdx]
    | succ j' =>
      have hj' : j' < r.length := by simpa using hj
      have : ¬ a.name = r[j'].name := fun e => hl.1 (e ▸ List.mem_map.mpr ⟨r[j'], List.getElem_mem hj', rfl⟩)
      simp [attrIdx, this, ih hl.2 hj']

/-! ### extension elements -/

mutual
theorem toExt_ofExt : ∀ e : ExtEl, toExt (ofExt e) = e
  | .mk ns tag attrs kids text => by simp [ofExt, toExt, toExtList_ofExtList kids]
theorem toExtList_ofExtList : ∀ l : List ExtEl, toExtList (ofExtList l) = l
  | [] => rfl
  | e :: r => by simp [ofExtList, toExtList, toExt_ofExt e, toExtList_ofExtList r]
end

mutual
theorem ofExt_toExt : ∀ x : XNode, ofExt (toExt x) = x
  | .mk tag attrs text kids => by simp [ofExt, toExt, ofExtList_toExtList kids]
theorem ofExtList_toExtList : ∀ l : List XNode, ofExtList (toExtList l) = l
  | [] => rfl
  | e :: r => by simp [ofExtList, toExtList, ofExt_toExt e, ofExtList_toExtList r]
end

theorem ofExt_tag (e : ExtEl) : (ofExt e).tag = e.qname := by
  cases e; simp [ofExt, XNode.tag, ExtEl.qname]

theorem ofExtList_eq_map (l : List ExtEl) : ofExtList l = l.map ofExt := by
  induction l with
  | nil => rfl
  | cons a r ih => simp [ofExtList, ih]

theorem toExtList_eq_map (l : List XNode) : toExtList l = l.map toExt := by
  induction l with
  | nil => rfl
  | cons a r ih => simp [toExtList, ih]

theorem serList_eq_map (T : Nat → ClassDef) (l : List Inst) : serList T l = l.map (serialise T) := by
  induction l with
  | nil => rfl
  | cons a r ih => simp [serList, ih]

theorem serSlots_eq_map (T : Nat → ClassDef) (l : List (List Inst)) : serSlots T l = l.map (serList T) := by
  induction l with
  | nil => rfl
  | cons a r ih => simp [serSlots, ih]

end ObjModel
