/-
  Helper lemmas for the C02 flow theorems (Model/XswFlow.lean).
-/
import PysamlModel.Model.XswFlow
import PysamlModel.Proofs.Xsw

namespace Xsw

/-- a completed run made every check succeed and met no `fail` step -/
theorem runActs_ok (chk : Bool → Path → Bool) :
    ∀ (acts : List Act), (runActs chk acts).2 = true →
      Act.fail ∉ acts ∧ ∀ d p, Act.check d p ∈ acts → chk d p = true := by
  intro acts
  induction acts with
  | nil => intro _; simp
  | cons a rest ih =>
    intro h
    cases a with
    | fail => simp [runActs] at h
    | check d p =>
      by_cases hc : chk d p = true
      · simp only [runActs, hc, if_true] at h
        obtain ⟨hnf, hall⟩ := ih h
        refine ⟨by simp [hnf], ?_⟩
        intro d' p' hm
        simp only [List.mem_cons] at hm
        rcases hm with hm | hm
        · cases hm; exact hc
        · exact hall d' p' hm
      · simp [runActs, hc] at h

/-- every check recorded by a run was a step of the plan, with the result `chk` gives -/
theorem runActs_calls (chk : Bool → Path → Bool) :
    ∀ (acts : List Act) d p r, (d, p, r) ∈ (runActs chk acts).1 → Act.check d p ∈ acts ∧ r = chk d p := by
  intro acts
  induction acts with
  | nil => intro d p r h; simp [runActs] at h
  | cons a rest ih =>
    intro d p r h
    cases a with
    | fail => simp [runActs] at h
    | check d' p' =>
      by_cases hc : chk d' p' = true
      · simp only [runActs, hc, if_true, List.mem_cons] at h
        rcases h with h | h
        · cases h; exact ⟨by simp, hc.symm⟩
        · obtain ⟨hm, hr⟩ := ih d p r h
          exact ⟨by simp [hm], hr⟩
      · have hf : chk d' p' = false := by simpa using hc
        simp only [runActs, hf, Bool.false_eq_true, if_false, List.mem_singleton] at h
        cases h
        exact ⟨by simp, hf.symm⟩

/-- what `kidsWith` lists: children of `n` carrying the tag, at the path of `n` extended by their index -/
theorem kidsWith_spec (n : XNode) (p : Path) (tag : String) (q : Path × XNode) (h : q ∈ kidsWith n p tag) :
    ∃ i, q.1 = p ++ [i] ∧ n.kids[i]? = some q.2 ∧ q.2.tag = tag := by
  unfold kidsWith at h
  simp only [List.mem_map, List.mem_filter] at h
  obtain ⟨⟨c, i⟩, ⟨hm, ht⟩, hq⟩ := h
  refine ⟨i, ?_, ?_, ?_⟩
  · rw [← hq]
  · rw [← hq]; exact List.mem_zipIdx_iff_getElem?.mp hm
  · rw [← hq]; simpa using ht

theorem nodeAt_kid (doc n : XNode) (p : Path) (i : Nat) (c : XNode)
    (hn : nodeAt doc p = some n) (hc : n.kids[i]? = some c) : nodeAt doc (p ++ [i]) = some c := by
  rw [nodeAt_append, hn]
  simp [nodeAt, hc]

/-- an assertion carried by EncryptedAssertion children of `n` is a grandchild of `n` tagged Assertion -/
theorem carried_spec (doc n : XNode) (p : Path) (hn : nodeAt doc p = some n) (q : Path × XNode)
    (h : q ∈ carried (kidsWith n p tEncryptedAssertion)) :
    nodeAt doc q.1 = some q.2 ∧ q.2.tag = tAssertion := by
  unfold carried at h
  simp only [List.mem_flatMap] at h
  obtain ⟨e, he, hq⟩ := h
  obtain ⟨i, hp, hk, _⟩ := kidsWith_spec n p tEncryptedAssertion e he
  obtain ⟨j, hp2, hk2, ht2⟩ := kidsWith_spec e.2 e.1 tAssertion q hq
  have he2 : nodeAt doc e.1 = some e.2 := by rw [hp]; exact nodeAt_kid doc n p i e.2 hn hk
  exact ⟨by rw [hp2]; exact nodeAt_kid doc e.2 e.1 j q.2 he2 hk2, ht2⟩

end Xsw
