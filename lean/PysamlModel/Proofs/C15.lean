/-
  C15 — helper lemmas for Props/C15.lean (no property statements here).
-/
import PysamlModel.Model.RedirectSig
import PysamlModel.Spec.C15

namespace RedirectSig

/-! ### the literal keys are pairwise different -/

theorem kReq_ne_kResp : kSAMLRequest ≠ kSAMLResponse := by decide
theorem kReq_ne_kRelay : kSAMLRequest ≠ kRelayState := by decide
theorem kReq_ne_kSigAlg : kSAMLRequest ≠ kSigAlg := by decide
theorem kReq_ne_kSig : kSAMLRequest ≠ kSignature := by decide
theorem kResp_ne_kRelay : kSAMLResponse ≠ kRelayState := by decide
theorem kResp_ne_kSigAlg : kSAMLResponse ≠ kSigAlg := by decide
theorem kResp_ne_kSig : kSAMLResponse ≠ kSignature := by decide
theorem kRelay_ne_kSigAlg : kRelayState ≠ kSigAlg := by decide
theorem kRelay_ne_kSig : kRelayState ≠ kSignature := by decide
theorem kSigAlg_ne_kSig : kSigAlg ≠ kSignature := by decide
theorem kArt_ne_kReq : kSAMLart ≠ kSAMLRequest := by decide
theorem kArt_ne_kResp : kSAMLart ≠ kSAMLResponse := by decide
theorem amp_ne_eqc : amp ≠ eqc := by decide

/-! ### splitting a list at a separator that occurs nowhere before it -/

theorem split_unique {c : Nat} : ∀ {a a' b b' : List Nat}, c ∉ a → c ∉ a' →
    a ++ c :: b = a' ++ c :: b' → a = a' ∧ b = b'
  | [], [], _, _, _, _, h => by simpa using h
  | [], x :: a', _, _, _, ha', h => by
      simp only [List.nil_append, List.cons_append, List.cons.injEq] at h
      exact absurd h.1 (by intro hc; exact ha' (by simp [hc]))
  | x :: a, [], _, _, ha, _, h => by
      simp only [List.nil_append, List.cons_append, List.cons.injEq] at h
      exact absurd h.1.symm (by intro hc; exact ha (by simp [hc]))
  | x :: a, y :: a', b, b', ha, ha', h => by
      simp only [List.cons_append, List.cons.injEq] at h
      have hx : c ∉ a := fun hc => ha (List.mem_cons_of_mem _ hc)
      have hy : c ∉ a' := fun hc => ha' (List.mem_cons_of_mem _ hc)
      obtain ⟨h1, h2⟩ := split_unique hx hy h.2
      exact ⟨by rw [h.1, h1], h2⟩

theorem no_sep {c : Nat} {a a' b' : List Nat} (ha : c ∉ a) : a ≠ a' ++ c :: b' := by
  intro h
  exact ha (by rw [h]; simp)

/-! ### the signed octet string is injective -/

section
variable {σ : Type} {C : Codec σ}

theorem amp_not_mem_pair (hC : CodecLaws C) (k v : Str) : amp ∉ pair C.enc k v := by
  unfold pair
  intro h
  rcases List.mem_append.mp h with h | h
  · exact hC.enc_no_amp k h
  · rcases List.mem_cons.mp h with h | h
    · exact amp_ne_eqc h
    · exact hC.enc_no_amp v h

theorem pair_inj (hC : CodecLaws C) {k v k' v' : Str} (h : pair C.enc k v = pair C.enc k' v') :
    k = k' ∧ v = v' := by
  unfold pair at h
  obtain ⟨h1, h2⟩ := split_unique (hC.enc_no_eq k) (hC.enc_no_eq k') h
  exact ⟨hC.enc_inj _ _ h1, hC.enc_inj _ _ h2⟩

/-- the canonical octet string determines direction, value, relay state (incl. presence) and algorithm -/
theorem canonOctets_inj (hC : CodecLaws C) {typ v alg typ' v' alg' : Str} {rs rs' : Option Str}
    (h : canonOctets C.enc typ v rs alg = canonOctets C.enc typ' v' rs' alg') :
    typ = typ' ∧ v = v' ∧ rs = rs' ∧ alg = alg' := by
  unfold canonOctets at h
  simp only [List.append_assoc] at h
  cases rs with
  | none =>
    cases rs' with
    | none =>
      simp only [List.nil_append] at h
      obtain ⟨h1, h2⟩ := split_unique (amp_not_mem_pair hC _ _) (amp_not_mem_pair hC _ _) h
      obtain ⟨ht, hv⟩ := pair_inj hC h1
      obtain ⟨_, ha⟩ := pair_inj hC h2
      exact ⟨ht, hv, rfl, ha⟩
    | some r' =>
      simp only [List.nil_append, List.cons_append] at h
      obtain ⟨_, h2⟩ := split_unique (amp_not_mem_pair hC _ _) (amp_not_mem_pair hC _ _) h
      exact absurd h2 (no_sep (amp_not_mem_pair hC _ _))
  | some r =>
    cases rs' with
    | none =>
      simp only [List.nil_append, List.cons_append] at h
      obtain ⟨_, h2⟩ := split_unique (amp_not_mem_pair hC _ _) (amp_not_mem_pair hC _ _) h
      exact absurd h2.symm (no_sep (amp_not_mem_pair hC _ _))
    | some r' =>
      simp only [List.cons_append] at h
      obtain ⟨h1, h2⟩ := split_unique (amp_not_mem_pair hC _ _) (amp_not_mem_pair hC _ _) h
      obtain ⟨h3, h4⟩ := split_unique (amp_not_mem_pair hC _ _) (amp_not_mem_pair hC _ _) h2
      obtain ⟨ht, hv⟩ := pair_inj hC h1
      obtain ⟨_, hr⟩ := pair_inj hC h3
      obtain ⟨_, ha⟩ := pair_inj hC h4
      exact ⟨ht, hv, by rw [hr], ha⟩
end

/-! ### dictionaries and the octet string over the expected order tables -/

theorem get_del_ne (d : Dict) {k k' : Str} (h : k ≠ k') : (d.del k').get k = d.get k := by
  induction d with
  | nil => rfl
  | cons p t ih =>
    obtain ⟨a, b⟩ := p
    unfold Dict.del
    by_cases ha : a = k'
    · have : a ≠ k := fun e => h (e ▸ ha ▸ rfl)
      simp [ha, Dict.get, ih]
      intro h'; exact absurd h'.symm h
    · by_cases hk : a = k
      · subst hk
        simp [h, Dict.get]
      · simp [ha, hk, Dict.get, ih]

theorem signedString_std (enc : Str → Str) (args : Dict) (tk v alg : Str)
    (hv : args.get tk = some v) (ha : args.get kSigAlg = some alg) :
    signedString enc [tk, kRelayState, kSigAlg] args = canonOctets enc tk v (args.get kRelayState) alg := by
  unfold signedString canonOctets
  cases hr : args.get kRelayState with
  | none => simp [List.filterMap, hv, ha, hr, joinAmp]
  | some r => simp [List.filterMap, hv, ha, hr, joinAmp]

/-! ### the verifier in normal form -/

/-- what the theorems need of the tables -/
structure TablesOk (T : Tables) : Prop where
  reqS : T.reqOrderS = stdReqOrder
  respS : T.respOrderS = stdRespOrder
  reqV : T.reqOrderV = stdReqOrder
  respV : T.respOrderV = stdRespOrder
  supported : ∀ a ∈ T.allowedPack, a ≠ [] ∧ (Dict.get T.signers a).isSome

variable {κ : Type} [DecidableEq κ]

/-- `verifyWith` with the octet string in canonical form -/
def verifyNF (T : Tables) (C : Codec (Sig κ)) (kr : KeyRes κ) (msg : Dict) : VOut :=
  match msg.get kSigAlg with
  | none => .error .keyError
  | some alg =>
    match Dict.get T.signers alg with
    | none => .none
    | some dig =>
      match view msg with
      | none => .error .unsupported
      | some (typ, v) =>
        match msg.get kSignature with
        | none => .error .keyError
        | some sigText =>
          match kr with
          | .raises => .error .cert
          | .under pk =>
            match C.b64d sigText with
            | none => .error .b64
            | some s =>
              if verifyUnder pk dig (canonOctets C.enc typ v (msg.get kRelayState) alg) s
              then .verified else .notVerified

theorem verifyWith_eq_NF {T : Tables} (hT : TablesOk T) (C : Codec (Sig κ)) (kr : KeyRes κ) (msg : Dict) :
    verifyWith T C kr msg = verifyNF T C kr msg := by
  unfold verifyWith verifyNF view Dict.has
  cases hA : msg.get kSigAlg with
  | none => rfl
  | some alg =>
    simp only
    cases hD : Dict.get T.signers alg with
    | none => rfl
    | some dig =>
      simp only
      have hA' : (msg.del kSignature).get kSigAlg = some alg := by
        rw [get_del_ne msg kSigAlg_ne_kSig]; exact hA
      have hR' : (msg.del kSignature).get kRelayState = msg.get kRelayState :=
        get_del_ne msg kRelay_ne_kSig
      cases hReq : msg.get kSAMLRequest with
      | some v =>
        simp only [Option.isSome_some, if_true]
        have hV' : (msg.del kSignature).get kSAMLRequest = some v := by
          rw [get_del_ne msg kReq_ne_kSig]; exact hReq
        rw [hT.reqV, stdReqOrder, signedString_std _ _ _ v alg hV' hA', hR']
        cases msg.get kSignature with
        | none => rfl
        | some st =>
          simp only
          cases kr with
          | raises => rfl
          | under pk => simp only; cases C.b64d st <;> rfl
      | none =>
        cases hResp : msg.get kSAMLResponse with
        | some v =>
          simp only [Option.isSome_none, Option.isSome_some, if_true, Bool.false_eq_true, if_false]
          have hV' : (msg.del kSignature).get kSAMLResponse = some v := by
            rw [get_del_ne msg kResp_ne_kSig]; exact hResp
          rw [hT.respV, stdRespOrder, signedString_std _ _ _ v alg hV' hA', hR']
          cases msg.get kSignature with
          | none => rfl
          | some st =>
            simp only
            cases kr with
            | raises => rfl
            | under pk => simp only; cases C.b64d st <;> rfl
        | none =>
          simp

theorem verifyRedirect_eq_NF {T : Tables} (hT : TablesOk T) (C : Codec (Sig κ)) (own : Option κ) (msg : Dict)
    (cert : Option (Cert κ)) (sigkey : Option (VKey κ)) :
    verifyRedirect T C own msg cert sigkey = verifyNF T C (effKey own cert sigkey) msg :=
  verifyWith_eq_NF hT C _ msg

theorem Sig.verify_iff (pk : Pub κ) (d m : Str) (s : Sig κ) :
    s.verify pk d m = true ↔ ∃ k, pk = pub k ∧ s = .signed k d m := by
  cases s with
  | junk n => simp [Sig.verify]
  | signed k d' m' =>
    simp only [Sig.verify, Bool.and_eq_true, decide_eq_true_eq, Sig.signed.injEq]
    constructor
    · rintro ⟨⟨h1, h2⟩, h3⟩
      exact ⟨k, h1, rfl, h2, h3⟩
    · rintro ⟨k', h1, h2, h3, h4⟩
      exact ⟨⟨h2 ▸ h1, h3⟩, h4⟩

theorem verifyUnder_iff (pk : Option (Pub κ)) (d m : Str) (s : Sig κ) :
    verifyUnder pk d m s = true ↔ ∃ k, pk = some (pub k) ∧ s = .signed k d m := by
  cases pk with
  | none => simp [verifyUnder]
  | some p =>
    simp only [verifyUnder, Sig.verify_iff, Option.some.injEq]

theorem verifyNF_verified_iff (T : Tables) (C : Codec (Sig κ)) (kr : KeyRes κ) (msg : Dict) :
    verifyNF T C kr msg = .verified ↔
      ∃ alg dig typ v sigText k,
        msg.get kSigAlg = some alg ∧ Dict.get T.signers alg = some dig ∧ view msg = some (typ, v) ∧
        msg.get kSignature = some sigText ∧ kr = .under (some (pub k)) ∧
        C.b64d sigText = some (.signed k dig (canonOctets C.enc typ v (msg.get kRelayState) alg)) := by
  constructor
  · intro h
    unfold verifyNF at h
    cases hA : msg.get kSigAlg with
    | none => rw [hA] at h; cases h
    | some alg =>
      rw [hA] at h; simp only at h
      cases hD : Dict.get T.signers alg with
      | none => rw [hD] at h; cases h
      | some dig =>
        rw [hD] at h; simp only at h
        cases hV : view msg with
        | none => rw [hV] at h; cases h
        | some tv =>
          obtain ⟨typ, v⟩ := tv
          rw [hV] at h; simp only at h
          cases hS : msg.get kSignature with
          | none => rw [hS] at h; cases h
          | some st =>
            rw [hS] at h; simp only at h
            cases kr with
            | raises => cases h
            | under pk =>
              simp only at h
              cases hB : C.b64d st with
              | none => rw [hB] at h; cases h
              | some s =>
                rw [hB] at h; simp only at h
                split at h
                next hv =>
                  obtain ⟨k, hk, hs⟩ := (verifyUnder_iff _ _ _ _).mp hv
                  exact ⟨alg, dig, typ, v, st, k, rfl, hD, rfl, rfl, by rw [hk], by rw [hB, hs]⟩
                next => cases h
  · rintro ⟨alg, dig, typ, v, st, k, h1, h2, h3, h4, h5, h6⟩
    unfold verifyNF
    rw [h1]; simp only
    rw [h2]; simp only
    rw [h3]; simp only
    rw [h4]; simp only
    rw [h5]; simp only
    rw [h6]; simp only
    have : verifyUnder (some (pub k)) dig (canonOctets C.enc typ v (msg.get kRelayState) alg)
        (Sig.signed k dig (canonOctets C.enc typ v (msg.get kRelayState) alg)) = true :=
      (verifyUnder_iff _ _ _ _).mpr ⟨k, rfl, rfl⟩
    rw [if_pos this]

/-! ### the signer, evaluated -/

/-- the parameters a signing run emits, in order -/
def emitted (typ v : Str) (rs : Option Str) (alg sigText : Str) : Dict :=
  (typ, v) :: ((match rs with
    | some r => [(kRelayState, r)]
    | none => []) ++ [(kSigAlg, alg), (kSignature, sigText)])

theorem emitted_get_typ (typ v : Str) (rs : Option Str) (alg st : Str) :
    (emitted typ v rs alg st).get typ = some v := by
  simp [emitted, Dict.get]

theorem emitted_get_relay {typ : Str} (h : typ = kSAMLRequest ∨ typ = kSAMLResponse) (v : Str)
    (rs : Option Str) (alg st : Str) : (emitted typ v rs alg st).get kRelayState = rs := by
  have h1 : ¬ typ = kRelayState := by rcases h with h | h <;> subst h <;> decide
  cases rs <;> simp [emitted, Dict.get, h1, kRelay_ne_kSigAlg.symm, kRelay_ne_kSig.symm]

theorem emitted_get_sigalg {typ : Str} (h : typ = kSAMLRequest ∨ typ = kSAMLResponse) (v : Str)
    (rs : Option Str) (alg st : Str) : (emitted typ v rs alg st).get kSigAlg = some alg := by
  have h1 : ¬ typ = kSigAlg := by rcases h with h | h <;> subst h <;> decide
  cases rs <;> simp [emitted, Dict.get, h1, kRelay_ne_kSigAlg]

theorem emitted_get_signature {typ : Str} (h : typ = kSAMLRequest ∨ typ = kSAMLResponse) (v : Str)
    (rs : Option Str) (alg st : Str) : (emitted typ v rs alg st).get kSignature = some st := by
  have h1 : ¬ typ = kSignature := by rcases h with h | h <;> subst h <;> decide
  cases rs <;> simp [emitted, Dict.get, h1, kRelay_ne_kSig, kSigAlg_ne_kSig]

theorem emitted_get_other {typ other : Str}
    (h : (typ = kSAMLRequest ∧ other = kSAMLResponse) ∨ (typ = kSAMLResponse ∧ other = kSAMLRequest))
    (v : Str) (rs : Option Str) (alg st : Str) : (emitted typ v rs alg st).get other = none := by
  rcases h with ⟨h1, h2⟩ | ⟨h1, h2⟩ <;> subst h1 <;> subst h2 <;> cases rs <;>
    simp [emitted, Dict.get, kReq_ne_kResp, kReq_ne_kResp.symm, kResp_ne_kRelay.symm, kReq_ne_kRelay.symm,
      kReq_ne_kSigAlg.symm, kResp_ne_kSigAlg.symm, kReq_ne_kSig.symm, kResp_ne_kSig.symm]

theorem emitted_view {typ : Str} (h : typ = kSAMLRequest ∨ typ = kSAMLResponse) (v : Str)
    (rs : Option Str) (alg st : Str) : view (emitted typ v rs alg st) = some (typ, v) := by
  unfold view
  rcases h with h | h
  · subst h
    rw [emitted_get_typ]
  · subst h
    rw [emitted_get_other (Or.inr ⟨rfl, rfl⟩), emitted_get_typ]

theorem args_octets (enc : Str → Str) {typ : Str} (h : typ = kSAMLRequest ∨ typ = kSAMLResponse)
    (v rs alg : Str) :
    signedString enc [typ, kRelayState, kSigAlg]
        (((typ, v) :: if ¬rs = [] then [(kRelayState, rs)] else []) ++ [(kSigAlg, alg)])
      = canonOctets enc typ v (rsOpt rs) alg := by
  have h1 : ¬ typ = kRelayState := by rcases h with h | h <;> subst h <;> decide
  have h2 : ¬ typ = kSigAlg := by rcases h with h | h <;> subst h <;> decide
  by_cases hr : rs = []
  · have e := signedString_std enc ([(typ, v)] ++ [(kSigAlg, alg)]) typ v alg
      (by simp [Dict.get]) (by simp [Dict.get, h2])
    have g : Dict.get ([(typ, v)] ++ [(kSigAlg, alg)]) kRelayState = none := by
      simp [Dict.get, h1, kRelay_ne_kSigAlg.symm]
    rw [g] at e
    simpa [hr, rsOpt] using e
  · have e := signedString_std enc ([(typ, v), (kRelayState, rs)] ++ [(kSigAlg, alg)]) typ v alg
      (by simp [Dict.get]) (by simp [Dict.get, h2, kRelay_ne_kSigAlg])
    have g : Dict.get ([(typ, v), (kRelayState, rs)] ++ [(kSigAlg, alg)]) kRelayState = some rs := by
      simp [Dict.get, h1]
    rw [g] at e
    simpa [hr, rsOpt] using e

theorem args_emitted (typ v rs alg st : Str) :
    ((typ, v) :: if ¬rs = [] then [(kRelayState, rs)] else []) ++ [(kSigAlg, alg)] ++ [(kSignature, st)]
      = emitted typ v (rsOpt rs) alg st := by
  by_cases hr : rs = [] <;> simp [hr, rsOpt, emitted]

omit [DecidableEq κ] in
theorem redirectMessage_signed {T : Tables} (hT : TablesOk T) (C : Codec (Sig κ)) (key : κ) {typ : Str}
    (htyp : typ = kSAMLRequest ∨ typ = kSAMLResponse) (v rs : Str) {alg : Str} (ha : alg ∈ T.allowedPack) :
    ∃ dig, Dict.get T.signers alg = some dig ∧
      redirectMessage T C key typ v rs true (some alg) =
        .ok (emitted typ v (rsOpt rs) alg (C.b64e (.signed key dig (canonOctets C.enc typ v (rsOpt rs) alg))))
          (some ⟨canonOctets C.enc typ v (rsOpt rs) alg, dig,
            .signed key dig (canonOctets C.enc typ v (rsOpt rs) alg)⟩) := by
  obtain ⟨hne, hsome⟩ := hT.supported alg ha
  obtain ⟨dig, hdig⟩ := Option.isSome_iff_exists.mp hsome
  refine ⟨dig, hdig, ?_⟩
  unfold redirectMessage
  have h0 : ¬ (typ ≠ kSAMLRequest ∧ typ ≠ kSAMLResponse ∧ typ ≠ kSAMLart) := by
    rcases htyp with h | h <;> simp [h]
  rw [if_neg h0]
  simp only [Bool.not_true, Bool.false_eq_true, if_false, ha, not_true_eq_false, hne, ne_eq,
    not_false_eq_true, if_true, hdig]
  rcases htyp with h | h
  · subst h
    simp only [if_true, hT.reqS, stdReqOrder]
    rw [args_octets C.enc (Or.inl rfl), args_emitted]
  · subst h
    simp only [kReq_ne_kResp.symm, if_false, if_true, hT.respS, stdRespOrder]
    rw [args_octets C.enc (Or.inr rfl), args_emitted]

/-! ### the executable `quotePlus` satisfies the encoder laws -/

theorem unhex_hexDigit (n : Nat) : unhex (hexDigit n) = n := by
  unfold unhex hexDigit
  split <;> split <;> omega

theorem hexDigit_ne_amp (n : Nat) : hexDigit n ≠ amp := by
  unfold hexDigit amp; split <;> omega
theorem hexDigit_ne_eqc (n : Nat) : hexDigit n ≠ eqc := by
  unfold hexDigit eqc; split <;> omega

theorem unreserved_bounds {b : Nat} (h : isUnreserved b = true) :
    b ≠ 37 ∧ b ≠ 43 ∧ b ≠ amp ∧ b ≠ eqc := by
  unfold isUnreserved at h
  simp only [Bool.or_eq_true, Bool.and_eq_true, decide_eq_true_eq, beq_iff_eq] at h
  unfold amp eqc
  omega

theorem unquotePlus_cons_other (c : Nat) (t : Str) (h1 : c ≠ 43) (h2 : c ≠ 37) :
    unquotePlus (c :: t) = c :: unquotePlus t := by
  conv => lhs; unfold unquotePlus
  split
  · contradiction
  · rename_i heq; cases heq; omega
  · rename_i heq; simp only [List.cons.injEq] at heq; omega
  · rename_i heq; simp only [List.cons.injEq] at heq; obtain ⟨rfl, rfl⟩ := heq; rfl

theorem unquote_quoteByte (b : Nat) (t : Str) : unquotePlus (quoteByte b ++ t) = b :: unquotePlus t := by
  unfold quoteByte
  split
  next h =>
    obtain ⟨h1, h2, _, _⟩ := unreserved_bounds h
    simp only [List.cons_append, List.nil_append]
    exact unquotePlus_cons_other b t h2 h1
  next h =>
    split
    next h32 =>
      subst h32
      simp only [List.cons_append, List.nil_append]
      rw [unquotePlus]
    next h32 =>
      simp only [List.cons_append, List.nil_append]
      rw [unquotePlus]
      rw [unhex_hexDigit, unhex_hexDigit]
      congr 1
      omega

theorem unquote_quote (s : Str) : unquotePlus (quotePlus s) = s := by
  induction s with
  | nil => rfl
  | cons b t ih =>
    unfold quotePlus at ih ⊢
    rw [List.flatMap_cons, unquote_quoteByte, ih]

theorem quotePlus_inj (a b : Str) (h : quotePlus a = quotePlus b) : a = b := by
  rw [← unquote_quote a, ← unquote_quote b, h]

theorem quoteByte_no (b : Nat) : amp ∉ quoteByte b ∧ eqc ∉ quoteByte b := by
  unfold quoteByte
  split
  next h =>
    obtain ⟨_, _, h3, h4⟩ := unreserved_bounds h
    simp only [List.mem_singleton]
    exact ⟨fun e => h3 e.symm, fun e => h4 e.symm⟩
  next =>
    split
    · simp [amp, eqc]
    · simp only [List.mem_cons, List.not_mem_nil, or_false, not_or]
      exact ⟨⟨by decide, (hexDigit_ne_amp _).symm, (hexDigit_ne_amp _).symm⟩,
             ⟨by decide, (hexDigit_ne_eqc _).symm, (hexDigit_ne_eqc _).symm⟩⟩

theorem quotePlus_no (s : Str) : amp ∉ quotePlus s ∧ eqc ∉ quotePlus s := by
  unfold quotePlus
  simp only [List.mem_flatMap, not_exists, not_and]
  exact ⟨fun b _ => (quoteByte_no b).1, fun b _ => (quoteByte_no b).2⟩

/-! ### specification predicates, receiver loop -/

theorem authentic_iff (C : Codec (Sig κ)) (msg : Dict) (pk : Pub κ) (typ : Str) :
    authentic C msg pk typ = true ↔
      ∃ v alg sigText dig k, msg.get typ = some v ∧ msg.get kSigAlg = some alg ∧
        msg.get kSignature = some sigText ∧ stdDigest alg = some dig ∧ pk = pub k ∧
        C.b64d sigText = some (.signed k dig (canonOctets C.enc typ v (msg.get kRelayState) alg)) := by
  unfold authentic
  constructor
  · intro h
    split at h
    next v alg st hv ha hs =>
      split at h
      next dig k d m hd hb =>
        simp only [Bool.and_eq_true, decide_eq_true_eq] at h
        obtain ⟨⟨h1, h2⟩, h3⟩ := h
        exact ⟨v, alg, st, dig, k, hv, ha, hs, hd, h1, by rw [hb, h2, h3]⟩
      next => cases h
    next => cases h
  · rintro ⟨v, alg, st, dig, k, hv, ha, hs, hd, hk, hb⟩
    rw [hv, ha, hs]
    simp only
    rw [hd, hb]
    simp [hk]

theorem get_none_iff (l : List (Str × Str)) (a : Str) : Dict.get l a = none ↔ a ∉ l.map (·.1) := by
  induction l with
  | nil => simp [Dict.get]
  | cons p t ih =>
    obtain ⟨k, v⟩ := p
    unfold Dict.get
    by_cases h : k = a
    · simp [h]
    · simp only [h, if_false, ih, List.map_cons, List.mem_cons, not_or]
      constructor
      · intro h'; exact ⟨fun e => h e.symm, h'⟩
      · intro h'; exact h'.2

theorem stdDigest_none_iff (a : Str) : stdDigest a = none ↔ a ∉ stdAllowed :=
  get_none_iff stdSigners a

theorem anyVerified_map {α : Type} (f : α → VOut) (l : List α)
    (hind : ∀ c c' e, f c = .error e → f c' ≠ .verified) :
    anyVerified (l.map f) = some true ↔ ∃ c ∈ l, f c = .verified := by
  induction l with
  | nil => simp [anyVerified]
  | cons c t ih =>
    simp only [List.map_cons, List.mem_cons]
    cases hc : f c with
    | verified =>
      simp only [anyVerified, true_iff]
      exact ⟨c, Or.inl rfl, hc⟩
    | error e =>
      simp only [anyVerified]
      constructor
      · intro h; cases h
      · rintro ⟨c', _, hc'⟩
        exact absurd hc' (hind c c' e hc)
    | notVerified =>
      simp only [anyVerified, ih]
      constructor
      · rintro ⟨c', h1, h2⟩; exact ⟨c', Or.inr h1, h2⟩
      · rintro ⟨c', h1 | h1, h2⟩
        · subst h1; rw [hc] at h2; cases h2
        · exact ⟨c', h1, h2⟩
    | none =>
      simp only [anyVerified, ih]
      constructor
      · rintro ⟨c', h1, h2⟩; exact ⟨c', Or.inr h1, h2⟩
      · rintro ⟨c', h1 | h1, h2⟩
        · subst h1; rw [hc] at h2; cases h2
        · exact ⟨c', h1, h2⟩

theorem verifyNF_error_indep (T : Tables) (C : Codec (Sig κ)) (msg : Dict)
    (pk pk' : Option (Pub κ)) (e : VErr)
    (h : verifyNF T C (.under pk) msg = .error e) :
    verifyNF T C (.under pk') msg ≠ .verified := by
  unfold verifyNF at h ⊢
  cases hA : msg.get kSigAlg with
  | none => simp
  | some alg =>
    rw [hA] at h; simp only at h ⊢
    cases hD : Dict.get T.signers alg with
    | none => simp
    | some dig =>
      rw [hD] at h; simp only at h ⊢
      cases hV : view msg with
      | none => simp
      | some tv =>
        rw [hV] at h; simp only at h ⊢
        cases hS : msg.get kSignature with
        | none => simp
        | some st =>
          rw [hS] at h; simp only at h ⊢
          cases hB : C.b64d st with
          | none => simp
          | some s =>
            rw [hB] at h; simp only at h
            split at h <;> cases h

omit [DecidableEq κ] in
/-- the specification's key and the model's key question agree -/
theorem effKey_verificationKey (own : Option κ) (cert : Option (Cert κ)) (sigkey : Option (VKey κ)) :
    (match effKey own cert sigkey with
     | .raises => none
     | .under pk => pk) = verificationKey own cert sigkey := by
  unfold effKey verificationKey
  cases cert with
  | some c =>
    cases c with
    | malformed => cases sigkey <;> rfl
    | holds k => cases k <;> cases sigkey <;> rfl
  | none =>
    cases sigkey with
    | none => rfl
    | some k => cases k <;> rfl

theorem loadsMsg_get_req (o a s : Str) (r : Option Str) : (loadsMsg o a s r).get kSAMLRequest = some o := by
  simp [loadsMsg, Dict.get]
theorem loadsMsg_get_resp (o a s : Str) (r : Option Str) : (loadsMsg o a s r).get kSAMLResponse = none := by
  cases r <;> simp [loadsMsg, Dict.get, kReq_ne_kResp, kResp_ne_kSig.symm, kResp_ne_kSigAlg.symm, kResp_ne_kRelay.symm]
theorem loadsMsg_get_sig (o a s : Str) (r : Option Str) : (loadsMsg o a s r).get kSignature = some s := by
  simp [loadsMsg, Dict.get, kReq_ne_kSig]
theorem loadsMsg_get_alg (o a s : Str) (r : Option Str) : (loadsMsg o a s r).get kSigAlg = some a := by
  simp [loadsMsg, Dict.get, kReq_ne_kSigAlg, kSigAlg_ne_kSig.symm]
theorem loadsMsg_get_relay (o a s : Str) (r : Option Str) : (loadsMsg o a s r).get kRelayState = r := by
  cases r <;> simp [loadsMsg, Dict.get, kReq_ne_kRelay, kRelay_ne_kSig.symm, kRelay_ne_kSigAlg.symm]
theorem loadsMsg_view (o a s : Str) (r : Option Str) : view (loadsMsg o a s r) = some (kSAMLRequest, o) := by
  unfold view; rw [loadsMsg_get_req]

/-- "verified" needs an RSA key to verify under, a Signature, and a decodable signature that is somebody's -/
theorem verifyWith_verified (T : Tables) (C : Codec (Sig κ)) (kr : KeyRes κ) (msg : Dict)
    (hv : verifyWith T C kr msg = .verified) :
    ∃ pk st k d m, kr = .under (some pk) ∧ msg.get kSignature = some st ∧ C.b64d st = some (.signed k d m) := by
  unfold verifyWith at hv
  split at hv
  · cases hv
  · split at hv
    · cases hv
    · simp only at hv
      split at hv
      · cases hv
      · split at hv
        · cases hv
        next st hst =>
          cases kr with
          | raises => cases hv
          | under pk =>
            simp only at hv
            split at hv
            · cases hv
            next s hs =>
              cases pk with
              | none => simp [verifyUnder] at hv
              | some pk =>
                cases s with
                | junk n => simp [verifyUnder, Sig.verify] at hv
                | signed k d m => exact ⟨pk, st, k, d, m, rfl, hst, hs⟩

end RedirectSig
