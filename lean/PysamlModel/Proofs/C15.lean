/-
  C15 — helper lemmas for Props/C15.lean (no property statements here).
-/
import PysamlModel.Model.RedirectSig
import PysamlModel.Spec.C15

namespace RedirectSig

/-! ### the literal keys are pairwise different -/

theorem kReq_ne_kResp : kSAMLRequest ≠ kSAMLResponse := by decide
theorem kReq_ne_kRelay : kSAMLRequest ≠ kRelayState := by decide
theorem kReq_ne_kSigAlg : kSAMLRequest ≠ kSigAlg := by decide
theorem kReq_ne_kSig : kSAMLRequest ≠ kSignature := by decide
theorem kResp_ne_kRelay : kSAMLResponse ≠ kRelayState := by decide
theorem kResp_ne_kSigAlg : kSAMLResponse ≠ kSigAlg := by decide
theorem kResp_ne_kSig : kSAMLResponse ≠ kSignature := by decide
theorem kRelay_ne_kSigAlg : kRelayState ≠ kSigAlg := by decide
theorem kRelay_ne_kSig : kRelayState ≠ kSignature := by decide
theorem kSigAlg_ne_kSig : kSigAlg ≠ kSignature := by decide
theorem kArt_ne_kReq : kSAMLart ≠ kSAMLRequest := by decide
theorem kArt_ne_kResp : kSAMLart ≠ kSAMLResponse := by decide
theorem amp_ne_eqc : amp ≠ eqc := by decide

/-! ### splitting a list at a separator that occurs nowhere before it -/

theorem split_unique {c : Nat} : ∀ {a a' b b' : List Nat}, c ∉ a → c ∉ a' →
    a ++ c :: b = a' ++ c :: b' → a = a' ∧ b = b'
  | [], [], _, _, _, _, h => by simpa using h
  | [], x :: a', _, _, _, ha', h => by
      simp only [List.nil_append, List.cons_append, List.cons.injEq] at h
      exact absurd h.1 (by intro hc; exact ha' (by simp [hc]))
  | x :: a, [], _, _, ha, _, h => by
      simp only [List.nil_append, List.cons_append, List.cons.injEq] at h
      exact absurd h.1.symm (by intro hc; exact ha (by simp [hc]))
  | x :: a, y :: a', b, b', ha, ha', h => by
      simp only [List.cons_append, List.cons.injEq] at h
      have hx : c ∉ a := fun hc => ha (List.mem_cons_of_mem _ hc)
      have hy : c ∉ a' := fun hc => ha' (List.mem_cons_of_mem _ hc)
      obtain ⟨h1, h2⟩ := split_unique hx hy h.2
      exact ⟨by rw [h.1, h1], h2⟩

theorem no_sep {c : Nat} {a a' b' : List Nat} (ha : c ∉ a) : a ≠ a' ++ c :: b' := by
  intro h
  exact ha (by rw [h]; simp)

/-! ### the signed octet string is injective -/

section
variable {σ : Type} {C : Codec σ}

theorem amp_not_mem_pair (hC : CodecLaws C) (k v : Str) : amp ∉ pair C.enc k v := by
  unfold pair
  intro h
  rcases List.mem_append.mp h with h | h
  · exact hC.enc_no_amp k h
  · rcases List.mem_cons.mp h with h | h
    · exact amp_ne_eqc h
    · exact hC.enc_no_amp v h

theorem pair_inj (hC : CodecLaws C) {k v k' v' : Str} (h : pair C.enc k v = pair C.enc k' v') :
    k = k' ∧ v = v' := by
  unfold pair at h
  obtain ⟨h1, h2⟩ := split_unique (hC.enc_no_eq k) (hC.enc_no_eq k') h
  exact ⟨hC.enc_inj _ _ h1, hC.enc_inj _ _ h2⟩

/-- the canonical octet string determines direction, value, relay state (incl. presence) and algorithm -/
theorem canonOctets_inj (hC : CodecLaws C) {typ v alg typ' v' alg' : Str} {rs rs' : Option Str}
    (h : canonOctets C.enc typ v rs alg = canonOctets C.enc typ' v' rs' alg') :
    typ = typ' ∧ v = v' ∧ rs = rs' ∧ alg = alg' := by
  unfold canonOctets at h
  simp only [List.append_assoc] at h
  cases rs with
  | none =>
    cases rs' with
    | none =>
      simp only [List.nil_append] at h
      obtain ⟨h1, h2⟩ := split_unique (amp_not_mem_pair hC _ _) (amp_not_mem_pair hC _ _) h
      obtain ⟨ht, hv⟩ := pair_inj hC h1
      obtain ⟨_, ha⟩ := pair_inj hC h2
      exact ⟨ht, hv, rfl, ha⟩
    | some r' =>
      simp only [List.nil_append, List.cons_append] at h
      obtain ⟨_, h2⟩ := split_unique (amp_not_mem_pair hC _ _) (amp_not_mem_pair hC _ _) h
      exact absurd h2 (no_sep (amp_not_mem_pair hC _ _))
  | some r =>
    cases rs' with
    | none =>
      simp only [List.nil_append, List.cons_append] at h
      obtain ⟨_, h2⟩ := split_unique (amp_not_mem_pair hC _ _) (amp_not_mem_pair hC _ _) h
      exact absurd h2.symm (no_sep (amp_not_mem_pair hC _ _))
    | some r' =>
      simp only [List.cons_append] at h
      obtain ⟨h1, h2⟩ := split_unique (amp_not_mem_pair hC _ _) (amp_not_mem_pair hC _ _) h
      obtain ⟨h3, h4⟩ := split_unique (amp_not_mem_pair hC _ _) (amp_not_mem_pair hC _ _) h2
      obtain ⟨ht, hv⟩ := pair_inj hC h1
      obtain ⟨_, hr⟩ := pair_inj hC h3
      obtain ⟨_, ha⟩ := pair_inj hC h4
      exact ⟨ht, hv, by rw [hr], ha⟩
end

/-! ### dictionaries and the octet string over the expected order tables -/

theorem get_del_ne (d : Dict) {k k' : Str} (h : k ≠ k') : (d.del k').get k = d.get k := by
  induction d with
  | nil => rfl
  | cons p t ih =>
    obtain ⟨a, b⟩ := p
    unfold Dict.del
    by_cases ha : a = k'
    · have : a ≠ k := fun e => h (e ▸ ha ▸ rfl)
      simp [ha, Dict.get, ih]
      intro h'; exact absurd h'.symm h
    · by_cases hk : a = k
      · subst hk
        simp [h, Dict.get]
      · simp [ha, hk, Dict.get, ih]

theorem signedString_std (enc : Str → Str) (args : Dict) (tk v alg : Str)
    (hv : args.get tk = some v) (ha : args.get kSigAlg = some alg) :
    signedString enc [tk, kRelayState, kSigAlg] args = canonOctets enc tk v (args.get kRelayState) alg := by
  unfold signedString canonOctets
  cases hr : args.get kRelayState with
  | none => simp [List.filterMap, hv, ha, hr, joinAmp]
  | some r => simp [List.filterMap, hv, ha, hr, joinAmp]

/-! ### the verifier in normal form -/

/-- what the theorems need of the tables -/
structure TablesOk (T : Tables) : Prop where
  reqS : T.reqOrderS = stdReqOrder
  respS : T.respOrderS = stdRespOrder
  reqV : T.reqOrderV = stdReqOrder
  respV : T.respOrderV = stdRespOrder
  supported : ∀ a ∈ T.allowedPack, a ≠ [] ∧ (Dict.get T.signers a).isSome

variable {κ : Type} [DecidableEq κ]

/-- `verifyRedirect` with the octet string in canonical form -/
def verifyNF (T : Tables) (C : Codec (Sig κ)) (own : κ) (msg : Dict) (cert sigkey : Option (Pub κ)) : VOut :=
  match msg.get kSigAlg with
  | none => .error .keyError
  | some alg =>
    match Dict.get T.signers alg with
    | none => .none
    | some dig =>
      match view msg with
      | none => .error .unsupported
      | some (typ, v) =>
        match msg.get kSignature with
        | none => .error .keyError
        | some sigText =>
          match C.b64d sigText with
          | none => .error .b64
          | some s =>
            if s.verify (effKey own cert sigkey) dig (canonOctets C.enc typ v (msg.get kRelayState) alg)
            then .verified else .notVerified

theorem verifyRedirect_eq_NF {T : Tables} (hT : TablesOk T) (C : Codec (Sig κ)) (own : κ) (msg : Dict)
    (cert sigkey : Option (Pub κ)) :
    verifyRedirect T C own msg cert sigkey = verifyNF T C own msg cert sigkey := by
  unfold verifyRedirect verifyNF view Dict.has
  cases hA : msg.get kSigAlg with
  | none => rfl
  | some alg =>
    simp only
    cases hD : Dict.get T.signers alg with
    | none => rfl
    | some dig =>
      simp only
      have hA' : (msg.del kSignature).get kSigAlg = some alg := by
        rw [get_del_ne msg kSigAlg_ne_kSig]; exact hA
      have hR' : (msg.del kSignature).get kRelayState = msg.get kRelayState :=
        get_del_ne msg kRelay_ne_kSig
      cases hReq : msg.get kSAMLRequest with
      | some v =>
        simp only [Option.isSome_some, if_true]
        have hV' : (msg.del kSignature).get kSAMLRequest = some v := by
          rw [get_del_ne msg kReq_ne_kSig]; exact hReq
        rw [hT.reqV, stdReqOrder, signedString_std _ _ _ v alg hV' hA', hR']
        cases msg.get kSignature with
        | none => rfl
        | some st => simp only; cases C.b64d st <;> rfl
      | none =>
        cases hResp : msg.get kSAMLResponse with
        | some v =>
          simp only [Option.isSome_none, Option.isSome_some, if_true, Bool.false_eq_true, if_false]
          have hV' : (msg.del kSignature).get kSAMLResponse = some v := by
            rw [get_del_ne msg kResp_ne_kSig]; exact hResp
          rw [hT.respV, stdRespOrder, signedString_std _ _ _ v alg hV' hA', hR']
          cases msg.get kSignature with
          | none => rfl
          | some st => simp only; cases C.b64d st <;> rfl
        | none =>
          simp

theorem Sig.verify_iff (pk : Pub κ) (d m : Str) (s : Sig κ) :
    s.verify pk d m = true ↔ ∃ k, pk = pub k ∧ s = .signed k d m := by
  cases s with
  | junk n => simp [Sig.verify]
  | signed k d' m' =>
    simp only [Sig.verify, Bool.and_eq_true, decide_eq_true_eq, Sig.signed.injEq]
    constructor
    · rintro ⟨⟨h1, h2⟩, h3⟩
      exact ⟨k, h1, rfl, h2, h3⟩
    · rintro ⟨k', h1, h2, h3, h4⟩
      exact ⟨⟨h2 ▸ h1, h3⟩, h4⟩

theorem verifyNF_verified_iff (T : Tables) (C : Codec (Sig κ)) (own : κ) (msg : Dict)
    (cert sigkey : Option (Pub κ)) :
    verifyNF T C own msg cert sigkey = .verified ↔
      ∃ alg dig typ v sigText k,
        msg.get kSigAlg = some alg ∧ Dict.get T.signers alg = some dig ∧ view msg = some (typ, v) ∧
        msg.get kSignature = some sigText ∧ effKey own cert sigkey = pub k ∧
        C.b64d sigText = some (.signed k dig (canonOctets C.enc typ v (msg.get kRelayState) alg)) := by
  constructor
  · intro h
    unfold verifyNF at h
    cases hA : msg.get kSigAlg with
    | none => rw [hA] at h; cases h
    | some alg =>
      rw [hA] at h; simp only at h
      cases hD : Dict.get T.signers alg with
      | none => rw [hD] at h; cases h
      | some dig =>
        rw [hD] at h; simp only at h
        cases hV : view msg with
        | none => rw [hV] at h; cases h
        | some tv =>
          obtain ⟨typ, v⟩ := tv
          rw [hV] at h; simp only at h
          cases hS : msg.get kSignature with
          | none => rw [hS] at h; cases h
          | some st =>
            rw [hS] at h; simp only at h
            cases hB : C.b64d st with
            | none => rw [hB] at h; cases h
            | some s =>
              rw [hB] at h; simp only at h
              split at h
              next hv =>
                obtain ⟨k, hk, hs⟩ := (Sig.verify_iff _ _ _ _).mp hv
                exact ⟨alg, dig, typ, v, st, k, rfl, hD, rfl, rfl, hk, by rw [hB, hs]⟩
              next => cases h
  · rintro ⟨alg, dig, typ, v, st, k, h1, h2, h3, h4, h5, h6⟩
    unfold verifyNF
    rw [h1]; simp only
    rw [h2]; simp only
    rw [h3]; simp only
    rw [h4]; simp only
    rw [h6]; simp only
    have : Sig.verify (effKey own cert sigkey) dig (canonOctets C.enc typ v (msg.get kRelayState) alg)
        (Sig.signed k dig (canonOctets C.enc typ v (msg.get kRelayState) alg)) = true :=
      (Sig.verify_iff _ _ _ _).mpr ⟨k, h5, rfl⟩
    rw [if_pos this]

end RedirectSig
