/-
  C17 — helper lemmas: dictionaries, the link between a map dictionary's declared pairs and the
  converter built from it, resolution of declared pairs.
-/
import PysamlModel.Model.AttrConv
import PysamlModel.Spec.C17

set_option linter.unusedSectionVars false
set_option linter.unusedSimpArgs false

namespace C17
open AttrConv C17Spec

variable {α : Type} [DecidableEq α]

/-! ### dictionaries -/

theorem get_set {β : Type} (d : Dict α β) (k k' : α) (v : β) :
    Dict.get (Dict.set d k v) k' = if k = k' then some v else Dict.get d k' := by
  induction d with
  | nil => simp [Dict.set, Dict.get]
  | cons p t ih =>
    obtain ⟨a, b⟩ := p
    by_cases hak : a = k
    · subst hak
      by_cases h2 : a = k' <;> simp [Dict.set, Dict.get, h2]
    · by_cases hkk : k = k'
      · subst hkk
        simp [Dict.set, Dict.get, hak, ih]
      · by_cases h2 : a = k'
        · subst h2
          simp [Dict.set, Dict.get, hak, hkk]
        · simp [Dict.set, Dict.get, hak, h2, ih, hkk]

theorem get_foldl_set {β : Type} (l : List (α × β)) (d : Dict α β) (k : α) (v : β)
    (h : Dict.get (l.foldl (fun d p => Dict.set d p.1 p.2) d) k = some v) :
    (k, v) ∈ l ∨ Dict.get d k = some v := by
  induction l generalizing d with
  | nil => exact Or.inr h
  | cons p t ih =>
    simp only [List.foldl_cons] at h
    rcases ih _ h with h1 | h1
    · exact Or.inl (List.mem_cons_of_mem _ h1)
    · rw [get_set] at h1
      by_cases hk : p.1 = k
      · simp only [hk, if_true, Option.some.injEq] at h1
        left
        have : p = (k, v) := by rw [← hk, ← h1]
        rw [this]; exact List.mem_cons_self
      · simp only [hk, if_false] at h1
        exact Or.inr h1

theorem get_ofList_mem {β : Type} (l : List (α × β)) (k : α) (v : β)
    (h : Dict.get (Dict.ofList l) k = some v) : (k, v) ∈ l := by
  rcases get_foldl_set l [] k v h with h1 | h1
  · exact h1
  · simp [Dict.get] at h1

theorem get_foldl_set_isSome {β : Type} (l : List (α × β)) (d : Dict α β) (k : α)
    (h : (Dict.get d k).isSome ∨ ∃ v, (k, v) ∈ l) :
    (Dict.get (l.foldl (fun d p => Dict.set d p.1 p.2) d) k).isSome := by
  induction l generalizing d with
  | nil =>
    rcases h with h | ⟨v, hv⟩
    · exact h
    · cases hv
  | cons p t ih =>
    simp only [List.foldl_cons]
    apply ih
    rcases h with h | ⟨v, hv⟩
    · left
      rw [get_set]
      split
      · rfl
      · exact h
    · rcases List.mem_cons.mp hv with h1 | h1
      · left
        rw [get_set, ← h1]
        simp
      · exact Or.inr ⟨v, h1⟩

theorem get_ofList_isSome {β : Type} (l : List (α × β)) (k : α) (v : β) (h : (k, v) ∈ l) :
    (Dict.get (Dict.ofList l) k).isSome :=
  get_foldl_set_isSome l [] k (Or.inr ⟨v, h⟩)

/-- If every pair stored under `k` carries `v` and there is one, the dictionary answers `v`. -/
theorem get_ofList_eq {β : Type} (l : List (α × β)) (k : α) (v : β)
    (hex : ∃ v', (k, v') ∈ l) (hall : ∀ v', (k, v') ∈ l → v' = v) :
    Dict.get (Dict.ofList l) k = some v := by
  obtain ⟨v0, h0⟩ := hex
  have hs := get_ofList_isSome l k v0 h0
  cases hg : Dict.get (Dict.ofList l) k with
  | none => rw [hg] at hs; cases hs
  | some w => rw [hall w (get_ofList_mem l k w hg)]

theorem get_ofList_none {β : Type} (l : List (α × β)) (k : α)
    (h : ∀ v, (k, v) ∉ l) : Dict.get (Dict.ofList l) k = none := by
  cases hg : Dict.get (Dict.ofList l) k with
  | none => rfl
  | some w => exact absurd (get_ofList_mem l k w hg) (h w)

/-! ### declared pairs and the converter built from them -/

def pairsOf (D : List (Decl α)) : List (α × α) := D.map fun d => (d.key, d.val)

theorem mem_pairsOf {D : List (Decl α)} {q v : α} : (q, v) ∈ pairsOf D ↔ v ∈ candidates D q := by
  simp only [pairsOf, candidates, List.mem_map, List.mem_filter, decide_eq_true_eq, Prod.mk.injEq]
  constructor
  · rintro ⟨d, hd, hk, hv⟩; exact ⟨d, ⟨hd, hk⟩, hv⟩
  · rintro ⟨d, ⟨hd, hk⟩, hv⟩; exact ⟨d, hd, hk, hv⟩

/-- `from_dict` builds its two tables from exactly the declared pairs the specification reads. -/
theorem fromDict_decl (ops : StrOps α) (m : MapDict α) (h : isMap m = true) :
    ∃ c, fromDict ops m = some c ∧ c.nameFormat = m.identifier ∧
      c.to = Dict.ofList (pairsOf (sendDecl ops m)) ∧ c.fro = Dict.ofList (pairsOf (recvDecl ops m)) := by
  obtain ⟨id, fro, to⟩ := m
  cases fro with
  | none =>
    cases to with
    | none => simp [isMap] at h
    | some t =>
      refine ⟨_, rfl, rfl, ?_, ?_⟩
      · simp [sendDecl, pairsOf, lowerKeys, List.map_map, Function.comp_def]
      · simp [recvDecl, pairsOf, mirror, List.map_map, Function.comp_def]
  | some f =>
    cases to with
    | none =>
      refine ⟨_, rfl, rfl, ?_, ?_⟩
      · simp [sendDecl, pairsOf, mirror, List.map_map, Function.comp_def]
      · simp [recvDecl, pairsOf, lowerKeys, List.map_map, Function.comp_def]
    | some t =>
      refine ⟨_, rfl, rfl, ?_, ?_⟩
      · simp [sendDecl, pairsOf, lowerKeys, List.map_map, Function.comp_def]
      · simp [recvDecl, pairsOf, lowerKeys, List.map_map, Function.comp_def]

/-! ### resolution -/

theorem allEq_mem {l : List α} (h : allEq l = true) {a b : α} (ha : a ∈ l) (hb : b ∈ l) : a = b := by
  cases l with
  | nil => cases ha
  | cons x t =>
    simp only [allEq, List.all_eq_true, decide_eq_true_eq] at h
    have hx : ∀ y ∈ x :: t, y = x := by
      intro y hy
      rcases List.mem_cons.mp hy with h1 | h1
      · exact h1
      · exact h y h1
    rw [hx a ha, hx b hb]

/-- A key the declared pairs do not mention is not in the dictionary built from them. -/
theorem get_of_undefined (D : List (Decl α)) (rawq q : α) (h : resolve D rawq q = .undefined) :
    Dict.get (Dict.ofList (pairsOf D)) q = none := by
  apply get_ofList_none
  intro v hv
  have hc := mem_pairsOf.mp hv
  unfold resolve at h
  split at h
  · split at h <;> cases h
  · split at h
    next hc0 => rw [hc0] at hc; cases hc
    next => split at h <;> cases h

/-- What the declared pairs agree on is what the dictionary built from them answers. -/
theorem get_of_must (D : List (Decl α)) (rawq q v : α) (h : resolve D rawq q = .must v)
    (hraw : ∀ d ∈ D, d.raw = some rawq → d.key = q) (hcoh : coherentAt D q = true) :
    Dict.get (Dict.ofList (pairsOf D)) q = some v := by
  have hv : v ∈ candidates D q := by
    unfold resolve at h
    split at h
    next v0 t hex =>
      split at h
      · cases h
        have : v ∈ exact D rawq := by rw [hex]; exact List.mem_cons_self
        simp only [exact, List.mem_map, List.mem_filter, decide_eq_true_eq] at this
        obtain ⟨d, ⟨hd, hr⟩, hval⟩ := this
        simp only [candidates, List.mem_map, List.mem_filter, decide_eq_true_eq]
        exact ⟨d, ⟨hd, hraw d hd hr⟩, hval⟩
      · cases h
    next =>
      split at h
      · cases h
      next v0 t hc =>
        split at h
        · cases h; rw [hc]; exact List.mem_cons_self
        · cases h
  apply get_ofList_eq
  · exact ⟨v, mem_pairsOf.mpr hv⟩
  · intro v' hv'
    exact allEq_mem hcoh (mem_pairsOf.mp hv') hv

/-- Without a literal declaration (`raw` is never set on the receiving side) no coherence is needed. -/
theorem get_of_must_noraw (D : List (Decl α)) (rawq q v : α) (h : resolve D rawq q = .must v)
    (hraw : ∀ d ∈ D, d.raw = none) : Dict.get (Dict.ofList (pairsOf D)) q = some v := by
  have hex : exact D rawq = [] := by
    simp only [exact, List.map_eq_nil_iff, List.filter_eq_nil_iff, decide_eq_true_eq]
    intro d hd hr
    rw [hraw d hd] at hr; cases hr
  have hcoh : coherentAt D q = true := by
    unfold resolve at h
    rw [hex] at h
    simp only at h
    unfold coherentAt
    split at h
    · cases h
    next v0 t hc =>
      rw [hc]
      split at h
      next hall => exact hall
      · cases h
  exact get_of_must D rawq q v h (fun d hd hr => by rw [hraw d hd] at hr; cases hr) hcoh

theorem sendDecl_raw (ops : StrOps α) (m : MapDict α) (k : α) :
    ∀ d ∈ sendDecl ops m, d.raw = some k → d.key = ops.lower k := by
  intro d hd hr
  unfold sendDecl at hd
  split at hd
  · simp only [List.mem_map] at hd
    obtain ⟨p, _, rfl⟩ := hd
    simp only [Option.some.injEq] at hr
    simp [hr]
  · simp only [List.mem_map] at hd
    obtain ⟨p, _, rfl⟩ := hd
    cases hr
  · cases hd

theorem recvDecl_raw (ops : StrOps α) (m : MapDict α) : ∀ d ∈ recvDecl ops m, d.raw = none := by
  intro d hd
  unfold recvDecl at hd
  split at hd
  · simp only [List.mem_map] at hd
    obtain ⟨p, _, rfl⟩ := hd; rfl
  · simp only [List.mem_map] at hd
    obtain ⟨p, _, rfl⟩ := hd; rfl
  · cases hd

theorem coherentAt_of_decl (D : List (Decl α)) (h : coherentDecl D = true) (q : α) : coherentAt D q = true := by
  unfold coherentAt
  cases hc : candidates D q with
  | nil => rfl
  | cons v t =>
    have hv : v ∈ candidates D q := by rw [hc]; exact List.mem_cons_self
    simp only [candidates, List.mem_map, List.mem_filter, decide_eq_true_eq] at hv
    obtain ⟨d, ⟨hd, hk⟩, _⟩ := hv
    have := (List.all_eq_true.mp h) d hd
    rw [hk] at this
    unfold coherentAt at this
    rw [hc] at this
    exact this

/-! ### the converter of a map, the converters of a set -/

/-- The converter `from_dict` builds, written with the declared pairs. -/
def convOf (ops : StrOps α) (m : MapDict α) : Conv α :=
  ⟨m.identifier, Dict.ofList (pairsOf (sendDecl ops m)), Dict.ofList (pairsOf (recvDecl ops m))⟩

theorem fromDict_eq (ops : StrOps α) (m : MapDict α) (h : isMap m = true) :
    fromDict ops m = some (convOf ops m) := by
  obtain ⟨c, hc, h1, h2, h3⟩ := fromDict_decl ops m h
  rw [hc]
  obtain ⟨nf, to, fro⟩ := c
  simp only at h1 h2 h3
  simp [convOf, h1, h2, h3]

theorem acFactory_eq (ops : StrOps α) (maps : List (MapDict α)) (h : ∀ m ∈ maps, isMap m = true) :
    acFactory ops maps = maps.map (convOf ops) := by
  unfold acFactory
  have hf : maps.filter isMap = maps := List.filter_eq_self.mpr h
  rw [hf]
  induction maps with
  | nil => rfl
  | cons m t ih =>
    have hm := h m List.mem_cons_self
    have ht : ∀ m' ∈ t, isMap m' = true := fun m' hm' => h m' (List.mem_cons_of_mem _ hm')
    simp only [List.filterMap_cons, fromDict_eq ops m hm, List.map_cons]
    rw [ih ht (List.filter_eq_self.mpr ht)]

theorem sender_map (ops : StrOps α) (maps : List (MapDict α)) (s : Sender α) :
    sender (maps.map (convOf ops)) s = (sendingMap maps s).map (convOf ops) := by
  cases s with
  | index i => simp [sender, sendingMap]
  | format nf =>
    simp only [sender, sendingMap, List.find?_map]
    rfl

theorem senderMap_map (ops : StrOps α) (maps : List (MapDict α)) (s : Sender α) :
    senderMap (maps.map (declMap ops)) s = (sendingMap maps s).map (declMap ops) := by
  cases s with
  | index i => simp [senderMap, sendingMap]
  | format nf =>
    simp only [senderMap, sendingMap, List.find?_map]
    rfl

theorem sendingMap_mem {maps : List (MapDict α)} {s : Sender α} {m : MapDict α}
    (h : sendingMap maps s = some m) : m ∈ maps := by
  cases s with
  | index i => exact List.mem_of_getElem? h
  | format nf => exact List.mem_of_find?_eq_some h

/-! ### sending -/

theorem carries_doAva1 (ops : StrOps α) (v : LVal α) (w : WireValue α) (h : doAva1 ops v = .ok w) :
    carriesOk ops v w = true := by
  cases v with
  | str s => simp only [doAva1, Res.ok.injEq] at h; subst h; simp [carriesOk, renderText]
  | bool b => simp only [doAva1, Res.ok.injEq] at h; subst h; simp [carriesOk, renderText]
  | int i =>
    simp only [doAva1] at h
    split at h
    · cases h
    · simp only [Res.ok.injEq] at h; subst h; simp [carriesOk, renderText]
  | none => cases h

theorem carries_doAvaList (ops : StrOps α) (vs : List (LVal α)) (ws : List (WireValue α))
    (h : doAvaList ops vs = .ok ws) : carriesAll ops vs ws = true := by
  induction vs generalizing ws with
  | nil => simp only [doAvaList, Res.ok.injEq] at h; subst h; rfl
  | cons v t ih =>
    simp only [doAvaList] at h
    split at h
    · cases h
    next w hw =>
      split at h
      · cases h
      next ws' hws =>
        simp only [Res.ok.injEq] at h; subst h
        simp [carriesAll, carries_doAva1 ops v w hw, ih ws' hws]

theorem carries_eptid (ops : StrOps α) (vs : List (LVal α))
    (h : vs.any (fun v => (renderText ops v).isNone) = false) :
    carriesAll ops vs (vs.map (eptidValue ops)) = true := by
  induction vs with
  | nil => rfl
  | cons v t ih =>
    simp only [List.any_cons, Bool.or_eq_false_iff] at h
    simp only [List.map_cons, carriesAll, ih h.2, Bool.and_true]
    unfold carriesOk
    cases hr : renderText ops v with
    | none => rw [hr] at h; simp at h
    | some r => simp [eptidValue]

omit [DecidableEq α] in
theorem doAva1_raised (ops : StrOps α) (v : LVal α) (h : doAva1 ops v = .raised) : isStr v = false := by
  cases v <;> simp_all [doAva1, isStr]

omit [DecidableEq α] in
theorem doAvaList_raised (ops : StrOps α) (vs : List (LVal α)) (h : doAvaList ops vs = .raised) :
    vs.all isStr = false := by
  induction vs with
  | nil => cases h
  | cons v t ih =>
    simp only [doAvaList] at h
    simp only [List.all_cons, Bool.and_eq_false_iff]
    split at h
    next hv => exact Or.inl (doAva1_raised ops v hv)
    next w hw =>
      split at h
      next ht => exact Or.inr (ih ht)
      · cases h

theorem doAva_raised (ops : StrOps α) (e : α × LVals α) (h : doAva ops e.2 = .raised) :
    nonStringEntry e = true := by
  unfold nonStringEntry
  cases hv : e.2 with
  | bare v => rfl
  | list vs =>
    rw [hv] at h
    simp only [doAva] at h
    split at h
    next hr => simp [doAvaList_raised ops vs hr]
    · cases h

theorem toWire1_raised (ops : StrOps α) (c : Conv α) (e : α × LVals α) (h : toWire1 ops c e = .raised) :
    nonStringEntry e = true := by
  unfold toWire1 at h
  split at h
  · split at h
    · cases h
    · split at h
      next hr => exact doAva_raised ops e hr
      · cases h
  · split at h
    next hr => exact doAva_raised ops e hr
    · cases h

theorem toWire_raised (ops : StrOps α) (c : Conv α) (ava : List (α × LVals α))
    (h : toWire ops c ava = .raised) : ava.any nonStringEntry = true := by
  induction ava with
  | nil => cases h
  | cons e t ih =>
    simp only [toWire] at h
    simp only [List.any_cons, Bool.or_eq_true]
    split at h
    next h1 => exact Or.inl (toWire1_raised ops c e h1)
    next a ha =>
      split at h
      next ht => exact Or.inr (ih ht)
      · cases h

theorem matchSub_tail {β : Type} (p : β → Bool) (ps : List (β → Bool)) (l : List β)
    (h : matchSub (p :: ps) l = true) : matchSub ps l = true := by
  induction l generalizing p ps with
  | nil => cases h
  | cons a t ih =>
    simp only [matchSub] at h
    cases ps with
    | nil => rfl
    | cons q qs =>
      simp only [matchSub]
      split at h
      · split
        · exact ih q qs h
        · exact h
      · split
        · exact ih q qs (ih p (q :: qs) h)
        · exact ih p (q :: qs) h

theorem matchSub_cons {β : Type} (ps : List (β → Bool)) (a : β) (l : List β)
    (h : matchSub ps l = true) : matchSub ps (a :: l) = true := by
  cases ps with
  | nil => rfl
  | cons p ps =>
    simp only [matchSub]
    split
    · exact matchSub_tail p ps l h
    · exact h

/-- The wire attribute the model produces for an entry meets what the declared pairs demand of it. -/
theorem toWire1_meets (ops : StrOps α) (m : MapDict α) (e : α × LVals α)
    (hcoh : coherentAt (sendDecl ops m) (ops.lower e.1) = true) (p : WireAttr α → Bool)
    (hp : wireExpectation ops (declMap ops m) e = some p) (a : WireAttr α)
    (ha : toWire1 ops (convOf ops m) e = .ok a) : p a = true := by
  unfold wireExpectation at hp
  split at hp
  · cases hp
  next vs hvs =>
    split at hp
    · cases hp
    next hren =>
      split at hp
      next v hres =>
        split at hp
        next htr =>
          simp only [Option.some.injEq] at hp
          subst hp
          have hget : Dict.get (convOf ops m).to (ops.lower e.1) = some v :=
            get_of_must (sendDecl ops m) e.1 (ops.lower e.1) v hres (sendDecl_raw ops m e.1) hcoh
          unfold toWire1 at ha
          rw [hget] at ha
          simp only [Option.filter, htr, if_true] at ha
          rw [hvs] at ha
          split at ha
          · simp only [Res.ok.injEq] at ha
            subst ha
            simp only [eptidValues, declMap, convOf, decide_true, Bool.true_and]
            exact carries_eptid ops vs (by simpa using hren)
          · simp only [doAva] at ha
            split at ha
            · cases ha
            next ws hws =>
              split at hws
              · cases hws
              next ws' hws' =>
                simp only [Res.ok.injEq] at hws
                subst hws
                simp only [Res.ok.injEq] at ha
                subst ha
                simp only [declMap, convOf, decide_true, Bool.true_and]
                exact carries_doAvaList ops vs ws' hws'
        · cases hp
      · cases hp

theorem toWire_meets (ops : StrOps α) (m : MapDict α) (ava : List (α × LVals α))
    (hcoh : ∀ e ∈ ava, coherentAt (sendDecl ops m) (ops.lower e.1) = true) (l : List (WireAttr α))
    (h : toWire ops (convOf ops m) ava = .ok l) :
    matchSub (ava.filterMap (wireExpectation ops (declMap ops m))) l = true := by
  induction ava generalizing l with
  | nil => simp [matchSub]
  | cons e t ih =>
    simp only [toWire] at h
    split at h
    · cases h
    next a ha =>
      split at h
      · cases h
      next as has =>
        simp only [Res.ok.injEq] at h
        subst h
        simp only [List.filterMap_cons]
        cases hp : wireExpectation ops (declMap ops m) e with
        | none => exact matchSub_cons _ a as (ih (fun e' he' => hcoh e' (List.mem_cons_of_mem _ he')) as has)
        | some p =>
          simp only [matchSub, toWire1_meets ops m e (hcoh e List.mem_cons_self) p hp a ha, if_true]
          exact ih (fun e' he' => hcoh e' (List.mem_cons_of_mem _ he')) as has

/-! ### one converter per name format -/

theorem filter_of_distinct {β : Type} (κ : β → α) (l : List β) (h : distinctFormats (l.map κ) = true) (f : α) :
    l.filter (fun x => κ x = f) = (l.find? (fun x => κ x = f)).toList ∧
    l.reverse.find? (fun x => κ x = f) = l.find? (fun x => κ x = f) := by
  induction l with
  | nil => simp
  | cons a t ih =>
    simp only [List.map_cons, distinctFormats, Bool.and_eq_true, Bool.not_eq_true', List.contains_eq_mem,
      decide_eq_false_iff_not, List.mem_map, not_exists, not_and] at h
    obtain ⟨hna, ht⟩ := h
    obtain ⟨ih1, ih2⟩ := ih ht
    by_cases hk : κ a = f
    · have hnone : ∀ x ∈ t, ¬ κ x = f := fun x hx hxf => hna x hx (by rw [hxf, hk])
      have hf : t.filter (fun x => κ x = f) = [] := by
        simp only [List.filter_eq_nil_iff, decide_eq_true_eq]; exact hnone
      have hr : t.reverse.find? (fun x => decide (κ x = f)) = none := by
        simp only [List.find?_eq_none, List.mem_reverse, decide_eq_true_eq]; exact hnone
      constructor
      · simp [List.filter_cons, hk, hf]
      · simp [List.find?_append, hr, hk]
    · constructor
      · simp [List.filter_cons, hk, ih1]
      · simp [List.find?_append, hk, ih2]

theorem declMaps_filter (ops : StrOps α) (maps : List (MapDict α))
    (hd : distinctFormats (maps.map (·.identifier)) = true) (f : α) :
    (maps.map (declMap ops)).filter (fun m => m.identifier = f) =
      ((maps.find? (fun m => m.identifier = f)).map (declMap ops)).toList := by
  have h := (filter_of_distinct (fun m : DeclMap α => m.identifier) (maps.map (declMap ops))
    (by simpa [List.map_map, Function.comp_def, declMap] using hd) f).1
  rw [h, List.find?_map]
  rfl

theorem pickConv_of_distinct (ops : StrOps α) (maps : List (MapDict α))
    (hd : distinctFormats (maps.map (·.identifier)) = true) (f : α) :
    pickConv (maps.map (convOf ops)) (some f) = (maps.find? (fun m => m.identifier = f)).map (convOf ops) := by
  have h := (filter_of_distinct (fun c : Conv α => c.nameFormat) (maps.map (convOf ops))
    (by simpa [List.map_map, Function.comp_def, convOf] using hd) f).2
  unfold pickConv
  simp only
  rw [h, List.find?_map]
  rfl

/-! ### receipt -/

theorem valuesFrom_plain (ops : StrOps α) (l : α) (vs : List (WireValue α))
    (h : vs.any (fun v => !v.ext.isEmpty) = false) : valuesFrom ops l vs = .ok (knownValues ops vs) := by
  induction vs with
  | nil => rfl
  | cons v t ih =>
    simp only [List.any_cons, Bool.or_eq_false_iff, Bool.not_eq_false'] at h
    simp only [valuesFrom, h.1, if_true, ih h.2, knownValues, List.map_cons, trimmed]
    cases v.text.filter ops.truthy <;> rfl

/-- What `expectLocal` calls the unknown outcome is what the model does with an attribute it passes
    on through `lcd_ava_from` when allowed and skips otherwise. -/
theorem unknown_meets (ops : StrOps α) (allow : Bool) (n : α) (vs : List (WireValue α)) (st : Effect α)
    (hst : st = if allow then Effect.put (ops.strip n) (plainValues ops vs) else Effect.skip) :
    (∀ k vs', (if allow then (if ops.strip n = n then Expect.must n (plainValues ops vs) else Expect.any)
        else Expect.drop) = Expect.must k vs' → st = .put k vs') ∧
    ((if allow then (if ops.strip n = n then Expect.must n (plainValues ops vs) else Expect.any)
        else Expect.drop) = Expect.drop → st = .skip) := by
  subst hst
  cases allow
  · simp
  · by_cases hs : ops.strip n = n
    · simp only [if_true, hs, Expect.must.injEq]
      constructor
      · rintro k vs' ⟨rfl, rfl⟩; rfl
      · intro h; cases h
    · simp [hs]

/-- One wire attribute: what the declared pairs demand is what the model does. -/
theorem localStep_meets (ops : StrOps α) (maps : List (MapDict α))
    (hd : distinctFormats (maps.map (·.identifier)) = true) (allow : Bool) (a : WireAttr α) :
    (∀ k vs, expectLocal ops (maps.map (declMap ops)) allow a = .must k vs →
      localStep ops (maps.map (convOf ops)) allow a = .put k vs) ∧
    (expectLocal ops (maps.map (declMap ops)) allow a = .drop →
      localStep ops (maps.map (convOf ops)) allow a = .skip) := by
  cases hn : a.name with
  | none => simp [expectLocal, hn]
  | some n =>
    cases hv : a.values with
    | none => simp [expectLocal, hn, hv]
    | some vs =>
      by_cases hext : vs.any (fun v => !v.ext.isEmpty) = true
      · simp [expectLocal, hn, hv, hext]
      · have hext' : vs.any (fun v => !v.ext.isEmpty) = false := by simpa using hext
        have hlcd : lcdAvaFrom ops a = .ok (ops.strip n, plainValues ops vs) := by
          simp [lcdAvaFrom, hn, hv, plainValues]
        unfold expectLocal
        simp only [hn, hv, hext', Bool.false_eq_true, if_false]
        by_cases hmaps : maps = []
        · subst hmaps
          simp only [List.map_nil, List.isEmpty_nil, if_true]
          by_cases hnf : (a.nameFormat = some ops.empty || a.nameFormat = some ops.unspecified) = true
          · simp [hnf]
          · simp only [hnf, Bool.false_eq_true, if_false]
            simp only [Bool.or_eq_true, decide_eq_true_eq, not_or] at hnf
            apply unknown_meets
            simp [localStep, hnf.1, hnf.2, hlcd]
        · have hne : (maps.map (declMap ops)).isEmpty = false := by
            cases maps with
            | nil => exact absurd rfl hmaps
            | cons _ _ => rfl
          have hne' : (maps.map (convOf ops)).isEmpty = false := by
            cases maps with
            | nil => exact absurd rfl hmaps
            | cons _ _ => rfl
          simp only [hne, Bool.false_eq_true, if_false]
          cases hnf : a.nameFormat with
          | none =>
            simp only
            apply unknown_meets
            simp [localStep, hne', hnf, pickConv, hlcd]
          | some f =>
            simp only
            rw [declMaps_filter ops maps hd f]
            cases hfind : maps.find? (fun m => m.identifier = f) with
            | none =>
              simp only [Option.map_none, Option.toList_none, List.isEmpty_nil, if_true]
              by_cases hfu : f = ops.unspecified
              · simp [hfu]
              · simp only [hfu, if_false]
                apply unknown_meets
                simp [localStep, hne', hnf, pickConv_of_distinct ops maps hd f, hfind, hfu, hlcd]
            | some m =>
              simp only [Option.map_some, Option.toList_some, List.isEmpty_cons, Bool.false_eq_true, if_false,
                List.flatMap_cons, List.flatMap_nil, List.append_nil]
              have hpick : pickConv (maps.map (convOf ops)) (some f) = some (convOf ops m) := by
                rw [pickConv_of_distinct ops maps hd f, hfind]; rfl
              cases hres : resolve (declMap ops m).recv n (ops.lower (ops.strip n)) with
              | must l =>
                simp only
                have hget : Dict.get (convOf ops m).fro (ops.lower (ops.strip n)) = some l :=
                  get_of_must_noraw (recvDecl ops m) n _ l hres (recvDecl_raw ops m)
                constructor
                · intro k vs' hk
                  simp only [Expect.must.injEq] at hk
                  obtain ⟨rfl, rfl⟩ := hk
                  simp [localStep, hne', hnf, hpick, avaFrom, hn, hget, hv, valuesFrom_plain ops l vs hext']
                · intro h; cases h
              | undefined =>
                simp only
                have hget : Dict.get (convOf ops m).fro (ops.lower (ops.strip n)) = none :=
                  get_of_undefined (recvDecl ops m) n _ hres
                apply unknown_meets
                simp [localStep, hne', hnf, hpick, avaFrom, hn, hget, hlcd]
              | ambiguous => simp

theorem localGo_meets (ops : StrOps α) (maps : List (MapDict α))
    (hd : distinctFormats (maps.map (·.identifier)) = true) (allow : Bool) (attrs : List (WireAttr α))
    (d : Dict α (List (RVal α)))
    (hany : (attrs.map (expectLocal ops (maps.map (declMap ops)) allow)).any isAny = false) :
    localGo ops (maps.map (convOf ops)) allow attrs d =
      .ok ((attrs.map (expectLocal ops (maps.map (declMap ops)) allow)).foldl (fun d e => match e with
        | .must k vs => Dict.extend d k vs
        | _ => d) d) := by
  induction attrs generalizing d with
  | nil => rfl
  | cons a t ih =>
    simp only [List.map_cons, List.any_cons, Bool.or_eq_false_iff] at hany
    obtain ⟨h1, h2⟩ := localStep_meets ops maps hd allow a
    simp only [List.map_cons, List.foldl_cons, localGo]
    cases hexp : expectLocal ops (maps.map (declMap ops)) allow a with
    | must k vs => rw [h1 k vs hexp]; exact ih _ hany.2
    | drop => rw [h2 hexp]; exact ih _ hany.2
    | any => rw [hexp] at hany; simp [isAny] at hany

theorem getIdentity_meets (ops : StrOps α) (maps : List (MapDict α))
    (hd : distinctFormats (maps.map (·.identifier)) = true) (allow : Bool) (stmts : List (List (WireAttr α)))
    (acc : Dict α (List (RVal α)))
    (hany : (stmts.map fun st => st.map (expectLocal ops (maps.map (declMap ops)) allow)).any
      (fun es => es.any isAny) = false) :
    getIdentity ops (maps.map (convOf ops)) allow stmts acc =
      .ok ((stmts.map fun st => st.map (expectLocal ops (maps.map (declMap ops)) allow)).foldl
        (fun acc es => Dict.update acc (expectedDict es)) acc) := by
  induction stmts generalizing acc with
  | nil => rfl
  | cons st t ih =>
    simp only [List.map_cons, List.any_cons, Bool.or_eq_false_iff] at hany
    simp only [getIdentity, listToLocal, localGo_meets ops maps hd allow st [] hany.1, List.map_cons,
      List.foldl_cons]
    exact ih _ hany.2

theorem dictEq_refl {β : Type} [DecidableEq β] (a : Dict α β) : dictEq a a = true := by
  simp [dictEq]

/-! ### what the receiving loop leaves in the dictionary -/

theorem get_extend {β : Type} (d : Dict α (List β)) (k l : α) (vs : List β) :
    Dict.get (Dict.extend d k vs) l =
      if k = l then some ((Dict.get d k).getD [] ++ vs) else Dict.get d l := by
  unfold Dict.extend
  cases h : Dict.get d k with
  | none => simp [get_set]
  | some old => simp [get_set]

/-- The values attribute `a` adds under local name `l`. -/
def contrib (ops : StrOps α) (acs : List (Conv α)) (allow : Bool) (l : α) (a : WireAttr α) : List (RVal α) :=
  match localStep ops acs allow a with
  | .put k vs => if k = l then vs else []
  | _ => []

def touches (ops : StrOps α) (acs : List (Conv α)) (allow : Bool) (l : α) (a : WireAttr α) : Bool :=
  match localStep ops acs allow a with
  | .put k _ => k = l
  | _ => false

theorem localGo_get (ops : StrOps α) (acs : List (Conv α)) (allow : Bool) (attrs : List (WireAttr α))
    (d d' : Dict α (List (RVal α))) (h : localGo ops acs allow attrs d = .ok d') (l : α) :
    Dict.get d' l =
      if attrs.any (touches ops acs allow l) || (Dict.get d l).isSome
      then some ((Dict.get d l).getD [] ++ attrs.flatMap (contrib ops acs allow l))
      else none := by
  induction attrs generalizing d with
  | nil =>
    simp only [localGo, Res.ok.injEq] at h
    subst h
    cases Dict.get d l <;> simp
  | cons a t ih =>
    simp only [localGo] at h
    simp only [List.any_cons, List.flatMap_cons, touches, contrib]
    split at h
    · cases h
    next hs => rw [ih d h, hs]; simp
    next k vs hs =>
      rw [ih _ h, hs, get_extend]
      by_cases hk : k = l
      · subst hk
        cases Dict.get d k <;> simp
      · simp [hk]

theorem localGo_raised (ops : StrOps α) (acs : List (Conv α)) (allow : Bool) (attrs : List (WireAttr α))
    (d : Dict α (List (RVal α))) (h : localGo ops acs allow attrs d = .raised) :
    ∃ a ∈ attrs, localStep ops acs allow a = .raised := by
  induction attrs generalizing d with
  | nil => cases h
  | cons a t ih =>
    simp only [localGo] at h
    split at h
    next hs => exact ⟨a, List.mem_cons_self, hs⟩
    next hs =>
      obtain ⟨a', ha', hr⟩ := ih d h
      exact ⟨a', List.mem_cons_of_mem _ ha', hr⟩
    next k vs hs =>
      obtain ⟨a', ha', hr⟩ := ih _ h
      exact ⟨a', List.mem_cons_of_mem _ ha', hr⟩

/-! ### send, then receive -/

theorem doAva1_text (ops : StrOps α) (v : LVal α) (w : WireValue α) (h : doAva1 ops v = .ok w) :
    w.ext = [] ∧ w.text = renderText ops v := by
  cases v with
  | str s => simp only [doAva1, Res.ok.injEq] at h; subst h; simp [renderText]
  | bool b => simp only [doAva1, Res.ok.injEq] at h; subst h; simp [renderText]
  | int i =>
    simp only [doAva1] at h
    split at h
    · cases h
    · simp only [Res.ok.injEq] at h; subst h; simp [renderText]
  | none => cases h

theorem doAvaList_texts (ops : StrOps α) (vs : List (LVal α)) (ws : List (WireValue α))
    (h : doAvaList ops vs = .ok ws) :
    ws.any (fun v => !v.ext.isEmpty) = false ∧
    knownValues ops ws = vs.map (fun x => RVal.str (trimmed ops (renderText ops x))) := by
  induction vs generalizing ws with
  | nil => simp only [doAvaList, Res.ok.injEq] at h; subst h; simp [knownValues]
  | cons v t ih =>
    simp only [doAvaList] at h
    split at h
    · cases h
    next w hw =>
      split at h
      · cases h
      next ws' hws =>
        simp only [Res.ok.injEq] at h; subst h
        obtain ⟨h1, h2⟩ := doAva1_text ops v w hw
        obtain ⟨i1, i2⟩ := ih ws' hws
        constructor
        · simp [h1, i1]
        · simp only [knownValues, List.map_cons] at i2 ⊢
          rw [i2, h2]

theorem valuesFrom_eptid (ops : StrOps α) (vs : List (LVal α))
    (h : ∀ x ∈ vs, ∃ s, x = .str s ∧ ops.truthy s = true) :
    valuesFrom ops ops.eptidLocal (vs.map (eptidValue ops)) =
      .ok (vs.map (fun x => RVal.str (trimmed ops (renderText ops x)))) := by
  induction vs with
  | nil => rfl
  | cons x t ih =>
    obtain ⟨s, rfl, hs⟩ := h x List.mem_cons_self
    have ht := ih (fun y hy => h y (List.mem_cons_of_mem _ hy))
    simp only [List.map_cons, valuesFrom, eptidValue, List.isEmpty_cons, Bool.false_eq_true, if_false,
      extValues, extValue, extText, hs, if_true]
    rw [ht]
    simp [renderText, trimmed, Option.filter, hs]

theorem find_of_distinct (maps : List (MapDict α)) (hd : distinctFormats (maps.map (·.identifier)) = true)
    (m : MapDict α) (hm : m ∈ maps) : maps.find? (fun x => x.identifier = m.identifier) = some m := by
  induction maps with
  | nil => cases hm
  | cons a t ih =>
    simp only [List.map_cons, distinctFormats, Bool.and_eq_true, Bool.not_eq_true', List.contains_eq_mem,
      decide_eq_false_iff_not, List.mem_map, not_exists, not_and] at hd
    obtain ⟨hna, ht⟩ := hd
    rcases List.mem_cons.mp hm with h1 | h1
    · subst h1; simp
    · by_cases hk : a.identifier = m.identifier
      · exact absurd hk.symm (hna m h1)
      · simp only [List.find?_cons, hk, decide_false]
        exact ih ht h1

/-- The value a resolution settles on is the value of some declared pair. -/
theorem must_mem (D : List (Decl α)) (rawq q v : α) (h : resolve D rawq q = .must v) : ∃ d ∈ D, d.val = v := by
  unfold resolve at h
  split at h
  next v0 t hex =>
    split at h
    · cases h
      have : v ∈ exact D rawq := by rw [hex]; exact List.mem_cons_self
      simp only [exact, List.mem_map, List.mem_filter] at this
      obtain ⟨d, ⟨hd, _⟩, hval⟩ := this
      exact ⟨d, hd, hval⟩
    · cases h
  next =>
    split at h
    · cases h
    next v0 t hc =>
      split at h
      · cases h
        have : v ∈ candidates D q := by rw [hc]; exact List.mem_cons_self
        simp only [candidates, List.mem_map, List.mem_filter] at this
        obtain ⟨d, ⟨hd, _⟩, hval⟩ := this
        exact ⟨d, hd, hval⟩
      · cases h

theorem undefined_candidates (D : List (Decl α)) (rawq q : α) (h : resolve D rawq q = .undefined) :
    candidates D q = [] := by
  unfold resolve at h
  split at h
  · split at h <;> cases h
  · split at h
    next hc => exact hc
    · split at h <;> cases h

/-- One identity entry, sent through map `m` and received with the whole set: what the declared pairs
    demand (`expectRT … = must l vs'`) is what arrives. -/
theorem rt_entry (ops : StrOps α) (maps : List (MapDict α))
    (hd : distinctFormats (maps.map (·.identifier)) = true) (m : MapDict α) (hm : m ∈ maps)
    (allow : Bool) (e : α × LVals α) (hcoh : coherentAt (sendDecl ops m) (ops.lower e.1) = true)
    (l : α) (vs' : List (RVal α))
    (hexp : expectRT ops (maps.map (declMap ops)) (declMap ops m) e = .must l vs')
    (hept : eptidValuesOk ops (declMap ops m) e = true)
    (a : WireAttr α) (ha : toWire1 ops (convOf ops m) e = .ok a) :
    localStep ops (maps.map (convOf ops)) allow a = .put l vs' := by
  have hne : (maps.map (convOf ops)).isEmpty = false := by
    cases maps with
    | nil => cases hm
    | cons _ _ => rfl
  have hpick : pickConv (maps.map (convOf ops)) (some m.identifier) = some (convOf ops m) := by
    rw [pickConv_of_distinct ops maps hd, find_of_distinct maps hd m hm]; rfl
  unfold expectRT at hexp
  unfold eptidValuesOk at hept
  split at hexp
  · cases hexp
  next vs hvs =>
    split at hexp
    · cases hexp
    next hren =>
      split at hexp
      next v hres =>
        simp only [declMap] at hres
        split at hexp
        · cases hexp
        next htr =>
          have htr' : ops.truthy v = true := by simpa using htr
          have hto : Dict.get (convOf ops m).to (ops.lower e.1) = some v :=
            get_of_must (sendDecl ops m) e.1 _ v hres (sendDecl_raw ops m e.1) hcoh
          rw [declMaps_filter ops maps hd (declMap ops m).identifier] at hexp
          have hid : (declMap ops m).identifier = m.identifier := rfl
          rw [hid, find_of_distinct maps hd m hm] at hexp
          simp only [Option.map_some, Option.toList_some, List.flatMap_cons, List.flatMap_nil, List.append_nil,
            declMap] at hexp
          split at hexp
          next l0 hrecv =>
            have hfro : Dict.get (convOf ops m).fro (ops.lower (ops.strip v)) = some l0 :=
              get_of_must_noraw (recvDecl ops m) v _ l0 hrecv (recvDecl_raw ops m)
            unfold toWire1 at ha
            rw [hto] at ha
            simp only [Option.filter, htr', if_true] at ha
            rw [hvs] at ha
            split at hexp
            next hv =>
              -- the eduPersonTargetedID special case
              split at hexp
              next hcond =>
                simp only [ExpectRT.must.injEq] at hexp
                obtain ⟨rfl, rfl⟩ := hexp
                simp only [Bool.and_eq_true, decide_eq_true_eq] at hcond
                obtain ⟨hl, hstr⟩ := hcond
                simp only [hv, if_true, Res.ok.injEq] at ha
                subst ha
                simp only [declMap, hres, hvs, hv, decide_true, Bool.not_true, Bool.false_or] at hept
                have hall : ∀ x ∈ vs, ∃ s, x = LVal.str s ∧ ops.truthy s = true := by
                  intro x hx
                  have h1 := (List.all_eq_true.mp hstr) x hx
                  have h2 := (List.all_eq_true.mp hept) x hx
                  cases x with
                  | str s => exact ⟨s, rfl, h2⟩
                  | bool _ => cases h1
                  | int _ => cases h1
                  | none => cases h1
                have hvals := valuesFrom_eptid ops vs hall
                simp only [localStep, hne, Bool.false_eq_true, if_false, convOf] at hpick ⊢
                rw [hpick]
                simp only [avaFrom, convOf] at hfro ⊢
                rw [hv] at hfro
                simp only [hfro, eptidValues]
                rw [hl, hvals]
              · cases hexp
            next hv =>
              simp only [ExpectRT.must.injEq] at hexp
              obtain ⟨rfl, rfl⟩ := hexp
              simp only [hv, if_false, doAva] at ha
              split at ha
              · cases ha
              next ws hws =>
                split at hws
                · cases hws
                next ws' hws' =>
                  simp only [Res.ok.injEq] at hws; subst hws
                  simp only [Res.ok.injEq] at ha; subst ha
                  obtain ⟨hnoext, hknown⟩ := doAvaList_texts ops vs ws' hws'
                  simp only [localStep, hne, Bool.false_eq_true, if_false, convOf] at hpick ⊢
                  rw [hpick]
                  simp only [avaFrom, convOf] at hfro ⊢
                  simp only [hfro, valuesFrom_plain ops l0 ws' hnoext, hknown]
          · cases hexp
          · cases hexp
      · cases hexp

theorem rt_not_lost (ops : StrOps α) (maps : List (MapDict α))
    (hd : distinctFormats (maps.map (·.identifier)) = true) (m : MapDict α) (hm : m ∈ maps)
    (hwf : roundTripWf ops m = true) (e : α × LVals α) :
    isLost (expectRT ops (maps.map (declMap ops)) (declMap ops m) e) = false := by
  unfold expectRT
  split
  · rfl
  next vs hvs =>
    split
    · rfl
    next hren =>
      split
      next v hres =>
        simp only [declMap] at hres
        split
        · rfl
        next htr =>
          have htr' : ops.truthy v = true := by simpa using htr
          rw [declMaps_filter ops maps hd (declMap ops m).identifier]
          have hid : (declMap ops m).identifier = m.identifier := rfl
          rw [hid, find_of_distinct maps hd m hm]
          simp only [Option.map_some, Option.toList_some, List.flatMap_cons, List.flatMap_nil, List.append_nil,
            declMap]
          split
          · split
            · split <;> rfl
            · rfl
          next hund =>
            exfalso
            obtain ⟨d, hdm, hdv⟩ := must_mem _ _ _ _ hres
            have h1 := (List.all_eq_true.mp hwf) d hdm
            rw [hdv, htr'] at h1
            simp only [Bool.not_true, Bool.false_or, List.any_eq_true, decide_eq_true_eq] at h1
            obtain ⟨r, hr, hk⟩ := h1
            have hc := undefined_candidates _ _ _ hund
            have : r.val ∈ candidates (recvDecl ops m) (ops.lower (ops.strip v)) := by
              simp only [candidates, List.mem_map, List.mem_filter, decide_eq_true_eq]
              exact ⟨r, ⟨hr, hk⟩, rfl⟩
            rw [hc] at this
            cases this
          · rfl
      · rfl

/-- the values of an attribute contain only text and NameID elements with string text -/
def safeValues (vals : List (WireValue α)) : Prop := ∀ w ∈ vals, ∀ ex ∈ w.ext, isStr ex.text = true

theorem toWire1_shape (ops : StrOps α) (c : Conv α) (e : α × LVals α) (a : WireAttr α)
    (ha : toWire1 ops c e = .ok a) (hs : nonStringEntry e = false) :
    ∃ n f vals, a.name = some n ∧ a.nameFormat = some f ∧ a.values = some vals ∧ safeValues vals := by
  unfold nonStringEntry at hs
  cases hvs : e.2 with
  | bare v => rw [hvs] at hs; cases hs
  | list vs =>
    rw [hvs] at hs
    simp only [Bool.not_eq_false'] at hs
    have hplain : ∀ ws, doAva ops (.list vs) = .ok ws → ∃ vals, ws = some vals ∧ safeValues vals := by
      intro ws hws
      simp only [doAva] at hws
      split at hws
      · cases hws
      next ws' hws' =>
        simp only [Res.ok.injEq] at hws; subst hws
        refine ⟨ws', rfl, ?_⟩
        intro w hw ex hex
        have := (doAvaList_texts ops vs ws' hws').1
        simp only [List.any_eq_false, Bool.not_eq_true', Bool.not_eq_false'] at this
        have hw' := this w hw
        cases hwe : w.ext with
        | nil => rw [hwe] at hex; cases hex
        | cons _ _ => rw [hwe] at hw'; simp at hw'
    unfold toWire1 at ha
    rw [hvs] at ha
    split at ha
    next name _ =>
      split at ha
      · simp only [Res.ok.injEq] at ha; subst ha
        refine ⟨name, c.nameFormat, _, rfl, rfl, rfl, ?_⟩
        intro w hw ex hex
        simp only [eptidValues, List.mem_map] at hw
        obtain ⟨x, hx, rfl⟩ := hw
        simp only [eptidValue, List.mem_singleton] at hex
        subst hex
        exact (List.all_eq_true.mp hs) x hx
      · split at ha
        · cases ha
        next ws hws =>
          simp only [Res.ok.injEq] at ha; subst ha
          obtain ⟨vals, rfl, hsafe⟩ := hplain ws hws
          exact ⟨name, c.nameFormat, vals, rfl, rfl, rfl, hsafe⟩
    · split at ha
      · cases ha
      next ws hws =>
        simp only [Res.ok.injEq] at ha; subst ha
        obtain ⟨vals, rfl, hsafe⟩ := hplain ws hws
        exact ⟨e.1, ops.defaultFormat, vals, rfl, rfl, rfl, hsafe⟩

theorem extValue_str (ops : StrOps α) (l : α) (ex : NameIdExt α) (s : α) (h : ex.text = .str s) :
    ∃ v, extValue ops l ex = .ok v := by
  unfold extValue
  rw [h]
  simp only [extText]
  split <;> exact ⟨_, rfl⟩

theorem extValues_safe (ops : StrOps α) (l : α) (exts : List (NameIdExt α))
    (h : ∀ ex ∈ exts, isStr ex.text = true) : ∃ r, extValues ops l exts = .ok r := by
  induction exts with
  | nil => exact ⟨[], rfl⟩
  | cons ex t ih =>
    obtain ⟨r, hr⟩ := ih (fun x hx => h x (List.mem_cons_of_mem _ hx))
    have hex := h ex List.mem_cons_self
    cases htx : ex.text with
    | str s =>
      obtain ⟨v, hv⟩ := extValue_str ops l ex s htx
      exact ⟨v :: r, by simp only [extValues, hv, hr]⟩
    | bool _ => rw [htx] at hex; cases hex
    | int _ => rw [htx] at hex; cases hex
    | none => rw [htx] at hex; cases hex

theorem valuesFrom_safe (ops : StrOps α) (l : α) (vals : List (WireValue α)) (h : safeValues vals) :
    ∃ r, valuesFrom ops l vals = .ok r := by
  induction vals with
  | nil => exact ⟨[], rfl⟩
  | cons w t ih =>
    obtain ⟨r, hr⟩ := ih (fun x hx => h x (List.mem_cons_of_mem _ hx))
    by_cases hemp : w.ext.isEmpty = true
    · simp only [valuesFrom, hr, hemp, if_true]
      cases Option.filter ops.truthy w.text <;> exact ⟨_, rfl⟩
    · obtain ⟨r', hr'⟩ := extValues_safe ops l w.ext (h w List.mem_cons_self)
      simp only [valuesFrom, hr, hemp, if_false, hr']
      exact ⟨_, rfl⟩

theorem localStep_not_raised (ops : StrOps α) (acs : List (Conv α)) (allow : Bool) (a : WireAttr α)
    (hne : acs.isEmpty = false) (n : α) (vals : List (WireValue α)) (hn : a.name = some n)
    (hv : a.values = some vals) (hs : safeValues vals) : localStep ops acs allow a ≠ .raised := by
  have hlcd : lcdAvaFrom ops a = .ok (ops.strip n, plainValues ops vals) := by
    simp [lcdAvaFrom, hn, hv, plainValues]
  unfold localStep
  simp only [hne, Bool.false_eq_true, if_false]
  split
  next c _ =>
    simp only [avaFrom, hn, hv]
    cases Dict.get c.fro (ops.lower (ops.strip n)) with
    | none =>
      simp only [hlcd]
      split <;> simp
    | some l =>
      obtain ⟨r, hr⟩ := valuesFrom_safe ops l vals hs
      simp [hr]
  · simp only [hlcd]
    split <;> simp

theorem parsed_of_format (ops : StrOps α) (a : WireAttr α) (f : α) (h : a.nameFormat = some f) : parsed ops a = a := by
  obtain ⟨n, nf, fn, vs⟩ := a
  simp only at h
  simp [parsed, h]

theorem toWire_parsed (ops : StrOps α) (c : Conv α) (ava : List (α × LVals α)) (w : List (WireAttr α))
    (h : toWire ops c ava = .ok w) : w.map (parsed ops) = w := by
  induction ava generalizing w with
  | nil => simp only [toWire, Res.ok.injEq] at h; subst h; rfl
  | cons e t ih =>
    simp only [toWire] at h
    split at h
    · cases h
    next a ha =>
      split at h
      · cases h
      next as has =>
        simp only [Res.ok.injEq] at h; subst h
        have hf : ∃ f, a.nameFormat = some f := by
          unfold toWire1 at ha
          split at ha
          · split at ha
            · simp only [Res.ok.injEq] at ha; subst ha; exact ⟨_, rfl⟩
            · split at ha
              · cases ha
              · simp only [Res.ok.injEq] at ha; subst ha; exact ⟨_, rfl⟩
          · split at ha
            · cases ha
            · simp only [Res.ok.injEq] at ha; subst ha; exact ⟨_, rfl⟩
        obtain ⟨f, hf⟩ := hf
        simp [parsed_of_format ops a f hf, ih as has]

theorem roundTripXml_eq (ops : StrOps α) (acs : List (Conv α)) (s : Sender α) (allow : Bool)
    (ava : List (α × LVals α)) : roundTripXml ops acs s allow ava = roundTrip ops acs s allow ava := by
  unfold roundTripXml roundTrip
  split
  · rfl
  next c _ =>
    cases hw : toWire ops c ava with
    | raised => rfl
    | ok w => simp only [toWire_parsed ops c ava w hw]

/-- Everything demanded under `l` arrives under `l`, in order (possibly among other values). -/
theorem demanded_sublist (ops : StrOps α) (acs : List (Conv α)) (allow : Bool) (c : Conv α)
    (X : (α × LVals α) → ExpectRT α) (ava : List (α × LVals α)) (w : List (WireAttr α))
    (hw : toWire ops c ava = .ok w)
    (hent : ∀ e ∈ ava, ∀ l vs a, X e = .must l vs → toWire1 ops c e = .ok a → localStep ops acs allow a = .put l vs)
    (l : α) :
    (demanded (ava.map X) l).Sublist (w.flatMap (contrib ops acs allow l)) ∧
    (l ∈ demandedKeys (ava.map X) → w.any (touches ops acs allow l) = true) := by
  induction ava generalizing w with
  | nil =>
    simp only [toWire, Res.ok.injEq] at hw; subst hw
    simp [demanded, demandedKeys]
  | cons e t ih =>
    simp only [toWire] at hw
    split at hw
    · cases hw
    next a ha =>
      split at hw
      · cases hw
      next as has =>
        simp only [Res.ok.injEq] at hw; subst hw
        obtain ⟨ih1, ih2⟩ := ih as has (fun e' he' => hent e' (List.mem_cons_of_mem _ he'))
        simp only [List.map_cons, demanded, demandedKeys, List.flatMap_cons, List.filterMap_cons, List.any_cons] at ih1 ih2 ⊢
        cases hx : X e with
        | must l' vs =>
          have hstep := hent e List.mem_cons_self l' vs a hx ha
          simp only [contrib, touches, hstep]
          constructor
          · exact List.Sublist.append (List.Sublist.refl _) ih1
          · intro hmem
            by_cases hl : l' = l
            · simp [hl]
            · simp only [List.mem_cons] at hmem
              rcases hmem with h1 | h1
              · exact absurd h1.symm hl
              · simp [ih2 h1]
        | lost =>
          simp only [List.nil_append]
          constructor
          · exact ih1.trans (List.sublist_append_right _ _)
          · intro hmem; simp [ih2 hmem]
        | free =>
          simp only [List.nil_append]
          constructor
          · exact ih1.trans (List.sublist_append_right _ _)
          · intro hmem; simp [ih2 hmem]

theorem toWire_mem (ops : StrOps α) (c : Conv α) (ava : List (α × LVals α)) (w : List (WireAttr α))
    (h : toWire ops c ava = .ok w) : ∀ a ∈ w, ∃ e ∈ ava, toWire1 ops c e = .ok a := by
  induction ava generalizing w with
  | nil => simp only [toWire, Res.ok.injEq] at h; subst h; intro a ha; cases ha
  | cons e t ih =>
    simp only [toWire] at h
    split at h
    · cases h
    next a0 ha0 =>
      split at h
      · cases h
      next as has =>
        simp only [Res.ok.injEq] at h; subst h
        intro a ha
        rcases List.mem_cons.mp ha with h1 | h1
        · subst h1; exact ⟨e, List.mem_cons_self, ha0⟩
        · obtain ⟨e', he', h2⟩ := ih as has a h1
          exact ⟨e', List.mem_cons_of_mem _ he', h2⟩

end C17
