/-
  C19 helper lemmas, part 6: every operation of the model, taken from a state that satisfies the
  invariant, passes every clause of the specification (SOAP answers not counted) and re-establishes
  the invariant.
-/
import PysamlModel.Proofs.C19Inv

namespace Session

variable {cfg : Cfg} {st : St} {g : Ghost}

/-- Steps that change neither cache, pending table nor list objects. -/
theorem ok_nochange {op : Op} {out : Out} {st' : St} (hinv : Inv st g)
    (hstepEq : step cfg st op = (st', out))
    (hp : planOf false cfg g (obsOf st) op out = { ops := g.ops })
    (hread : readOk g (readCheck op) op out = true)
    (hem : emitted out = [])
    (hstat : statusOk op out (obsOf st') = true)
    (hdb : st'.db = st.db) (hpending : st'.pending = st.pending) (hheap : st'.heap = st.heap)
    (hnow : st'.now = nowAfter st op)
    (hlast : st'.last = lastAfter st op)
    (hstep : st'.stepNo = st.stepNo + 1) : StepOk cfg st g op :=
  step_assemble { ops := g.ops } hinv hstepEq hp hread
    (hshape := Or.inl hdb)
    (hends := by intro s0 h; cases h)
    (hrem := removed_same (by simp [obsOf, hpending]))
    (hadd := added_same (by simp [obsOf, hpending])) (hgone := gone_none rfl) (hsp := sentPending_nil hem)
    (hreq := request_nil hem)
    (hstat := hstat) (hnow := hnow) (hlast := hlast) (hstep := hstep)
    (hpend := pendInv_sub hinv rfl (fun _ _ h => by rw [hpending] at h; exact h) (fun _ _ => by rw [hheap]) hstep)

/-- `ok_nochange` for the common case: only the step counter moves. -/
theorem ok_read {op : Op} {out : Out} (hinv : Inv st g)
    (hstepEq : step cfg st op = ({ st with stepNo := st.stepNo + 1 }, out))
    (hp : planOf false cfg g (obsOf st) op out = { ops := g.ops })
    (hread : readOk g (readCheck op) op out = true)
    (hem : emitted out = [])
    (hstat : statusOk op out (obsOf st) = true)
    (hnow : st.now = nowAfter st op) (hlast : st.last = lastAfter st op) : StepOk cfg st g op :=
  ok_nochange hinv hstepEq hp hread hem (by simpa [obsOf] using hstat) rfl rfl rfl hnow hlast rfl

theorem ok_login (hinv : Inv st g) (l : Login) : StepOk cfg st g (.login l) := by
  by_cases hk : l.kind = .ok
  · exact step_assemble
      (st' := { st with db := cacheSet st.db l.s l.i ⟨l.nooa, some l.info⟩, stepNo := st.stepNo + 1 })
      (out := .accepted) { soi := some l.s, expect := .keeps, ops := g.ops } hinv
      (hstepEq := by simp [step, stepCore, doLogin, hk])
      (hp := by simp [planOf, hk])
      (hread := rfl)
      (hshape := Or.inr (Or.inr (Or.inl ⟨l, rfl, hk, rfl, rfl, rfl⟩)))
      (hends := by intro s0 _ h; cases h)
      (hrem := removed_same rfl) (hadd := added_same rfl) (hgone := gone_none rfl) (hsp := rfl) (hreq := request_nil rfl)
      (hstat := rfl) (hnow := rfl) (hlast := rfl) (hstep := rfl)
      (hpend := pendInv_sub hinv rfl (fun _ _ h => h) (fun _ _ => rfl) rfl)
  · exact ok_read (out := .rejected) hinv (by simp [step, stepCore, doLogin, hk]) (by simp [planOf, hk]) rfl rfl rfl rfl rfl

theorem ok_reset (hinv : Inv st g) (s : Subj) (i : Idp) : StepOk cfg st g (.reset s i) :=
  step_assemble
    (st' := { st with db := cacheSet st.db s i ⟨0, none⟩, stepNo := st.stepNo + 1 })
    (out := .ok) { soi := some s, expect := .keeps, ops := g.ops } hinv
    (hstepEq := by simp [step, stepCore])
    (hp := by simp [planOf])
    (hread := rfl)
    (hshape := Or.inr (Or.inr (Or.inr ⟨s, i, rfl, rfl, rfl, rfl⟩)))
    (hends := by intro s0 _ h; cases h)
    (hrem := removed_same rfl) (hadd := added_same rfl) (hgone := gone_none rfl) (hsp := rfl) (hreq := request_nil rfl)
    (hstat := rfl) (hnow := rfl) (hlast := rfl) (hstep := rfl)
    (hpend := pendInv_sub hinv rfl (fun _ _ h => h) (fun _ _ => rfl) rfl)

theorem ok_advance (hinv : Inv st g) (dt : Nat) : StepOk cfg st g (.advance dt) :=
  ok_nochange (st' := { st with now := st.now + dt, stepNo := st.stepNo + 1 }) (out := .ok) hinv
    (by simp [step, stepCore]) (by simp [planOf]) rfl rfl rfl rfl rfl rfl rfl rfl rfl

theorem ok_identity (hinv : Inv st g) (s : Subj) (ents : List Idp) (check : Bool) :
    StepOk cfg st g (.identity s ents check) := by
  cases hg : getIdentity st.db st.now s ents check with
  | none =>
    exact ok_read (out := .error .key []) hinv (by simp [step, stepCore, hg]) (by simp [planOf]) rfl rfl rfl rfl rfl
  | some r =>
    obtain ⟨ava, old⟩ := r
    refine ok_read (out := .identity ava old) hinv (by simp [step, stepCore, hg]) (by simp [planOf]) ?_ rfl rfl rfl rfl
    simp only [readOk, readCheck]
    rw [← hinv.now] at hg
    exact identityOk_of hinv.live hg

theorem ok_info (hinv : Inv st g) (s : Subj) (i : Idp) (check : Bool) : StepOk cfg st g (.info s i check) := by
  cases hg : cacheGet st.db st.now s i check with
  | info x =>
    refine ok_read (out := .info x s) hinv (by simp [step, stepCore, hg]) (by simp [planOf]) ?_ rfl rfl rfl rfl
    simp only [readOk, readCheck]
    rw [← hinv.now] at hg
    exact infoOk_of hinv.live hg
  | empty =>
    exact ok_read (out := .empty) hinv (by simp [step, stepCore, hg]) (by simp [planOf]) rfl rfl rfl rfl rfl
  | tooOld =>
    exact ok_read (out := .error .tooOld []) hinv (by simp [step, stepCore, hg]) (by simp [planOf]) rfl rfl rfl rfl rfl
  | keyError =>
    exact ok_read (out := .error .key []) hinv (by simp [step, stepCore, hg]) (by simp [planOf]) rfl rfl rfl rfl rfl

theorem ok_stale (hinv : Inv st g) (s : Subj) (srcs : List Idp) : StepOk cfg st g (.stale s srcs) := by
  cases hg : staleSources st.db st.now s srcs with
  | none =>
    exact ok_read (out := .error .key []) hinv (by simp [step, stepCore, hg]) (by simp [planOf]) rfl rfl rfl rfl rfl
  | some l =>
    exact ok_read (out := .stale l) hinv (by simp [step, stepCore, hg]) (by simp [planOf]) rfl rfl rfl rfl rfl


/-! ### IdP-initiated logout request -/

theorem statusOk_not_slo {op : Op} {out : Out} {o : Obs} (h : ∀ a b c d, op ≠ .slo a b c d) : statusOk op out o = true := by
  unfold statusOk
  split
  · next a b c d => exact absurd rfl (h a b c d)
  · rfl

theorem ok_slo (hinv : Inv st g) (named current : Subj) (b : Bind) (j : Idp) :
    StepOk cfg st g (.slo named current b j) := by
  by_cases hn : named = current
  · subst hn
    have hplan : ∀ out, planOf false cfg g (obsOf st) (.slo named named b j) out =
        { soi := some named, expect := .free, ops := g.ops } := by intro out; simp [planOf]
    cases hd : cacheDelete st.db named with
    | none =>
      have hnk := cacheDelete_none hd
      by_cases hc : canRespond cfg j b = true
      · exact step_assemble (st' := { st with stepNo := st.stepNo + 1 }) (out := .slo .requestDenied) _ hinv
          (hstepEq := by simp [step, stepCore, handleRequest, localLogout, hd, hc])
          (hp := hplan _) (hread := rfl) (hshape := Or.inl rfl)
          (hends := by intro s0 _ h; cases h)
          (hrem := removed_same rfl) (hadd := added_same rfl) (hgone := gone_none rfl) (hsp := rfl) (hreq := request_nil rfl)
          (hstat := rfl) (hnow := rfl) (hlast := rfl) (hstep := rfl)
          (hpend := pendInv_sub hinv rfl (fun _ _ h => h) (fun _ _ => rfl) rfl)
      · exact step_assemble (st' := { st with stepNo := st.stepNo + 1 }) (out := .error .noresponse []) _ hinv
          (hstepEq := by simp [step, stepCore, handleRequest, localLogout, hd, hc])
          (hp := hplan _) (hread := rfl) (hshape := Or.inl rfl)
          (hends := by intro s0 _ h; cases h)
          (hrem := removed_same rfl) (hadd := added_same rfl) (hgone := gone_none rfl) (hsp := rfl) (hreq := request_nil rfl)
          (hstat := rfl) (hnow := rfl) (hlast := rfl) (hstep := rfl)
          (hpend := pendInv_sub hinv rfl (fun _ _ h => h) (fun _ _ => rfl) rfl)
    | some db' =>
      obtain ⟨hdb, hk⟩ := cacheDelete_some hd
      subst hdb
      have hgone : named ∉ Dict.keys (Dict.del named st.db) := by simp [Dict.mem_keys_del]
      by_cases hc : canRespond cfg j b = true
      · exact step_assemble (st' := { st with db := Dict.del named st.db, stepNo := st.stepNo + 1 })
          (out := .slo .success) _ hinv
          (hstepEq := by simp [step, stepCore, handleRequest, localLogout, hd, hc])
          (hp := hplan _) (hread := rfl)
          (hshape := Or.inr (Or.inl ⟨named, rfl, Or.inr rfl, rfl⟩))
          (hends := by intro s0 _ h; cases h)
          (hrem := removed_same rfl) (hadd := added_same rfl) (hgone := gone_none rfl) (hsp := rfl) (hreq := request_nil rfl)
          (hstat := by simp [statusOk, obsOf, hgone]) (hnow := rfl) (hlast := rfl) (hstep := rfl)
          (hpend := pendInv_sub hinv rfl (fun _ _ h => h) (fun _ _ => rfl) rfl)
      · exact step_assemble (st' := { st with db := Dict.del named st.db, stepNo := st.stepNo + 1 })
          (out := .error .noresponse []) _ hinv
          (hstepEq := by simp [step, stepCore, handleRequest, localLogout, hd, hc])
          (hp := hplan _) (hread := rfl)
          (hshape := Or.inr (Or.inl ⟨named, rfl, Or.inr rfl, rfl⟩))
          (hends := by intro s0 _ h; cases h)
          (hrem := removed_same rfl) (hadd := added_same rfl) (hgone := gone_none rfl) (hsp := rfl) (hreq := request_nil rfl)
          (hstat := rfl) (hnow := rfl) (hlast := rfl) (hstep := rfl)
          (hpend := pendInv_sub hinv rfl (fun _ _ h => h) (fun _ _ => rfl) rfl)
  · by_cases hc : canRespond cfg j b = true
    · exact ok_read (out := .slo .unknownPrincipal) hinv (by simp [step, stepCore, handleRequest, hn, hc])
        (by simp [planOf, hn]) rfl rfl rfl rfl rfl
    · exact ok_read (out := .error .noresponse []) hinv (by simp [step, stepCore, handleRequest, hn, hc])
        (by simp [planOf, hn]) rfl rfl rfl rfl rfl


/-! ### do_logout -/

theorem statusOk_logout {s : Subj} {e : Option Int} {out : Out} {o : Obs} : statusOk (.logout s e) out o = true :=
  statusOk_not_slo (by intro a b c d h; cases h)

theorem statusOk_resp {sel : Sel} {i : Option Idp} {out : Out} {o : Obs} : statusOk (.resp sel i) out o = true :=
  statusOk_not_slo (by intro a b c d h; cases h)

theorem soapOnly_sub {l : List Sent} {x : Sent} (h : x ∈ soapOnly l) : x ∈ l := by
  unfold soapOnly at h
  exact (List.mem_filter.mp h).1

/-- `do_logout` before its deadline: runs the loop, leaves the cache alone. -/
theorem doLogout_live {s : Subj} {cell : Nat} {expire : Option Int} (h : deadlinePassed st.now expire = false) :
    ∃ ls out, doLogout cfg st s cell expire = ({ st with pending := ls.pending }, out) ∧
      LoopPost cfg st.db st.now st.stepNo s cell expire (heapGet st.heap cell)
        ⟨st.pending, heapGet st.heap cell, []⟩ ls ∧
      (∀ x ∈ emitted out, x ∈ ls.sent) ∧ (∀ l, out = .sent l → l = ls.sent) := by
  have hpost := sloLoop_post cfg st.db st.now st.stepNo s cell expire (heapGet st.heap cell)
    ⟨st.pending, heapGet st.heap cell, []⟩
  unfold doLogout
  simp only [h]
  generalize sloLoop cfg st.db st.now st.stepNo s cell expire (heapGet st.heap cell)
    ⟨st.pending, heapGet st.heap cell, []⟩ = r at hpost
  obtain ⟨ls, err⟩ := r
  cases err with
  | some e =>
    refine ⟨ls, .error e (soapOnly ls.sent), by simp, hpost, ?_, by intro l h; cases h⟩
    intro x hx; exact soapOnly_sub hx
  | none =>
    by_cases hnd : ls.notDone.isEmpty = true
    · exact ⟨ls, .sent ls.sent, by simp [hnd], hpost, fun x hx => hx, by intro l h; cases h; rfl⟩
    · refine ⟨ls, .error .logout (soapOnly ls.sent), by simp [hnd], hpost, ?_, by intro l h; cases h⟩
      intro x hx; exact soapOnly_sub hx

theorem doLogout_last (cfg : Cfg) (st : St) (s : Subj) (cell : Nat) (expire : Option Int) :
    (doLogout cfg st s cell expire).1.last = st.last := by
  unfold doLogout
  split
  · unfold localLogout
    cases cacheDelete st.db s <;> rfl
  · simp only
    split
    · rfl
    · split <;> rfl

theorem request_of_post {p : Plan} {out : Out} {s : Subj} {o : Nat} {expire : Option Int} {es nd : List Idp}
    {P0 : List (ReqId × Rec)} {ls : LoopSt} (hinv : Inv st g)
    (hpost : LoopPost cfg st.db st.now st.stepNo s o expire es ⟨P0, nd, []⟩ ls)
    (hem : ∀ x ∈ emitted out, x ∈ ls.sent) (hsoi : p.soi = some s) (hall : ∀ j ∈ es, j ∈ p.allowed) :
    requestOk cfg g p out = true := by
  unfold requestOk
  rw [List.all_eq_true]
  intro r hr
  rcases hpost.sent r (hem r hr) with h | ⟨h1, h2, h3, h4, h5⟩
  · cases h
  · have hs : p.soi = some r.subj := by rw [h3]; exact hsoi
    have hstep : r.id.step = g.stepNo := by rw [hinv.stepNo]; exact h1
    have hal : r.id.idp ∈ p.allowed := hall _ h2
    simp only [hs, hstep, hal, h4, decide_true, Bool.true_and]
    cases hsx : r.sidx with
    | none => rfl
    | some n =>
      simp only [Option.isNone_some, Bool.false_or]
      rw [hsx] at h5
      unfold sessionIndexOf at h5
      cases hg : cacheGet st.db st.now s r.id.idp false with
      | keyError => simp [hg] at h5
      | tooOld => simp [hg] at h5
      | empty => simp [hg] at h5
      | info x =>
        simp [hg] at h5
        obtain ⟨e, he, hx, _⟩ := cacheGet_info hg
        obtain ⟨hmem, _⟩ := hinv.live s r.id.idp e x he hx
        apply List.any_eq_true.mpr
        refine ⟨⟨s, r.id.idp, x⟩, hmem, ?_⟩
        simp [h3, h5]

theorem removed_of_post {p : Plan} {st' : St} {s : Subj} {o : Nat} {expire : Option Int} {es nd : List Idp}
    {P0 : List (ReqId × Rec)} {ls : LoopSt}
    (hpost : LoopPost cfg st.db st.now st.stepNo s o expire es ⟨P0, nd, []⟩ ls)
    (hP0 : ∀ rid ∈ Dict.keys st.pending, rid ∈ Dict.keys P0 ∨ p.consumed = some rid)
    (hpend : st'.pending = ls.pending) : pendingRemovedOk p (obsOf st) (obsOf st') = true := by
  unfold pendingRemovedOk
  rw [List.all_eq_true]
  intro rid hr
  simp only [obsOf] at hr ⊢
  rcases hP0 rid hr with h | h
  · have h2 : rid ∈ Dict.keys st'.pending := by rw [hpend]; exact hpost.keys rid h
    simp [h2]
  · simp [h]

theorem added_of_post {p : Plan} {st' : St} {s : Subj} {o : Nat} {expire : Option Int} {es nd : List Idp}
    {P0 : List (ReqId × Rec)} {ls : LoopSt} (hinv : Inv st g)
    (hpost : LoopPost cfg st.db st.now st.stepNo s o expire es ⟨P0, nd, []⟩ ls)
    (hP0 : ∀ rid rec, Dict.get? rid P0 = some rec → Dict.get? rid st.pending = some rec)
    (hpend : st'.pending = ls.pending) (hopId : p.opId.isSome = true) (hall : ∀ j ∈ es, j ∈ p.allowed) :
    pendingAddedOk g p (obsOf st) (obsOf st') = true := by
  unfold pendingAddedOk
  rw [List.all_eq_true]
  intro rid hr
  simp only [obsOf] at hr ⊢
  rw [hpend] at hr
  obtain ⟨rec, hrec⟩ := (Dict.mem_keys_iff _ _).mp hr
  rcases hpost.new rid rec hrec with h | ⟨h1, h2, _⟩
  · have := Dict.mem_keys_of_get? (hP0 rid rec h)
    simp [this]
  · have hstep : rid.step = g.stepNo := by rw [hinv.stepNo]; exact h1
    simp [hstep, hopId, hall _ h2]

theorem sentPending_of_post {out : Out} {st' : St} {s : Subj} {o : Nat} {expire : Option Int} {es nd : List Idp}
    {P0 : List (ReqId × Rec)} {ls : LoopSt}
    (hpost : LoopPost cfg st.db st.now st.stepNo s o expire es ⟨P0, nd, []⟩ ls)
    (hsent : ∀ l, out = .sent l → l = ls.sent) (hpend : st'.pending = ls.pending) :
    sentPendingOk out (obsOf st') = true := by
  cases out with
  | sent l =>
    have hl := hsent l rfl
    subst hl
    simp only [sentPendingOk, obsOf]
    rw [List.all_eq_true]
    intro r hr
    rcases hpost.pend r hr with h | h | h
    · cases h
    · simp [h]
    · have : r.id ∈ Dict.keys st'.pending := by rw [hpend]; exact h
      simp [this]
  | _ => rfl

theorem heapGet_below {h : List (Nat × List Idp)} {n c : Nat} {l : List Idp} (hc : c < n) :
    heapGet (Dict.set n l h) c = heapGet h c :=
  heapGet_set_other _ _ (by omega)

/-- A `do_logout` pass before the deadline (shared by `global_logout` and the re-entry from
    `handle_logout_response`): `P0` is the pending table it starts from, `o` the list object, `es` its content. -/
theorem ok_loop {op : Op} {P0 : List (ReqId × Rec)} {o : Nat} {es : List Idp} {s : Subj} {expire : Option Int}
    {p : Plan} {gop' : GOp} (hinv : Inv st g)
    (hdl : deadlinePassed st.now expire = false)
    (hstepEq : step cfg st op =
      ({ (doLogout cfg { now := st.now, db := st.db, pending := P0, heap := Dict.set o es st.heap, last := st.last,
                         stepNo := st.stepNo } s o expire).1 with stepNo := st.stepNo + 1, last := lastAfter st op },
       (doLogout cfg { now := st.now, db := st.db, pending := P0, heap := Dict.set o es st.heap, last := st.last,
                       stepNo := st.stepNo } s o expire).2))
    (hp : ∀ out, planOf false cfg g (obsOf st) op out = p)
    (hsoi : p.soi = some s) (hexp : p.expect ≠ .ends) (hopId : p.opId = some o) (hall : p.allowed = es)
    (hops : p.ops = Dict.set o gop' g.ops) (hgop : gop'.remaining = es ∧ gop'.subj = s ∧ gop'.expire = expire)
    (ho : o ≤ st.stepNo)
    (hP0 : ∀ rid rec, Dict.get? rid P0 = some rec → Dict.get? rid st.pending = some rec)
    (hP0k : ∀ rid ∈ Dict.keys st.pending, rid ∈ Dict.keys P0 ∨ p.consumed = some rid)
    (hold : ∀ rid rec, Dict.get? rid P0 = some rec → rec.cell = o → rec.subj = s ∧ rec.expire = expire)
    (hnotslo : ∀ a b c d, op ≠ .slo a b c d) (hnow : nowAfter st op = st.now)
    (hread : ∀ out, readOk g (readCheck op) op out = true)
    (hgone : ∀ rid, p.consumed = some rid → Dict.get? rid P0 = none ∧ rid.step < st.stepNo) : StepOk cfg st g op := by
  obtain ⟨ls, out, hdo, hpost, hem, hsent⟩ := doLogout_live (cfg := cfg)
    (st := { now := st.now, db := st.db, pending := P0, heap := Dict.set o es st.heap, last := st.last, stepNo := st.stepNo })
    (s := s) (cell := o) (expire := expire) hdl
  simp only [heapGet_set_self] at hpost
  rw [hdo] at hstepEq
  simp only at hstepEq
  refine step_assemble (st' := _) (out := out) p hinv hstepEq (hp out) (hread := hread out) (hshape := Or.inl rfl)
    (hends := fun s0 _ he => absurd he hexp)
    (hrem := removed_of_post (st := st) hpost hP0k rfl)
    (hadd := added_of_post (st := st) hinv hpost hP0 rfl (by simp [hopId]) (fun _ h => by rw [hall]; exact h))
    (hgone := ?_) (hsp := sentPending_of_post (st := st) hpost hsent rfl)
    (hreq := request_of_post (st := st) hinv hpost hem hsoi (fun _ h => by rw [hall]; exact h))
    (hstat := statusOk_not_slo hnotslo) (hnow := hnow.symm) (hlast := rfl) (hstep := rfl)
    (hpend := ?_)
  · cases hc : p.consumed with
    | none => exact gone_none hc
    | some rid =>
      obtain ⟨h1, h2⟩ := hgone rid hc
      refine gone_of_not_mem hc ?_
      simp only
      rw [hpost.keep rid (by omega)]
      exact h1
  · rw [hops]
    exact pendInv_loop (st := st) hinv ho hopId hP0 hpost rfl rfl rfl hgop hold

theorem ok_logout (hinv : Inv st g) (s : Subj) (expire : Option Int) : StepOk cfg st g (.logout s expire) := by
  cases hm : Dict.get? s st.db with
  | none =>
    have hns : ¬ s ∈ Dict.keys st.db := (Dict.not_mem_keys_iff _ _).mpr hm
    exact ok_read (out := .error .key []) hinv (by simp [step, stepCore, globalLogout, hm])
      (by simp [planOf, obsOf, hns]) rfl rfl statusOk_logout rfl rfl
  | some m =>
    have hs : s ∈ Dict.keys st.db := Dict.mem_keys_of_get? hm
    have hinvl : (Dict.get? s (obsOf st).sources).getD [] = Dict.keys m := by
      simp [obsOf, sources_get?, hm]
    cases hdl : deadlinePassed st.now expire with
    | true =>
      have hcd : cacheDelete st.db s = some (Dict.del s st.db) := by simp [cacheDelete, hm]
      exact step_assemble
        (st' := { st with db := Dict.del s st.db, heap := Dict.set st.stepNo (Dict.keys m) st.heap, stepNo := st.stepNo + 1 })
        (out := .timeout) { soi := some s, expect := .ends, ops := g.ops } hinv
        (hstepEq := by simp [step, stepCore, globalLogout, hm, doLogout, hdl, localLogout, hcd])
        (hp := by simp [planOf, obsOf, hs, hinv.now, hdl])
        (hread := rfl)
        (hshape := Or.inr (Or.inl ⟨s, rfl, Or.inl rfl, rfl⟩))
        (hends := by intro s0 h _; cases h; simp [Dict.mem_keys_del])
        (hrem := removed_same rfl) (hadd := added_same rfl) (hgone := gone_none rfl) (hsp := rfl) (hreq := request_nil rfl)
        (hstat := rfl) (hnow := rfl) (hlast := rfl) (hstep := rfl)
        (hpend := pendInv_sub hinv rfl (fun _ _ h => h) (fun c hc => heapGet_below hc) rfl)
    | false =>
      have hsub : s ∈ (obsOf st).subjects := hs
      refine ok_loop (P0 := st.pending) (o := st.stepNo) (es := Dict.keys m) (s := s) (expire := expire)
        (p := { soi := some s, expect := if (Dict.keys m).isEmpty then .free else .same, soapFlag := false,
                opId := some g.stepNo, allowed := Dict.keys m,
                ops := Dict.set g.stepNo { subj := s, remaining := Dict.keys m, expire := expire, soap := false } g.ops })
        (gop' := { subj := s, remaining := Dict.keys m, expire := expire, soap := false })
        hinv hdl ?_ ?_ rfl ?_ (by simp [hinv.stepNo]) rfl (by simp [hinv.stepNo]) ⟨rfl, rfl, rfl⟩ (Nat.le_refl _)
        (fun _ _ h => h) (fun _ h => Or.inl h) ?_ (by intro a b c d h; cases h) rfl (fun _ => rfl)
        (by intro rid h; cases h)
      · simp [step, stepCore, globalLogout, hm, lastAfter]
        exact doLogout_last _ _ _ _ _
      · intro out
        simp only [planOf, hsub, if_true, hinv.now, hdl, hinvl, soapAnswered]
        cases hk : (Dict.keys m).isEmpty <;> simp [removeAll_nil, hk]
      · simp only
        split <;> simp
      · intro rid rec hr hc
        have := (hinv.pend rid rec hr).2.1
        omega


/-! ### handle_logout_response -/

theorem planOf_resp {cs : Bool} {before : Obs} {sel : Sel} {issuer : Option Idp} {out : Out} {rid : ReqId} {o : Nat}
    {gop : GOp} (hres : resolve before.pending g.last sel = some rid) (hmem : rid ∈ before.pending)
    (hro : Dict.get? rid g.reqOp = some o) (hgo : Dict.get? o g.ops = some gop) :
    planOf cs cfg g before (.resp sel issuer) out =
      if issuerOf (some rid) issuer ∈ gop.remaining then
        if (gop.remaining.erase (issuerOf (some rid) issuer)).isEmpty then
          { soi := some gop.subj, expect := .ends, soapFlag := gop.soap, opId := some o, consumed := some rid,
            ops := Dict.set o { gop with remaining := [] } g.ops }
        else if deadlinePassed g.now gop.expire then
          { soi := some gop.subj, expect := .ends, soapFlag := gop.soap, opId := some o, consumed := some rid,
            ops := Dict.set o { gop with remaining := gop.remaining.erase (issuerOf (some rid) issuer) } g.ops }
        else
          { soi := some gop.subj,
            expect := if (removeAll (gop.remaining.erase (issuerOf (some rid) issuer)) (soapAnswered cs cfg out)).isEmpty
                      then .ends else .same,
            soapFlag := gop.soap || !(soapAnswered cs cfg out).isEmpty, opId := some o,
            allowed := gop.remaining.erase (issuerOf (some rid) issuer), consumed := some rid,
            ops := Dict.set o { gop with
              remaining := removeAll (gop.remaining.erase (issuerOf (some rid) issuer)) (soapAnswered cs cfg out),
              soap := gop.soap || !(soapAnswered cs cfg out).isEmpty } g.ops }
      else { soi := some gop.subj, expect := .free, soapFlag := gop.soap, opId := some o, consumed := some rid,
             ops := g.ops } := by
  simp only [planOf, hres, hmem, hro, hgo, if_true, Option.bind_some, Option.map_some]

theorem handleResponse_done_some {rid : ReqId} {rec : Rec} {x : Idp} {db' : Db}
    (hrec : Dict.get? rid st.pending = some rec) (hL : heapGet st.heap rec.cell = [x])
    (hd : cacheDelete st.db rec.subj = some db') :
    handleResponse cfg st (some rid) x = ({ st with pending := Dict.del rid st.pending, db := db' }, .done) := by
  simp [handleResponse, hrec, hL, localLogout, hd]

theorem handleResponse_done_none {rid : ReqId} {rec : Rec} {x : Idp}
    (hrec : Dict.get? rid st.pending = some rec) (hL : heapGet st.heap rec.cell = [x])
    (hd : cacheDelete st.db rec.subj = none) :
    handleResponse cfg st (some rid) x = ({ st with pending := Dict.del rid st.pending }, .error .key []) := by
  simp [handleResponse, hrec, hL, localLogout, hd]

theorem handleResponse_cont {rid : ReqId} {rec : Rec} {x : Idp}
    (hrec : Dict.get? rid st.pending = some rec) (hL : heapGet st.heap rec.cell ≠ [x])
    (hx : x ∈ heapGet st.heap rec.cell) :
    handleResponse cfg st (some rid) x =
      doLogout cfg { st with pending := Dict.del rid st.pending,
                             heap := Dict.set rec.cell ((heapGet st.heap rec.cell).erase x) st.heap }
        rec.subj rec.cell rec.expire := by
  simp [handleResponse, hrec, hL, hx]

theorem handleResponse_value {rid : ReqId} {rec : Rec} {x : Idp}
    (hrec : Dict.get? rid st.pending = some rec) (hL : heapGet st.heap rec.cell ≠ [x])
    (hx : ¬ x ∈ heapGet st.heap rec.cell) :
    handleResponse cfg st (some rid) x = ({ st with pending := Dict.del rid st.pending }, .error .value []) := by
  simp [handleResponse, hrec, hL, hx]

theorem removed_del {p : Plan} {st' : St} {rid : ReqId} (hc : p.consumed = some rid)
    (hpending : st'.pending = Dict.del rid st.pending) : pendingRemovedOk p (obsOf st) (obsOf st') = true := by
  unfold pendingRemovedOk
  rw [List.all_eq_true]
  intro r hr
  simp only [obsOf] at hr ⊢
  by_cases h : r = rid
  · subst h; simp [hc]
  · have : r ∈ Dict.keys st'.pending := by rw [hpending]; exact (Dict.mem_keys_del _ _ _).mpr ⟨h, hr⟩
    simp [this]

theorem added_del {p : Plan} {st' : St} {rid : ReqId}
    (hpending : st'.pending = Dict.del rid st.pending) : pendingAddedOk g p (obsOf st) (obsOf st') = true := by
  unfold pendingAddedOk
  rw [List.all_eq_true]
  intro r hr
  simp only [obsOf] at hr ⊢
  rw [hpending] at hr
  have := ((Dict.mem_keys_del _ _ _).mp hr).2
  simp [this]

theorem get?_del_sub {rid r : ReqId} {rec : Rec} {P : List (ReqId × Rec)} (h : Dict.get? r (Dict.del rid P) = some rec) :
    Dict.get? r P = some rec := by
  by_cases hr : r = rid
  · subst hr; rw [Dict.get?_del_self] at h; cases h
  · rw [Dict.get?_del_other hr] at h; exact h


theorem step_resp_eq (sel : Sel) (issuer : Option Idp) :
    step cfg st (.resp sel issuer) =
      ({ (handleResponse cfg st (resolve (Dict.keys st.pending) st.last sel)
            (issuerOf (resolve (Dict.keys st.pending) st.last sel) issuer)).1 with
          last := resolve (Dict.keys st.pending) st.last sel, stepNo := st.stepNo + 1 },
       (handleResponse cfg st (resolve (Dict.keys st.pending) st.last sel)
            (issuerOf (resolve (Dict.keys st.pending) st.last sel) issuer)).2) := by
  simp [step, stepCore]

theorem ok_resp (hinv : Inv st g) (sel : Sel) (issuer : Option Idp) : StepOk cfg st g (.resp sel issuer) := by
  have hstepEq := step_resp_eq (cfg := cfg) (st := st) sel issuer
  have hres' : resolve (obsOf st).pending g.last sel = resolve (Dict.keys st.pending) st.last sel := by
    simp [obsOf, hinv.last]
  cases hres : resolve (Dict.keys st.pending) st.last sel with
  | none =>
    rw [hres] at hstepEq hres'
    exact ok_nochange (st' := { st with last := none, stepNo := st.stepNo + 1 }) (out := .error .key []) hinv
      (by rw [hstepEq]; simp [handleResponse]) (by simp [planOf, hres']) rfl rfl statusOk_resp rfl rfl rfl rfl
      (by simp [lastAfter, hres]) rfl
  | some rid =>
    rw [hres] at hstepEq hres'
    cases hrec : Dict.get? rid st.pending with
    | none =>
      have hnm : ¬ rid ∈ (obsOf st).pending := (Dict.not_mem_keys_iff _ _).mpr hrec
      exact ok_nochange (st' := { st with last := some rid, stepNo := st.stepNo + 1 }) (out := .error .key []) hinv
        (by rw [hstepEq]; simp [handleResponse, hrec]) (by simp [planOf, hres', hnm]) rfl rfl statusOk_resp rfl rfl rfl rfl
        (by simp [lastAfter, hres]) rfl
    | some rec =>
      have hmem : rid ∈ (obsOf st).pending := Dict.mem_keys_of_get? hrec
      obtain ⟨h1, h2, h3, gop, h4, h5, h6, h7⟩ := hinv.pend rid rec hrec
      have hplan := fun out => planOf_resp (cfg := cfg) (g := g) (cs := false) (issuer := issuer) (out := out) hres' hmem h3 h4
      generalize hx : issuerOf (some rid) issuer = x at hstepEq hplan
      have hlastA : lastAfter st (.resp sel issuer) = some rid := by simp [lastAfter, hres]
      have hsubP : ∀ r rec', Dict.get? r (Dict.del rid st.pending) = some rec' → Dict.get? r st.pending = some rec' :=
        fun _ _ h => get?_del_sub h
      by_cases hLx : heapGet st.heap rec.cell = [x]
      · -- the model takes the "done" branch
        have hfree_or_ends : ∃ p : Plan, (∀ out, planOf false cfg g (obsOf st) (.resp sel issuer) out = p) ∧
            p.soi = some rec.subj ∧ (p.expect = .ends ∨ p.expect = .free) ∧ p.consumed = some rid ∧
            (∀ st' : St, st'.pending = Dict.del rid st.pending → st'.heap = st.heap → st'.stepNo = st.stepNo + 1 →
              PendInv st' p.ops (reqOpNext g p (Dict.keys st'.pending))) := by
          rcases h7 with h7 | ⟨h7, y, hy⟩
          · -- the operation still waits for exactly x
            have hxr : x ∈ gop.remaining := by rw [h7, hLx]; simp
            have hemp : (gop.remaining.erase x).isEmpty = true := (erase_eq_nil_iff hxr).mpr (by rw [h7, hLx])
            refine ⟨{ soi := some gop.subj, expect := .ends, soapFlag := gop.soap, opId := some rec.cell,
                      consumed := some rid, ops := Dict.set rec.cell { gop with remaining := [] } g.ops },
              fun out => by rw [hplan out]; simp only [hxr, hemp, if_true], congrArg some h5, Or.inl rfl, rfl, ?_⟩
            intro st' hp' hh' hs'
            exact pendInv_done hinv h4 hLx (fun r rec' h => hsubP r rec' (by rw [hp'] at h; exact h)) hh' hs'
          · -- the operation is complete already
            have hxr : ¬ x ∈ gop.remaining := by rw [h7]; simp
            refine ⟨{ soi := some gop.subj, expect := .free, soapFlag := gop.soap, opId := some rec.cell,
                      consumed := some rid, ops := g.ops },
              fun out => by rw [hplan out]; simp only [hxr, if_false], congrArg some h5, Or.inr rfl, rfl, ?_⟩
            intro st' hp' hh' hs'
            exact pendInv_sub hinv rfl (fun r rec' h => hsubP r rec' (by rw [hp'] at h; exact h))
              (fun _ _ => by rw [hh']) hs'
        obtain ⟨p, hp, hsoi, hexp, hcons, hpendInv⟩ := hfree_or_ends
        cases hd : cacheDelete st.db rec.subj with
        | some db' =>
          obtain ⟨hdb, _⟩ := cacheDelete_some hd
          subst hdb
          rw [handleResponse_done_some hrec hLx hd] at hstepEq
          exact step_assemble (st' := _) (out := .done) p hinv hstepEq (hp _) (hread := rfl)
            (hshape := Or.inr (Or.inl ⟨rec.subj, hsoi, hexp, rfl⟩))
            (hends := by intro s0 h _; rw [hsoi] at h; cases h; simp [Dict.mem_keys_del])
            (hrem := removed_del hcons rfl) (hadd := added_del rfl)
            (hgone := gone_of_not_mem hcons (Dict.get?_del_self _ _)) (hsp := rfl) (hreq := request_nil rfl)
            (hstat := statusOk_resp) (hnow := rfl) (hlast := hlastA.symm) (hstep := rfl)
            (hpend := hpendInv _ rfl rfl rfl)
        | none =>
          have hnk := cacheDelete_none hd
          rw [handleResponse_done_none hrec hLx hd] at hstepEq
          exact step_assemble (st' := _) (out := .error .key []) p hinv hstepEq (hp _) (hread := rfl)
            (hshape := Or.inl rfl)
            (hends := by intro s0 h _; rw [hsoi] at h; cases h; exact hnk)
            (hrem := removed_del hcons rfl) (hadd := added_del rfl)
            (hgone := gone_of_not_mem hcons (Dict.get?_del_self _ _)) (hsp := rfl) (hreq := request_nil rfl)
            (hstat := statusOk_resp) (hnow := rfl) (hlast := hlastA.symm) (hstep := rfl)
            (hpend := hpendInv _ rfl rfl rfl)
      · by_cases hxL : x ∈ heapGet st.heap rec.cell
        · -- the model removes x from the list object and re-enters do_logout
          rw [handleResponse_cont hrec hLx hxL] at hstepEq
          have hrem7 : gop.remaining = heapGet st.heap rec.cell := by
            rcases h7 with h7 | ⟨_, y, hy⟩
            · exact h7
            · exfalso
              rw [hy] at hxL hLx
              simp at hxL
              exact hLx (by rw [hxL])
          have hxr : x ∈ gop.remaining := by rw [hrem7]; exact hxL
          have hemp : (gop.remaining.erase x).isEmpty = false := by
            cases he : (gop.remaining.erase x).isEmpty with
            | false => rfl
            | true => exact absurd (hrem7 ▸ (erase_eq_nil_iff hxr).mp he) hLx
          have hold : ∀ r rec', Dict.get? r (Dict.del rid st.pending) = some rec' → rec'.cell = rec.cell →
              rec'.subj = rec.subj ∧ rec'.expire = rec.expire := by
            intro r rec' hr hc
            obtain ⟨_, _, _, gop2, k4, k5, k6, _⟩ := hinv.pend r rec' (hsubP r rec' hr)
            rw [hc, h4] at k4
            cases k4
            exact ⟨k5.symm.trans h5, k6.symm.trans h6⟩
          cases hdl : deadlinePassed st.now rec.expire with
          | true =>
            have hdlg : deadlinePassed g.now gop.expire = true := by rw [hinv.now, h6]; exact hdl
            have hp : ∀ out, planOf false cfg g (obsOf st) (.resp sel issuer) out =
                { soi := some gop.subj, expect := .ends, soapFlag := gop.soap, opId := some rec.cell, consumed := some rid,
                  ops := Dict.set rec.cell { gop with remaining := gop.remaining.erase x } g.ops } := by
              intro out; rw [hplan out]; simp only [hxr, hemp, hdlg, if_true, if_false, Bool.false_eq_true]
            have hpi : ∀ st' : St, st'.pending = Dict.del rid st.pending →
                st'.heap = Dict.set rec.cell (gop.remaining.erase x) st.heap → st'.stepNo = st.stepNo + 1 →
                PendInv st' (Dict.set rec.cell { gop with remaining := gop.remaining.erase x } g.ops)
                  (reqOpNext g { soi := some gop.subj, expect := .ends, soapFlag := gop.soap, opId := some rec.cell,
                                 consumed := some rid,
                                 ops := Dict.set rec.cell { gop with remaining := gop.remaining.erase x } g.ops }
                    (Dict.keys st'.pending)) := by
              intro st' hp' hh' hs'
              exact pendInv_loop (cfg := cfg) (st := st) (s := rec.subj) (expire := rec.expire) (nd := [])
                (ls := ⟨Dict.del rid st.pending, [], []⟩) hinv (Nat.le_of_lt h2) rfl hsubP (LoopPost.refl _ _)
                hp' hh' hs' ⟨rfl, h5, h6⟩ hold
            cases hd : cacheDelete st.db rec.subj with
            | some db' =>
              obtain ⟨hdb, _⟩ := cacheDelete_some hd
              subst hdb
              have : doLogout cfg { st with pending := Dict.del rid st.pending,
                                            heap := Dict.set rec.cell ((heapGet st.heap rec.cell).erase x) st.heap }
                  rec.subj rec.cell rec.expire =
                  ({ st with pending := Dict.del rid st.pending, db := Dict.del rec.subj st.db,
                             heap := Dict.set rec.cell ((heapGet st.heap rec.cell).erase x) st.heap }, .timeout) := by
                simp [doLogout, hdl, localLogout, hd]
              rw [this] at hstepEq
              exact step_assemble (st' := _) (out := .timeout) _ hinv hstepEq (hp _) (hread := rfl)
                (hshape := Or.inr (Or.inl ⟨rec.subj, by rw [h5], Or.inl rfl, rfl⟩))
                (hends := by intro s0 h _; simp only [h5] at h; cases h; simp [Dict.mem_keys_del])
                (hrem := removed_del rfl rfl) (hadd := added_del rfl)
                (hgone := gone_of_not_mem rfl (Dict.get?_del_self _ _)) (hsp := rfl) (hreq := request_nil rfl)
                (hstat := statusOk_resp) (hnow := rfl) (hlast := hlastA.symm) (hstep := rfl)
                (hpend := hpi _ rfl (by rw [hrem7]) rfl)
            | none =>
              have hnk := cacheDelete_none hd
              have : doLogout cfg { st with pending := Dict.del rid st.pending,
                                            heap := Dict.set rec.cell ((heapGet st.heap rec.cell).erase x) st.heap }
                  rec.subj rec.cell rec.expire =
                  ({ st with pending := Dict.del rid st.pending,
                             heap := Dict.set rec.cell ((heapGet st.heap rec.cell).erase x) st.heap }, .error .key []) := by
                simp [doLogout, hdl, localLogout, hd]
              rw [this] at hstepEq
              exact step_assemble (st' := _) (out := .error .key []) _ hinv hstepEq (hp _) (hread := rfl)
                (hshape := Or.inl rfl)
                (hends := by intro s0 h _; simp only [h5] at h; cases h; exact hnk)
                (hrem := removed_del rfl rfl) (hadd := added_del rfl)
                (hgone := gone_of_not_mem rfl (Dict.get?_del_self _ _)) (hsp := rfl) (hreq := request_nil rfl)
                (hstat := statusOk_resp) (hnow := rfl) (hlast := hlastA.symm) (hstep := rfl)
                (hpend := hpi _ rfl (by rw [hrem7]) rfl)
          | false =>
            have hdlg : deadlinePassed g.now gop.expire = false := by rw [hinv.now, h6]; exact hdl
            refine ok_loop (P0 := Dict.del rid st.pending) (o := rec.cell) (es := gop.remaining.erase x) (s := rec.subj)
              (expire := rec.expire)
              (p := { soi := some gop.subj, expect := .same, soapFlag := gop.soap, opId := some rec.cell,
                      allowed := gop.remaining.erase x, consumed := some rid,
                      ops := Dict.set rec.cell { gop with remaining := gop.remaining.erase x } g.ops })
              (gop' := { gop with remaining := gop.remaining.erase x })
              hinv hdl ?_ ?_ (by rw [h5]) (by simp) rfl rfl rfl ⟨rfl, h5, h6⟩ (Nat.le_of_lt h2) hsubP ?_ hold
              (by intro a b c d h; cases h) rfl (fun _ => rfl)
              (by intro r h; cases h; exact ⟨Dict.get?_del_self _ _, h1⟩)
            · rw [hstepEq, hlastA, hrem7]
            · intro out
              rw [hplan out]
              simp only [hxr, hemp, hdlg, if_true, if_false, Bool.false_eq_true, soapAnswered, removeAll_nil,
                List.isEmpty_nil, Bool.not_true, Bool.or_false]
            · intro r hr
              by_cases h : r = rid
              · exact Or.inr (by rw [h])
              · exact Or.inl ((Dict.mem_keys_del _ _ _).mpr ⟨h, hr⟩)
        · -- `list.remove(x)` raises ValueError
          rw [handleResponse_value hrec hLx hxL] at hstepEq
          have hxr : ¬ x ∈ gop.remaining := by
            rcases h7 with h7 | ⟨h7, _⟩
            · rw [h7]; exact hxL
            · rw [h7]; simp
          exact step_assemble (st' := _) (out := .error .value [])
            { soi := some gop.subj, expect := .free, soapFlag := gop.soap, opId := some rec.cell, consumed := some rid,
              ops := g.ops } hinv hstepEq
            (by rw [hplan]; simp only [hxr, if_false]) (hread := rfl) (hshape := Or.inl rfl)
            (hends := by intro s0 _ h; cases h)
            (hrem := removed_del rfl rfl) (hadd := added_del rfl)
                (hgone := gone_of_not_mem rfl (Dict.get?_del_self _ _)) (hsp := rfl) (hreq := request_nil rfl)
            (hstat := statusOk_resp) (hnow := rfl) (hlast := hlastA.symm) (hstep := rfl)
            (hpend := pendInv_sub hinv rfl hsubP (fun _ _ => rfl) rfl)

/-- Every operation preserves the invariant and satisfies the specification. -/
theorem step_ok (cfg : Cfg) {st : St} {g : Ghost} (hinv : Inv st g) (op : Op) : StepOk cfg st g op := by
  cases op with
  | login l => exact ok_login hinv l
  | identity s ents check => exact ok_identity hinv s ents check
  | info s i check => exact ok_info hinv s i check
  | stale s srcs => exact ok_stale hinv s srcs
  | advance dt => exact ok_advance hinv dt
  | reset s i => exact ok_reset hinv s i
  | logout s expire => exact ok_logout hinv s expire
  | resp sel issuer => exact ok_resp hinv sel issuer
  | slo named current b j => exact ok_slo hinv named current b j

end Session
