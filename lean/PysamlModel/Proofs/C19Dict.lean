/-
  C19 helper lemmas, part 1: Python-dictionary association lists and the cache functions of
  Model/Session.lean.  No property statements here (those are in Props/C19.lean).
-/
import PysamlModel.Model.Session

namespace Session
namespace Dict
variable {κ : Type} [DecidableEq κ] {β : Type}

theorem get?_set_self (k : κ) (v : β) (l : List (κ × β)) : get? k (set k v l) = some v := by
  induction l with
  | nil => simp [set, get?]
  | cons p t ih =>
    obtain ⟨k', v'⟩ := p
    by_cases h : k' = k
    · simp [set, get?, h]
    · simp [set, get?, h, ih]

theorem get?_set_other {k k' : κ} (h : k' ≠ k) (v : β) (l : List (κ × β)) : get? k' (set k v l) = get? k' l := by
  induction l with
  | nil => simp [set, get?, Ne.symm h]
  | cons p t ih =>
    obtain ⟨k2, v2⟩ := p
    by_cases h2 : k2 = k
    · subst h2
      simp [set, get?, Ne.symm h]
    · by_cases h3 : k2 = k'
      · subst h3; simp [set, get?, h2]
      · simp [set, get?, h2, h3, ih]

theorem get?_del_self (k : κ) (l : List (κ × β)) : get? k (del k l) = none := by
  induction l with
  | nil => simp [del, get?]
  | cons p t ih =>
    obtain ⟨k', v'⟩ := p
    simp only [del] at ih ⊢
    by_cases h : k' = k
    · simp [List.filter_cons, h, ih]
    · simp [List.filter_cons, h, get?, ih]

theorem get?_del_other {k k' : κ} (h : k' ≠ k) (l : List (κ × β)) : get? k' (del k l) = get? k' l := by
  induction l with
  | nil => simp [del, get?]
  | cons p t ih =>
    obtain ⟨k2, v2⟩ := p
    simp only [del] at ih ⊢
    by_cases h2 : k2 = k
    · subst h2
      simp [List.filter_cons, get?, Ne.symm h, ih]
    · by_cases h3 : k2 = k'
      · subst h3; simp [List.filter_cons, h2, get?]
      · simp [List.filter_cons, h2, get?, h3, ih]

theorem mem_keys_iff (k : κ) (l : List (κ × β)) : k ∈ keys l ↔ ∃ v, get? k l = some v := by
  induction l with
  | nil => simp [keys, get?]
  | cons p t ih =>
    obtain ⟨k', v'⟩ := p
    by_cases h : k' = k
    · subst h; simp [keys, get?]
    · have ih' : k ∈ List.map (fun x => x.1) t ↔ ∃ v, get? k t = some v := ih
      simp [keys, get?, h, Ne.symm h, ih']

theorem not_mem_keys_iff (k : κ) (l : List (κ × β)) : k ∉ keys l ↔ get? k l = none := by
  rw [mem_keys_iff]
  cases get? k l <;> simp

theorem mem_keys_of_get? {k : κ} {v : β} {l : List (κ × β)} (h : get? k l = some v) : k ∈ keys l :=
  (mem_keys_iff k l).mpr ⟨v, h⟩

theorem mem_keys_set (k k' : κ) (v : β) (l : List (κ × β)) : k' ∈ keys (set k v l) ↔ k' = k ∨ k' ∈ keys l := by
  rw [mem_keys_iff, mem_keys_iff]
  by_cases h : k' = k
  · subst h; simp [get?_set_self]
  · simp [get?_set_other h, h]

theorem mem_keys_del (k k' : κ) (l : List (κ × β)) : k' ∈ keys (del k l) ↔ k' ≠ k ∧ k' ∈ keys l := by
  rw [mem_keys_iff, mem_keys_iff]
  by_cases h : k' = k
  · subst h; simp [get?_del_self]
  · simp [get?_del_other h, h]

theorem get?_mem {k : κ} {v : β} {l : List (κ × β)} (h : get? k l = some v) : (k, v) ∈ l := by
  induction l with
  | nil => simp [get?] at h
  | cons p t ih =>
    obtain ⟨k', v'⟩ := p
    by_cases h2 : k' = k
    · subst h2; simp [get?] at h; simp [h]
    · simp [get?, h2] at h; exact List.mem_cons_of_mem _ (ih h)

theorem mem_set {k : κ} {v : β} {l : List (κ × β)} {p : κ × β} (h : p ∈ set k v l) : p = (k, v) ∨ p ∈ l := by
  induction l with
  | nil => simp [set] at h; exact Or.inl h
  | cons q t ih =>
    obtain ⟨k', v'⟩ := q
    by_cases h2 : k' = k
    · subst h2
      simp [set] at h
      rcases h with h | h
      · exact Or.inl h
      · exact Or.inr (List.mem_cons_of_mem _ h)
    · simp [set, h2] at h
      rcases h with h | h
      · exact Or.inr (by simp [h])
      · rcases ih h with h | h
        · exact Or.inl h
        · exact Or.inr (List.mem_cons_of_mem _ h)

theorem get?_map_snd {γ : Type} (f : β → γ) (k : κ) (l : List (κ × β)) :
    get? k (l.map (fun p => (p.1, f p.2))) = (get? k l).map f := by
  induction l with
  | nil => simp [get?]
  | cons p t ih =>
    obtain ⟨k', v'⟩ := p
    by_cases h : k' = k
    · simp [get?, h]
    · simp [get?, h, ih]

end Dict

/-! ### cache -/

/-- `self._db[cni][entity_id]` -/
def entryAt (db : Db) (s : Subj) (i : Idp) : Option Entry := (Dict.get? s db).bind (Dict.get? i)

theorem cacheGet_eq (db : Db) (now : Int) (s : Subj) (i : Idp) (check : Bool) :
    cacheGet db now s i check =
      match entryAt db s i with
      | none => .keyError
      | some e => if check && after now e.ts then .tooOld else match e.info with
        | none => .empty
        | some x => .info x := by
  unfold cacheGet entryAt
  cases Dict.get? s db with
  | none => rfl
  | some m =>
    cases h : Dict.get? i m with
    | none => simp [h]
    | some e =>
      simp only [h, Option.bind_some]
      by_cases hc : (check && after now e.ts) = true
      · simp [hc]
      · simp only [hc]
        cases e.info <;> rfl

theorem entryAt_cacheSet_self (db : Db) (s : Subj) (i : Idp) (e : Entry) : entryAt (cacheSet db s i e) s i = some e := by
  simp [entryAt, cacheSet, Dict.get?_set_self]

theorem entryAt_cacheSet_other (db : Db) (s s' : Subj) (i i' : Idp) (e : Entry) (h : ¬ (s' = s ∧ i' = i)) :
    entryAt (cacheSet db s i e) s' i' = entryAt db s' i' := by
  unfold entryAt cacheSet
  by_cases hs : s' = s
  · subst hs
    have hi : i' ≠ i := fun e => h ⟨rfl, e⟩
    rw [Dict.get?_set_self]
    cases hm : Dict.get? s' db with
    | none => simp [Dict.get?_set_other hi, Dict.get?]
    | some m => simp [Dict.get?_set_other hi]
  · rw [Dict.get?_set_other hs]

theorem entryAt_del_self (db : Db) (s : Subj) (i : Idp) : entryAt (Dict.del s db) s i = none := by
  simp [entryAt, Dict.get?_del_self]

theorem entryAt_del_other (db : Db) {s s' : Subj} (i : Idp) (h : s' ≠ s) : entryAt (Dict.del s db) s' i = entryAt db s' i := by
  simp [entryAt, Dict.get?_del_other h]

theorem mem_keys_of_entryAt {db : Db} {s : Subj} {i : Idp} {e : Entry} (h : entryAt db s i = some e) : s ∈ Dict.keys db := by
  unfold entryAt at h
  cases hm : Dict.get? s db with
  | none => simp [hm] at h
  | some m => exact Dict.mem_keys_of_get? hm

theorem mem_keys_cacheSet (db : Db) (s s' : Subj) (i : Idp) (e : Entry) :
    s' ∈ Dict.keys (cacheSet db s i e) ↔ s' = s ∨ s' ∈ Dict.keys db := by
  unfold cacheSet; exact Dict.mem_keys_set _ _ _ _

theorem get?_cacheSet_other (db : Db) {s s' : Subj} (i : Idp) (e : Entry) (h : s' ≠ s) :
    Dict.get? s' (cacheSet db s i e) = Dict.get? s' db := by
  unfold cacheSet; exact Dict.get?_set_other h _ _

theorem get?_cacheSet_self (db : Db) (s : Subj) (i : Idp) (e : Entry) :
    Dict.get? s (cacheSet db s i e) = some (Dict.set i e ((Dict.get? s db).getD [])) := by
  unfold cacheSet; exact Dict.get?_set_self _ _ _

theorem cacheDelete_some {db db' : Db} {s : Subj} (h : cacheDelete db s = some db') : db' = Dict.del s db ∧ s ∈ Dict.keys db := by
  unfold cacheDelete at h
  cases hm : Dict.get? s db with
  | none => simp [hm] at h
  | some m => simp [hm] at h; exact ⟨h.symm, Dict.mem_keys_of_get? hm⟩

theorem cacheDelete_none {db : Db} {s : Subj} (h : cacheDelete db s = none) : s ∉ Dict.keys db := by
  unfold cacheDelete at h
  cases hm : Dict.get? s db with
  | none => exact (Dict.not_mem_keys_iff _ _).mpr hm
  | some m => simp [hm] at h

theorem mem_dedup (x : Nat) (l : List Nat) : x ∈ dedup l ↔ x ∈ l := by
  induction l with
  | nil => simp [dedup]
  | cons a t ih =>
    unfold dedup
    by_cases h : a ∈ t
    · simp only [h, if_true, ih, List.mem_cons]
      constructor
      · exact Or.inr
      · rintro (rfl | h') <;> assumption
    · simp [h, ih]

end Session
