/-
  Inversion of the successful path of the second entry point, `Sp.processFactory`
  (`saml2.response.authn_response(...)` + `loads()` + `verify()`, Model/SpFactory.lean).
  The property theorems for it (`*_factory` in Props/C01.lean, C04.lean, C05.lean, C06.lean) are corollaries
  of the same `loads` / `verify`-level lemmas the `process` versions are corollaries of.
-/
import PysamlModel.Proofs.Sp
import PysamlModel.Model.SpFactory

namespace Sp

/-- The successful path of `processFactory`, taken apart: the single `loads` (Response signature not
    required) succeeded, the single `verify` (with `require_signature = want_assertions_signed`) returned
    a result, and what is reported is read from that result. -/
theorem processFactory_identity_inv {cfg : Cfg} {env : Env} {r : Response} {o : Reported}
    (h : processFactory cfg env r = .identity o) :
    ∃ cf p,
      loads cfg env false r = .ok cf ∧
      verify cfg env cfg.wantAssert { cameFrom := cf } r = .ok (some p) ∧
      ∃ a rest s srest, p.used = a :: rest ∧ a.authn = s :: srest ∧
        o = { nameId := p.st.nameId, issuer := pyStrip (r.issuer.getD ""), cameFrom := p.st.cameFrom,
              notOnOrAfter := if p.st.sessionNooa > 0 then p.st.sessionNooa else p.st.notOnOrAfter,
              sessionIndex := s.sessionIndex, cached := false } := by
  unfold processFactory at h
  split at h
  · cases h
  next cf hl =>
    split at h
    · cases h
    · cases h
    next p hv =>
      split at h
      · cases h
      next a rest hused =>
        split at h
        next s srest hauthn =>
          cases h
          exact ⟨cf, p, hl, hv, a, rest, s, srest, hused, hauthn, rfl⟩
        · cases h

/-- The reporting facts of `processFactory_identity_inv`, field by field. -/
theorem processFactory_reported {cfg : Cfg} {env : Env} {r : Response} {o : Reported}
    (h : processFactory cfg env r = .identity o) :
    ∃ cf p, loads cfg env false r = .ok cf ∧
      verify cfg env cfg.wantAssert { cameFrom := cf } r = .ok (some p) ∧
      o.cameFrom = p.st.cameFrom ∧ o.nameId = p.st.nameId ∧ o.cached = false ∧
      o.issuer = pyStrip (r.issuer.getD "") ∧
      o.notOnOrAfter = (if p.st.sessionNooa > 0 then p.st.sessionNooa else p.st.notOnOrAfter) := by
  obtain ⟨cf, p, hl, hv, _, _, _, _, _, _, ho⟩ := processFactory_identity_inv h
  subst ho
  exact ⟨cf, p, hl, hv, rfl, rfl, rfl, rfl, rfl⟩

/-- `response_factory(...)` + `verify()` yields identity only if `authn_response()` + `loads()` + `verify()` does,
    with the same report: every `*_factory` theorem transfers. -/
theorem processRespFactory_identity {cfg : Cfg} {env : Env} {r : Response} {o : Reported}
    (h : processRespFactory cfg env r = .identity o) :
    loadsStatus r = .ok () ∧ processFactory cfg env r = .identity o := by
  unfold processRespFactory at h
  split at h
  · cases h
  next u hl => exact ⟨hl, h⟩

/-- The successful path of `processRespFactory`, taken apart. -/
theorem processRespFactory_identity_inv {cfg : Cfg} {env : Env} {r : Response} {o : Reported}
    (h : processRespFactory cfg env r = .identity o) :
    ∃ cf p,
      loads cfg env false r = .ok cf ∧
      verify cfg env cfg.wantAssert { cameFrom := cf } r = .ok (some p) ∧
      ∃ a rest s srest, p.used = a :: rest ∧ a.authn = s :: srest ∧
        o = { nameId := p.st.nameId, issuer := pyStrip (r.issuer.getD ""), cameFrom := p.st.cameFrom,
              notOnOrAfter := if p.st.sessionNooa > 0 then p.st.sessionNooa else p.st.notOnOrAfter,
              sessionIndex := s.sessionIndex, cached := false } :=
  processFactory_identity_inv (processRespFactory_identity h).2

/-- The first load adds nothing the second does not test: on every message the two entry points agree. -/
theorem processRespFactory_eq (cfg : Cfg) (env : Env) (r : Response) :
    processRespFactory cfg env r = processFactory cfg env r := by
  unfold processRespFactory loadsStatus
  by_cases hbad : (r.sig.present && r.sig != .valid) = true
  · rw [if_pos hbad]
    unfold processFactory loads
    rw [if_pos hbad]
  · rw [if_neg hbad]

end Sp
