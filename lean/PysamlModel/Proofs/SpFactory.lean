/-
  Inversion of the successful path of the second entry point, `Sp.processFactory`
  (`saml2.response.authn_response(...)` + `loads()` + `verify()`, Model/SpFactory.lean).
  The property theorems for it (`*_factory` in Props/C01.lean, C04.lean, C05.lean, C06.lean) are corollaries
  of the same `loads` / `verify`-level lemmas the `process` versions are corollaries of.
-/
import PysamlModel.Proofs.Sp
import PysamlModel.Model.SpFactory

namespace Sp

/-- The successful path of `processFactory`, taken apart: the single `loads` (Response signature not
    required) succeeded, the single `verify` (with `require_signature = want_assertions_signed`) returned
    a result, and what is reported is read from that result. -/
theorem processFactory_identity_inv {cfg : Cfg} {env : Env} {r : Response} {o : Reported}
    (h : processFactory cfg env r = .identity o) :
    ∃ cf p,
      loads cfg env false r = .ok cf ∧
      verify cfg env cfg.wantAssert { cameFrom := cf } r = .ok (some p) ∧
      ∃ a rest s srest, p.used = a :: rest ∧ a.authn = s :: srest ∧
        o = { nameId := p.st.nameId, issuer := pyStrip (r.issuer.getD ""), cameFrom := p.st.cameFrom,
              notOnOrAfter := if p.st.sessionNooa > 0 then p.st.sessionNooa else p.st.notOnOrAfter,
              sessionIndex := s.sessionIndex, cached := false } := by
  unfold processFactory at h
  split at h
  · cases h
  next cf hl =>
    split at h
    · cases h
    · cases h
    next p hv =>
      split at h
      · cases h
      next a rest hused =>
        split at h
        next s srest hauthn =>
          cases h
          exact ⟨cf, p, hl, hv, a, rest, s, srest, hused, hauthn, rfl⟩
        · cases h

/-- The reporting facts of `processFactory_identity_inv`, field by field. -/
theorem processFactory_reported {cfg : Cfg} {env : Env} {r : Response} {o : Reported}
    (h : processFactory cfg env r = .identity o) :
    ∃ cf p, loads cfg env false r = .ok cf ∧
      verify cfg env cfg.wantAssert { cameFrom := cf } r = .ok (some p) ∧
      o.cameFrom = p.st.cameFrom ∧ o.nameId = p.st.nameId ∧ o.cached = false ∧
      o.issuer = pyStrip (r.issuer.getD "") ∧
      o.notOnOrAfter = (if p.st.sessionNooa > 0 then p.st.sessionNooa else p.st.notOnOrAfter) := by
  obtain ⟨cf, p, hl, hv, _, _, _, _, _, _, ho⟩ := processFactory_identity_inv h
  subst ho
  exact ⟨cf, p, hl, hv, rfl, rfl, rfl, rfl, rfl⟩

/-- The successful path of `processRespFactory` (`response_factory(...)` + `verify()`), taken apart. -/
theorem processRespFactory_identity_inv {cfg : Cfg} {env : Env} {r : Response} {o : Reported}
    (h : processRespFactory cfg env r = .identity o) :
    ∃ p,
      loadsStatus r = .ok () ∧
      verify cfg env cfg.wantAssert {} r = .ok (some p) ∧
      ∃ a rest s srest, p.used = a :: rest ∧ a.authn = s :: srest ∧
        o = { nameId := p.st.nameId, issuer := pyStrip (r.issuer.getD ""), cameFrom := p.st.cameFrom,
              notOnOrAfter := if p.st.sessionNooa > 0 then p.st.sessionNooa else p.st.notOnOrAfter,
              sessionIndex := s.sessionIndex, cached := false } := by
  unfold processRespFactory at h
  split at h
  · cases h
  next u hl =>
    split at h
    · cases h
    · cases h
    next p hv =>
      split at h
      · cases h
      next a rest hused =>
        split at h
        next s srest hauthn =>
          cases h
          exact ⟨p, hl, hv, a, rest, s, srest, hused, hauthn, rfl⟩
        · cases h

end Sp
