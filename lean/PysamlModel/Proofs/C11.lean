/-
  C11 — helper lemmas about the metadata-store model (Lean core only).
-/
import PysamlModel.Model.MdStore
import PysamlModel.Spec.C11

namespace MdStore
variable {α : Type} [DecidableEq α]

/-! ### dictionaries -/

theorem has_eq_isSome (m : EntMap α) (id : α) : has m id = (lookup m id).isSome := by
  unfold has lookup
  induction m with
  | nil => rfl
  | cons p rest ih =>
    simp only [List.any_cons, List.find?_cons]
    by_cases h : p.1 = id <;> simp [h, ih]

theorem lookup_none_of_not_has {m : EntMap α} {id : α} (h : has m id = false) : lookup m id = none := by
  rw [has_eq_isSome] at h
  cases hl : lookup m id with
  | none => rfl
  | some _ => rw [hl] at h; cases h

theorem lookup_append (m n : EntMap α) (id : α) :
    lookup (m ++ n) id = (lookup m id).or (lookup n id) := by
  unfold lookup
  rw [List.find?_append]
  cases List.find? (fun p => decide (p.1 = id)) m <;> simp

theorem lookup_singleton (k : α) (e : Ent α) (id : α) :
    lookup [(k, e)] id = if k = id then some e else none := by
  unfold lookup
  by_cases h : k = id <;> simp [h]

theorem lookup_mem {m : EntMap α} {id : α} {e : Ent α} (h : lookup m id = some e) : (id, e) ∈ m := by
  unfold lookup at h
  simp only [Option.map_eq_some_iff] at h
  obtain ⟨p, hp, rfl⟩ := h
  have hmem := List.mem_of_find?_eq_some hp
  have hk : p.1 = id := by simpa using List.find?_some hp
  rw [← hk]
  exact hmem

theorem has_of_mem {m : EntMap α} {id : α} {e : Ent α} (h : (id, e) ∈ m) : has m id = true := by
  unfold has
  exact List.any_eq_true.mpr ⟨(id, e), h, by simp⟩

theorem has_iff_mem_keys (m : EntMap α) (id : α) : has m id = true ↔ id ∈ m.map (·.1) := by
  unfold has
  simp only [List.any_eq_true, decide_eq_true_eq, List.mem_map]

theorem has_erase (m : EntMap α) (id id' : α) : has (erase m id) id' = (has m id' && !decide (id' = id)) := by
  unfold has erase
  induction m with
  | nil => rfl
  | cons p rest ih =>
    simp only [List.filter_cons, List.any_cons]
    by_cases h : p.1 = id <;> by_cases h' : p.1 = id' <;> grind

theorem lookup_erase_ne (m : EntMap α) {id id' : α} (h : id' ≠ id) : lookup (erase m id) id' = lookup m id' := by
  unfold lookup erase
  induction m with
  | nil => rfl
  | cons p rest ih =>
    by_cases h1 : p.1 = id <;> by_cases h2 : p.1 = id' <;> grind

theorem mem_erase {m : EntMap α} {id : α} {p : α × Ent α} : p ∈ erase m id ↔ p ∈ m ∧ p.1 ≠ id := by
  unfold erase
  simp [List.mem_filter]

/-! ### one document -/

/-- An entity of a document that is current and has a descriptor left after the protocol filter. -/
def eligible (chk : Bool) (now : Int) (p2 : α) (e : Ent α) : Bool :=
  !(chk && expired now e.validUntil) && (prepEnt p2 e).isSome

theorem lookup_doEntity (chk : Bool) (now : Int) (p2 : α) (m : EntMap α) (e : Ent α) (id : α) :
    lookup (doEntity chk now p2 m e) id =
      (lookup m id).or (if e.id = id ∧ eligible chk now p2 e = true then prepEnt p2 e else none) := by
  unfold doEntity eligible
  by_cases hx : (chk && expired now e.validUntil) = true
  · simp [hx]
  · simp only [hx, Bool.false_eq_true, ↓reduceIte, Bool.not_false, Bool.true_and, Bool.not_eq_true]
    by_cases hh : has m e.id = true
    · simp only [hh, ↓reduceIte]
      by_cases hid : e.id = id
      · subst hid
        rw [has_eq_isSome] at hh
        cases hl : lookup m e.id with
        | none => rw [hl] at hh; cases hh
        | some x => simp
      · simp [hid]
    · simp only [hh, Bool.false_eq_true, ↓reduceIte]
      cases hp : prepEnt p2 e with
      | none => simp
      | some d =>
        simp only [lookup_append, lookup_singleton, Option.isSome_some, and_true]

theorem lookup_foldl_doEntity (chk : Bool) (now : Int) (p2 : α) (es : List (Ent α)) (m : EntMap α) (id : α) :
    lookup (es.foldl (doEntity chk now p2) m) id =
      (lookup m id).or ((es.find? (fun e => decide (e.id = id) && eligible chk now p2 e)).bind (prepEnt p2)) := by
  induction es generalizing m with
  | nil => simp
  | cons e rest ih =>
    rw [List.foldl_cons, ih, lookup_doEntity, List.find?_cons]
    by_cases h : e.id = id ∧ eligible chk now p2 e = true
    · obtain ⟨h1, h2⟩ := h
      have hsome : (prepEnt p2 e).isSome = true := by
        unfold eligible at h2; simp only [Bool.and_eq_true] at h2; exact h2.2
      cases hp : prepEnt p2 e with
      | none => rw [hp] at hsome; cases hsome
      | some d => cases lookup m id <;> simp [h1, h2, hp]
    · have : (decide (e.id = id) && eligible chk now p2 e) = false := by
        by_cases h1 : e.id = id
        · have : eligible chk now p2 e = false := by
            cases he : eligible chk now p2 e with
            | false => rfl
            | true => exact absurd ⟨h1, he⟩ h
          simp [this]
        · simp [h1]
      simp [h, this]


theorem prepEnt_some {p2 : α} {e e' : Ent α} (h : prepEnt p2 e = some e') :
    e' = { e with roles := e.roles.filter (saml2 p2) } ∧ e.roles.filter (saml2 p2) ≠ [] := by
  unfold prepEnt at h
  simp only at h
  split at h
  · cases h
  · next hne =>
    cases h
    refine ⟨rfl, ?_⟩
    intro h0; rw [h0] at hne; exact hne rfl

theorem mem_iff_lookup_of_nodup {m : EntMap α} (hn : (m.map (·.1)).Nodup) (id : α) (e : Ent α) :
    (id, e) ∈ m ↔ lookup m id = some e := by
  constructor
  · intro hmem
    induction m with
    | nil => cases hmem
    | cons p rest ih =>
      simp only [List.map_cons, List.nodup_cons] at hn
      unfold lookup
      rw [List.find?_cons]
      rcases List.mem_cons.mp hmem with h | h
      · subst h; simp
      · have hne : ¬ p.1 = id := by
          intro heq
          apply hn.1
          rw [heq]
          exact List.mem_map.mpr ⟨(id, e), h, rfl⟩
        simp only [hne, decide_false]
        exact ih hn.2 h
  · exact lookup_mem

theorem doEntity_nodup (chk : Bool) (now : Int) (p2 : α) (m : EntMap α) (e : Ent α)
    (hn : (m.map (·.1)).Nodup) : ((doEntity chk now p2 m e).map (·.1)).Nodup := by
  unfold doEntity
  split
  · exact hn
  · split
    · exact hn
    · next hh =>
      split
      · exact hn
      · rw [List.map_append, List.nodup_append]
        refine ⟨hn, by simp, ?_⟩
        intro a ha b hb hab
        simp only [List.map_cons, List.map_nil, List.mem_singleton] at hb
        subst hb
        subst hab
        exact hh ((has_iff_mem_keys m _).mpr ha)

theorem foldl_doEntity_nodup (chk : Bool) (now : Int) (p2 : α) (es : List (Ent α)) (m : EntMap α)
    (hn : (m.map (·.1)).Nodup) : ((es.foldl (doEntity chk now p2) m).map (·.1)).Nodup := by
  induction es generalizing m with
  | nil => exact hn
  | cons e rest ih => exact ih _ (doEntity_nodup chk now p2 m e hn)

theorem parseDoc_nodup {chk : Bool} {now : Int} {p2 : α} {m m' : EntMap α} {d : Doc α}
    (h : parseDoc chk now p2 m d = .ok m') (hn : (m.map (·.1)).Nodup) : (m'.map (·.1)).Nodup := by
  unfold parseDoc at h
  split at h
  · split at h
    · cases h
    · cases h; exact foldl_doEntity_nodup chk now p2 _ m hn
  · split at h
    · cases h; exact doEntity_nodup chk now p2 m _ hn
    · cases h; exact hn

/-- the entities of a document `parse` looks at -/
def docEntities (d : Doc α) : List (Ent α) := if d.group then d.entities else d.entities.take 1

theorem lookup_parseDoc {chk : Bool} {now : Int} {p2 : α} {m m' : EntMap α} {d : Doc α}
    (h : parseDoc chk now p2 m d = .ok m') (id : α) :
    lookup m' id = (lookup m id).or
      (((docEntities d).find? (fun e => decide (e.id = id) && eligible chk now p2 e)).bind (prepEnt p2)) := by
  unfold parseDoc at h
  unfold docEntities
  split at h
  · next hg =>
    split at h
    · cases h
    · cases h; simp only [hg, ↓reduceIte]; exact lookup_foldl_doEntity chk now p2 _ m id
  · next hg =>
    simp only [hg, Bool.false_eq_true, ↓reduceIte]
    split at h
    · next e rest he =>
      cases h
      rw [he]
      have := lookup_foldl_doEntity chk now p2 [e] m id
      simpa using this
    · next he =>
      cases h
      simp [he]


/-! ### a source that was given a `filter` -/

/-- a filter that keeps everything unchanged is no filter -/
theorem doEntityF_some (chk : Bool) (now : Int) (p2 : α) (m : EntMap α) (e : Ent α) :
    doEntityF some chk now p2 m e = doEntity chk now p2 m e := by
  unfold doEntityF doEntity
  cases prepEnt p2 e <;> rfl

theorem foldl_doEntityF_some (chk : Bool) (now : Int) (p2 : α) (es : List (Ent α)) (m : EntMap α) :
    es.foldl (doEntityF some chk now p2) m = es.foldl (doEntity chk now p2) m := by
  induction es generalizing m with
  | nil => rfl
  | cons e rest ih => rw [List.foldl_cons, List.foldl_cons, doEntityF_some, ih]

theorem parseDocF_some (chk : Bool) (now : Int) (p2 : α) (m : EntMap α) (d : Doc α) :
    parseDocF some chk now p2 m d = parseDoc chk now p2 m d := by
  unfold parseDocF parseDoc
  simp only [foldl_doEntityF_some, doEntityF_some]

/-- what `do_entity_descriptor` with a filter `g` stores for an entity: the filter's answer on the
    entity restricted to its SAML 2.0 descriptors -/
def servedF (g : Ent α → Option (Ent α)) (p2 : α) (e : Ent α) : Option (Ent α) := (prepEnt p2 e).bind g

def eligibleF (g : Ent α → Option (Ent α)) (chk : Bool) (now : Int) (p2 : α) (e : Ent α) : Bool :=
  !(chk && expired now e.validUntil) && (servedF g p2 e).isSome

theorem mem_doEntityF {g : Ent α → Option (Ent α)} {chk : Bool} {now : Int} {p2 : α} {m : EntMap α} {e : Ent α}
    {p : α × Ent α} (h : p ∈ doEntityF g chk now p2 m e) :
    p ∈ m ∨ (p.1 = e.id ∧ servedF g p2 e = some p.2 ∧ (chk = true → expired now e.validUntil = false)) := by
  unfold doEntityF at h
  split at h
  · left; exact h
  · next hx =>
    split at h
    · left; exact h
    · split at h
      · left; exact h
      · next d hd =>
        split at h
        · left; exact h
        · next d' hd' =>
          rcases List.mem_append.mp h with h | h
          · left; exact h
          · right
            simp only [List.mem_singleton] at h
            subst h
            refine ⟨rfl, by simp [servedF, hd, hd'], ?_⟩
            intro hchk
            simp only [hchk, Bool.true_and, Bool.not_eq_true] at hx
            exact hx

theorem mem_foldl_doEntityF {g : Ent α → Option (Ent α)} {chk : Bool} {now : Int} {p2 : α} (es : List (Ent α))
    (m : EntMap α) {p : α × Ent α} (h : p ∈ es.foldl (doEntityF g chk now p2) m) :
    p ∈ m ∨ ∃ e ∈ es, p.1 = e.id ∧ servedF g p2 e = some p.2 ∧ (chk = true → expired now e.validUntil = false) := by
  induction es generalizing m with
  | nil => left; exact h
  | cons e rest ih =>
    rcases ih _ h with h1 | ⟨x, hx, rest'⟩
    · rcases mem_doEntityF h1 with h2 | h2
      · left; exact h2
      · right; exact ⟨e, List.mem_cons_self .., h2⟩
    · right; exact ⟨x, List.mem_cons_of_mem _ hx, rest'⟩

theorem mem_parseDocF {g : Ent α → Option (Ent α)} {chk : Bool} {now : Int} {p2 : α} {m m' : EntMap α} {d : Doc α}
    (h : parseDocF g chk now p2 m d = .ok m') {p : α × Ent α} (hp : p ∈ m') :
    p ∈ m ∨ ∃ e ∈ d.entities, p.1 = e.id ∧ servedF g p2 e = some p.2 ∧ (chk = true → expired now e.validUntil = false) := by
  unfold parseDocF at h
  split at h
  · split at h
    · cases h
    · cases h; exact mem_foldl_doEntityF _ _ hp
  · split at h
    · next e rest he =>
      cases h
      rcases mem_doEntityF hp with h1 | h1
      · left; exact h1
      · right; exact ⟨e, by rw [he]; exact List.mem_cons_self .., h1⟩
    · cases h; left; exact hp

theorem has_append (m n : EntMap α) (id : α) : has (m ++ n) id = (has m id || has n id) := by
  simp [has]

/-- the entityIDs listed only grow, and an entity that is current and that the filter keeps is
    listed afterwards (under its entityID) -/
theorem has_doEntityF (g : Ent α → Option (Ent α)) (chk : Bool) (now : Int) (p2 : α) (m : EntMap α) (e : Ent α) (id : α) :
    has (doEntityF g chk now p2 m e) id = (has m id || (decide (e.id = id) && eligibleF g chk now p2 e)) := by
  unfold doEntityF eligibleF servedF
  by_cases hx : (chk && expired now e.validUntil) = true
  · simp [hx]
  · simp only [hx, Bool.false_eq_true, ↓reduceIte, Bool.not_false, Bool.true_and]
    by_cases hh : has m e.id = true
    · simp only [hh, ↓reduceIte]
      by_cases hid : e.id = id
      · subst hid; simp [hh]
      · simp [hid]
    · simp only [hh, Bool.false_eq_true, ↓reduceIte]
      cases hp : prepEnt p2 e with
      | none => simp
      | some d =>
        cases hg : g d with
        | none => simp [hg]
        | some d' => simp [hg, has]

theorem has_foldl_doEntityF (g : Ent α → Option (Ent α)) (chk : Bool) (now : Int) (p2 : α) (es : List (Ent α))
    (m : EntMap α) (id : α) :
    has (es.foldl (doEntityF g chk now p2) m) id =
      (has m id || es.any (fun e => decide (e.id = id) && eligibleF g chk now p2 e)) := by
  induction es generalizing m with
  | nil => simp
  | cons e rest ih => rw [List.foldl_cons, ih, has_doEntityF, List.any_cons, Bool.or_assoc]

theorem has_parseDocF {g : Ent α → Option (Ent α)} {chk : Bool} {now : Int} {p2 : α} {m m' : EntMap α} {d : Doc α}
    (h : parseDocF g chk now p2 m d = .ok m') (id : α) :
    has m' id = (has m id || (docEntities d).any (fun e => decide (e.id = id) && eligibleF g chk now p2 e)) := by
  unfold parseDocF at h
  unfold docEntities
  split at h
  · next hg =>
    split at h
    · cases h
    · cases h; simp only [hg, ↓reduceIte]; exact has_foldl_doEntityF g chk now p2 _ m id
  · next hg =>
    simp only [hg, Bool.false_eq_true, ↓reduceIte]
    split at h
    · next e rest he =>
      cases h
      rw [he]
      have := has_foldl_doEntityF g chk now p2 [e] m id
      simpa using this
    · next he => cases h; simp [he]

theorem doEntityF_nodup (g : Ent α → Option (Ent α)) (chk : Bool) (now : Int) (p2 : α) (m : EntMap α) (e : Ent α)
    (hn : (m.map (·.1)).Nodup) : ((doEntityF g chk now p2 m e).map (·.1)).Nodup := by
  unfold doEntityF
  split
  · exact hn
  · split
    · exact hn
    · next hh =>
      split
      · exact hn
      · split
        · exact hn
        · rw [List.map_append, List.nodup_append]
          refine ⟨hn, by simp, ?_⟩
          intro a ha b hb hab
          simp only [List.map_cons, List.map_nil, List.mem_singleton] at hb
          subst hb
          subst hab
          exact hh ((has_iff_mem_keys m _).mpr ha)

theorem parseDocF_nodup {g : Ent α → Option (Ent α)} {chk : Bool} {now : Int} {p2 : α} {m m' : EntMap α} {d : Doc α}
    (h : parseDocF g chk now p2 m d = .ok m') (hn : (m.map (·.1)).Nodup) : (m'.map (·.1)).Nodup := by
  have fold : ∀ (es : List (Ent α)) (m : EntMap α), (m.map (·.1)).Nodup →
      ((es.foldl (doEntityF g chk now p2) m).map (·.1)).Nodup := by
    intro es
    induction es with
    | nil => intro m hm; exact hm
    | cons e rest ih => intro m hm; exact ih _ (doEntityF_nodup g chk now p2 m e hm)
  unfold parseDocF at h
  split at h
  · split at h
    · cases h
    · cases h; exact fold _ m hn
  · split at h
    · cases h; exact doEntityF_nodup g chk now p2 m _ hn
    · cases h; exact hn

/-- the filter a source specification carries, as a function (`none` = no filter = keep as is) -/
def specFilt (sp : SrcSpec α) : Ent α → Option (Ent α) :=
  match sp.filt with
  | none => some
  | some f => applyFilt f

theorem parseSrc_eq (sp : SrcSpec α) (now : Int) (p2 : α) (d : Doc α) :
    parseSrc sp now p2 d = parseDocF (specFilt sp) sp.chk now p2 [] d := by
  unfold parseSrc specFilt
  cases sp.filt with
  | none => simp only [parseDocF_some]
  | some f => rfl

theorem servedF_some (p2 : α) (e : Ent α) : servedF some p2 e = prepEnt p2 e := by
  unfold servedF; cases prepEnt p2 e <;> rfl


/-! ### the pinned code and the reference coincide on clean inputs -/

theorem checkSig_code_eq_ideal (k : SrcKind) (cert : Bool) (s : Sig) (h : ¬ (cert = true ∧ s = .unsigned)) :
    checkSig Policy.code k cert s = checkSig Policy.ideal k cert s := by
  unfold checkSig
  cases cert <;> cases s <;> simp_all

theorem loadSource_code_eq_ideal {sp : SrcSpec α} (hc : specClean sp = true) (p2 : α) (now : Int) :
    loadSource Policy.code p2 now sp = loadSource Policy.ideal p2 now sp := by
  unfold loadSource
  unfold specClean at hc
  cases hf : sp.fetch with
  | unavailable => rfl
  | malformed => rfl
  | doc d =>
    rw [hf] at hc
    simp only [Bool.not_eq_true', Bool.and_eq_false_iff, decide_eq_false_iff_not] at hc
    simp only
    rw [checkSig_code_eq_ideal]
    rintro ⟨h1, h2⟩
    rcases hc with h | h
    · rw [h1] at h; cases h
    · exact h h2

theorem impFrom_code_eq_ideal (specs : List (SrcSpec α)) (hc : specs.all specClean = true)
    (p2 : α) (now : Int) (st : Store α) :
    impFrom Policy.code p2 now st specs = impFrom Policy.ideal p2 now st specs := by
  induction specs generalizing st with
  | nil => rfl
  | cons sp rest ih =>
    simp only [List.all_cons, Bool.and_eq_true] at hc
    unfold impFrom
    rw [loadSource_code_eq_ideal hc.1 p2 now]
    cases loadSource Policy.ideal p2 now sp with
    | error _ => rfl
    | ok s => exact ih hc.2 _

theorem reload_code_eq_ideal (specs : List (SrcSpec α)) (hc : specs.all specClean = true)
    (p2 : α) (now : Int) (st : Store α) :
    reload Policy.code p2 now st specs = reload Policy.ideal p2 now st specs := by
  unfold reload
  rw [impFrom_code_eq_ideal specs hc p2 now]

/-- the MDQ answer is one on which code and reference behave alike -/
def fetchClean (cert : Bool) (f : Fetch α) : Prop :=
  ∀ d, f = .doc d → cert = true → d.sig ≠ .unsigned

theorem mdxFetch_code_eq_ideal {s : Source α} {resp : Fetch α} (hc : fetchClean s.cert resp)
    (p2 : α) (now : Int) (eid : α) (ents : EntMap α) :
    mdxFetch Policy.code p2 now resp { s with entities := ents } eid =
      mdxFetch Policy.ideal p2 now resp { s with entities := ents } eid := by
  unfold mdxFetch
  cases resp with
  | unavailable => rfl
  | malformed => rfl
  | doc d =>
    have h1 := hc d rfl
    simp only
    cases parseDoc s.chk now p2 ents d with
    | error _ => rfl
    | ok m =>
      simp only
      rw [checkSig_code_eq_ideal .mdq s.cert d.sig (fun h => h1 h.1 h.2)]
      rfl

theorem mdxGet_code_eq_ideal {s : Source α} {resp : Fetch α} (hc : fetchClean s.cert resp)
    (p2 : α) (now : Int) (eid : α) :
    mdxGet Policy.code p2 now resp s eid = mdxGet Policy.ideal p2 now resp s eid := by
  unfold mdxGet
  have h0 := mdxFetch_code_eq_ideal hc p2 now eid s.entities
  have h1 := mdxFetch_code_eq_ideal hc p2 now eid (erase s.entities eid)
  have e0 : ({ s with entities := s.entities } : Source α) = s := rfl
  rw [e0] at h0
  rw [h0, h1]


def srcClean (c : Consts α) (mdq : α → α → Fetch α) (s : Source α) : Prop :=
  s.kind = .mdq → ∀ eid, fetchClean s.cert (mdq s.key eid)

theorem srcGet_code_eq_ideal {c : Consts α} {mdq : α → α → Fetch α} {s : Source α} (hc : srcClean c mdq s)
    (now : Int) (eid : α) :
    srcGet ⟨Policy.code, c, now, mdq⟩ s eid = srcGet ⟨Policy.ideal, c, now, mdq⟩ s eid := by
  unfold srcGet
  by_cases hk : s.kind = .mdq
  · simp only [hk, ↓reduceIte]
    exact mdxGet_code_eq_ideal (hc hk eid) c.p2 now eid
  · simp only [hk, ↓reduceIte]

theorem getItem_code_eq_ideal {c : Consts α} {mdq : α → α → Fetch α} (now : Int) (eid : α) (st : Store α)
    (hc : ∀ s ∈ st, srcClean c mdq s) :
    getItem ⟨Policy.code, c, now, mdq⟩ eid st = getItem ⟨Policy.ideal, c, now, mdq⟩ eid st := by
  induction st with
  | nil => rfl
  | cons s rest ih =>
    unfold getItem
    rw [srcGet_code_eq_ideal (hc s (List.mem_cons_self ..)), ih (fun x hx => hc x (List.mem_cons_of_mem _ hx))]

theorem serviceLoop_code_eq_ideal {c : Consts α} {mdq : α → α → Fetch α} (now : Int) (eid : α) (k : Kind) (svc : α)
    (b : Option α) (st : Store α) (known : Bool) (hc : ∀ s ∈ st, srcClean c mdq s) :
    serviceLoop ⟨Policy.code, c, now, mdq⟩ eid k svc b st known =
      serviceLoop ⟨Policy.ideal, c, now, mdq⟩ eid k svc b st known := by
  induction st generalizing known with
  | nil => rfl
  | cons s rest ih =>
    unfold serviceLoop
    rw [srcGet_code_eq_ideal (hc s (List.mem_cons_self ..))]
    have ih' := fun kn => ih kn (fun x hx => hc x (List.mem_cons_of_mem _ hx))
    simp only [ih']

theorem attrReqLoop_code_eq_ideal {c : Consts α} {mdq : α → α → Fetch α} (now : Int) (eid : α) (st : Store α)
    (hc : ∀ s ∈ st, srcClean c mdq s) :
    attrReqLoop ⟨Policy.code, c, now, mdq⟩ eid st = attrReqLoop ⟨Policy.ideal, c, now, mdq⟩ eid st := by
  induction st with
  | nil => rfl
  | cons s rest ih =>
    unfold attrReqLoop
    rw [srcGet_code_eq_ideal (hc s (List.mem_cons_self ..)), ih (fun x hx => hc x (List.mem_cons_of_mem _ hx))]

theorem query_code_eq_ideal {c : Consts α} {mdq : α → α → Fetch α} (now : Int) (st : Store α)
    (hc : ∀ s ∈ st, srcClean c mdq s) (q : Query α) :
    query ⟨Policy.code, c, now, mdq⟩ st q = query ⟨Policy.ideal, c, now, mdq⟩ st q := by
  cases q <;> simp only [query, getItem_code_eq_ideal now _ st hc, serviceLoop_code_eq_ideal now _ _ _ _ st _ hc,
    attrReqLoop_code_eq_ideal now _ st hc]

theorem mdqFn_mem (l : List (MdqResp α)) (src eid : α) :
    mdqFn l src eid = .unavailable ∨ ∃ r ∈ l, r.src = src ∧ r.eid = eid ∧ mdqFn l src eid = r.fetch := by
  unfold mdqFn
  split
  · next r hr =>
    right
    have hm := List.mem_of_find?_eq_some hr
    have hp := List.find?_some hr
    simp only [Bool.and_eq_true, decide_eq_true_eq] at hp
    exact ⟨r, hm, hp.1, hp.2, rfl⟩
  · left; rfl

theorem srcClean_of_cleanStep {c : Consts α} {st : Store α} {l : List (MdqResp α)}
    (h : l.all (respClean st) = true) : ∀ s ∈ st, srcClean c (mdqFn l) s := by
  intro s hs hk eid d hd hcert
  rcases mdqFn_mem l s.key eid with h0 | ⟨r, hr, hsrc, _, hf⟩
  · rw [h0] at hd; cases hd
  · rw [hf] at hd
    have h1 := List.all_eq_true.mp h r hr
    unfold respClean at h1
    rw [hd] at h1
    simp only [Bool.or_eq_true, Bool.not_eq_true', decide_eq_false_iff_not] at h1
    rcases h1 with h2 | h2
    · have : st.any (fun s => decide (s.kind = .mdq) && s.cert && decide (s.key = r.src)) = true :=
        List.any_eq_true.mpr ⟨s, hs, by simp [hk, hcert, hsrc]⟩
      rw [this] at h2; cases h2
    · exact h2

theorem step_code_eq_ideal (c : Consts α) (st : Store α) (s : Step α) (hc : cleanStep st s = true) :
    step Policy.code c st s = step Policy.ideal c st s := by
  unfold step
  unfold cleanStep at hc
  cases hop : s.op with
  | imp specs => rw [hop] at hc; simp only [impFrom_code_eq_ideal specs hc c.p2 s.now st]
  | reload specs => rw [hop] at hc; simp only [reload_code_eq_ideal specs hc c.p2 s.now st]
  | q qu =>
    rw [hop] at hc
    simp only [Step.env]
    exact query_code_eq_ideal s.now st (srcClean_of_cleanStep hc) qu

theorem run_code_eq_ideal (c : Consts α) (h : List (Step α)) (st : Store α) (hc : cleanRun c st h = true) :
    run Policy.code c st h = run Policy.ideal c st h := by
  induction h generalizing st with
  | nil => rfl
  | cons s rest ih =>
    unfold cleanRun at hc
    simp only [Bool.and_eq_true] at hc
    unfold run
    rw [step_code_eq_ideal c st s hc.1]
    cases hs : step Policy.ideal c st s with
    | mk a st' =>
      rw [hs] at hc
      simp only
      rw [ih st' hc.2]

/-! ### the checker accepts the reference's own observations -/

theorem subset_refl {β : Type} [DecidableEq β] (l : List β) : subset l l = true := by
  unfold subset
  simp

theorem sameSet_refl {β : Type} [DecidableEq β] (l : List β) : sameSet l l = true := by
  unfold sameSet; simp [subset_refl]

theorem ansOk_refl (a : Ans α) : ansOk a a = true := by
  cases a <;> simp [ansOk, sameSet_refl, isNothing]

theorem allOk_refl (l : List (Ans α)) : allOk l l = true := by
  induction l with
  | nil => rfl
  | cons a rest ih => simp [allOk, ansOk_refl, ih]

end MdStore
