/-
  C14 — the HTML side: scanning a rendered template (`Bindings.render`) equals scanning the template
  itself with the hole values filled in as attribute-value characters (`scan_render`), and grouping
  events into tags commutes with that filling (`collect_inst`).  Everything is generic in the
  template; the generated `HTML_FORM_SPEC` enters only through `decide`d side conditions.
-/
import PysamlModel.Model.HtmlScan
import PysamlModel.Model.Bindings
namespace HtmlScan
open Bindings Codec

def Ev.map {α β : Type} (f : α → β) : Ev α → Ev β
  | .openTag => .openTag
  | .closeTag => .closeTag
  | .nameCh c => .nameCh c
  | .attrBegin => .attrBegin
  | .attrCh c => .attrCh c
  | .valBegin => .valBegin
  | .valCh c => .valCh (f c)
  | .tagEnd sc => .tagEnd sc
  | .err => .err

/-- Holes sit inside double-quoted attribute values. -/
def holesOk : Mode → List Piece → Bool
  | _, [] => true
  | m, .lit b :: rest => holesOk (endMode m b) rest
  | m, .hole _ :: rest => m == .valDQ && holesOk m rest

def endModeT : Mode → List Piece → Mode
  | m, [] => m
  | m, .lit b :: rest => endModeT (endMode m b) rest
  | m, .hole _ :: rest => endModeT m rest

/-- Scanning the template itself: a hole is one placeholder value character. -/
def scanT : Mode → List Piece → List (Ev (Nat ⊕ Nat))
  | _, [] => []
  | m, .lit b :: rest => (scan m b).map (Ev.map Sum.inl) ++ scanT (endMode m b) rest
  | m, .hole i :: rest => .valCh (.inr i) :: scanT m rest

/-- Filling the placeholders of an event. -/
def instEv (vals : Nat → Bytes) : Ev (Nat ⊕ Nat) → List (Ev Nat)
  | .openTag => [.openTag]
  | .closeTag => [.closeTag]
  | .nameCh c => [.nameCh c]
  | .attrBegin => [.attrBegin]
  | .attrCh c => [.attrCh c]
  | .valBegin => [.valBegin]
  | .valCh (.inl c) => [.valCh c]
  | .valCh (.inr i) => (vals i).map .valCh
  | .tagEnd sc => [.tagEnd sc]
  | .err => [.err]

theorem scan_append (m : Mode) (a b : List Nat) : scan m (a ++ b) = scan m a ++ scan (endMode m a) b := by
  induction a generalizing m with
  | nil => rfl
  | cons c a ih => simp [scan, endMode, ih]

theorem endMode_append (m : Mode) (a b : List Nat) : endMode m (a ++ b) = endMode (endMode m a) b := by
  induction a generalizing m with
  | nil => rfl
  | cons c a ih => simp [endMode, ih]

theorem scan_valDQ (e : List Nat) (h : 34 ∉ e) : scan .valDQ e = e.map .valCh ∧ endMode .valDQ e = .valDQ := by
  induction e with
  | nil => exact ⟨rfl, rfl⟩
  | cons c e ih =>
    have hc : c ≠ 34 := by intro e; subst e; simp at h
    have he : 34 ∉ e := fun hm => h (by simp [hm])
    obtain ⟨i1, i2⟩ := ih he
    simp [scan, endMode, step, hc, i1, i2]

theorem instEv_lift (vals : Nat → Bytes) (e : Ev Nat) : instEv vals (Ev.map Sum.inl e) = [e] := by
  cases e <;> rfl

theorem flatMap_inst_lift (vals : Nat → Bytes) (evs : List (Ev Nat)) :
    (evs.map (Ev.map Sum.inl)).flatMap (instEv vals) = evs := by
  induction evs with
  | nil => rfl
  | cons e evs ih => simp [instEv_lift, ih]

/-- The event stream of a rendered template is the template's own event stream with each
    placeholder replaced by the hole's value as value characters — whatever the values are, as
    long as they contain no double quote. -/
theorem scan_render (vals : Nat → Bytes) (hv : ∀ i, 34 ∉ vals i) (m : Mode) (t : List Piece)
    (hok : holesOk m t = true) :
    scan m (render vals t) = (scanT m t).flatMap (instEv vals) ∧ endMode m (render vals t) = endModeT m t := by
  induction t generalizing m with
  | nil => exact ⟨rfl, rfl⟩
  | cons p t ih =>
    cases p with
    | lit b =>
      simp only [holesOk] at hok
      obtain ⟨i1, i2⟩ := ih (endMode m b) hok
      simp only [render, scanT, endModeT, scan_append, endMode_append, List.flatMap_append, flatMap_inst_lift, i1, i2]
      exact ⟨trivial, trivial⟩
    | hole i =>
      simp only [holesOk, Bool.and_eq_true, beq_iff_eq] at hok
      obtain ⟨hm, hok⟩ := hok
      subst hm
      obtain ⟨i1, i2⟩ := ih .valDQ hok
      obtain ⟨s1, s2⟩ := scan_valDQ (vals i) (hv i)
      simp only [render, scanT, endModeT, scan_append, endMode_append, List.flatMap_cons, instEv, s1, s2, i1, i2]
      exact ⟨trivial, trivial⟩


/-! ### Filling placeholders commutes with grouping events into tags -/

def instVal (vals : Nat → Bytes) (l : List (Nat ⊕ Nat)) : List Nat :=
  l.flatMap (fun x => match x with | .inl c => [c] | .inr i => vals i)

/-- The same on a reversed list. -/
def instValRev (vals : Nat → Bytes) (l : List (Nat ⊕ Nat)) : List Nat :=
  l.flatMap (fun x => match x with | .inl c => [c] | .inr i => (vals i).reverse)

theorem instValRev_reverse (vals : Nat → Bytes) (l : List (Nat ⊕ Nat)) :
    (instValRev vals l).reverse = instVal vals l.reverse := by
  induction l with
  | nil => rfl
  | cons x l ih =>
    simp only [instValRev, instVal, List.flatMap_cons, List.reverse_append, List.reverse_cons, List.flatMap_append,
      List.flatMap_nil, List.append_nil] at ih ⊢
    rw [ih]
    cases x <;> simp

def instAttr (vals : Nat → Bytes) (a : List Nat × Option (List (Nat ⊕ Nat))) : List Nat × Option (List Nat) :=
  (a.1, a.2.map (instVal vals))

def Tag.inst (vals : Nat → Bytes) (t : Tag (Nat ⊕ Nat)) : Tag Nat :=
  { closing := t.closing, name := t.name, attrs := t.attrs.map (instAttr vals), selfClosing := t.selfClosing }

def CSt.inst (vals : Nat → Bytes) (s : CSt (Nat ⊕ Nat)) : CSt Nat :=
  { closing := s.closing, name := s.name, attrs := s.attrs.map (instAttr vals),
    cur := s.cur.map (fun x => (x.1, x.2.1, instValRev vals x.2.2)) }

theorem flush_inst (vals : Nat → Bytes) (s : CSt (Nat ⊕ Nat)) :
    (s.inst vals).flush = s.flush.map (instAttr vals) := by
  unfold CSt.flush CSt.inst
  cases h : s.cur with
  | none => simp
  | some x =>
    obtain ⟨n, f, v⟩ := x
    cases f <;> simp [instAttr, instValRev_reverse]

/-- Value characters only extend the value being read. -/
theorem collect_valChs (s : CSt Nat) (w : List Nat) (rest : List (Ev Nat)) :
    collect s (w.map .valCh ++ rest) =
      collect { s with cur := s.cur.map (fun x => (x.1, x.2.1, w.reverse ++ x.2.2)) } rest := by
  induction w generalizing s with
  | nil =>
    simp only [List.map_nil, List.nil_append, List.reverse_nil]
    congr 1
    cases s with
    | mk c n a cur => cases cur <;> rfl
  | cons c w ih =>
    simp only [List.map_cons, List.cons_append, collect]
    rw [ih]
    congr 1
    cases s with
    | mk cl n a cur => cases cur <;> simp

theorem collect_inst (vals : Nat → Bytes) (s : CSt (Nat ⊕ Nat)) (evs : List (Ev (Nat ⊕ Nat))) :
    collect (s.inst vals) (evs.flatMap (instEv vals)) = (collect s evs).map (Tag.inst vals) := by
  induction evs generalizing s with
  | nil => rfl
  | cons e evs ih =>
    rw [List.flatMap_cons]
    cases e with
    | openTag => simpa [instEv, collect, CSt.inst] using ih {}
    | closeTag => simpa [instEv, collect, CSt.inst] using ih { closing := true }
    | nameCh c => simpa [instEv, collect, CSt.inst] using ih { s with name := c :: s.name }
    | attrBegin =>
      have := ih { s with attrs := s.flush, cur := some ([], false, []) }
      simp only [instEv, List.singleton_append, collect]
      rw [← this]
      congr 1
      simp [CSt.inst, instValRev]
      exact flush_inst vals s
    | attrCh c =>
      have := ih { s with cur := s.cur.map (fun x => (c :: x.1, x.2.1, x.2.2)) }
      simp only [instEv, List.singleton_append, collect]
      rw [← this]
      congr 1
      cases s with
      | mk cl n a cur => cases cur <;> simp [CSt.inst]
    | valBegin =>
      have := ih { s with cur := s.cur.map (fun x => (x.1, true, x.2.2)) }
      simp only [instEv, List.singleton_append, collect]
      rw [← this]
      congr 1
      cases s with
      | mk cl n a cur => cases cur <;> simp [CSt.inst]
    | valCh x =>
      have := ih { s with cur := s.cur.map (fun y => (y.1, y.2.1, x :: y.2.2)) }
      cases x with
      | inl c =>
        simp only [instEv, List.singleton_append, collect]
        rw [← this]
        congr 1
        cases s with
        | mk cl n a cur => cases cur <;> simp [CSt.inst, instValRev]
      | inr i =>
        simp only [instEv, collect]
        rw [collect_valChs, ← this]
        congr 1
        cases s with
        | mk cl n a cur => cases cur <;> simp [CSt.inst, instValRev]
    | tagEnd sc =>
      have := ih {}
      simp only [instEv, List.singleton_append, collect, List.map_cons]
      rw [← this]
      congr 1
      simp [Tag.inst, CSt.inst]
      exact flush_inst vals s
    | err => simp [instEv, collect]

end HtmlScan
