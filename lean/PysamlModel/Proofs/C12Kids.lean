/-
  C12 helper lemmas, part 3: children written by `_add_members_to_element_tree` (members in
  `_get_all_c_children_with_order` order, then the extension elements) are read back by
  `_convert_element_tree_to_member` into the members they came from, in their original order.
-/
import PysamlModel.Proofs.C12Attrs

set_option linter.unusedSimpArgs false
set_option linter.unusedVariables false

namespace ObjModel

/-! ### what re-parsing a serialised instance yields at the level of trees (no wire): identity on
    plain nodes, `avFinish` recomputed on AttributeValue nodes -/
mutual
def canon (E : Env) : Inst → Inst
  | .mk c as ss t ee ea =>
    match (E.T c).kind with
    | .plain => .mk c as (canonSlots E ss) t ee ea
    | .attrValue =>
      match avFinish E.K E.conv (dictSetAll [(E.K.xsiNil, sTrue)] ea) t (!ee.isEmpty) with
      | some (ea', t') => .mk c as (canonSlots E ss) t' ee ea'
      | none => .mk c as (canonSlots E ss) none ee (dictSetAll [(E.K.xsiNil, sTrue)] ea)
def canonSlots (E : Env) : List (List Inst) → List (List Inst)
  | [] => []
  | s :: r => canonList E s :: canonSlots E r
def canonList (E : Env) : List Inst → List Inst
  | [] => []
  | k :: r => canon E k :: canonList E r
end

theorem canonList_eq_map (E : Env) (l : List Inst) : canonList E l = l.map (canon E) := by
  induction l with
  | nil => rfl
  | cons a r ih => simp [canonList, ih]

theorem canonSlots_eq_map (E : Env) (l : List (List Inst)) : canonSlots E l = l.map (canonList E) := by
  induction l with
  | nil => rfl
  | cons a r ih => simp [canonSlots, ih]

theorem canon_cls (E : Env) (i : Inst) : (canon E i).cls = i.cls := by
  cases i with
  | mk c as ss t ee ea =>
    simp only [canon]
    cases (E.T c).kind with
    | plain => rfl
    | attrValue =>
      simp only
      cases avFinish E.K E.conv (dictSetAll [(E.K.xsiNil, sTrue)] ea) t (!ee.isEmpty) with
      | none => rfl
      | some p => rfl

/-! ### induction over instances -/

mutual
theorem Inst.induct {P : Inst → Prop}
    (h : ∀ c as ss t ee ea, (∀ s ∈ ss, ∀ k ∈ s, P k) → P (.mk c as ss t ee ea)) : ∀ i, P i
  | .mk c as ss t ee ea => h c as ss t ee ea (Inst.inductSlots h ss)
theorem Inst.inductSlots {P : Inst → Prop}
    (h : ∀ c as ss t ee ea, (∀ s ∈ ss, ∀ k ∈ s, P k) → P (.mk c as ss t ee ea)) :
    ∀ ss : List (List Inst), (∀ s ∈ ss, ∀ k ∈ s, P k)
  | [] => fun s hs => by cases hs
  | s0 :: r => fun s hs k hk =>
    (List.mem_cons.mp hs).elim (fun e => Inst.inductList h s0 k (e ▸ hk)) (fun e => Inst.inductSlots h r s e k hk)
theorem Inst.inductList {P : Inst → Prop}
    (h : ∀ c as ss t ee ea, (∀ s ∈ ss, ∀ k ∈ s, P k) → P (.mk c as ss t ee ea)) :
    ∀ s : List Inst, (∀ k ∈ s, P k)
  | [] => fun k hk => by cases hk
  | k0 :: r => fun k hk =>
    (List.mem_cons.mp hk).elim (fun e => e ▸ Inst.induct h k0) (fun e => Inst.inductList h r k e)
end

mutual
theorem XNode.induct {P : XNode → Prop}
    (h : ∀ tag attrs text kids, (∀ k ∈ kids, P k) → P (.mk tag attrs text kids)) : ∀ x, P x
  | .mk tag attrs text kids => h tag attrs text kids (XNode.inductList h kids)
theorem XNode.inductList {P : XNode → Prop}
    (h : ∀ tag attrs text kids, (∀ k ∈ kids, P k) → P (.mk tag attrs text kids)) : ∀ l : List XNode, (∀ k ∈ l, P k)
  | [] => fun k hk => by cases hk
  | k0 :: r => fun k hk =>
    (List.mem_cons.mp hk).elim (fun e => e ▸ XNode.induct h k0) (fun e => XNode.inductList h r k e)
end

mutual
theorem ExtEl.induct {P : ExtEl → Prop}
    (h : ∀ ns tag attrs kids text, (∀ k ∈ kids, P k) → P (.mk ns tag attrs kids text)) : ∀ x, P x
  | .mk ns tag attrs kids text => h ns tag attrs kids text (ExtEl.inductList h kids)
theorem ExtEl.inductList {P : ExtEl → Prop}
    (h : ∀ ns tag attrs kids text, (∀ k ∈ kids, P k) → P (.mk ns tag attrs kids text)) : ∀ l : List ExtEl, (∀ k ∈ l, P k)
  | [] => fun k hk => by cases hk
  | k0 :: r => fun k hk =>
    (List.mem_cons.mp hk).elim (fun e => e ▸ ExtEl.induct h k0) (fun e => ExtEl.inductList h r k e)
end

theorem normExtList_eq_map (l : List ExtEl) : normExtList l = l.map normExt := by
  induction l with
  | nil => rfl
  | cons a r ih => simp [normExtList, ih]

/-! ### harvestKids -/

theorem serialise_tag (T : Nat → ClassDef) (i : Inst) : (serialise T i).tag = (T i.cls).tag := by
  cases i; simp [serialise, XNode.tag, Inst.cls]

theorem harvestKids_ext (E : Env) (ds : List ChildDecl) (l : List ExtEl) (rest : List XNode)
    (ss : List (List Inst)) (ee : List ExtEl) (hf : ∀ e ∈ l, findDecl ds e.qname = none) :
    harvestKids E ds (ofExtList l ++ rest) ss ee = harvestKids E ds rest ss (ee ++ l) := by
  induction l generalizing ee with
  | nil => simp [ofExtList]
  | cons e r ih =>
    simp only [ofExtList, List.cons_append, harvestKids, ofExt_tag, hf e (by simp), toExt_ofExt]
    rw [ih (ee ++ [e]) (fun e' he' => hf e' (List.mem_cons_of_mem _ he'))]
    simp

/-- one member's children, list member: appended one by one -/
theorem harvestKids_block_list (E : Env) (ds : List ChildDecl) (hn : (ds.map (·.key)).Nodup)
    (j : Nat) (hj : j < ds.length) (hl : ds[j].isList = true)
    (s : List Inst) (rest : List XNode) (st : List (List Inst)) (ee : List ExtEl) (acc : List Inst)
    (hst : j < st.length) (hacc : st[j] = acc)
    (hk : ∀ k ∈ s, ds[j].cls = some k.cls ∧ (E.T k.cls).tag = ds[j].key ∧ harvest E k.cls (serialise E.T k) = canon E k) :
    harvestKids E ds (serList E.T s ++ rest) st ee = harvestKids E ds rest (st.set j (acc ++ canonList E s)) ee := by
  induction s generalizing st acc with
  | nil =>
    simp only [serList, List.nil_append, canonList, List.append_nil]
    rw [← hacc]; simp
  | cons k r ih =>
    obtain ⟨hc, ht, hh⟩ := hk k (by simp)
    simp only [serList, List.cons_append, harvestKids, serialise_tag, ht]
    rw [findDecl_getElem_of_nodup hn hj]
    simp only [hc, ht, if_true, hl, hh, putSlot]
    have hmod : st.modify j (fun l => l ++ [canon E k]) = st.set j (acc ++ [canon E k]) := by
      apply List.ext_getElem (by simp)
      intro i h1 h2
      simp only [List.getElem_modify, List.getElem_set]
      by_cases e : j = i
      · subst e; simp [hacc]
      · simp [e]
    rw [hmod]
    rw [ih (st.set j (acc ++ [canon E k])) (acc ++ [canon E k]) (by simpa using hst) (by simp)
      (fun k' hk' => hk k' (List.mem_cons_of_mem _ hk'))]
    simp [canonList]

/-- one member's children, singleton member: at most one, assigned -/
theorem harvestKids_block_single (E : Env) (ds : List ChildDecl) (hn : (ds.map (·.key)).Nodup)
    (j : Nat) (hj : j < ds.length) (hl : ds[j].isList = false)
    (s : List Inst) (hs : s.length ≤ 1) (rest : List XNode) (st : List (List Inst)) (ee : List ExtEl)
    (hst : j < st.length) (hacc : st[j] = [])
    (hk : ∀ k ∈ s, ds[j].cls = some k.cls ∧ (E.T k.cls).tag = ds[j].key ∧ harvest E k.cls (serialise E.T k) = canon E k) :
    harvestKids E ds (serList E.T s ++ rest) st ee = harvestKids E ds rest (st.set j (canonList E s)) ee := by
  cases s with
  | nil =>
    simp only [serList, List.nil_append, canonList]
    rw [← hacc]; simp
  | cons k r =>
    cases r with
    | cons _ _ => simp at hs
    | nil =>
      obtain ⟨hc, ht, hh⟩ := hk k (by simp)
      simp only [serList, List.cons_append, List.nil_append, harvestKids, serialise_tag, ht]
      rw [findDecl_getElem_of_nodup hn hj]
      simp only [hc, ht, if_true, hl, hh, putSlot, canonList]
      have hmod : st.modify j (fun l => if false = true then l ++ [canon E k] else [canon E k]) = st.set j [canon E k] := by
        apply List.ext_getElem (by simp)
        intro i h1 h2
        simp only [List.getElem_modify, List.getElem_set]
        by_cases e : j = i
        · subst e; simp
        · simp [e]
      rw [hmod]

/-- what must hold of the children in member `j` -/
def SlotOk (E : Env) (ds : List ChildDecl) (ss : List (List Inst)) (j : Nat) : Prop :=
  ∀ (hj : j < ds.length) (hs : j < ss.length),
    (ds[j].isList = true ∨ ss[j].length ≤ 1) ∧
    ∀ k ∈ ss[j], ds[j].cls = some k.cls ∧ (E.T k.cls).tag = ds[j].key ∧ harvest E k.cls (serialise E.T k) = canon E k

theorem harvestKids_block (E : Env) (ds : List ChildDecl) (hn : (ds.map (·.key)).Nodup)
    (ss : List (List Inst)) (hlen : ss.length = ds.length)
    (j : Nat) (hj : j < ds.length) (hok : SlotOk E ds ss j)
    (rest : List XNode) (st : List (List Inst)) (ee : List ExtEl)
    (hst : st.length = ds.length) (hacc : st.getD j [] = []) :
    harvestKids E ds ((serSlots E.T ss).getD j [] ++ rest) st ee =
      harvestKids E ds rest (st.set j ((canonSlots E ss).getD j [])) ee := by
  have hjs : j < ss.length := by omega
  have hjst : j < st.length := by omega
  have h1 : (serSlots E.T ss).getD j [] = serList E.T ss[j] := by
    rw [serSlots_eq_map]; simp [List.getD, hjs]
  have h2 : (canonSlots E ss).getD j [] = canonList E ss[j] := by
    rw [canonSlots_eq_map]; simp [List.getD, hjs]
  have h3 : st[j] = [] := by simpa [List.getD, hjst] using hacc
  obtain ⟨hshape, hkids⟩ := hok hj hjs
  rw [h1, h2]
  by_cases hl : ds[j].isList = true
  · have := harvestKids_block_list E ds hn j hj hl ss[j] rest st ee [] hjst h3 hkids
    simpa using this
  · have hl' : ds[j].isList = false := by simpa using hl
    have hs : ss[j].length ≤ 1 := by
      rcases hshape with h | h
      · exact absurd h hl
      · exact h
    exact harvestKids_block_single E ds hn j hj hl' ss[j] hs rest st ee hjst h3 hkids

/-- the members in serialisation order -/
def blocks (ks : List (List XNode)) (oi : List (Option Nat)) : List XNode :=
  oi.flatMap fun o => match o with
    | some j => ks.getD j []
    | none => []

theorem orderedKids_eq_blocks (cd : ClassDef) (ks : List (List XNode)) :
    orderedKids cd ks = blocks ks (orderIdxs cd) := by
  simp only [orderedKids, blocks, orderIdxs, List.flatMap_map]
  rfl

def applyOrder (ss' : List (List Inst)) (oi : List (Option Nat)) (st : List (List Inst)) : List (List Inst) :=
  oi.foldl (fun st o => match o with
    | some j => st.set j (ss'.getD j [])
    | none => st) st

theorem applyOrder_length (ss' : List (List Inst)) (oi : List (Option Nat)) (st : List (List Inst)) :
    (applyOrder ss' oi st).length = st.length := by
  induction oi generalizing st with
  | nil => rfl
  | cons o r ih =>
    cases o with
    | none => simpa [applyOrder] using ih st
    | some j =>
      simp only [applyOrder, List.foldl_cons] at ih ⊢
      rw [ih]; simp

theorem applyOrder_getD (ss' : List (List Inst)) (oi : List (Option Nat)) (st : List (List Inst)) (i : Nat)
    (hi : i < st.length) :
    (applyOrder ss' oi st).getD i [] = if some i ∈ oi then ss'.getD i [] else st.getD i [] := by
  induction oi generalizing st with
  | nil => simp [applyOrder]
  | cons o r ih =>
    cases o with
    | none =>
      have := ih st hi
      simp only [applyOrder, List.foldl_cons] at this ⊢
      rw [this]; simp
    | some j =>
      have := ih (st.set j (ss'.getD j [])) (by simpa using hi)
      simp only [applyOrder, List.foldl_cons] at this ⊢
      rw [this]
      by_cases hmem : some i ∈ r
      · simp [hmem]
      · simp only [hmem, if_false, List.mem_cons, Option.some.injEq, or_false]
        by_cases e : i = j
        · subst e; simp [List.getD, hi]
        · have e' : ¬ j = i := fun h => e h.symm
          simp [e, List.getD, List.getElem?_set, e']

theorem harvestKids_blocks (E : Env) (ds : List ChildDecl) (hn : (ds.map (·.key)).Nodup)
    (ss : List (List Inst)) (hlen : ss.length = ds.length) (hok : ∀ j, SlotOk E ds ss j)
    (oi : List (Option Nat)) (hoi : oi.Nodup) (hlt : ∀ j, some j ∈ oi → j < ds.length)
    (rest : List XNode) (st : List (List Inst)) (ee : List ExtEl)
    (hst : st.length = ds.length) (hempty : ∀ j, some j ∈ oi → st.getD j [] = []) :
    harvestKids E ds (blocks (serSlots E.T ss) oi ++ rest) st ee =
      harvestKids E ds rest (applyOrder (canonSlots E ss) oi st) ee := by
  induction oi generalizing st with
  | nil => simp [blocks, applyOrder]
  | cons o r ih =>
    simp only [List.nodup_cons] at hoi
    cases o with
    | none =>
      have := ih hoi.2 (fun j hj => hlt j (List.mem_cons_of_mem _ hj)) st hst
        (fun j hj => hempty j (List.mem_cons_of_mem _ hj))
      simpa [blocks, applyOrder] using this
    | some j =>
      have hj : j < ds.length := hlt j (by simp)
      simp only [blocks, List.flatMap_cons, List.append_assoc] at ih ⊢
      rw [harvestKids_block E ds hn ss hlen j hj (hok j) _ st ee hst (hempty j (by simp))]
      rw [ih hoi.2 (fun j' hj' => hlt j' (List.mem_cons_of_mem _ hj')) _ (by simpa using hst)]
      · simp [applyOrder]
      · intro j' hj'
        have hne : j ≠ j' := by
          intro e; subst e; exact hoi.1 hj'
        have := hempty j' (List.mem_cons_of_mem _ hj')
        simpa [List.getD, List.getElem?_set, hne] using this

/-- all members: the state after the declared children is the (canonical) member lists themselves -/
theorem applyOrder_all (ss' : List (List Inst)) (oi : List (Option Nat)) (n : Nat) (hlen : ss'.length = n)
    (hcover : ∀ j, j < n → some j ∈ oi) :
    applyOrder ss' oi (List.replicate n []) = ss' := by
  apply List.ext_getElem
  · rw [applyOrder_length]; simp [hlen]
  · intro i h1 h2
    have hi : i < n := by rw [applyOrder_length] at h1; simpa using h1
    have := applyOrder_getD ss' oi (List.replicate n []) i (by simpa using hi)
    simp only [hcover i hi, if_true] at this
    have e1 : (applyOrder ss' oi (List.replicate n [])).getD i [] = (applyOrder ss' oi (List.replicate n []))[i] := by
      simp [List.getD, h1]
    have e2 : ss'.getD i [] = ss'[i] := by simp [List.getD, h2]
    rw [← e1, ← e2, this]

end ObjModel
