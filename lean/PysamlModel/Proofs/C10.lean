/-
  C10 — helper lemmas for Props/C10.lean (association lists, `extendNew`, `dedup`, the loops of
  `filter_on_attributes`, `compile`, the entity-category fold).  Lean core only.
-/
import PysamlModel.Model.Release
import PysamlModel.Spec.C10

namespace Release
variable {α : Type} [DecidableEq α] {ρ : Type}

/-! ### association lists -/

theorem dget_mem {β : Type} {d : List (α × β)} {k : α} {v : β} (h : dget d k = some v) : (k, v) ∈ d := by
  unfold dget at h
  cases hf : d.find? (fun p => decide (p.1 = k)) with
  | none => rw [hf] at h; cases h
  | some p =>
    rw [hf] at h
    have hm := List.mem_of_find?_eq_some hf
    have hk : p.1 = k := by simpa using List.find?_some hf
    cases p with
    | mk a b =>
      simp only [Option.map_some, Option.some.injEq] at h
      simp only at hk
      subst hk; subst h; exact hm

theorem dget_isSome_of_mem {β : Type} {d : List (α × β)} {k : α} {v : β} (h : (k, v) ∈ d) :
    ∃ v', dget d k = some v' := by
  unfold dget
  cases hf : d.find? (fun p => decide (p.1 = k)) with
  | none =>
    have := List.find?_eq_none.mp hf (k, v) h
    simp at this
  | some p => exact ⟨p.2, rfl⟩

theorem mem_dset {β : Type} {d : List (α × β)} {k : α} {v : β} {p : α × β} (h : p ∈ dset d k v) :
    p = (k, v) ∨ p ∈ d := by
  induction d with
  | nil => simp [dset] at h; exact Or.inl h
  | cons hd tl ih =>
    cases hd with
    | mk k' v' =>
      unfold dset at h
      split at h
      · rcases List.mem_cons.mp h with h | h
        · exact Or.inl h
        · exact Or.inr (List.mem_cons_of_mem _ h)
      · rcases List.mem_cons.mp h with h | h
        · exact Or.inr (by rw [h]; exact List.mem_cons_self)
        · rcases ih h with h | h
          · exact Or.inl h
          · exact Or.inr (List.mem_cons_of_mem _ h)

theorem dget_dset {β : Type} (d : List (α × β)) (k k' : α) (v : β) :
    dget (dset d k v) k' = if k' = k then some v else dget d k' := by
  induction d with
  | nil =>
    by_cases h : k' = k
    · subst h; simp [dset, dget]
    · have : ¬ k = k' := fun e => h e.symm
      simp [dset, dget, h, this]
  | cons hd tl ih =>
    cases hd with
    | mk a b =>
      unfold dset
      by_cases hak : a = k
      · subst hak
        by_cases h : k' = a
        · subst h; simp [dget]
        · have : ¬ a = k' := fun e => h e.symm
          simp [dget, h, this]
      · rw [if_neg hak]
        by_cases h : k' = k
        · subst h
          have ih' := ih
          rw [if_pos rfl] at ih'
          unfold dget at ih' ⊢
          simp only [List.find?_cons, hak, decide_false]
          simpa using ih'
        · rw [if_neg h] at ih ⊢
          unfold dget at ih ⊢
          by_cases hak' : a = k'
          · simp [hak']
          · simp only [List.find?_cons, hak', decide_false]
            simpa using ih

/-! ### `extendNew`, `dedup`, counting -/

theorem mem_extendNew {old xs : List α} {v : α} : v ∈ extendNew old xs ↔ v ∈ old ∨ v ∈ xs := by
  induction xs generalizing old with
  | nil => simp [extendNew]
  | cons x xs ih =>
    unfold extendNew
    split
    · next hx =>
      rw [ih]
      constructor
      · rintro (h | h)
        · exact Or.inl h
        · exact Or.inr (List.mem_cons_of_mem _ h)
      · rintro (h | h)
        · exact Or.inl h
        · rcases List.mem_cons.mp h with h | h
          · exact Or.inl (h ▸ hx)
          · exact Or.inr h
    · rw [ih]
      simp only [List.mem_append, List.mem_cons, List.not_mem_nil, or_false]
      constructor
      · rintro ((h | h) | h)
        · exact Or.inl h
        · exact Or.inr (Or.inl h)
        · exact Or.inr (Or.inr h)
      · rintro (h | h | h)
        · exact Or.inl (Or.inl h)
        · exact Or.inl (Or.inr h)
        · exact Or.inr h

/-- Appending only what is not there yet never pushes a count above a bound that the old list
    respects and that allows one copy of every appended value. -/
theorem count_extendNew_le (c : α → Nat) {old xs : List α}
    (hold : ∀ v, old.count v ≤ c v) (hxs : ∀ v ∈ xs, 1 ≤ c v) :
    ∀ v, (extendNew old xs).count v ≤ c v := by
  induction xs generalizing old with
  | nil => simpa [extendNew] using hold
  | cons x xs ih =>
    unfold extendNew
    split
    · exact ih hold (fun v hv => hxs v (List.mem_cons_of_mem _ hv))
    · next hx =>
      apply ih
      · intro v
        rw [List.count_append]
        by_cases hv : x = v
        · subst hv
          have h0 : old.count x = 0 := List.count_eq_zero.mpr hx
          have h1 := hxs x List.mem_cons_self
          simp [h0]; exact h1
        · have : [x].count v = 0 := by
            apply List.count_eq_zero.mpr
            simp only [List.mem_singleton]
            exact fun e => hv e.symm
          rw [this]; exact hold v
      · exact fun v hv => hxs v (List.mem_cons_of_mem _ hv)

theorem mem_dedup {l : List α} {v : α} : v ∈ dedup l ↔ v ∈ l := by
  induction l generalizing v with
  | nil => simp [dedup]
  | cons x xs ih =>
    unfold dedup
    split
    · next hx =>
      rw [ih]
      constructor
      · exact fun h => List.mem_cons_of_mem _ h
      · intro h
        rcases List.mem_cons.mp h with h | h
        · rw [h]; exact ih.mp hx
        · exact h
    · simp only [List.mem_cons, ih]

theorem count_dedup_le_one (l : List α) (v : α) : (dedup l).count v ≤ 1 := by
  induction l with
  | nil => simp [dedup]
  | cons x xs ih =>
    unfold dedup
    split
    · exact ih
    · next hx =>
      rw [List.count_cons]
      by_cases hv : x = v
      · subst hv
        have : (dedup xs).count x = 0 := List.count_eq_zero.mpr hx
        simp [this]
      · simp [hv]; exact ih

theorem one_le_count_of_mem {l : List α} {v : α} (h : v ∈ l) : 1 ≤ l.count v :=
  List.count_pos_iff.mpr h

theorem mem_of_count_pos {l : List α} {v : α} (h : 0 < l.count v) : v ∈ l :=
  List.count_pos_iff.mp h

/-! ### `Sub`: same attribute, no value more often -/

/-- `p'` releases the attribute of `p` with no value more often than `p` has it. -/
def Sub (p' p : α × Val α) : Prop :=
  p'.1 = p.1 ∧ ∀ v, p'.2.values.count v ≤ p.2.values.count v

theorem Sub.refl (p : α × Val α) : Sub p p := ⟨rfl, fun _ => Nat.le_refl _⟩

theorem Sub.trans {a b c : α × Val α} (h1 : Sub a b) (h2 : Sub b c) : Sub a c :=
  ⟨h1.1.trans h2.1, fun v => Nat.le_trans (h1.2 v) (h2.2 v)⟩

theorem Sub.mem {a b : α × Val α} (h : Sub a b) {v : α} (hv : v ∈ a.2.values) : v ∈ b.2.values :=
  mem_of_count_pos (Nat.lt_of_lt_of_le (List.count_pos_iff.mpr hv) (h.2 v))

theorem heldDominates_of_sub {identity : Ava α} {p q : α × Val α} (hq : q ∈ identity) (h : Sub p q) :
    heldDominates identity p = true := by
  unfold heldDominates
  apply List.any_eq_true.mpr
  refine ⟨q, hq, ?_⟩
  simp only [Bool.and_eq_true, decide_eq_true_eq, List.all_eq_true]
  exact ⟨h.1.symm, fun v _ => h.2 v⟩

theorem sub_of_heldDominates {identity : Ava α} {p : α × Val α} (h : heldDominates identity p = true) :
    ∃ q ∈ identity, q.1 = p.1 ∧ ∀ v ∈ p.2.values, p.2.values.count v ≤ q.2.values.count v := by
  unfold heldDominates at h
  obtain ⟨q, hq, hc⟩ := List.any_eq_true.mp h
  simp only [Bool.and_eq_true, decide_eq_true_eq, List.all_eq_true] at hc
  exact ⟨q, hq, hc.1, hc.2⟩

/-! ### `_filter_values` -/

omit [DecidableEq α] in
theorem Val.values_list (l : List α) : (Val.list l).values = l := rfl
omit [DecidableEq α] in
theorem Val.values_scalar (s : α) : (Val.scalar s).values = [s] := rfl

theorem filterValues_sub (cur : Val α) (vl : List α) (v : α) :
    (filterValues cur vl).values.count v ≤ cur.values.count v := by
  unfold filterValues
  split
  · exact Nat.le_refl _
  · rw [Val.values_list]
    apply count_extendNew_le (fun v => cur.values.count v)
    · intro v; simp
    · intro v hv
      have := (List.mem_filter.mp hv).2
      exact one_le_count_of_mem (by simpa using this)

theorem mem_filterValues {cur : Val α} {vl : List α} {v : α} (h : v ∈ (filterValues cur vl).values) :
    v ∈ cur.values ∧ (vl.isEmpty = true ∨ v ∈ vl) := by
  unfold filterValues at h
  split at h
  · next he => exact ⟨h, Or.inl he⟩
  · rw [Val.values_list] at h
    rcases mem_extendNew.mp h with h | h
    · cases h
    · have := List.mem_filter.mp h
      exact ⟨by simpa using this.2, Or.inr this.1⟩

theorem filterValues_nonempty {cur : Val α} {vl : List α}
    (h : (filterValues cur vl).values.isEmpty = false) (hv : vl.isEmpty = false) :
    ∃ v ∈ vl, v ∈ cur.values := by
  cases hl : (filterValues cur vl).values with
  | nil => rw [hl] at h; cases h
  | cons x xs =>
    have hx : x ∈ (filterValues cur vl).values := by rw [hl]; exact List.mem_cons_self
    obtain ⟨h1, h2⟩ := mem_filterValues hx
    rcases h2 with h2 | h2
    · rw [hv] at h2; cases h2
    · exact ⟨x, h2, h1⟩

/-! ### `_match`, `_match_attr_name` -/

theorem matchKey_sound {S : StrOps α} {attr k : α} {ava : Ava α} (h : matchKey S attr ava = some k) :
    (∃ x, (k, x) ∈ ava) ∧ nameIs S attr k = true := by
  unfold matchKey at h
  unfold nameIs
  split at h
  · next h1 =>
    cases h
    obtain ⟨p, hp, hk⟩ := List.any_eq_true.mp h1
    have hk' : p.1 = attr := by simpa using hk
    exact ⟨⟨p.2, by rw [← hk']; exact hp⟩, by simp⟩
  · split at h
    · next h2 =>
      cases h
      obtain ⟨p, hp, hk⟩ := List.any_eq_true.mp h2
      have hk' : p.1 = S.lower attr := by simpa using hk
      exact ⟨⟨p.2, by rw [← hk']; exact hp⟩, by simp⟩
    · cases hf : ava.find? (fun p => decide (S.lower p.1 = S.lower attr)) with
      | none => rw [hf] at h; cases h
      | some p =>
        rw [hf] at h
        simp only [Option.map_some, Option.some.injEq] at h
        subst h
        have hm := List.mem_of_find?_eq_some hf
        have hk : S.lower p.1 = S.lower attr := by simpa using List.find?_some hf
        exact ⟨⟨p.2, hm⟩, by simp [hk]⟩

theorem matchAttrName_sound {S : StrOps α} {acs : List (Conv α)} {r : ReqAttr α} {ava : Ava α} {k : α}
    (h : matchAttrName S acs r ava = some k) :
    (∃ x, (k, x) ∈ ava) ∧ reqMatches S acs r k = true := by
  unfold matchAttrName at h
  unfold reqMatches
  split at h
  · next k' hk' =>
    cases h
    obtain ⟨hm, ht⟩ := Option.filter_eq_some_iff.mp hk'
    obtain ⟨h1, h2⟩ := matchKey_sound hm
    exact ⟨h1, by simp [ht, h2]⟩
  · obtain ⟨hm, ht⟩ := Option.filter_eq_some_iff.mp h
    obtain ⟨h1, h2⟩ := matchKey_sound hm
    exact ⟨h1, by simp [ht, h2]⟩

/-! ### the loops of `filter_on_attributes` -/

/-- What every entry of the intermediate result satisfies, relative to the identity `ava` and the
    requested attributes `Q` seen so far. -/
def FoaInv (S : StrOps α) (acs : List (Conv α)) (ava : Ava α) (Q : List (ReqAttr α)) (res : Ava α) : Prop :=
  ∀ p ∈ res,
    (∃ cur, dget ava p.1 = some cur ∧ Sub p (p.1, cur)) ∧
    (∃ q ∈ Q, reqMatches S acs q p.1 = true) ∧
    (∀ v ∈ p.2.values, ∃ q ∈ Q, reqMatches S acs q p.1 = true ∧ (q.values.isEmpty = true ∨ v ∈ q.values))

theorem FoaInv.mono {S : StrOps α} {acs : List (Conv α)} {ava : Ava α} {Q Q' : List (ReqAttr α)} {res : Ava α}
    (h : FoaInv S acs ava Q res) (hq : ∀ q ∈ Q, q ∈ Q') : FoaInv S acs ava Q' res := by
  intro p hp
  obtain ⟨h1, ⟨q, hqQ, hm⟩, h3⟩ := h p hp
  refine ⟨h1, ⟨q, hq q hqQ, hm⟩, ?_⟩
  intro v hv
  obtain ⟨q, hqQ, hm, hv'⟩ := h3 v hv
  exact ⟨q, hq q hqQ, hm, hv'⟩

theorem applyRestr_inv {S : StrOps α} {acs : List (Conv α)} {ava : Ava α} {Q : List (ReqAttr α)} {r : ReqAttr α}
    {fn : α} {must : Bool} {res res' : Ava α}
    (hfn : reqMatches S acs r fn = true) (hinv : FoaInv S acs ava Q res)
    (h : applyRestr ava r fn must res = .ok res') : FoaInv S acs ava (r :: Q) res' := by
  unfold applyRestr at h
  split at h
  · cases h
  split at h
  · cases h
  next cur hcur =>
  simp only at h
  have hmono : FoaInv S acs ava (r :: Q) res := hinv.mono (fun q hq => List.mem_cons_of_mem _ hq)
  -- the entry written for `fn`
  have hnew : ∀ x : Val α, (∀ v, x.values.count v ≤ cur.values.count v) →
      (∀ v ∈ x.values, (∃ q ∈ r :: Q, reqMatches S acs q fn = true ∧ (q.values.isEmpty = true ∨ v ∈ q.values))) →
      FoaInv S acs ava (r :: Q) (dset res fn x) := by
    intro x hx1 hx2 p hp
    rcases mem_dset hp with hp | hp
    · subst hp
      exact ⟨⟨cur, hcur, rfl, hx1⟩, ⟨r, List.mem_cons_self, hfn⟩, hx2⟩
    · exact hmono p hp
  have hfv : ∀ v ∈ (filterValues cur r.values).values,
      ∃ q ∈ r :: Q, reqMatches S acs q fn = true ∧ (q.values.isEmpty = true ∨ v ∈ q.values) :=
    fun v hv => ⟨r, List.mem_cons_self, hfn, (mem_filterValues hv).2⟩
  split at h
  · cases h
  next res'' hst =>
  have hres'' : FoaInv S acs ava (r :: Q) res'' := by
    split at hst
    · next old hold =>
      cases hst
      have hmem : (fn, Val.list old) ∈ res := dget_mem hold
      obtain ⟨⟨cur', hcur', hsub⟩, _, hvals⟩ := hinv (fn, Val.list old) hmem
      simp only at hcur'
      rw [hcur] at hcur'; cases hcur'
      apply hnew
      · rw [Val.values_list]
        apply count_extendNew_le (fun v => cur.values.count v)
        · exact hsub.2
        · intro v hv
          exact one_le_count_of_mem (mem_filterValues hv).1
      · intro v hv
        rw [Val.values_list] at hv
        rcases mem_extendNew.mp hv with hv | hv
        · obtain ⟨q, hq, hm, hv'⟩ := hvals v hv
          exact ⟨q, List.mem_cons_of_mem _ hq, hm, hv'⟩
        · exact hfv v hv
    · cases hst
    · cases hst
      exact hnew _ (filterValues_sub cur r.values) hfv
  split at h
  · cases h
  · cases h; exact hres''

theorem foaStep_inv {S : StrOps α} {acs : List (Conv α)} {ava : Ava α} {Q : List (ReqAttr α)} {r : ReqAttr α}
    {must failOn : Bool} {res res' : Ava α} (hinv : FoaInv S acs ava Q res)
    (h : foaStep S acs ava must failOn res r = .ok res') : FoaInv S acs ava (r :: Q) res' := by
  unfold foaStep at h
  split at h
  · next fn hfn => exact applyRestr_inv (matchAttrName_sound hfn).2 hinv h
  · split at h
    · cases h
    · cases h; exact hinv.mono (fun q hq => List.mem_cons_of_mem _ hq)

theorem foaLoop_inv {S : StrOps α} {acs : List (Conv α)} {ava : Ava α} {must failOn : Bool}
    (rs : List (ReqAttr α)) {Q : List (ReqAttr α)} {res res' : Ava α} (hinv : FoaInv S acs ava Q res)
    (h : foaLoop S acs ava must failOn rs res = .ok res') :
    ∃ Q', (∀ q ∈ Q', q ∈ rs ∨ q ∈ Q) ∧ FoaInv S acs ava Q' res' := by
  induction rs generalizing Q res with
  | nil =>
    unfold foaLoop at h
    cases h
    exact ⟨Q, fun q hq => Or.inr hq, hinv⟩
  | cons r rs ih =>
    unfold foaLoop at h
    split at h
    · cases h
    · next res1 h1 =>
      obtain ⟨Q', hQ', hinv'⟩ := ih (foaStep_inv hinv h1) h
      refine ⟨Q', ?_, hinv'⟩
      intro q hq
      rcases hQ' q hq with hq | hq
      · exact Or.inl (List.mem_cons_of_mem _ hq)
      · rcases List.mem_cons.mp hq with hq | hq
        · exact Or.inl (hq ▸ List.mem_cons_self)
        · exact Or.inr hq

/-- Every required entry the first loop got past is available. -/
theorem foaLoop_required_available {S : StrOps α} {acs : List (Conv α)} {ava : Ava α}
    (rs : List (ReqAttr α)) {res res' : Ava α}
    (h : foaLoop S acs ava true true rs res = .ok res') :
    ∀ q ∈ rs, unavailable S acs ava q = false := by
  induction rs generalizing res with
  | nil => intro q hq; cases hq
  | cons r rs ih =>
    unfold foaLoop at h
    split at h
    · cases h
    · next res1 h1 =>
      intro q hq
      rcases List.mem_cons.mp hq with hq | hq
      · subst hq
        unfold foaStep at h1
        split at h1
        · next fn hfn =>
          obtain ⟨_, hm⟩ := matchAttrName_sound hfn
          unfold applyRestr at h1
          split at h1
          · cases h1
          split at h1
          · cases h1
          next cur hcur =>
          simp only at h1
          split at h1
          · cases h1
          split at h1
          · cases h1
          next hmust =>
          have hmem : (fn, cur) ∈ ava := dget_mem hcur
          unfold unavailable
          rw [Bool.eq_false_iff]
          intro hall
          have := List.all_eq_true.mp hall (fn, cur) hmem
          simp only [hm, Bool.not_true, Bool.false_or, Bool.and_eq_true, Bool.not_eq_true',
            List.all_eq_true, decide_eq_false_iff_not] at this
          obtain ⟨hne, hnone⟩ := this
          simp only [Bool.true_and, hne, Bool.not_false] at hmust
          have hne' : (filterValues cur q.values).values.isEmpty = false := by
            cases hh : (filterValues cur q.values).values.isEmpty
            · rfl
            · exact absurd hh hmust
          obtain ⟨v, hv1, hv2⟩ := filterValues_nonempty hne' hne
          exact hnone v hv1 hv2
        · simp at h1
      · exact ih h q hq

/-! ### `compile` of `attribute_restrictions` -/

/-- The value `compile` stores for one configured entry. -/
def normPats (x : Option (List ρ)) : Option (List ρ) :=
  match x with
  | some (a :: as) => some (a :: as)
  | _ => none

theorem compileRestr_eq (S : StrOps α) (raw : RawRestr α ρ) :
    compileRestr S raw = raw.foldl (fun acc p => dset acc (S.lower p.1) (normPats p.2)) [] := rfl

theorem dget_foldl_dset {S : StrOps α} (raw : RawRestr α ρ) (acc : RawRestr α ρ) (k : α) (x : Option (List ρ))
    (h : dget (raw.foldl (fun acc p => dset acc (S.lower p.1) (normPats p.2)) acc) k = some x) :
    dget acc k = some x ∨ ∃ q ∈ raw, S.lower q.1 = k ∧ normPats q.2 = x := by
  induction raw generalizing acc with
  | nil => exact Or.inl h
  | cons p ps ih =>
    simp only [List.foldl_cons] at h
    rcases ih _ h with h | ⟨q, hq, h1, h2⟩
    · rw [dget_dset] at h
      split at h
      · next hk =>
        cases h
        exact Or.inr ⟨p, List.mem_cons_self, hk.symm, rfl⟩
      · exact Or.inl h
    · exact Or.inr ⟨q, List.mem_cons_of_mem _ hq, h1, h2⟩

theorem compileRestr_sound {S : StrOps α} {raw : RawRestr α ρ} {k : α} {x : Option (List ρ)}
    (h : dget (compileRestr S raw) k = some x) : ∃ q ∈ raw, S.lower q.1 = k ∧ normPats q.2 = x := by
  rw [compileRestr_eq] at h
  rcases dget_foldl_dset raw [] k x h with h | h
  · simp [dget] at h
  · exact h

theorem dset_ne_nil {β : Type} (d : List (α × β)) (k : α) (v : β) : dset d k v ≠ [] := by
  cases d with
  | nil => simp [dset]
  | cons hd tl =>
    cases hd
    unfold dset
    split <;> simp

theorem foldl_dset_ne_nil {S : StrOps α} (raw : RawRestr α ρ) (acc : RawRestr α ρ) (h : acc ≠ []) :
    raw.foldl (fun acc p => dset acc (S.lower p.1) (normPats p.2)) acc ≠ [] := by
  induction raw generalizing acc with
  | nil => exact h
  | cons p ps ih => exact ih _ (dset_ne_nil _ _ _)

theorem compileRestr_isEmpty {S : StrOps α} {raw : RawRestr α ρ} (h : (compileRestr S raw).isEmpty = true) :
    raw.isEmpty = true := by
  cases raw with
  | nil => rfl
  | cons p ps =>
    rw [compileRestr_eq] at h
    simp only [List.foldl_cons] at h
    have := foldl_dset_ne_nil (S := S) ps (dset [] (S.lower p.1) (normPats p.2)) (dset_ne_nil _ _ _)
    simp only [List.isEmpty_iff] at h
    exact absurd h this

/-! ### `filter_attribute_value_assertions` -/

theorem filterAva_sound {S : StrOps α} {M : ρ → α → Bool} {raw : RawRestr α ρ} {a1 : Ava α} {p' : α × Val α}
    (h : p' ∈ filterAva S M (compileRestr S raw) a1) :
    ∃ p ∈ a1, Sub p' p ∧ rawLists S raw p'.1 = true ∧ ∀ v ∈ p'.2.values, rawAllows S M raw p'.1 v = true := by
  unfold filterAva at h
  obtain ⟨p, hp, hf⟩ := List.mem_filterMap.mp h
  refine ⟨p, hp, ?_⟩
  split at hf
  · cases hf
  · next hg =>
    cases hf
    obtain ⟨q, hq, hk, hn⟩ := compileRestr_sound hg
    refine ⟨Sub.refl _, ?_, ?_⟩
    · exact List.any_eq_true.mpr ⟨q, hq, by simpa using hk⟩
    · intro v _
      apply List.any_eq_true.mpr
      refine ⟨q, hq, ?_⟩
      simp only [Bool.and_eq_true, decide_eq_true_eq]
      refine ⟨hk, ?_⟩
      unfold normPats at hn
      split at hn
      · cases hn
      · next hno =>
        split
        · next x xs hx => exact absurd hx (hno x xs)
        · rfl
  · next rs hg =>
    simp only at hf
    split at hf
    · cases hf
    · cases hf
      obtain ⟨q, hq, hk, hn⟩ := compileRestr_sound hg
      have hmem : ∀ v ∈ dedup (rs.flatMap (fun r => p.2.values.filter (M r))),
          v ∈ p.2.values ∧ ∃ r ∈ rs, M r v = true := by
        intro v hv
        obtain ⟨r, hr, hvr⟩ := List.mem_flatMap.mp (mem_dedup.mp hv)
        obtain ⟨h1, h2⟩ := List.mem_filter.mp hvr
        exact ⟨h1, r, hr, h2⟩
      refine ⟨⟨rfl, ?_⟩, ?_, ?_⟩
      · intro v
        show (Val.list _).values.count v ≤ _
        rw [Val.values_list]
        by_cases hv : v ∈ dedup (rs.flatMap (fun r => p.2.values.filter (M r)))
        · exact Nat.le_trans (count_dedup_le_one _ v) (one_le_count_of_mem (hmem v hv).1)
        · rw [List.count_eq_zero.mpr hv]; exact Nat.zero_le _
      · exact List.any_eq_true.mpr ⟨q, hq, by simpa using hk⟩
      · intro v hv
        rw [Val.values_list] at hv
        obtain ⟨_, r, hr, hM⟩ := hmem v hv
        apply List.any_eq_true.mpr
        refine ⟨q, hq, ?_⟩
        simp only [Bool.and_eq_true, decide_eq_true_eq]
        refine ⟨hk, ?_⟩
        unfold normPats at hn
        split at hn
        · next x xs heq =>
          cases hn
          rw [heq]
          exact List.any_eq_true.mpr ⟨r, hr, hM⟩
        · cases hn

/-! ### entity categories -/

theorem mem_entryAttrs_iff {S : StrOps α} {ecs req : List α} {e : CatEntry α} {a : α} :
    a ∈ entryAttrs S ecs req e ↔ entryPermits S ecs req e a = true := by
  unfold entryAttrs entryPermits
  cases hk : e.key with
  | always => simp
  | single k =>
    simp only [CatKey.applies]
    by_cases h1 : k ∈ ecs <;> by_cases h2 : e.onlyRequired = true <;> simp [h1, h2]
  | all ks =>
    simp only [CatKey.applies]
    by_cases h1 : (ks.all fun c => decide (c ∈ ecs)) = true <;> by_cases h2 : e.onlyRequired = true <;>
      simp [h1, h2]

theorem entryAttrs_isEmpty_iff {S : StrOps α} {ecs req : List α} {e : CatEntry α} :
    (!(entryAttrs S ecs req e).isEmpty && e.noAggregation) = entryResets S ecs req e := by
  unfold entryResets
  rw [Bool.and_comm]
  congr 1
  rw [Bool.eq_iff_iff]
  simp only [Bool.not_eq_true', List.any_eq_true]
  constructor
  · intro h
    cases hl : entryAttrs S ecs req e with
    | nil => rw [hl] at h; cases h
    | cons x xs =>
      have hx : x ∈ entryAttrs S ecs req e := by rw [hl]; exact List.mem_cons_self
      have hp := mem_entryAttrs_iff.mp hx
      refine ⟨x, ?_, hp⟩
      unfold entryPermits at hp
      simp only [Bool.and_eq_true, decide_eq_true_eq] at hp
      exact hp.1
  · rintro ⟨x, _, hp⟩
    have hx := mem_entryAttrs_iff.mpr hp
    cases hl : entryAttrs S ecs req e with
    | nil => rw [hl] at hx; cases hx
    | cons _ _ => rfl

/-- What the restriction dictionary of `post_entity_categories` can contain. -/
theorem mem_catFold {S : StrOps α} {ecs req : List α} (es : List (CatEntry α)) (acc : List α) (a : α)
    (h : a ∈ es.foldl (catStep S ecs req) acc) :
    (a ∈ acc ∧ es.all (fun e => !entryResets S ecs req e) = true) ∨ a = S.empty ∨
      allowedBy S ecs req es a = true := by
  induction es generalizing acc with
  | nil => exact Or.inl ⟨h, rfl⟩
  | cons e rest ih =>
    simp only [List.foldl_cons] at h
    rcases ih _ h with ⟨hacc, hrest⟩ | h | h
    · unfold catStep at hacc
      simp only [entryAttrs_isEmpty_iff, List.mem_append, List.mem_singleton] at hacc
      rcases hacc with (hacc | hacc) | hacc
      · split at hacc
        · cases hacc
        · next hr =>
          refine Or.inl ⟨hacc, ?_⟩
          simp only [List.all_cons, Bool.and_eq_true, Bool.not_eq_true']
          exact ⟨by simpa using hr, hrest⟩
      · refine Or.inr (Or.inr ?_)
        unfold allowedBy
        simp only [Bool.or_eq_true, Bool.and_eq_true]
        exact Or.inr ⟨mem_entryAttrs_iff.mp hacc, hrest⟩
      · exact Or.inr (Or.inl hacc)
    · exact Or.inr (Or.inl h)
    · refine Or.inr (Or.inr ?_)
      unfold allowedBy
      simp only [Bool.or_eq_true]
      exact Or.inl h

theorem catFold_ne_nil {S : StrOps α} {ecs req : List α} (es : List (CatEntry α)) (acc : List α)
    (h : acc ≠ [] ∨ es ≠ []) : es.foldl (catStep S ecs req) acc ≠ [] := by
  induction es generalizing acc with
  | nil =>
    rcases h with h | h
    · exact h
    · exact absurd rfl h
  | cons e rest ih =>
    simp only [List.foldl_cons]
    apply ih
    left
    unfold catStep
    simp

/-- An applicable item that no later NO_AGGREGATION item overrides: spelled out. -/
theorem allowedBy_sound {S : StrOps α} {ecs req : List α} {es : List (CatEntry α)} {a : α}
    (h : allowedBy S ecs req es a = true) :
    ∃ pre e post, es = pre ++ e :: post ∧ entryPermits S ecs req e a = true ∧
      ∀ e' ∈ post, entryResets S ecs req e' = false := by
  induction es with
  | nil => simp [allowedBy] at h
  | cons e rest ih =>
    unfold allowedBy at h
    simp only [Bool.or_eq_true, Bool.and_eq_true] at h
    rcases h with h | ⟨h1, h2⟩
    · obtain ⟨pre, e', post, he, hp, hr⟩ := ih h
      exact ⟨e :: pre, e', post, by rw [he]; rfl, hp, hr⟩
    · refine ⟨[], e, rest, rfl, h1, ?_⟩
      intro e' he'
      have := List.all_eq_true.mp h2 e' he'
      simpa using this

theorem reqFriendlyAll_eq {S : StrOps α} {acs : List (Conv α)} {required : List (ReqAttr α)} {l : List α}
    (h : reqFriendlyAll S acs required = .ok l) : l = reqNames S acs required := by
  induction required generalizing l with
  | nil => unfold reqFriendlyAll at h; cases h; rfl
  | cons d ds ih =>
    unfold reqFriendlyAll at h
    split at h
    · cases h
    · next f hf =>
      split at h
      · cases h
      · next fs hfs =>
        cases h
        unfold reqNames
        simp only [List.filterMap_cons, hf]
        rw [ih hfs]
        rfl

/-! ### linking the model's lookups to the specification's -/

theorem section_eq_spec (c : Ctx α ρ) : c.section = specSection c := by
  unfold Ctx.section applicable specSection
  simp only []
  cases secOf c.secs c.sp <;> cases c.ra.bind (secOf c.secs) <;>
    cases Option.filter (fun x => x.nonEmpty) (secOf c.secs c.dflt) <;> simp [Option.orElse]

theorem requestOk_sub {S : StrOps α} {acs : List (Conv α)} {reqs : List (ReqAttr α)} {p' p : α × Val α}
    (hs : Sub p' p) (h : requestOk S acs reqs p = true) : requestOk S acs reqs p' = true := by
  unfold requestOk at h ⊢
  simp only [Bool.and_eq_true, List.all_eq_true] at h ⊢
  rw [hs.1]
  exact ⟨h.1, fun v hv => h.2 v (hs.mem hv)⟩

theorem requestOk_of_inv {S : StrOps α} {acs : List (Conv α)} {ava : Ava α} {Q reqs : List (ReqAttr α)}
    {res : Ava α} (hinv : FoaInv S acs ava Q res) (hQ : ∀ q ∈ Q, q ∈ reqs) {p : α × Val α} (hp : p ∈ res) :
    (∃ q ∈ ava, Sub p q) ∧ requestOk S acs reqs p = true := by
  obtain ⟨⟨cur, hcur, hsub⟩, ⟨q, hq, hm⟩, hv⟩ := hinv p hp
  refine ⟨⟨(p.1, cur), dget_mem hcur, hsub⟩, ?_⟩
  unfold requestOk
  simp only [Bool.and_eq_true, List.all_eq_true, List.any_eq_true, decide_eq_true_eq, Bool.or_eq_true]
  refine ⟨⟨q, hQ q hq, hm⟩, ?_⟩
  intro v hvv
  obtain ⟨q', hq', hm', hv'⟩ := hv v hvv
  exact ⟨q', hQ q' hq', hm', hv'⟩

theorem filterOnAttributes_sound {S : StrOps α} {acs : List (Conv α)} {ava : Ava α}
    {required optional : List (ReqAttr α)} {failOn : Bool} {res : Ava α}
    (h : filterOnAttributes S acs ava required optional failOn = .ok res) :
    ∀ p ∈ res, (∃ q ∈ ava, Sub p q) ∧ requestOk S acs (required ++ optional) p = true := by
  unfold filterOnAttributes at h
  split at h
  · cases h
  next res1 h1 =>
  have h0 : FoaInv S acs ava [] ([] : Ava α) := fun p hp => by cases hp
  obtain ⟨Q1, hQ1, hinv1⟩ := foaLoop_inv required h0 h1
  obtain ⟨Q2, hQ2, hinv2⟩ := foaLoop_inv optional hinv1 h
  intro p hp
  apply requestOk_of_inv hinv2 _ hp
  intro q hq
  rcases hQ2 q hq with hq | hq
  · exact List.mem_append.mpr (Or.inr hq)
  · rcases hQ1 q hq with hq | hq
    · exact List.mem_append.mpr (Or.inl hq)
    · cases hq

theorem filterOnAttributes_available {S : StrOps α} {acs : List (Conv α)} {ava : Ava α}
    {required optional : List (ReqAttr α)} {res : Ava α}
    (h : filterOnAttributes S acs ava required optional true = .ok res) :
    ∀ q ∈ required, unavailable S acs ava q = false := by
  unfold filterOnAttributes at h
  split at h
  · cases h
  next res1 h1 => exact foaLoop_required_available required h1

/-- The key set `get_entity_categories` returns: empty exactly when the entity-category filter is
    not in effect; otherwise the fold over the governing `RELEASE` items. -/
theorem entityRestr_ok {c : Ctx α ρ} {required : List (ReqAttr α)} {l : List α}
    (h : entityRestr c required = .ok l) :
    (l.isEmpty = true ∧ catsInEffect c = none) ∨
    (l.isEmpty = false ∧ ∃ entries, catsInEffect c = some entries ∧
      l = entries.foldl (catStep c.S c.spCats (reqNames c.S c.acs required)) []) := by
  unfold entityRestr entCatsOf at h
  unfold catsInEffect
  rw [section_eq_spec] at h
  cases hs : specSection c with
  | none => rw [hs] at h; simp only at h; cases h; exact Or.inl ⟨rfl, rfl⟩
  | some s =>
    rw [hs] at h
    simp only at h ⊢
    by_cases hemp : s.entCats.isEmpty = true
    · rw [if_pos hemp] at h
      simp only at h
      cases h
      refine Or.inl ⟨rfl, ?_⟩
      have : s.entCats = [] := List.isEmpty_iff.mp hemp
      simp [this]
    · rw [if_neg hemp] at h
      simp only at h
      unfold postEntityCategories at h
      split at h
      · cases h
      next req hreq =>
      cases h
      have hreq' := reqFriendlyAll_eq hreq
      subst hreq'
      cases hm : c.hasMds with
      | false => exact Or.inl ⟨by simp, by simp⟩
      | true =>
        cases hf : s.entCats.flatten with
        | nil => exact Or.inl ⟨by simp, by simp⟩
        | cons e es =>
          refine Or.inr ⟨?_, e :: es, by simp, by simp⟩
          have := catFold_ne_nil (S := c.S) (ecs := c.spCats) (req := reqNames c.S c.acs required) (e :: es) []
            (Or.inr (by simp))
          cases hl : List.foldl (catStep c.S c.spCats (reqNames c.S c.acs required)) [] (e :: es) with
          | nil => exact absurd hl this
          | cons _ _ => simp

/-- The attribute-restriction stage. -/
theorem restrStage_sound {c : Ctx α ρ} {a1 a2 : Ava α}
    (h : (match c.section.bind (Section.compiledRestr c.S) with
          | none => (Except.ok a1 : Except Err (Ava α))
          | some restr => .ok (filterAva c.S c.M restr a1)) = .ok a2) :
    ∀ p' ∈ a2, ∃ p ∈ a1, Sub p' p ∧ restrOk c p' = true := by
  unfold restrOk
  rw [section_eq_spec] at h
  cases hs : specSection c with
  | none =>
    rw [hs] at h; simp only [Option.bind_none] at h; cases h
    intro p' hp'; exact ⟨p', hp', Sub.refl _, by simp⟩
  | some s =>
    rw [hs] at h
    simp only [Option.bind_some] at h ⊢
    unfold Section.compiledRestr at h
    cases hr : s.attrRestr with
    | none =>
      rw [hr] at h; simp only at h; cases h
      intro p' hp'; exact ⟨p', hp', Sub.refl _, by simp⟩
    | some raw =>
      rw [hr] at h
      simp only at h
      split at h
      · next heq =>
        split at heq
        · next hemp =>
          cases h
          intro p' hp'
          exact ⟨p', hp', Sub.refl _, by simp [compileRestr_isEmpty hemp]⟩
        · cases heq
      · next restr heq =>
        split at heq
        · cases heq
        · cases heq
          cases h
          intro p' hp'
          obtain ⟨p, hp, hsub, h1, h2⟩ := filterAva_sound hp'
          refine ⟨p, hp, hsub, ?_⟩
          simp only [Bool.or_eq_true, Bool.and_eq_true, List.all_eq_true]
          exact Or.inr ⟨h1, h2⟩

/-- Everything `Policy.filter` guarantees about a successful result, in one statement. -/
theorem policyFilter_sound {c : Ctx α ρ} {identity : Ava α} {required optional : List (ReqAttr α)} {r : Ava α}
    (h : policyFilter c identity required optional = .ok r) :
    (∀ p' ∈ r, ∃ q ∈ identity, Sub p' q ∧ restrOk c p' = true ∧
       (match catsInEffect c with
        | some entries =>
          c.S.lower p'.1 = c.S.empty ∨
            allowedBy c.S c.spCats (reqNames c.S c.acs required) entries (c.S.lower p'.1) = true
        | none =>
          (required.isEmpty && optional.isEmpty) = true ∨
            requestOk c.S c.acs (required ++ optional) p' = true)) ∧
    mustFail c identity required optional = false := by
  unfold policyFilter at h
  split at h
  · cases h
  next entRest hent =>
  simp only at h
  split at h
  · cases h
  next a1 hstep1 =>
  have hstage2 := restrStage_sound h
  rcases entityRestr_ok hent with ⟨hemp, hcats⟩ | ⟨hne, entries, hcats, hfold⟩
  · -- entity categories not in effect
    rw [hcats]
    simp only [hemp, Bool.not_true, Bool.false_eq_true, if_false] at hstep1
    split at hstep1
    · next hreq =>
      -- required/optional filter
      have hs1 := filterOnAttributes_sound hstep1
      constructor
      · intro p' hp'
        obtain ⟨p, hp, hsub, hrestr⟩ := hstage2 p' hp'
        obtain ⟨⟨q, hq, hpq⟩, hro⟩ := hs1 p hp
        exact ⟨q, hq, hsub.trans hpq, hrestr, Or.inr (requestOk_sub hsub hro)⟩
      · unfold mustFail
        rw [hcats]
        cases hfail : failOnOf (specSection c) with
        | false => simp
        | true =>
          rw [section_eq_spec, hfail] at hstep1
          have hav := filterOnAttributes_available hstep1
          simp only [Option.isNone_none, Bool.true_and, Bool.and_true, Bool.and_eq_false_imp]
          intro _
          rw [Bool.eq_false_iff]
          intro hany
          obtain ⟨q, hq, hu⟩ := List.any_eq_true.mp hany
          rw [hav q hq] at hu
          cases hu
    · next hreq =>
      cases hstep1
      have hboth : (required.isEmpty && optional.isEmpty) = true := by
        cases h1 : required.isEmpty <;> cases h2 : optional.isEmpty <;> simp [h1, h2] at hreq ⊢
      constructor
      · intro p' hp'
        obtain ⟨p, hp, hsub, hrestr⟩ := hstage2 p' hp'
        exact ⟨p, hp, hsub, hrestr, Or.inl hboth⟩
      · unfold mustFail
        simp only [Bool.and_eq_true] at hboth
        simp [hboth.1, hboth.2]
  · -- entity categories in effect
    rw [hcats]
    simp only [hne, Bool.not_false, if_true] at hstep1
    cases hstep1
    constructor
    · intro p' hp'
      obtain ⟨p, hp, hsub, hrestr⟩ := hstage2 p' hp'
      obtain ⟨hpi, hkey⟩ := List.mem_filter.mp hp
      refine ⟨p, hpi, hsub, hrestr, ?_⟩
      have hkey' : c.S.lower p.1 ∈ entRest := by simpa using hkey
      rw [hfold] at hkey'
      rw [hsub.1]
      rcases mem_catFold entries [] _ hkey' with ⟨h0, _⟩ | h1 | h2
      · cases h0
      · exact Or.inl h1
      · exact Or.inr h2
    · unfold mustFail
      rw [hcats]
      simp

end Release
