/-
  Helper lemmas for C02 (Model/Xsw.lean).
-/
import PysamlModel.Model.Xsw

namespace Xsw

/-! ### the hand-written structural equality is sound -/
mutual
theorem XNode.beq_sound : ∀ (a b : XNode), XNode.beq a b = true → a = b
  | .elem t a k, .elem t' a' k', h => by
    unfold XNode.beq at h
    simp only [Bool.and_eq_true, beq_iff_eq] at h
    obtain ⟨⟨h1, h2⟩, h3⟩ := h
    rw [h1, h2, beqL_sound k k' h3]
  | .text s, .text s', h => by
    unfold XNode.beq at h
    simp only [beq_iff_eq] at h
    rw [h]
  | .digest x, .digest y, h => by
    unfold XNode.beq at h
    rw [XNode.beq_sound x y h]
  | .sigval k x, .sigval k' y, h => by
    unfold XNode.beq at h
    simp only [Bool.and_eq_true, beq_iff_eq] at h
    rw [h.1, XNode.beq_sound x y h.2]
  | .junk s, .junk s', h => by
    unfold XNode.beq at h
    simp only [beq_iff_eq] at h
    rw [h]
  | .elem .., .text _, h => by simp [XNode.beq] at h
  | .elem .., .digest _, h => by simp [XNode.beq] at h
  | .elem .., .sigval .., h => by simp [XNode.beq] at h
  | .elem .., .junk _, h => by simp [XNode.beq] at h
  | .text _, .elem .., h => by simp [XNode.beq] at h
  | .text _, .digest _, h => by simp [XNode.beq] at h
  | .text _, .sigval .., h => by simp [XNode.beq] at h
  | .text _, .junk _, h => by simp [XNode.beq] at h
  | .digest _, .elem .., h => by simp [XNode.beq] at h
  | .digest _, .text _, h => by simp [XNode.beq] at h
  | .digest _, .sigval .., h => by simp [XNode.beq] at h
  | .digest _, .junk _, h => by simp [XNode.beq] at h
  | .sigval .., .elem .., h => by simp [XNode.beq] at h
  | .sigval .., .text _, h => by simp [XNode.beq] at h
  | .sigval .., .digest _, h => by simp [XNode.beq] at h
  | .sigval .., .junk _, h => by simp [XNode.beq] at h
  | .junk _, .elem .., h => by simp [XNode.beq] at h
  | .junk _, .text _, h => by simp [XNode.beq] at h
  | .junk _, .digest _, h => by simp [XNode.beq] at h
  | .junk _, .sigval .., h => by simp [XNode.beq] at h
theorem beqL_sound : ∀ (a b : List XNode), beqL a b = true → a = b
  | [], [], _ => rfl
  | x :: xs, y :: ys, h => by
    unfold beqL at h
    simp only [Bool.and_eq_true] at h
    rw [XNode.beq_sound x y h.1, beqL_sound xs ys h.2]
  | [], _ :: _, h => by simp [beqL] at h
  | _ :: _, [], h => by simp [beqL] at h
end

theorem list_beq_sound : ∀ (a b : List XNode), (a == b) = true → a = b
  | [], [], _ => rfl
  | x :: xs, y :: ys, h => by
    have h' : (x == y && xs == ys) = true := by simpa [List.beq] using h
    simp only [Bool.and_eq_true] at h'
    have hx : x = y := XNode.beq_sound x y h'.1
    rw [hx, list_beq_sound xs ys h'.2]
  | [], _ :: _, h => by simp at h
  | _ :: _, [], h => by simp at h

theorem nodeAt_append (n : XNode) (p q : Path) :
    nodeAt n (p ++ q) = (nodeAt n p).bind (fun m => nodeAt m q) := by
  induction p generalizing n with
  | nil => simp [nodeAt]
  | cons i rest ih =>
    simp only [List.cons_append, nodeAt]
    cases n.kids[i]? with
    | none => simp
    | some c => simpa using ih c

theorem hash_cancel (a b : String) (h : "#" ++ a = "#" ++ b) : a = b := by
  have := congrArg String.toList h
  simp only [String.toList_append] at this
  exact String.toList_inj.mp (List.append_cancel_left this)

end Xsw

namespace Xsw

mutual
theorem XNode.beq_refl : ∀ (a : XNode), XNode.beq a a = true
  | .elem t a k => by unfold XNode.beq; simp [beqL_refl k]
  | .text s => by unfold XNode.beq; simp
  | .digest x => by unfold XNode.beq; exact XNode.beq_refl x
  | .sigval k x => by unfold XNode.beq; simp [XNode.beq_refl x]
  | .junk s => by unfold XNode.beq; simp
theorem beqL_refl : ∀ (a : List XNode), beqL a a = true
  | [] => rfl
  | x :: xs => by unfold beqL; simp [XNode.beq_refl x, beqL_refl xs]
end

theorem list_beq_refl : ∀ (a : List XNode), (a == a) = true
  | [] => rfl
  | x :: xs => by
    have hx : (x == x) = true := XNode.beq_refl x
    have := list_beq_refl xs
    simp [List.beq, hx, this]

end Xsw
