/-
  Helper lemmas for C02 (Model/Xsw.lean).
-/
import PysamlModel.Model.Xsw

namespace Xsw

/-! ### the hand-written structural equality is sound -/
mutual
theorem XNode.beq_sound : ∀ (a b : XNode), XNode.beq a b = true → a = b
  | .elem t a k, .elem t' a' k', h => by
    unfold XNode.beq at h
    simp only [Bool.and_eq_true, beq_iff_eq] at h
    obtain ⟨⟨h1, h2⟩, h3⟩ := h
    rw [h1, h2, beqL_sound k k' h3]
  | .text s, .text s', h => by
    unfold XNode.beq at h
    simp only [beq_iff_eq] at h
    rw [h]
  | .digest x, .digest y, h => by
    unfold XNode.beq at h
    rw [XNode.beq_sound x y h]
  | .sigval k x, .sigval k' y, h => by
    unfold XNode.beq at h
    simp only [Bool.and_eq_true, beq_iff_eq] at h
    rw [h.1, XNode.beq_sound x y h.2]
  | .junk s, .junk s', h => by
    unfold XNode.beq at h
    simp only [beq_iff_eq] at h
    rw [h]
  | .elem .., .text _, h => by simp [XNode.beq] at h
  | .elem .., .digest _, h => by simp [XNode.beq] at h
  | .elem .., .sigval .., h => by simp [XNode.beq] at h
  | .elem .., .junk _, h => by simp [XNode.beq] at h
  | .text _, .elem .., h => by simp [XNode.beq] at h
  | .text _, .digest _, h => by simp [XNode.beq] at h
  | .text _, .sigval .., h => by simp [XNode.beq] at h
  | .text _, .junk _, h => by simp [XNode.beq] at h
  | .digest _, .elem .., h => by simp [XNode.beq] at h
  | .digest _, .text _, h => by simp [XNode.beq] at h
  | .digest _, .sigval .., h => by simp [XNode.beq] at h
  | .digest _, .junk _, h => by simp [XNode.beq] at h
  | .sigval .., .elem .., h => by simp [XNode.beq] at h
  | .sigval .., .text _, h => by simp [XNode.beq] at h
  | .sigval .., .digest _, h => by simp [XNode.beq] at h
  | .sigval .., .junk _, h => by simp [XNode.beq] at h
  | .junk _, .elem .., h => by simp [XNode.beq] at h
  | .junk _, .text _, h => by simp [XNode.beq] at h
  | .junk _, .digest _, h => by simp [XNode.beq] at h
  | .junk _, .sigval .., h => by simp [XNode.beq] at h
theorem beqL_sound : ∀ (a b : List XNode), beqL a b = true → a = b
  | [], [], _ => rfl
  | x :: xs, y :: ys, h => by
    unfold beqL at h
    simp only [Bool.and_eq_true] at h
    rw [XNode.beq_sound x y h.1, beqL_sound xs ys h.2]
  | [], _ :: _, h => by simp [beqL] at h
  | _ :: _, [], h => by simp [beqL] at h
end

theorem list_beq_sound : ∀ (a b : List XNode), (a == b) = true → a = b
  | [], [], _ => rfl
  | x :: xs, y :: ys, h => by
    have h' : (x == y && xs == ys) = true := by simpa [List.beq] using h
    simp only [Bool.and_eq_true] at h'
    have hx : x = y := XNode.beq_sound x y h'.1
    rw [hx, list_beq_sound xs ys h'.2]
  | [], _ :: _, h => by simp at h
  | _ :: _, [], h => by simp at h

theorem nodeAt_append (n : XNode) (p q : Path) :
    nodeAt n (p ++ q) = (nodeAt n p).bind (fun m => nodeAt m q) := by
  induction p generalizing n with
  | nil => simp [nodeAt]
  | cons i rest ih =>
    simp only [List.cons_append, nodeAt]
    cases n.kids[i]? with
    | none => simp
    | some c => simpa using ih c

theorem hash_cancel (a b : String) (h : "#" ++ a = "#" ++ b) : a = b := by
  have := congrArg String.toList h
  simp only [String.toList_append] at this
  exact String.toList_inj.mp (List.append_cancel_left this)

end Xsw

namespace Xsw

mutual
theorem XNode.beq_refl : ∀ (a : XNode), XNode.beq a a = true
  | .elem t a k => by unfold XNode.beq; simp [beqL_refl k]
  | .text s => by unfold XNode.beq; simp
  | .digest x => by unfold XNode.beq; exact XNode.beq_refl x
  | .sigval k x => by unfold XNode.beq; simp [XNode.beq_refl x]
  | .junk s => by unfold XNode.beq; simp
theorem beqL_refl : ∀ (a : List XNode), beqL a a = true
  | [] => rfl
  | x :: xs => by unfold beqL; simp [XNode.beq_refl x, beqL_refl xs]
end

theorem list_beq_refl : ∀ (a : List XNode), (a == a) = true
  | [] => rfl
  | x :: xs => by
    have hx : (x == x) = true := XNode.beq_refl x
    have := list_beq_refl xs
    simp [List.beq, hx, this]

end Xsw

/-! ### ID registration resolves an element with the registered name to its own path -/
namespace Xsw

theorem mem_preorder_self (n : XNode) (p : Path) : p ∈ preorder n p := by
  cases n <;> simp [preorder]

theorem preorderL_of_getElem? (ks : List XNode) (p : Path) (i k : Nat) (c : XNode) (x : Path)
    (hc : ks[i]? = some c) (hx : x ∈ preorder c (p ++ [k + i])) : x ∈ preorderL ks p k := by
  induction ks generalizing i k with
  | nil => simp at hc
  | cons y ys ih =>
    rw [preorderL]
    cases i with
    | zero =>
      simp only [List.getElem?_cons_zero, Option.some.injEq] at hc
      subst hc
      exact List.mem_append_left _ (by simpa using hx)
    | succ i =>
      simp only [List.getElem?_cons_succ] at hc
      refine List.mem_append_right _ (ih i (k + 1) hc ?_)
      have : k + 1 + i = k + (i + 1) := by omega
      rw [this]; exact hx

/-- every node reachable by a path is listed by the document-order traversal -/
theorem mem_preorder_of_nodeAt (n m : XNode) (p q : Path) (h : nodeAt n q = some m) :
    p ++ q ∈ preorder n p := by
  induction q generalizing n p with
  | nil => simpa using mem_preorder_self n p
  | cons i rest ih =>
    simp only [nodeAt] at h
    cases n with
    | elem t a ks =>
      simp only [XNode.kids] at h
      cases hc : ks[i]? with
      | none => simp [hc] at h
      | some c =>
        rw [hc] at h
        simp only at h
        rw [preorder]
        refine List.mem_cons_of_mem _ (preorderL_of_getElem? ks p i 0 c _ hc ?_)
        have := ih c (p ++ [i]) h
        simpa using this
    | text s => simp [XNode.kids] at h
    | digest x => simp [XNode.kids] at h
    | sigval k x => simp [XNode.kids] at h
    | junk s => simp [XNode.kids] at h

theorem eraseDups_length_le {α} [BEq α] (l : List α) : l.eraseDups.length ≤ l.length := by
  generalize hn : l.length = n
  induction n using Nat.strongRecOn generalizing l with
  | _ n ih =>
    cases l with
    | nil => simp
    | cons a as =>
      rw [List.eraseDups_cons]
      simp only [List.length_cons] at hn ⊢
      have h1 : (as.filter fun b => !b == a).length ≤ as.length := List.length_filter_le _ _
      have := ih _ (by omega) (as.filter fun b => !b == a) rfl
      omega

/-- the duplicate test of `registerIds` passes only on a list without repetitions -/
theorem nodup_of_eraseDups_length {α} [BEq α] [LawfulBEq α] (l : List α)
    (h : l.eraseDups.length = l.length) : l.Nodup := by
  induction l with
  | nil => exact List.Pairwise.nil
  | cons a as ih =>
    rw [List.eraseDups_cons] at h
    simp only [List.length_cons, Nat.add_right_cancel_iff] at h
    have h1 : (as.filter fun b => !b == a).length ≤ as.length := List.length_filter_le _ _
    have h2 := eraseDups_length_le (as.filter fun b => !b == a)
    have hlen : (as.filter fun b => !b == a).length = as.length := by omega
    have hfil : as.filter (fun b => !b == a) = as := List.length_filter_eq_length_iff.mp hlen |> List.filter_eq_self.mpr
    rw [hfil] at h
    refine List.Pairwise.cons ?_ (ih h)
    intro b hb hab
    have := List.length_filter_eq_length_iff.mp hlen b hb
    simp [hab] at this

theorem lookup_of_mem_of_nodup (l : List (String × Path)) (k : String) (v : Path)
    (hnd : (l.map (·.1)).Nodup) (hmem : (k, v) ∈ l) : l.lookup k = some v := by
  induction l with
  | nil => simp at hmem
  | cons e rest ih =>
    obtain ⟨k', v'⟩ := e
    simp only [List.map_cons, List.nodup_cons] at hnd
    simp only [List.lookup]
    rcases List.mem_cons.mp hmem with heq | hin
    · cases heq
      simp
    · have hne : k ≠ k' := by
        intro hh; subst hh
        exact hnd.1 (List.mem_map.mpr ⟨(k, v), hin, rfl⟩)
      have : (k == k') = false := by simpa using hne
      rw [this]
      exact ih hnd.2 hin

/-- `--id-attr:ID nodeName` registers the ID of every element with that name under its own path, and
    (because a repeated value is an error) that ID resolves to that path and no other. -/
theorem registerIds_resolves (doc item : XNode) (itemPath : Path) (nodeName : String)
    (ids : List (String × Path)) (id : String)
    (hitem : nodeAt doc itemPath = some item) (htag : item.tag = nodeName)
    (hid : item.attr "ID" = some id) (hreg : registerIds doc nodeName = some ids) :
    ids.lookup id = some itemPath := by
  unfold registerIds at hreg
  simp only at hreg
  split at hreg
  · rename_i hlen
    simp only [Option.some.injEq] at hreg
    subst hreg
    have hlen' := eq_of_beq hlen
    refine lookup_of_mem_of_nodup _ _ _ (nodup_of_eraseDups_length _ ?_) ?_
    · rw [List.length_map]; exact hlen'
    apply List.mem_filterMap.mpr
    refine ⟨itemPath, ?_, ?_⟩
    · simpa using mem_preorder_of_nodeAt doc item [] itemPath hitem
    · simp [hitem, htag, hid]
  · cases hreg

end Xsw
