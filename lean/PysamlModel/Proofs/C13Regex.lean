/-
  C13 — helper lemmas: the derivative matcher of `Model/Regex.lean` decides language membership.
-/
import PysamlModel.Model.Regex

namespace Validate
namespace Re
variable {σ α : Type} {sat : σ → α → Bool}

theorem lang_empty {w : List α} : ¬ Lang sat (empty : Re σ) w := by
  intro h; cases h

theorem lang_eps {w : List α} : Lang sat (eps : Re σ) w ↔ w = [] := by
  constructor
  · intro h; cases h; rfl
  · intro h; subst h; exact Lang.eps

theorem lang_sym {s : σ} {w : List α} : Lang sat (sym s) w ↔ ∃ x, w = [x] ∧ sat s x = true := by
  constructor
  · intro h; cases h with | sym hx => exact ⟨_, rfl, hx⟩
  · rintro ⟨x, rfl, hx⟩; exact Lang.sym hx

theorem lang_seq {a b : Re σ} {w : List α} :
    Lang sat (seq a b) w ↔ ∃ u v, w = u ++ v ∧ Lang sat a u ∧ Lang sat b v := by
  constructor
  · intro h; cases h with | seq ha hb => exact ⟨_, _, rfl, ha, hb⟩
  · rintro ⟨u, v, rfl, ha, hb⟩; exact Lang.seq ha hb

theorem lang_alt {a b : Re σ} {w : List α} : Lang sat (alt a b) w ↔ Lang sat a w ∨ Lang sat b w := by
  constructor
  · intro h
    cases h with
    | altL h => exact Or.inl h
    | altR h => exact Or.inr h
  · rintro (h | h)
    · exact Lang.altL h
    · exact Lang.altR h

theorem isEmpty_eq {a : Re σ} (h : a.isEmpty = true) : a = empty := by
  cases a <;> first | rfl | cases h

theorem isEps_eq {a : Re σ} (h : a.isEps = true) : a = eps := by
  cases a <;> first | rfl | cases h

theorem mkSeq_lang {a b : Re σ} {w : List α} : Lang sat (mkSeq a b) w ↔ Lang sat (seq a b) w := by
  unfold mkSeq
  by_cases h1 : a.isEmpty = true
  · rw [if_pos h1, isEmpty_eq h1]
    constructor
    · intro h; exact absurd h lang_empty
    · intro h; obtain ⟨u, v, _, ha, _⟩ := lang_seq.mp h; exact absurd ha lang_empty
  · rw [if_neg h1]
    by_cases h2 : a.isEps = true
    · rw [if_pos h2, isEps_eq h2]
      constructor
      · intro h; simpa using Lang.seq (Lang.eps (sat := sat)) h
      · intro h
        obtain ⟨u, v, rfl, ha, hb⟩ := lang_seq.mp h
        rw [lang_eps.mp ha]; simpa using hb
    · rw [if_neg h2]

theorem mkAlt_lang {a b : Re σ} {w : List α} : Lang sat (mkAlt a b) w ↔ Lang sat (alt a b) w := by
  unfold mkAlt
  by_cases h1 : a.isEmpty = true
  · rw [if_pos h1, isEmpty_eq h1]
    constructor
    · intro h; exact Lang.altR h
    · intro h; rcases lang_alt.mp h with h | h
      · exact absurd h lang_empty
      · exact h
  · rw [if_neg h1]
    by_cases h2 : b.isEmpty = true
    · rw [if_pos h2, isEmpty_eq h2]
      constructor
      · intro h; exact Lang.altL h
      · intro h; rcases lang_alt.mp h with h | h
        · exact h
        · exact absurd h lang_empty
    · rw [if_neg h2]

theorem nullable_iff (r : Re σ) : r.nullable = true ↔ Lang sat r [] := by
  induction r with
  | empty => simp only [nullable]; constructor <;> intro h <;> first | cases h | exact absurd h lang_empty
  | eps => simp only [nullable]; exact ⟨fun _ => Lang.eps, fun _ => trivial⟩
  | sym s =>
    simp only [nullable]
    constructor
    · intro h; cases h
    · intro h; obtain ⟨x, hx, _⟩ := lang_sym.mp h; cases hx
  | seq a b iha ihb =>
    simp only [nullable, Bool.and_eq_true]
    constructor
    · rintro ⟨ha, hb⟩; simpa using Lang.seq (iha.mp ha) (ihb.mp hb)
    · intro h
      obtain ⟨u, v, huv, ha, hb⟩ := lang_seq.mp h
      have : u = [] ∧ v = [] := by simpa using huv.symm
      obtain ⟨rfl, rfl⟩ := this
      exact ⟨iha.mpr ha, ihb.mpr hb⟩
  | alt a b iha ihb =>
    simp only [nullable, Bool.or_eq_true]
    constructor
    · rintro (h | h)
      · exact Lang.altL (iha.mp h)
      · exact Lang.altR (ihb.mp h)
    · intro h
      rcases lang_alt.mp h with h | h
      · exact Or.inl (iha.mpr h)
      · exact Or.inr (ihb.mpr h)
  | star a _ => simp only [nullable]; exact ⟨fun _ => Lang.starNil, fun _ => trivial⟩

/-- A non-empty word of `star a` starts with a non-empty word of `a`. -/
theorem star_cons_inv {a : Re σ} {x : α} {w : List α} (h : Lang sat (star a) (x :: w)) :
    ∃ u v, w = u ++ v ∧ Lang sat a (x :: u) ∧ Lang sat (star a) v := by
  generalize hr : star a = r at h
  generalize hw : x :: w = w' at h
  induction h generalizing w with
  | eps => cases hr
  | sym _ => cases hr
  | seq _ _ => cases hr
  | altL _ => cases hr
  | altR _ => cases hr
  | starNil => cases hw
  | @starCons a' u v hu hv _ ihv =>
    cases hr
    cases u with
    | nil =>
      simp only [List.nil_append] at hw
      exact ihv rfl hw
    | cons y u' =>
      simp only [List.cons_append, List.cons.injEq] at hw
      obtain ⟨rfl, rfl⟩ := hw
      exact ⟨u', v, rfl, hu, hv⟩

theorem deriv_iff (r : Re σ) (x : α) (w : List α) : Lang sat (deriv sat r x) w ↔ Lang sat r (x :: w) := by
  induction r generalizing w with
  | empty => simp only [deriv]; constructor <;> intro h <;> exact absurd h lang_empty
  | eps =>
    simp only [deriv]
    constructor
    · intro h; exact absurd h lang_empty
    · intro h; cases lang_eps.mp h
  | sym s =>
    simp only [deriv]
    by_cases hs : sat s x = true
    · simp only [hs, if_true]
      constructor
      · intro h; rw [lang_eps.mp h]; exact Lang.sym hs
      · intro h
        obtain ⟨y, hy, _⟩ := lang_sym.mp h
        simp only [List.cons.injEq] at hy
        rw [hy.2]; exact Lang.eps
    · simp only [hs, Bool.false_eq_true, if_false]
      constructor
      · intro h; exact absurd h lang_empty
      · intro h
        obtain ⟨y, hy, hy'⟩ := lang_sym.mp h
        simp only [List.cons.injEq] at hy
        rw [← hy.1] at hy'; exact absurd hy' hs
  | seq a b iha ihb =>
    simp only [deriv]
    rw [mkAlt_lang, lang_alt, mkSeq_lang, lang_seq, lang_seq]
    constructor
    · rintro (⟨u, v, rfl, ha, hb⟩ | h)
      · exact ⟨x :: u, v, rfl, (iha u).mp ha, hb⟩
      · by_cases hn : a.nullable = true
        · simp only [hn, if_true] at h
          exact ⟨[], x :: w, rfl, (nullable_iff a).mp hn, (ihb w).mp h⟩
        · simp only [hn, Bool.false_eq_true, if_false] at h
          exact absurd h lang_empty
    · rintro ⟨u, v, huv, ha, hb⟩
      cases u with
      | nil =>
        simp only [List.nil_append] at huv
        subst huv
        right
        have hn : a.nullable = true := (nullable_iff a).mpr ha
        simp only [hn, if_true]
        exact (ihb w).mpr hb
      | cons y u' =>
        simp only [List.cons_append, List.cons.injEq] at huv
        obtain ⟨rfl, rfl⟩ := huv
        left
        exact ⟨u', v, rfl, (iha u').mpr ha, hb⟩
  | alt a b iha ihb =>
    simp only [deriv]
    rw [mkAlt_lang, lang_alt, lang_alt, iha, ihb]
  | star a iha =>
    simp only [deriv]
    rw [mkSeq_lang, lang_seq]
    constructor
    · rintro ⟨u, v, rfl, ha, hs⟩
      have := Lang.starCons ((iha u).mp ha) hs
      simpa using this
    · intro h
      obtain ⟨u, v, rfl, ha, hs⟩ := star_cons_inv h
      exact ⟨u, v, rfl, (iha u).mpr ha, hs⟩

theorem matches_iff (r : Re σ) (w : List α) : «matches» sat r w = true ↔ Lang sat r w := by
  induction w generalizing r with
  | nil => simp only [«matches»]; exact nullable_iff r
  | cons x w ih => simp only [«matches»]; rw [ih, deriv_iff]

/-! Languages of the derived forms. -/

theorem lang_seqL_cons {r : Re σ} {rs : List (Re σ)} {u v : List α}
    (hu : Lang sat r u) (hv : Lang sat (seqL rs) v) : Lang sat (seqL (r :: rs)) (u ++ v) :=
  Lang.seq hu hv

theorem lang_altL_mem {rs : List (Re σ)} {r : Re σ} {w : List α} (hr : r ∈ rs) (h : Lang sat r w) :
    Lang sat (altL rs) w := by
  induction rs with
  | nil => cases hr
  | cons q qs ih =>
    simp only [altL]
    rcases List.mem_cons.mp hr with rfl | hr
    · exact Lang.altL h
    · exact Lang.altR (ih hr)

/-- A word of single letters each accepted by `r`, of length exactly `n`, is in `pow r n`. -/
theorem lang_pow {r : Re σ} {w : List α} (hw : ∀ x ∈ w, Lang sat r [x]) :
    Lang sat (pow r w.length) w := by
  induction w with
  | nil => exact Lang.eps
  | cons x w ih =>
    simp only [List.length_cons, pow]
    have := Lang.seq (hw x (List.mem_cons_self ..)) (ih fun y hy => hw y (List.mem_cons_of_mem _ hy))
    simpa using this

theorem lang_star_letters {r : Re σ} {w : List α} (hw : ∀ x ∈ w, Lang sat r [x]) : Lang sat (star r) w := by
  induction w with
  | nil => exact Lang.starNil
  | cons x w ih =>
    have := Lang.starCons (hw x (List.mem_cons_self ..)) (ih fun y hy => hw y (List.mem_cons_of_mem _ hy))
    simpa using this

theorem lang_upTo {r : Re σ} {w : List α} (hw : ∀ x ∈ w, Lang sat r [x]) {n : Nat} (hn : w.length ≤ n) :
    Lang sat (upTo r n) w := by
  induction n generalizing w with
  | zero =>
    have : w = [] := List.eq_nil_of_length_eq_zero (Nat.le_zero.mp hn)
    subst this; exact Lang.eps
  | succ n ih =>
    simp only [upTo, opt]
    cases w with
    | nil => exact Lang.altL Lang.eps
    | cons x w =>
      apply Lang.altR
      have h1 := hw x (List.mem_cons_self ..)
      have h2 := ih (w := w) (fun y hy => hw y (List.mem_cons_of_mem _ hy)) (by simpa using hn)
      simpa using Lang.seq h1 h2

/-- `rep r lo hi` accepts every word of `lo..hi` letters that `r` accepts one by one. -/
theorem lang_rep {r : Re σ} {w : List α} (hw : ∀ x ∈ w, Lang sat r [x]) {lo : Nat} {hi : Option Nat}
    (hlo : lo ≤ w.length) (hhi : ∀ h, hi = some h → w.length ≤ h) : Lang sat (rep r lo hi) w := by
  have hsplit : w = w.take lo ++ w.drop lo := (List.take_append_drop lo w).symm
  have htake : (w.take lo).length = lo := by simp [List.length_take, Nat.min_eq_left hlo]
  have h1 : Lang sat (pow r lo) (w.take lo) := by
    have := lang_pow (sat := sat) (r := r) (w := w.take lo) (fun x hx => hw x (List.mem_of_mem_take hx))
    rwa [htake] at this
  have hdrop : ∀ x ∈ w.drop lo, Lang sat r [x] := fun x hx => hw x (List.mem_of_mem_drop hx)
  cases hi with
  | none =>
    simp only [rep]
    rw [hsplit]
    exact Lang.seq h1 (lang_star_letters hdrop)
  | some h =>
    simp only [rep]
    rw [hsplit]
    refine Lang.seq h1 (lang_upTo hdrop ?_)
    have := hhi h rfl
    simp only [List.length_drop]
    omega

end Re
end Validate
