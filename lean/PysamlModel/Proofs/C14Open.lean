/-
  C14 — helper lemmas for the round-5 theorems: the header-carrying SOAP receiver (`openParts`),
  the URI binding (`uriUrl`, `uriData`).
-/
import PysamlModel.Proofs.C14Misc
namespace C14
open Codec Bindings C14Spec

/-! ### `openParts` -/

/-- What a successful run of the loop returns, for ANY list of parts and any accumulator: the
    header items appended in document order, the first child of the last Body part (the incoming
    body when there is none), everything it returns is `known`. -/
theorem openParts_ok {ε : Type} (known : ε → Bool) (parts : List (Part ε)) :
    ∀ (hs0 : List ε) (b0 : Option ε) (hs : List ε) (b : Option ε),
      openParts known parts hs0 b0 = .ok hs b →
      hs = hs0 ++ headerItems parts ∧
      (lastBodyHead parts (b0.map some) = b.map some) ∧
      (∀ x ∈ headerItems parts, known x = true) ∧
      (∀ x, b = some x → b0 = some x ∨ known x = true) := by
  induction parts with
  | nil =>
    intro hs0 b0 hs b h
    simp only [openParts, Opened.ok.injEq] at h
    obtain ⟨h1, h2⟩ := h
    subst h1; subst h2
    simp only [headerItems, lastBodyHead, List.append_nil, List.not_mem_nil, false_imp_iff, implies_true, true_and]
    exact fun x hx => Or.inl hx
  | cons p rest ih =>
    intro hs0 b0 hs b h
    cases p with
    | other =>
      simp only [openParts] at h
      simpa [headerItems, lastBodyHead] using ih hs0 b0 hs b h
    | header cs =>
      simp only [openParts] at h
      by_cases hk : cs.all known = true
      · simp only [hk, if_true] at h
        obtain ⟨h1, h2, h3, h4⟩ := ih (hs0 ++ cs) b0 hs b h
        refine ⟨by simp [headerItems, h1], by simpa [lastBodyHead] using h2, ?_, h4⟩
        intro x hx
        simp only [headerItems, List.mem_append] at hx
        rcases hx with hx | hx
        · exact (List.all_eq_true.mp hk) x hx
        · exact h3 x hx
      · simp [hk] at h
    | body cs =>
      cases cs with
      | nil => simp [openParts] at h
      | cons e tl =>
        simp only [openParts] at h
        by_cases hk : known e = true
        · simp only [hk, if_true] at h
          obtain ⟨h1, h2, h3, h4⟩ := ih hs0 (some e) hs b h
          refine ⟨by simpa [headerItems] using h1, by simpa [lastBodyHead] using h2, by simpa [headerItems] using h3, ?_⟩
          intro x hx
          rcases h4 x hx with h5 | h5
          · right; cases h5; exact hk
          · right; exact h5
        · simp [hk] at h

theorem lastBodyHead_bodyParts {ε : Type} (parts : List (Part ε)) :
    ∀ acc : Option (Option ε),
      (bodyParts parts = [] → lastBodyHead parts acc = acc) ∧
      (∀ cs, bodyParts parts = [cs] → lastBodyHead parts acc = some cs.head?) := by
  induction parts with
  | nil => intro acc; simp [bodyParts, lastBodyHead]
  | cons p rest ih =>
    intro acc
    cases p with
    | other => simpa [bodyParts, lastBodyHead] using ih acc
    | header cs => simpa [bodyParts, lastBodyHead] using ih acc
    | body cs =>
      refine ⟨by simp [bodyParts], ?_⟩
      intro cs' h
      simp only [bodyParts, List.cons.injEq] at h
      obtain ⟨h1, h2⟩ := h
      subst h1
      simp only [lastBodyHead]
      exact (ih (some cs.head?)).1 h2

theorem soapOpen_wrap {ε : Type} (known : ε → Bool) (hdrs : List ε) (e : ε) :
    soapOpenTree known (soapWrapTree hdrs e) =
      if known e && hdrs.all known then .ok hdrs (some e) else .refused := by
  unfold soapOpenTree soapWrapTree
  by_cases h : hdrs.isEmpty = true
  · have : hdrs = [] := by simpa using h
    subst this
    by_cases hk : known e = true <;> simp [openParts, hk]
  · by_cases hk : known e = true <;> by_cases ha : hdrs.all known = true <;> simp [h, openParts, hk, ha]

theorem headerItems_wrap {ε : Type} (hdrs : List ε) (e : ε) : headerItems (soapWrapTree hdrs e).parts = hdrs := by
  unfold soapWrapTree
  by_cases h : hdrs.isEmpty = true
  · have : hdrs = [] := by simpa using h
    subst this
    simp [headerItems]
  · simp [h, headerItems]

/-! ### URI binding -/

theorem isBytes_ID : IsBytes sID := by decide

theorem dropWhile_space_id (t : List Nat) (h : ∀ c, t.head? = some c → pyIsSpace c = false) :
    t.dropWhile pyIsSpace = t := by
  cases t with
  | nil => rfl
  | cons c tl => simp [List.dropWhile, h c rfl]

theorem pyStrip_id (t : List Nat) (h1 : ∀ c, t.head? = some c → pyIsSpace c = false)
    (h2 : ∀ c, t.getLast? = some c → pyIsSpace c = false) : pyStrip t = t := by
  unfold pyStrip
  rw [dropWhile_space_id t h1, dropWhile_space_id t.reverse (by simpa using h2), List.reverse_reverse]

end C14
