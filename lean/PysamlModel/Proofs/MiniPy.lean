import PysamlModel.Model.MiniPy

/-! Lemmas about the MiniPy interpreter that do not depend on any translated function: environments, and stepping
    through a block one statement at a time. -/

namespace PyTie
open MiniPy

theorem lookup_setVar_same (env : Env) (x : String) (v : Val) : lookup (setVar env x v) x = some v := by
  simp [lookup, setVar]

theorem find_filter_ne (x y : String) (h : y ≠ x) (env : Env) :
    List.find? (fun p => p.1 == y) (List.filter (fun p => p.1 != x) env) = List.find? (fun p => p.1 == y) env := by
  induction env with
  | nil => rfl
  | cons p ps ih =>
    rcases p with ⟨k, w⟩
    by_cases hk : k = x
    · subst hk
      have hky : (k == y) = false := by simpa using (fun e => h e.symm)
      simp [List.filter_cons, List.find?_cons, hky, ih]
    · have hkx : (k != x) = true := by simpa using hk
      by_cases hy : k = y
      · subst hy; simp [List.filter_cons, List.find?_cons, hkx]
      · have hky : (k == y) = false := by simpa using hy
        simp [List.filter_cons, List.find?_cons, hkx, hky, ih]

theorem lookup_setVar_ne (env : Env) (x y : String) (v : Val) (h : y ≠ x) :
    lookup (setVar env x v) y = lookup env y := by
  have h1 : ((x == y) = false) := by simpa using (fun e => h e.symm)
  simp only [lookup, setVar, List.find?_cons, h1, find_filter_ne x y h env]

theorem lookup_cons_same (k : String) (v : Val) (fs : List (String × Val)) : lookup ((k, v) :: fs) k = some v := by
  simp [lookup]


theorem evalBlock_cons (strip : String → String) (ext : Ext) (f : Nat) (env : Env) (st : Stmt) (ss : List Stmt) :
    evalBlock strip ext (f + 1) env (st :: ss) =
      (match evalStmt strip ext f env st with
       | .normal env' => evalBlock strip ext f env' ss
       | other => other) := by
  rfl

theorem evalBlock_nil (strip : String → String) (ext : Ext) (f : Nat) (env : Env) :
    evalBlock strip ext (f + 1) env [] = .normal env := by
  simp [evalBlock]



theorem evalStmt_ifs (strip : String → String) (ext : Ext) (f : Nat) (env : Env) (c : Expr) (t el : List Stmt) :
    evalStmt strip ext (f + 1) env (.ifs c t el) =
      (match evalExpr strip ext f env c with
       | .ok v => if truthy v then evalBlock strip ext f env t else evalBlock strip ext f env el
       | .raise c' => .raise c' env
       | .stuck w => .stuck w) := rfl

theorem evalExpr_call (strip : String → String) (ext : Ext) (f : Nat) (env : Env) (fn : String) (args : List Expr) :
    evalExpr strip ext (f + 1) env (.call fn args) =
      (match evalArgs strip ext f env args with
       | .ok vs => (match builtin fn vs with
         | some r => r
         | none => ext fn vs)
       | .raise c => .raise c
       | .stuck w => .stuck w) := rfl

theorem evalExpr_not (strip : String → String) (ext : Ext) (f : Nat) (env : Env) (e : Expr) :
    evalExpr strip ext (f + 1) env (.not e) =
      (match evalExpr strip ext f env e with
       | .ok v => .ok (.bool (!truthy v))
       | .raise c => .raise c
       | .stuck w => .stuck w) := rfl

theorem evalExpr_and (strip : String → String) (ext : Ext) (f : Nat) (env : Env) (a b : Expr) :
    evalExpr strip ext (f + 1) env (.and a b) =
      (match evalExpr strip ext f env a with
       | .ok v => if truthy v then evalExpr strip ext f env b else .ok v
       | .raise c => .raise c
       | .stuck w => .stuck w) := rfl

theorem evalStmt_setattr (strip : String → String) (ext : Ext) (f : Nat) (env : Env) (o fld : String) (e : Expr) :
    evalStmt strip ext (f + 1) env (.setattr o fld e) =
      (match evalExpr strip ext f env e with
       | .ok v => (match lookup env o with
         | some (.obj fs) => .normal (setVar env o (.obj (setField fs fld v)))
         | some _ => .stuck "attribute assignment on a non-object"
         | none => .raise "NameError" env)
       | .raise c => .raise c env
       | .stuck w => .stuck w) := rfl

theorem evalStmt_expr (strip : String → String) (ext : Ext) (f : Nat) (env : Env) (e : Expr) :
    evalStmt strip ext (f + 1) env (.expr e) =
      (match evalExpr strip ext f env e with
       | .ok _ => .normal env
       | .raise c => .raise c env
       | .stuck w => .stuck w) := rfl

theorem evalStmt_try (strip : String → String) (ext : Ext) (f : Nat) (env : Env) (body : List Stmt)
    (handlers : List (String × List Stmt)) :
    evalStmt strip ext (f + 1) env (.try body handlers) =
      (match evalBlock strip ext f env body with
       | .raise c env' =>
         (match handlers.find? (fun h => h.1 == "Exception" || h.1 == c) with
          | some h => evalBlock strip ext f (setVar env' excVar (.str c)) h.2
          | none => .raise c env')
       | other => other) := rfl

end PyTie
