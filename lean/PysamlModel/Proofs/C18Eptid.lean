import PysamlModel.Model.Ident
import PysamlModel.Proofs.C18Db

/-!
  C18 — `saml2.eptid.Eptid`: `make` is injective in (sp, user) under an ideal-hash assumption,
  the cache makes `get` deterministic over any history, and without a cache-key collision
  every call returns `make` of its own arguments.
-/
namespace Ident

/-- ideal-hash assumption: injective, and the (hex) digest never contains '!' (byte 33) -/
structure HashOk (hash : Str → Str) : Prop where
  inj : ∀ a b, hash a = hash b → a = b
  noBang : ∀ a, (33 : UInt8) ∉ hash a

/-! ### `make` -/

/-- splitting at the last occurrence of `c` is unique -/
theorem ept_split_last {α : Type} (c : α) :
    ∀ (a a' b b' : List α), a ++ c :: b = a' ++ c :: b' → c ∉ b → c ∉ b' → a = a' ∧ b = b'
  | [], [], b, b', e, _, _ => by simpa using e
  | [], x :: a', b, b', e, hb, _ => by
    simp only [List.nil_append, List.cons_append, List.cons.injEq] at e
    exact absurd (by rw [e.2]; simp) hb
  | x :: a, [], b, b', e, _, hb' => by
    simp only [List.nil_append, List.cons_append, List.cons.injEq] at e
    exact absurd (by rw [← e.2]; simp) hb'
  | x :: a, y :: a', b, b', e, hb, hb' => by
    simp only [List.cons_append, List.cons.injEq] at e
    obtain ⟨rfl, e⟩ := e
    obtain ⟨h1, h2⟩ := ept_split_last c a a' b b' e hb hb'
    exact ⟨by rw [h1], h2⟩

theorem eptidMake_injective (hash : Str → Str) (h : HashOk hash) (secret idp sp sp' u u' : Str)
    (e : eptidMake hash secret idp sp [u] = eptidMake hash secret idp sp' [u']) : sp = sp' ∧ u = u' := by
  unfold eptidMake at e
  have e1 := List.append_cancel_left e
  have e2 := (List.cons.inj e1).2
  obtain ⟨hsp, hh⟩ := ept_split_last 33 _ _ _ _ e2 (h.noBang _) (h.noBang _)
  subst hsp
  have e3 := h.inj _ _ hh
  have e4 := List.append_cancel_right e3
  have e5 := List.append_cancel_right e4
  simpa using e5

/-! ### one `get` call, as a value and a next cache -/

/-- what a `get` for the call `c` answers from `cache` -/
def ept_val (hash : Str → Str) (secret idp : Str) (cache : DB) (c : Str × Str) : Str :=
  (cache.get (eptidKey c.1 c.2)).getD (eptidMake hash secret idp c.1 [c.2])

/-- the cache after a `get` for the call `c` -/
def ept_next (hash : Str → Str) (secret idp : Str) (cache : DB) (c : Str × Str) : DB :=
  match cache.get (eptidKey c.1 c.2) with
  | some _ => cache
  | none => cache.set (eptidKey c.1 c.2) (eptidMake hash secret idp c.1 [c.2])

theorem ept_run_nil (hash : Str → Str) (secret idp : Str) (cache : DB) :
    eptidRun hash secret idp cache [] = ([], cache) := rfl

theorem ept_run_cons (hash : Str → Str) (secret idp : Str) (cache : DB) (c : Str × Str)
    (rest : List (Str × Str)) :
    eptidRun hash secret idp cache (c :: rest) =
      (ept_val hash secret idp cache c :: (eptidRun hash secret idp (ept_next hash secret idp cache c) rest).1,
       (eptidRun hash secret idp (ept_next hash secret idp cache c) rest).2) := by
  obtain ⟨sp, user⟩ := c
  simp only [eptidRun, eptidGet, ept_val, ept_next]
  cases h : DB.get cache (eptidKey sp user) <;> simp

theorem ept_next_get_self (hash : Str → Str) (secret idp : Str) (cache : DB) (c : Str × Str) :
    (ept_next hash secret idp cache c).get (eptidKey c.1 c.2) = some (ept_val hash secret idp cache c) := by
  unfold ept_next ept_val
  cases h : DB.get cache (eptidKey c.1 c.2) with
  | some v => simp [h]
  | none => simp [DB.get_set_self]

theorem ept_next_get_mono (hash : Str → Str) (secret idp : Str) (cache : DB) (c : Str × Str) (k v : Str)
    (hk : cache.get k = some v) : (ept_next hash secret idp cache c).get k = some v := by
  unfold ept_next
  cases h : DB.get cache (eptidKey c.1 c.2) with
  | some w => simpa using hk
  | none =>
    have hne : k ≠ eptidKey c.1 c.2 := by
      intro e; rw [e, h] at hk; cases hk
    simp only
    rw [DB.get_set_ne _ _ _ _ hne]; exact hk

/-! ### histories -/

theorem eptidRun_length (hash : Str → Str) (secret idp : Str) (cache : DB) (calls : List (Str × Str)) :
    (eptidRun hash secret idp cache calls).1.length = calls.length := by
  induction calls generalizing cache with
  | nil => rfl
  | cons c rest ih => rw [ept_run_cons]; simp [ih]

/-- entries are never changed once present -/
theorem ept_run_get_mono (hash : Str → Str) (secret idp : Str) (cache : DB) (calls : List (Str × Str))
    (k v : Str) (hk : cache.get k = some v) : (eptidRun hash secret idp cache calls).2.get k = some v := by
  induction calls generalizing cache with
  | nil => exact hk
  | cons c rest ih =>
    rw [ept_run_cons]
    exact ih _ (ept_next_get_mono hash secret idp cache c k v hk)

/-- the answer at position `i` is what the final cache holds under that call's key -/
theorem ept_run_final (hash : Str → Str) (secret idp : Str) (cache : DB) (calls : List (Str × Str))
    (i : Nat) (c : Str × Str) (hc : calls[i]? = some c) :
    ∃ v, (eptidRun hash secret idp cache calls).1[i]? = some v ∧
      (eptidRun hash secret idp cache calls).2.get (eptidKey c.1 c.2) = some v := by
  induction calls generalizing cache i with
  | nil => simp at hc
  | cons d rest ih =>
    rw [ept_run_cons]
    cases i with
    | zero =>
      simp only [List.getElem?_cons_zero, Option.some.injEq] at hc
      subst hc
      refine ⟨ept_val hash secret idp cache d, by simp, ?_⟩
      exact ept_run_get_mono hash secret idp _ rest _ _ (ept_next_get_self hash secret idp cache d)
    | succ i =>
      simp only [List.getElem?_cons_succ] at hc
      obtain ⟨v, h1, h2⟩ := ih (ept_next hash secret idp cache d) i hc
      exact ⟨v, by simpa using h1, h2⟩

set_option linter.unusedVariables false in
/-- same (sp, user) ⇒ same value, at any two positions of any history (no assumption on hash) -/
theorem eptidRun_deterministic (hash : Str → Str) (secret idp : Str) (calls : List (Str × Str)) (i j : Nat)
    (hi : i < calls.length) (hj : j < calls.length) (h : calls[i]? = calls[j]?) :
    (eptidRun hash secret idp [] calls).1[i]? = (eptidRun hash secret idp [] calls).1[j]? := by
  have hci : calls[i]? = some calls[i] := List.getElem?_eq_getElem hi
  have hcj : calls[j]? = some calls[i] := by rw [← h]; exact hci
  obtain ⟨v, h1, h2⟩ := ept_run_final hash secret idp [] calls i _ hci
  obtain ⟨w, h3, h4⟩ := ept_run_final hash secret idp [] calls j _ hcj
  have : v = w := by rw [h2] at h4; exact Option.some.inj h4
  rw [h1, h3, this]

def NoKeyCollision (calls : List (Str × Str)) : Prop :=
  ∀ a ∈ calls, ∀ b ∈ calls, eptidKey a.1 a.2 = eptidKey b.1 b.2 → a = b

theorem ept_run_eq_make_gen (hash : Str → Str) (secret idp : Str) (cache : DB) (calls : List (Str × Str))
    (hc : NoKeyCollision calls)
    (hinv : ∀ c ∈ calls, ∀ v, cache.get (eptidKey c.1 c.2) = some v → v = eptidMake hash secret idp c.1 [c.2]) :
    (eptidRun hash secret idp cache calls).1 = calls.map (fun c => eptidMake hash secret idp c.1 [c.2]) := by
  induction calls generalizing cache with
  | nil => rfl
  | cons d rest ih =>
    rw [ept_run_cons]
    have hval : ept_val hash secret idp cache d = eptidMake hash secret idp d.1 [d.2] := by
      unfold ept_val
      cases h : DB.get cache (eptidKey d.1 d.2) with
      | none => rfl
      | some v => exact hinv d (by simp) v h
    have hc' : NoKeyCollision rest := fun a ha b hb e =>
      hc a (List.mem_cons_of_mem _ ha) b (List.mem_cons_of_mem _ hb) e
    have hinv' : ∀ c ∈ rest, ∀ v, (ept_next hash secret idp cache d).get (eptidKey c.1 c.2) = some v →
        v = eptidMake hash secret idp c.1 [c.2] := by
      intro c hcm v hv
      unfold ept_next at hv
      cases h : DB.get cache (eptidKey d.1 d.2) with
      | some w =>
        rw [h] at hv
        exact hinv c (List.mem_cons_of_mem _ hcm) v hv
      | none =>
        rw [h] at hv
        simp only at hv
        rw [DB.get_set] at hv
        by_cases hk : eptidKey c.1 c.2 = eptidKey d.1 d.2
        · rw [if_pos hk] at hv
          have hcd : c = d := hc c (List.mem_cons_of_mem _ hcm) d (by simp) hk
          subst hcd
          exact (Option.some.inj hv).symm
        · rw [if_neg hk] at hv
          exact hinv c (List.mem_cons_of_mem _ hcm) v hv
    simp only [List.map_cons, hval]
    rw [ih _ hc' hinv']

/-- without a cache-key collision every call returns `make` of its own arguments -/
theorem eptidRun_eq_make (hash : Str → Str) (secret idp : Str) (calls : List (Str × Str)) (hc : NoKeyCollision calls) :
    (eptidRun hash secret idp [] calls).1 = calls.map (fun c => eptidMake hash secret idp c.1 [c.2]) := by
  apply ept_run_eq_make_gen hash secret idp [] calls hc
  intro c _ v hv
  rw [DB.get_nil] at hv
  cases hv

/-! ### `quote` satisfies the hash assumption -/

theorem ept_safe_ne (b : UInt8) : isSafe b = true → b ≠ 37 ∧ b ≠ 33 := by
  intro h
  constructor <;> (intro e; subst e; revert h; decide)

theorem ept_hex_roundtrip : ∀ d, d < 16 → hexVal (hexDigit d) = some d := by decide

theorem ept_hex_ne_bang : ∀ d, d < 16 → hexDigit d ≠ 33 := by decide

theorem ept_unquote_cons_ne (c : UInt8) (r : Str) (h : c ≠ 37) : unquote (c :: r) = c :: unquote r := by
  match r with
  | [] => simp [unquote]
  | [a] => simp [unquote]
  | a :: b :: r => simp [unquote, h]

theorem ept_unquote_quote (s : Str) : unquote (quote s) = s := by
  induction s with
  | nil => rfl
  | cons b bs ih =>
    simp only [quote, quoteByte]
    by_cases hs : isSafe b = true
    · rw [if_pos hs]
      simp only [List.cons_append, List.nil_append]
      rw [ept_unquote_cons_ne _ _ (ept_safe_ne b hs).1, ih]
    · rw [if_neg hs]
      have hlt := b.toNat_lt
      have h1 : hexVal (hexDigit (b.toNat / 16)) = some (b.toNat / 16) :=
        ept_hex_roundtrip _ (by omega)
      have h2 : hexVal (hexDigit (b.toNat % 16)) = some (b.toNat % 16) :=
        ept_hex_roundtrip _ (by omega)
      simp only [List.cons_append, List.nil_append, unquote, if_true, h1, h2, ih]
      rw [Nat.div_add_mod]
      simp

theorem ept_quote_noBang (s : Str) : (33 : UInt8) ∉ quote s := by
  induction s with
  | nil => simp [quote]
  | cons b bs ih =>
    simp only [quote, quoteByte, List.mem_append, not_or]
    refine ⟨?_, ih⟩
    by_cases hs : isSafe b = true
    · rw [if_pos hs]
      have := (ept_safe_ne b hs).2
      simp only [List.mem_singleton]
      exact fun e => this e.symm
    · rw [if_neg hs]
      have hlt := b.toNat_lt
      have h1 := ept_hex_ne_bang (b.toNat / 16) (by omega)
      have h2 := ept_hex_ne_bang (b.toNat % 16) (by omega)
      simp only [List.mem_cons, List.not_mem_nil, or_false, not_or]
      exact ⟨by decide, fun e => h1 e.symm, fun e => h2 e.symm⟩

/-- `quote` is a legitimate instance of the hash assumption (used for non-vacuity / the counterexample) -/
theorem hashOk_quote : HashOk quote where
  inj a b e := by
    have := congrArg unquote e
    rwa [ept_unquote_quote, ept_unquote_quote] at this
  noBang := ept_quote_noBang

end Ident
