/-
  C12 helper lemmas, part 7: the whole round trip `harvest ∘ wire ∘ serialise` on wire-clean instances,
  and the absence of exceptions on it.
-/
import PysamlModel.Proofs.C12Av

set_option linter.unusedSimpArgs false
set_option linter.unusedVariables false

namespace ObjModel

/-! ### clean extension elements pass the wire unchanged (up to empty text) -/

mutual
theorem wireExt_of_clean : ∀ e : ExtEl, extClean e = true → wireExt e = normExt e
  | .mk ns tag attrs kids text => by
    simp only [extClean, Bool.and_eq_true, List.all_eq_true, Bool.not_eq_true']
    intro h
    simp only [wireExt, normExt, wireText_of_noCR text h.1.2, wireExtList_of_clean kids h.2]
    congr 1
    apply List.filter_eq_self.mpr
    intro p hp; simp [h.1.1 p hp]
theorem wireExtList_of_clean : ∀ l : List ExtEl, extCleanList l = true → wireExtList l = normExtList l
  | [] => fun _ => rfl
  | e :: r => by
    simp only [extCleanList, Bool.and_eq_true, wireExtList, normExtList]
    intro h
    rw [wireExt_of_clean e h.1, wireExtList_of_clean r h.2]
end

theorem listClean_spec (E : Env) (s : List Inst) : listClean E s = true ↔ ∀ k ∈ s, wireClean E k = true := by
  induction s with
  | nil => simp [listClean]
  | cons k r ih => simp [listClean, ih]

theorem slotsClean_spec (E : Env) (ss : List (List Inst)) :
    slotsClean E ss = true ↔ ∀ s ∈ ss, ∀ k ∈ s, wireClean E k = true := by
  induction ss with
  | nil => simp [slotsClean]
  | cons s r ih => simp [slotsClean, ih, listClean_spec]

theorem slotsOk_mem (strict : Bool) (T : Nat → ClassDef) (ds : List ChildDecl) (ss : List (List Inst))
    (h : slotsOk strict T ds ss = true) : ∀ s ∈ ss, ∀ k ∈ s, instOk strict T k = true := by
  obtain ⟨hlen, hsl⟩ := slotsOk_spec strict T ds ss h
  intro s hs k hk
  obtain ⟨j, hj, rfl⟩ := List.mem_iff_getElem.mp hs
  exact ((hsl j (by omega) hj).2 k hk).2

theorem normList_eq_map (l : List Inst) : normList l = l.map normInst := by
  induction l with
  | nil => rfl
  | cons a r ih => simp [normList, ih]

theorem normSlots_eq_map (l : List (List Inst)) : normSlots l = l.map normList := by
  induction l with
  | nil => rfl
  | cons a r ih => simp [normSlots, ih]

theorem instOk_parts {strict : Bool} {T : Nat → ClassDef} {c : Nat} {as : List (Option Str)} {ss : List (List Inst)}
    {t : Option Str} {ee : List ExtEl} {ea : Attrs} (h : instOk strict T (.mk c as ss t ee ea) = true) :
    slotsOk strict T (T c).children ss = true ∧ (keysOf ea).Nodup := by
  simp only [instOk, Bool.and_eq_true] at h
  exact ⟨h.1.1.1.1.1.2, nodupNat_iff.mp h.1.1.2⟩

/-- the instance the wire leaves, re-parsed, is the instance itself (empty text = no text) -/
theorem canon_wireInst (E : Env) (hK : avConstsOk E.K = true) :
    ∀ i, treeWf E.T i = true → wireClean E i = true → canon E (wireInst i) = normInst i := by
  intro i
  induction i using Inst.induct with
  | h c as ss t ee ea ih =>
    intro hwf hcl
    obtain ⟨hslots, hnd⟩ := instOk_parts hwf
    have hkwf := slotsOk_mem true E.T _ ss hslots
    simp only [wireClean, Bool.and_eq_true] at hcl
    obtain ⟨⟨⟨hcr, hec⟩, hsc⟩, hkind⟩ := hcl
    have hkc := (slotsClean_spec E ss).mp hsc
    have hslotsEq : canonSlots E (wireSlots ss) = normSlots ss := by
      rw [canonSlots_eq_map, wireSlots_eq_map, normSlots_eq_map, List.map_map]
      apply List.map_congr_left
      intro s hs
      simp only [Function.comp, canonList_eq_map, wireList_eq_map, normList_eq_map, List.map_map]
      apply List.map_congr_left
      intro k hk
      exact ih s hs k hk (hkwf s hs k hk) (hkc s hs k hk)
    simp only [wireInst, canon, normInst]
    cases hk : (E.T c).kind with
    | plain =>
      rw [hk] at hkind
      simp only [List.all_eq_true, Bool.not_eq_true'] at hkind
      have hfil : (ea.filter fun p => !isNsDecl p.1) = ea := by
        apply List.filter_eq_self.mpr
        intro p hp; simp [hkind p hp]
      simp only [hslotsEq, wireText_of_noCR t hcr, wireExtList_of_clean ee hec, hfil]
    | attrValue =>
      rw [hk] at hkind
      have hext : (!(wireExtList ee).isEmpty) = (!ee.isEmpty) := by
        cases ee <;> simp [wireExtList]
      simp only [hext]
      simp only [avFinish_canonical E.K E.conv ea t (!ee.isEmpty) hK hnd hcr hkind, hslotsEq,
        wireExtList_of_clean ee hec]

/-! ### no exception on the way -/

mutual
def canonOk (E : Env) : Inst → Bool
  | .mk c _ ss t ee ea =>
    canonOkSlots E ss &&
    (match (E.T c).kind with
     | .plain => true
     | .attrValue => (avFinish E.K E.conv (dictSetAll [(E.K.xsiNil, sTrue)] ea) t (!ee.isEmpty)).isSome)
def canonOkSlots (E : Env) : List (List Inst) → Bool
  | [] => true
  | s :: r => canonOkList E s && canonOkSlots E r
def canonOkList (E : Env) : List Inst → Bool
  | [] => true
  | k :: r => canonOk E k && canonOkList E r
end

theorem canonOkList_spec (E : Env) (s : List Inst) : canonOkList E s = true ↔ ∀ k ∈ s, canonOk E k = true := by
  induction s with
  | nil => simp [canonOkList]
  | cons k r ih => simp [canonOkList, ih]

theorem canonOkSlots_spec (E : Env) (ss : List (List Inst)) :
    canonOkSlots E ss = true ↔ ∀ s ∈ ss, ∀ k ∈ s, canonOk E k = true := by
  induction ss with
  | nil => simp [canonOkSlots]
  | cons s r ih => simp [canonOkSlots, ih, canonOkList_spec]

/-- what one child contributes to `raises` -/
def kidRaises (E : Env) (ds : List ChildDecl) (k : XNode) : Bool :=
  match findDecl ds k.tag with
  | some (_, d) =>
    match d.cls with
    | some c' => if (E.T c').tag = k.tag then raises E c' k else d.isList
    | none => true
  | none => false

theorem raisesKids_eq_any (E : Env) (ds : List ChildDecl) (l : List XNode) :
    raisesKids E ds l = l.any (kidRaises E ds) := by
  induction l with
  | nil => simp [raisesKids]
  | cons k r ih =>
    simp only [raisesKids, List.any_cons, ih, kidRaises]
    cases findDecl ds k.tag with
    | none => rfl
    | some p =>
      obtain ⟨j, d⟩ := p
      cases d.cls <;> rfl

theorem mem_orderedKids {cd : ClassDef} {ks : List (List XNode)} {x : XNode} (h : x ∈ orderedKids cd ks) :
    ∃ j, ∃ hj : j < ks.length, x ∈ ks[j] := by
  simp only [orderedKids, List.mem_flatMap] at h
  obtain ⟨m, _, hx⟩ := h
  cases hi : idxOf (members cd) m with
  | none => simp [hi] at hx
  | some j =>
    simp only [hi, List.getD] at hx
    by_cases hj : j < ks.length
    · exact ⟨j, hj, by simpa [hj] using hx⟩
    · simp [List.getElem?_eq_none (by omega : ks.length ≤ j)] at hx

theorem raises_serialise (E : Env) (hT : TableWf E.T) :
    ∀ i, treeWf E.T i = true → canonOk E i = true → raises E i.cls (serialise E.T i) = false := by
  intro i
  induction i using Inst.induct with
  | h c as ss t ee ea ih =>
    intro hwf hco
    obtain ⟨hcd, hsound⟩ := hT c
    obtain ⟨hkeys, hnames, hord, hnons, hinit, hdfl, hav⟩ := classWf_spec (E.T c) hcd
    have hwf0 := hwf
    simp only [treeWf, instOk, Bool.and_eq_true, beq_iff_eq, List.all_eq_true, Bool.not_true, Bool.false_or,
      Option.isNone_iff_eq_none] at hwf
    obtain ⟨⟨⟨⟨⟨⟨hal, hslots⟩, hee⟩, _⟩, heand⟩, heaf⟩, hdef, hzip⟩ := hwf
    obtain ⟨hlen, hsl⟩ := slotsOk_spec true E.T _ ss hslots
    simp only [canonOk, Bool.and_eq_true] at hco
    obtain ⟨hcos, hcok⟩ := hco
    have hcok' := (canonOkSlots_spec E ss).mp hcos
    have hkidsR : raisesKids E (E.T c).children (orderedKids (E.T c) (serSlots E.T ss) ++ ofExtList ee) = false := by
      rw [raisesKids_eq_any]
      apply Bool.eq_false_iff.mpr
      intro hany
      obtain ⟨x, hx, hr⟩ := List.any_eq_true.mp hany
      rcases List.mem_append.mp hx with h1 | h1
      · obtain ⟨j, hj, hxj⟩ := mem_orderedKids h1
        have hjs : j < ss.length := by rw [serSlots_eq_map] at hj; simpa using hj
        have hjd : j < (E.T c).children.length := by omega
        have hxs : x ∈ serList E.T ss[j] := by
          have : (serSlots E.T ss)[j] = serList E.T ss[j] := by simp [serSlots_eq_map]
          rw [← this]; exact hxj
        rw [serList_eq_map] at hxs
        obtain ⟨k, hk, rfl⟩ := List.mem_map.mp hxs
        obtain ⟨hc, hw⟩ := (hsl j hjd hjs).2 k hk
        have hs' := hsound (E.T c).children[j] (List.getElem_mem hjd)
        simp only [declSound, ← hc, decide_eq_true_eq] at hs'
        have hfind : findDecl (E.T c).children (serialise E.T k).tag = some (j, (E.T c).children[j]) := by
          rw [serialise_tag, hs']; exact findDecl_getElem_of_nodup hkeys hjd
        unfold kidRaises at hr
        rw [hfind] at hr
        simp only [← hc, serialise_tag, hs', if_true] at hr
        rw [ih ss[j] (List.getElem_mem hjs) k hk hw (hcok' ss[j] (List.getElem_mem hjs) k hk)] at hr
        cases hr
      · rw [ofExtList_eq_map] at h1
        obtain ⟨e, he, rfl⟩ := List.mem_map.mp h1
        simp [kidRaises, ofExt_tag, hee e he] at hr
    simp only [Inst.cls, serialise, raises, hkidsR, Bool.false_or]
    cases hkind : (E.T c).kind with
    | plain => rfl
    | attrValue =>
      obtain ⟨hc0, ha0, hd0⟩ := hav hkind
      rw [hkind] at hcok
      have hkids := harvest_serialise_kids E (E.T c) hcd hsound ss ee hslots hee
        (fun s hs k hk hw => harvest_serialise E hT k hw)
      have heanod : (keysOf ea).Nodup := nodupNat_iff.mp heand
      have has : as = [] := by
        rw [ha0] at hal; exact List.eq_nil_of_length_eq_zero (by simpa using hal)
      have hini : (E.T c).attrInit = [] := by
        rw [ha0] at hinit; exact List.eq_nil_of_length_eq_zero (by simpa using hinit)
      subst has
      have h0 : dictSetAll (dictSetAll [] (declaredAttrs [] [])) ea = ea := by
        have : dictSetAll [] (declaredAttrs [] []) = [] := rfl
        rw [this, dictSetAll_nil_eq heanod]
      simp only [hkids, ha0, hini, h0, harvestAttrs_nil]
      cases h : avFinish E.K E.conv (dictSetAll [(E.K.xsiNil, sTrue)] ea) t (!ee.isEmpty) with
      | none => rw [h] at hcok; simp at hcok
      | some p => rfl

theorem canonOk_wireInst (E : Env) (hK : avConstsOk E.K = true) :
    ∀ i, treeWf E.T i = true → wireClean E i = true → canonOk E (wireInst i) = true := by
  intro i
  induction i using Inst.induct with
  | h c as ss t ee ea ih =>
    intro hwf hcl
    obtain ⟨hslots, hnd⟩ := instOk_parts hwf
    have hkwf := slotsOk_mem true E.T _ ss hslots
    simp only [wireClean, Bool.and_eq_true] at hcl
    obtain ⟨⟨⟨hcr, hec⟩, hsc⟩, hkind⟩ := hcl
    have hkc := (slotsClean_spec E ss).mp hsc
    simp only [wireInst, canonOk, Bool.and_eq_true]
    constructor
    · rw [canonOkSlots_spec, wireSlots_eq_map]
      intro s' hs' k' hk'
      obtain ⟨s, hs, rfl⟩ := List.mem_map.mp hs'
      rw [wireList_eq_map] at hk'
      obtain ⟨k, hk, rfl⟩ := List.mem_map.mp hk'
      exact ih s hs k hk (hkwf s hs k hk) (hkc s hs k hk)
    · cases hk : (E.T c).kind with
      | plain => rfl
      | attrValue =>
        rw [hk] at hkind
        have hext : (!(wireExtList ee).isEmpty) = (!ee.isEmpty) := by
          cases ee <;> simp [wireExtList]
        simp only [hext, avFinish_canonical E.K E.conv ea t (!ee.isEmpty) hK hnd hcr hkind, Option.isSome_some]

end ObjModel
