/-
  C19 helper lemmas, part 4: the three ways a step can change the cache (`DbShape`) and what each
  means for the presence / sources clauses of the specification and for the live-login bookkeeping.
-/
import PysamlModel.Proofs.C19Loop

namespace Session

/-- How a step changed the cache, relative to what the plan allows. -/
def DbShape (db db' : Db) (p : Plan) (op : Op) : Prop :=
  db' = db
  ∨ (∃ s0, p.soi = some s0 ∧ (p.expect = .ends ∨ p.expect = .free) ∧ db' = Dict.del s0 db)
  ∨ (∃ l, op = .login l ∧ l.kind = .ok ∧ p.soi = some l.s ∧ p.expect = .keeps ∧
        db' = cacheSet db l.s l.i ⟨l.nooa, some l.info⟩)
  ∨ (∃ s i, op = .reset s i ∧ p.soi = some s ∧ p.expect = .keeps ∧ db' = cacheSet db s i ⟨0, none⟩)

theorem sources_get? (db : Db) (s : Subj) :
    Dict.get? s (db.map (fun p => (p.1, Dict.keys p.2))) = (Dict.get? s db).map Dict.keys :=
  Dict.get?_map_snd Dict.keys s db

theorem presence_of_shape {db db' : Db} {o o' : Obs} {p : Plan} {op : Op} (ho : o.subjects = Dict.keys db)
    (ho' : o'.subjects = Dict.keys db') (h : DbShape db db' p op) : presenceAllOk p o o' = true := by
  unfold presenceAllOk
  rw [List.all_eq_true]
  intro s _
  simp only [ho, ho']
  unfold expectFor
  rcases h with h | ⟨s0, hsoi, hexp, h⟩ | ⟨l, _, _, hsoi, hexp, h⟩ | ⟨s0, i0, _, hsoi, hexp, h⟩
  · subst h
    by_cases hs : p.soi = some s
    · simp only [hs, if_true, decide_true, Bool.true_and]
      cases p.expect <;> simp [presenceOk]
    · simp [hs, presenceOk]
  · subst h
    by_cases hs : s = s0
    · subst hs
      have hn : ¬ s ∈ Dict.keys (Dict.del s db) := by simp [Dict.mem_keys_del]
      rcases hexp with he | he
      · simp [hsoi, he]
      · simp [hsoi, he, presenceOk, hn]
    · have hs' : ¬ p.soi = some s := by rw [hsoi]; intro e; exact hs (Option.some.inj e).symm
      have : (s ∈ Dict.keys (Dict.del s0 db)) ↔ s ∈ Dict.keys db := by simp [Dict.mem_keys_del, hs]
      simp [hs', presenceOk, this]
  · subst h
    by_cases hs : s = l.s
    · subst hs
      have hm : l.s ∈ Dict.keys (cacheSet db l.s l.i ⟨l.nooa, some l.info⟩) := by simp [mem_keys_cacheSet]
      simp [hsoi, hexp, presenceOk, hm]
    · have hs' : ¬ p.soi = some s := by rw [hsoi]; intro e; exact hs (Option.some.inj e).symm
      have : (s ∈ Dict.keys (cacheSet db l.s l.i ⟨l.nooa, some l.info⟩)) ↔ s ∈ Dict.keys db := by
        simp [mem_keys_cacheSet, hs]
      simp [hs', presenceOk, this]
  · subst h
    by_cases hs : s = s0
    · subst hs
      have hm : s ∈ Dict.keys (cacheSet db s i0 ⟨0, none⟩) := by simp [mem_keys_cacheSet]
      simp [hsoi, hexp, presenceOk, hm]
    · have hs' : ¬ p.soi = some s := by rw [hsoi]; intro e; exact hs (Option.some.inj e).symm
      have : (s ∈ Dict.keys (cacheSet db s0 i0 ⟨0, none⟩)) ↔ s ∈ Dict.keys db := by
        simp [mem_keys_cacheSet, hs]
      simp [hs', presenceOk, this]

theorem sources_of_shape {db db' : Db} {o o' : Obs} {p : Plan} {op : Op}
    (ho : o.sources = db.map (fun p => (p.1, Dict.keys p.2))) (ho' : o'.sources = db'.map (fun p => (p.1, Dict.keys p.2)))
    (h : DbShape db db' p op) : sourcesOk p op o o' = true := by
  unfold sourcesOk
  rw [List.all_eq_true]
  intro s _
  simp only [ho, ho', sources_get?]
  rcases h with h | ⟨s0, hsoi, _, h⟩ | ⟨l, hop, _, hsoi, _, h⟩ | ⟨s0, i0, hop, hsoi, _, h⟩
  · subst h
    by_cases hs : p.soi = some s
    · simp only [hs, if_true]
      cases op with
      | login l =>
        simp only
        rw [List.all_eq_true]
        intro j hj
        simp [hj]
      | _ => rfl
    · simp [hs]
  · subst h
    by_cases hs : s = s0
    · subst hs
      simp only [hsoi, if_true]
      cases op with
      | login l => simp [Dict.get?_del_self]
      | _ => rfl
    · have hs' : ¬ p.soi = some s := by rw [hsoi]; intro e; exact hs (Option.some.inj e).symm
      simp [hs', Dict.get?_del_other hs]
  · subst h hop
    by_cases hs : s = l.s
    · subst hs
      simp only [hsoi, if_true, get?_cacheSet_self, Option.map_some, Option.getD_some]
      rw [List.all_eq_true]
      intro j hj
      rcases (Dict.mem_keys_set _ _ _ _).mp hj with h1 | h1
      · simp [h1]
      · cases hm : Dict.get? l.s db with
        | none => rw [hm] at h1; simp [Dict.keys] at h1
        | some m => rw [hm] at h1; simp at h1 ⊢; exact Or.inr h1
    · have hs' : ¬ p.soi = some s := by rw [hsoi]; intro e; exact hs (Option.some.inj e).symm
      simp [hs', get?_cacheSet_other _ _ _ hs]
  · subst h hop
    by_cases hs : s = s0
    · subst hs
      simp [hsoi]
    · have hs' : ¬ p.soi = some s := by rw [hsoi]; intro e; exact hs (Option.some.inj e).symm
      simp [hs', get?_cacheSet_other _ _ _ hs]

/-- The live-login list after the step (as `ghostNext` computes it). -/
def liveNext (live : List Live) (op : Op) (db' : Db) : List Live :=
  (match op with
    | .login l => if l.kind = LoginKind.ok then ({ s := l.s, i := l.i, info := l.info } : Live) :: live else live
    | _ => live).filter (fun l => decide (l.s ∈ Dict.keys db'))

theorem mem_liveNext {live : List Live} {op : Op} {db' : Db} {x : Live} (h : x ∈ live) (hk : x.s ∈ Dict.keys db') :
    x ∈ liveNext live op db' := by
  unfold liveNext
  rw [List.mem_filter]
  refine ⟨?_, by simp [hk]⟩
  cases op with
  | login l =>
    simp only
    split
    · exact List.mem_cons_of_mem _ h
    · exact h
  | _ => exact h

theorem live_of_shape {db db' : Db} {p : Plan} {op : Op} {live : List Live}
    (h : DbShape db db' p op) (hl : LiveInv db live) : LiveInv db' (liveNext live op db') := by
  intro s i e x he hx
  have hk : s ∈ Dict.keys db' := mem_keys_of_entryAt he
  rcases h with h | ⟨s0, _, _, h⟩ | ⟨l, hop, hkind, _, _, h⟩ | ⟨s0, i0, _, _, _, h⟩
  · subst h
    obtain ⟨h1, h2⟩ := hl s i e x he hx
    exact ⟨mem_liveNext h1 hk, h2⟩
  · subst h
    by_cases hs : s = s0
    · subst hs; rw [entryAt_del_self] at he; cases he
    · rw [entryAt_del_other _ _ hs] at he
      obtain ⟨h1, h2⟩ := hl s i e x he hx
      exact ⟨mem_liveNext h1 hk, h2⟩
  · subst h
    by_cases hs : s = l.s ∧ i = l.i
    · obtain ⟨h1, h2⟩ := hs
      subst h1 h2
      rw [entryAt_cacheSet_self] at he
      cases he
      simp only at hx
      cases hx
      refine ⟨?_, rfl⟩
      unfold liveNext
      rw [List.mem_filter, hop]
      simp only [hkind, if_true]
      exact ⟨List.mem_cons_self .., by simp [hk]⟩
    · rw [entryAt_cacheSet_other _ _ _ _ _ _ hs] at he
      obtain ⟨h1, h2⟩ := hl s i e x he hx
      exact ⟨mem_liveNext h1 hk, h2⟩
  · subst h
    by_cases hs : s = s0 ∧ i = i0
    · obtain ⟨h1, h2⟩ := hs
      subst h1 h2
      rw [entryAt_cacheSet_self] at he
      cases he
      cases hx
    · rw [entryAt_cacheSet_other _ _ _ _ _ _ hs] at he
      obtain ⟨h1, h2⟩ := hl s i e x he hx
      exact ⟨mem_liveNext h1 hk, h2⟩

theorem loggedIn_of_live {g' : Ghost} {st' : St} (hnow : g'.now = st'.now) (hl : LiveInv st'.db g'.live) :
    loggedInOk g' (obsOf st') = true := by
  unfold loggedInOk
  rw [List.all_eq_true]
  intro s hs
  simp only [obsOf, List.mem_filter] at hs
  apply loggedIn_of hl
  rw [hnow]
  exact hs.2

theorem ends_of_del {p : Plan} {s0 : Subj} {st st' : St} (hsoi : p.soi = some s0) (h : s0 ∉ Dict.keys st'.db) :
    endsOk p (obsOf st') = true := by
  unfold endsOk
  simp only [hsoi, obsOf]
  split <;> simp [h]

theorem ends_of_not_ends {p : Plan} {o : Obs} (h : p.expect ≠ .ends) : endsOk p o = true := by
  unfold endsOk
  cases p.soi with
  | none => rfl
  | some s => simp [h]

end Session
