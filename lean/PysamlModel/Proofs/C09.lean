/-
  Helper lemmas for C09 (property theorems are in Props/C09.lean).

  Part 1: a Response of the shape the IdP model produces ("scoped": one plain assertion with one
  AudienceRestriction [requester], one bearer confirmation {Recipient, InResponseTo, NotOnOrAfter},
  Conditions [now, now+life], one AuthnStatement) is accepted by the shared SP model `Sp.process`
  under the hypotheses `Accepts`, and what the application is told is computed explicitly.
  Part 2: inversion of `Idp.create`, the link `Idp.toSp (create …) = scoped Response`, and the
  equivalence of `Policy.get`'s lookup with the declarative `C09.entryFor`.
-/
import PysamlModel.Model.Idp
import PysamlModel.Spec.Sp
import PysamlModel.Spec.C09

namespace C09P
open Sp

structure Scoped where
  rsig : Bool
  asig : Bool
  now : Int
  life : Int
  dest : String
  irt : String
  aud : String
  issuer : String
  nameText : String
  session : Sp.AuthnStmt
  address : Option String := none
  statusSecond : Option String := none

def Scoped.assertion (s : Scoped) : Sp.Assertion :=
  { sig := if s.asig then .valid else .absent
    encrypted := false
    conditions := some { nb := some s.now, nooa := some (s.now + s.life), audiences := [[s.aud]] }
    authn := [s.session]
    subject := some { nameId := some s.nameText,
                      confs := [{ method := .bearer,
                                  data := some { nb := none, nooa := some (s.now + s.life), recipient := some s.dest, irt := some s.irt,
                                                 address := s.address } }] } }

def Scoped.response (s : Scoped) : Sp.Response :=
  { sig := if s.rsig then .valid else .absent
    version := "2.0"
    issueInstant := s.now
    destination := some s.dest
    inResponseTo := some s.irt
    issuer := some s.issuer
    statusSecond := s.statusSecond
    assertions := [s.assertion] }

structure Accepts (cfg : Cfg) (env : Env) (s : Scoped) (cf : String) : Prop where
  bindingOk : env.bindingOk = true
  asynchop : env.asynchop = true
  audNonempty : s.aud ≠ ""
  audMe : pyStrip s.aud = cfg.entityId
  destNonempty : s.dest ≠ ""
  destMine : cfg.returnAddrs.contains s.dest = true
  outstanding : env.outstanding.lookup s.irt = some cf
  wantResp : cfg.wantResp = true → s.rsig = true
  wantAssert : cfg.wantAssert = true → s.asig = true
  wantEither : cfg.wantEither = true → s.rsig = true ∨ s.asig = true
  lifeNonneg : 0 ≤ s.life
  notPremature : s.now ≤ env.now + cfg.skew
  notExpired : env.now ≤ s.now + s.life + cfg.skew
  instantLow : env.now - 86400 - cfg.skew ≤ s.now
  instantHigh : s.now < env.now + 86400 + cfg.skew
  sessionOk : ∀ t, s.session.sessionNooa = some t → env.now ≤ t + cfg.skew
  addrOk : Sp.truthy s.address = true → env.convInfo = false

theorem plainOf_scoped (s : Scoped) : plainOf s.response = [s.assertion] := by
  simp [plainOf, Scoped.response, Scoped.assertion]

theorem encOf_scoped (s : Scoped) : encOf s.response = [] := by
  simp [encOf, Scoped.response, Scoped.assertion]

theorem decOf_scoped (s : Scoped) : decOf s.response = [] := by
  simp [decOf, encOf_scoped]

theorem loads_scoped {cfg : Cfg} {env : Env} {s : Scoped} {cf : String} (h : Accepts cfg env s cf) (req : Bool) :
    loads cfg env req s.response = if !s.rsig && req then .error .sigMissingResponse else .ok (some cf) := by
  unfold loads
  rw [plainOf_scoped]
  cases hr : s.rsig <;> cases req <;>
    simp [Scoped.response, Scoped.assertion, Sig.present, hr, h.asynchop, h.outstanding, scanAssertions, scanSc]


theorem pass1_scoped {cfg : Cfg} {env : Env} {s : Scoped} {cf : String} (h : Accepts cfg env s cf) :
    pass1 cfg env s.response = .ok (some cf, s.rsig) := by
  unfold pass1
  rw [loads_scoped h true, loads_scoped h false]
  cases hr : s.rsig
  · have : cfg.wantResp = false := by
      cases hw : cfg.wantResp
      · rfl
      · have := h.wantResp hw; simp [hr] at this
    simp [this]
  · simp

theorem verifyEnvelope_scoped {cfg : Cfg} {env : Env} {s : Scoped} {cf : String} (h : Accepts cfg env s cf) :
    verifyEnvelope cfg env s.response = .ok true := by
  unfold verifyEnvelope
  have h1 := h.instantLow
  have h2 := h.instantHigh
  have hm : s.dest ∈ cfg.returnAddrs := by simpa using h.destMine
  simp [Scoped.response, h.asynchop, truthy, hm, issueInstantOk, h1, h2]

theorem attesting_one (env : Env) (m : Method) (d : ScData) (hok : Sp.truthy d.address = true → env.convInfo = false) :
    attestingOk env [SubjConf.mk m (some d)] = true := by
  unfold attestingOk
  cases ht : Sp.truthy d.address
  · simp [ht]
  · simp [ht, hok ht]

/-- the state after the one assertion has been checked -/
def finalSt (s : Scoped) (cf : String) : St :=
  { cameFrom := some cf
    notOnOrAfter := s.now + s.life
    sessionNooa := match s.session.sessionNooa with | some t => if t != 0 then t else 0 | none => 0
    nameId := some s.nameText
    hasAssertion := true }

theorem checkAssertion_scoped {cfg : Cfg} {env : Env} {s : Scoped} {cf : String} (h : Accepts cfg env s cf)
    (requireSig : Bool) :
    checkAssertion cfg env requireSig false { cameFrom := some cf } s.assertion =
      if !s.asig && requireSig then .error .sigMissingAssertion else .ok (finalSt s cf) := by
  have hm : s.dest ∈ cfg.returnAddrs := by simpa using h.destMine
  have hsess : ∀ t, s.session.sessionNooa = some t → onOrAfterOk env.now cfg.skew t = true := by
    intro t ht; have := h.sessionOk t ht; simp [onOrAfterOk]; omega
  have hauthn : authnStatementOk cfg env { cameFrom := some cf, hasAssertion := true } s.assertion =
      .ok { cameFrom := some cf, hasAssertion := true,
            sessionNooa := match s.session.sessionNooa with | some t => if t != 0 then t else 0 | none => 0 } := by
    unfold authnStatementOk
    simp only [Scoped.assertion]
    cases hs : s.session.sessionNooa with
    | none => simp
    | some t =>
      simp only [hsess t hs, if_true]
      by_cases ht : t = 0 <;> simp [ht]
  have hcond : ∀ st : St, conditionOk cfg env st s.assertion = .ok { st with notOnOrAfter := s.now + s.life } := by
    intro st
    have h1 := h.lifeNonneg
    have h2 := h.notPremature
    have h3 := h.notExpired
    have e1 : ¬ (s.now + s.life + (cfg.skew : Int) < env.now) := by omega
    have e2 : ¬ (env.now + (cfg.skew : Int) < s.now) := by omega
    have e3 : s.now ≤ s.now + s.life := by omega
    unfold conditionOk
    simp [Scoped.assertion, laterThan, optExpired, optPremature, onOrAfterOk, beforeOk, forMe, restrictionMatches,
      h.audNonempty, h.audMe, e1, e2, e3]
  have hsubj : ∀ st : St, st.cameFrom = some cf →
      getSubject cfg env st s.assertion = .ok { st with nameId := some s.nameText } := by
    intro st hcf
    have h1 := h.lifeNonneg
    have h3 := h.notExpired
    have e1 : ¬ (s.now + s.life + (cfg.skew : Int) < env.now) := by omega
    have hatt := attesting_one env .bearer
      (ScData.mk none (some (s.now + s.life)) (some s.dest) (some s.irt) s.address false) h.addrOk
    unfold getSubject
    simp [Scoped.assertion, hatt, confirmLoop, bearerConfirmed, optExpired, optPremature, onOrAfterOk,
      laterThan, hcf, h.destNonempty, recipientOk, hm, e1, subjectId]
  have hauthn' : authnStatementOk cfg env { ({ cameFrom := some cf } : St) with hasAssertion := true } s.assertion =
      .ok { cameFrom := some cf, hasAssertion := true,
            sessionNooa := match s.session.sessionNooa with | some t => if t != 0 then t else 0 | none => 0 } := hauthn
  unfold checkAssertion
  rw [hauthn']
  simp only [hcond]
  rw [hsubj _ rfl]
  cases ha : s.asig <;> cases requireSig <;>
    simp [Scoped.assertion, Sig.present, ha, h.asynchop, finalSt]

theorem verify_scoped {cfg : Cfg} {env : Env} {s : Scoped} {cf : String} (h : Accepts cfg env s cf) (requireSig : Bool) :
    verify cfg env requireSig { cameFrom := some cf } s.response =
      if !s.asig && requireSig then .error .sigMissingAssertion
      else .ok (some { st := finalSt s cf, used := [s.assertion], encLeft := false }) := by
  unfold verify
  rw [verifyEnvelope_scoped h]
  simp only []
  unfold parseAssertion
  rw [plainOf_scoped, encOf_scoped, decOf_scoped]
  simp only [checkAll, checkAssertion_scoped h requireSig]
  cases ha : s.asig <;> cases requireSig <;> simp [scanAssertions]

theorem pass2_scoped {cfg : Cfg} {env : Env} {s : Scoped} {cf : String} (h : Accepts cfg env s cf) :
    pass2 cfg env { cameFrom := some cf } s.response =
      .ok (some { st := finalSt s cf, used := [s.assertion], encLeft := false }, s.asig) := by
  unfold pass2
  rw [verify_scoped h true, verify_scoped h false]
  cases ha : s.asig
  · have : cfg.wantAssert = false := by
      cases hw : cfg.wantAssert
      · rfl
      · have := h.wantAssert hw; simp [ha] at this
    simp [Err.isSignatureError, this]
  · simp

/-- A Response of the scoped shape is accepted, and this is what the application is told. -/
theorem process_scoped {cfg : Cfg} {env : Env} {s : Scoped} {cf : String} (h : Accepts cfg env s cf) :
    process cfg env s.response = .identity
      { nameId := some s.nameText
        issuer := pyStrip s.issuer
        cameFrom := some cf
        notOnOrAfter := match s.session.sessionNooa with
          | some t => if t > 0 then t else s.now + s.life
          | none => s.now + s.life
        sessionIndex := s.session.sessionIndex
        cached := true } := by
  unfold process
  rw [pass1_scoped h]
  simp only [h.bindingOk]
  rw [pass2_scoped h]
  have heither : (cfg.wantEither && !s.rsig && !s.asig) = false := by
    cases hw : cfg.wantEither
    · simp
    · rcases h.wantEither hw with h1 | h1 <;> simp [h1]
  simp only [heither]
  simp [Scoped.assertion, finalSt, Scoped.response]
  cases hs : s.session.sessionNooa with
  | none => simp
  | some t =>
    by_cases ht : t = 0
    · simp [ht]
    · by_cases hp : 0 < t <;> simp [ht, hp]

end C09P

/-! ## Part 2: the IdP model -/

namespace C09P
open Idp

variable {W : Type}

/-- The assertion `create` assembles once the NameID is settled. -/
def assertionOf (d : Defaults) (cfg : Idp.Cfg) (a : Args W) (nid : NameId) : IssuedAssertion W :=
  let policy : Restrictions := a.releasePolicy.getD cfg.policy
  let nooa := a.now + lifetimeFor d cfg policy a.spEntityId
  { issuer := some cfg.entityId
    sig := if resolve a.signAssertion cfg.signAssertion d.signAssertion then some (sigInfo d cfg a) else none
    nameId := some nid
    confs := [confOf d a nooa]
    condNb := some a.now
    condNooa := some nooa
    audiences := [[a.spEntityId]]
    authn := authnOut a
    attrs := a.attrs }

def responseOf (d : Defaults) (cfg : Idp.Cfg) (a : Args W) (nid : NameId) : Issued W :=
  { issuer := some cfg.entityId
    destination := if a.destination != "" then some a.destination else none
    inResponseTo := some a.inResponseTo
    issueInstant := a.now
    sig := if resolve a.signResponse cfg.signResponse d.signResponse then some (sigInfo d cfg a) else none
    assertions := [assertionOf d cfg a nid]
    statusTop := statusTopOf d a
    statusSecond := a.status.bind (·.second) }

/-- Inversion of `create`: the Response is `responseOf` for the NameID `chooseNameId` settled on, and a
    Response signature is only made with allow-listed algorithms. -/
theorem create_ok_inv {d : Defaults} {cfg : Idp.Cfg} {a : Args W} {r : Issued W} (h : create d cfg a = .ok r) :
    ∃ nid, chooseNameId d cfg (a.releasePolicy.getD cfg.policy) a = .ok nid ∧ r = responseOf d cfg a nid ∧
      fargRefusal d a = none ∧
      (resolve a.signResponse cfg.signResponse d.signResponse = true →
        d.sigAllowed.contains (sigInfo d cfg a).sigAlg = true ∧ d.digestAllowed.contains (sigInfo d cfg a).digestAlg = true) := by
  unfold create at h
  simp only at h
  split at h
  · cases h
  next nid hn =>
    refine ⟨nid, hn, ?_⟩
    split at h
    · cases h
    next hfarg =>
    split at h
    next hs =>
      split at h
      · cases h
      next h1 =>
        split at h
        · cases h
        next h2 =>
          cases h
          refine ⟨by simp [responseOf, assertionOf, hs], hfarg, fun _ => ⟨by simpa using h1, by simpa using h2⟩⟩
    next hs =>
      cases h
      refine ⟨by simp [responseOf, assertionOf, hs], hfarg, fun ht => by simp [ht] at hs⟩

/-- When `create` refuses. -/
theorem create_error_inv {d : Defaults} {cfg : Idp.Cfg} {a : Args W} {e : Refusal} (h : create d cfg a = .error e) :
    chooseNameId d cfg (a.releasePolicy.getD cfg.policy) a = .error e ∨ fargRefusal d a = some e ∨
    (resolve a.signResponse cfg.signResponse d.signResponse = true ∧
      ((e = .sigAlgNotAllowed ∧ d.sigAllowed.contains (sigInfo d cfg a).sigAlg = false) ∨
       (e = .digestAlgNotAllowed ∧ d.digestAllowed.contains (sigInfo d cfg a).digestAlg = false))) := by
  unfold create at h
  simp only at h
  split at h
  next e' hn => cases h; exact Or.inl hn
  next nid hn =>
    right
    split at h
    next e' hf => cases h; exact Or.inl hf
    next hfarg =>
    right
    split at h
    next hs =>
      refine ⟨hs, ?_⟩
      split at h
      next h1 => cases h; exact Or.inl ⟨rfl, by simpa using h1⟩
      next h1 =>
        split at h
        next h2 => cases h; exact Or.inr ⟨rfl, by simpa using h2⟩
        · cases h
    · cases h

/-- `chooseNameId` refuses only for an e-mail identifier without a configured domain. -/
theorem chooseNameId_error_inv {d : Defaults} {cfg : Idp.Cfg} {p : Restrictions} {a : Args W} {e : Refusal}
    (h : chooseNameId d cfg p a = .error e) :
    e = .emailNoDomain ∧ a.nameId = none ∧ findNameid a = [] ∧ chosenFormat d cfg p a = d.email ∧ truthy cfg.domain = false := by
  unfold chooseNameId at h
  split at h
  · cases h
  next hnone =>
    split at h
    · cases h
    next hfind =>
      simp only at h
      split at h
      · cases h
      · split at h
        next hem =>
          split at h
          · cases h
          next hdom => cases h; exact ⟨rfl, hnone, hfind, by simpa using hem, by simpa using hdom⟩
        · cases h

/-! ### `Policy.get` is "the most specific applicable entry" -/

theorem policyGet_eq_entryFor {α : Type} (p : Restrictions) (field : PolicySpec → Option α)
    (hfield : field {} = none) (sp : String) (ra : Option String) (dflt : α) :
    policyGet p field sp ra dflt = ((C09.entryFor p sp ra).bind field).getD dflt := by
  match p with
  | none => simp [policyGet, C09.entryFor]
  | some [] =>
    have hl : ∀ k, lookupSpec [] k = none := fun k => by simp [lookupSpec, List.lookup]
    cases ra <;> simp [policyGet, C09.entryFor, C09.defaultEntry, hl]
  | some (e :: rs) =>
    simp only [policyGet, C09.entryFor, applicable, C09.defaultEntry]
    generalize lookupSpec (e :: rs) sp = l1
    generalize ra.bind (lookupSpec (e :: rs)) = l2
    generalize lookupSpec (e :: rs) "default" = l3
    generalize lookupSpec (e :: rs) "" = l4
    cases l1 <;> cases l2 <;> cases l3 <;> cases l4 <;> simp [hfield] <;> split <;> simp_all

theorem lifetimeFor_eq (d : Defaults) (cfg : Idp.Cfg) (a : Args W) :
    lifetimeFor d cfg (a.releasePolicy.getD cfg.policy) a.spEntityId = C09.lifetimeOf d cfg a := by
  unfold lifetimeFor C09.lifetimeOf C09.specLifetime C09.policyOf raOf
  rw [policyGet_eq_entryFor _ _ rfl]

/-! ### the NameID -/

/-- What `chooseNameId` settles on when the caller supplies no NameID: the first identifier
    `find_nameid` returns, else one whose Format is the chosen format. -/
theorem chooseNameId_ok_inv {d : Defaults} {cfg : Idp.Cfg} {p : Restrictions} {a : Args W} {nid : NameId}
    (h : chooseNameId d cfg p a = .ok nid) (hn : a.nameId = none) :
    (∃ rest, findNameid a = nid :: rest) ∨ (findNameid a = [] ∧ nid.format = some (chosenFormat d cfg p a)) := by
  unfold chooseNameId at h
  rw [hn] at h
  simp only at h
  split at h
  next n rest hf => cases h; exact Or.inl ⟨rest, hf⟩
  next hf =>
    right
    refine ⟨hf, ?_⟩
    split at h
    next n hm =>
      cases h
      split at hm
      next hp =>
        have := List.find?_some hm
        simp only [Bool.and_eq_true, beq_iff_eq] at this hp
        rw [this.1, hp]
      · cases hm
    next hm =>
      split at h
      · split at h
        · cases h; rfl
        · cases h
      · cases h; rfl

/-- An identifier `find_nameid` returns for a request that names a format has that format. -/
theorem findNameid_format {a : Args W} {n : NameId} (hmem : n ∈ findNameid a) {f : String}
    (hreq : C09.requestedFormat a = some f) : n.format = some f := by
  unfold findNameid at hmem
  have := (List.mem_filter.mp hmem).2
  unfold C09.requestedFormat at hreq
  split at hreq
  next p hp =>
    rw [hp] at this
    simp only [Bool.and_eq_true, beq_iff_eq] at this
    split at hreq
    · rw [this.2]; exact hreq
    · cases hreq
  · cases hreq

theorem chosenFormat_requested {d : Defaults} {cfg : Idp.Cfg} {p : Restrictions} {a : Args W} {f : String}
    (hreq : C09.requestedFormat a = some f) : chosenFormat d cfg p a = f := by
  unfold C09.requestedFormat at hreq
  unfold chosenFormat
  split at hreq
  next q hq =>
    simp only [hq]
    split at hreq
    next ht => rw [if_pos ht, hreq]; rfl
    · cases hreq
  · cases hreq

theorem chosenFormat_policy {d : Defaults} {cfg : Idp.Cfg} {p : Restrictions} {a : Args W}
    (hreq : C09.requestedFormat a = none) :
    chosenFormat d cfg p a = C09.specPolicyFormat d p (effectiveSpnq a) (cfg.ras.lookup (effectiveSpnq a)) := by
  unfold C09.requestedFormat at hreq
  unfold chosenFormat C09.specPolicyFormat raOf
  have hpol : ∀ q ra, policyGet p (·.nameidFormat) q ra d.nameidFormat =
      ((C09.entryFor p q ra).bind (·.nameidFormat)).getD d.nameidFormat :=
    fun q ra => policyGet_eq_entryFor p (·.nameidFormat) rfl q ra d.nameidFormat
  split at hreq
  next q hq =>
    simp only [hq]
    split at hreq
    · next ht =>
      -- a truthy format is `some _`, so `requestedFormat` would not be `none`
      cases hf : q.format with
      | none => simp [hf, truthy] at ht
      | some f => simp [hf] at hreq
    · next ht => simp only [ht]; exact hpol _ _
  next hq => simp only [hq]; exact hpol _ _

/-! ### hand-over -/

/-- the AuthnStatement made for a dictionary that names a class reference -/
theorem authnOut_class {a : Args W} {x : Authn} (ha : a.authn = some x) (hc : truthy x.classRef = true) :
    authnOut a = [{ classRef := x.classRef, authnAuth := if truthy x.authnAuth then x.authnAuth else none,
                    sessionNooa := a.sessionNooa, sessionIndex := some a.freshSession }] := by
  unfold authnOut
  simp [ha, hc]

/-- The scoped Response (Part 1) that `responseOf` is, seen by an SP that trusts the IdP's key. -/
def scopedOf (d : Defaults) (cfg : Idp.Cfg) (a : Args W) (nid : NameId) : Scoped :=
  { rsig := resolve a.signResponse cfg.signResponse d.signResponse
    asig := resolve a.signAssertion cfg.signAssertion d.signAssertion
    now := a.now
    life := lifetimeFor d cfg (a.releasePolicy.getD cfg.policy) a.spEntityId
    dest := a.destination
    irt := a.inResponseTo
    aud := a.spEntityId
    issuer := cfg.entityId
    nameText := nid.text
    session := { sessionNooa := a.sessionNooa, sessionIndex := some a.freshSession }
    address := a.farg.bind (·.address)
    statusSecond := a.status.bind (·.second) }

/-- Under `shapingNeutral` the confirmation is the default one (plus the caller's Address). -/
theorem confOf_neutral {d : Defaults} {a : Args W} {ci : Bool} (nooa : Int) (h : C09.shapingNeutral d a ci = true) :
    confOf d a nooa = { method := .bearer, recipient := some a.destination, irt := some a.inResponseTo, nb := none,
                        nooa := some nooa, address := a.farg.bind (·.address) } := by
  unfold C09.shapingNeutral at h
  unfold confOf
  cases hf : a.farg with
  | none => simp
  | some f =>
    simp only [hf, Bool.and_eq_true, Option.isNone_iff_eq_none] at h
    obtain ⟨⟨⟨⟨⟨hm, hr⟩, hi⟩, hnb⟩, _⟩, _⟩ := h
    cases hmm : f.method with
    | none => simp [hmm, hr, hi, hnb]
    | some m =>
      have : m = d.bearer := by simpa [hmm] using hm
      simp [hmm, hr, hi, hnb, methodOf, this]

theorem statusTop_neutral {d : Defaults} {a : Args W} {ci : Bool} (h : C09.shapingNeutral d a ci = true)
    (hs : d.statusSuccess = C09.successUri) : statusTopOf d a = "urn:oasis:names:tc:SAML:2.0:status:Success" := by
  unfold C09.shapingNeutral at h
  unfold statusTopOf
  simp only [Bool.and_eq_true] at h
  cases hst : a.status with
  | none => simpa [C09.successUri] using hs
  | some st => simpa [hst, C09.successUri] using h.2

theorem address_neutral {d : Defaults} {a : Args W} {ci : Bool} (h : C09.shapingNeutral d a ci = true) :
    Sp.truthy (a.farg.bind (·.address)) = true → ci = false := by
  unfold C09.shapingNeutral at h
  intro ht
  cases hf : a.farg with
  | none => simp [hf, Sp.truthy] at ht
  | some f =>
    simp only [hf, Bool.and_eq_true, Bool.or_eq_true, Bool.not_eq_true'] at h
    have hsame : Idp.truthy f.address = Sp.truthy f.address := by
      cases f.address <;> rfl
    rcases h.1.2 with h1 | h1
    · simp [hf, ← hsame, h1] at ht
    · exact h1

theorem sigState_ite (b : Bool) (i : SigInfo) :
    sigState true (if b = true then some i else none) = if b = true then Sp.Sig.valid else Sp.Sig.absent := by
  cases b <;> rfl

theorem toSp_responseOf {d : Defaults} {cfg : Idp.Cfg} {a : Args W} {nid : NameId} {x : Authn} {ci : Bool}
    (hdest : a.destination ≠ "") (ha : a.authn = some x) (hc : truthy x.classRef = true)
    (hn : C09.shapingNeutral d a ci = true) (hs : d.statusSuccess = C09.successUri) :
    toSp true (responseOf d cfg a nid) = (scopedOf d cfg a nid).response := by
  simp only [toSp, responseOf, assertionOf, toSpAssertion, authnOut_class ha hc, Scoped.response, Scoped.assertion, scopedOf,
    List.map_cons, List.map_nil, confOf_neutral _ hn, statusTop_neutral hn hs]
  simp [sigState_ite, hdest]
  constructor <;> (split <;> simp_all)

/-! ### the property's "demanded" vs the code's resolution -/

open C09 in
/-- What the property calls "demanded" is what the code resolves, given the table's defaults. -/
theorem demanded_eq_resolve (arg cfg : Option Bool) : demanded arg cfg = resolve arg cfg false := by
  cases arg <;> cases cfg <;> rfl

open C09 in
theorem demandedAlg_all (arg cfg : Option String) (dflt : String) :
    (demandedAlg arg cfg).all (· == orElse arg (orElse cfg dflt)) = true := by
  unfold demandedAlg
  cases arg with
  | none =>
    cases cfg with
    | none => simp [truthy]
    | some t => by_cases ht : t = "" <;> simp [truthy, orElse, ht]
  | some s =>
    by_cases hs : s = ""
    · cases cfg with
      | none => simp [truthy, hs]
      | some t => by_cases ht : t = "" <;> simp [truthy, orElse, hs, ht]
    · simp [truthy, orElse, hs]

/-- `toSp` does not look into attributes or advice: the SP model sees a PEFIM Response as `create`'s. -/
theorem toSp_pefimShape (empty : W) (d : Defaults) (cfg : Idp.Cfg) (a : Args W) (r : Issued W) (trusts : Bool) :
    toSp trusts (pefimShape empty d cfg a r) = toSp trusts r := by
  simp [toSp, pefimShape, toSpAssertion, List.map_map, Function.comp_def]


end C09P
