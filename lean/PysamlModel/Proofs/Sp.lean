/-
  Helper lemmas about the SP model (inversion of the successful path).  Property theorems live
  in Props/C01.lean, C04.lean, C05.lean, C06.lean.
-/
import PysamlModel.Model.Sp
import PysamlModel.Spec.Sp

namespace Sp

/-! ### what a successful `_assertion` establishes -/

/-- Facts about one accepted assertion that do not depend on the threaded state. -/
structure Accepted (cfg : Cfg) (env : Env) (requireSig verified : Bool) (a : Assertion) : Prop where
  sigReq : requireSig = true → a.sig.present = true
  sigGood : a.sig.present = true → verified = false → a.sig = .valid
  authn : ∃ s, a.authn = [s] ∧ ∀ t, s.sessionNooa = some t → onOrAfterOk env.now cfg.skew t = true
  cond : ∃ st st', conditionOk cfg env st a = .ok st'
  subj : ∃ st st', getSubject cfg env st a = .ok st'

theorem authnStatementOk_inv {cfg : Cfg} {env : Env} {st st' : St} {a : Assertion}
    (h : authnStatementOk cfg env st a = .ok st') :
    ∃ s, a.authn = [s] ∧ (∀ t, s.sessionNooa = some t → onOrAfterOk env.now cfg.skew t = true) ∧
      st'.cameFrom = st.cameFrom ∧ st'.notOnOrAfter = st.notOnOrAfter ∧ st'.nameId = st.nameId ∧
      st'.hasAssertion = st.hasAssertion ∧
      st'.sessionNooa = (match s.sessionNooa with | some t => if t != 0 then t else st.sessionNooa | none => st.sessionNooa) := by
  unfold authnStatementOk at h
  split at h
  next s hs =>
    refine ⟨s, hs, ?_⟩
    split at h
    next t ht =>
      split at h
      next hok =>
        split at h
        · cases h; refine ⟨?_, rfl, rfl, rfl, rfl, ?_⟩
          · intro t' ht'; rw [ht] at ht'; cases ht'; exact hok
          · simp [ht, *]
        · cases h; refine ⟨?_, rfl, rfl, rfl, rfl, ?_⟩
          · intro t' ht'; rw [ht] at ht'; cases ht'; exact hok
          · simp [ht, *]
      · cases h
    next ht =>
      cases h
      refine ⟨?_, rfl, rfl, rfl, rfl, ?_⟩
      · intro t' ht'; rw [ht] at ht'; cases ht'
      · simp [ht]
  · cases h

theorem checkAssertion_inv {cfg : Cfg} {env : Env} {rs v : Bool} {st st' : St} {a : Assertion}
    (h : checkAssertion cfg env rs v st a = .ok st') :
    Accepted cfg env rs v a ∧
    ∃ st1 st2, authnStatementOk cfg env { st with hasAssertion := true } a = .ok st1 ∧
      conditionOk cfg env st1 a = .ok st2 ∧ getSubject cfg env st2 a = .ok st' ∧
      (env.asynchop && !cfg.allowUnsolicited && st'.cameFrom.isNone) = false := by
  unfold checkAssertion at h
  split at h
  · cases h
  next h1 =>
    split at h
    · cases h
    next h2 =>
      split at h
      · cases h
      next st1 e1 =>
        split at h
        · cases h
        next st2 e2 =>
          split at h
          · cases h
          next st3 e3 =>
            split at h
            · cases h
            next h4 =>
              cases h
              obtain ⟨s, hs, hsess, _⟩ := authnStatementOk_inv e1
              refine ⟨⟨?_, ?_, ⟨s, hs, hsess⟩, ⟨st1, st2, e2⟩, ⟨st2, _, e3⟩⟩, st1, st2, e1, e2, e3, Bool.eq_false_iff.mpr h4⟩
              · intro hr; subst hr
                cases hp : a.sig.present with
                | true => rfl
                | false => simp [hp] at h1
              · intro hp hv; subst hv
                cases hval : decide (a.sig = .valid) with
                | true => exact of_decide_eq_true hval
                | false =>
                  have : a.sig ≠ .valid := of_decide_eq_false hval
                  simp [hp, this] at h2

theorem checkAll_inv {cfg : Cfg} {env : Env} {rs v : Bool} :
    ∀ {as : List Assertion} {st st' : St}, checkAll cfg env rs v st as = .ok st' →
      ∀ a ∈ as, ∃ s s', checkAssertion cfg env rs v s a = .ok s'
  | [], _, _, _ => by intro a ha; cases ha
  | b :: rest, st, st', h => by
    unfold checkAll at h
    split at h
    · cases h
    next st1 hb =>
      intro a ha
      rcases List.mem_cons.mp ha with rfl | hmem
      · exact ⟨st, st1, hb⟩
      · exact checkAll_inv h a hmem

/-! ### `came_from` is never overwritten once set -/

theorem bearerConfirmed_cameFrom {cfg : Cfg} {env : Env} {st st' : St} {d : Option ScData} {cf : String}
    (hc : st.cameFrom = some cf) (h : bearerConfirmed cfg env st d = .yes st') : st'.cameFrom = some cf := by
  unfold bearerConfirmed at h
  split at h
  · cases h
  next dd =>
    split at h
    · cases h
    split at h
    · cases h
    split at h
    · cases h
    split at h
    next hnone => simp [hc] at hnone
    · cases h; exact hc

theorem confirmLoop_cameFrom {cfg : Cfg} {env : Env} {cf : String} :
    ∀ {confs : List SubjConf} {st st' : St} {n m : Nat}, st.cameFrom = some cf →
      confirmLoop cfg env st confs n = .ok (st', m) → st'.cameFrom = some cf
  | [], st, st', n, m, hc, h => by
    unfold confirmLoop at h; cases h; exact hc
  | sc :: rest, st, st', n, m, hc, h => by
    unfold confirmLoop at h
    simp only at h
    split at h
    · cases h
    · exact confirmLoop_cameFrom hc h
    next st1 hstep =>
      have hc1 : st1.cameFrom = some cf := by
        split at hstep
        · exact bearerConfirmed_cameFrom hc hstep
        · split at hstep
          · split at hstep
            · cases hstep; exact hc
            · cases hstep
          · cases hstep
        · cases hstep; exact hc
        · cases hstep
      split at h
      · cases h
      next d hd =>
        split at h
        next r hr =>
          split at h
          · exact confirmLoop_cameFrom hc1 h
          · cases h
        · cases h

theorem getSubject_cameFrom {cfg : Cfg} {env : Env} {st st' : St} {a : Assertion} {cf : String}
    (hc : st.cameFrom = some cf) (h : getSubject cfg env st a = .ok st') : st'.cameFrom = some cf := by
  unfold getSubject at h
  split at h
  · cases h
  next s hs =>
    split at h
    · cases h
    split at h
    · cases h
    next st1 n hl =>
      have := confirmLoop_cameFrom hc hl
      split at h
      · cases h
      · split at h
        · cases h
        · cases h; exact this
        · cases h; simpa using this

theorem conditionOk_cameFrom {cfg : Cfg} {env : Env} {st st' : St} {a : Assertion}
    (h : conditionOk cfg env st a = .ok st') : st'.cameFrom = st.cameFrom := by
  unfold conditionOk at h
  split at h
  · cases h; rfl
  next c hc =>
    split at h
    · cases h; rfl
    split at h
    · cases h
    split at h
    · cases h
    split at h
    · cases h
    split at h
    · cases h
    split at h
    · cases h
    cases h; rfl

theorem checkAssertion_cameFrom {cfg : Cfg} {env : Env} {rs v : Bool} {st st' : St} {a : Assertion} {cf : String}
    (hc : st.cameFrom = some cf) (h : checkAssertion cfg env rs v st a = .ok st') : st'.cameFrom = some cf := by
  obtain ⟨_, st1, st2, e1, e2, e3, _⟩ := checkAssertion_inv h
  obtain ⟨_, _, _, h1, _⟩ := authnStatementOk_inv e1
  have h2 := conditionOk_cameFrom e2
  apply getSubject_cameFrom _ e3
  rw [h2, h1]; exact hc

theorem checkAll_cameFrom {cfg : Cfg} {env : Env} {rs v : Bool} {cf : String} :
    ∀ {as : List Assertion} {st st' : St}, st.cameFrom = some cf → checkAll cfg env rs v st as = .ok st' →
      st'.cameFrom = some cf
  | [], _, _, hc, h => by unfold checkAll at h; cases h; exact hc
  | b :: rest, st, st', hc, h => by
    unfold checkAll at h
    split at h
    · cases h
    next st1 hb => exact checkAll_cameFrom (checkAssertion_cameFrom hc hb) h

/-! ### inversion of the top level -/

theorem parseAssertion_inv {cfg : Cfg} {env : Env} {rs : Bool} {st : St} {r : Response} {p : Parsed}
    (h : parseAssertion cfg env rs st r = .ok p) :
    (∃ st1, checkAll cfg env rs false st (plainOf r) = .ok st1 ∧ checkAll cfg env rs true st1 (decOf r) = .ok p.st) ∧
    (decOf r).any (fun a => a.sig.present && a.sig != .valid) = false ∧
    (env.asynchop && (r.inResponseTo.bind (fun i => env.outstanding.lookup i)).isSome
        && scanAssertions r.inResponseTo (decOf r)) = false ∧
    p.used = decOf r ++ plainOf r ∧ p.encLeft = (!(encOf r).isEmpty && (decOf r).isEmpty) ∧
    ((plainOf r).length != 1 && (encOf r).length != 1 && !st.hasAssertion) = false := by
  unfold parseAssertion at h
  split at h
  · cases h
  next hcount =>
    split at h
    · cases h
    next st1 h1 =>
      split at h
      · cases h
      next hsig =>
        split at h
        · cases h
        next hscan =>
          split at h
          · cases h
          next st2 h2 =>
            cases h
            exact ⟨⟨st1, h1, h2⟩, by simpa using hsig, by simpa using hscan, rfl, rfl, by simpa using hcount⟩

theorem verify_some_inv {cfg : Cfg} {env : Env} {rs : Bool} {st : St} {r : Response} {p : Parsed}
    (h : verify cfg env rs st r = .ok (some p)) :
    verifyEnvelope cfg env r = .ok true ∧ parseAssertion cfg env rs st r = .ok p := by
  unfold verify at h
  split at h
  · cases h
  · cases h
  next he =>
    split at h
    · cases h
    next p' hp => cases h; exact ⟨he, hp⟩

/-- The successful path of `process`, taken apart. -/
theorem process_identity_inv {cfg : Cfg} {env : Env} {r : Response} {o : Reported}
    (h : process cfg env r = .identity o) :
    env.bindingOk = true ∧
    ∃ cf respSigned rs p assertSigned,
      pass1 cfg env r = .ok (cf, respSigned) ∧
      pass2 cfg env { cameFrom := cf } r = .ok (some p, assertSigned) ∧
      verify cfg env rs { cameFrom := cf } r = .ok (some p) ∧
      (assertSigned = true → rs = true) ∧ (rs = false → cfg.wantAssert = false) ∧
      (cfg.wantEither && !respSigned && !assertSigned) = false ∧
      ∃ a rest s srest, p.used = a :: rest ∧ a.authn = s :: srest ∧
        o = { nameId := p.st.nameId, issuer := pyStrip (r.issuer.getD ""), cameFrom := p.st.cameFrom,
              notOnOrAfter := if p.st.sessionNooa > 0 then p.st.sessionNooa else p.st.notOnOrAfter,
              sessionIndex := s.sessionIndex, cached := !p.encLeft && p.st.nameId.isSome } := by
  unfold process at h
  split at h
  · cases h
  next hb =>
    split at h
    · cases h
    next cf respSigned h1 =>
      simp only at h
      split at h
      · cases h
      next pp assertSigned h2 =>
        split at h
        · cases h
        next heither =>
          split at h
          · cases h
          next p =>
            split at h
            · cases h
            next a rest hused =>
              split at h
              next s srest hauthn =>
                cases h
                refine ⟨by simpa using hb, cf, respSigned, ?_⟩
                -- which verify call produced `p`
                have h2' := h2
                unfold pass2 at h2
                split at h2
                next p' hv =>
                  cases h2
                  exact ⟨true, p, true, h1, h2', hv, fun _ => rfl, fun hf => (by cases hf), (by simpa using heither),
                    a, rest, s, srest, hused, hauthn, rfl⟩
                next e hv =>
                  split at h2
                  · split at h2
                    · cases h2
                    next hwa =>
                      split at h2
                      next p' hv' =>
                        cases h2
                        exact ⟨false, p, false, h1, h2', hv', fun hf => (by cases hf), fun _ => (by simpa using hwa),
                          (by simpa using heither), a, rest, s, srest, hused, hauthn, rfl⟩
                      · cases h2
                  · cases h2
              · cases h

/-! ### `loads` / `pass1` -/

theorem loads_ok_inv {cfg : Cfg} {env : Env} {req : Bool} {r : Response} {cf : Option String}
    (h : loads cfg env req r = .ok cf) :
    (r.sig.present = true → r.sig = .valid) ∧ (req = true → r.sig.present = true) ∧
    (env.asynchop = true →
      (∃ c, r.inResponseTo.bind (fun i => env.outstanding.lookup i) = some c ∧ cf = some c ∧
            scanAssertions r.inResponseTo (plainOf r) = false) ∨
      (r.inResponseTo.bind (fun i => env.outstanding.lookup i) = none ∧ cfg.allowUnsolicited = true ∧ cf = none)) := by
  unfold loads at h
  split at h
  · cases h
  next h1 =>
    split at h
    · cases h
    next h2 =>
      refine ⟨?_, ?_, ?_⟩
      · intro hp
        cases hval : decide (r.sig = .valid) with
        | true => exact of_decide_eq_true hval
        | false =>
          have : r.sig ≠ .valid := of_decide_eq_false hval
          simp [hp, this] at h1
      · intro hr; subst hr
        cases hp : r.sig.present with
        | true => rfl
        | false => simp [hp] at h2
      · intro ha
        rw [ha] at h
        simp only [if_true] at h
        split at h
        next c hc =>
          split at h
          · cases h
          next hs => cases h; exact Or.inl ⟨c, hc, rfl, by simpa using hs⟩
        next hn =>
          split at h
          next hu => cases h; exact Or.inr ⟨hn, hu, rfl⟩
          · cases h

theorem pass1_ok_inv {cfg : Cfg} {env : Env} {r : Response} {cf : Option String} {respSigned : Bool}
    (h : pass1 cfg env r = .ok (cf, respSigned)) :
    ∃ req, loads cfg env req r = .ok cf ∧ (respSigned = true → req = true) ∧ (cfg.wantResp = true → req = true) := by
  unfold pass1 at h
  split at h
  next cf' hl => cases h; exact ⟨true, hl, fun _ => rfl, fun _ => rfl⟩
  next e hl =>
    split at h
    · cases h
    · split at h
      · cases h
      next hw =>
        split at h
        next cf' hl' => cases h; exact ⟨false, hl', fun hf => (by cases hf), fun hwt => by simp [hwt] at hw⟩
        · cases h

end Sp

namespace Sp

/-! ### facts established by the individual checks -/

theorem verifyEnvelope_true_inv {cfg : Cfg} {env : Env} {r : Response} (h : verifyEnvelope cfg env r = .ok true) :
    r.version = "2.0" ∧ destinationOk cfg env r = true ∧ issueInstantOk env.now cfg.skew r.issueInstant = true ∧
    r.statusTop = "urn:oasis:names:tc:SAML:2.0:status:Success" := by
  unfold verifyEnvelope at h
  split at h
  next hv =>
    split at h <;> cases h
  next hv =>
    split at h
    · cases h
    next hd =>
      split at h
      · cases h
      next hi =>
        split at h
        · cases h
        next hs =>
          refine ⟨by simpa using hv, ?_, by simpa using hi, by simpa using hs⟩
          unfold destinationOk
          cases ha : env.asynchop <;> cases ht : truthy r.destination <;> simp_all

theorem forMe_audienceOk {me : String} {rs : List (List String)} (h : forMe me rs = true) :
    rs.all (fun r => r.isEmpty || r.any (fun x => pyStrip x == me)) = true := by
  unfold forMe at h
  split at h
  next he => simp [List.isEmpty_iff.mp he]
  · simp only [Bool.and_eq_true] at h
    apply List.all_eq_true.mpr
    intro r hr
    have := List.all_eq_true.mp h.1 r hr
    simp only [Bool.or_eq_true] at this ⊢
    rcases this with h1 | h1
    · exact Or.inl h1
    · right
      unfold restrictionMatches at h1
      obtain ⟨x, hx, hm⟩ := List.any_eq_true.mp h1
      simp only [Bool.and_eq_true] at hm
      exact List.any_eq_true.mpr ⟨x, hx, hm.2⟩

theorem conditionOk_facts {cfg : Cfg} {env : Env} {st st' : St} {a : Assertion}
    (h : conditionOk cfg env st a = .ok st') :
    audienceOk cfg.entityId a = true ∧
    (match a.conditions with | none => true | some c => windowOk env.now cfg.skew c.nb c.nooa) = true ∧
    st'.notOnOrAfter = (match a.conditions.bind (·.nooa) with | some t => t | none => st.notOnOrAfter) ∧
    st'.sessionNooa = st.sessionNooa ∧ st'.nameId = st.nameId := by
  unfold conditionOk at h
  unfold audienceOk
  split at h
  next hc => cases h; simp [hc]
  next c hc =>
    rw [hc]
    simp only [Option.bind_some]
    split at h
    next hempty =>
      cases h
      simp only [Bool.and_eq_true, Option.isNone_iff_eq_none, List.isEmpty_iff] at hempty
      obtain ⟨⟨⟨h1, h2⟩, h3⟩, _⟩ := hempty
      simp [h1, h2, h3, windowOk]
    · split at h
      · cases h
      next hord =>
        split at h
        · cases h
        next hexp =>
          split at h
          · cases h
          next hpre =>
            split at h
            · cases h
            next haud =>
              split at h
              · cases h
              · cases h
                refine ⟨forMe_audienceOk (by simpa using haud), ?_, ?_, rfl, rfl⟩
                · unfold windowOk
                  cases hnb : c.nb <;> cases hno : c.nooa <;>
                    simp_all [optExpired, optPremature, onOrAfterOk, beforeOk, laterThan] <;> omega
                · cases hno : c.nooa <;> simp

/-- The facts a confirmation that survives the loop must satisfy. -/
def scFacts (cfg : Cfg) (env : Env) (sc : SubjConf) : Prop :=
  bearerUsable sc = true →
    ∃ d, sc.data = some d ∧ optExpired env.now cfg.skew d.nooa = false ∧ optPremature env.now cfg.skew d.nb = false ∧
      ∃ rcp, d.recipient = some rcp ∧ recipientOk cfg env rcp = true

theorem confirmLoop_facts {cfg : Cfg} {env : Env} :
    ∀ {confs : List SubjConf} {st st' : St} {n m : Nat},
      confirmLoop cfg env st confs n = .ok (st', m) → ∀ sc ∈ confs, scFacts cfg env sc
  | [], _, _, _, _, _ => by intro sc hsc; cases hsc
  | sc0 :: rest, st, st', n, m, h => by
    intro sc hsc
    unfold confirmLoop at h
    simp only at h
    have hrest : ∀ {s1 : St} {k : Nat}, confirmLoop cfg env s1 rest k = .ok (st', m) → sc ∈ rest → scFacts cfg env sc :=
      fun hh hm => confirmLoop_facts hh sc hm
    rcases List.mem_cons.mp hsc with rfl | hmem
    · -- the head
      intro husable
      unfold bearerUsable at husable
      simp only [Bool.and_eq_true, beq_iff_eq] at husable
      obtain ⟨hmeth, hdata⟩ := husable
      cases hd : sc.data with
      | none => simp [hd] at hdata
      | some d =>
        rw [hd] at hdata
        simp only at hdata
        rw [hmeth] at h
        simp only at h
        -- bearerConfirmed on `some d`
        unfold bearerConfirmed at h
        rw [hd] at h
        simp only at h
        by_cases hexp : optExpired env.now cfg.skew d.nooa = true
        · simp [hexp] at h
        by_cases hpre : optPremature env.now cfg.skew d.nb = true
        · simp [hexp, hpre] at h
        have hexp' : optExpired env.now cfg.skew d.nooa = false := by simpa using hexp
        have hpre' : optPremature env.now cfg.skew d.nb = false := by simpa using hpre
        refine ⟨d, rfl, hexp', hpre', ?_⟩
        simp only [hexp', hpre', hdata, Bool.false_eq_true, if_false, Bool.not_true] at h
        -- every remaining branch is `.yes _` or `.fail _`; after `.yes` the recipient is examined
        have key : ∀ s1 : St, (match d.recipient with
              | some r => if (r != "" && recipientOk cfg env r) = true then confirmLoop cfg env s1 rest (n + 1) else .error .noRecipient
              | none => .error .noRecipient) = .ok (st', m) → ∃ rcp, d.recipient = some rcp ∧ recipientOk cfg env rcp = true := by
          intro s1 hk
          split at hk
          next r hr =>
            split at hk
            next hrr => simp only [Bool.and_eq_true] at hrr; exact ⟨r, hr, hrr.2⟩
            · cases hk
          · cases hk
        split at h
        · cases h
        next heq =>
          exfalso
          split at heq
          · split at heq
            · split at heq
              · cases heq
              · split at heq
                · cases heq
                · split at heq <;> cases heq
            · cases heq
          · cases heq
        next st1 heq => exact key _ h
    · -- a later one
      split at h
      · cases h
      · exact hrest h hmem
      next st1 hstep =>
        split at h
        · cases h
        next d hd =>
          split at h
          next r hr =>
            split at h
            · exact hrest h hmem
            · cases h
          · cases h

theorem bearerConfirmed_times {cfg : Cfg} {env : Env} {st st' : St} {d : Option ScData}
    (h : bearerConfirmed cfg env st d = .yes st') :
    st'.notOnOrAfter = st.notOnOrAfter ∧ st'.sessionNooa = st.sessionNooa := by
  unfold bearerConfirmed at h
  split at h
  · cases h
  next dd =>
    split at h
    · cases h
    split at h
    · cases h
    split at h
    · cases h
    split at h
    · split at h
      · split at h
        · cases h; exact ⟨rfl, rfl⟩
        · split at h
          · cases h; exact ⟨rfl, rfl⟩
          · split at h
            · cases h; exact ⟨rfl, rfl⟩
            · cases h
      · cases h; exact ⟨rfl, rfl⟩
    · cases h; exact ⟨rfl, rfl⟩

theorem confirmLoop_times {cfg : Cfg} {env : Env} :
    ∀ {confs : List SubjConf} {st st' : St} {n m : Nat},
      confirmLoop cfg env st confs n = .ok (st', m) →
      st'.notOnOrAfter = st.notOnOrAfter ∧ st'.sessionNooa = st.sessionNooa
  | [], st, st', n, m, h => by unfold confirmLoop at h; cases h; exact ⟨rfl, rfl⟩
  | sc :: rest, st, st', n, m, h => by
    unfold confirmLoop at h
    simp only at h
    split at h
    · cases h
    · exact confirmLoop_times h
    next st1 hstep =>
      have h1 : st1.notOnOrAfter = st.notOnOrAfter ∧ st1.sessionNooa = st.sessionNooa := by
        split at hstep
        · exact bearerConfirmed_times hstep
        · split at hstep
          · split at hstep
            · cases hstep; exact ⟨rfl, rfl⟩
            · cases hstep
          · cases hstep
        · cases hstep; exact ⟨rfl, rfl⟩
        · cases hstep
      split at h
      · cases h
      next d hd =>
        split at h
        next r hr =>
          split at h
          · have := confirmLoop_times h
            exact ⟨this.1.trans h1.1, this.2.trans h1.2⟩
          · cases h
        · cases h

theorem bearerConfirmed_keepsNameId {cfg : Cfg} {env : Env} {st st' : St} {d : Option ScData}
    (h : bearerConfirmed cfg env st d = .yes st') : st'.nameId = st.nameId := by
  unfold bearerConfirmed at h
  split at h
  · cases h
  next dd =>
    split at h
    · cases h
    split at h
    · cases h
    split at h
    · cases h
    split at h
    · split at h
      · split at h
        · cases h; rfl
        · split at h
          · cases h; rfl
          · split at h
            · cases h; rfl
            · cases h
      · cases h; rfl
    · cases h; rfl

theorem confirmLoop_keepsNameId {cfg : Cfg} {env : Env} :
    ∀ {confs : List SubjConf} {st st' : St} {n m : Nat},
      confirmLoop cfg env st confs n = .ok (st', m) → st'.nameId = st.nameId
  | [], st, st', n, m, h => by unfold confirmLoop at h; cases h; rfl
  | sc :: rest, st, st', n, m, h => by
    unfold confirmLoop at h
    simp only at h
    split at h
    · cases h
    · exact confirmLoop_keepsNameId h
    next st1 hstep =>
      have h1 : st1.nameId = st.nameId := by
        split at hstep
        · exact bearerConfirmed_keepsNameId hstep
        · split at hstep
          · split at hstep
            · cases hstep; rfl
            · cases hstep
          · cases hstep
        · cases hstep; rfl
        · cases hstep
      split at h
      · cases h
      next d hd =>
        split at h
        next r hr =>
          split at h
          · exact (confirmLoop_keepsNameId h).trans h1
          · cases h
        · cases h

theorem getSubject_facts {cfg : Cfg} {env : Env} {st st' : St} {a : Assertion}
    (h : getSubject cfg env st a = .ok st') :
    ∃ s, a.subject = some s ∧ (∀ sc ∈ s.confs, scFacts cfg env sc) ∧
      st'.notOnOrAfter = st.notOnOrAfter ∧ st'.sessionNooa = st.sessionNooa := by
  unfold getSubject at h
  split at h
  · cases h
  next s hs =>
    refine ⟨s, hs, ?_⟩
    split at h
    · cases h
    split at h
    · cases h
    next st1 n hl =>
      have hfacts := confirmLoop_facts hl
      have hst : st1.notOnOrAfter = st.notOnOrAfter ∧ st1.sessionNooa = st.sessionNooa := confirmLoop_times hl
      split at h
      · cases h
      · split at h
        · cases h
        · cases h; exact ⟨hfacts, hst⟩
        · cases h; exact ⟨hfacts, hst⟩

/-- The extension conditions of an accepted assertion are all typed with a schema the receiver was given. -/
theorem conditionOk_extra {cfg : Cfg} {env : Env} {st st' : St} {a : Assertion}
    (h : conditionOk cfg env st a = .ok st') :
    ∀ c, a.conditions = some c → ∀ t ∈ c.extra, extKnown cfg t = true := by
  intro c hc t ht
  unfold conditionOk at h
  rw [hc] at h
  simp only at h
  split at h
  next hempty =>
    simp only [Bool.and_eq_true, List.isEmpty_iff] at hempty
    rw [hempty.2] at ht; cases ht
  · split at h
    · cases h
    split at h
    · cases h
    split at h
    · cases h
    split at h
    · cases h
    split at h
    · cases h
    next hext =>
      have hall : c.extra.any (fun t => !extKnown cfg t) = false := by simpa using hext
      have := List.any_eq_false.mp hall t ht
      simpa using this

/-- What `get_subject` stores as the subject's identifier. -/
theorem getSubject_id {cfg : Cfg} {env : Env} {st st' : St} {a : Assertion}
    (h : getSubject cfg env st a = .ok st') :
    ∃ s, a.subject = some s ∧
      ((subjectId s = .ok none ∧ st'.nameId = st.nameId) ∨ (∃ n, subjectId s = .ok (some n) ∧ st'.nameId = some n)) := by
  unfold getSubject at h
  split at h
  · cases h
  next s hs =>
    refine ⟨s, hs, ?_⟩
    split at h
    · cases h
    split at h
    · cases h
    next st1 n hl =>
      split at h
      · cases h
      · split at h
        · cases h
        next hid => cases h; exact Or.inl ⟨hid, confirmLoop_keepsNameId hl⟩
        next m hid => cases h; exact Or.inr ⟨m, hid, rfl⟩

end Sp
