/-
  C12 helper lemmas, part 2: attributes written by `_add_members_to_element_tree` are read back by
  `_convert_element_attribute_to_member` into the members they came from.
-/
import PysamlModel.Proofs.C12Dict

set_option linter.unusedSimpArgs false
set_option linter.unusedVariables false

namespace ObjModel

theorem harvestAttrs_append (ds : List AttrDecl) (l1 l2 : Attrs) (as : List (Option Str)) (ea : Attrs) :
    harvestAttrs ds (l1 ++ l2) as ea =
      harvestAttrs ds l2 (harvestAttrs ds l1 as ea).1 (harvestAttrs ds l1 as ea).2 := by
  induction l1 generalizing as ea with
  | nil => simp [harvestAttrs]
  | cons p r ih =>
    obtain ⟨k, v⟩ := p
    simp only [List.cons_append, harvestAttrs]
    cases attrIdx ds k with
    | none => simp only [ih]
    | some j => simp only [ih]

theorem keys_declaredAttrs_sub (ds : List AttrDecl) (as : List (Option Str)) :
    ∀ k ∈ keysOf (declaredAttrs ds as), k ∈ ds.map (·.name) := by
  induction ds generalizing as with
  | nil => intro k hk; cases as <;> simp [declaredAttrs, keysOf] at hk
  | cons d r ih =>
    intro k hk
    cases as with
    | nil => simp [declaredAttrs, keysOf] at hk
    | cons a as' =>
      cases a with
      | none =>
        simp only [declaredAttrs] at hk
        exact List.mem_cons_of_mem _ (ih as' k hk)
      | some v =>
        simp only [declaredAttrs, keysOf, List.map_cons, List.mem_cons] at hk
        rcases hk with h | h
        · simp [h]
        · exact List.mem_cons_of_mem _ (ih as' k h)

theorem nodup_declaredAttrs (ds : List AttrDecl) (as : List (Option Str)) (h : (ds.map (·.name)).Nodup) :
    (keysOf (declaredAttrs ds as)).Nodup := by
  induction ds generalizing as with
  | nil => cases as <;> simp [declaredAttrs, keysOf]
  | cons d r ih =>
    simp only [List.map_cons, List.nodup_cons] at h
    cases as with
    | nil => simp [declaredAttrs, keysOf]
    | cons a as' =>
      cases a with
      | none => simpa [declaredAttrs] using ih as' h.2
      | some v =>
        simp only [declaredAttrs, keysOf, List.map_cons, List.nodup_cons]
        exact ⟨fun hm => h.1 (keys_declaredAttrs_sub r as' _ hm), ih as' h.2⟩

/-- the declared attributes go back to their members; a member that was `None` keeps what the
    constructor gave it, which under the side condition is `None` too -/
theorem harvestAttrs_declared (pre suf : List AttrDecl) (hn : ((pre ++ suf).map (·.name)).Nodup)
    (asPre asSuf initSuf : List (Option Str)) (ea : Attrs)
    (hpre : asPre.length = pre.length) (hsuf : asSuf.length = suf.length) (hinit : initSuf.length = suf.length)
    (hok : (asSuf.zip initSuf).all (fun p => p.1.isSome || p.2.isNone) = true) :
    harvestAttrs (pre ++ suf) (declaredAttrs suf asSuf) (asPre ++ initSuf) ea = (asPre ++ asSuf, ea) := by
  induction suf generalizing pre asPre asSuf initSuf with
  | nil =>
    cases asSuf with
    | nil => cases initSuf with
      | nil => simp [declaredAttrs, harvestAttrs]
      | cons _ _ => simp at hinit
    | cons _ _ => simp at hsuf
  | cons d suf' ih =>
    cases asSuf with
    | nil => simp at hsuf
    | cons a asSuf' =>
      cases initSuf with
      | nil => simp at hinit
      | cons i0 initSuf' =>
        simp only [List.length_cons, Nat.add_right_cancel_iff] at hsuf hinit
        simp only [List.zip_cons_cons, List.all_cons, Bool.and_eq_true] at hok
        have hassoc : pre ++ d :: suf' = (pre ++ [d]) ++ suf' := by simp
        cases a with
        | none =>
          have hi0 : i0 = none := by
            have h1 := hok.1
            cases i0 with
            | none => rfl
            | some x => simp at h1
          subst hi0
          simp only [declaredAttrs]
          have := ih (pre ++ [d]) (by rw [← hassoc]; exact hn) (asPre ++ [none]) asSuf' initSuf'
            (by simp [hpre]) hsuf hinit hok.2
          rw [hassoc]
          simpa using this
        | some v =>
          simp only [declaredAttrs, harvestAttrs]
          have hidx : attrIdx (pre ++ d :: suf') d.name = some pre.length := by
            have hlt : pre.length < (pre ++ d :: suf').length := by simp
            have := attrIdx_getElem_of_nodup hn hlt
            simpa using this
          rw [hidx]
          simp only
          have hset : (asPre ++ i0 :: initSuf').set pre.length (some v) = (asPre ++ [some v]) ++ initSuf' := by
            rw [← hpre]; simp
          rw [hset]
          have := ih (pre ++ [d]) (by rw [← hassoc]; exact hn) (asPre ++ [some v]) asSuf' initSuf'
            (by simp [hpre]) hsuf hinit hok.2
          rw [hassoc]
          simpa using this

/-- attributes the class does not declare are appended to the extension attributes -/
theorem harvestAttrs_foreign (ds : List AttrDecl) (l : Attrs) (as : List (Option Str)) (ea : Attrs)
    (hf : ∀ k ∈ keysOf l, attrIdx ds k = none) (hn : (keysOf (ea ++ l)).Nodup) :
    harvestAttrs ds l as ea = (as, ea ++ l) := by
  induction l generalizing ea with
  | nil => simp [harvestAttrs]
  | cons p r ih =>
    obtain ⟨k, v⟩ := p
    simp only [harvestAttrs]
    rw [hf k (by simp [keysOf])]
    simp only
    have hk : k ∉ keysOf ea := by
      rw [keysOf_append] at hn
      have := (List.nodup_append.mp hn).2.2
      intro hm
      exact this k hm k (by simp [keysOf]) rfl
    rw [dictSet_of_not_mem hk]
    have := ih (ea ++ [(k, v)]) (fun k' hk' => hf k' (by simp only [keysOf, List.map_cons, List.mem_cons]; exact Or.inr hk'))
      (by simpa using hn)
    rw [this]; simp

/-- with no declared attribute at all (AttributeValue) everything is assigned in order -/
theorem harvestAttrs_nil (l : Attrs) (as : List (Option Str)) (ea : Attrs) :
    harvestAttrs [] l as ea = (as, dictSetAll ea l) := by
  induction l generalizing ea with
  | nil => simp [harvestAttrs, dictSetAll]
  | cons p r ih =>
    obtain ⟨k, v⟩ := p
    simp only [harvestAttrs, attrIdx, dictSetAll, List.foldl_cons]
    rw [ih]; rfl

theorem setDefaults_noop (dfl : List (Name × Str)) (d : Attrs) (h : ∀ p ∈ dfl, dictHas d p.1 = true) :
    dfl.foldl (fun d p => dictSetDefault d p.1 p.2) d = d := by
  induction dfl with
  | nil => rfl
  | cons p r ih =>
    simp only [List.foldl_cons, dictSetDefault, h p (by simp), if_true]
    exact ih (fun q hq => h q (List.mem_cons_of_mem _ hq))

end ObjModel
