import PysamlModel.Model.MiniPy
import PysamlModel.Model.Sp
import PysamlModel.Gen.PyFuns
import PysamlModel.Model.PyEnc
import PysamlModel.Proofs.MiniPy

/-! Helper lemmas for Props/PyTie.lean: environments, one iteration and the two loops of `for_me`. -/

namespace PyTie
open MiniPy Gen.PyFuns

/-- one Audience value satisfies the reader: text present, non-empty, and equal to `me` after stripping -/
def audMatches (me : String) (a : Option String) : Bool :=
  match a with
  | some t => t != "" && Sp.pyStrip t == me
  | none => false

def innerBody : List Stmt := [
  (.ifs (.and (.attr (.name "audience") "text") (.cmp .eq (.method (.attr (.name "audience") "text") "strip" []) (.name "myself"))) [
    (.assign "matched" (.bool true)),
    .brk] [])]
def innerElse : List Stmt := [(.ret (some (.bool false)))]

theorem inner_step (n : Nat) (me : String) (env : Env) (a : Option String)
    (hme : lookup env "myself" = some (.str me)) :
    evalBlock Sp.pyStrip noExt (n + 8) (setVar env "audience" (encA a)) innerBody =
      if audMatches me a then .brk (setVar (setVar env "audience" (encA a)) "matched" (.bool true))
      else .normal (setVar env "audience" (encA a)) := by
  have hme' : ∀ v, lookup (setVar env "audience" v) "myself" = some (.str me) := by
    intro v; rw [lookup_setVar_ne _ _ _ _ (by decide)]; exact hme
  cases a with
  | none =>
    simp [innerBody, evalBlock, evalStmt, evalExpr, lookup_setVar_same, encA, lookup_cons_same, truthy, audMatches]
  | some t =>
    by_cases ht : t = ""
    · subst ht
      simp [innerBody, evalBlock, evalStmt, evalExpr, lookup_setVar_same, encA, lookup_cons_same, truthy, audMatches]
    · have ht' : (t != "") = true := by simpa using ht
      by_cases hm : Sp.pyStrip t = me
      · simp [innerBody, evalBlock, evalStmt, evalExpr, evalArgs, lookup_setVar_same, encA, lookup_cons_same, truthy,
          audMatches, ht', hme', strMethod, cmpVals, hm]
      · simp [innerBody, evalBlock, evalStmt, evalExpr, evalArgs, lookup_setVar_same, encA, lookup_cons_same, truthy,
          audMatches, ht', hme', strMethod, cmpVals, hm]

def innerB (n : Nat) : Env → Val → Flow := fun env v => evalBlock Sp.pyStrip noExt (n + 8) (setVar env "audience" v) innerBody
def innerE (n : Nat) : Env → Flow := fun env => evalBlock Sp.pyStrip noExt (n + 8) env innerElse

theorem inner_loop (n : Nat) (me : String) : ∀ (as : List (Option String)) (env : Env),
    lookup env "myself" = some (.str me) →
    (as.any (audMatches me) = true → ∃ env', forLoop (innerB n) (innerE n) (as.map encA) env = .normal env' ∧
        lookup env' "myself" = some (.str me) ∧ lookup env' "matched" = some (.bool true)) ∧
    (as.any (audMatches me) = false → ∃ e, forLoop (innerB n) (innerE n) (as.map encA) env = .ret (.bool false) e) := by
  intro as
  induction as with
  | nil =>
    intro env _
    refine ⟨by simp, ?_⟩
    intro _
    exact ⟨env, by simp [forLoop, innerE, innerElse, evalBlock, evalStmt, evalExpr]⟩
  | cons a as ih =>
    intro env hme
    have hstep := inner_step n me env a hme
    by_cases hm : audMatches me a = true
    · refine ⟨?_, by simp [hm]⟩
      intro _
      refine ⟨setVar (setVar env "audience" (encA a)) "matched" (.bool true), ?_, ?_, ?_⟩
      · simp only [List.map_cons, forLoop, innerB]
        rw [hstep]; simp [hm]
      · rw [lookup_setVar_ne _ _ _ _ (by decide), lookup_setVar_ne _ _ _ _ (by decide)]; exact hme
      · exact lookup_setVar_same _ _ _
    · have hm' : audMatches me a = false := by simpa using hm
      have hme2 : lookup (setVar env "audience" (encA a)) "myself" = some (.str me) := by
        rw [lookup_setVar_ne _ _ _ _ (by decide)]; exact hme
      have ih' := ih (setVar env "audience" (encA a)) hme2
      have hunf : forLoop (innerB n) (innerE n) ((a :: as).map encA) env =
          forLoop (innerB n) (innerE n) (as.map encA) (setVar env "audience" (encA a)) := by
        simp only [List.map_cons, forLoop, innerB]
        rw [hstep]; simp [hm']
      rw [hunf]
      simpa [List.any_cons, hm'] using ih'

theorem flow_id (f : Flow) : (match f with | .normal e => Flow.normal e | other => other) = f := by
  cases f <;> rfl

def outerBody : List Stmt := [
  (.ifs (.not (.attr (.name "restriction") "audience")) [.cont] []),
  (.for "audience" (.attr (.name "restriction") "audience") innerBody innerElse)]

def outerB (n : Nat) : Env → Val → Flow := fun env v => evalBlock Sp.pyStrip noExt (n + 11) (setVar env "restriction" v) outerBody
def outerE (n : Nat) : Env → Flow := fun env => evalBlock Sp.pyStrip noExt (n + 11) env []

theorem outer_step (n : Nat) (env : Env) (r : List (Option String)) :
    outerB n env (encR r) =
      if r.isEmpty then .cont (setVar env "restriction" (encR r))
      else forLoop (innerB n) (innerE n) (r.map encA) (setVar env "restriction" (encR r)) := by
  cases r with
  | nil => simp [outerB, outerBody, evalBlock, evalStmt, evalExpr, lookup_setVar_same, encR, lookup_cons_same, truthy]
  | cons a as =>
    simp [outerB, outerBody, evalBlock, evalStmt, evalExpr, lookup_setVar_same, encR, lookup_cons_same, truthy]
    exact flow_id _


def rOk (me : String) (r : List (Option String)) : Bool := r.isEmpty || r.any (audMatches me)
def rHit (me : String) (r : List (Option String)) : Bool := !r.isEmpty && r.any (audMatches me)

theorem outer_loop (n : Nat) (me : String) : ∀ (rs : List (List (Option String))) (env : Env) (m : Bool),
    lookup env "myself" = some (.str me) → lookup env "matched" = some (.bool m) →
    (rs.all (rOk me) = false → ∃ e, forLoop (outerB n) (outerE n) (rs.map encR) env = .ret (.bool false) e) ∧
    (rs.all (rOk me) = true → ∃ env', forLoop (outerB n) (outerE n) (rs.map encR) env = .normal env' ∧
        lookup env' "myself" = some (.str me) ∧ lookup env' "matched" = some (.bool (m || rs.any (rHit me)))) := by
  intro rs
  induction rs with
  | nil =>
    intro env m hme hma
    refine ⟨by simp, ?_⟩
    intro _
    exact ⟨env, by simp [forLoop, outerE, evalBlock], hme, by simpa using hma⟩
  | cons r rs ih =>
    intro env m hme hma
    have hstep := outer_step n env r
    have hme1 : lookup (setVar env "restriction" (encR r)) "myself" = some (.str me) := by
      rw [lookup_setVar_ne _ _ _ _ (by decide)]; exact hme
    have hma1 : lookup (setVar env "restriction" (encR r)) "matched" = some (.bool m) := by
      rw [lookup_setVar_ne _ _ _ _ (by decide)]; exact hma
    by_cases he : r.isEmpty = true
    · -- empty restriction: `continue`
      have hunf : forLoop (outerB n) (outerE n) ((r :: rs).map encR) env =
          forLoop (outerB n) (outerE n) (rs.map encR) (setVar env "restriction" (encR r)) := by
        simp only [List.map_cons, forLoop]
        rw [hstep]; simp [he]
      rw [hunf]
      have ih' := ih (setVar env "restriction" (encR r)) m hme1 hma1
      simpa [List.all_cons, List.any_cons, rOk, rHit, he] using ih'
    · have he' : r.isEmpty = false := by simpa using he
      have hin := inner_loop n me r (setVar env "restriction" (encR r)) hme1
      by_cases hm : r.any (audMatches me) = true
      · obtain ⟨env', hl, hme', hma'⟩ := hin.1 hm
        have hunf : forLoop (outerB n) (outerE n) ((r :: rs).map encR) env =
            forLoop (outerB n) (outerE n) (rs.map encR) env' := by
          simp only [List.map_cons, forLoop]
          rw [hstep]; simp [he', hl]
        rw [hunf]
        have ih' := ih env' true hme' hma'
        simpa [List.all_cons, List.any_cons, rOk, rHit, he', hm] using ih'
      · have hm' : r.any (audMatches me) = false := by simpa using hm
        obtain ⟨e, hl⟩ := hin.2 hm'
        have hunf : forLoop (outerB n) (outerE n) ((r :: rs).map encR) env = .ret (.bool false) e := by
          simp only [List.map_cons, forLoop]
          rw [hstep]; simp [he', hl]
        rw [hunf]
        simp [List.all_cons, rOk, he', hm']

/-- The shape of the regenerated term: exactly the pieces the lemmas above are about. -/
theorem for_me_shape : for_me.body = [
    (.ifs (.not (.attr (.name "conditions") "audience_restriction")) [(.ret (some (.bool true)))] []),
    (.assign "matched" (.bool false)),
    (.for "restriction" (.attr (.name "conditions") "audience_restriction") outerBody []),
    (.ifs (.not (.name "matched")) [] []),
    (.ret (some (.name "matched")))] := rfl


theorem restrictionMatches_toModel (me : String) (r : List (Option String)) :
    Sp.restrictionMatches me (r.map (fun a => a.getD "")) = r.any (audMatches me) := by
  unfold Sp.restrictionMatches
  rw [List.any_map]
  congr 1
  funext a
  cases a <;> simp [audMatches]

theorem forMe_toModel (me : String) (rs : List (List (Option String))) :
    Sp.forMe me (toModel rs) = (rs.isEmpty || (rs.all (rOk me) && rs.any (rHit me))) := by
  unfold Sp.forMe toModel
  cases rs with
  | nil => simp
  | cons r rs =>
    simp only [List.isEmpty_map, List.isEmpty_cons, Bool.false_eq_true, if_false, Bool.false_or, List.all_map, List.any_map]
    congr 1
    · congr 1; funext r; simp [rOk, restrictionMatches_toModel]
    · congr 1; funext r; simp [rHit, restrictionMatches_toModel]

end PyTie
