/-
  C20 — helper lemmas: the invariant carried along an arbitrary schedule.
  (Property theorems are in Props/C20.lean.)
-/
import PysamlModel.Model.Signer
import PysamlModel.Spec.C20

namespace C20
open Signer

variable {κ α μ : Type} [DecidableEq κ] [DecidableEq α] [DecidableEq μ]

/-! ### Ideal signatures -/

theorem verifies_iff (k : κ) (a : α) (m : μ) (s : Sig κ α μ) :
    verifies k a m s = true ↔ s = ⟨k, a, m⟩ := by
  cases s
  simp [verifies, and_assoc]

/-! ### Thread-local invariant -/

/-- A thread between `get_signer` and `sign` holds a signer object with ITS OWN key and the digest
    of the algorithm it asked for. -/
def Good (st : TState κ α μ) : Prop :=
  ∀ s alg msg, st.pend = .signing s alg msg → s = ⟨alg, st.key⟩

theorem stepThread_inv (tb : Tables α) (st st' : TState κ α μ) (b : Branch) (ev : Option (Event κ α μ))
    (hg : Good st) (h : stepThread tb st = some (st', b, ev)) :
    st'.key = st.key ∧ Good st' ∧
      ∀ alg msg s, ev = some (.signed alg msg s) → s = ⟨st.key, alg, msg⟩ := by
  unfold stepThread at h
  split at h
  next s alg msg hp =>
    cases h
    have hs := hg s alg msg hp
    subst hs
    refine ⟨rfl, ?_, ?_⟩
    · intro s' a' m' hp'; cases hp'
    · intro a' m' s' he; cases he; rfl
  next s alg msg sig key hp =>
    cases h
    refine ⟨rfl, ?_, ?_⟩
    · intro s' a' m' hp'; cases hp'
    · intro a' m' s' he; cases he
  next hp =>
    split at h
    · cases h
    next alg msg r hr =>
      split at h
      · cases h
        refine ⟨rfl, ?_, ?_⟩
        · intro s' a' m' hp'; rw [hp] at hp'; cases hp'
        · intro a' m' s' he; cases he
      · split at h
        · cases h
          refine ⟨rfl, ?_, ?_⟩
          · intro s' a' m' hp'; rw [hp] at hp'; cases hp'
          · intro a' m' s' he; cases he
        · cases h
          refine ⟨rfl, ?_, ?_⟩
          · intro s' a' m' hp'; cases hp'; rfl
          · intro a' m' s' he; cases he
    next alg msg sig cert sigkey r hr =>
      split at h
      · cases h
        refine ⟨rfl, ?_, ?_⟩
        · intro s' a' m' hp'; rw [hp] at hp'; cases hp'
        · intro a' m' s' he; cases he
      · cases h
        refine ⟨rfl, ?_, ?_⟩
        · intro s' a' m' hp'; cases hp'
        · intro a' m' s' he; cases he

/-! ### Global invariant -/

/-- Every thread state belongs to the thread of the same number, is `Good`, and every signature
    reported so far was made with the reporting thread's own key over its own octets. -/
structure Inv (threads : List (Thread κ α μ)) (g : State κ α μ) : Prop where
  locals : ∀ (i : Nat) (st : TState κ α μ), g.ts[i]? = some st → Good st ∧ ∃ th : Thread κ α μ, threads[i]? = some th ∧ th.key = st.key
  sigs : ∀ (t : Nat) (alg : α) (msg : μ) (s : Sig κ α μ), (t, Event.signed alg msg s) ∈ g.out →
    ∃ th : Thread κ α μ, threads[t]? = some th ∧ s = ⟨th.key, alg, msg⟩
  events : ∀ (t : Nat) (e : Event κ α μ), (t, e) ∈ g.out → ∃ th : Thread κ α μ, threads[t]? = some th

omit [DecidableEq κ] [DecidableEq α] [DecidableEq μ] in
theorem inv_init (threads : List (Thread κ α μ)) : Inv threads (init threads) := by
  constructor
  · intro i st h
    simp only [init, List.getElem?_map] at h
    cases hth : threads[i]? with
    | none => simp [hth] at h
    | some th =>
      simp [hth] at h
      subst h
      exact ⟨(by intro s a m hp; cases hp), th, rfl, rfl⟩
  · intro t alg msg s h
    simp [init] at h
  · intro t e h
    simp [init] at h

theorem inv_step (tb : Tables α) (threads : List (Thread κ α μ)) (g : State κ α μ) (t : Nat)
    (hinv : Inv threads g) : Inv threads (step tb g t) := by
  unfold step
  split
  · exact hinv
  next st hst =>
    split
    · exact hinv
    next st' b ev hstep =>
      obtain ⟨hgood, th, hth, hkey⟩ := hinv.locals t st hst
      obtain ⟨hk', hg', hev⟩ := stepThread_inv tb st st' b ev hgood hstep
      constructor
      · intro i sti hi
        simp only at hi
        rw [List.getElem?_set] at hi
        split at hi
        next heq =>
          subst heq
          split at hi
          · cases hi
            exact ⟨hg', th, hth, by rw [hk']; exact hkey⟩
          · cases hi
        next => exact hinv.locals i sti hi
      · intro t' alg msg s hmem
        simp only at hmem
        rcases List.mem_append.mp hmem with hold | hnew
        · exact hinv.sigs t' alg msg s hold
        · cases ev with
          | none => simp at hnew
          | some e =>
            simp only [List.mem_singleton] at hnew
            cases hnew
            have := hev alg msg s rfl
            exact ⟨th, hth, by rw [this, hkey]⟩
      · intro t' e hmem
        simp only at hmem
        rcases List.mem_append.mp hmem with hold | hnew
        · exact hinv.events t' e hold
        · cases ev with
          | none => simp at hnew
          | some e' =>
            simp only [List.mem_singleton] at hnew
            cases hnew
            exact ⟨th, hth⟩

theorem inv_foldl (tb : Tables α) (threads : List (Thread κ α μ)) (sched : List Nat) (g : State κ α μ)
    (hinv : Inv threads g) : Inv threads (sched.foldl (step tb) g) := by
  induction sched generalizing g with
  | nil => exact hinv
  | cons t rest ih => exact ih (step tb g t) (inv_step tb threads g t hinv)

theorem inv_run (tb : Tables α) (threads : List (Thread κ α μ)) (sched : List Nat) :
    Inv threads (run tb threads sched) :=
  inv_foldl tb threads sched _ (inv_init threads)

theorem verifiers_exact (univ : List κ) (k : κ) (alg : α) (msg : μ) :
    univ.filter (fun k' => verifies k' alg msg (⟨k, alg, msg⟩ : Sig κ α μ)) = univ.filter (fun k' => decide (k' = k)) := by
  apply List.filter_congr
  intro k' _
  simp [verifies, eq_comm]


theorem event_thread_exists (tb : Tables α) (threads : List (Thread κ α μ)) (sched : List Nat)
    (t : Nat) (e : Event κ α μ) (h : (t, e) ∈ (run tb threads sched).out) :
    ∃ own, (threads.map (·.key))[t]? = some own := by
  obtain ⟨th, hth⟩ := (inv_run tb threads sched).events t e h
  exact ⟨th.key, by simp [hth]⟩

end C20
