/-
  C20 — helper lemmas: the invariant carried along an arbitrary schedule.
  (Property theorems are in Props/C20.lean.)
-/
import PysamlModel.Model.Signer
import PysamlModel.Spec.C20

namespace C20
open Signer

variable {κ α μ : Type} [DecidableEq κ] [DecidableEq α] [DecidableEq μ]

/-! ### Ideal signatures -/

theorem verifies_iff (k : κ) (a : α) (m : μ) (s : Sig κ α μ) :
    verifies k a m s = true ↔ s = ⟨k, a, m⟩ := by
  cases s
  simp [verifies, and_assoc]

/-! ### Lists -/

omit [DecidableEq κ] [DecidableEq α] [DecidableEq μ] in
theorem nth_mid {β : Type} (done rest : List β) (op : β) :
    (done ++ op :: rest)[done.length]? = some op := by simp

omit [DecidableEq κ] [DecidableEq α] [DecidableEq μ] in
theorem take_mid {β : Type} (done rest : List β) : (done ++ rest).take done.length = done := by simp

omit [DecidableEq κ] [DecidableEq α] [DecidableEq μ] in
theorem keyAfter_snoc (k : κ) (ops : List (Op κ α μ)) (op : Op κ α μ) :
    keyAfter k (ops ++ [op]) = (match op with | .setup _ c => c | _ => keyAfter k ops) := by
  unfold keyAfter
  rw [List.foldl_append]
  cases op <;> rfl

omit [DecidableEq κ] [DecidableEq α] [DecidableEq μ] in
/-- The entity key after some operations is the initial one or one that a set-up operation installed. -/
theorem keyAfter_mem (k : κ) (ops : List (Op κ α μ)) :
    keyAfter k ops = k ∨ keyAfter k ops ∈ ops.filterMap setupContent := by
  induction ops generalizing k with
  | nil => left; rfl
  | cons op l ih =>
    have hstep : keyAfter k (op :: l) = keyAfter (match op with | .setup _ c => c | _ => k) l := by
      unfold keyAfter; rfl
    rw [hstep]
    cases op with
    | setup p c =>
      rcases ih c with h | h
      · right; simp [setupContent, h]
      · right; simp only [List.filterMap_cons, setupContent, List.mem_cons]; right; exact h
    | sign a m =>
      rcases ih k with h | h
      · left; exact h
      · right; simpa [setupContent] using h
    | verify a m sg c sk =>
      rcases ih k with h | h
      · left; exact h
      · right; simpa [setupContent] using h

omit [DecidableEq κ] [DecidableEq α] [DecidableEq μ] in
/-- Operations that set up no entity leave the thread's entity key as it is. -/
theorem keyAfter_no_setup (k : κ) (ops : List (Op κ α μ)) (h : ∀ op ∈ ops, setupContent op = none) :
    keyAfter k ops = k := by
  induction ops generalizing k with
  | nil => rfl
  | cons op l ih =>
    have hl : ∀ o ∈ l, setupContent o = none := fun o ho => h o (List.mem_cons_of_mem _ ho)
    cases op with
    | setup p c => exact absurd (h _ List.mem_cons_self) (by simp [setupContent])
    | sign a m =>
      have hstep : keyAfter k (Op.sign a m :: l) = keyAfter k l := rfl
      rw [hstep]; exact ih k hl
    | verify a m sg c sk =>
      have hstep : keyAfter k (Op.verify a m sg c sk :: l) = keyAfter k l := rfl
      rw [hstep]; exact ih k hl

omit [DecidableEq κ] [DecidableEq α] [DecidableEq μ] in
/-- Entity churn: whatever entities the thread acted for before (any number of earlier set-ups, any keys), after a
    set-up with content `c` followed by operations that set up nothing the thread's entity key is `c`. -/
theorem keyAfter_last_setup (k : κ) (pre post : List (Op κ α μ)) (p : Nat) (c : κ)
    (h : ∀ op ∈ post, setupContent op = none) :
    keyAfter k (pre ++ .setup p c :: post) = c := by
  have : keyAfter k (pre ++ .setup p c :: post) = keyAfter (keyAfter k (pre ++ [.setup p c])) post := by
    unfold keyAfter
    rw [show pre ++ Op.setup p c :: post = (pre ++ [Op.setup p c]) ++ post by simp, List.foldl_append]
  rw [this, keyAfter_snoc, keyAfter_no_setup _ _ h]

/-! ### Thread-local invariant -/

/-- The operation a thread is in the middle of. -/
def curOp : Pending κ α μ → Option (Op κ α μ)
  | .idle => none
  | .signing _ alg msg => some (.sign alg msg)
  | .verifying _ alg msg sig cert sigkey => some (.verify alg msg sig cert sigkey)

/-- `st` is a state of thread `th`: the program splits into the operations done (`st.pc` of them), the
    current one and the rest; the entity key is the one the done operations lead to; a thread between
    `get_signer` and `sign` holds a signer object with ITS OWN key and the digest it asked for; one
    between `get_signer` and `verify` holds a signer with the digest it asked for. -/
def Good (th : Thread κ α μ) (st : TState κ α μ) : Prop :=
  ∃ done : List (Op κ α μ), done.length = st.pc ∧
    th.prog = done ++ ((curOp st.pend).toList ++ st.rest) ∧
    st.key = keyAfter th.key done ∧
    (∀ s alg msg, st.pend = .signing s alg msg → s = ⟨alg, st.key⟩) ∧
    (∀ s alg msg sig cert sk, st.pend = .verifying s alg msg sig cert sk → s.digest = alg)

/-- What a reported result says about the operation it belongs to. -/
def EventOk (tb : Tables α) (th : Thread κ α μ) (i : Nat) : Event κ α μ → Prop
  | .signed alg msg s =>
      th.prog[i]? = some (.sign alg msg) ∧ s = ⟨keyAfter th.key (th.prog.take i), alg, msg⟩
  | .verified ok =>
      ∃ alg msg sig cert sk, th.prog[i]? = some (.verify alg msg sig cert sk) ∧
        ∀ c, cert = some c → (ok = true → verifies c alg msg sig = true) ∧
          (tb.hasSigner alg = true → ok = verifies c alg msg sig)
  | .refused => ∃ alg msg, th.prog[i]? = some (.sign alg msg)
  | .setupDone => ∃ p c, th.prog[i]? = some (.setup p c)
  | .crashed => False

theorem stepThread_inv (tb : Tables α) (th : Thread κ α μ) (st st' : TState κ α μ) (b : Branch)
    (ev : Option (Event κ α μ)) (hg : Good th st) (h : stepThread tb st = some (st', b, ev)) :
    Good th st' ∧ ∀ e, ev = some e → EventOk tb th st.pc e := by
  obtain ⟨done, hlen, hprog, hkey, hsig, hver⟩ := hg
  unfold stepThread at h
  split at h
  next s alg msg hp =>
    -- signer.sign
    cases h
    have hs := hsig s alg msg hp
    subst hs
    rw [hp] at hprog
    simp only [curOp, Option.toList_some, List.singleton_append] at hprog
    refine ⟨⟨done ++ [.sign alg msg], by simp [hlen], ?_, ?_, ?_, ?_⟩, ?_⟩
    · simpa [curOp] using hprog
    · simp only; rw [keyAfter_snoc]; exact hkey
    · intro s' a' m' hp'; cases hp'
    · intro s' a' m' sg c sk hp'; cases hp'
    · intro e he
      cases he
      refine ⟨?_, ?_⟩
      · rw [hprog, ← hlen]; exact nth_mid _ _ _
      · rw [hprog, ← hlen, take_mid, ← hkey]
  next s alg msg sig cert sigkey hp =>
    -- signer.verify
    cases h
    have hd := hver s alg msg sig cert sigkey hp
    rw [hp] at hprog
    simp only [curOp, Option.toList_some, List.singleton_append] at hprog
    refine ⟨⟨done ++ [.verify alg msg sig cert sigkey], by simp [hlen], ?_, ?_, ?_, ?_⟩, ?_⟩
    · simpa [curOp] using hprog
    · simp only; rw [keyAfter_snoc]; exact hkey
    · intro s' a' m' hp'; cases hp'
    · intro s' a' m' sg c sk hp'; cases hp'
    · intro e he
      cases he
      refine ⟨alg, msg, sig, cert, sigkey, ?_, ?_⟩
      · rw [hprog, ← hlen]; exact nth_mid _ _ _
      · intro c hc
        subst hc
        have hk : verifies ((explicitKey (some c) sigkey).getD s.key) s.digest msg sig
            = verifies c alg msg sig := by simp [explicitKey, hd]
        rw [hk]
        exact ⟨fun h => h, fun _ => rfl⟩
  next hp =>
    rw [hp] at hprog
    simp only [curOp, Option.toList_none, List.nil_append] at hprog
    split at h
    · cases h
    next alg msg r hr =>
      rw [hr] at hprog
      have hnth : th.prog[st.pc]? = some (.sign alg msg) := by rw [hprog, ← hlen]; exact nth_mid _ _ _
      split at h
      · cases h
        refine ⟨⟨done ++ [.sign alg msg], by simp [hlen], ?_, ?_, ?_, ?_⟩, ?_⟩
        · simpa [hp, curOp] using hprog
        · simp only; rw [keyAfter_snoc]; exact hkey
        · intro s' a' m' hp'; simp only at hp'; rw [hp] at hp'; cases hp'
        · intro s' a' m' sg c sk hp'; simp only at hp'; rw [hp] at hp'; cases hp'
        · intro e he; cases he; exact ⟨alg, msg, hnth⟩
      · split at h
        · cases h
          refine ⟨⟨done ++ [.sign alg msg], by simp [hlen], ?_, ?_, ?_, ?_⟩, ?_⟩
          · simpa [hp, curOp] using hprog
          · simp only; rw [keyAfter_snoc]; exact hkey
          · intro s' a' m' hp'; simp only at hp'; rw [hp] at hp'; cases hp'
          · intro s' a' m' sg c sk hp'; simp only at hp'; rw [hp] at hp'; cases hp'
          · intro e he; cases he; exact ⟨alg, msg, hnth⟩
        · cases h
          refine ⟨⟨done, hlen, ?_, hkey, ?_, ?_⟩, ?_⟩
          · simpa [curOp] using hprog
          · intro s' a' m' hp'; cases hp'; rfl
          · intro s' a' m' sg c sk hp'; cases hp'
          · intro e he; cases he
    next alg msg sig cert sigkey r hr =>
      rw [hr] at hprog
      have hnth : th.prog[st.pc]? = some (.verify alg msg sig cert sigkey) := by
        rw [hprog, ← hlen]; exact nth_mid _ _ _
      split at h
      next hno =>
        cases h
        refine ⟨⟨done ++ [.verify alg msg sig cert sigkey], by simp [hlen], ?_, ?_, ?_, ?_⟩, ?_⟩
        · simpa [hp, curOp] using hprog
        · simp only; rw [keyAfter_snoc]; exact hkey
        · intro s' a' m' hp'; simp only at hp'; rw [hp] at hp'; cases hp'
        · intro s' a' m' sg c sk hp'; simp only at hp'; rw [hp] at hp'; cases hp'
        · intro e he
          cases he
          refine ⟨alg, msg, sig, cert, sigkey, hnth, ?_⟩
          intro c _
          refine ⟨(fun h => by cases h), fun hs => ?_⟩
          simp [hs] at hno
      · cases h
        refine ⟨⟨done, hlen, ?_, hkey, ?_, ?_⟩, ?_⟩
        · simpa [curOp] using hprog
        · intro s' a' m' hp'; cases hp'
        · intro s' a' m' sg c sk hp'; cases hp'; rfl
        · intro e he; cases he
    next p content r hr =>
      rw [hr] at hprog
      have hnth : th.prog[st.pc]? = some (.setup p content) := by rw [hprog, ← hlen]; exact nth_mid _ _ _
      cases h
      refine ⟨⟨done ++ [.setup p content], by simp [hlen], ?_, ?_, ?_, ?_⟩, ?_⟩
      · simpa [hp, curOp] using hprog
      · simp only; rw [keyAfter_snoc]
      · intro s' a' m' hp'; simp only at hp'; rw [hp] at hp'; cases hp'
      · intro s' a' m' sg c sk hp'; simp only at hp'; rw [hp] at hp'; cases hp'
      · intro e he; cases he; exact ⟨p, content, hnth⟩

/-! ### Global invariant -/

/-- Every thread state is a `Good` state of the thread of the same number, and every result reported
    so far satisfies `EventOk` for the thread and operation it is attributed to. -/
structure Inv (tb : Tables α) (threads : List (Thread κ α μ)) (g : State κ α μ) : Prop where
  locals : ∀ (i : Nat) (st : TState κ α μ), g.ts[i]? = some st →
    ∃ th : Thread κ α μ, threads[i]? = some th ∧ Good th st
  events : ∀ (t i : Nat) (e : Event κ α μ), (t, i, e) ∈ g.out →
    ∃ th : Thread κ α μ, threads[t]? = some th ∧ EventOk tb th i e

theorem inv_init (tb : Tables α) (threads : List (Thread κ α μ)) : Inv tb threads (init threads) := by
  constructor
  · intro i st h
    simp only [init, List.getElem?_map] at h
    cases hth : threads[i]? with
    | none => simp [hth] at h
    | some th =>
      simp [hth] at h
      subst h
      refine ⟨th, rfl, [], rfl, ?_, rfl, ?_, ?_⟩
      · simp [curOp]
      · intro s a m hp; cases hp
      · intro s a m sg c sk hp; cases hp
  · intro t i e h
    simp [init] at h

theorem inv_step (tb : Tables α) (threads : List (Thread κ α μ)) (g : State κ α μ) (t : Nat)
    (hinv : Inv tb threads g) : Inv tb threads (step tb g t) := by
  unfold step
  split
  · exact hinv
  next st hst =>
    split
    · exact hinv
    next st' b ev hstep =>
      obtain ⟨th, hth, hgood⟩ := hinv.locals t st hst
      obtain ⟨hg', hev⟩ := stepThread_inv tb th st st' b ev hgood hstep
      constructor
      · intro i sti hi
        simp only at hi
        rw [List.getElem?_set] at hi
        split at hi
        next heq =>
          subst heq
          split at hi
          · cases hi
            exact ⟨th, hth, hg'⟩
          · cases hi
        next => exact hinv.locals i sti hi
      · intro t' i e hmem
        simp only at hmem
        rcases List.mem_append.mp hmem with hold | hnew
        · exact hinv.events t' i e hold
        · cases ev with
          | none => simp at hnew
          | some e' =>
            simp only [List.mem_singleton] at hnew
            cases hnew
            exact ⟨th, hth, hev e rfl⟩

theorem inv_foldl (tb : Tables α) (threads : List (Thread κ α μ)) (sched : List Nat) (g : State κ α μ)
    (hinv : Inv tb threads g) : Inv tb threads (sched.foldl (step tb) g) := by
  induction sched generalizing g with
  | nil => exact hinv
  | cons t rest ih => exact ih (step tb g t) (inv_step tb threads g t hinv)

theorem inv_run (tb : Tables α) (threads : List (Thread κ α μ)) (sched : List Nat) :
    Inv tb threads (run tb threads sched) :=
  inv_foldl tb threads sched _ (inv_init tb threads)

theorem verifiers_exact (univ : List κ) (k : κ) (alg : α) (msg : μ) :
    univ.filter (fun k' => verifies k' alg msg (⟨k, alg, msg⟩ : Sig κ α μ)) = univ.filter (fun k' => decide (k' = k)) := by
  apply List.filter_congr
  intro k' _
  simp [verifies, eq_comm]

/-- Trying a signature of key `k` against a list of certificates succeeds iff `k`'s is among them. -/
theorem any_verifies_exact (L : List κ) (k : κ) (alg : α) (msg : μ) :
    L.any (fun k' => verifies k' alg msg (⟨k, alg, msg⟩ : Sig κ α μ)) = L.contains k := by
  induction L with
  | nil => rfl
  | cons a l ih =>
    simp only [List.any_cons, List.contains_cons, ih]
    congr 1
    simp only [verifies, decide_true, Bool.and_true]
    by_cases h : k = a
    · subst h; simp
    · simp [h]

end C20
