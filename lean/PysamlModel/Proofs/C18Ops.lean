/-
  C18 — helper lemmas: what each IdentDB operation does to a store satisfying the invariant.
-/
import PysamlModel.Proofs.C18Inv

namespace Ident
set_option linter.unusedSimpArgs false

/-- the format constants are usable: persistent is a non-empty string different from transient -/
def ConstsOk (K : Consts) : Prop := K.persistent ≠ [] ∧ K.persistent ≠ K.transient

theorem sameQual_comm (a b : NameId) : sameQual a b.spq b.nq = sameQual b a.spq a.nq := by
  unfold sameQual
  rw [Bool.beq_comm (a := normF a.spq), Bool.beq_comm (a := normF a.nq)]

theorem sameQual_normF (a : NameId) (spq nq : Option Str) :
    sameQual a (normF spq) (normF nq) = sameQual a spq nq := by
  simp [sameQual, normF_normF]

/-- a freshly issued identifier was added for `u` -/
structure Created (K : Consts) (users : List Str) (P : DB) (u : Str) (n : NameId) (Q : DB) (t : Str) : Prop where
  text : n.text = some t
  ne : t ≠ []
  notUser : t ∉ users
  fresh : P.get t = none
  inv : Inv K users Q
  heldU : Ident.held Q u = Ident.held P u ++ [n.norm]
  other : ∀ u' ∈ users, u' ≠ u → Ident.held Q u' = Ident.held P u'
  owner : Q.get t = some u

theorem mem_candsOk {users : List Str} {cfg : Cfg} {cands : List Str} (h : candsOk users cfg cands = true)
    {c : Str} (hc : c ∈ cands) : c ≠ [] ∧ c ∉ users ∧ (c ++ 64 :: cfg.domain) ∉ users := by
  unfold candsOk at h
  have := (List.all_eq_true.mp h) c hc
  simp only [Bool.and_eq_true, Bool.not_eq_true', List.contains_eq_mem, decide_eq_false_iff_not] at this
  obtain ⟨⟨h1, h2⟩, h3⟩ := this
  refine ⟨?_, h2, h3⟩
  intro e; subst e; simp at h1

theorem createAndStore_created {K : Consts} {cfg : Cfg} {users : List Str} {P : DB} (inv : Inv K users P)
    {u : Str} (hu : u ∈ users) {fmt : Str} {spq nq : Option Str} {cands : List Str}
    (hc : candsOk users cfg cands = true)
    (hem : fmt = K.email → ∀ c ∈ cands, P.get (c ++ 64 :: cfg.domain) = none)
    (hreg : fmt = K.persistent → regIn K (held P u) spq nq = none)
    {n : NameId} {Q : DB} (h : createAndStore K cfg P u fmt spq nq cands = .ok (n, Q)) :
    n.fmt = some fmt ∧ n.spq = spq ∧ n.nq = nq ∧ n.spid = none ∧ ∃ t, Created K users P u n Q t := by
  unfold createAndStore at h
  cases hci : createId P cands with
  | error e => simp [hci] at h
  | ok id0 =>
    obtain ⟨hmem, hget0⟩ := createId_ok hci
    obtain ⟨hne0, hnu0, hnu1⟩ := mem_candsOk hc hmem
    simp only [hci] at h
    by_cases hdom : fmt = K.email ∧ cfg.domain.isEmpty = true
    · simp [hdom] at h
    · simp only [hdom, if_false] at h
      -- the value that gets stored
      obtain ⟨t, ht, htne, htu, htf⟩ : ∃ t, t = (if fmt = K.email then id0 ++ 64 :: cfg.domain else id0) ∧
          t ≠ [] ∧ t ∉ users ∧ P.get t = none := by
        by_cases he : fmt = K.email
        · exact ⟨_, rfl, by simp [he], by simpa [he] using hnu1, by simpa [he] using hem he id0 hmem⟩
        · exact ⟨_, rfl, by simpa [he] using hne0, by simpa [he] using hnu0, by simpa [he] using hget0⟩
      rw [← ht] at h
      obtain ⟨db', hst, hQu, hQt, hQo⟩ := store_ok P u { fmt := some fmt, spq := spq, nq := nq, text := some t } t rfl
      rw [hst] at h
      simp only [Except.ok.injEq, Prod.mk.injEq] at h
      obtain ⟨rfl, rfl⟩ := h
      refine ⟨rfl, rfl, rfl, rfl, t, ?_⟩
      have htu' : t ≠ u := fun e => htu (e ▸ hu)
      have hxT : truthy (some t) = true := by
        cases t with
        | nil => exact absurd rfl htne
        | cons _ _ => rfl
      obtain ⟨x, hxdef⟩ : ∃ x : NameId, x = ({ fmt := some fmt, spq := spq, nq := nq, text := some t } : NameId).norm := ⟨_, rfl⟩
      have hxn : x.norm = x := by rw [hxdef]; exact norm_norm _
      have hxt : x.text = some t := by simp [hxdef, NameId.norm, normF, hxT]
      have hcode : code x = code { fmt := some fmt, spq := spq, nq := nq, text := some t } := by rw [hxdef]; exact code_norm _
      have huniq : ∀ a ∈ held P u, ¬ Clash K a x := by
        intro a ha ⟨hap, hreg'⟩
        unfold isReg at hreg'
        simp only [Bool.and_eq_true, beq_iff_eq] at hreg'
        obtain ⟨hxf, hsq⟩ := hreg'
        have hfmt : fmt = K.persistent := by
          have : x.fmt = normF (some fmt) := by simp [hxdef, NameId.norm]
          rw [this] at hxf
          unfold normF at hxf
          by_cases hT : truthy (some fmt) = true
          · simp [hT] at hxf; exact hxf
          · simp [hT] at hxf
        have hnone := hreg hfmt
        unfold regIn at hnone
        have := List.find?_eq_none.mp hnone a ha
        apply this
        unfold isReg
        simp only [Bool.and_eq_true, beq_iff_eq]
        refine ⟨hap, ?_⟩
        rw [sameQual_comm] at hsq
        have hx1 : x.spq = normF spq := by simp [hxdef, NameId.norm]
        have hx2 : x.nq = normF nq := by simp [hxdef, NameId.norm]
        rw [hx1, hx2, sameQual_normF] at hsq
        exact hsq
      obtain ⟨invQ, hheld, hother⟩ := inv.append hu x t hxn hxt htu htf huniq
        (by rw [hQu htu', hcode]) hQt hQo
      exact ⟨rfl, htne, htu, htf, invQ, by rw [hheld, hxdef], hother, hQt⟩

/-- outcome of an issuing call for user `u`: an identifier `u` already holds, or a new one -/
inductive Issued (K : Consts) (users : List Str) (P : DB) (u : Str) (n : NameId) (Q : DB) : Prop where
  | existing (hQ : Q = P) (hm : n ∈ held P u)
  | created (t : Str) (c : Created K users P u n Q t)

theorem getNameid_issued {K : Consts} {cfg : Cfg} {users : List Str} {P : DB} (inv : Inv K users P)
    {u : Str} (hu : u ∈ users) {fmt : Str} {spq nq : Option Str} {cands : List Str}
    (hc : candsOk users cfg cands = true)
    (hem : fmt = K.email → ∀ c ∈ cands, P.get (c ++ 64 :: cfg.domain) = none)
    {n : NameId} {Q : DB} (h : getNameid K cfg P u fmt spq nq cands = .ok (n, Q)) :
    (fmt = K.persistent ∧ regIn K (held P u) spq nq = some n ∧ Q = P) ∨
    ((fmt = K.persistent → regIn K (held P u) spq nq = none) ∧
      n.fmt = some fmt ∧ n.spq = spq ∧ n.nq = nq ∧ n.spid = none ∧ ∃ t, Created K users P u n Q t) := by
  unfold getNameid at h
  by_cases hf : fmt = K.persistent
  · rw [if_pos hf, matchLocalId_inv inv hu] at h
    cases hr : regIn K (held P u) spq nq with
    | some m =>
      rw [hr] at h
      simp only [Except.ok.injEq, Prod.mk.injEq] at h
      obtain ⟨rfl, rfl⟩ := h
      exact Or.inl ⟨hf, rfl, rfl⟩
    | none =>
      rw [hr] at h
      simp only at h
      exact Or.inr ⟨fun _ => rfl, createAndStore_created inv hu hc hem (fun _ => hr) h⟩
  · rw [if_neg hf] at h
    simp only at h
    exact Or.inr ⟨fun e => absurd e hf, createAndStore_created inv hu hc hem (fun e => absurd e hf) h⟩

theorem regIn_mem {K : Consts} {l : List NameId} {spq nq : Option Str} {m : NameId}
    (h : regIn K l spq nq = some m) : m ∈ l ∧ m.fmt = some K.persistent ∧ sameQual m spq nq = true := by
  unfold regIn at h
  have h1 := List.mem_of_find?_eq_some h
  have h2 := List.find?_some h
  unfold isReg at h2
  simp only [Bool.and_eq_true, beq_iff_eq] at h2
  exact ⟨h1, h2.1, h2.2⟩

theorem getNameid_issued' {K : Consts} {cfg : Cfg} {users : List Str} {P : DB} (inv : Inv K users P)
    {u : Str} (hu : u ∈ users) {fmt : Str} {spq nq : Option Str} {cands : List Str}
    (hc : candsOk users cfg cands = true)
    (hem : fmt = K.email → ∀ c ∈ cands, P.get (c ++ 64 :: cfg.domain) = none)
    {n : NameId} {Q : DB} (h : getNameid K cfg P u fmt spq nq cands = .ok (n, Q)) :
    Issued K users P u n Q := by
  rcases getNameid_issued inv hu hc hem h with ⟨_, hr, rfl⟩ | ⟨_, _, _, _, _, t, c⟩
  · exact .existing rfl (regIn_mem hr).1
  · exact .created t c

theorem persistentNameid_issued {K : Consts} {cfg : Cfg} {users : List Str} {P : DB} (inv : Inv K users P)
    {u : Str} (hu : u ∈ users) {spq nq : Option Str} {cands : List Str}
    (hc : candsOk users cfg cands = true)
    (hem : K.persistent = K.email → ∀ c ∈ cands, P.get (c ++ 64 :: cfg.domain) = none)
    {n : NameId} {Q : DB} (h : persistentNameid K cfg P u spq nq cands = .ok (n, Q)) :
    (regIn K (held P u) spq nq = some n ∧ Q = P) ∨
    (regIn K (held P u) spq nq = none ∧
      n.fmt = some K.persistent ∧ n.spq = spq ∧ n.nq = nq ∧ n.spid = none ∧ ∃ t, Created K users P u n Q t) := by
  unfold persistentNameid at h
  rw [matchLocalId_inv inv hu] at h
  cases hr : regIn K (held P u) spq nq with
  | some m =>
    rw [hr] at h
    simp only [Except.ok.injEq, Prod.mk.injEq] at h
    obtain ⟨rfl, rfl⟩ := h
    exact Or.inl ⟨rfl, rfl⟩
  | none =>
    rw [hr] at h
    simp only at h
    rcases getNameid_issued inv hu hc hem h with ⟨_, hr', _⟩ | ⟨_, h2⟩
    · rw [hr] at hr'; cases hr'
    · exact Or.inr ⟨rfl, h2⟩

theorem constructNameid_issued {K : Consts} {cfg : Cfg} {users : List Str} {P : DB} (inv : Inv K users P)
    {u : Str} (hu : u ∈ users) {lf spq nq : Option Str} {pol : Option Policy} {cands : List Str}
    (hc : candsOk users cfg cands = true)
    (hem : ∀ fmt, constructFmt lf pol = some fmt → fmt = K.email → ∀ c ∈ cands, P.get (c ++ 64 :: cfg.domain) = none)
    {n : NameId} {Q : DB} (h : constructNameid K cfg P u lf spq pol nq cands = .ok (n, Q)) :
    Issued K users P u n Q := by
  unfold constructNameid at h
  cases hcf : constructFmt lf pol with
  | none => rw [hcf] at h; simp at h
  | some fmt =>
    rw [hcf] at h
    simp only at h
    exact getNameid_issued' inv hu hc (hem fmt hcf) h

theorem sameQual_self (n : NameId) : sameQual n n.spq n.nq = true := by simp [sameQual]

/-- every answer of `get_nameid` has the format and the qualifiers that were asked for -/
theorem getNameid_quals {K : Consts} {cfg : Cfg} {users : List Str} {P : DB} (inv : Inv K users P)
    {u : Str} (hu : u ∈ users) {fmt : Str} {spq nq : Option Str} {cands : List Str}
    (hc : candsOk users cfg cands = true)
    (hem : fmt = K.email → ∀ c ∈ cands, P.get (c ++ 64 :: cfg.domain) = none)
    {n : NameId} {Q : DB} (h : getNameid K cfg P u fmt spq nq cands = .ok (n, Q)) :
    n.fmt = some fmt ∧ sameQual n spq nq = true := by
  rcases getNameid_issued inv hu hc hem h with ⟨hf, hr, _⟩ | ⟨_, h1, h2, h3, _, _⟩
  · obtain ⟨_, h1, h2⟩ := regIn_mem hr
    exact ⟨by rw [h1, hf], h2⟩
  · subst h2; subst h3
    exact ⟨h1, sameQual_self n⟩

theorem constructNameid_quals {K : Consts} {cfg : Cfg} {users : List Str} {P : DB} (inv : Inv K users P)
    {u : Str} (hu : u ∈ users) {lf spq nq : Option Str} {pol : Option Policy} {cands : List Str}
    (hc : candsOk users cfg cands = true)
    (hem : ∀ fmt, constructFmt lf pol = some fmt → fmt = K.email → ∀ c ∈ cands, P.get (c ++ 64 :: cfg.domain) = none)
    {n : NameId} {Q : DB} (h : constructNameid K cfg P u lf spq pol nq cands = .ok (n, Q)) :
    n.fmt = constructFmt lf pol ∧ normF n.spq = normF (constructSpq spq pol) := by
  unfold constructNameid at h
  cases hcf : constructFmt lf pol with
  | none => rw [hcf] at h; simp at h
  | some fmt =>
    rw [hcf] at h
    simp only at h
    obtain ⟨h1, h2⟩ := getNameid_quals inv hu hc (hem fmt hcf) h
    unfold sameQual at h2
    simp only [Bool.and_eq_true, beq_iff_eq] at h2
    exact ⟨h1, h2.1⟩

theorem Issued.inv {K : Consts} {users : List Str} {P Q : DB} {u : Str} {n : NameId}
    (i : Issued K users P u n Q) (inv : Inv K users P) : Inv K users Q := by
  cases i with
  | existing hQ _ => rw [hQ]; exact inv
  | created t c => exact c.inv

theorem Issued.owned {K : Consts} {users : List Str} {P Q : DB} {u : Str} {n : NameId}
    (i : Issued K users P u n Q) (inv : Inv K users P) (hu : u ∈ users) : ownedBy Q n.text (some u) = true := by
  cases i with
  | existing hQ hm =>
    obtain ⟨t, h1, _, h3⟩ := inv.owner u hu n hm
    simp [ownedBy, h1, hQ, h3]
  | created t c => simp [ownedBy, c.text, c.owner]

/-! ### removal and ManageNameID -/

theorem pairwise_symm_mem {α : Type} {R : α → α → Prop} (hs : ∀ a b, R a b → R b a) {l : List α}
    (h : l.Pairwise R) {a b : α} (ha : a ∈ l) (hb : b ∈ l) (hne : a ≠ b) : R a b := by
  induction l with
  | nil => cases ha
  | cons c l ih =>
    rw [List.pairwise_cons] at h
    rcases List.mem_cons.mp ha with rfl | ha' <;> rcases List.mem_cons.mp hb with rfl | hb'
    · exact absurd rfl hne
    · exact h.1 b hb'
    · exact hs _ _ (h.1 a ha')
    · exact ih h.2 ha' hb'

theorem clash_symm {K : Consts} {a b : NameId} (h : Clash K a b) : Clash K b a := by
  obtain ⟨h1, h2⟩ := h
  unfold isReg at h2
  simp only [Bool.and_eq_true, beq_iff_eq] at h2
  refine ⟨h2.1, ?_⟩
  unfold isReg
  simp only [Bool.and_eq_true, beq_iff_eq]
  exact ⟨h1, by rw [sameQual_comm]; exact h2.2⟩

theorem textOk_unpack {users : List Str} {n : NameId} (h : textOk users n = true) :
    ∃ t, n.text = some t ∧ t ≠ [] ∧ t ∉ users := by
  unfold textOk at h
  cases ht : n.text with
  | none => simp [ht] at h
  | some t =>
    simp only [ht, Bool.and_eq_true, Bool.not_eq_true', List.contains_eq_mem, decide_eq_false_iff_not] at h
    refine ⟨t, rfl, ?_, h.2⟩
    intro e; subst e; simp at h

theorem norm_text_some {n : NameId} {t : Str} (ht : n.text = some t) (hne : t ≠ []) : n.norm.text = some t := by
  have : truthy (some t) = true := by
    cases t with
    | nil => exact absurd rfl hne
    | cons _ _ => rfl
  simp [NameId.norm, ht, normF, this]

theorem inv_unlink {K : Consts} {users : List Str} {P : DB} (inv : Inv K users P) {t : Str} (htu : t ∉ users)
    (hno : ∀ u ∈ users, ∀ m ∈ held P u, m.text ≠ some t) :
    Inv K users (P.del t) ∧ ∀ u ∈ users, held (P.del t) u = held P u := by
  have hget : ∀ u ∈ users, (P.del t).get u = P.get u := fun u hu => DB.get_del_ne _ _ _ (fun e => htu (e ▸ hu))
  have hheld : ∀ u ∈ users, held (P.del t) u = held P u := fun u hu => held_congr (hget u hu)
  refine ⟨⟨?_, ?_, ?_, ?_, ?_⟩, hheld⟩
  · intro u hu p hp
    rw [userPieces_congr (hget u hu)] at hp
    exact inv.good u hu p hp
  · intro u hu m hm
    rw [hheld u hu] at hm
    obtain ⟨t', h1, h2, h3⟩ := inv.owner u hu m hm
    refine ⟨t', h1, h2, ?_⟩
    rw [DB.get_del_ne _ _ _ (fun e => hno u hu m hm (by rw [h1, e]))]; exact h3
  · intro u hu; rw [hheld u hu]; exact inv.nodup u hu
  · intro k v hk hku
    by_cases h : k = t
    · subst h; rw [DB.get_del_self] at hk; cases hk
    · rw [DB.get_del_ne _ _ _ h] at hk; exact inv.rev k v hk hku
  · intro u hu; rw [hheld u hu]; exact inv.uniq u hu

theorem filter_erase_of_not {α : Type} [DecidableEq α] (p : α → Bool) (x : α) (hx : p x = false) (l : List α) :
    (l.erase x).filter p = l.filter p := by
  induction l with
  | nil => rfl
  | cons a l ih =>
    by_cases h : a = x
    · subst h; simp [hx]
    · have : (a == x) = false := by simpa using h
      rw [List.erase_cons, this]
      simp only [Bool.false_eq_true, if_false, List.filter_cons, ih]

/-- what a successful `remove_remote` of a presented identifier with value `t` did -/
structure Removed (K : Consts) (users : List Str) (P : DB) (n : NameId) (t : Str) (Q : DB) (id : Str) : Prop where
  idUser : id ∈ users
  owner : P.get t = some id
  inv : Inv K users Q
  heldId : held Q id = (held P id).erase n.norm
  other : ∀ u' ∈ users, u' ≠ id → held Q u' = held P u'
  gone : Q.get t = none
  keys : ∀ k, k ∉ users → k ≠ t → Q.get k = P.get k
  nobody : ∀ u' ∈ users, ∀ m ∈ held Q u', m.text ≠ some t
  mem : held P id = [] ∨ n.norm ∈ held P id

theorem removeRemote_outcome {K : Consts} {users : List Str} {P : DB} (inv : Inv K users P) {n : NameId} {t : Str}
    (ht : n.text = some t) (hne : t ≠ []) (htu : t ∉ users) {Q : DB} (h : removeRemote P n = .ok Q) :
    ∃ id, Removed K users P n t Q id := by
  unfold removeRemote at h
  simp only [ht] at h
  cases hg : P.get t with
  | none => simp [hg] at h
  | some id =>
    have hid : id ∈ users := inv.rev t id hg htu
    have htid : t ≠ id := fun e => htu (e ▸ hid)
    simp only [hg] at h
    cases hp : pieces P id with
    | none =>
      simp only [hp, Except.ok.injEq] at h
      subst h
      have hempty : held P id = [] := by simp [held, userPieces, hp]
      have hno : ∀ u ∈ users, ∀ m ∈ held P u, m.text ≠ some t := by
        intro u hu m hm e
        obtain ⟨t', h1, _, h3⟩ := inv.owner u hu m hm
        rw [e] at h1; cases h1
        rw [hg] at h3; cases h3
        rw [hempty] at hm; cases hm
      obtain ⟨invQ, hheld⟩ := inv_unlink inv htu hno
      refine ⟨id, hid, hg, invQ, ?_, fun u' hu' _ => hheld u' hu', DB.get_del_self _ _,
        fun k _ hk => DB.get_del_ne _ _ _ hk, ?_, Or.inl hempty⟩
      · rw [hheld id hid, hempty]; rfl
      · intro u' hu' m hm; rw [hheld u' hu'] at hm; exact hno u' hu' m hm
    | some vals =>
      have hup : userPieces P id = vals := by simp [userPieces, hp]
      simp only [hp] at h
      by_cases hc : code n ∈ vals
      · simp only [hc, if_true] at h
        have hsome : (P.get id).isSome := by
          unfold pieces at hp
          cases hgi : P.get id with
          | none => simp [hgi] at hp
          | some _ => rfl
        obtain ⟨db', hrr, hQu, hQt, hQo⟩ := removeRemote_ok P n t id ht hg hsome (by rw [hup]; exact hc) htid
        have hQ : Q = db' := by
          have : removeRemote P n = .ok Q := by
            unfold removeRemote
            simp only [ht, hg, hp, hc, if_true]
            exact h
          rw [hrr] at this; cases this; rfl
        subst hQ
        have hgood := inv.good id hid
        rw [hup] at hgood hQu
        have hnT : truthy n.text = true := by
          rw [ht]; cases t with
          | nil => exact absurd rfl hne
          | cons _ _ => rfl
        have hxn : n.norm.norm = n.norm := norm_norm n
        have hxt := norm_text_some ht hne
        have hxT : truthy n.norm.text = true := by rw [NameId.norm]; simp only; rw [truthy_normF]; exact hnT
        have hcn : code n.norm = code n := code_norm n
        have hxmem : n.norm ∈ held P id := by
          rw [held_eq, hup, mem_heldOf_good hgood]
          exact ⟨by rw [hcn]; exact hc, hxn, hxT⟩
        have hheld : held Q id = (held P id).erase n.norm := by
          rw [held_eq, hQu, heldOf_ite, ← hcn, heldOf_erase hgood n.norm hxn hxT, held_eq, hup]
        have hQg : ∀ p ∈ userPieces Q id, GoodP p := by
          intro p hp'
          rw [hQu] at hp'
          by_cases he : vals.erase (code n) = []
          · simp only [he, if_true, List.mem_singleton] at hp'; subst hp'; exact goodP_nil
          · simp only [he, if_false] at hp'
            exact hgood p (List.mem_of_mem_erase hp')
        obtain ⟨invQ, hother, hnobody⟩ := inv.erase hid n.norm t hxmem hxt hheld hQg hQt hQo
        exact ⟨id, hid, hg, invQ, hheld, hother, hQt,
          fun k hk hkt => hQo k (fun e => hk (e ▸ hid)) hkt, hnobody, Or.inr hxmem⟩
      · simp [hc] at h

theorem clash_congr_right {K : Consts} {a x y : NameId} (h1 : x.fmt = y.fmt) (h2 : x.spq = y.spq) (h3 : x.nq = y.nq)
    (h : Clash K a x) : Clash K a y := by
  obtain ⟨ha, hr⟩ := h
  refine ⟨ha, ?_⟩
  unfold isReg sameQual at hr ⊢
  rw [← h1, ← h2, ← h3]; exact hr

/-- what a successful ManageNameID request (NewID / Terminate / …) on the identifier with value `t` did -/
structure Managed (K : Consts) (users : List Str) (P : DB) (n r : NameId) (t : Str) (Q : DB) (id : Str) : Prop where
  idUser : id ∈ users
  owner : P.get t = some id
  inv : Inv K users Q
  heldId : held Q id = (held P id).erase n.norm ++ [r.norm]
  other : ∀ u' ∈ users, u' ≠ id → held Q u' = held P u'
  ownerQ : Q.get t = some id
  rtext : r.norm.text = some t

theorem manageRequest_outcome {K : Consts} {users : List Str} {P : DB} (inv : Inv K users P) {n : NameId} {t : Str}
    (ht : n.text = some t) (hne : t ≠ []) (htu : t ∉ users) {m : Manage} (hm : m ≠ .noop)
    {r : NameId} {Q : DB} (h : manageRequest P n m = .ok (r, Q)) :
    r.text = n.text ∧ ∃ id, Managed K users P n r t Q id := by
  unfold manageRequest at h
  simp only [hm, if_false] at h
  have hfl : findLocalId P n = P.get t := by simp [findLocalId, ht]
  rw [hfl] at h
  cases hg : P.get t with
  | none => simp [hg] at h
  | some id =>
    simp only [hg] at h
    cases hrr : removeRemote P n with
    | error e => simp [hrr] at h
    | ok db1 =>
      simp only [hrr] at h
      obtain ⟨id', R⟩ := removeRemote_outcome inv ht hne htu hrr
      have : id' = id := by have := R.owner; rw [hg] at this; cases this; rfl
      subst this
      -- the identifier that is stored back
      obtain ⟨n', hn', hn't, hf, hs, hq⟩ : ∃ n' : NameId, n' = m.apply n ∧ n'.text = some t ∧ n'.fmt = n.fmt ∧
          n'.spq = n.spq ∧ n'.nq = n.nq := by
        refine ⟨_, rfl, ?_, ?_, ?_, ?_⟩ <;> cases m <;> simp [Manage.apply, ht]
      rw [← hn'] at h
      obtain ⟨db2, hst, hQu, hQt, hQo⟩ := store_ok db1 id' n' t hn't
      rw [hst] at h
      simp only [Except.map, Except.ok.injEq, Prod.mk.injEq] at h
      obtain ⟨rfl, rfl⟩ := h
      have htid : t ≠ id' := fun e => htu (e ▸ R.idUser)
      have hxt := norm_text_some hn't hne
      have hnd := inv.held_nodup R.idUser
      have huniq : ∀ a ∈ held db1 id', ¬ Clash K a n'.norm := by
        intro a ha hcl
        rw [R.heldId] at ha
        rcases R.mem with hempty | hmem
        · rw [hempty] at ha; cases ha
        · obtain ⟨hane, haP⟩ := (List.Nodup.mem_erase_iff hnd).mp ha
          have hcl' : Clash K a n.norm :=
            clash_congr_right (by simp [NameId.norm, hf]) (by simp [NameId.norm, hs]) (by simp [NameId.norm, hq]) hcl
          exact pairwise_symm_mem (R := fun a b => ¬ Clash K a b) (fun a b hab hba => hab (clash_symm hba))
            (inv.uniq id' R.idUser) haP hmem hane hcl'
      obtain ⟨invQ, hheld, hother⟩ := R.inv.append R.idUser n'.norm t (norm_norm n') hxt htu R.gone huniq
        (by rw [hQu htid, code_norm]) hQt hQo
      refine ⟨by rw [hn't, ht], id', R.idUser, hg, invQ, by rw [hheld, R.heldId], ?_, hQt, hxt⟩
      intro u' hu' hne'
      rw [hother u' hu' hne', R.other u' hu' hne']

end Ident
