/-
  C14 — the HTML side, continued: attribute lookups, form controls, actions and tag shapes commute
  with filling the template's holes; closed forms for `tags`/`scanDoc` of a rendered template.
-/
import PysamlModel.Proofs.C14Html
import PysamlModel.Proofs.C14Url
import PysamlModel.Spec.C14
namespace HtmlScan
open Bindings Codec C14Spec

theorem attr_inst (vals : Nat → Bytes) (t : Tag (Nat ⊕ Nat)) (n : List Nat) :
    (t.inst vals).attr n = (t.attr n).map (instVal vals) := by
  unfold Tag.attr Tag.inst
  simp only
  induction t.attrs with
  | nil => rfl
  | cons a rest ih =>
    simp only [List.map_cons, List.find?_cons]
    by_cases h : a.1 = n
    · simp [instAttr, h]
      cases a.2 <;> simp [instVal]
    · simp [instAttr, h]
      simpa [instAttr] using ih

theorem rawFields_inst (vals : Nat → Bytes) (ts : List (Tag (Nat ⊕ Nat))) :
    rawFields (ts.map (Tag.inst vals)) = (rawFields ts).map (fun p => (instVal vals p.1, instVal vals p.2)) := by
  induction ts with
  | nil => rfl
  | cons t ts ih =>
    unfold rawFields at ih ⊢
    simp only [List.map_cons, List.filterMap_cons]
    rw [ih]
    have h1 : (t.inst vals).closing = t.closing := rfl
    have h2 : (t.inst vals).name = t.name := rfl
    rw [h1, h2, attr_inst, attr_inst]
    by_cases hc : t.closing = false ∧ t.name = sInput
    · simp only [hc, and_self, if_true]
      cases hn : t.attr sName with
      | none => simp
      | some n =>
        cases hv : t.attr sValue <;> simp [instVal]
    · simp [hc]

theorem rawActions_inst (vals : Nat → Bytes) (ts : List (Tag (Nat ⊕ Nat))) :
    rawActions (ts.map (Tag.inst vals)) = (rawActions ts).map (instVal vals) := by
  induction ts with
  | nil => rfl
  | cons t ts ih =>
    unfold rawActions at ih ⊢
    simp only [List.map_cons, List.filterMap_cons]
    rw [ih]
    have h1 : (t.inst vals).closing = t.closing := rfl
    have h2 : (t.inst vals).name = t.name := rfl
    rw [h1, h2, attr_inst]
    by_cases hc : t.closing = false ∧ t.name = sForm
    · simp only [hc, and_self, if_true]
      cases hv : t.attr sAction <;> simp [instVal]
    · simp [hc]

/-- Shape of a template tag (attribute values forgotten). -/
def shapeT (t : Tag (Nat ⊕ Nat)) : Bool × List Nat × List (List Nat) × Bool :=
  (t.closing, t.name, t.attrs.map (·.1), t.selfClosing)

theorem shape_inst (vals : Nat → Bytes) (t : Tag (Nat ⊕ Nat)) : shape (t.inst vals) = shapeT t := by
  simp [shape, shapeT, Tag.inst, instAttr, Function.comp_def]

theorem err_mem_inst (vals : Nat → Bytes) (evs : List (Ev (Nat ⊕ Nat))) :
    Ev.err ∈ evs.flatMap (instEv vals) ↔ Ev.err ∈ evs := by
  induction evs with
  | nil => simp
  | cons e evs ih =>
    rw [List.flatMap_cons, List.mem_append, ih, List.mem_cons]
    constructor
    · rintro (h | h)
      · left
        cases e with
        | valCh x => cases x <;> simp [instEv] at h
        | _ => simp [instEv] at h <;> first | exact h | rfl
      · exact Or.inr h
    · rintro (h | h)
      · left; rw [← h]; simp [instEv]
      · exact Or.inr h

/-- The tags of a rendered template, in closed form. -/
theorem tags_render (vals : Nat → Bytes) (hv : ∀ i, 34 ∉ vals i) (t : List Piece) (hok : holesOk .data t = true) :
    tags (render vals t) = (collect {} (scanT .data t)).map (Tag.inst vals) := by
  unfold tags
  rw [(scan_render vals hv .data t hok).1]
  exact collect_inst vals {} _

theorem scanDoc_render (vals : Nat → Bytes) (hv : ∀ i, 34 ∉ vals i) (t : List Piece) (hok : holesOk .data t = true) :
    scanDoc (render vals t) =
      (endModeT .data t == .data && !(scanT .data t).contains .err, (collect {} (scanT .data t)).map (Tag.inst vals)) := by
  unfold scanDoc
  simp only
  obtain ⟨h1, h2⟩ := scan_render vals hv .data t hok
  rw [h1, h2]
  congr 1
  · congr 2
    rw [Bool.eq_iff_iff]
    simp only [List.contains_iff_mem]
    exact err_mem_inst vals _
  · exact collect_inst vals {} _

end HtmlScan
