/-
  C18 — helper lemmas about the codecs of `Model/Ident.lean`: `str.split` / `str.join` for a one-byte
  separator, `urllib.parse.quote` / `unquote`, and `code` / `decode` of name identifiers.
-/
import PysamlModel.Model.Ident
namespace Ident

/-! ### `splitOn` / `joinWith` -/

theorem splitOn_ne_nil (sep : UInt8) (s : Str) : splitOn sep s ≠ [] := by
  induction s with
  | nil => simp [splitOn]
  | cons c cs ih =>
    simp only [splitOn]
    split
    · simp
    · split <;> simp

theorem splitOn_cons_ne {sep c : UInt8} (h : c ≠ sep) (cs : Str) :
    ∃ p ps, splitOn sep cs = p :: ps ∧ splitOn sep (c :: cs) = (c :: p) :: ps := by
  cases hs : splitOn sep cs with
  | nil => exact absurd hs (splitOn_ne_nil sep cs)
  | cons p ps => exact ⟨p, ps, rfl, by simp [splitOn, h, hs]⟩

theorem splitOn_noSep (sep : UInt8) (s : Str) : ∀ p ∈ splitOn sep s, sep ∉ p := by
  induction s with
  | nil => simp [splitOn]
  | cons c cs ih =>
    intro p hp
    by_cases hc : c = sep
    · simp only [splitOn, hc, if_true, List.mem_cons] at hp
      rcases hp with rfl | hp
      · simp
      · exact ih p hp
    · obtain ⟨q, qs, h1, h2⟩ := splitOn_cons_ne hc cs
      rw [h2] at hp
      rw [h1] at ih
      simp only [List.mem_cons] at hp
      rcases hp with rfl | hp
      · have := ih q (by simp)
        simp only [List.mem_cons, not_or]
        exact ⟨fun e => hc e.symm, this⟩
      · exact ih p (by simp [hp])

theorem splitOn_of_noSep (sep : UInt8) (p : Str) (h : sep ∉ p) : splitOn sep p = [p] := by
  induction p with
  | nil => simp [splitOn]
  | cons c cs ih =>
    simp only [List.mem_cons, not_or] at h
    have hc : c ≠ sep := fun e => h.1 e.symm
    simp [splitOn, hc, ih h.2]

theorem splitOn_append_sep (sep : UInt8) (p t : Str) (h : sep ∉ p) :
    splitOn sep (p ++ sep :: t) = p :: splitOn sep t := by
  induction p with
  | nil => simp [splitOn]
  | cons c cs ih =>
    simp only [List.mem_cons, not_or] at h
    have hc : c ≠ sep := fun e => h.1 e.symm
    simp [splitOn, hc, ih h.2]

theorem splitOn_join (sep : UInt8) (l : List Str) (hne : l ≠ []) (h : ∀ p ∈ l, sep ∉ p) :
    splitOn sep (joinWith sep l) = l := by
  induction l with
  | nil => exact absurd rfl hne
  | cons p r ih =>
    cases r with
    | nil => simpa [joinWith] using splitOn_of_noSep sep p (h p (by simp))
    | cons q r =>
      simp only [joinWith]
      rw [splitOn_append_sep sep p _ (h p (by simp)), ih (by simp) (fun x hx => h x (by simp [hx]))]

theorem joinWith_cons_cons (sep c : UInt8) (p : Str) (ps : List Str) :
    joinWith sep ((c :: p) :: ps) = c :: joinWith sep (p :: ps) := by
  cases ps <;> simp [joinWith]

theorem join_splitOn (sep : UInt8) (s : Str) : joinWith sep (splitOn sep s) = s := by
  induction s with
  | nil => simp [splitOn, joinWith]
  | cons c cs ih =>
    by_cases hc : c = sep
    · simp only [splitOn, hc, if_true]
      cases hs : splitOn sep cs with
      | nil => exact absurd hs (splitOn_ne_nil sep cs)
      | cons q r =>
        rw [hs] at ih
        simp [joinWith, ih]
    · obtain ⟨q, qs, h1, h2⟩ := splitOn_cons_ne hc cs
      rw [h2, joinWith_cons_cons, ← h1, ih]

theorem mem_joinWith {sep c : UInt8} {l : List Str} (h : c ∈ joinWith sep l) :
    c = sep ∨ ∃ p ∈ l, c ∈ p := by
  induction l with
  | nil => simp [joinWith] at h
  | cons p r ih =>
    cases r with
    | nil => exact Or.inr ⟨p, by simp, by simpa [joinWith] using h⟩
    | cons q r =>
      simp only [joinWith, List.mem_append, List.mem_cons] at h
      rcases h with h | h | h
      · exact Or.inr ⟨p, by simp, h⟩
      · exact Or.inl h
      · rcases ih h with h | ⟨x, hx, hc⟩
        · exact Or.inl h
        · exact Or.inr ⟨x, by simp [hx], hc⟩

/-! ### bytes -/

theorem isSafe_ne_nat : ∀ n, n < 256 → isSafe (UInt8.ofNat n) = true →
    UInt8.ofNat n ≠ 37 ∧ UInt8.ofNat n ≠ 32 ∧ UInt8.ofNat n ≠ 44 ∧ UInt8.ofNat n ≠ 61 := by
  decide +kernel

theorem isSafe_ne (b : UInt8) (h : isSafe b = true) : b ≠ 37 ∧ b ≠ 32 ∧ b ≠ 44 ∧ b ≠ 61 := by
  have := isSafe_ne_nat b.toNat b.toNat_lt
  rw [UInt8.ofNat_toNat] at this
  exact this h

theorem hexDigit_facts : ∀ d, d < 16 →
    hexVal (hexDigit d) = some d ∧ hexDigit d ≠ 32 ∧ hexDigit d ≠ 44 ∧ hexDigit d ≠ 61 := by
  decide

theorem digit_facts : ∀ i, i < 5 →
    UInt8.ofNat (48 + i) ≠ 44 ∧ UInt8.ofNat (48 + i) ≠ 61 ∧ UInt8.ofNat (48 + i) ≠ 32 ∧
      parseIdx [UInt8.ofNat (48 + i)] = some i := by
  decide

theorem byte_recombine (b : UInt8) : UInt8.ofNat (16 * (b.toNat / 16) + b.toNat % 16) = b := by
  rw [Nat.div_add_mod, UInt8.ofNat_toNat]

theorem byte_hi_lt (b : UInt8) : b.toNat / 16 < 16 := by
  have := b.toNat_lt
  omega

theorem byte_lo_lt (b : UInt8) : b.toNat % 16 < 16 := Nat.mod_lt _ (by decide)

/-! ### `quote` / `unquote` -/

theorem quoteByte_clean (b : UInt8) : ∀ c ∈ quoteByte b, c ≠ 32 ∧ c ≠ 44 ∧ c ≠ 61 := by
  intro c hc
  unfold quoteByte at hc
  split at hc
  next hs =>
    simp only [List.mem_singleton] at hc
    subst hc
    exact (isSafe_ne c hs).2
  next =>
    simp only [List.mem_cons, List.not_mem_nil, or_false] at hc
    rcases hc with rfl | rfl | rfl
    · decide
    · exact (hexDigit_facts _ (byte_hi_lt b)).2
    · exact (hexDigit_facts _ (byte_lo_lt b)).2

theorem quote_clean (s : Str) : ∀ c ∈ quote s, c ≠ 32 ∧ c ≠ 44 ∧ c ≠ 61 := by
  induction s with
  | nil => simp [quote]
  | cons b bs ih =>
    intro c hc
    simp only [quote, List.mem_append] at hc
    rcases hc with hc | hc
    · exact quoteByte_clean b c hc
    · exact ih c hc

theorem unquote_cons_of_ne {c : UInt8} (h : c ≠ 37) (rest : Str) :
    unquote (c :: rest) = c :: unquote rest := by
  match rest with
  | [] => simp [unquote]
  | [a] => simp [unquote]
  | a :: b :: r => simp [unquote, h]

theorem unquote_quote (s : Str) : unquote (quote s) = s := by
  induction s with
  | nil => simp [quote, unquote]
  | cons b bs ih =>
    simp only [quote, quoteByte]
    split
    next hs =>
      simp only [List.singleton_append]
      rw [unquote_cons_of_ne (isSafe_ne b hs).1, ih]
    next =>
      simp only [List.cons_append, List.nil_append]
      rw [unquote]
      simp only [if_true, (hexDigit_facts _ (byte_hi_lt b)).1, (hexDigit_facts _ (byte_lo_lt b)).1,
        byte_recombine, ih]

theorem quote_injective {a b : Str} (h : quote a = quote b) : a = b := by
  rw [← unquote_quote a, ← unquote_quote b, h]

/-! ### `code` / `decode` -/

theorem getD_of_truthy {o : Option Str} (h : truthy o = true) : some (o.getD []) = o := by
  cases o with
  | none => simp [truthy] at h
  | some v => rfl

theorem normF_of_truthy {o : Option Str} (h : truthy o = true) : normF o = o := by
  simp [normF, h]

theorem normF_of_not_truthy {o : Option Str} (h : truthy o = false) : normF o = none := by
  simp [normF, h]

theorem truthy_normF (o : Option Str) : truthy (normF o) = truthy o := by
  cases h : truthy o
  · rw [normF_of_not_truthy h]; rfl
  · rw [normF_of_truthy h, h]

theorem normF_normF (o : Option Str) : normF (normF o) = normF o := by
  unfold normF
  rw [show truthy (if truthy o = true then o else none) = truthy o from truthy_normF o]
  cases h : truthy o <;> simp

theorem norm_norm (n : NameId) : n.norm.norm = n.norm := by
  simp [NameId.norm, normF_normF]

theorem field_normF (i : Nat) (o : Option Str) : field i (normF o) = field i o := by
  unfold field
  rw [truthy_normF]
  cases h : truthy o
  · simp
  · simp [normF_of_truthy h]

theorem code_norm (n : NameId) : code n.norm = code n := by
  simp [code, codeParts, NameId.norm, field_normF]

theorem mem_field {i : Nat} {o : Option Str} {p : Str} (h : p ∈ field i o) :
    p = UInt8.ofNat (48 + i) :: 61 :: quote (o.getD []) := by
  unfold field at h
  split at h
  · simpa using h
  · simp at h

theorem mem_codeParts {n : NameId} {p : Str} (h : p ∈ codeParts n) :
    ∃ i, i < 5 ∧ ∃ v, p = UInt8.ofNat (48 + i) :: 61 :: quote v := by
  simp only [codeParts, List.mem_append] at h
  rcases h with (((h | h) | h) | h) | h
  · exact ⟨0, by decide, _, mem_field h⟩
  · exact ⟨1, by decide, _, mem_field h⟩
  · exact ⟨2, by decide, _, mem_field h⟩
  · exact ⟨3, by decide, _, mem_field h⟩
  · exact ⟨4, by decide, _, mem_field h⟩

theorem codeParts_clean {n : NameId} {p : Str} (h : p ∈ codeParts n) :
    ∀ c ∈ p, c ≠ 32 ∧ c ≠ 44 := by
  obtain ⟨i, hi, v, rfl⟩ := mem_codeParts h
  intro c hc
  simp only [List.mem_cons] at hc
  rcases hc with rfl | rfl | hc
  · exact ⟨(digit_facts i hi).2.2.1, (digit_facts i hi).1⟩
  · decide
  · exact ⟨(quote_clean v c hc).1, (quote_clean v c hc).2.1⟩

theorem code_noSpace (n : NameId) : (32 : UInt8) ∉ code n := by
  intro h
  rcases mem_joinWith h with h | ⟨p, hp, hc⟩
  · exact absurd h (by decide)
  · exact (codeParts_clean hp 32 hc).1 rfl

theorem decodeParts_append (n : NameId) (a b : List Str) :
    decodeParts n (a ++ b) =
      match decodeParts n a with
      | .ok n' => decodeParts n' b
      | .error e => .error e := by
  induction a generalizing n with
  | nil => simp [decodeParts]
  | cons p ps ih =>
    simp only [List.cons_append, decodeParts]
    cases decodePart n p with
    | ok n' => simp [ih]
    | error e => simp

theorem decodePart_part_aux (n : NameId) (d : UInt8) (i : Nat) (h61 : d ≠ 61)
    (hp : parseIdx [d] = some i) (v : Str) :
    decodePart n (d :: 61 :: quote v) = .ok (setField n i v) := by
  have hq : (61 : UInt8) ∉ quote v := fun h => (quote_clean v 61 h).2.2 rfl
  have hs : splitOn 61 (d :: 61 :: quote v) = [[d], quote v] := by
    simp [splitOn, h61, splitOn_of_noSep 61 _ hq]
  unfold decodePart
  rw [hs]
  simp [hp, unquote_quote]

theorem decodePart_part (n : NameId) (i : Nat) (hi : i < 5) (v : Str) :
    decodePart n (UInt8.ofNat (48 + i) :: 61 :: quote v) = .ok (setField n i v) :=
  decodePart_part_aux n _ i (digit_facts i hi).2.1 (digit_facts i hi).2.2.2 v

theorem decodeParts_field (n : NameId) (i : Nat) (hi : i < 5) (o : Option Str) :
    decodeParts n (field i o) = .ok (if truthy o then setField n i (o.getD []) else n) := by
  unfold field
  cases h : truthy o
  · simp [decodeParts]
  · simp only [if_true, decodeParts, decodePart_part n i hi]

theorem decodeParts_split_join (m : NameId) (l : List Str) (h : ∀ p ∈ l, (44 : UInt8) ∉ p) :
    decodeParts m (splitOn 44 (joinWith 44 l)) = decodeParts m l := by
  cases l with
  | nil => simp [joinWith, splitOn, decodeParts, decodePart]
  | cons p r => rw [splitOn_join 44 _ (by simp) h]

theorem decode_code (n : NameId) : decode (code n) = .ok n.norm := by
  unfold decode code
  rw [decodeParts_split_join _ _ (fun p hp hc => (codeParts_clean hp 44 hc).2 rfl)]
  unfold codeParts
  simp only [decodeParts_append, decodeParts_field _ 0 (by decide), decodeParts_field _ 1 (by decide),
    decodeParts_field _ 2 (by decide), decodeParts_field _ 3 (by decide),
    decodeParts_field _ 4 (by decide)]
  cases n with
  | mk nq spq fmt spid text =>
    simp only [NameId.norm]
    cases h0 : truthy nq <;> cases h1 : truthy spq <;> cases h2 : truthy fmt <;>
      cases h3 : truthy spid <;> cases h4 : truthy text <;>
      simp [setField, normF_of_truthy, normF_of_not_truthy, getD_of_truthy, *]

theorem code_injective {a b : NameId} (h : code a = code b) : a.norm = b.norm := by
  have := decode_code a
  rw [h, decode_code b] at this
  exact (Except.ok.inj this).symm

theorem decode_nil : decode [] = .ok {} := by
  simp [decode, splitOn, decodeParts, decodePart]

theorem code_ne_nil (n : NameId) (h : truthy n.text = true) : code n ≠ [] := by
  intro hc
  have := decode_code n
  rw [hc, decode_nil] at this
  have ht : (none : Option Str) = normF n.text := congrArg NameId.text (Except.ok.inj this)
  rw [normF_of_truthy h] at ht
  rw [← ht] at h
  simp [truthy] at h

end Ident
