/-
  C16 — helper lemmas about the issuing side (`Encrypt.response` and its parts) and the recipient's view.
  Property theorems live in Props/C16.lean.
-/
import PysamlModel.Model.Encrypt
import PysamlModel.Spec.C16
import PysamlModel.Proofs.C16Sp

namespace Encrypt

/-! ### the certificate loop -/

theorem any_enc (md : List MdKey) :
    md.any (fun m => m.use != .signing && m.usable) = (encCerts md).any (·.usable) := by
  simp [encCerts, List.any_filter]

/-- a usable designated certificate is found by the loop -/
theorem chooseCert_available {arg : CertArg} {md : List MdKey} (h : certAvailable arg md = true) :
    ∃ k, chooseCert arg md = .key k := by
  unfold certAvailable at h
  unfold chooseCert
  cases arg with
  | cert k u => simp only at h; subst h; exact ⟨k, rfl⟩
  | none | empty =>
    simp only at h
    rw [any_enc] at h
    cases he : encCerts md with
    | nil => rw [he] at h; simp at h
    | cons c cs =>
      rw [he] at h
      simp only
      obtain ⟨m, hm, hu⟩ := List.any_eq_true.mp h
      cases hf : (c :: cs).find? (·.usable) with
      | some m' => exact ⟨m'.key, rfl⟩
      | none =>
        have := List.find?_eq_none.mp hf m hm
        simp [hu] at this

/-- the loop only ever picks one of the recipient's designated certificates -/
theorem chooseCert_key_mem {arg : CertArg} {md : List MdKey} {k : Key} (h : chooseCert arg md = .key k) :
    k ∈ candidates arg md := by
  unfold chooseCert at h
  unfold candidates
  cases arg with
  | cert k' u =>
    cases u <;> simp at h
    simp [h]
  | none | empty =>
    simp only at h ⊢
    change k ∈ (encCerts md).map (·.key)
    cases he : encCerts md with
    | nil => rw [he] at h; cases h
    | cons c cs =>
      rw [he] at h
      simp only at h
      cases hf : (c :: cs).find? (·.usable) with
      | none => rw [hf] at h; cases h
      | some m =>
        rw [hf] at h
        cases h
        exact List.mem_map.mpr ⟨m, List.mem_of_find?_eq_some hf, rfl⟩

/-- a usable designated certificate is never downgraded away -/
theorem available_kept {arg : CertArg} {md : List MdKey} (h : certAvailable arg md = true) :
    (hasEncryptCert md || !arg.isNone) = true := by
  unfold certAvailable at h
  cases arg with
  | cert k u => simp [CertArg.isNone]
  | none | empty =>
    simp only at h
    rw [any_enc] at h
    obtain ⟨m, hm, _⟩ := List.any_eq_true.mp h
    have : hasEncryptCert md = true := by
      unfold hasEncryptCert
      cases he : encCerts md with
      | nil => rw [he] at hm; cases hm
      | cons _ _ => rfl
    simp [this]

/-! ### inversion of the issuing side -/

theorem encryptStep_inv {c : Choice} {ko : Option Key} (h : encryptStep c = .ok ko) :
    (c = .nothing ∧ ko = none) ∨ (∃ k, c = .key k ∧ ko = some k) := by
  unfold encryptStep at h
  cases c with
  | nothing => cases h; exact Or.inl ⟨rfl, rfl⟩
  | raised => cases h
  | key k => cases h; exact Or.inr ⟨k, rfl, rfl⟩

theorem partB_inv {a : RArgs} {opsB : List Op} {advB : Option AdvBox} (h : partB a = .ok (opsB, advB)) :
    (a.advice = none ∧ opsB = [] ∧ advB = none) ∨
    (∃ adv, a.advice = some adv ∧ adviceKept a = false ∧ opsB = [] ∧ advB = some (.clear adv)) ∨
    (∃ adv ko, a.advice = some adv ∧ adviceKept a = true ∧
        encryptStep (chooseCert a.certAdvice a.md) = .ok ko ∧
        opsB = optOp (signsAdvice a) .signAdvice ++ keyOp .encAdvice ko ∧
        advB = some (sealAdv ko (advAfterB a adv))) := by
  unfold partB at h
  split at h
  next ha => cases h; exact Or.inl ⟨ha, rfl, rfl⟩
  next adv ha =>
    right
    split at h
    next hk =>
      cases h
      exact Or.inl ⟨adv, ha, by simpa using hk, rfl, rfl⟩
    next hk =>
      right
      split at h
      · cases h
      next ko hs =>
        split at h
        · cases h
        · cases h
          exact ⟨adv, ko, ha, by simpa using hk, hs, rfl, rfl⟩

def wireOf (sign : Bool) (body : Body) : Wire := { sig := if sign then some body else none, body := body }

theorem response_inv {a : RArgs} {iss : Issued} (h : response a = .ok iss) :
    (earlyReturn a = true ∧ iss.ops = [.signAssertion] ∧
      iss.wire = { sig := none, body := .clear { sig := some (a.advice.map .clear), advice := a.advice.map .clear } }) ∨
    (earlyReturn a = false ∧ assertionKept a = false ∧ (adviceKept a && a.advice.isSome) = false ∧
      iss.ops = optOp (a.sign && a.toSign) .signAssertion ++ optOp a.sign .signResponse ∧
      iss.wire = wireOf a.sign (.clear { sig := (if a.sign && a.toSign then some (a.advice.map .clear) else none), advice := a.advice.map .clear })) ∨
    (earlyReturn a = false ∧ assertionKept a = true ∧ ∃ opsB advB ko, partB a = .ok (opsB, advB) ∧
      encryptStep (chooseCert a.certAssertion a.md) = .ok ko ∧
      iss.ops = opsB ++ optOp a.signAssertion .signAssertion ++ keyOp .encAssertion ko ++ optOp a.sign .signResponse ∧
      iss.wire = wireOf a.sign (sealBody ko { sig := if a.signAssertion then some advB else none, advice := advB })) ∨
    (earlyReturn a = false ∧ assertionKept a = false ∧ adviceKept a = true ∧ a.advice.isSome = true ∧
      ∃ opsB advB, partB a = .ok (opsB, advB) ∧
      iss.ops = opsB ++ optOp a.toSign .signAssertion ++ optOp a.sign .signResponse ∧
      iss.wire = wireOf a.sign (.clear { sig := if a.toSign then some advB else none, advice := advB })) := by
  unfold response at h
  simp only at h
  split at h
  next he => cases h; exact Or.inl ⟨he, rfl, rfl⟩
  next he =>
    right
    have he' : earlyReturn a = false := by simpa using he
    split at h
    next hc =>
      right
      split at h
      · cases h
      next opsB advB hB =>
        split at h
        next hk =>
          left
          unfold partC at h
          simp only at h
          split at h
          · cases h
          next ko hs =>
            cases h
            exact ⟨he', hk, opsB, advB, ko, hB, hs, rfl, rfl⟩
        next hk =>
          right
          cases h
          have hk' : assertionKept a = false := by simpa using hk
          rw [hk'] at hc
          simp only [Bool.false_or, Bool.and_eq_true] at hc
          exact ⟨he', hk', hc.1, hc.2, opsB, advB, hB, rfl, rfl⟩
    next hc =>
      left
      cases h
      have hc' : (assertionKept a || (adviceKept a && a.advice.isSome)) = false := by simpa using hc
      simp only [Bool.or_eq_false_iff] at hc'
      exact ⟨he', hc'.1, hc'.2, rfl, rfl⟩

/-! ### facts about the arguments `_authn_response` hands to `_response`, shapes of what is issued, the recipient's view -/

theorem effA_facts {c : Call} (h : effA c = true) :
    c.rargs.encryptAssertion = true ∧ earlyReturn c.rargs = false ∧ assertionKept c.rargs = true ∧
    ∃ k, chooseCert c.rargs.certAssertion c.rargs.md = .key k := by
  unfold effA requestedA at h
  simp only [Bool.and_eq_true] at h
  obtain ⟨hr, ha⟩ := h
  have h1 : c.rargs.encryptAssertion = true := hr
  refine ⟨h1, ?_, ?_, chooseCert_available ha⟩
  · simp [earlyReturn, h1]
  · unfold assertionKept
    rw [h1]
    have := available_kept ha
    simpa [Call.rargs] using this

theorem outer_sealBody (ko : Option Key) (o : Outer) : (sealBody ko o).outer = o := by
  cases ko <;> rfl

theorem effAdv_facts {c : Call} (h : effAdv c = true) :
    (∃ adv, c.rargs.advice = some adv) ∧ c.rargs.encryptedAdvice = true ∧ adviceKept c.rargs = true ∧
    ∃ k, chooseCert c.rargs.certAdvice c.rargs.md = .key k := by
  unfold effAdv requestedAdv at h
  simp only [Bool.and_eq_true] at h
  obtain ⟨⟨hr, hadv⟩, ha⟩ := h
  have h1 : c.rargs.encryptedAdvice = true := hr
  refine ⟨?_, h1, ?_, chooseCert_available ha⟩
  · cases hc : c.advice with
    | none => rw [hc] at hadv; cases hadv
    | some adv => exact ⟨adv, hc⟩
  · unfold adviceKept
    rw [h1]
    have := available_kept ha
    simpa [Call.rargs] using this

/-- the early return is taken exactly when the assertion is to be signed, not encrypted, the Response is
    not signed, and no advice is left to encrypt -/
theorem earlyReturn_iff (c : Call) :
    earlyReturn c.rargs = (c.opts.signAssertion && !c.opts.encryptAssertion && !c.opts.signResponse &&
      !(adviceKept c.rargs && c.rargs.advice.isSome)) := by
  simp only [earlyReturn]
  have h1 : c.rargs.toSign = (!c.opts.encryptAssertion && c.opts.signAssertion) := rfl
  have h2 : c.rargs.sign = c.opts.signResponse := rfl
  have h3 : c.rargs.encryptAssertion = c.opts.encryptAssertion := rfl
  rw [h1, h2, h3]
  cases c.opts.signAssertion <;> cases c.opts.encryptAssertion <;> cases c.opts.signResponse <;> rfl

/-- advice encryption in effect: `_response` does not return early -/
theorem effAdv_not_early {c : Call} (heff : effAdv c = true) : earlyReturn c.rargs = false := by
  obtain ⟨⟨adv, hadv⟩, _, hkept, _⟩ := effAdv_facts heff
  simp [earlyReturn, hkept, hadv]

/-- An advice assertion whose encryption is in effect leaves sealed
    for one of the recipient's designated certificates — whatever happens to the assertion around it. -/
theorem advice_sealed {c : Call} {iss : Issued} (heff : effAdv c = true)
    (h : createAuthnResponse c = .ok iss) :
    ∃ k adv, iss.wire.body.outer.advice = some (.sealed k adv true) ∧ chooseCert c.certAdvice c.md = .key k := by
  have he := effAdv_not_early heff
  obtain ⟨⟨adv, hadv⟩, _, hkept, k, hc⟩ := effAdv_facts heff
  have hB : ∀ {opsB advB}, partB c.rargs = .ok (opsB, advB) → advB = some (.sealed k (advAfterB c.rargs adv) true) := by
    intro opsB advB hp
    rcases partB_inv hp with ⟨hn, _⟩ | ⟨adv', _, hk', _⟩ | ⟨adv', ko, ha', _, hs, _, hb⟩
    · rw [hadv] at hn; cases hn
    · rw [hkept] at hk'; cases hk'
    · rw [hadv] at ha'; cases ha'
      rcases encryptStep_inv hs with ⟨hn, _⟩ | ⟨k', hk', hko⟩
      · rw [hc] at hn; cases hn
      · rw [hc] at hk'; cases hk'
        subst hko
        exact hb
  refine ⟨k, advAfterB c.rargs adv, ?_, hc⟩
  rcases response_inv h with ⟨he', _⟩ | ⟨_, _, hk', _⟩ | ⟨_, _, opsB, advB, ko, hp, _, _, hw⟩ | ⟨_, _, _, _, opsB, advB, hp, _, hw⟩
  · rw [he] at he'; cases he'
  · rw [hkept, hadv] at hk'; cases hk'
  · rw [hw]
    show (sealBody ko _).outer.advice = _
    rw [outer_sealBody]
    exact hB hp
  · rw [hw]
    exact hB hp

theorem wellPosed_facts {c : Call} (h : wellPosed c = true) :
    (requestedA c = true ∨ requestedAdv c = true) ∧ (requestedA c = true → effA c = true) ∧
    (requestedAdv c = true → effAdv c = true) := by
  unfold wellPosed at h
  simp only [Bool.and_eq_true, Bool.or_eq_true, Bool.not_eq_true'] at h
  obtain ⟨⟨h1, h2⟩, h3⟩ := h
  refine ⟨h1, ?_, ?_⟩
  · intro hr; rcases h2 with h2 | h2
    · rw [hr] at h2; cases h2
    · exact h2
  · intro hr; rcases h3 with h3 | h3
    · rw [hr] at h3; cases h3
    · exact h3

/-- advice encryption kept by `_response` on an existing advice assertion was requested -/
theorem requestedAdv_of_kept {c : Call} (hk : adviceKept c.rargs = true) (ha : c.rargs.advice.isSome = true) :
    requestedAdv c = true := by
  unfold adviceKept at hk
  simp only [Bool.and_eq_true] at hk
  unfold requestedAdv
  have h1 : (c.opts.encryptedAdvice || c.pefim) = true := hk.1
  have h2 : c.advice.isSome = true := ha
  simp [h1, h2]

theorem requestedA_of_kept {c : Call} (hk : assertionKept c.rargs = true) : requestedA c = true := by
  unfold assertionKept at hk
  simp only [Bool.and_eq_true] at hk
  exact hk.1

theorem map_clear_not_sealed {x : Option Adv} {k : Key} {adv : Adv} {b : Bool}
    (h : x.map AdvBox.clear = some (.sealed k adv b)) : False := by
  cases x <;> simp at h

theorem partB_sealed {a : RArgs} {opsB : List Op} {advB : Option AdvBox} {k : Key} {adv : Adv} {b : Bool}
    (hp : partB a = .ok (opsB, advB)) (hs : advB = some (.sealed k adv b)) :
    b = true ∧ chooseCert a.certAdvice a.md = .key k := by
  rcases partB_inv hp with ⟨_, _, hn⟩ | ⟨adv', _, _, _, hb⟩ | ⟨adv', ko, _, _, hst, _, hb⟩
  · rw [hn] at hs; cases hs
  · rw [hb] at hs; cases hs
  · rw [hb] at hs
    rcases encryptStep_inv hst with ⟨_, hko⟩ | ⟨k', hk', hko⟩
    · subst hko; simp [sealAdv] at hs
    · subst hko
      simp only [sealAdv, Option.some.injEq, AdvBox.sealed.injEq] at hs
      obtain ⟨h1, _, h3⟩ := hs
      subst h1
      exact ⟨h3.symm, hk'⟩

/-- the advice as it can leave a well-posed call: absent, clear and schema-valid (its encryption was not
    requested), or sealed for the recipient -/
def AdvOk (c : Call) (advB : Option AdvBox) : Prop :=
  (c.advice = none ∧ advB = none) ∨
  (∃ adv, requestedAdv c = false ∧ advB = some (.clear adv) ∧ adv.schemaValid = true) ∨
  (∃ k adv, advB = some (.sealed k adv true) ∧ k ∈ candidates c.certAdvice c.md)

theorem AdvOk.schemaOk {c : Call} {advB : Option AdvBox} {sig : Option (Option AdvBox)} (h : AdvOk c advB) :
    Outer.schemaOk { sig := sig, advice := advB } = true := by
  rcases h with ⟨_, h⟩ | ⟨adv, _, h, hv⟩ | ⟨k, adv, h, _⟩
  · subst h; rfl
  · subst h; simpa [Outer.schemaOk, AdvBox.schemaOk] using hv
  · subst h; rfl

/-- What a well-posed call issues: the assertion sealed for the recipient
    (advice inside absent, clear-by-request or sealed), or — when only advice encryption was requested —
    the assertion in clear around a sealed advice; signatures as requested. -/
theorem wellPosed_shape {c : Call} {iss : Issued} (hw : wellPosed c = true)
    (h : createAuthnResponse c = .ok iss) :
    ∃ advB, AdvOk c advB ∧
      ((∃ k, k ∈ candidates c.certAssertion c.md ∧ requestedA c = true ∧
          iss.wire = wireOf c.opts.signResponse
            (.sealed k { sig := if c.opts.signAssertion then some advB else none, advice := advB } true)) ∨
       (requestedA c = false ∧ (∃ k adv, advB = some (.sealed k adv true)) ∧
          iss.wire = wireOf c.opts.signResponse
            (.clear { sig := if c.opts.signAssertion then some advB else none, advice := advB }))) := by
  obtain ⟨hsome, hA, hAdv⟩ := wellPosed_facts hw
  -- the early return is not taken
  have he : earlyReturn c.rargs = false := by
    rcases hsome with h1 | h1
    · exact (effA_facts (hA h1)).2.1
    · exact effAdv_not_early (hAdv h1)
  -- the advice as part B leaves it
  have hB : ∀ {opsB advB}, partB c.rargs = .ok (opsB, advB) → AdvOk c advB := by
    intro opsB advB hp
    cases hr : requestedAdv c with
    | true =>
      have heff := hAdv hr
      obtain ⟨⟨adv, hadv⟩, _, hkept, k, hc⟩ := effAdv_facts heff
      right; right
      rcases partB_inv hp with ⟨hn, _⟩ | ⟨adv', _, hk', _⟩ | ⟨adv', ko, _, _, hs, _, hb⟩
      · rw [hadv] at hn; cases hn
      · rw [hkept] at hk'; cases hk'
      · rcases encryptStep_inv hs with ⟨hn, _⟩ | ⟨k', hk', hko⟩
        · rw [hc] at hn; cases hn
        · subst hko
          exact ⟨k', _, hb, chooseCert_key_mem hk'⟩
    | false =>
      rcases partB_inv hp with ⟨hn, _, hb⟩ | ⟨adv', ha', _, _, hb⟩ | ⟨adv', ko, ha', hk', _⟩
      · exact Or.inl ⟨hn, hb⟩
      · right; left
        refine ⟨adv', hr, hb, ?_⟩
        -- not PEFIM (PEFIM requests advice encryption), so it is the schema-valid assertion handed in
        have ha'' : c.advice = some adv' := ha'
        unfold requestedAdv at hr
        rw [ha''] at hr
        simp only [Option.isSome_some, Bool.and_true, Bool.or_eq_false_iff] at hr
        unfold Call.advice at ha''
        rw [hr.2] at ha''
        simp only [Bool.false_eq_true, if_false] at ha''
        split at ha''
        · cases ha''; rfl
        · cases ha''
      · exfalso
        have := requestedAdv_of_kept hk' (by rw [ha']; rfl)
        rw [hr] at this; cases this
  have hsr : c.rargs.sign = c.opts.signResponse := rfl
  have hsa : c.rargs.signAssertion = c.opts.signAssertion := rfl
  rcases response_inv h with ⟨he', _⟩ | ⟨_, hkA, hkAdv, _, _⟩ | ⟨_, hkA, opsB, advB, ko, hp, hst, _, hwr⟩ | ⟨_, hkA, hkAdv, hsomeadv, opsB, advB, hp, _, hwr⟩
  · rw [he] at he'; cases he'
  · -- nothing kept: then nothing was requested
    exfalso
    rcases hsome with h1 | h1
    · obtain ⟨_, _, hk, _⟩ := effA_facts (hA h1)
      rw [hk] at hkA; cases hkA
    · obtain ⟨⟨adv, hadv⟩, _, hk, _⟩ := effAdv_facts (hAdv h1)
      rw [hk, hadv] at hkAdv; cases hkAdv
  · have hreq := requestedA_of_kept hkA
    obtain ⟨_, _, _, k, hc⟩ := effA_facts (hA hreq)
    refine ⟨advB, hB hp, Or.inl ⟨k, chooseCert_key_mem hc, hreq, ?_⟩⟩
    rcases encryptStep_inv hst with ⟨hn, _⟩ | ⟨k', hk', hko⟩
    · rw [hc] at hn; cases hn
    · rw [hc] at hk'; cases hk'
      subst hko
      rw [hwr, hsr, hsa]
      rfl
  · have hreq : requestedA c = false := by
      cases hr : requestedA c with
      | false => rfl
      | true =>
        obtain ⟨_, _, hk, _⟩ := effA_facts (hA hr)
        rw [hk] at hkA; cases hkA
    have hradv := requestedAdv_of_kept hkAdv hsomeadv
    have hts : c.rargs.toSign = c.opts.signAssertion := by
      have : c.opts.encryptAssertion = false := hreq
      simp [Call.rargs, this]
    refine ⟨advB, hB hp, Or.inr ⟨hreq, ?_, ?_⟩⟩
    · rcases hB hp with ⟨hn, _⟩ | ⟨adv, hr, _⟩ | ⟨k, adv, hb, _⟩
      · rw [show c.rargs.advice = c.advice from rfl, hn] at hsomeadv; cases hsomeadv
      · rw [hradv] at hr; cases hr
      · exact ⟨k, adv, hb⟩
    · rw [hwr, hsr, hts]

theorem toSp_eq (r : Sp.Response) (a : Sp.Assertion) (s : Seen) :
    toSp r a s = Sp.withA { r with sig := s.respSig }
      { a with sig := s.asrtSig, encrypted := s.encrypted, decryptable := s.decryptable } := rfl

theorem respSig_wireOf (s : Bool) (body : Body) :
    respSig (wireOf s body) = if s then (if body.schemaOk then .valid else .corrupted) else .absent := by
  cases s <;> simp [respSig, wireOf]

theorem sent_body_sealed {i : Input} {w : Wire} {k : Key} {o : Outer} {b : Bool} (h : w.body = .sealed k o b) :
    (i.sent w).body = .sealed k o (b && !i.tamper) := by
  unfold Input.sent
  cases i.tamper <;> simp [Wire.damage, Body.damage, h]

theorem sent_advice_sealed {i : Input} {w : Wire} {k : Key} {adv : Adv} {b : Bool}
    (h : w.body.outer.advice = some (.sealed k adv b)) :
    ∃ b', (i.sent w).body.outer.advice = some (.sealed k adv b') ∧
      ((∀ k' o' b'', w.body ≠ .sealed k' o' b'') → i.tamper = true → b' = false) ∧ (i.tamper = false → b' = b) := by
  unfold Input.sent
  cases ht : i.tamper with
  | false => exact ⟨b, (by simpa using h), (fun _ hf => (by cases hf)), (fun _ => rfl)⟩
  | true =>
    simp only [if_true]
    cases hb : w.body with
    | sealed k' o' b'' =>
      rw [hb] at h
      refine ⟨b, (by simpa [Wire.damage, Body.damage, hb, Body.outer] using h), (fun hne => (hne k' o' b'' rfl).elim), (fun hf => (by cases hf))⟩
    | clear o' =>
      rw [hb] at h
      simp only [Body.outer] at h
      exact ⟨false, (by simp [Wire.damage, Body.damage, hb, Body.outer, Outer.damage, h, AdvBox.damage]), (fun _ _ => rfl), (fun hf => (by cases hf))⟩
    | wrapped o' =>
      rw [hb] at h
      simp only [Body.outer] at h
      exact ⟨false, (by simp [Wire.damage, Body.damage, hb, Body.outer, Outer.damage, h, AdvBox.damage]), (fun _ _ => rfl), (fun hf => (by cases hf))⟩

theorem receive_sealed {rc : Recipient} {w : Wire} {k : Key} {o : Outer} {b : Bool} (h : w.body = .sealed k o b) :
    (receive rc w).encrypted = true ∧ (receive rc w).decryptable = (b && rc.holds k) := by
  unfold receive
  simp [h]

theorem receive_advice_sealed {rc : Recipient} {w : Wire} {k : Key} {adv : Adv} {b : Bool}
    (h : w.body.outer.advice = some (.sealed k adv b)) :
    (receive rc w).adviceVisible = (b && rc.holds k) := by
  unfold receive
  simp [h]

/-- no identity from a Response whose assertion stays shut -/
theorem outcome_shut {cfg : Sp.Cfg} {env : Sp.Env} {r : Sp.Response} {a : Sp.Assertion} {s : Seen}
    (he : s.encrypted = true) (hd : s.decryptable = false) :
    (Sp.process cfg env (toSp r a s)).isIdentity = false := by
  rw [toSp_eq]
  exact Sp.process_shut he hd

theorem outerSig_ok {c : Call} {advB : Option AdvBox} (sa : Bool) (h : AdvOk c advB) :
    outerSig { sig := if sa then some advB else none, advice := advB } = if sa then .valid else .absent := by
  have hs : ∀ sg, Outer.schemaOk { sig := sg, advice := advB } = true := fun sg => h.schemaOk
  cases sa <;> simp [outerSig, hs]

/-- what the recipient sees of a well-posed, undamaged Response whose keys it holds -/
theorem receive_wellPosed {i : Input} {iss : Issued} (hw : wellPosed i.call = true)
    (h : createAuthnResponse i.call = .ok iss) (hnt : i.tamper = false)
    (hkA : ∀ k o b, iss.wire.body = .sealed k o b → i.rc.holds k = true)
    (hkAdv : ∀ k adv b, iss.wire.body.outer.advice = some (.sealed k adv b) → i.rc.holds k = true) :
    let s := receive i.rc (i.sent iss.wire)
    s.respSig = (if i.call.opts.signResponse then .valid else .absent) ∧
    s.asrtSig = (if i.call.opts.signAssertion then .valid else .absent) ∧
    s.decryptable = true ∧ (i.hasAdvice = true → s.adviceVisible = true) := by
  have hsent : i.sent iss.wire = iss.wire := by simp [Input.sent, hnt]
  rw [hsent]
  obtain ⟨advB, hok, hshape⟩ := wellPosed_shape hw h
  rcases hshape with ⟨k, _, _, hwire⟩ | ⟨_, _, hwire⟩
  · have hk := hkA k _ _ (by rw [hwire]; rfl)
    have hadvk : ∀ k' adv b, advB = some (.sealed k' adv b) → i.rc.holds k' = true := by
      intro k' adv b hb
      exact hkAdv k' adv b (by rw [hwire]; exact hb)
    rw [hwire]
    refine ⟨?_, ?_, ?_, ?_⟩
    · show respSig _ = _
      rw [respSig_wireOf]; simp [Body.schemaOk]
    · show outerSig _ = _
      exact outerSig_ok _ hok
    · simp [receive, wireOf, hk]
    · intro hadv
      rcases hok with ⟨hn, _⟩ | ⟨adv, _, hb, _⟩ | ⟨k', adv, hb, _⟩
      · unfold Input.hasAdvice at hadv; rw [hn] at hadv; cases hadv
      · subst hb; simp [receive, wireOf, Body.outer]
      · have := hadvk k' adv true hb
        subst hb; simp [receive, wireOf, Body.outer, this]
  · have hadvk : ∀ k' adv b, advB = some (.sealed k' adv b) → i.rc.holds k' = true := by
      intro k' adv b hb
      exact hkAdv k' adv b (by rw [hwire]; exact hb)
    rw [hwire]
    refine ⟨?_, ?_, ?_, ?_⟩
    · show respSig _ = _
      rw [respSig_wireOf]
      have := hok.schemaOk (sig := if i.call.opts.signAssertion then some advB else none)
      simp [Body.schemaOk, this]
    · show outerSig _ = _
      exact outerSig_ok _ hok
    · simp [receive, wireOf]
    · intro hadv
      rcases hok with ⟨hn, _⟩ | ⟨adv, _, hb, _⟩ | ⟨k', adv, hb, _⟩
      · unfold Input.hasAdvice at hadv; rw [hn] at hadv; cases hadv
      · subst hb; simp [receive, wireOf, Body.outer]
      · have := hadvk k' adv true hb
        subst hb; simp [receive, wireOf, Body.outer, this]

/-- the envelope / assertion the recipient's model is run on -/
def envOf (i : Input) : Sp.Response :=
  { i.envelope with sig := if i.call.opts.signResponse then .valid else .absent }
def asrtOf (i : Input) : Sp.Assertion :=
  { i.content with sig := if i.call.opts.signAssertion then .valid else .absent }

theorem plainVariant_eq (i : Input) : plainVariant i = Sp.withA (envOf i) (Sp.asPlain (asrtOf i)) := rfl

theorem shape_hasCiphertext {c : Call} {iss : Issued} (hw : wellPosed c = true)
    (h : createAuthnResponse c = .ok iss) : iss.wire.hasCiphertext = true := by
  obtain ⟨advB, _, hshape⟩ := wellPosed_shape hw h
  rcases hshape with ⟨k, _, _, hwire⟩ | ⟨_, ⟨k, adv, hb⟩, hwire⟩
  · rw [hwire]; rfl
  · rw [hwire]; subst hb; rfl

end Encrypt
