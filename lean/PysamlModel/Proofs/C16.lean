/-
  C16 — helper lemmas about the issuing side (`Encrypt.response` and its parts) and the recipient's view.
  Property theorems live in Props/C16.lean.
-/
import PysamlModel.Model.Encrypt
import PysamlModel.Spec.C16
import PysamlModel.Proofs.C16Sp

namespace Encrypt

/-! ### the certificate loop -/

theorem any_enc (md : List MdKey) :
    md.any (fun m => m.use != .signing && m.usable) = (encCerts md).any (·.usable) := by
  simp [encCerts, List.any_filter]

/-- a usable designated certificate is found by the loop -/
theorem chooseCert_available {arg : CertArg} {md : List MdKey} (h : certAvailable arg md = true) :
    ∃ k, chooseCert arg md = .key k := by
  unfold certAvailable at h
  unfold chooseCert
  cases arg with
  | cert k u => simp only at h; subst h; exact ⟨k, rfl⟩
  | none | empty =>
    simp only at h
    rw [any_enc] at h
    cases he : encCerts md with
    | nil => rw [he] at h; simp at h
    | cons c cs =>
      rw [he] at h
      simp only
      obtain ⟨m, hm, hu⟩ := List.any_eq_true.mp h
      cases hf : (c :: cs).find? (·.usable) with
      | some m' => exact ⟨m'.key, rfl⟩
      | none =>
        have := List.find?_eq_none.mp hf m hm
        simp [hu] at this

/-- the loop only ever picks one of the recipient's designated certificates -/
theorem chooseCert_key_mem {arg : CertArg} {md : List MdKey} {k : Key} (h : chooseCert arg md = .key k) :
    k ∈ candidates arg md := by
  unfold chooseCert at h
  unfold candidates
  cases arg with
  | cert k' u =>
    cases u <;> simp at h
    simp [h]
  | none | empty =>
    simp only at h ⊢
    change k ∈ (encCerts md).map (·.key)
    cases he : encCerts md with
    | nil => rw [he] at h; cases h
    | cons c cs =>
      rw [he] at h
      simp only at h
      cases hf : (c :: cs).find? (·.usable) with
      | none => rw [hf] at h; cases h
      | some m =>
        rw [hf] at h
        cases h
        exact List.mem_map.mpr ⟨m, List.mem_of_find?_eq_some hf, rfl⟩

/-- a usable designated certificate is never downgraded away -/
theorem available_kept {arg : CertArg} {md : List MdKey} (h : certAvailable arg md = true) :
    (hasEncryptCert md || !arg.isNone) = true := by
  unfold certAvailable at h
  cases arg with
  | cert k u => simp [CertArg.isNone]
  | none | empty =>
    simp only at h
    rw [any_enc] at h
    obtain ⟨m, hm, _⟩ := List.any_eq_true.mp h
    have : hasEncryptCert md = true := by
      unfold hasEncryptCert
      cases he : encCerts md with
      | nil => rw [he] at hm; cases hm
      | cons _ _ => rfl
    simp [this]

/-! ### inversion of the issuing side -/

theorem encryptStep_inv {f : Form} {c : Choice} {ko : Option Key} (h : encryptStep f c = .ok ko) :
    (c = .nothing ∧ ko = none) ∨ (∃ k, c = .key k ∧ ko = some k ∧ f = .str) := by
  unfold encryptStep at h
  cases c with
  | nothing => cases h; exact Or.inl ⟨rfl, rfl⟩
  | raised => cases h
  | key k =>
    right
    cases f with
    | obj => simp at h
    | str => simp at h; exact ⟨k, rfl, h.symm, rfl⟩

theorem partB_inv {a : RArgs} {opsB : List Op} {advB : Option AdvBox} (h : partB a = .ok (opsB, advB)) :
    (a.advice = none ∧ opsB = [] ∧ advB = none) ∨
    (∃ adv, a.advice = some adv ∧ adviceKept a = false ∧ opsB = [] ∧ advB = some (.clear adv)) ∨
    (∃ adv ko, a.advice = some adv ∧ adviceKept a = true ∧
        encryptStep (formB a) (chooseCert a.certAdvice a.md) = .ok ko ∧
        opsB = optOp (signsAdvice a) .signAdvice ++ keyOp .encAdvice ko ∧
        advB = some (sealAdv ko (advAfterB a adv))) := by
  unfold partB at h
  split at h
  next ha => cases h; exact Or.inl ⟨ha, rfl, rfl⟩
  next adv ha =>
    right
    split at h
    next hk =>
      cases h
      exact Or.inl ⟨adv, ha, by simpa using hk, rfl, rfl⟩
    next hk =>
      right
      split at h
      · cases h
      next ko hs =>
        split at h
        · cases h
        · cases h
          exact ⟨adv, ko, ha, by simpa using hk, hs, rfl, rfl⟩

def wireOf (sign : Bool) (body : Body) : Wire := { sig := if sign then some body else none, body := body }

theorem response_inv {a : RArgs} {iss : Issued} (h : response a = .ok iss) :
    (earlyReturn a = true ∧ iss.ops = [.signAssertion] ∧
      iss.wire = { sig := none, body := .clear { sig := some (a.advice.map .clear), advice := a.advice.map .clear } }) ∨
    (earlyReturn a = false ∧ assertionKept a = false ∧ (adviceKept a && a.advice.isSome) = false ∧
      iss.ops = optOp (a.sign && a.toSign) .signAssertion ++ optOp a.sign .signResponse ∧
      iss.wire = wireOf a.sign (.clear { sig := (if a.sign && a.toSign then some (a.advice.map .clear) else none), advice := a.advice.map .clear })) ∨
    (earlyReturn a = false ∧ assertionKept a = true ∧ ∃ opsB advB ko, partB a = .ok (opsB, advB) ∧
      encryptStep (formC a) (chooseCert a.certAssertion a.md) = .ok ko ∧
      iss.ops = opsB ++ optOp a.signAssertion .signAssertion ++ keyOp .encAssertion ko ++ optOp a.sign .signResponse ∧
      iss.wire = wireOf a.sign (sealBody ko { sig := if a.signAssertion then some advB else none, advice := advB })) ∨
    (earlyReturn a = false ∧ assertionKept a = false ∧ adviceKept a = true ∧ a.advice.isSome = true ∧
      ∃ opsB advB, partB a = .ok (opsB, advB) ∧
      iss.ops = opsB ++ optOp a.toSign .signAssertion ++ optOp a.sign .signResponse ∧
      iss.wire = wireOf a.sign (.clear { sig := if a.toSign then some advB else none, advice := advB })) := by
  unfold response at h
  simp only at h
  split at h
  next he => cases h; exact Or.inl ⟨he, rfl, rfl⟩
  next he =>
    right
    have he' : earlyReturn a = false := by simpa using he
    split at h
    next hc =>
      right
      split at h
      · cases h
      next opsB advB hB =>
        split at h
        next hk =>
          left
          unfold partC at h
          simp only at h
          split at h
          · cases h
          next ko hs =>
            cases h
            exact ⟨he', hk, opsB, advB, ko, hB, hs, rfl, rfl⟩
        next hk =>
          right
          cases h
          have hk' : assertionKept a = false := by simpa using hk
          rw [hk'] at hc
          simp only [Bool.false_or, Bool.and_eq_true] at hc
          exact ⟨he', hk', hc.1, hc.2, opsB, advB, hB, rfl, rfl⟩
    next hc =>
      left
      cases h
      have hc' : (assertionKept a || (adviceKept a && a.advice.isSome)) = false := by simpa using hc
      simp only [Bool.or_eq_false_iff] at hc'
      exact ⟨he', hc'.1, hc'.2, rfl, rfl⟩

end Encrypt
