/-
  Lemmas for the completeness half of C05: strictly inside all skew-extended windows (none of them
  inverted), the SP model takes the same decisions on a message as on its time-sanitised copy.
-/
import PysamlModel.Proofs.Sp

namespace Sp

def sanData (env : Env) (d : ScData) : ScData :=
  { d with nb := d.nb.map (fun _ => env.now - 10), nooa := d.nooa.map (fun _ => env.now + 10) }
def sanSc (env : Env) (sc : SubjConf) : SubjConf := { sc with data := sc.data.map (sanData env) }
def sanCond (env : Env) (c : Conditions) : Conditions :=
  { c with nb := c.nb.map (fun _ => env.now - 10), nooa := c.nooa.map (fun _ => env.now + 10) }
def sanAuthn (env : Env) (s : AuthnStmt) : AuthnStmt := { s with sessionNooa := s.sessionNooa.map (fun _ => env.now + 10) }
def sanA (env : Env) (a : Assertion) : Assertion :=
  { a with
    conditions := a.conditions.map (sanCond env)
    authn := a.authn.map (sanAuthn env)
    subject := a.subject.map (fun s => { s with confs := s.confs.map (sanSc env) }) }

theorem sanitise_assertions (env : Env) (r : Response) :
    (sanitiseTimes env r).assertions = r.assertions.map (sanA env) := rfl

/-- the parts of the state that steer control flow -/
def Rel (st st' : St) : Prop :=
  st.cameFrom = st'.cameFrom ∧ st.nameId = st'.nameId ∧ st.hasAssertion = st'.hasAssertion

theorem Rel.refl (st : St) : Rel st st := ⟨rfl, rfl, rfl⟩

/-- strictly inside the window widened by `skew` on both sides, and the window is not inverted -/
def insideOpt (now : Int) (skew : Nat) (nb nooa : Option Int) : Prop :=
  (∀ t, nooa = some t → now < t + skew) ∧ (∀ b, nb = some b → b < now + skew) ∧
  (∀ b t, nb = some b → nooa = some t → b ≤ t)

def insideA (cfg : Cfg) (env : Env) (a : Assertion) : Prop :=
  (∀ c, a.conditions = some c → insideOpt env.now cfg.skew c.nb c.nooa) ∧
  (∀ s ∈ a.authn, ∀ t, s.sessionNooa = some t → env.now < t + cfg.skew) ∧
  (∀ s, a.subject = some s → ∀ sc ∈ s.confs, ∀ d, sc.data = some d → insideOpt env.now cfg.skew d.nb d.nooa)

theorem optExpired_inside {now : Int} {skew : Nat} {t : Option Int} (h : ∀ u, t = some u → now < u + skew) :
    optExpired now skew t = false := by
  cases t with
  | none => rfl
  | some u =>
    have := h u rfl
    simp only [optExpired, onOrAfterOk, Bool.not_not, decide_eq_false_iff_not]
    omega

theorem optPremature_inside {now : Int} {skew : Nat} {t : Option Int} (h : ∀ u, t = some u → u < now + skew) :
    optPremature now skew t = false := by
  cases t with
  | none => rfl
  | some u =>
    have := h u rfl
    simp only [optPremature, beforeOk, Bool.not_not, decide_eq_false_iff_not]
    omega

theorem laterThan_inside {now : Int} {skew : Nat} {nb nooa : Option Int} (h : insideOpt now skew nb nooa) :
    laterThan nooa nb = (nb.isNone || nooa.isSome) := by
  cases nb with
  | none => cases nooa <;> rfl
  | some b =>
    cases nooa with
    | none => rfl
    | some a =>
      have h3 := h.2.2 b a rfl rfl
      simp only [laterThan, Option.isNone_some, Option.isSome_some, Bool.or_true, decide_eq_true_eq]
      omega

theorem laterThan_san (now : Int) (nb nooa : Option Int) :
    laterThan (nooa.map (fun _ => now + 10)) (nb.map (fun _ => now - 10)) = (nb.isNone || nooa.isSome) := by
  cases nb <;> cases nooa <;> simp [laterThan]
  omega

/-! ### authn statement -/
theorem authnStatementOk_times {cfg : Cfg} {env : Env} {st st' st1' : St} {a : Assertion}
    (hrel : Rel st st') (hin : insideA cfg env a)
    (h : authnStatementOk cfg env st' (sanA env a) = .ok st1') :
    ∃ st1, authnStatementOk cfg env st a = .ok st1 ∧ Rel st1 st1' := by
  obtain ⟨s', hs', _, hc, _, hn, hh, _⟩ := authnStatementOk_inv h
  have hauthn : (sanA env a).authn = a.authn.map (sanAuthn env) := rfl
  rw [hauthn] at hs'
  cases hl : a.authn with
  | nil => rw [hl] at hs'; cases hs'
  | cons s rest =>
    rw [hl] at hs'
    simp only [List.map_cons, List.cons.injEq, List.map_eq_nil_iff] at hs'
    obtain ⟨_, hrest⟩ := hs'
    subst hrest
    unfold authnStatementOk
    rw [hl]
    simp only
    cases hsn : s.sessionNooa with
    | none => exact ⟨st, rfl, ⟨hrel.1.trans hc.symm, hrel.2.1.trans hn.symm, hrel.2.2.trans hh.symm⟩⟩
    | some t =>
      have hlt : env.now < t + cfg.skew := hin.2.1 s (by rw [hl]; simp) t hsn
      have hok : onOrAfterOk env.now cfg.skew t = true := by
        simp only [onOrAfterOk, Bool.not_eq_true', decide_eq_false_iff_not]; omega
      simp only [hok, if_true]
      split
      · exact ⟨_, rfl, ⟨hrel.1.trans hc.symm, hrel.2.1.trans hn.symm, hrel.2.2.trans hh.symm⟩⟩
      · exact ⟨_, rfl, ⟨hrel.1.trans hc.symm, hrel.2.1.trans hn.symm, hrel.2.2.trans hh.symm⟩⟩

/-! ### conditions -/
theorem conditionOk_times {cfg : Cfg} {env : Env} {st st' st1' : St} {a : Assertion}
    (hrel : Rel st st') (hin : insideA cfg env a)
    (h : conditionOk cfg env st' (sanA env a) = .ok st1') :
    ∃ st1, conditionOk cfg env st a = .ok st1 ∧ Rel st1 st1' := by
  have hcf := conditionOk_cameFrom h
  obtain ⟨_, _, _, _, hn⟩ := conditionOk_facts h
  have hrel' : ∀ s : St, s.cameFrom = st.cameFrom → s.nameId = st.nameId → s.hasAssertion = st.hasAssertion → Rel s st1' := by
    intro s h1 h2 h3
    refine ⟨h1.trans (hrel.1.trans hcf.symm), h2.trans (hrel.2.1.trans hn.symm), ?_⟩
    -- hasAssertion is untouched by conditionOk
    have : st1'.hasAssertion = st'.hasAssertion := by
      unfold conditionOk at h
      split at h
      · cases h; rfl
      · split at h
        · cases h; rfl
        · split at h
          · cases h
          · split at h
            · cases h
            · split at h
              · cases h
              · split at h
                · cases h
                · split at h
                  · cases h
                  · cases h; rfl
    exact h3.trans (hrel.2.2.trans this.symm)
  have hcond : (sanA env a).conditions = a.conditions.map (sanCond env) := rfl
  unfold conditionOk at h ⊢
  rw [hcond] at h
  cases hc : a.conditions with
  | none => exact ⟨st, rfl, hrel' st rfl rfl rfl⟩
  | some c =>
    rw [hc] at h
    simp only [Option.map_some] at h
    have hins := hin.1 c hc
    simp only
    -- the shape tests are the same
    have e1 : (sanCond env c).nb.isNone = c.nb.isNone := by simp [sanCond]
    have e2 : (sanCond env c).nooa.isNone = c.nooa.isNone := by simp [sanCond]
    have e3 : (sanCond env c).audiences = c.audiences := rfl
    have e4 : (sanCond env c).extra = c.extra := rfl
    have e5 : (sanCond env c).nb.isSome = c.nb.isSome := by simp [sanCond]
    have e6 : (sanCond env c).nooa.isSome = c.nooa.isSome := by simp [sanCond]
    rw [e1, e2, e3, e4, e5, e6] at h
    split at h
    next hempty => rw [if_pos hempty]; exact ⟨st, rfl, hrel' st rfl rfl rfl⟩
    next hempty =>
      rw [if_neg hempty]
      have hl : laterThan c.nooa c.nb = (c.nb.isNone || c.nooa.isSome) := laterThan_inside hins
      have hl' : laterThan (sanCond env c).nooa (sanCond env c).nb = (c.nb.isNone || c.nooa.isSome) := laterThan_san _ _ _
      rw [hl'] at h
      rw [hl]
      split at h
      · cases h
      next hord =>
        rw [if_neg hord, optExpired_inside hins.1, optPremature_inside hins.2.1]
        simp only [Bool.false_eq_true, if_false]
        split at h
        · cases h
        split at h
        · cases h
        split at h
        · cases h
        next haud =>
          rw [if_neg haud]
          split at h
          · cases h
          next hext =>
            rw [if_neg hext]
            exact ⟨_, rfl, hrel' _ rfl rfl rfl⟩

/-! ### subject confirmations -/
theorem bearer_times {cfg : Cfg} {env : Env} {st st' : St} {d : ScData}
    (hrel : Rel st st') (hin : insideOpt env.now cfg.skew d.nb d.nooa) :
    (∀ st1', bearerConfirmed cfg env st' (some (sanData env d)) = .yes st1' →
        ∃ st1, bearerConfirmed cfg env st (some d) = .yes st1 ∧ Rel st1 st1') ∧
    (bearerConfirmed cfg env st' (some (sanData env d)) = .skip → bearerConfirmed cfg env st (some d) = .skip) := by
  have hinS : insideOpt env.now cfg.skew (sanData env d).nb (sanData env d).nooa := by
    refine ⟨?_, ?_, ?_⟩
    · intro t ht; simp only [sanData, Option.map_eq_some_iff] at ht; obtain ⟨_, _, rfl⟩ := ht; omega
    · intro t ht; simp only [sanData, Option.map_eq_some_iff] at ht; obtain ⟨_, _, rfl⟩ := ht; omega
    · intro b t hb ht
      simp only [sanData, Option.map_eq_some_iff] at hb ht
      obtain ⟨_, _, rfl⟩ := hb; obtain ⟨_, _, rfl⟩ := ht; omega
  have hl : laterThan d.nooa d.nb = (d.nb.isNone || d.nooa.isSome) := laterThan_inside hin
  have hl' : laterThan (sanData env d).nooa (sanData env d).nb = (d.nb.isNone || d.nooa.isSome) := laterThan_san _ _ _
  have hirt : (sanData env d).irt = d.irt := rfl
  have hcf : st'.cameFrom.isNone = st.cameFrom.isNone := by rw [hrel.1]
  unfold bearerConfirmed
  simp only [optExpired_inside hin.1, optPremature_inside hin.2.1, optExpired_inside hinS.1, optPremature_inside hinS.2.1,
    Bool.false_eq_true, if_false, hl, hl', hirt, hcf]
  constructor
  · intro st1' h
    by_cases hlt : (!(d.nb.isNone || d.nooa.isSome)) = true
    · rw [if_pos hlt] at h; cases h
    · rw [if_neg hlt] at h ⊢
      by_cases hasync : (env.asynchop && st.cameFrom.isNone) = true
      · rw [if_pos hasync] at h ⊢
        cases hi : d.irt with
        | none => rw [hi] at h; simp only at h ⊢; cases h; exact ⟨st, rfl, hrel⟩
        | some i =>
          rw [hi] at h
          simp only at h ⊢
          by_cases hie : (i == "") = true
          · rw [if_pos hie] at h ⊢; cases h; exact ⟨st, rfl, hrel⟩
          · rw [if_neg hie] at h ⊢
            cases hlk : env.outstanding.lookup i with
            | some cf =>
              rw [hlk] at h; simp only at h ⊢; cases h
              exact ⟨_, rfl, ⟨rfl, hrel.2.1, hrel.2.2⟩⟩
            | none =>
              rw [hlk] at h; simp only at h ⊢
              cases hu : cfg.allowUnsolicited with
              | true => rw [hu] at h; simp only [if_true] at h ⊢; cases h; exact ⟨st, rfl, hrel⟩
              | false => rw [hu] at h; simp at h
      · rw [if_neg hasync] at h ⊢; cases h; exact ⟨st, rfl, hrel⟩
  · intro h
    by_cases hlt : (!(d.nb.isNone || d.nooa.isSome)) = true
    · rw [if_pos hlt]
    · exfalso
      rw [if_neg hlt] at h
      by_cases hasync : (env.asynchop && st.cameFrom.isNone) = true
      · rw [if_pos hasync] at h
        cases hi : d.irt with
        | none => rw [hi] at h; simp at h
        | some i =>
          rw [hi] at h
          simp only at h
          by_cases hie : (i == "") = true
          · rw [if_pos hie] at h; cases h
          · rw [if_neg hie] at h
            cases hlk : env.outstanding.lookup i with
            | some cf => rw [hlk] at h; simp at h
            | none =>
              rw [hlk] at h; simp only at h
              cases hu : cfg.allowUnsolicited with
              | true => rw [hu] at h; simp at h
              | false => rw [hu] at h; simp at h
      · rw [if_neg hasync] at h; cases h

theorem confirmLoop_times_ok {cfg : Cfg} {env : Env} :
    ∀ {confs : List SubjConf} {st st' st1' : St} {n m : Nat}, Rel st st' →
      (∀ sc ∈ confs, ∀ d, sc.data = some d → insideOpt env.now cfg.skew d.nb d.nooa) →
      confirmLoop cfg env st' (confs.map (sanSc env)) n = .ok (st1', m) →
      ∃ st1, confirmLoop cfg env st confs n = .ok (st1, m) ∧ Rel st1 st1'
  | [], st, st', st1', n, m, hrel, _, h => by
    simp only [List.map_nil, confirmLoop] at h
    cases h
    exact ⟨st, by simp [confirmLoop], hrel⟩
  | sc :: rest, st, st', st1', n, m, hrel, hin, h => by
    have hinr : ∀ x ∈ rest, ∀ d, x.data = some d → insideOpt env.now cfg.skew d.nb d.nooa :=
      fun x hx => hin x (List.mem_cons_of_mem _ hx)
    simp only [List.map_cons] at h
    unfold confirmLoop at h ⊢
    simp only at h ⊢
    have hm : (sanSc env sc).method = sc.method := rfl
    have hd : (sanSc env sc).data = sc.data.map (sanData env) := rfl
    rw [hm, hd] at h
    -- recipient and key-info are untouched
    have hrec : ∀ d, (sanData env d).recipient = d.recipient := fun _ => rfl
    have hki : ∀ d, (sanData env d).hasKeyInfo = d.hasKeyInfo := fun _ => rfl
    cases hmeth : sc.method with
    | bearer =>
      rw [hmeth] at h
      simp only at h ⊢
      cases hdat : sc.data with
      | none =>
        rw [hdat] at h
        simp only [Option.map_none, bearerConfirmed] at h ⊢
        exact confirmLoop_times_ok hrel hinr h
      | some d =>
        rw [hdat] at h
        simp only [Option.map_some] at h
        obtain ⟨hyes, hskip⟩ := bearer_times (cfg := cfg) hrel (hin sc (List.mem_cons_self ..) d hdat)
        cases hb : bearerConfirmed cfg env st' (some (sanData env d)) with
        | fail e => rw [hb] at h; cases h
        | skip =>
          rw [hb] at h
          rw [hskip hb]
          exact confirmLoop_times_ok hrel hinr h
        | yes s1' =>
          rw [hb] at h
          obtain ⟨s1, hs1, hrel1⟩ := hyes s1' hb
          rw [hs1]
          simp only [hrec] at h ⊢
          cases hr : d.recipient with
          | none => rw [hr] at h; cases h
          | some rcp =>
            rw [hr] at h
            simp only at h ⊢
            split at h
            next hok => rw [if_pos hok]; exact confirmLoop_times_ok hrel1 hinr h
            · cases h
    | holderOfKey =>
      rw [hmeth] at h
      simp only at h ⊢
      cases hdat : sc.data with
      | none =>
        rw [hdat] at h
        simp only [Option.map_none] at h ⊢
        exact confirmLoop_times_ok hrel hinr h
      | some d =>
        rw [hdat] at h
        simp only [Option.map_some, hki] at h ⊢
        cases hk : d.hasKeyInfo with
        | false =>
          rw [hk] at h
          simp only [Bool.false_eq_true, if_false] at h ⊢
          exact confirmLoop_times_ok hrel hinr h
        | true =>
          rw [hk] at h
          simp only [if_true, hrec] at h ⊢
          cases hr : d.recipient with
          | none => rw [hr] at h; cases h
          | some rcp =>
            rw [hr] at h
            simp only at h ⊢
            split at h
            next hok => rw [if_pos hok]; exact confirmLoop_times_ok hrel hinr h
            · cases h
    | senderVouches =>
      rw [hmeth] at h
      simp only at h ⊢
      cases hdat : sc.data with
      | none => rw [hdat] at h; simp only [Option.map_none] at h; cases h
      | some d =>
        rw [hdat] at h
        simp only [Option.map_some, hrec] at h ⊢
        cases hr : d.recipient with
        | none => rw [hr] at h; cases h
        | some rcp =>
          rw [hr] at h
          simp only at h ⊢
          split at h
          next hok => rw [if_pos hok]; exact confirmLoop_times_ok hrel hinr h
          · cases h
    | other => rw [hmeth] at h; cases h

theorem attestingOk_san (env : Env) (confs : List SubjConf) :
    attestingOk env (confs.map (sanSc env)) = attestingOk env confs := by
  unfold attestingOk
  simp only [List.any_map]
  congr 1
  funext sc
  simp only [Function.comp, sanSc]
  cases sc.data <;> rfl

theorem getSubject_times {cfg : Cfg} {env : Env} {st st' st1' : St} {a : Assertion}
    (hrel : Rel st st') (hin : insideA cfg env a)
    (h : getSubject cfg env st' (sanA env a) = .ok st1') :
    ∃ st1, getSubject cfg env st a = .ok st1 ∧ Rel st1 st1' := by
  have hsub : (sanA env a).subject = a.subject.map (fun s => { s with confs := s.confs.map (sanSc env) }) := rfl
  unfold getSubject at h ⊢
  rw [hsub] at h
  cases hs : a.subject with
  | none => rw [hs] at h; cases h
  | some s =>
    rw [hs] at h
    simp only [Option.map_some, attestingOk_san] at h ⊢
    split at h
    · cases h
    next hatt =>
      rw [if_neg hatt]
      split at h
      · cases h
      next st2' n hl =>
        obtain ⟨st2, hl2, hrel2⟩ := confirmLoop_times_ok hrel (hin.2.2 s hs) hl
        rw [hl2]
        simp only at h ⊢
        split at h
        · cases h
        next hn =>
          rw [if_neg hn]
          have hid : subjectId { s with confs := s.confs.map (sanSc env) } = subjectId s := rfl
          rw [hid] at h
          split at h
          · cases h
          next hnone => cases h; exact ⟨_, rfl, hrel2⟩
          next nid hsome => cases h; exact ⟨_, rfl, hrel2.1, rfl, hrel2.2.2⟩

theorem checkAssertion_times {cfg : Cfg} {env : Env} {rs v : Bool} {st st' st1' : St} {a : Assertion}
    (hrel : Rel st st') (hin : insideA cfg env a)
    (h : checkAssertion cfg env rs v st' (sanA env a) = .ok st1') :
    ∃ st1, checkAssertion cfg env rs v st a = .ok st1 ∧ Rel st1 st1' := by
  have hsig : (sanA env a).sig = a.sig := rfl
  unfold checkAssertion at h ⊢
  rw [hsig] at h
  split at h
  · cases h
  next h1 =>
    rw [if_neg h1]
    split at h
    · cases h
    next h2 =>
      rw [if_neg h2]
      split at h
      · cases h
      next s1' e1 =>
        obtain ⟨s1, e1', r1⟩ := authnStatementOk_times (st := { st with hasAssertion := true })
          (st' := { st' with hasAssertion := true }) ⟨hrel.1, hrel.2.1, rfl⟩ hin e1
        rw [e1']
        simp only at h ⊢
        split at h
        · cases h
        next s2' e2 =>
          obtain ⟨s2, e2', r2⟩ := conditionOk_times r1 hin e2
          rw [e2']
          simp only at h ⊢
          split at h
          · cases h
          next s3' e3 =>
            obtain ⟨s3, e3', r3⟩ := getSubject_times r2 hin e3
            rw [e3']
            simp only at h ⊢
            rw [← r3.1] at h
            split at h
            · cases h
            next hcf =>
              rw [if_neg hcf]
              cases h
              exact ⟨s3, rfl, r3⟩

theorem checkAll_times {cfg : Cfg} {env : Env} {rs v : Bool} :
    ∀ {as : List Assertion} {st st' st1' : St}, Rel st st' → (∀ a ∈ as, insideA cfg env a) →
      checkAll cfg env rs v st' (as.map (sanA env)) = .ok st1' →
      ∃ st1, checkAll cfg env rs v st as = .ok st1 ∧ Rel st1 st1'
  | [], st, st', st1', hrel, _, h => by
    simp only [List.map_nil, checkAll] at h; cases h
    exact ⟨st, by simp [checkAll], hrel⟩
  | a :: rest, st, st', st1', hrel, hin, h => by
    simp only [List.map_cons] at h
    unfold checkAll at h ⊢
    split at h
    · cases h
    next s1' hc =>
      obtain ⟨s1, hc', r1⟩ := checkAssertion_times hrel (hin a (List.mem_cons_self ..)) hc
      rw [hc']
      exact checkAll_times r1 (fun b hb => hin b (List.mem_cons_of_mem _ hb)) h

end Sp

namespace Sp

theorem filter_map_gen (f : Assertion → Assertion) (p : Assertion → Bool) (hp : ∀ a, p (f a) = p a) (l : List Assertion) :
    (l.map f).filter p = (l.filter p).map f := by
  induction l with
  | nil => rfl
  | cons a rest ih =>
    simp only [List.map_cons, List.filter_cons, hp a]
    split <;> simp [ih]

theorem takeWhile_map_gen (f : Assertion → Assertion) (p : Assertion → Bool) (hp : ∀ a, p (f a) = p a) (l : List Assertion) :
    (l.map f).takeWhile p = (l.takeWhile p).map f := by
  induction l with
  | nil => rfl
  | cons a rest ih =>
    simp only [List.map_cons, List.takeWhile_cons, hp a]
    split <;> simp [ih]

theorem plainOf_san (env : Env) (r : Response) : plainOf (sanitiseTimes env r) = (plainOf r).map (sanA env) := by
  unfold plainOf; rw [sanitise_assertions]; exact filter_map_gen (sanA env) _ (fun _ => rfl) _
theorem encOf_san (env : Env) (r : Response) : encOf (sanitiseTimes env r) = (encOf r).map (sanA env) := by
  unfold encOf; rw [sanitise_assertions]; exact filter_map_gen (sanA env) _ (fun _ => rfl) _
theorem decOf_san (env : Env) (r : Response) : decOf (sanitiseTimes env r) = (decOf r).map (sanA env) := by
  unfold decOf; rw [encOf_san]; exact takeWhile_map_gen (sanA env) _ (fun _ => rfl) _

theorem scanSc_san (env : Env) (irp : Option String) : ∀ (l : List SubjConf), scanSc irp (l.map (sanSc env)) = scanSc irp l
  | [] => rfl
  | sc :: rest => by
    simp only [List.map_cons, scanSc]
    have : (sanSc env sc).data = sc.data.map (sanData env) := rfl
    rw [this]
    cases sc.data with
    | none => simpa using scanSc_san env irp rest
    | some d =>
      simp only [Option.map_some]
      have : (sanData env d).irt = d.irt := rfl
      rw [this, scanSc_san env irp rest]

theorem scanAssertions_san (env : Env) (irp : Option String) :
    ∀ (as : List Assertion), scanAssertions irp (as.map (sanA env)) = scanAssertions irp as
  | [] => rfl
  | a :: rest => by
    simp only [List.map_cons, scanAssertions]
    have : (sanA env a).subject = a.subject.map (fun s => { s with confs := s.confs.map (sanSc env) }) := rfl
    rw [this]
    cases a.subject with
    | none => rfl
    | some s =>
      simp only [Option.map_some, scanSc_san]
      rw [scanAssertions_san env irp rest]

theorem loads_san (cfg : Cfg) (env : Env) (req : Bool) (r : Response) :
    loads cfg env req (sanitiseTimes env r) = loads cfg env req r := by
  unfold loads
  rw [plainOf_san, scanAssertions_san]
  rfl

theorem pass1_san (cfg : Cfg) (env : Env) (r : Response) : pass1 cfg env (sanitiseTimes env r) = pass1 cfg env r := by
  unfold pass1
  rw [loads_san, loads_san]

theorem verifyEnvelope_san {cfg : Cfg} {env : Env} {r : Response}
    (hii : env.now - r.issueInstant < 86400 + cfg.skew ∧ r.issueInstant - env.now < 86400 + cfg.skew)
    (h : verifyEnvelope cfg env (sanitiseTimes env r) = .ok true) : verifyEnvelope cfg env r = .ok true := by
  obtain ⟨hv, hd, _, hs⟩ := verifyEnvelope_true_inv h
  have hv' : r.version = "2.0" := hv
  have hs' : r.statusTop = "urn:oasis:names:tc:SAML:2.0:status:Success" := hs
  have hd' : destinationOk cfg env r = true := hd
  unfold verifyEnvelope
  have hne : (r.version != "2.0") = false := by simp [hv']
  rw [hne]
  simp only [Bool.false_eq_true, if_false]
  have hdest : (env.asynchop && truthy r.destination && !(cfg.returnAddrs.contains (r.destination.getD ""))) = false := by
    unfold destinationOk at hd'
    cases ha : env.asynchop <;> cases ht : truthy r.destination <;> simp_all
  rw [hdest]
  have hii' : issueInstantOk env.now cfg.skew r.issueInstant = true := by
    unfold issueInstantOk
    simp only [Bool.and_eq_true, decide_eq_true_eq]
    omega
  simp [hii', hs']

/-- lax success ⇒ the forced call succeeds with the same result or fails with "signature missing" -/
theorem checkAll_forced_or {cfg : Cfg} {env : Env} {v : Bool} :
    ∀ {as : List Assertion} {st st1 : St}, checkAll cfg env false v st as = .ok st1 →
      checkAll cfg env true v st as = .ok st1 ∨ checkAll cfg env true v st as = .error .sigMissingAssertion
  | [], st, st1, h => Or.inl (by simpa [checkAll] using h)
  | a :: rest, st, st1, h => by
    unfold checkAll at h ⊢
    split at h
    · cases h
    next s1 hc =>
      have : checkAssertion cfg env true v st a = .ok s1 ∨ checkAssertion cfg env true v st a = .error .sigMissingAssertion := by
        unfold checkAssertion at hc ⊢
        cases hp : a.sig.present with
        | false => right; simp
        | true =>
          left
          simp only [hp, Bool.not_true, Bool.false_and, Bool.false_eq_true, if_false, Bool.true_and] at hc ⊢
          exact hc
      rcases this with h1 | h1
      · rw [h1]; exact checkAll_forced_or h
      · rw [h1]; exact Or.inr rfl

theorem parseAssertion_forced_or {cfg : Cfg} {env : Env} {st : St} {r : Response} {p : Parsed}
    (h : parseAssertion cfg env false st r = .ok p) :
    parseAssertion cfg env true st r = .ok p ∨ parseAssertion cfg env true st r = .error .sigMissingAssertion := by
  obtain ⟨⟨st1, h1, h2⟩, hsig, hscan, hu, hl, hcount⟩ := parseAssertion_inv h
  unfold parseAssertion
  rw [hcount]
  simp only [Bool.false_eq_true, if_false]
  rcases checkAll_forced_or h1 with e1 | e1
  · rw [e1]
    simp only [hsig, hscan, Bool.false_eq_true, if_false]
    rcases checkAll_forced_or h2 with e2 | e2
    · rw [e2]; left
      cases p; simp_all
    · rw [e2]; right; rfl
  · rw [e1]; right; rfl

/-- `parse_assertion` on the message, given success on the sanitised copy -/
theorem parseAssertion_times {cfg : Cfg} {env : Env} {rs : Bool} {st st' : St} {r : Response} {p' : Parsed}
    (hrel : Rel st st') (hin : ∀ a ∈ visible r, insideA cfg env a)
    (h : parseAssertion cfg env rs st' (sanitiseTimes env r) = .ok p') :
    ∃ p, parseAssertion cfg env rs st r = .ok p ∧ Rel p.st p'.st ∧ p.encLeft = p'.encLeft ∧
      p.used = decOf r ++ plainOf r := by
  obtain ⟨⟨st1', h1, h2⟩, hsig, hscan, _, hleft, hcount⟩ := parseAssertion_inv h
  rw [plainOf_san] at h1 hcount
  rw [decOf_san] at h2 hscan hleft hsig
  rw [encOf_san] at hcount hleft
  simp only [List.length_map, List.isEmpty_map] at hcount hleft
  rw [scanAssertions_san] at hscan
  have hsig' : (decOf r).any (fun a => a.sig.present && a.sig != .valid) = false := by
    rw [List.any_map] at hsig; exact hsig
  obtain ⟨st1, e1, r1⟩ := checkAll_times hrel (fun a ha => hin a (List.mem_append.mpr (Or.inr ha))) h1
  obtain ⟨st2, e2, r2⟩ := checkAll_times r1 (fun a ha => hin a (List.mem_append.mpr (Or.inl ha))) h2
  refine ⟨{ st := st2, used := decOf r ++ plainOf r, encLeft := !(encOf r).isEmpty && (decOf r).isEmpty }, ?_, r2, hleft.symm, rfl⟩
  unfold parseAssertion
  have hc : ((plainOf r).length != 1 && (encOf r).length != 1 && !st.hasAssertion) = false := by
    rw [hrel.2.2]; exact hcount
  have hirt : (sanitiseTimes env r).inResponseTo = r.inResponseTo := rfl
  rw [hirt] at hscan
  rw [hc, e1]
  simp only [Bool.false_eq_true, if_false, hsig', hscan, e2]

end Sp
