/-
  C12 helper lemmas, part 4: parsing a serialised instance, at the level of element trees.
-/
import PysamlModel.Proofs.C12Kids

set_option linter.unusedSimpArgs false
set_option linter.unusedVariables false

namespace ObjModel

theorem kidsOk_spec (strict : Bool) (T : Nat → ClassDef) (c : Option Nat) (s : List Inst) :
    kidsOk strict T c s = true ↔ ∀ k ∈ s, some k.cls = c ∧ instOk strict T k = true := by
  induction s with
  | nil => simp [kidsOk]
  | cons k r ih => simp [kidsOk, ih, and_assoc]

theorem slotsOk_spec (strict : Bool) (T : Nat → ClassDef) (ds : List ChildDecl) (ss : List (List Inst))
    (h : slotsOk strict T ds ss = true) :
    ss.length = ds.length ∧ ∀ j (hj : j < ds.length) (hs : j < ss.length),
      (ds[j].isList = true ∨ ss[j].length ≤ 1) ∧ ∀ k ∈ ss[j], some k.cls = ds[j].cls ∧ instOk strict T k = true := by
  induction ds generalizing ss with
  | nil =>
    cases ss with
    | nil => simp
    | cons _ _ => simp [slotsOk] at h
  | cons d r ih =>
    cases ss with
    | nil => simp [slotsOk] at h
    | cons s ss' =>
      simp only [slotsOk, Bool.and_eq_true, Bool.or_eq_true, decide_eq_true_eq] at h
      obtain ⟨⟨h1, h2⟩, h3⟩ := h
      obtain ⟨hl, hr⟩ := ih ss' h3
      refine ⟨by simp [hl], ?_⟩
      intro j hj hs
      cases j with
      | zero => exact ⟨by simpa using h1, (kidsOk_spec strict T d.cls s).mp h2⟩
      | succ j' => simpa using hr j' (by simpa using hj) (by simpa using hs)

theorem orderOk_spec (cd : ClassDef) (h : orderOk cd = true) :
    (orderIdxs cd).Nodup ∧ (∀ j, some j ∈ orderIdxs cd → j < cd.children.length) ∧
    (∀ j, j < cd.children.length → some j ∈ orderIdxs cd) := by
  simp only [orderOk, Bool.and_eq_true, List.all_eq_true, List.mem_range, List.contains_iff_mem] at h
  obtain ⟨⟨_, h2⟩, h3⟩ := h
  refine ⟨nodupON_iff.mp h2, ?_, fun j hj => by simpa using h3 j hj⟩
  intro j hj
  simp only [orderIdxs, List.mem_map] at hj
  obtain ⟨m, _, hm⟩ := hj
  obtain ⟨hlt, _⟩ := idxOf_eq_some_iff hm
  simpa [members] using hlt

theorem classWf_spec (cd : ClassDef) (h : classWf cd = true) :
    (cd.children.map (·.key)).Nodup ∧ (cd.attrs.map (·.name)).Nodup ∧ orderOk cd = true ∧
    (∀ a ∈ cd.attrs, isNsDecl a.name = false) ∧ cd.attrInit.length = cd.attrs.length ∧
    (∀ p ∈ cd.defaults, (attrIdx cd.attrs p.1).isSome = true) ∧
    (cd.kind = .attrValue → cd.children = [] ∧ cd.attrs = [] ∧ cd.defaults = []) := by
  simp only [classWf, Bool.and_eq_true, List.all_eq_true, Bool.not_eq_true', beq_iff_eq] at h
  obtain ⟨⟨⟨⟨⟨⟨⟨h1, _⟩, h3⟩, h4⟩, h5⟩, h6⟩, h7⟩, h8⟩ := h
  refine ⟨nodupQ_iff.mp h1, nodupNat_iff.mp h3, h4, h5, h6, h7, ?_⟩
  intro hk
  rw [hk] at h8
  simpa [List.isEmpty_iff, and_assoc] using h8

theorem harvest_serialise_kids (E : Env) (cd : ClassDef) (hcd : classWf cd = true)
    (hsound : ∀ d ∈ cd.children, declSound E.T d = true)
    (ss : List (List Inst)) (ee : List ExtEl)
    (hslots : slotsOk true E.T cd.children ss = true)
    (hee : ∀ e ∈ ee, findDecl cd.children e.qname = none)
    (ih : ∀ s ∈ ss, ∀ k ∈ s, treeWf E.T k = true → harvest E k.cls (serialise E.T k) = canon E k) :
    harvestKids E cd.children (orderedKids cd (serSlots E.T ss) ++ ofExtList ee) (cd.children.map fun _ => []) [] =
      (canonSlots E ss, ee) := by
  obtain ⟨hkeys, _, hord, _, _, _, _⟩ := classWf_spec cd hcd
  obtain ⟨hnd, hlt, hcov⟩ := orderOk_spec cd hord
  obtain ⟨hlen, hsl⟩ := slotsOk_spec true E.T cd.children ss hslots
  have hok : ∀ j, SlotOk E cd.children ss j := by
    intro j hj hs
    obtain ⟨h1, h2⟩ := hsl j hj hs
    refine ⟨h1, ?_⟩
    intro k hk
    obtain ⟨hc, hw⟩ := h2 k hk
    have hs' := hsound cd.children[j] (List.getElem_mem hj)
    simp only [declSound, ← hc, decide_eq_true_eq] at hs'
    exact ⟨hc.symm, hs', ih ss[j] (List.getElem_mem hs) k hk hw⟩
  have hrep : (cd.children.map fun _ => ([] : List Inst)) = List.replicate cd.children.length [] := by
    simp [List.map_const']
  rw [orderedKids_eq_blocks, hrep]
  rw [harvestKids_blocks E cd.children hkeys ss hlen hok (orderIdxs cd) hnd hlt (ofExtList ee) _ [] (by simp)
    (by intro j _; simp only [List.getD, List.getElem?_replicate]; split <;> rfl)]
  have := harvestKids_ext E cd.children ee [] (applyOrder (canonSlots E ss) (orderIdxs cd) (List.replicate cd.children.length [])) [] hee
  simp only [List.append_nil, List.nil_append] at this
  rw [this]
  simp only [harvestKids]
  rw [applyOrder_all _ _ cd.children.length (by rw [canonSlots_eq_map]; simp [hlen]) hcov]

/-- Parsing what `_to_element_tree` wrote gives the instance back (its `canon`, which differs from the
    instance on AttributeValue nodes only). -/
theorem harvest_serialise (E : Env) (hT : TableWf E.T) :
    ∀ i, treeWf E.T i = true → harvest E i.cls (serialise E.T i) = canon E i := by
  intro i
  induction i using Inst.induct with
  | h c as ss t ee ea ih =>
    intro hwf
    obtain ⟨hcd, hsound⟩ := hT c
    obtain ⟨hkeys, hnames, hord, hnons, hinit, hdfl, hav⟩ := classWf_spec (E.T c) hcd
    simp only [treeWf, instOk, Bool.and_eq_true, beq_iff_eq, List.all_eq_true, Bool.not_true, Bool.false_or,
      Option.isNone_iff_eq_none] at hwf
    obtain ⟨⟨⟨⟨⟨⟨hal, hslots⟩, hee⟩, _⟩, heand⟩, heaf⟩, hdef, hzip⟩ := hwf
    have hkids := harvest_serialise_kids E (E.T c) hcd hsound ss ee hslots hee ih
    have heanod : (keysOf ea).Nodup := nodupNat_iff.mp heand
    have hAnod := nodup_declaredAttrs (E.T c).attrs as hnames
    have hdisj : ∀ k ∈ keysOf ea, k ∉ keysOf (declaredAttrs (E.T c).attrs as) := by
      intro k hk hm
      have h1 := keys_declaredAttrs_sub _ _ k hm
      obtain ⟨p, hp, rfl⟩ := List.mem_map.mp hk
      exact (attrIdx_eq_none_iff.mp (heaf p hp)) h1
    have hattrs : dictSetAll (dictSetAll [] (declaredAttrs (E.T c).attrs as)) ea = declaredAttrs (E.T c).attrs as ++ ea := by
      rw [dictSetAll_nil_eq hAnod, dictSetAll_eq_append heanod hdisj]
    simp only [Inst.cls, serialise, harvest, hkids, hattrs]
    cases hkind : (E.T c).kind with
    | plain =>
      simp only
      have hnoop : (E.T c).defaults.foldl (fun d p => dictSetDefault d p.1 p.2) (declaredAttrs (E.T c).attrs as ++ ea) =
          declaredAttrs (E.T c).attrs as ++ ea := by
        apply setDefaults_noop
        intro p hp
        have := hdef p hp
        rw [dictHas_iff] at this ⊢
        rw [keysOf_append]; exact List.mem_append_left _ this
      rw [hnoop, harvestAttrs_append]
      have h1 := harvestAttrs_declared [] (E.T c).attrs (by simpa using hnames) [] as (E.T c).attrInit [] rfl hal hinit
        (by simpa [List.all_eq_true] using hzip)
      simp only [List.nil_append] at h1
      rw [h1]
      simp only
      rw [harvestAttrs_foreign (E.T c).attrs ea as [] (by
            intro k hk
            obtain ⟨p, hp, rfl⟩ := List.mem_map.mp hk
            exact heaf p hp) (by simpa using heanod)]
      simp [canon, hkind]
    | attrValue =>
      obtain ⟨hc0, ha0, hd0⟩ := hav hkind
      have has : as = [] := by
        rw [ha0] at hal; exact List.eq_nil_of_length_eq_zero (by simpa using hal)
      have hini : (E.T c).attrInit = [] := by
        rw [ha0] at hinit; exact List.eq_nil_of_length_eq_zero (by simpa using hinit)
      subst has
      simp only [ha0, hini, declaredAttrs, List.nil_append, harvestAttrs_nil, canon, hkind]
      cases avFinish E.K E.conv (dictSetAll [(E.K.xsiNil, sTrue)] ea) t (!ee.isEmpty) with
      | none => rfl
      | some p => rfl

end ObjModel
