/-
  C19 helper lemmas, part 5: the simulation invariant between the model state and the bookkeeping of
  the specification, and generic preservation lemmas.
-/
import PysamlModel.Proofs.C19Shape

namespace Session

/-- Every pending record belongs to a logout operation the specification knows, and the shared
    `entity_ids` list object it refers to holds exactly the providers that operation still waits for
    (or the operation is complete and the list kept its last element). -/
def PendInv (st : St) (ops : List (Nat × GOp)) (reqOp : List (ReqId × Nat)) : Prop :=
  ∀ rid rec, Dict.get? rid st.pending = some rec →
    rid.step < st.stepNo ∧ rec.cell < st.stepNo ∧
    Dict.get? rid reqOp = some rec.cell ∧
    ∃ gop, Dict.get? rec.cell ops = some gop ∧ gop.subj = rec.subj ∧ gop.expire = rec.expire ∧
      (gop.remaining = heapGet st.heap rec.cell ∨ (gop.remaining = [] ∧ ∃ y, heapGet st.heap rec.cell = [y]))

structure Inv (st : St) (g : Ghost) : Prop where
  now : g.now = st.now
  stepNo : g.stepNo = st.stepNo
  last : g.last = st.last
  live : LiveInv st.db g.live
  pend : PendInv st g.ops g.reqOp

theorem get?_register (ids : List ReqId) (o : Nat) (m : List (ReqId × Nat)) (rid : ReqId) :
    Dict.get? rid (register ids o m) = if rid ∈ ids then some o else Dict.get? rid m := by
  unfold register
  induction ids generalizing m with
  | nil => simp
  | cons a t ih =>
    simp only [List.foldl_cons]
    rw [ih]
    by_cases h : rid ∈ t
    · simp [h]
    · by_cases h2 : rid = a
      · subst h2; simp [h, Dict.get?_set_self]
      · simp [h, h2, Dict.get?_set_other h2]

theorem heapGet_set_self (h : List (Nat × List Idp)) (c : Nat) (l : List Idp) : heapGet (Dict.set c l h) c = l := by
  simp [heapGet, Dict.get?_set_self]

theorem heapGet_set_other (h : List (Nat × List Idp)) {c c' : Nat} (l : List Idp) (hne : c' ≠ c) :
    heapGet (Dict.set c l h) c' = heapGet h c' := by
  simp [heapGet, Dict.get?_set_other hne]

theorem removeAll_nil (l : List Idp) : removeAll l [] = l := by
  unfold removeAll; simp

theorem erase_eq_nil_iff {x : Idp} {l : List Idp} (h : x ∈ l) : (l.erase x).isEmpty = true ↔ l = [x] := by
  cases l with
  | nil => cases h
  | cons a t =>
    by_cases ha : a = x
    · subst ha
      simp [List.erase_cons_head]
    · have : x ∈ t := by
        rcases List.mem_cons.mp h with h | h
        · exact absurd h.symm ha
        · exact h
      have hne : (a == x) = false := by simp [ha]
      simp [List.erase_cons, hne]
      intro h1 h2
      subst h2
      cases this

/-- What `ghostNext` records as the request → operation map. -/
def reqOpNext (g : Ghost) (p : Plan) (pend' : List ReqId) : List (ReqId × Nat) :=
  match p.opId with
  | some o => register (pend'.filter (fun rid => decide (rid.step = g.stepNo))) o g.reqOp
  | none => g.reqOp

theorem reqOpNext_old {g : Ghost} {p : Plan} {pend' : List ReqId} {rid : ReqId} (h : rid.step < g.stepNo) :
    Dict.get? rid (reqOpNext g p pend') = Dict.get? rid g.reqOp := by
  unfold reqOpNext
  cases p.opId with
  | none => rfl
  | some o =>
    simp only
    rw [get?_register]
    have : ¬ rid ∈ pend'.filter (fun rid => decide (rid.step = g.stepNo)) := by
      simp only [List.mem_filter, decide_eq_true_eq]
      intro ⟨_, h2⟩
      omega
    simp [this]

theorem reqOpNext_new {g : Ghost} {p : Plan} {pend' : List ReqId} {rid : ReqId} {o : Nat} (ho : p.opId = some o)
    (h : rid.step = g.stepNo) (hm : rid ∈ pend') : Dict.get? rid (reqOpNext g p pend') = some o := by
  unfold reqOpNext
  simp only [ho]
  rw [get?_register]
  have : rid ∈ pend'.filter (fun rid => decide (rid.step = g.stepNo)) := by
    simp [List.mem_filter, hm, h]
  simp [this]

/-- Pending records only disappear, list objects below the current step and the operation table are
    untouched. -/
theorem pendInv_sub {st st' : St} {g : Ghost} {p : Plan} {pend' : List ReqId} {ops' : List (Nat × GOp)}
    (hinv : Inv st g) (hops : ops' = g.ops)
    (hsub : ∀ rid rec, Dict.get? rid st'.pending = some rec → Dict.get? rid st.pending = some rec)
    (hheap : ∀ c, c < st.stepNo → heapGet st'.heap c = heapGet st.heap c)
    (hstep : st'.stepNo = st.stepNo + 1) :
    PendInv st' ops' (reqOpNext g p pend') := by
  intro rid rec hr
  obtain ⟨h1, h2, h3, gop, h4, h5, h6, h7⟩ := hinv.pend rid rec (hsub rid rec hr)
  refine ⟨by omega, by omega, ?_, gop, ?_, h5, h6, ?_⟩
  · rw [reqOpNext_old (by rw [hinv.stepNo]; exact h1)]
    exact h3
  · simp only [hops]; exact h4
  · rw [hheap _ h2]; exact h7

/-- The last awaited provider answered: the operation is complete, the list object keeps its element. -/
theorem pendInv_done {st st' : St} {g : Ghost} {p : Plan} {pend' : List ReqId} {o : Nat} {gop : GOp} {x : Idp}
    (hinv : Inv st g) (hgop : Dict.get? o g.ops = some gop) (hL : heapGet st.heap o = [x])
    (hsub : ∀ rid rec, Dict.get? rid st'.pending = some rec → Dict.get? rid st.pending = some rec)
    (hheap : st'.heap = st.heap) (hstep : st'.stepNo = st.stepNo + 1) :
    PendInv st' (Dict.set o { gop with remaining := [] } g.ops) (reqOpNext g p pend') := by
  intro rid rec hr
  obtain ⟨h1, h2, h3, gop2, h4, h5, h6, h7⟩ := hinv.pend rid rec (hsub rid rec hr)
  refine ⟨by omega, by omega, ?_, ?_⟩
  · rw [reqOpNext_old (by rw [hinv.stepNo]; exact h1)]
    exact h3
  · simp only [hheap]
    by_cases hc : rec.cell = o
    · rw [hc, Dict.get?_set_self]
      rw [hc, hgop] at h4
      cases h4
      exact ⟨_, rfl, h5, h6, Or.inr ⟨rfl, x, hL⟩⟩
    · rw [Dict.get?_set_other hc]
      exact ⟨gop2, h4, h5, h6, h7⟩

/-- A `do_logout` pass over the list object `o` (now holding `es`) on top of the pending table `P0`. -/
theorem pendInv_loop {cfg : Cfg} {st st' : St} {g : Ghost} {p : Plan} {o : Nat} {s : Subj} {expire : Option Int}
    {es : List Idp} {P0 : List (ReqId × Rec)} {ls : LoopSt} {nd : List Idp} {gop' : GOp}
    (hinv : Inv st g) (ho : o ≤ st.stepNo) (hopId : p.opId = some o)
    (hP0 : ∀ rid rec, Dict.get? rid P0 = some rec → Dict.get? rid st.pending = some rec)
    (hpost : LoopPost cfg st.db st.now st.stepNo s o expire es ⟨P0, nd, []⟩ ls)
    (hpend : st'.pending = ls.pending) (hheap : st'.heap = Dict.set o es st.heap)
    (hstep : st'.stepNo = st.stepNo + 1)
    (hgop : gop'.remaining = es ∧ gop'.subj = s ∧ gop'.expire = expire)
    (hold : ∀ rid rec, Dict.get? rid P0 = some rec → rec.cell = o → rec.subj = s ∧ rec.expire = expire) :
    PendInv st' (Dict.set o gop' g.ops) (reqOpNext g p (Dict.keys st'.pending)) := by
  intro rid rec hr
  rw [hpend] at hr
  rcases hpost.new rid rec hr with hr0 | ⟨hs1, _, hrec⟩
  · -- a record that was there before
    obtain ⟨h1, h2, h3, gop2, h4, h5, h6, h7⟩ := hinv.pend rid rec (hP0 rid rec hr0)
    refine ⟨by omega, by omega, ?_, ?_⟩
    · rw [reqOpNext_old (by rw [hinv.stepNo]; exact h1)]
      exact h3
    · simp only [hheap]
      by_cases hc : rec.cell = o
      · obtain ⟨hs, he⟩ := hold rid rec hr0 hc
        rw [hc, Dict.get?_set_self, heapGet_set_self]
        exact ⟨gop', rfl, hgop.2.1.trans hs.symm, hgop.2.2.trans he.symm, Or.inl hgop.1⟩
      · rw [Dict.get?_set_other hc, heapGet_set_other _ _ hc]
        exact ⟨gop2, h4, h5, h6, h7⟩
  · -- a record written by this pass
    subst hrec
    refine ⟨by omega, by simp only; omega, ?_, ?_⟩
    · simp only
      apply reqOpNext_new hopId (by rw [hinv.stepNo]; exact hs1)
      rw [hpend]
      exact Dict.mem_keys_of_get? hr
    · simp only [hheap, Dict.get?_set_self, heapGet_set_self]
      exact ⟨gop', rfl, hgop.2.1, hgop.2.2, Or.inl hgop.1⟩


/-! ### assembling one step -/

/-- The statement proved for every operation: on the model's own step the specification finds nothing to
    object to, and the invariant carries over. -/
def StepOk (cfg : Cfg) (st : St) (g : Ghost) (op : Op) : Prop :=
  (specStep false cfg g (obsOf st) ⟨op, (step cfg st op).2, obsOf (step cfg st op).1⟩).1 = [] ∧
  Inv (step cfg st op).1 (specStep false cfg g (obsOf st) ⟨op, (step cfg st op).2, obsOf (step cfg st op).1⟩).2

/-- Clock after the step. -/
def nowAfter (st : St) : Op → Int
  | .advance dt => st.now + dt
  | _ => st.now

/-- `last` (request id of the last delivered response) after the step. -/
def lastAfter (st : St) : Op → Option ReqId
  | .resp sel _ => resolve (Dict.keys st.pending) st.last sel
  | _ => st.last

theorem step_assemble {cfg : Cfg} {st st' : St} {g : Ghost} {op : Op} {out : Out} (p : Plan) (hinv : Inv st g)
    (hstepEq : step cfg st op = (st', out))
    (hp : planOf false cfg g (obsOf st) op out = p)
    (hread : readOk g (readCheck op) op out = true)
    (hshape : DbShape st.db st'.db p op)
    (hends : ∀ s0, p.soi = some s0 → p.expect = .ends → s0 ∉ Dict.keys st'.db)
    (hrem : pendingRemovedOk p (obsOf st) (obsOf st') = true)
    (hadd : pendingAddedOk g p (obsOf st) (obsOf st') = true)
    (hgone : consumedGoneOk p (obsOf st') = true)
    (hsp : sentPendingOk out (obsOf st') = true)
    (hreq : requestOk cfg g p out = true)
    (hstat : statusOk op out (obsOf st') = true)
    (hnow : st'.now = nowAfter st op)
    (hlast : st'.last = lastAfter st op)
    (hstep : st'.stepNo = st.stepNo + 1)
    (hpend : PendInv st' p.ops (reqOpNext g p (Dict.keys st'.pending))) :
    StepOk cfg st g op := by
  unfold StepOk
  rw [hstepEq]
  simp only
  have hlive : LiveInv st'.db (liveNext g.live op st'.db) := live_of_shape hshape hinv.live
  have hinv' : Inv st' (ghostNext g p op (obsOf st) (obsOf st')) := by
    refine ⟨?_, ?_, ?_, ?_, ?_⟩
    · simp only [ghostNext, hnow, hinv.now, nowAfter]
      cases op <;> rfl
    · simp only [ghostNext, hstep, hinv.stepNo]
    · simp only [ghostNext, hlast, hinv.last, obsOf, lastAfter]
      cases op <;> rfl
    · exact hlive
    · exact hpend
  have hli : loggedInOk (ghostNext g p op (obsOf st) (obsOf st')) (obsOf st') = true :=
    loggedIn_of_live hinv'.now hinv'.live
  have hendsOk : endsOk p (obsOf st') = true := by
    unfold endsOk
    cases hs : p.soi with
    | none => rfl
    | some s0 =>
      simp only
      by_cases he : p.expect = .ends
      · simp only [he, if_true, obsOf]
        simp [hends s0 hs he]
      · simp [he]
  have hpres : presenceAllOk p (obsOf st) (obsOf st') = true := presence_of_shape rfl rfl hshape
  have hsrc : sourcesOk p op (obsOf st) (obsOf st') = true := sources_of_shape rfl rfl hshape
  refine ⟨?_, ?_⟩
  · simp only [specStep, hp, hread, hendsOk, hpres, hsrc, hrem, hadd, hgone, hsp, hreq, hstat, hli, flag, if_true,
      List.append_nil]
  · simp only [specStep, hp]
    exact hinv'

theorem removed_same {p : Plan} {o o' : Obs} (h : o'.pending = o.pending) : pendingRemovedOk p o o' = true := by
  unfold pendingRemovedOk
  rw [List.all_eq_true]
  intro rid hr
  simp [h, hr]

theorem added_same {g : Ghost} {p : Plan} {o o' : Obs} (h : o'.pending = o.pending) : pendingAddedOk g p o o' = true := by
  unfold pendingAddedOk
  rw [List.all_eq_true]
  intro rid hr
  rw [h] at hr
  simp [hr]

theorem gone_none {p : Plan} {o : Obs} (h : p.consumed = none) : consumedGoneOk p o = true := by
  unfold consumedGoneOk; rw [h]

theorem gone_of_not_mem {p : Plan} {st' : St} {rid : ReqId} (h : p.consumed = some rid)
    (hn : Dict.get? rid st'.pending = none) : consumedGoneOk p (obsOf st') = true := by
  unfold consumedGoneOk
  rw [h]
  have : ¬ rid ∈ (obsOf st').pending := (Dict.not_mem_keys_iff _ _).mpr hn
  simp [this]

theorem sentPending_nil {out : Out} {o : Obs} (h : emitted out = []) : sentPendingOk out o = true := by
  cases out <;> first | rfl | (simp only [emitted] at h; simp [sentPendingOk, h])

theorem request_nil {cfg : Cfg} {g : Ghost} {p : Plan} {out : Out} (h : emitted out = []) : requestOk cfg g p out = true := by
  unfold requestOk
  simp [h]

end Session
