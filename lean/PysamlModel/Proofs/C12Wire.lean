/-
  C12 helper lemmas, part 5: the wire (`ElementTree.tostring` + parser) commutes with serialisation —
  writing an instance and reading the tree back is serialising the instance the wire leaves of it.
-/
import PysamlModel.Proofs.C12Tree

set_option linter.unusedSimpArgs false
set_option linter.unusedVariables false

namespace ObjModel

def wireText (t : Option Str) : Option Str := normEmpty (t.map normCR)

mutual
def wireExt : ExtEl → ExtEl
  | .mk ns tag attrs kids text => .mk ns tag (attrs.filter fun p => !isNsDecl p.1) (wireExtList kids) (wireText text)
def wireExtList : List ExtEl → List ExtEl
  | [] => []
  | e :: r => wireExt e :: wireExtList r
end

/- what the wire leaves of an instance -/
mutual
def wireInst : Inst → Inst
  | .mk c as ss t ee ea => .mk c as (wireSlots ss) (wireText t) (wireExtList ee) (ea.filter fun p => !isNsDecl p.1)
def wireSlots : List (List Inst) → List (List Inst)
  | [] => []
  | s :: r => wireList s :: wireSlots r
def wireList : List Inst → List Inst
  | [] => []
  | k :: r => wireInst k :: wireList r
end

theorem wireList_eq_map (l : List Inst) : wireList l = l.map wireInst := by
  induction l with
  | nil => rfl
  | cons a r ih => simp [wireList, ih]

theorem wireSlots_eq_map (l : List (List Inst)) : wireSlots l = l.map wireList := by
  induction l with
  | nil => rfl
  | cons a r ih => simp [wireSlots, ih]

theorem wireExtList_eq_map (l : List ExtEl) : wireExtList l = l.map wireExt := by
  induction l with
  | nil => rfl
  | cons a r ih => simp [wireExtList, ih]

theorem wireInst_cls (i : Inst) : (wireInst i).cls = i.cls := by cases i; rfl

theorem wireExt_qname (e : ExtEl) : (wireExt e).qname = e.qname := by cases e; rfl

theorem normCR_nil : normCR [] = [] := by simp [normCR]

theorem wireText_eq (t : Option Str) : normEmpty ((normEmpty t).map normCR) = wireText t := by
  cases t with
  | none => rfl
  | some s =>
    cases s with
    | nil => simp [normEmpty, wireText, normCR_nil]
    | cons c r => simp [normEmpty, wireText]

theorem emitList_eq_map (l : List XNode) : emitList l = l.map emit := by
  induction l with
  | nil => rfl
  | cons a r ih => simp [emitList, ih]

theorem readList_eq_map (l : List XNode) : readList l = l.map read := by
  induction l with
  | nil => rfl
  | cons a r ih => simp [readList, ih]

theorem wire_mk (tag : QName) (attrs : Attrs) (text : Option Str) (kids : List XNode) :
    wire (.mk tag attrs text kids) = .mk tag (attrs.filter fun p => !isNsDecl p.1) (wireText text) (kids.map wire) := by
  simp only [wire, emit, read, wireText_eq, emitList_eq_map, readList_eq_map, List.map_map]
  rfl

mutual
theorem wire_ofExt : ∀ e : ExtEl, wire (ofExt e) = ofExt (wireExt e)
  | .mk ns tag attrs kids text => by
    simp only [ofExt, wire_mk, wireExt]
    rw [← wire_ofExtList kids]
theorem wire_ofExtList : ∀ l : List ExtEl, (ofExtList l).map wire = ofExtList (wireExtList l)
  | [] => rfl
  | e :: r => by simp [ofExtList, wireExtList, wire_ofExt e, wire_ofExtList r]
end

theorem orderedKids_map (cd : ClassDef) (ks : List (List XNode)) (f : XNode → XNode) :
    (orderedKids cd ks).map f = orderedKids cd (ks.map (·.map f)) := by
  simp only [orderedKids, List.map_flatMap]
  congr 1
  funext m
  cases idxOf (members cd) m with
  | none => rfl
  | some j =>
    simp only [List.getD, List.getElem?_map]
    cases ks[j]? <;> rfl

theorem declaredAttrs_filter_self (ds : List AttrDecl) (as : List (Option Str))
    (h : ∀ a ∈ ds, isNsDecl a.name = false) :
    (declaredAttrs ds as).filter (fun p => !isNsDecl p.1) = declaredAttrs ds as := by
  apply List.filter_eq_self.mpr
  intro p hp
  have := keys_declaredAttrs_sub ds as p.1 (List.mem_map.mpr ⟨p, hp, rfl⟩)
  obtain ⟨a, ha, hn⟩ := List.mem_map.mp this
  simp [← hn, h a ha]

/-- writing and reading back = serialising what the wire leaves of the instance -/
theorem wire_serialise (T : Nat → ClassDef) (hT : ∀ c, ∀ a ∈ (T c).attrs, isNsDecl a.name = false) :
    ∀ i, wire (serialise T i) = serialise T (wireInst i) := by
  intro i
  induction i using Inst.induct with
  | h c as ss t ee ea ih =>
    simp only [serialise, wireInst, wire_mk]
    have hattrs : (dictSetAll (dictSetAll [] (declaredAttrs (T c).attrs as)) ea).filter (fun p => !isNsDecl p.1) =
        dictSetAll (dictSetAll [] (declaredAttrs (T c).attrs as)) (ea.filter fun p => !isNsDecl p.1) := by
      rw [filter_dictSetAll (fun n => !isNsDecl n), filter_dictSetAll (fun n => !isNsDecl n)]
      rw [declaredAttrs_filter_self _ _ (hT c)]
      rfl
    have hkids : (serSlots T ss).map (·.map wire) = serSlots T (wireSlots ss) := by
      rw [serSlots_eq_map, serSlots_eq_map, wireSlots_eq_map, List.map_map, List.map_map]
      apply List.map_congr_left
      intro s hs
      simp only [Function.comp, serList_eq_map, wireList_eq_map, List.map_map]
      apply List.map_congr_left
      intro k hk
      exact ih s hs k hk
    rw [hattrs, List.map_append, orderedKids_map, hkids, wire_ofExtList]

/-! ### well-formedness survives the wire -/

theorem keysOf_filter_nodup {d : Attrs} (q : Name × Str → Bool) (h : (keysOf d).Nodup) : (keysOf (d.filter q)).Nodup := by
  simp only [keysOf] at h ⊢
  exact List.Nodup.sublist (List.Sublist.map _ List.filter_sublist) h

mutual
theorem extWf_wireExt : ∀ e : ExtEl, extWf e = true → extWf (wireExt e) = true
  | .mk ns tag attrs kids text => by
    simp only [extWf, wireExt, Bool.and_eq_true, nodupKeys]
    intro h
    exact ⟨nodupNat_iff.mpr (keysOf_filter_nodup _ (nodupNat_iff.mp h.1)), extWfList_wireExtList kids h.2⟩
theorem extWfList_wireExtList : ∀ l : List ExtEl, extWfList l = true → extWfList (wireExtList l) = true
  | [] => fun _ => rfl
  | e :: r => by
    simp only [extWfList, wireExtList, Bool.and_eq_true]
    intro h
    exact ⟨extWf_wireExt e h.1, extWfList_wireExtList r h.2⟩
end

theorem slotsOk_map (strict : Bool) (T : Nat → ClassDef) (f : Inst → Inst) (hf : ∀ k, (f k).cls = k.cls)
    (ds : List ChildDecl) (ss : List (List Inst))
    (ih : ∀ s ∈ ss, ∀ k ∈ s, instOk strict T k = true → instOk strict T (f k) = true)
    (h : slotsOk strict T ds ss = true) : slotsOk strict T ds (ss.map (·.map f)) = true := by
  induction ds generalizing ss with
  | nil =>
    cases ss with
    | nil => simp [slotsOk]
    | cons _ _ => simp [slotsOk] at h
  | cons d r ihd =>
    cases ss with
    | nil => simp [slotsOk] at h
    | cons s ss' =>
      simp only [slotsOk, Bool.and_eq_true, Bool.or_eq_true, decide_eq_true_eq] at h
      obtain ⟨⟨h1, h2⟩, h3⟩ := h
      simp only [List.map_cons, slotsOk, Bool.and_eq_true, Bool.or_eq_true, decide_eq_true_eq, List.length_map]
      refine ⟨⟨h1, ?_⟩, ihd ss' (fun s' hs' => ih s' (List.mem_cons_of_mem _ hs')) h3⟩
      rw [kidsOk_spec] at h2 ⊢
      intro k hk
      obtain ⟨k0, hk0, rfl⟩ := List.mem_map.mp hk
      obtain ⟨hc, hw⟩ := h2 k0 hk0
      exact ⟨by rw [hf]; exact hc, ih s (by simp) k0 hk0 hw⟩

theorem instOk_wireInst (strict : Bool) (T : Nat → ClassDef) :
    ∀ i, instOk strict T i = true → instOk strict T (wireInst i) = true := by
  intro i
  induction i using Inst.induct with
  | h c as ss t ee ea ih =>
    intro hwf
    simp only [instOk, Bool.and_eq_true] at hwf
    obtain ⟨⟨⟨⟨⟨⟨hal, hslots⟩, hee⟩, hewf⟩, heand⟩, heaf⟩, hdef⟩ := hwf
    simp only [wireInst, instOk, Bool.and_eq_true]
    refine ⟨⟨⟨⟨⟨⟨hal, ?_⟩, ?_⟩, extWfList_wireExtList ee hewf⟩, ?_⟩, ?_⟩, hdef⟩
    · rw [wireSlots_eq_map]
      have : (ss.map wireList) = ss.map (·.map wireInst) := by
        apply List.map_congr_left; intro s _; exact wireList_eq_map s
      rw [this]
      exact slotsOk_map strict T wireInst wireInst_cls _ ss ih hslots
    · rw [wireExtList_eq_map]
      simp only [List.all_eq_true, List.mem_map] at hee ⊢
      rintro _ ⟨e, he, rfl⟩
      rw [wireExt_qname]; exact hee e he
    · exact nodupNat_iff.mpr (keysOf_filter_nodup _ (nodupNat_iff.mp heand))
    · simp only [List.all_eq_true] at heaf ⊢
      intro p hp
      exact heaf p (List.mem_filter.mp hp).1

end ObjModel
