/-
  C18 — helper lemmas: every in-scope step of the model satisfies the per-step specification and
  keeps the invariant.
-/
import PysamlModel.Proofs.C18Ops

namespace Ident
set_option linter.unusedSimpArgs false

/-! ### frame -/

def frameT (users : List Str) (P Q : DB) (tt : Option Str) : Bool :=
  users.all fun u => (held Q u).filter (untouched tt) == (held P u).filter (untouched tt)

theorem frameOk_eq (users : List Str) (P Q : DB) (op : Op) (res : Res) :
    frameOk users P Q op res = frameT users P Q (touched op res) := rfl

theorem frameT_of {users : List Str} {P Q : DB} {tt : Option Str}
    (h : ∀ u ∈ users, (held Q u).filter (untouched tt) = (held P u).filter (untouched tt)) :
    frameT users P Q tt = true := by
  unfold frameT
  simp only [List.all_eq_true, beq_iff_eq]
  exact h

theorem frameT_same (users : List Str) (P : DB) (tt : Option Str) : frameT users P P tt = true :=
  frameT_of (fun _ _ => rfl)

theorem untouched_self {m : NameId} {t : Str} (h : m.text = some t) : untouched (some t) m = false := by
  simp [untouched, h]

theorem Issued.frame {K : Consts} {users : List Str} {P Q : DB} {u : Str} {n : NameId}
    (i : Issued K users P u n Q) : frameT users P Q n.text = true := by
  cases i with
  | existing hQ _ => rw [hQ]; exact frameT_same ..
  | created t c =>
    apply frameT_of
    intro u' hu'
    by_cases h : u' = u
    · subst h
      rw [c.heldU, List.filter_append, c.text]
      have : untouched (some t) n.norm = false := untouched_self (norm_text_some c.text c.ne)
      simp [this]
    · rw [c.other u' hu' h]

theorem Removed.frame {K : Consts} {users : List Str} {P Q : DB} {n : NameId} {t id : Str}
    (r : Removed K users P n t Q id) (ht : n.text = some t) (hne : t ≠ []) : frameT users P Q (some t) = true := by
  apply frameT_of
  intro u' hu'
  by_cases h : u' = id
  · subst h
    rw [r.heldId, filter_erase_of_not _ _ (untouched_self (norm_text_some ht hne))]
  · rw [r.other u' hu' h]

theorem Managed.frame {K : Consts} {users : List Str} {P Q : DB} {n r : NameId} {t id : Str}
    (m : Managed K users P n r t Q id) (ht : n.text = some t) (hne : t ≠ []) : frameT users P Q (some t) = true := by
  apply frameT_of
  intro u' hu'
  by_cases h : u' = id
  · subst h
    rw [m.heldId, List.filter_append, filter_erase_of_not _ _ (untouched_self (norm_text_some ht hne))]
    simp [untouched_self m.rtext]
  · rw [m.other u' hu' h]

/-! ### statement store -/

theorem lookup_filter_ne {β : Type} (l : List (Str × β)) (k k' : Str) :
    List.lookup k' (l.filter (fun e => e.1 ≠ k)) = if k' = k then none else List.lookup k' l := by
  induction l with
  | nil => simp
  | cons e l ih =>
    obtain ⟨a, b⟩ := e
    by_cases hak : a = k
    · subst hak
      simp only [ne_eq, not_true_eq_false, decide_false, Bool.false_eq_true, not_false_eq_true,
        List.filter_cons_of_neg, ih, List.lookup_cons]
      by_cases h : k' = a
      · simp [h]
      · have : (k' == a) = false := by simpa using h
        simp [h, this]
    · have hd : decide (a ≠ k) = true := by simpa using hak
      rw [List.filter_cons_of_pos (by simpa using hak), List.lookup_cons, List.lookup_cons, ih]
      by_cases h : k' = a
      · subst h; simp [hak]
      · have : (k' == a) = false := by simpa using h
        simp [this]

theorem Sdb.count_remove (s : Sdb) (k k' : Str) : (s.remove k).count k' = if k' = k then none else s.count k' :=
  lookup_filter_ne s k k'

theorem Sdb.count_add (s : Sdb) (k k' : Str) :
    ((s.add k).count k').getD 0 = (s.count k').getD 0 + (if k' = k then 1 else 0) := by
  unfold Sdb.add
  cases hc : s.count k with
  | none =>
    simp only [Sdb.count, List.lookup_cons]
    by_cases h : k' = k
    · subst h
      have : List.lookup k' s = none := hc
      simp [this]
    · have : (k' == k) = false := by simpa using h
      simp [this, h]
  | some c =>
    simp only [Sdb.count, List.lookup_cons]
    by_cases h : k' = k
    · subst h
      have : List.lookup k' s = some c := hc
      simp [this]
    · have : (k' == k) = false := by simpa using h
      simp only [this, h, if_false, Nat.add_zero]
      rw [lookup_filter_ne, if_neg h]

theorem code_eq_iff (a b : NameId) : code a = code b ↔ a.norm = b.norm :=
  ⟨code_injective, fun h => by rw [← code_norm a, ← code_norm b, h]⟩

theorem cnt_foldl_remove (ns : List NameId) (s : Sdb) (w : NameId) (h : ∀ n ∈ ns, code n ≠ code w) :
    cnt (ns.foldl (fun s n => s.remove (code n)) s) w = cnt s w := by
  induction ns generalizing s with
  | nil => rfl
  | cons n ns ih =>
    rw [List.foldl_cons, ih _ (fun m hm => h m (List.mem_cons_of_mem _ hm))]
    unfold cnt
    rw [Sdb.count_remove, if_neg (fun e => h n (List.mem_cons_self ..) e.symm)]

/-! ### scope -/

theorem stOk_unpack {K : Consts} {cfg : Cfg} {P : DB} {op : Op} (h : stOk K cfg P op = true)
    (he : effFmt K op = some K.email) : ∀ c ∈ opCands op, P.get (c ++ 64 :: cfg.domain) = none := by
  unfold stOk at h
  simp only [he, bne_self_eq_false, Bool.false_or, List.all_eq_true, Bool.not_eq_true'] at h
  intro c hc
  have := h c hc
  rw [DB.has_eq] at this
  cases hg : P.get (c ++ 64 :: cfg.domain) with
  | none => rfl
  | some _ => simp [hg] at this

theorem mem_users {users : List Str} {u : Str} (h : users.contains u = true) : u ∈ users := by
  simpa using h

/-! ### NameIDMapping -/

theorem mappingRequest_outcome {K : Consts} {cfg : Cfg} {users : List Str} {P : DB} (inv : Inv K users P)
    {n0 : NameId} {t0 : Str} (ht : n0.text = some t0) (htu : t0 ∉ users) {pol : Policy} (hpf : truthy pol.fmt = true)
    {cands : List Str} (hc : candsOk users cfg cands = true)
    (hem : pol.fmt = some K.email → ∀ c ∈ cands, P.get (c ++ 64 :: cfg.domain) = none)
    {n : NameId} {Q : DB} (h : mappingRequest K cfg P n0 pol cands = .ok (n, Q)) :
    ∃ id, id ∈ users ∧ P.get t0 = some id ∧ Issued K users P id n Q ∧
      normF n.spq = normF pol.spq ∧ normF n.fmt = normF pol.fmt := by
  unfold mappingRequest at h
  have hfl : findLocalId P n0 = P.get t0 := by simp [findLocalId, ht]
  rw [hfl] at h
  cases hg : P.get t0 with
  | none => simp [hg] at h
  | some id =>
    have hid : id ∈ users := inv.rev t0 id hg htu
    rw [hg] at h
    cases id with
    | nil => simp at h
    | cons c cs =>
      simp only at h
      cases hp : pieces P (c :: cs) with
      | none => simp [hp] at h
      | some vals =>
        have hup : userPieces P (c :: cs) = vals := by simp [userPieces, hp]
        have hgood := inv.good _ hid
        rw [hup] at hgood
        obtain ⟨r, hr, hmem⟩ := mapLoop_good pol hpf vals hgood
        simp only [hp, hr] at h
        cases r with
        | some nid =>
          simp only [Except.ok.injEq, Prod.mk.injEq] at h
          obtain ⟨rfl, rfl⟩ := h
          obtain ⟨hm1, hm2, hm3⟩ := hmem _ rfl
          exact ⟨_, hid, rfl, .existing rfl (by rw [held_eq, hup]; exact hm1), by rw [hm3], by rw [hm2]⟩
        | none =>
          simp only at h
          by_cases hac : pol.allowCreate = some [102, 97, 108, 115, 101]
          · simp [hac] at h
          · simp only [hac, if_false] at h
            have hem' : ∀ fmt, constructFmt none (some pol) = some fmt → fmt = K.email →
                ∀ c ∈ cands, P.get (c ++ 64 :: cfg.domain) = none := by
              intro fmt hcf he
              apply hem
              simp only [constructFmt, hpf, if_true] at hcf
              rw [hcf, he]
            obtain ⟨hq1, hq2⟩ := constructNameid_quals inv hid hc hem' h
            refine ⟨_, hid, rfl, constructNameid_issued inv hid hc hem' h, ?_, ?_⟩
            · rw [hq2]
              unfold constructSpq
              by_cases hs : truthy pol.spq = true
              · simp [hs]
              · have hs' : truthy pol.spq = false := by simpa using hs
                simp [hs', normF]
            · rw [hq1]; simp [constructFmt, hpf]

/-! ### the results of the look-ups -/

theorem findLocalId_res {K : Consts} {users : List Str} {P : DB} (inv : Inv K users P) (n : NameId) :
    ((users.all fun u => (held P u).all fun m => m.text != n.text || findLocalId P n == some u) &&
      ((n.text.bind P.get).isSome || findLocalId P n == none)) = true := by
  simp only [Bool.and_eq_true, List.all_eq_true, Bool.or_eq_true, bne_iff_ne, ne_eq, beq_iff_eq]
  refine ⟨?_, ?_⟩
  · intro u hu m hm
    by_cases h : m.text = n.text
    · right
      obtain ⟨t, h1, _, h3⟩ := inv.owner u hu m hm
      unfold findLocalId
      rw [← h, h1]; simpa using h3
    · left; exact h
  · unfold findLocalId
    cases n.text.bind P.get <;> simp

theorem findNameid_res {K : Consts} {users : List Str} {P : DB} (inv : Inv K users P) {u : Str} (hu : u ∈ users)
    (flt : List (Nat × Option Str)) :
    ∃ l, findNameid P u flt = .ok l ∧
      ((l.all fun m => m.text.isNone || ((held P u).contains m && fltOk flt m)) &&
       ((held P u).all fun m => !fltOk flt m || l.contains m)) = true := by
  unfold findNameid
  cases hp : pieces P u with
  | none =>
    refine ⟨[], rfl, ?_⟩
    simp [held, userPieces, hp]
  | some vals =>
    have hup : userPieces P u = vals := by simp [userPieces, hp]
    have hgood := inv.good _ hu
    rw [hup] at hgood
    obtain ⟨ds, hd, h1, h2⟩ := decodeAll_good vals hgood
    refine ⟨ds.filter (fun n => flt.all (fun kv => getField n kv.1 == kv.2)), by simp [hd, Except.map], ?_⟩
    have hh : held P u = heldOf vals := by rw [held_eq, hup]
    simp only [Bool.and_eq_true, List.all_eq_true, Bool.or_eq_true, List.contains_iff_mem, List.mem_filter,
      Bool.not_eq_true', Option.isNone_iff_eq_none]
    refine ⟨?_, ?_⟩
    · intro m ⟨hm, hf⟩
      rcases h2 m hm with h | h
      · right; exact ⟨by rw [hh]; exact h, by unfold fltOk; simpa using hf⟩
      · left; rw [h]
    · intro m hm
      by_cases hf : fltOk flt m = true
      · right; exact ⟨h1 m (by rw [← hh]; exact hm), by unfold fltOk at hf; simpa using hf⟩
      · left; simpa using hf

/-! ### one step -/

theorem specStep_of {K : Consts} {users : List Str} {watch : List NameId} {P Q : State} {op : Op} {res : Res}
    (invQ : Inv K users Q.db) (hf : frameT users P.db Q.db (touched op res) = true)
    (hr : resOk K users P.db Q.db op res = true) (hs : sdbOk watch P Q op res = true) :
    specStep K users watch P op res Q = true := by
  unfold specStep
  rw [invQ.revOk, invQ.distinctOk, invQ.uniqueRegOk, frameOk_eq, hf, hr, hs]; rfl

theorem sdb_default (watch : List NameId) {P Q : State} (h : Q.sdb = P.sdb) :
    (watch.all fun w => cnt Q.sdb w == cnt P.sdb w) = true := by
  simp [h]

theorem refused_spec {K : Consts} {users : List Str} (watch : List NameId) {P : State} (inv : Inv K users P.db)
    (op : Op) (e : Err) : specStep K users watch P op (.refused e) P = true := by
  apply specStep_of inv (frameT_same ..)
  · cases op <;> rfl
  · cases op <;> simp [sdbOk]

theorem isFresh_of {K : Consts} {users : List Str} {P : DB} (inv : Inv K users P) {t : Str} (h : P.get t = none) :
    isFresh users P t = true := by
  unfold isFresh
  rw [inv.not_heldText h, DB.has_eq, h]; rfl

theorem regText_created {K : Consts} (hK : ConstsOk K) {users : List Str} {P Q : DB} {u : Str} {n : NameId} {t : Str}
    (c : Created K users P u n Q t) (hf : n.fmt = some K.persistent)
    (hnone : regIn K (held P u) n.spq n.nq = none) : regText K Q u n.spq n.nq = some t := by
  unfold regText regTextIn regIn at *
  rw [c.heldU, List.find?_append, hnone]
  have hreg : isReg K n.spq n.nq n.norm = true := by
    have hT : truthy (some K.persistent) = true := by
      cases hp : K.persistent with
      | nil => exact absurd hp hK.1
      | cons _ _ => rfl
    have h1 : n.norm.fmt = some K.persistent := by simp [NameId.norm, hf, normF, hT]
    have h2 : sameQual n.norm n.spq n.nq = true := by
      simp only [sameQual, NameId.norm, normF_normF, beq_self_eq_true, Bool.and_self]
    simp [isReg, h1, h2]
  simp [List.find?_cons, hreg, norm_text_some c.text c.ne]

theorem Issued.answered {K : Consts} {users : List Str} {P Q : DB} {u : Str} {n : NameId}
    (i : Issued K users P u n Q) (inv : Inv K users P) (hu : u ∈ users) : answered Q (some u) n = true := by
  unfold Ident.answered
  rw [i.owned inv hu]
  simp only [Bool.true_and, List.contains_iff_mem]
  cases i with
  | existing hQ hm =>
    have hn : n.norm = n := by
      rw [held_eq] at hm
      exact ((mem_heldOf_good (inv.good u hu)).mp hm).2.1
    rw [hQ, hn]; exact hm
  | created t c => rw [c.heldU]; simp

theorem issuedStep {K : Consts} {users : List Str} (watch : List NameId) {P : State} (inv : Inv K users P.db)
    {op : Op} {u : Str} (hu : u ∈ users) {n : NameId} {Q : DB} (i : Issued K users P.db u n Q)
    (ht : touched op (.nid n) = n.text)
    (hr : answered Q (some u) n = true → resOk K users P.db Q op (.nid n) = true)
    (hs : sdbOk watch P { P with db := Q } op (.nid n) = true) :
    specStep K users watch P op (.nid n) { P with db := Q } = true ∧ Inv K users Q :=
  ⟨specStep_of (i.inv inv) (by rw [ht]; exact i.frame) (hr (i.answered inv hu)) hs, i.inv inv⟩

theorem step_spec {K : Consts} (hK : ConstsOk K) {cfg : Cfg} {users : List Str} (watch : List NameId) {P : State}
    (inv : Inv K users P.db) (op : Op) (hop : opOk users cfg op = true) (hst : stOk K cfg P.db op = true) :
    specStep K users watch P op (step K cfg P op).1 (step K cfg P op).2 = true ∧
      Inv K users (step K cfg P op).2.db := by
  cases op with
  | persistent u spq nq cands =>
    simp only [opOk, Bool.and_eq_true] at hop
    have hu := mem_users hop.1
    have hem : K.persistent = K.email → ∀ c ∈ cands, P.db.get (c ++ 64 :: cfg.domain) = none :=
      fun e => stOk_unpack hst (by simp [effFmt, e])
    simp only [step]
    cases hres : persistentNameid K cfg P.db u spq nq cands with
    | error e => exact ⟨refused_spec watch inv _ e, inv⟩
    | ok r =>
      obtain ⟨n, Q⟩ := r
      simp only [liftNid]
      rcases persistentNameid_issued inv hu hop.2 hem hres with ⟨hreg, rfl⟩ | ⟨hnone, hf, hs, hq, _, t, c⟩
      · obtain ⟨hm, hpf, hsq⟩ := regIn_mem hreg
        refine issuedStep watch inv hu (.existing rfl hm) rfl ?_ (by simp [sdbOk])
        intro hown
        obtain ⟨t, h1, _, _⟩ := inv.owner u hu n hm
        simp [resOk, hown, hsq, regText, regTextIn, hreg, h1, hpf]
      · refine issuedStep watch inv hu (.created t c) rfl ?_ (by simp [sdbOk])
        intro hown
        subst hs; subst hq
        have h1 := regText_created hK c hf hnone
        have h2 : regText K P.db u n.spq n.nq = none := by simp [regText, regTextIn, hnone]
        simp [resOk, hown, sameQual_self, h1, h2, c.text, isFresh_of inv c.fresh, hf]
  | transient u spq nq cands =>
    simp only [opOk, Bool.and_eq_true] at hop
    have hu := mem_users hop.1
    have hem : K.transient = K.email → ∀ c ∈ cands, P.db.get (c ++ 64 :: cfg.domain) = none :=
      fun e => stOk_unpack hst (by simp [effFmt, e])
    simp only [step]
    cases hres : getNameid K cfg P.db u K.transient spq nq cands with
    | error e => exact ⟨refused_spec watch inv _ e, inv⟩
    | ok r =>
      obtain ⟨n, Q⟩ := r
      simp only [liftNid]
      obtain ⟨hq1, hq2⟩ := getNameid_quals inv hu hop.2 hem hres
      rcases getNameid_issued inv hu hop.2 hem hres with ⟨hf, _, _⟩ | ⟨_, _, _, _, _, t, c⟩
      · exact absurd hf.symm hK.2
      · refine issuedStep watch inv hu (.created t c) rfl ?_ (by simp [sdbOk])
        intro hown
        simp [resOk, hown, c.text, isFresh_of inv c.fresh, hq1, hq2]
  | getNameid u fmt spq nq cands =>
    simp only [opOk, Bool.and_eq_true] at hop
    have hu := mem_users hop.1
    have hem : fmt = K.email → ∀ c ∈ cands, P.db.get (c ++ 64 :: cfg.domain) = none :=
      fun e => stOk_unpack hst (by simp [effFmt, e])
    simp only [step]
    cases hres : getNameid K cfg P.db u fmt spq nq cands with
    | error e => exact ⟨refused_spec watch inv _ e, inv⟩
    | ok r =>
      obtain ⟨n, Q⟩ := r
      simp only [liftNid]
      obtain ⟨hq1, hq2⟩ := getNameid_quals inv hu hop.2 hem hres
      exact issuedStep watch inv hu (getNameid_issued' inv hu hop.2 hem hres) rfl
        (fun hown => by simp [resOk, hown, hq1, hq2]) (by simp [sdbOk])
  | construct u lf spq pol nq cands =>
    simp only [opOk, Bool.and_eq_true] at hop
    have hu := mem_users hop.1
    have hem : ∀ fmt, constructFmt lf pol = some fmt → fmt = K.email →
        ∀ c ∈ cands, P.db.get (c ++ 64 :: cfg.domain) = none :=
      fun fmt h1 e => stOk_unpack hst (by simp [effFmt, h1, e])
    simp only [step]
    cases hres : constructNameid K cfg P.db u lf spq pol nq cands with
    | error e => exact ⟨refused_spec watch inv _ e, inv⟩
    | ok r =>
      obtain ⟨n, Q⟩ := r
      simp only [liftNid]
      obtain ⟨hq1, hq2⟩ := constructNameid_quals inv hu hop.2 hem hres
      exact issuedStep watch inv hu (constructNameid_issued inv hu hop.2 hem hres) rfl
        (fun hown => by simp [resOk, hown, hq1, hq2]) (by simp [sdbOk])
  | findNameid u flt =>
    simp only [opOk] at hop
    have hu := mem_users hop
    obtain ⟨l, hl, hres⟩ := findNameid_res inv hu flt
    simp only [step, hl]
    exact ⟨specStep_of inv (frameT_same ..) (by simpa [resOk] using hres) (by simp [sdbOk]), inv⟩
  | findLocalId n =>
    simp only [step]
    refine ⟨specStep_of inv (frameT_same ..) ?_ (by simp [sdbOk]), inv⟩
    simpa [resOk] using findLocalId_res inv n
  | mapping n0 pol cands =>
    simp only [opOk, Bool.and_eq_true] at hop
    obtain ⟨t0, ht0, _, htu⟩ := textOk_unpack hop.1.1
    have hem : pol.fmt = some K.email → ∀ c ∈ cands, P.db.get (c ++ 64 :: cfg.domain) = none :=
      fun e => stOk_unpack hst (by simp [effFmt, e])
    simp only [step]
    cases hres : mappingRequest K cfg P.db n0 pol cands with
    | error e => exact ⟨refused_spec watch inv _ e, inv⟩
    | ok r =>
      obtain ⟨n, Q⟩ := r
      simp only [liftNid]
      obtain ⟨id, hid, hg, i, hq1, hq2⟩ := mappingRequest_outcome inv ht0 htu hop.1.2 hop.2 hem hres
      exact issuedStep watch inv hid i rfl
        (fun hown => by simpa [resOk, ht0, hg, hq1, hq2] using hown) (by simp [sdbOk])
  | manage n m =>
    simp only [opOk] at hop
    obtain ⟨t, ht, hne, htu⟩ := textOk_unpack hop
    simp only [step]
    cases hres : manageRequest P.db n m with
    | error e => exact ⟨refused_spec watch inv _ e, inv⟩
    | ok r =>
      obtain ⟨n', Q⟩ := r
      simp only [liftNid]
      by_cases hm : m = .noop
      · subst hm
        simp only [manageRequest, if_true, Except.ok.injEq, Prod.mk.injEq] at hres
        obtain ⟨rfl, rfl⟩ := hres
        exact ⟨specStep_of inv (frameT_same ..) (by simp [resOk]) (by simp [sdbOk]), inv⟩
      · obtain ⟨htext, id, M⟩ := manageRequest_outcome inv ht hne htu hm hres
        refine ⟨specStep_of M.inv (by simpa [touched, ht] using M.frame ht hne) ?_ (by simp [sdbOk]), M.inv⟩
        have : n'.norm ∈ held Q id := by rw [M.heldId]; simp
        simp [resOk, htext, ht, M.owner, this]
  | removeRemote n =>
    simp only [opOk] at hop
    obtain ⟨t, ht, hne, htu⟩ := textOk_unpack hop
    simp only [step]
    cases hres : removeRemote P.db n with
    | error e => exact ⟨refused_spec watch inv _ e, inv⟩
    | ok Q =>
      simp only
      obtain ⟨id, R⟩ := removeRemote_outcome inv ht hne htu hres
      refine ⟨specStep_of R.inv (by simpa [touched, ht] using R.frame ht hne) ?_ (by simp [sdbOk]), R.inv⟩
      have hnot : t ∉ heldTexts users Q := by
        have := R.inv.not_heldText R.gone
        intro hmem
        rw [List.contains_iff_mem.mpr hmem] at this
        cases this
      simp [resOk, ht, DB.has_eq, R.gone, hnot]
  | removeLocal u =>
    simp only [step]
    exact ⟨specStep_of inv (frameT_same ..) rfl (by simp [sdbOk]), inv⟩
  | storeAuthn m =>
    simp only [step]
    refine ⟨specStep_of inv (frameT_same ..) rfl ?_, inv⟩
    simp only [sdbOk, List.all_eq_true, beq_iff_eq]
    intro w _
    unfold cnt
    rw [Sdb.count_add]
    by_cases h : w.norm = m.norm
    · have : code w = code m := (code_eq_iff w m).mpr h
      simp [h, this]
    · have : code w ≠ code m := fun e => h ((code_eq_iff w m).mp e)
      simp [h, this]
  | authnCount m =>
    simp only [step]
    exact ⟨specStep_of inv (frameT_same ..) rfl (by simp [sdbOk, cnt]), inv⟩
  | cleanOut n =>
    simp only [opOk] at hop
    obtain ⟨t, ht, _, htu⟩ := textOk_unpack hop
    simp only [step]
    cases hres : cleanOut P.db P.sdb n with
    | error e => exact ⟨refused_spec watch inv _ e, inv⟩
    | ok r =>
      obtain ⟨lid, s'⟩ := r
      simp only
      refine ⟨specStep_of inv (frameT_same ..) rfl ?_, inv⟩
      unfold cleanOut at hres
      have hfl : findLocalId P.db n = P.db.get t := by simp [findLocalId, ht]
      rw [hfl] at hres
      simp only [sdbOk, ht, Option.bind_some, Bool.and_eq_true, beq_iff_eq, List.all_eq_true, Bool.or_eq_true,
        Bool.not_eq_true']
      cases hb : (P.db.get t).bind (pieces P.db) with
      | none =>
        simp only [hb, Except.ok.injEq, Prod.mk.injEq] at hres
        obtain ⟨rfl, rfl⟩ := hres
        exact ⟨rfl, fun w _ => Or.inr rfl⟩
      | some vals =>
        obtain ⟨id, hg, hp⟩ := Option.bind_eq_some_iff.mp hb
        have hid : id ∈ users := inv.rev t id hg htu
        have hup : userPieces P.db id = vals := by simp [userPieces, hp]
        have hgood := inv.good _ hid
        rw [hup] at hgood
        obtain ⟨ds, hd, _, h2⟩ := decodeAll_good vals hgood
        simp only [hb, hd, Except.ok.injEq, Prod.mk.injEq] at hres
        obtain ⟨rfl, rfl⟩ := hres
        refine ⟨rfl, ?_⟩
        intro w _
        by_cases hwT : truthy w.text = true
        · by_cases hwh : w.norm ∈ held P.db id
          · left; right
            simp [hg, List.contains_iff_mem, hwh]
          · right
            apply cnt_foldl_remove
            intro m hm e
            rcases h2 m hm with h | h
            · have hmn : m.norm = m := ((mem_heldOf_good hgood).mp h).2.1
              have := code_injective e
              rw [hmn] at this
              apply hwh
              rw [held_eq, hup, ← this]; exact h
            · subst h
              exact code_ne_nil w hwT (by rw [← e]; rfl)
        · left; left; simpa using hwT

end Ident
