/-
  C12 helper lemmas, part 8: the second serialisation.
-/
import PysamlModel.Proofs.C12Round

set_option linter.unusedSimpArgs false
set_option linter.unusedVariables false

namespace ObjModel

theorem normEmpty_idem (t : Option Str) : normEmpty (normEmpty t) = normEmpty t := by
  cases t with
  | none => rfl
  | some s => cases s <;> rfl

theorem emit_mk (tag : QName) (attrs : Attrs) (text : Option Str) (kids : List XNode) :
    emit (.mk tag attrs text kids) = .mk tag attrs (normEmpty text) (kids.map emit) := by
  simp only [emit, emitList_eq_map]

mutual
theorem emit_ofExt_norm : ∀ e : ExtEl, emit (ofExt (normExt e)) = emit (ofExt e)
  | .mk ns tag attrs kids text => by
    simp only [normExt, ofExt, emit_mk, normEmpty_idem]
    rw [emit_ofExtList_norm kids]
theorem emit_ofExtList_norm : ∀ l : List ExtEl, (ofExtList (normExtList l)).map emit = (ofExtList l).map emit
  | [] => rfl
  | e :: r => by simp [ofExtList, normExtList, emit_ofExt_norm e, emit_ofExtList_norm r]
end

/-- an instance and its normal form (empty text = no text) are written identically -/
theorem emit_serialise_norm (T : Nat → ClassDef) : ∀ i, emit (serialise T (normInst i)) = emit (serialise T i) := by
  intro i
  induction i using Inst.induct with
  | h c as ss t ee ea ih =>
    simp only [normInst, serialise, emit_mk, normEmpty_idem]
    have hkids : (serSlots T (normSlots ss)).map (·.map emit) = (serSlots T ss).map (·.map emit) := by
      rw [serSlots_eq_map, serSlots_eq_map, normSlots_eq_map, List.map_map, List.map_map, List.map_map]
      apply List.map_congr_left
      intro s hs
      simp only [Function.comp, serList_eq_map, normList_eq_map, List.map_map]
      apply List.map_congr_left
      intro k hk
      exact ih s hs k hk
    rw [List.map_append, List.map_append, orderedKids_map, orderedKids_map, hkids, emit_ofExtList_norm]

theorem wire_tag (x : XNode) : (wire x).tag = x.tag := by
  cases x; simp [wire_mk, XNode.tag]

/-- "children in schema order": what `_add_members_to_element_tree` writes -/
theorem serialise_kid_tags (T : Nat → ClassDef) (hT : TableWf T) (i : Inst) (hwf : treeWf T i = true) :
    (wire (serialise T i)).kids.map (·.tag) = expectedOrder T i := by
  cases i with
  | mk c as ss t ee ea =>
    obtain ⟨hcd, hsound⟩ := hT c
    obtain ⟨hslots, _⟩ := instOk_parts hwf
    obtain ⟨hlen, hsl⟩ := slotsOk_spec true T _ ss hslots
    simp only [serialise, wire_mk, XNode.kids, expectedOrder, List.map_map, List.map_append]
    have hfun : ((fun x => x.tag) ∘ wire) = fun x : XNode => x.tag := by
      funext x; simp [wire_tag]
    rw [hfun]
    congr 1
    · simp only [orderedKids, List.map_flatMap]
      congr 1
      funext m
      cases hi : idxOf (members (T c)) m with
      | none => rfl
      | some j =>
        simp only
        obtain ⟨hjm, _⟩ := idxOf_eq_some_iff hi
        have hjd : j < (T c).children.length := by simpa [members] using hjm
        have hjs : j < ss.length := by omega
        have h1 : (serSlots T ss).getD j [] = (ss[j]).map (serialise T) := by
          rw [serSlots_eq_map]; simp [List.getD, hjs, serList_eq_map]
        have h2 : ss.getD j [] = ss[j] := by simp [List.getD, hjs]
        rw [h1, h2, List.map_map]
        apply List.map_congr_left
        intro k hk
        obtain ⟨hc, _⟩ := (hsl j hjd hjs).2 k hk
        have hs' := hsound (T c).children[j] (List.getElem_mem hjd)
        simp only [declSound, ← hc, decide_eq_true_eq] at hs'
        simp [Function.comp, serialise_tag, hs', hjd]
    · rw [ofExtList_eq_map, List.map_map]
      apply List.map_congr_left
      intro e _
      simp [Function.comp, ofExt_tag]

theorem classSerialisable_of_orderOk (cd : ClassDef) (h : orderOk cd = true) : classSerialisable cd = true := by
  simp only [orderOk, Bool.and_eq_true, orderIdxs, List.all_map] at h
  exact h.1.1

end ObjModel
