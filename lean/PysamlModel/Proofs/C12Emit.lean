/-
  C12 helper lemmas, part 8: the second serialisation.
-/
import PysamlModel.Proofs.C12Round

set_option linter.unusedSimpArgs false
set_option linter.unusedVariables false

namespace ObjModel

theorem normEmpty_idem (t : Option Str) : normEmpty (normEmpty t) = normEmpty t := by
  cases t with
  | none => rfl
  | some s => cases s <;> rfl

theorem emit_mk (tag : QName) (attrs : Attrs) (text : Option Str) (kids : List XNode) :
    emit (.mk tag attrs text kids) = .mk tag attrs (normEmpty text) (kids.map emit) := by
  simp only [emit, emitList_eq_map]

mutual
theorem emit_ofExt_norm : ∀ e : ExtEl, emit (ofExt (normExt e)) = emit (ofExt e)
  | .mk ns tag attrs kids text => by
    simp only [normExt, ofExt, emit_mk, normEmpty_idem]
    rw [emit_ofExtList_norm kids]
theorem emit_ofExtList_norm : ∀ l : List ExtEl, (ofExtList (normExtList l)).map emit = (ofExtList l).map emit
  | [] => rfl
  | e :: r => by simp [ofExtList, normExtList, emit_ofExt_norm e, emit_ofExtList_norm r]
end

/-- an instance and its normal form (empty text = no text) are written identically -/
theorem emit_serialise_norm (T : Nat → ClassDef) : ∀ i, emit (serialise T (normInst i)) = emit (serialise T i) := by
  intro i
  induction i using Inst.induct with
  | h c as ss t ee ea ih =>
    simp only [normInst, serialise, emit_mk, normEmpty_idem]
    have hkids : (serSlots T (normSlots ss)).map (·.map emit) = (serSlots T ss).map (·.map emit) := by
      rw [serSlots_eq_map, serSlots_eq_map, normSlots_eq_map, List.map_map, List.map_map, List.map_map]
      apply List.map_congr_left
      intro s hs
      simp only [Function.comp, serList_eq_map, normList_eq_map, List.map_map]
      apply List.map_congr_left
      intro k hk
      exact ih s hs k hk
    rw [List.map_append, List.map_append, orderedKids_map, orderedKids_map, hkids, emit_ofExtList_norm]

theorem classSerialisable_of_orderOk (cd : ClassDef) (h : orderOk cd = true) : classSerialisable cd = true := by
  simp only [orderOk, Bool.and_eq_true, orderIdxs, List.all_map] at h
  exact h.1.1

end ObjModel
