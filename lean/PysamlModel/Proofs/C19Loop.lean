/-
  C19 helper lemmas, part 3: what `do_logout` does to the pending-request table and which requests
  it emits.
-/
import PysamlModel.Proofs.C19Read

namespace Session

/-- Relation between the loop state before (`ls`) and after (`r`) running the `do_logout` loop over `es`. -/
structure LoopPost (cfg : Cfg) (db : Db) (now : Int) (stepNo : Nat) (s : Subj) (cell : Nat) (expire : Option Int)
    (es : List Idp) (ls r : LoopSt) : Prop where
  keep : ∀ rid : ReqId, rid.step ≠ stepNo → Dict.get? rid r.pending = Dict.get? rid ls.pending
  keys : ∀ rid, rid ∈ Dict.keys ls.pending → rid ∈ Dict.keys r.pending
  new : ∀ rid rec, Dict.get? rid r.pending = some rec →
    Dict.get? rid ls.pending = some rec ∨ (rid.step = stepNo ∧ rid.idp ∈ es ∧ rec = ⟨rid.idp, cell, s, expire⟩)
  sent : ∀ x ∈ r.sent, x ∈ ls.sent ∨ (x.id.step = stepNo ∧ x.id.idp ∈ es ∧ x.subj = s ∧ x.b = cfg.bind x.id.idp ∧
    sessionIndexOf db now s x.id.idp = some x.sidx)
  pend : ∀ x ∈ r.sent, x ∈ ls.sent ∨ x.b = .soap ∨ x.id ∈ Dict.keys r.pending

variable {cfg : Cfg} {db : Db} {now : Int} {stepNo : Nat} {s : Subj} {cell : Nat} {expire : Option Int}

theorem LoopPost.refl (es : List Idp) (ls : LoopSt) : LoopPost cfg db now stepNo s cell expire es ls ls :=
  ⟨fun _ _ => rfl, fun _ h => h, fun _ _ h => Or.inl h, fun _ h => Or.inl h, fun _ h => Or.inl h⟩

/-- One iteration that only sends (SOAP), followed by the rest of the loop. -/
theorem LoopPost.consSend {j : Idp} {t : List Idp} {ls r : LoopSt} {nd : List Idp} {sidx : Option Nat} {b : Bind}
    (hb : cfg.bind j = b) (hsoap : b = .soap) (hsi : sessionIndexOf db now s j = some sidx)
    (h : LoopPost cfg db now stepNo s cell expire t
      { ls with notDone := nd, sent := ls.sent ++ [⟨⟨stepNo, j⟩, b, s, sidx⟩] } r) :
    LoopPost cfg db now stepNo s cell expire (j :: t) ls r := by
  refine ⟨h.keep, h.keys, ?_, ?_, ?_⟩
  · intro rid rec hr
    rcases h.new rid rec hr with h1 | ⟨h1, h2, h3⟩
    · exact Or.inl h1
    · exact Or.inr ⟨h1, List.mem_cons_of_mem _ h2, h3⟩
  · intro x hx
    rcases h.sent x hx with h1 | ⟨h1, h2, h3⟩
    · simp only [List.mem_append, List.mem_singleton] at h1
      rcases h1 with h1 | h1
      · exact Or.inl h1
      · subst h1
        exact Or.inr ⟨rfl, List.mem_cons_self .., rfl, hb.symm, hsi⟩
    · exact Or.inr ⟨h1, List.mem_cons_of_mem _ h2, h3⟩

  · intro x hx
    rcases h.pend x hx with h1 | h1
    · simp only [List.mem_append, List.mem_singleton] at h1
      rcases h1 with h1 | h1
      · exact Or.inl h1
      · subst h1; exact Or.inr (Or.inl hsoap)
    · exact Or.inr h1

/-- One iteration that records a pending request (Redirect/POST), followed by the rest of the loop. -/
theorem LoopPost.consPend {j : Idp} {t : List Idp} {ls r : LoopSt} {nd : List Idp} {sidx : Option Nat} {b : Bind}
    (hb : cfg.bind j = b) (hsi : sessionIndexOf db now s j = some sidx)
    (h : LoopPost cfg db now stepNo s cell expire t
      { pending := Dict.set ⟨stepNo, j⟩ ⟨j, cell, s, expire⟩ ls.pending, notDone := nd,
        sent := ls.sent ++ [⟨⟨stepNo, j⟩, b, s, sidx⟩] } r) :
    LoopPost cfg db now stepNo s cell expire (j :: t) ls r := by
  refine ⟨?_, ?_, ?_, ?_, ?_⟩
  · intro rid hne
    rw [h.keep rid hne]
    apply Dict.get?_set_other
    intro e; apply hne; rw [e]
  · intro rid hr
    apply h.keys
    exact (Dict.mem_keys_set _ _ _ _).mpr (Or.inr hr)
  · intro rid rec hr
    rcases h.new rid rec hr with h1 | ⟨h1, h2, h3⟩
    · by_cases he : rid = ⟨stepNo, j⟩
      · subst he
        simp only at h1
        rw [Dict.get?_set_self] at h1
        exact Or.inr ⟨rfl, List.mem_cons_self .., (Option.some.inj h1).symm⟩
      · simp only at h1
        rw [Dict.get?_set_other he] at h1
        exact Or.inl h1
    · exact Or.inr ⟨h1, List.mem_cons_of_mem _ h2, h3⟩
  · intro x hx
    rcases h.sent x hx with h1 | ⟨h1, h2, h3⟩
    · simp only [List.mem_append, List.mem_singleton] at h1
      rcases h1 with h1 | h1
      · exact Or.inl h1
      · subst h1
        exact Or.inr ⟨rfl, List.mem_cons_self .., rfl, hb.symm, hsi⟩
    · exact Or.inr ⟨h1, List.mem_cons_of_mem _ h2, h3⟩

  · intro x hx
    rcases h.pend x hx with h1 | h1
    · simp only [List.mem_append, List.mem_singleton] at h1
      rcases h1 with h1 | h1
      · exact Or.inl h1
      · subst h1
        refine Or.inr (Or.inr ?_)
        apply h.keys
        exact (Dict.mem_keys_set _ _ _ _).mpr (Or.inl rfl)
    · exact Or.inr h1

theorem sloLoop_post (cfg : Cfg) (db : Db) (now : Int) (stepNo : Nat) (s : Subj) (cell : Nat) (expire : Option Int) :
    ∀ (es : List Idp) (ls : LoopSt),
      LoopPost cfg db now stepNo s cell expire es ls (sloLoop cfg db now stepNo s cell expire es ls).1 := by
  intro es
  induction es with
  | nil => intro ls; simp only [sloLoop]; exact LoopPost.refl _ _
  | cons j t ih =>
    intro ls
    unfold sloLoop
    cases hb : cfg.bind j with
    | none => simp only; exact LoopPost.refl _ _
    | redirect =>
      simp only
      cases hsi : sessionIndexOf db now s j with
      | none => simp only; exact LoopPost.refl _ _
      | some sidx =>
        simp only [reduceCtorEq, if_false]
        exact LoopPost.consPend hb hsi (ih _)
    | post =>
      simp only
      cases hsi : sessionIndexOf db now s j with
      | none => simp only; exact LoopPost.refl _ _
      | some sidx =>
        simp only [reduceCtorEq, if_false]
        exact LoopPost.consPend hb hsi (ih _)
    | soap =>
      simp only
      cases hsi : sessionIndexOf db now s j with
      | none => simp only; exact LoopPost.refl _ _
      | some sidx =>
        simp only [if_true]
        cases hm : cfg.soapMode j with
        | ok => simp only; exact LoopPost.consSend hb rfl hsi (ih _)
        | http500 => simp only; exact LoopPost.consSend (nd := ls.notDone) hb rfl hsi (ih _)
        | denied => simp only; exact LoopPost.consSend hb rfl hsi (LoopPost.refl _ _)

end Session
