/-
  C19 helper lemmas, part 7: from single steps to whole histories; the effect of a step on the cache;
  agreement of the two readings of the specification when no SOAP is involved.
-/
import PysamlModel.Proofs.C19Step

namespace Session

/-- The bookkeeping of the specification after a whole trace. -/
def ghostRun (cs : Bool) (cfg : Cfg) : Ghost → Obs → List Ev → Ghost
  | g, _, [] => g
  | g, before, e :: t => ghostRun cs cfg (specStep cs cfg g before e).2 e.obs t

theorem exec_cons (cfg : Cfg) (st : St) (op : Op) (t : List Op) : exec cfg st (op :: t) = exec cfg (step cfg st op).1 t := rfl

/-- An accepted login of the history. -/
def loginOf (ops : List Op) (l : Live) : Prop :=
  ∃ lg, Op.login lg ∈ ops ∧ lg.kind = .ok ∧ l = ⟨lg.s, lg.i, lg.info⟩

theorem live_next_sub {g : Ghost} {p : Plan} {op : Op} {b a : Obs} {l : Live} (h : l ∈ (ghostNext g p op b a).live) :
    l ∈ g.live ∨ loginOf [op] l := by
  simp only [ghostNext, List.mem_filter] at h
  obtain ⟨h, _⟩ := h
  cases op with
  | login lg =>
    simp only at h
    by_cases hk : lg.kind = .ok
    · simp only [hk, if_true, List.mem_cons] at h
      rcases h with h | h
      · exact Or.inr ⟨lg, by simp, hk, h⟩
      · exact Or.inl h
    · simp only [hk, if_false] at h
      exact Or.inl h
  | _ => exact Or.inl h

/-- Whole histories: the specification (SOAP answers not counted) finds nothing, the invariant holds at
    the end, and every live login is a login of the history (or was live before). -/
theorem run_ok (cfg : Cfg) : ∀ (ops : List Op) (st : St) (g : Ghost), Inv st g →
    specTrace false cfg g (obsOf st) (run cfg st ops) = [] ∧
    Inv (exec cfg st ops) (ghostRun false cfg g (obsOf st) (run cfg st ops)) ∧
    ∀ l ∈ (ghostRun false cfg g (obsOf st) (run cfg st ops)).live, l ∈ g.live ∨ loginOf ops l := by
  intro ops
  induction ops with
  | nil => intro st g h; exact ⟨rfl, h, fun l hl => Or.inl hl⟩
  | cons op t ih =>
    intro st g hinv
    obtain ⟨h1, h2⟩ := step_ok cfg hinv op
    obtain ⟨i1, i2, i3⟩ := ih _ _ h2
    simp only [run, specTrace, ghostRun, exec_cons]
    refine ⟨?_, i2, ?_⟩
    · rw [h1, i1]; rfl
    · intro l hl
      rcases i3 l hl with h | ⟨lg, hm, hk, he⟩
      · simp only [specStep] at h
        rcases live_next_sub h with h | ⟨lg, hm, hk, he⟩
        · exact Or.inl h
        · simp only [List.mem_singleton] at hm
          exact Or.inr ⟨lg, by rw [hm]; exact List.mem_cons_self .., hk, he⟩
      · exact Or.inr ⟨lg, List.mem_cons_of_mem _ hm, hk, he⟩

theorem inv_init (now0 : Int) : Inv { now := now0 } { now := now0 } :=
  ⟨rfl, rfl, rfl, by intro s i e x h; simp [entryAt, Dict.get?] at h, by intro rid rec h; simp [Dict.get?] at h⟩

/-! ### the two readings of the specification agree when no SOAP is involved -/

theorem bind_ne_soap {cfg : Cfg} (h : NoSoap cfg) (j : Idp) : cfg.bind j ≠ .soap := by
  unfold Cfg.bind
  cases hj : cfg.idps[j]? with
  | none => simp
  | some d => exact h d (List.mem_of_getElem? hj)

theorem soapAnswered_nosoap {cfg : Cfg} (h : NoSoap cfg) (cs : Bool) (out : Out) : soapAnswered cs cfg out = [] := by
  unfold soapAnswered
  cases cs with
  | false => rfl
  | true =>
    simp only [if_true, List.map_eq_nil_iff, List.filter_eq_nil_iff]
    intro r _
    simp [bind_ne_soap h]

theorem planOf_nosoap {cfg : Cfg} (h : NoSoap cfg) (g : Ghost) (before : Obs) (op : Op) (out : Out) :
    planOf true cfg g before op out = planOf false cfg g before op out := by
  unfold planOf
  simp only [soapAnswered_nosoap h]

theorem specStep_nosoap {cfg : Cfg} (h : NoSoap cfg) (g : Ghost) (before : Obs) (e : Ev) :
    specStep true cfg g before e = specStep false cfg g before e := by
  unfold specStep
  simp only [planOf_nosoap h]

theorem specTrace_nosoap {cfg : Cfg} (h : NoSoap cfg) : ∀ (tr : List Ev) (g : Ghost) (before : Obs),
    specTrace true cfg g before tr = specTrace false cfg g before tr := by
  intro tr
  induction tr with
  | nil => intro g b; rfl
  | cons e t ih =>
    intro g b
    simp only [specTrace, specStep_nosoap h, ih]

/-! ### what a step can do to the cache -/

theorem doLogout_db (cfg : Cfg) (st : St) (s : Subj) (cell : Nat) (expire : Option Int) :
    (doLogout cfg st s cell expire).1.db = st.db ∨
    ((doLogout cfg st s cell expire).1.db = Dict.del s st.db ∧ deadlinePassed st.now expire = true) := by
  cases hdl : deadlinePassed st.now expire with
  | true =>
    cases hd : cacheDelete st.db s with
    | none => left; simp [doLogout, hdl, localLogout, hd]
    | some db' =>
      right
      obtain ⟨h, _⟩ := cacheDelete_some hd
      simp [doLogout, hdl, localLogout, hd, h]
  | false =>
    left
    obtain ⟨ls, out, h, _⟩ := doLogout_live (cfg := cfg) (st := st) (s := s) (cell := cell) (expire := expire) hdl
    rw [h]

/-- A step leaves the cache alone, deletes one subject, or stores one entry (login / reset). -/
theorem step_db (cfg : Cfg) (st : St) (op : Op) :
    (step cfg st op).1.db = st.db ∨ (∃ s0, (step cfg st op).1.db = Dict.del s0 st.db) ∨
    (∃ l, op = .login l ∧ l.kind = .ok ∧ (step cfg st op).1.db = cacheSet st.db l.s l.i ⟨l.nooa, some l.info⟩) ∨
    (∃ s i, op = .reset s i ∧ (step cfg st op).1.db = cacheSet st.db s i ⟨0, none⟩) := by
  cases op with
  | login l =>
    by_cases hk : l.kind = .ok
    · exact Or.inr (Or.inr (Or.inl ⟨l, rfl, hk, by simp [step, stepCore, doLogin, hk]⟩))
    · left; simp [step, stepCore, doLogin, hk]
  | identity s ents check => left; simp only [step, stepCore]; split <;> rfl
  | info s i check => left; simp only [step, stepCore]; split <;> rfl
  | stale s srcs => left; simp only [step, stepCore]; split <;> rfl
  | advance dt => left; rfl
  | reset s i => exact Or.inr (Or.inr (Or.inr ⟨s, i, rfl, rfl⟩))
  | logout s expire =>
    simp only [step, stepCore, globalLogout]
    cases hm : Dict.get? s st.db with
    | none => left; rfl
    | some m =>
      simp only
      rcases doLogout_db cfg { st with heap := Dict.set st.stepNo (Dict.keys m) st.heap } s st.stepNo expire with h | ⟨h, _⟩
      · left; exact h
      · right; left; exact ⟨s, h⟩
  | resp sel issuer =>
    rw [step_resp_eq]
    simp only
    generalize resolve (Dict.keys st.pending) st.last sel = irt
    cases irt with
    | none => left; simp [handleResponse]
    | some rid =>
      cases hrec : Dict.get? rid st.pending with
      | none => left; simp [handleResponse, hrec]
      | some rec =>
        generalize issuerOf (some rid) issuer = x
        by_cases hL : heapGet st.heap rec.cell = [x]
        · cases hd : cacheDelete st.db rec.subj with
          | none => left; rw [handleResponse_done_none hrec hL hd]
          | some db' =>
            right; left
            rw [handleResponse_done_some hrec hL hd]
            exact ⟨rec.subj, (cacheDelete_some hd).1⟩
        · by_cases hx : x ∈ heapGet st.heap rec.cell
          · rw [handleResponse_cont hrec hL hx]
            have hh := doLogout_db cfg
              { st with pending := Dict.del rid st.pending,
                        heap := Dict.set rec.cell ((heapGet st.heap rec.cell).erase x) st.heap }
              rec.subj rec.cell rec.expire
            rcases hh with h | ⟨h, _⟩
            · left; exact h
            · right; left; exact ⟨rec.subj, h⟩
          · left; rw [handleResponse_value hrec hL hx]
  | slo named current b j =>
    simp only [step, stepCore, handleRequest]
    by_cases hn : named = current
    · cases hd : cacheDelete st.db current with
      | none => left; simp only [hn, if_true, localLogout, hd]; split <;> rfl
      | some db' =>
        right; left
        refine ⟨current, ?_⟩
        simp only [hn, if_true, localLogout, hd]
        split <;> exact (cacheDelete_some hd).1
    · left; simp only [hn, if_false]; split <;> rfl

/-- State in which `handle_logout_response` re-enters `do_logout`: the answered record is gone, the
    issuer is taken off the shared list object. -/
def reentry (st : St) (rid : ReqId) (rec : Rec) (x : Idp) : St :=
  { st with pending := Dict.del rid st.pending, heap := Dict.set rec.cell ((heapGet st.heap rec.cell).erase x) st.heap }

theorem cont_eq {cfg : Cfg} {st : St} {rid : ReqId} {rec : Rec} {x : Idp}
    (hrec : Dict.get? rid st.pending = some rec) (hL : heapGet st.heap rec.cell ≠ [x])
    (hx : x ∈ heapGet st.heap rec.cell) :
    handleResponse cfg st (some rid) x = doLogout cfg (reentry st rid rec x) rec.subj rec.cell rec.expire :=
  handleResponse_cont hrec hL hx

/-- An operation that can bring subject `s` (back) into the cache. -/
def storesFor (s : Subj) : Op → Prop
  | .login l => l.kind = .ok ∧ l.s = s
  | .reset s' _ => s' = s
  | _ => False

theorem absent_step {cfg : Cfg} {st : St} {op : Op} {s : Subj} (h : s ∉ Dict.keys st.db) (hop : ¬ storesFor s op) :
    s ∉ Dict.keys (step cfg st op).1.db := by
  rcases step_db cfg st op with h1 | ⟨s0, h1⟩ | ⟨l, hop', hk, h1⟩ | ⟨s', i, hop', h1⟩
  · rw [h1]; exact h
  · rw [h1, Dict.mem_keys_del]; exact fun ⟨_, h2⟩ => h h2
  · rw [h1, mem_keys_cacheSet]
    subst hop'
    intro h2
    rcases h2 with h2 | h2
    · exact hop ⟨hk, h2.symm⟩
    · exact h h2
  · rw [h1, mem_keys_cacheSet]
    subst hop'
    intro h2
    rcases h2 with h2 | h2
    · exact hop h2.symm
    · exact h h2

theorem absent_exec {cfg : Cfg} {s : Subj} : ∀ (ops : List Op) (st : St), s ∉ Dict.keys st.db →
    (∀ op ∈ ops, ¬ storesFor s op) → s ∉ Dict.keys (exec cfg st ops).db := by
  intro ops
  induction ops with
  | nil => intro st h _; exact h
  | cons op t ih =>
    intro st h hops
    rw [exec_cons]
    exact ih _ (absent_step h (hops op (List.mem_cons_self ..))) (fun o ho => hops o (List.mem_cons_of_mem _ ho))

end Session
