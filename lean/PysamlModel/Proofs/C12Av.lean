/-
  C12 helper lemmas, part 6: AttributeValueBase — canonical states are fixed points of
  serialise → wire → harvest.
-/
import PysamlModel.Proofs.C12Wire

set_option linter.unusedSimpArgs false
set_option linter.unusedVariables false

namespace ObjModel

theorem normCR_of_noCR (s : Str) (h : noCR s = true) : normCR s = s := by
  induction s with
  | nil => simp [normCR]
  | cons c r ih =>
    simp only [noCR, List.all_cons, Bool.and_eq_true, bne_iff_ne, ne_eq] at h
    have ihr := ih (by simpa [noCR] using h.2)
    have hc : c ≠ 13 := h.1
    unfold normCR
    split
    · rename_i heq; cases heq
    · rename_i heq; injection heq with h1 h2; exact absurd h1 hc
    · rename_i heq; injection heq with h1 h2; exact absurd h1 hc
    · rename_i c' r' _ _ heq
      injection heq with h1 h2
      subst h1 h2
      rw [ihr]

theorem wireText_of_noCR (t : Option Str) (h : noCRo t = true) : wireText t = normEmpty t := by
  cases t with
  | none => rfl
  | some s => simp only [wireText, Option.map_some, normCR_of_noCR s (by simpa [noCRo] using h)]

theorem dictGet_filter (q : Name → Bool) (d : Attrs) (k : Name) (hk : q k = true) :
    dictGet (d.filter fun p => q p.1) k = dictGet d k := by
  induction d with
  | nil => rfl
  | cons p r ih =>
    obtain ⟨k', v'⟩ := p
    by_cases e : k' = k
    · subst e; simp [List.filter_cons, hk, dictGet]
    · by_cases hq : q k'
      · simp [List.filter_cons, hq, dictGet, e, ih]
      · simp [List.filter_cons, hq, dictGet, e, ih]

theorem not_mem_keys_filter_of_not_mem {d : Attrs} {q : Name × Str → Bool} {k : Name} (h : k ∉ keysOf d) :
    k ∉ keysOf (d.filter q) := by
  intro hm
  obtain ⟨p, hp, rfl⟩ := List.mem_map.mp hm
  exact h (List.mem_map.mpr ⟨p, (List.mem_filter.mp hp).1, rfl⟩)

theorem not_mem_keys_filter_of_not_q {d : Attrs} {q : Name → Bool} {k : Name} (h : q k = false) :
    k ∉ keysOf (d.filter fun p => q p.1) := by
  intro hm
  obtain ⟨p, hp, rfl⟩ := List.mem_map.mp hm
  have := (List.mem_filter.mp hp).2
  simp [h] at this

theorem dictDel_cons_self (k : Name) (v : Str) (d : Attrs) (h : k ∉ keysOf d) : dictDel ((k, v) :: d) k = d := by
  simp only [dictDel, List.filter_cons, beq_self_eq_true, Bool.not_true]
  exact dictDel_of_not_mem h

theorem dictHas_false_iff {d : Attrs} {k : Name} : dictHas d k = false ↔ k ∉ keysOf d := by
  rw [← dictHas_iff]; simp

/-- The core of `C12_attribute_value`. -/
theorem avFinish_canonical (K : AvConsts) (conv : Conv) (ea : Attrs) (t : Option Str) (hasExt : Bool)
    (hK : avConstsOk K = true) (hnd : (keysOf ea).Nodup) (hcr : noCRo t = true)
    (hc : avCanonical K conv ea t hasExt = true) :
    avFinish K conv (dictSetAll [(K.xsiNil, sTrue)] (ea.filter fun p => !isNsDecl p.1)) (wireText t) hasExt =
      some (ea, normEmpty t) := by
  simp only [avConstsOk, Bool.and_eq_true, Bool.not_eq_true', decide_eq_true_eq] at hK
  obtain ⟨⟨⟨⟨⟨⟨hxs, hxsd⟩, htyp⟩, hnil⟩, htn⟩, hxx⟩, _⟩ := hK
  rw [wireText_of_noCR t hcr]
  unfold avCanonical at hc
  cases hne : normEmpty t with
  | none =>
    rw [hne] at hc
    simp only [Bool.and_eq_true, List.all_eq_true, Bool.not_eq_true'] at hc
    obtain ⟨hall, hrest⟩ := hc
    have hfil : (ea.filter fun p => !isNsDecl p.1) = ea := by
      apply List.filter_eq_self.mpr
      intro p hp; simp [hall p hp]
    rw [hfil]
    simp only [avFinish, avText1]
    cases hasExt with
    | true =>
      simp only [if_true] at hrest
      have hnk : K.xsiNil ∉ keysOf ea := dictHas_false_iff.mp (by simpa using hrest)
      rw [dictSetAll_eq_append hnd (by
        intro k hk hm
        simp only [keysOf, List.map_cons, List.map_nil, List.mem_singleton] at hm
        subst hm; exact hnk hk)]
      simp only [List.singleton_append, if_true, dictDel_cons_self _ _ _ hnk]
    | false =>
      simp only [Bool.false_eq_true, if_false] at hrest
      cases ea with
      | nil => simp at hrest
      | cons p rest =>
        obtain ⟨k, v⟩ := p
        simp only [decide_eq_true_eq] at hrest
        subst hrest
        simp only [keysOf, List.map_cons, List.nodup_cons] at hnd
        simp only [dictSetAll, List.foldl_cons, dictSet, if_true]
        have := dictSetAll_eq_append (d := [(K.xsiNil, v)]) (l := rest) hnd.2 (by
          intro k hk hm
          simp only [keysOf, List.map_cons, List.map_nil, List.mem_singleton] at hm
          subst hm; exact hnd.1 hk)
        simp only [dictSetAll] at this
        rw [this]
        simp
  | some s =>
    rw [hne] at hc
    have hts : t = some s := by
      cases t with
      | none => simp [normEmpty] at hne
      | some s' =>
        cases s' with
        | nil => simp [normEmpty] at hne
        | cons c r => simp only [normEmpty, Option.some.injEq] at hne; rw [hne]
    have hsne : s ≠ [] := by
      intro e; subst e; subst hts; simp [normEmpty] at hne
    simp only [Bool.and_eq_true, Bool.not_eq_true', Bool.or_eq_true, decide_eq_true_eq] at hc
    obtain ⟨⟨⟨⟨⟨hnonil, hstrip⟩, hget⟩, htne⟩, hconv⟩, hea⟩ := hc
    have hnk : K.xsiNil ∉ keysOf ea := dictHas_false_iff.mp hnonil
    have hbase_nod : (keysOf (ea.filter fun p => !isNsDecl p.1)).Nodup := keysOf_filter_nodup _ hnd
    have hnkb : K.xsiNil ∉ keysOf (ea.filter fun p => !isNsDecl p.1) := not_mem_keys_filter_of_not_mem hnk
    have hX : dictSetAll [(K.xsiNil, sTrue)] (ea.filter fun p => !isNsDecl p.1) =
        (K.xsiNil, sTrue) :: (ea.filter fun p => !isNsDecl p.1) := by
      rw [dictSetAll_eq_append hbase_nod (by
        intro k hk hm
        simp only [keysOf, List.map_cons, List.map_nil, List.mem_singleton] at hm
        subst hm; exact hnkb hk)]
      rfl
    rw [hX]
    have hgetX : dictGet ((K.xsiNil, sTrue) :: (ea.filter fun p => !isNsDecl p.1)) K.xsiType = dictGet ea K.xsiType := by
      have : ¬ K.xsiNil = K.xsiType := fun e => htn e.symm
      simp only [dictGet, this, if_false]
      exact dictGet_filter (fun n => !isNsDecl n) ea K.xsiType (by simp [htyp])
    have hparts : avTypeParts K ((K.xsiNil, sTrue) :: (ea.filter fun p => !isNsDecl p.1)) = avTypeParts K ea := by
      simp only [avTypeParts, hgetX]
    have htext1 : (if hasExt = true then strip s else s) = s := by
      cases hasExt with
      | false => rfl
      | true =>
        rcases hstrip with h | h
        · cases h
        · simpa using h
    simp only [avFinish, avText1, htext1, hsne, if_false, hparts, hconv]
    -- the extension attributes
    have hgetb : dictGet (ea.filter fun p => !isNsDecl p.1) K.xsiType = dictGet ea K.xsiType :=
      dictGet_filter (fun n => !isNsDecl n) ea K.xsiType (by simp [htyp])
    have hsame : dictSet (ea.filter fun p => !isNsDecl p.1) K.xsiType
        (if (avTypeParts K ea).1 = [] then (avTypeParts K ea).2 else (avTypeParts K ea).1 ++ [58] ++ (avTypeParts K ea).2) =
        (ea.filter fun p => !isNsDecl p.1) := dictSet_same (by rw [hgetb]; exact hget)
    simp only [avSetType, dictDel_cons_self _ _ _ hnkb, hsame]
    have hxsb : K.xmlnsXs ∉ keysOf (ea.filter fun p => !isNsDecl p.1) :=
      not_mem_keys_filter_of_not_q (q := fun n => !isNsDecl n) (by simp [hxs])
    have hxsdb : K.xmlnsXsd ∉ keysOf (ea.filter fun p => !isNsDecl p.1) :=
      not_mem_keys_filter_of_not_q (q := fun n => !isNsDecl n) (by simp [hxsd])
    have hfin : ∀ d : Attrs, d = ea → dictDel d K.xsiNil = ea := fun d hd => by rw [hd]; exact dictDel_of_not_mem hnk
    congr 1
    congr 1
    apply hfin
    by_cases h1 : sXsColon.isPrefixOf
        (if (avTypeParts K ea).1 = [] then (avTypeParts K ea).2 else (avTypeParts K ea).1 ++ [58] ++ (avTypeParts K ea).2) = true
    · by_cases h2 : sXsdColon.isPrefixOf
          (if (avTypeParts K ea).1 = [] then (avTypeParts K ea).2 else (avTypeParts K ea).1 ++ [58] ++ (avTypeParts K ea).2) = true
      · simp only [h1, h2, if_true] at hea ⊢
        rw [dictSet_of_not_mem hxsb, dictSet_of_not_mem (by
          rw [keysOf_append]
          intro hm
          rcases List.mem_append.mp hm with h | h
          · exact hxsdb h
          · simp [keysOf] at h; exact hxx h.symm)]
        exact hea.symm
      · simp only [h1, h2, if_true, if_false, Bool.false_eq_true] at hea ⊢
        rw [dictSet_of_not_mem hxsb]
        simpa using hea.symm
    · by_cases h2 : sXsdColon.isPrefixOf
          (if (avTypeParts K ea).1 = [] then (avTypeParts K ea).2 else (avTypeParts K ea).1 ++ [58] ++ (avTypeParts K ea).2) = true
      · simp only [h1, h2, if_true, if_false, Bool.false_eq_true] at hea ⊢
        rw [dictSet_of_not_mem hxsdb]
        simpa using hea.symm
      · simp only [h1, h2, if_false, Bool.false_eq_true] at hea ⊢
        simpa using hea.symm

end ObjModel
