/-
  C17 — checking the regenerated tables inside the kernel.
  The kernel substitutes arguments unevaluated, so a quadratic check over a table whose look-up keys
  are `lower k` would lower-case every key again at every comparison.  `forcePairs` / `forceNats`
  evaluate a list of numbers once (a `match` on a number needs its value) and hand the literal list
  on; they are the identity (`forcePairs_eq`), so the fast checker `tableCheck` is provably the same
  as the conditions of Spec/C17.lean it stands for (`tableCheck_sound`).
-/
import PysamlModel.Model.AttrCode
import PysamlModel.Spec.C17
import PysamlModel.Proofs.C17

set_option linter.unusedSimpArgs false

namespace C17
open AttrConv C17Spec AttrCode

def seqNat {β : Type} (n : Nat) (k : Nat → β) : β :=
  match n with
  | 0 => k 0
  | n' + 1 => k (Nat.succ n')

theorem seqNat_eq {β : Type} (n : Nat) (k : Nat → β) : seqNat n k = k n := by
  cases n <;> rfl

def forceNats {β : Type} : List Nat → (List Nat → β) → β
  | [], k => k []
  | a :: t, k => seqNat a fun a' => forceNats t fun t' => k (a' :: t')

theorem forceNats_eq {β : Type} (l : List Nat) (k : List Nat → β) : forceNats l k = k l := by
  induction l generalizing k with
  | nil => rfl
  | cons a t ih => simp [forceNats, seqNat_eq, ih]

def forcePairs {β : Type} : List (Nat × Nat) → (List (Nat × Nat) → β) → β
  | [], k => k []
  | (a, b) :: t, k => seqNat a fun a' => seqNat b fun b' => forcePairs t fun t' => k ((a', b') :: t')

theorem forcePairs_eq {β : Type} (l : List (Nat × Nat)) (k : List (Nat × Nat) → β) : forcePairs l k = k l := by
  induction l generalizing k with
  | nil => rfl
  | cons p t ih =>
    obtain ⟨a, b⟩ := p
    simp [forcePairs, seqNat_eq, ih]

/-- coherence of declared pairs, except under the listed look-up keys -/
def coherentExcept {α : Type} [DecidableEq α] (D : List (Decl α)) (ex : List α) : Bool :=
  D.all fun d => ex.contains d.key || coherentAt D d.key

theorem coherentAt_of_except {α : Type} [DecidableEq α] (D : List (Decl α)) (ex : List α)
    (h : coherentExcept D ex = true) (q : α) (hq : q ∉ ex) : coherentAt D q = true := by
  unfold coherentAt
  cases hc : candidates D q with
  | nil => rfl
  | cons v t =>
    have hv : v ∈ candidates D q := by rw [hc]; exact List.mem_cons_self
    simp only [candidates, List.mem_map, List.mem_filter, decide_eq_true_eq] at hv
    obtain ⟨d, ⟨hd, hk⟩, _⟩ := hv
    have := (List.all_eq_true.mp h) d hd
    rw [hk] at this
    simp only [Bool.or_eq_true, List.contains_eq_mem, decide_eq_true_eq] at this
    rcases this with h1 | h1
    · exact absurd h1 hq
    · unfold coherentAt at h1
      rw [hc] at h1
      exact h1

theorem coherentDecl_of_except {α : Type} [DecidableEq α] (D : List (Decl α))
    (h : coherentExcept D [] = true) : coherentDecl D = true := by
  apply List.all_eq_true.mpr
  intro d _
  exact coherentAt_of_except D [] h d.key (by simp)

/-- pairwise form (no intermediate lists) -/
def coherentPairs (P : List (Nat × Nat)) (ex : List Nat) : Bool :=
  P.all fun p => ex.contains p.1 || P.all fun q => !(q.1 == p.1) || q.2 == p.2

theorem allEq_of_forall {α : Type} [DecidableEq α] (l : List α) (h : ∀ a ∈ l, ∀ b ∈ l, a = b) : allEq l = true := by
  cases l with
  | nil => rfl
  | cons x t =>
    simp only [allEq, List.all_eq_true, decide_eq_true_eq]
    intro b hb
    exact h b (List.mem_cons_of_mem _ hb) x List.mem_cons_self

theorem coherentExcept_of_pairs (D : List (Decl Nat)) (ex : List Nat)
    (h : coherentPairs (pairsOf D) ex = true) : coherentExcept D ex = true := by
  apply List.all_eq_true.mpr
  intro d hd
  have h1 := (List.all_eq_true.mp h) (d.key, d.val) (List.mem_map.mpr ⟨d, hd, rfl⟩)
  simp only [Bool.or_eq_true] at h1 ⊢
  rcases h1 with h1 | h1
  · exact Or.inl h1
  · right
    unfold coherentAt
    apply allEq_of_forall
    intro a ha b hb
    simp only [candidates, List.mem_map, List.mem_filter, decide_eq_true_eq] at ha hb
    obtain ⟨da, ⟨hda, hka⟩, rfl⟩ := ha
    obtain ⟨db, ⟨hdb, hkb⟩, rfl⟩ := hb
    have ha' := (List.all_eq_true.mp h1) (da.key, da.val) (List.mem_map.mpr ⟨da, hda, rfl⟩)
    have hb' := (List.all_eq_true.mp h1) (db.key, db.val) (List.mem_map.mpr ⟨db, hdb, rfl⟩)
    simp only [hka, hkb, beq_self_eq_true, Bool.not_true, Bool.false_or, beq_iff_eq] at ha' hb'
    rw [ha', hb']

/-- the normalised wire names a map sends -/
def sentKeys (S : List (Nat × Nat)) : List Nat :=
  S.filterMap fun p => if natOps.truthy p.2 then some (natOps.lower (natOps.strip p.2)) else none

theorem contains_keys (R : List (Decl Nat)) (q : Nat) :
    ((pairsOf R).map (·.1)).contains q = R.any (fun r => decide (r.key = q)) := by
  rw [Bool.eq_iff_iff]
  simp [pairsOf, List.map_map, Function.comp_def, List.any_eq_true]

theorem pairsOf_cons {α : Type} (d : Decl α) (t : List (Decl α)) : pairsOf (d :: t) = (d.key, d.val) :: pairsOf t := rfl

theorem roundTripWf_eq (m : MapDict Nat) :
    roundTripWf natOps m =
      (sentKeys (pairsOf (sendDecl natOps m))).all fun q => ((pairsOf (recvDecl natOps m)).map (·.1)).contains q := by
  unfold roundTripWf sentKeys
  simp only [contains_keys]
  generalize sendDecl natOps m = S
  induction S with
  | nil => rfl
  | cons d t ih =>
    rw [pairsOf_cons, List.all_cons, List.filterMap_cons, ih]
    cases ht : natOps.truthy d.val with
    | false => simp
    | true => simp

/-- The look-up keys (lower-cased local names) under which the pinned `saml_uri` map declares two
    different wire names — finding `C17/case-colliding-map-keys`:
    "dateofbirth", "birthname", "placeofbirth", "gender".  Hand-written: this list is part of the
    statement of `C17_bundled_wf`, not regenerated. -/
def knownCaseCollisions : List Nat :=
  [0x1646174656f666269727468, 0x162697274686e616d65, 0x1706c6163656f666269727468, 0x167656e646572]

/-! Three fast checks per bundled map (separate, so that the generated lemma modules
    `Gen/AttrMapsWf/*.lean` can be checked in parallel). -/

/-- it is an attribute map and its sending pairs are coherent, except under the listed keys -/
def checkSend (m : MapDict Nat) (ex : List Nat) : Bool :=
  isMap m && forcePairs (pairsOf (sendDecl natOps m)) fun S => coherentPairs S ex

/-- its receiving pairs are coherent -/
def checkRecv (m : MapDict Nat) : Bool :=
  forcePairs (pairsOf (recvDecl natOps m)) fun R => coherentPairs R []

/-- every wire name it sends is one it knows on receipt -/
def checkKnown (m : MapDict Nat) : Bool :=
  forceNats (sentKeys (pairsOf (sendDecl natOps m))) fun Q =>
  forceNats ((pairsOf (recvDecl natOps m)).map (·.1)) fun K =>
    Q.all fun q => K.contains q

theorem tableCheck_sound (m : MapDict Nat) (ex : List Nat)
    (h1 : checkSend m ex = true) (h2 : checkRecv m = true) (h3 : checkKnown m = true) :
    isMap m = true ∧ coherentExcept (sendDecl natOps m) ex = true ∧
    coherentDecl (recvDecl natOps m) = true ∧ roundTripWf natOps m = true := by
  unfold checkSend at h1
  unfold checkRecv at h2
  unfold checkKnown at h3
  simp only [forcePairs_eq, forceNats_eq, Bool.and_eq_true] at h1 h2 h3
  refine ⟨h1.1, coherentExcept_of_pairs _ _ h1.2, ?_, ?_⟩
  · apply coherentDecl_of_except
    exact coherentExcept_of_pairs _ _ h2
  · rw [roundTripWf_eq]; exact h3

end C17
