/-
  C14 — helper lemmas for the artifact, SOAP and form theorems of `Props/C14.lean`.
-/
import PysamlModel.Proofs.C14Form
namespace C14
open Codec HtmlScan Bindings C14Spec


theorem hexVal_hexLower (n : Nat) (h : n < 16) : hexVal (hexLower n) = some n := by
  unfold hexLower hexVal; grind

theorem hexLower_lt (n : Nat) (h : n < 16) : hexLower n < 128 := by
  unfold hexLower; grind

theorem decodeIndex_hex (a b : Nat) (ha : a < 16) (hb : b < 16) :
    decodeIndex [hexLower a, hexLower b] = ((a * 16 + b : Nat) : Int) := by
  simp [decodeIndex, hexVal_hexLower a ha, hexVal_hexLower b hb]

/-- The raw artifact decodes field by field. -/
theorem decodeRaw (i : Nat) (hi : i ≤ 255) (sid handle : Bytes) (hs : sid.length = 20) :
    let raw := artifactTypecode ++ [hexLower (i / 16), hexLower (i % 16)] ++ sid ++ handle
    raw.take 2 = artifactTypecode ∧ decodeIndex ((raw.drop 2).take 2) = (i : Int) ∧ (raw.drop 4).take 20 = sid := by
  intro raw
  have h1 : i / 16 < 16 := by omega
  have h2 : i % 16 < 16 := by omega
  refine ⟨?_, ?_, ?_⟩
  · simp [raw, artifactTypecode]
  · have : (raw.drop 2).take 2 = [hexLower (i / 16), hexLower (i % 16)] := by simp [raw, artifactTypecode]
    rw [this, decodeIndex_hex _ _ h1 h2]
    congr 1; omega
  · have : raw.drop 4 = sid ++ handle := by simp [raw, artifactTypecode]
    rw [this, ← hs]; exact List.take_left' rfl


/-- `create_artifact` followed by the decoding steps of `artifact2destination`. -/
theorem decode_create (sha1 : Bytes → Bytes) (eid handle : Bytes) (idx : Int) (h0 : 0 ≤ idx) (h1 : idx ≤ 255)
    (hlen : (sha1 eid).length = 20) (hsb : IsBytes (sha1 eid)) (hh : IsBytes handle) :
    ∃ art, createArtifact sha1 eid handle idx = some art ∧
      decodeArtifact art = some { index := idx, sourceId := sha1 eid } := by
  have hi : idx.toNat ≤ 255 := by omega
  refine ⟨b64encode (artifactTypecode ++ [hexLower (idx.toNat / 16), hexLower (idx.toNat % 16)] ++ sha1 eid ++ handle),
    by simp [createArtifact, h0, h1], ?_⟩
  unfold decodeArtifact
  have hb : IsBytes (artifactTypecode ++ [hexLower (idx.toNat / 16), hexLower (idx.toNat % 16)] ++ sha1 eid ++ handle) := by
    intro c hc
    simp only [List.mem_append, List.mem_cons, List.not_mem_nil, or_false] at hc
    rcases hc with ((hc | hc) | hc) | hc
    · simp [artifactTypecode] at hc; omega
    · rcases hc with e | e <;> subst e
      · exact Nat.lt_trans (hexLower_lt _ (by omega)) (by decide)
      · exact Nat.lt_trans (hexLower_lt _ (by omega)) (by decide)
    · exact hsb c hc
    · exact hh c hc
  rw [b64decodeStr_encode _ hb]
  obtain ⟨r1, r2, r3⟩ := decodeRaw idx.toNat hi (sha1 eid) handle hlen
  simp only [r1, r2, r3, if_true]
  congr 2
  omega



/-- The source-id table `construct_source_id` builds: one record per known entity. -/
def mkStore {α : Type} (sha1 : Bytes → Bytes) (ents : List (Bytes × List (Option (List (α × α))))) : List (ArtEntity α) :=
  ents.map (fun e => { sourceId := sha1 e.1, descriptors := e.2 })

theorem find_issuer {α : Type} (sha1 : Bytes → Bytes) (hinj : ∀ a b, sha1 a = sha1 b → a = b)
    (ents : List (Bytes × List (Option (List (α × α))))) (hnd : (ents.map (·.1)).Nodup)
    (eid : Bytes) (descs : List (Option (List (α × α)))) (hmem : (eid, descs) ∈ ents) :
    (mkStore sha1 ents).find? (fun e => e.sourceId = sha1 eid) = some { sourceId := sha1 eid, descriptors := descs } := by
  induction ents with
  | nil => cases hmem
  | cons e rest ih =>
    simp only [List.map_cons, List.nodup_cons] at hnd
    obtain ⟨hnot, hrest⟩ := hnd
    rcases List.mem_cons.mp hmem with h | h
    · subst h; simp [mkStore]
    · have hne : e.1 ≠ eid := by
        intro he
        apply hnot
        rw [he]
        exact List.mem_map.mpr ⟨(eid, descs), h, rfl⟩
      have : sha1 e.1 ≠ sha1 eid := fun hh => hne (hinj _ _ hh)
      simp only [mkStore, List.map_cons, List.find?_cons]
      simp only [this, decide_false]
      exact ih hrest h

theorem soapUnwrap_wrap {ε τ : Type} [DecidableEq τ] (tagOf : ε → τ) (expected : List τ) (hdrs : List ε) (e : ε) :
    soapUnwrapTree tagOf expected (soapWrapTree hdrs e) = if tagOf e ∈ expected then .elem e else .refused := by
  unfold soapWrapTree soapUnwrapTree
  by_cases h : hdrs.isEmpty = true
  · simp [h, firstBody]
  · simp [h, firstBody]



theorem afterDeclEnd_found (p r : List Nat) (h : 62 ∉ p) : afterDeclEnd (p ++ 63 :: 62 :: r) = some r := by
  induction p with
  | nil => simp [afterDeclEnd]
  | cons a p ih =>
    have hp : 62 ∉ p := fun hm => h (by simp [hm])
    cases p with
    | nil =>
      simp only [List.cons_append, List.nil_append]
      rw [afterDeclEnd]
      simp [afterDeclEnd]
    | cons b p' =>
      have hb : b ≠ 62 := by intro e; subst e; simp at h
      simp only [List.cons_append] at ih ⊢
      rw [afterDeclEnd]
      simp only [hb, and_false, if_false]
      exact ih hp

theorem lstrip_ws (ws e : List Nat) (hws : ∀ c ∈ ws, pyIsSpace c = true) (he : ∀ c, e.head? = some c → pyIsSpace c = false) :
    (ws ++ e).dropWhile pyIsSpace = e := by
  induction ws with
  | nil =>
    cases e with
    | nil => rfl
    | cons c t => simp [List.dropWhile, he c rfl]
  | cons w ws ih =>
    simp only [List.cons_append, List.dropWhile, hws w (by simp)]
    exact ih (fun c hc => hws c (by simp [hc]))



set_option maxRecDepth 100000

theorem formTemplate_holesOk (b : Bool) : holesOk .data (formTemplate b) = true := by cases b <;> decide
theorem formTemplate_known (b : Bool) : (formTemplate b).all knownPiece = true := by cases b <;> decide
theorem formTemplate_wf (b : Bool) :
    (endModeT .data (formTemplate b) == .data && !(scanT .data (formTemplate b)).contains .err) = true := by
  cases b <;> decide
theorem formTemplate_fields_relay :
    rawFields (collect {} (scanT .data (formTemplate true))) =
      [([.inr 10], [.inr 11]), (sRelayState.map .inl, [.inr 12])] := by decide
theorem formTemplate_fields_norelay :
    rawFields (collect {} (scanT .data (formTemplate false))) = [([.inr 10], [.inr 11])] := by decide
theorem formTemplate_actions (b : Bool) :
    rawActions (collect {} (scanT .data (formTemplate b))) = [[.inr 1]] := by cases b <;> decide

theorem formVals_no_quote (typ p loc rs : Bytes) : ∀ i, 34 ∉ formVals typ p loc rs i := by
  intro i
  unfold formVals
  split
  · exact htmlEscape_no_quote _
  split
  · exact htmlEscape_no_quote _
  split
  · exact htmlEscape_no_quote _
  split
  · exact htmlEscape_no_quote _
  · simp

theorem formPost_eq (typ msg loc rs p : Bytes) (hp : postPayload typ msg = some p) :
    formPost typ msg loc rs = some (render (formVals typ p loc rs) (formTemplate (!rs.isEmpty))) := by
  unfold formPost
  simp [hp, formTemplate_known]

theorem formPost_some (typ msg loc rs html : Bytes) (h : formPost typ msg loc rs = some html) :
    ∃ p, postPayload typ msg = some p ∧ html = render (formVals typ p loc rs) (formTemplate (!rs.isEmpty)) := by
  cases hp : postPayload typ msg with
  | none => simp [formPost, hp] at h
  | some p =>
    rw [formPost_eq typ msg loc rs p hp] at h
    exact ⟨p, rfl, (Option.some.inj h).symm⟩

theorem instVal_hole (vals : Nat → Bytes) (i : Nat) : instVal vals [.inr i] = vals i := by
  simp [instVal]

theorem instVal_lit (vals : Nat → Bytes) (l : List Nat) : instVal vals (l.map .inl) = l := by
  induction l with
  | nil => rfl
  | cons c l ih =>
    simp only [instVal, List.map_cons, List.flatMap_cons] at ih ⊢
    rw [ih]; rfl

theorem escapedIs_escape (s : Bytes) : escapedIs (htmlEscape s) s = true := by
  unfold escapedIs
  have h := htmlEscape_inert s
  unfold inertEscaped at h
  rw [Bool.and_eq_true, List.all_eq_true] at h
  have h60 : 60 ∉ htmlEscape s := by
    intro hc
    have := h.1 60 hc
    simp at this
  simp [h60, h.2, htmlUnescape_escape]


/-- The controls a browser submits and the form's target, entity-decoded. -/
def submitted (html : Bytes) : List (Bytes × Bytes) :=
  (rawFields (tags html)).map (fun p => (htmlUnescape p.1, htmlUnescape p.2))
def formActions (html : Bytes) : List Bytes := (rawActions (tags html)).map htmlUnescape

theorem fields_of_form (typ p loc rs : Bytes) :
    submitted (render (formVals typ p loc rs) (formTemplate (!rs.isEmpty))) = withRelay (typ, p) rs ∧
    formActions (render (formVals typ p loc rs) (formTemplate (!rs.isEmpty))) = [loc] := by
  have hv := formVals_no_quote typ p loc rs
  have hok := formTemplate_holesOk (!rs.isEmpty)
  unfold submitted formActions
  rw [tags_render _ hv _ hok, rawFields_inst, rawActions_inst, formTemplate_actions]
  constructor
  · unfold withRelay
    by_cases he : rs.isEmpty = true
    · simp [he, formTemplate_fields_norelay, instVal_hole, formVals, htmlUnescape_escape]
    · have he' : rs.isEmpty = false := by simpa using he
      simp only [he', Bool.not_false, formTemplate_fields_relay, List.map_cons, List.map_nil, instVal_hole,
        instVal_lit, Bool.false_eq_true, if_false]
      simp [formVals, htmlUnescape_escape]
      decide
  · simp [instVal_hole, formVals, htmlUnescape_escape]




theorem qsInsert_fresh (k v : Bytes) (d : List (Bytes × List Bytes)) (h : k ∉ d.map (·.1)) :
    qsInsert k v d = d ++ [(k, [v])] := by
  induction d with
  | nil => rfl
  | cons x d ih =>
    obtain ⟨k', vs⟩ := x
    have hne : k' ≠ k := by intro e; subst e; simp at h
    have hd : k ∉ d.map (·.1) := fun hm => h (by simp [hm])
    simp [qsInsert, hne, ih hd]

theorem foldl_qsInsert (ps : List (Bytes × Bytes)) (acc : List (Bytes × List Bytes))
    (hnd : (ps.map (·.1)).Nodup) (hdis : ∀ k ∈ ps.map (·.1), k ∉ acc.map (·.1)) :
    ps.foldl (fun d kv => qsInsert kv.1 kv.2 d) acc = acc ++ ps.map (fun kv => (kv.1, [kv.2])) := by
  induction ps generalizing acc with
  | nil => simp
  | cons p ps ih =>
    simp only [List.map_cons, List.nodup_cons] at hnd
    obtain ⟨hp, hnd⟩ := hnd
    simp only [List.foldl_cons]
    rw [qsInsert_fresh p.1 p.2 acc (hdis p.1 (by simp))]
    rw [ih _ hnd]
    · simp
    · intro k hk
      simp only [List.map_append, List.map_cons, List.map_nil, List.mem_append, List.mem_singleton, not_or]
      refine ⟨hdis k (by simp [hk]), ?_⟩
      intro e; subst e; exact hp hk


end C14
