/-
  C14 — helper lemmas about URL query extraction (`queryOf`), `parse_qsl` over glued URLs and
  `pack.add_query` (`addQuery_spec`).
-/
import PysamlModel.Proofs.C14Codec
import PysamlModel.Model.Bindings
import PysamlModel.Spec.C14
namespace Codec

theorem takeWhile_all {p : Nat → Bool} (l : List Nat) (h : ∀ x ∈ l, p x = true) : l.takeWhile p = l := by
  induction l with
  | nil => rfl
  | cons x l ih => simp [List.takeWhile, h x (by simp), ih (fun y hy => h y (by simp [hy]))]

theorem dropWhile_all {p : Nat → Bool} (l : List Nat) (h : ∀ x ∈ l, p x = true) : l.dropWhile p = [] := by
  induction l with
  | nil => rfl
  | cons x l ih => simp [List.dropWhile, h x (by simp), ih (fun y hy => h y (by simp [hy]))]

theorem dropWhile_append_of_mem {p : Nat → Bool} (l r : List Nat) (h : ∃ x ∈ l, p x = false) :
    (l ++ r).dropWhile p = l.dropWhile p ++ r := by
  induction l with
  | nil => obtain ⟨x, hx, _⟩ := h; cases hx
  | cons y l ih =>
    by_cases hy : p y = true
    · obtain ⟨x, hx, hpx⟩ := h
      have : x ∈ l := by
        rcases List.mem_cons.mp hx with e | e
        · subst e; rw [hy] at hpx; cases hpx
        · exact e
      simp [List.dropWhile, hy, ih ⟨x, this, hpx⟩]
    · simp [List.dropWhile, hy]

theorem mem_of_dropWhile_nil {p : Nat → Bool} (l : List Nat) (h : l.dropWhile p = []) : ∀ x ∈ l, p x = true := by
  induction l with
  | nil => intro x hx; cases hx
  | cons y l ih =>
    by_cases hy : p y = true
    · simp [List.dropWhile, hy] at h
      intro x hx
      rcases List.mem_cons.mp hx with e | e
      · subst e; exact hy
      · exact ih h x e
    · simp [List.dropWhile, hy] at h

theorem ne_of_not_mem {c : Nat} {l : List Nat} (h : c ∉ l) : ∀ x ∈ l, (x != c) = true := by
  intro x hx
  simp
  intro e; subst e; exact h hx

theorem queryOf_no_q (loc : Bytes) (h : 63 ∉ loc) : queryOf loc = [] := by
  unfold queryOf
  have : 63 ∉ loc.takeWhile (· != 35) := fun hm => h ((List.takeWhile_sublist _).subset hm)
  rw [dropWhile_all _ (ne_of_not_mem this)]
  rfl

theorem mem_of_queryOf_ne_nil (loc : Bytes) (h : queryOf loc ≠ []) : 63 ∈ loc := by
  by_cases hm : 63 ∈ loc
  · exact hm
  · exact absurd (queryOf_no_q loc hm) h

/-- Gluing with `?` onto a destination that has neither `?` nor `#`. -/
theorem queryOf_glue_q (loc enc : Bytes) (h1 : 63 ∉ loc) (h2 : 35 ∉ loc) (h3 : 35 ∉ enc) :
    queryOf (loc ++ 63 :: enc) = enc := by
  unfold queryOf
  have hall : ∀ x ∈ loc ++ 63 :: enc, (x != 35) = true := by
    intro x hx
    rcases List.mem_append.mp hx with h | h
    · exact ne_of_not_mem h2 x h
    · rcases List.mem_cons.mp h with e | e
      · subst e; decide
      · exact ne_of_not_mem h3 x e
  rw [takeWhile_all _ hall]
  have : (loc ++ 63 :: enc).dropWhile (· != 63) = 63 :: enc := by
    induction loc with
    | nil => simp
    | cons y l ih =>
      have hy : y ≠ 63 := by intro e; subst e; simp at h1
      have : (y != 63) = true := by simp [hy]
      simp only [List.cons_append, List.dropWhile, this]
      apply ih
      · intro hm; exact h1 (by simp [hm])
      · intro hm; exact h2 (by simp [hm])
      · intro x hx; exact hall x (by simp at hx ⊢; right; exact hx)
  rw [this]; rfl

/-- Gluing with `&` onto a destination that has a `?` and no `#`. -/
theorem queryOf_glue_amp (loc enc : Bytes) (h1 : 63 ∈ loc) (h2 : 35 ∉ loc) (h3 : 35 ∉ enc) :
    queryOf (loc ++ 38 :: enc) = queryOf loc ++ 38 :: enc := by
  unfold queryOf
  have hall : ∀ x ∈ loc ++ 38 :: enc, (x != 35) = true := by
    intro x hx
    rcases List.mem_append.mp hx with h | h
    · exact ne_of_not_mem h2 x h
    · rcases List.mem_cons.mp h with e | e
      · subst e; decide
      · exact ne_of_not_mem h3 x e
  rw [takeWhile_all _ hall, takeWhile_all _ (ne_of_not_mem h2)]
  rw [dropWhile_append_of_mem loc (38 :: enc) ⟨63, h1, by decide⟩]
  have hne : loc.dropWhile (· != 63) ≠ [] := by
    intro e
    have := mem_of_dropWhile_nil loc e 63 h1
    simp at this
  cases hd : loc.dropWhile (· != 63) with
  | nil => exact absurd hd hne
  | cons a t => simp

theorem parseQsl_append (q e : Bytes) : parseQsl (q ++ 38 :: e) = parseQsl q ++ parseQsl e := by
  unfold parseQsl
  rw [split_append_sep_any, List.filterMap_append]

theorem b64char_lt (n : Nat) (h : n < 64) : b64char n < 128 := by
  unfold b64char; grind

theorem b64encode_ascii (bs : Bytes) (h : IsBytes bs) : ∀ c ∈ b64encode bs, c < 128 := by
  induction bs using b64encode.induct with
  | case1 => intro c hc; simp [b64encode] at hc
  | case2 a =>
    have ha : a < 256 := h a (by simp)
    intro c hc
    simp only [b64encode, List.mem_cons, List.not_mem_nil, or_false] at hc
    rcases hc with e | e | e | e <;> subst e
    · exact b64char_lt _ (by omega)
    · exact b64char_lt _ (by omega)
    · omega
    · omega
  | case3 a b =>
    have ha : a < 256 := h a (by simp)
    have hb : b < 256 := h b (by simp)
    intro c hc
    simp only [b64encode, List.mem_cons, List.not_mem_nil, or_false] at hc
    rcases hc with e | e | e | e <;> subst e
    · exact b64char_lt _ (by omega)
    · exact b64char_lt _ (by omega)
    · exact b64char_lt _ (by omega)
    · omega
  | case4 a b c rest ih =>
    have ha : a < 256 := h a (by simp)
    have hb : b < 256 := h b (by simp)
    have hc : c < 256 := h c (by simp)
    have hr : IsBytes rest := fun x hx => h x (by simp [hx])
    intro x hx
    rw [b64encode] at hx
    simp only [List.mem_cons] at hx
    rcases hx with e | e | e | e | e
    · subst e; exact b64char_lt _ (by omega)
    · subst e; exact b64char_lt _ (by omega)
    · subst e; exact b64char_lt _ (by omega)
    · subst e; exact b64char_lt _ (by omega)
    · exact ih hr x e

theorem b64encode_isBytes (bs : Bytes) (h : IsBytes bs) : IsBytes (b64encode bs) :=
  fun c hc => Nat.lt_trans (b64encode_ascii bs h c hc) (by decide)

theorem b64encode_ne_nil (bs : Bytes) (h : bs ≠ []) : b64encode bs ≠ [] := by
  cases bs with
  | nil => exact absurd rfl h
  | cons a t =>
    cases t with
    | nil => simp [b64encode]
    | cons b t =>
      cases t with
      | nil => simp [b64encode]
      | cons c t => simp [b64encode]

theorem b64decodeStr_encode (bs : Bytes) (h : IsBytes bs) : b64decodeStr (b64encode bs) = some bs := by
  unfold b64decodeStr
  have : (b64encode bs).all (· < 128) = true := by
    rw [List.all_eq_true]; intro c hc; simpa using b64encode_ascii bs h c hc
  rw [this]; simp [b64_roundtrip bs h]


end Codec

namespace Codec
open Bindings C14Spec


theorem takeWhile_all' {p : Nat → Bool} (l : List Nat) (h : ∀ x ∈ l, p x = true) : l.takeWhile p = l := by
  induction l with
  | nil => rfl
  | cons x l ih => simp [List.takeWhile, h x (by simp), ih (fun y hy => h y (by simp [hy]))]

/-- `takeWhile` stops at the first `#`: a `#`-free prefix followed by nothing or by `#…`. -/
theorem takeWhile_hash (a frag : Bytes) (ha : 35 ∉ a) (hf : frag = [] ∨ frag.head? = some 35) :
    (a ++ frag).takeWhile (· != 35) = a := by
  induction a with
  | nil =>
    rcases hf with e | e
    · subst e; rfl
    · cases frag with
      | nil => rfl
      | cons c t => simp at e; subst e; simp [List.takeWhile]
  | cons x a ih =>
    have hx : x ≠ 35 := by intro e; subst e; simp at ha
    have : (x != 35) = true := by simp [hx]
    simp only [List.cons_append, List.takeWhile, this]
    rw [ih (fun hm => ha (by simp [hm]))]

theorem dropWhile_head (l : Bytes) : l.dropWhile (· != 35) = [] ∨ (l.dropWhile (· != 35)).head? = some 35 := by
  induction l with
  | nil => left; rfl
  | cons x l ih =>
    by_cases hx : x = 35
    · subst hx; right; simp [List.dropWhile]
    · have : (x != 35) = true := by simp [hx]
      simp only [List.dropWhile, this]; exact ih

theorem not_mem_takeWhile_hash (l : Bytes) : 35 ∉ l.takeWhile (· != 35) := by
  induction l with
  | nil => simp
  | cons x l ih =>
    by_cases hx : x = 35
    · subst hx; simp [List.takeWhile]
    · have : (x != 35) = true := by simp [hx]
      simp only [List.takeWhile, this, List.mem_cons, not_or]
      exact ⟨fun e => hx e.symm, ih⟩


theorem dropWhile_q_fresh (base q : Bytes) (h : 63 ∉ base) : (base ++ 63 :: q).dropWhile (· != 63) = 63 :: q := by
  induction base with
  | nil => simp
  | cons y l ih =>
    have hy : y ≠ 63 := by intro e; subst e; simp at h
    have : (y != 63) = true := by simp [hy]
    simp only [List.cons_append, List.dropWhile, this]
    exact ih (fun hm => h (by simp [hm]))

theorem dropWhile_all' {p : Nat → Bool} (l : List Nat) (h : ∀ x ∈ l, p x = true) : l.dropWhile p = [] := by
  induction l with
  | nil => rfl
  | cons x l ih => simp [List.dropWhile, h x (by simp), ih (fun y hy => h y (by simp [hy]))]

theorem dropWhile_append_mem {p : Nat → Bool} (l r : List Nat) (h : ∃ x ∈ l, p x = false) :
    (l ++ r).dropWhile p = l.dropWhile p ++ r := by
  induction l with
  | nil => obtain ⟨x, hx, _⟩ := h; cases hx
  | cons y l ih =>
    by_cases hy : p y = true
    · obtain ⟨x, hx, hpx⟩ := h
      have : x ∈ l := by
        rcases List.mem_cons.mp hx with e | e
        · subst e; rw [hy] at hpx; cases hpx
        · exact e
      simp [List.dropWhile, hy, ih ⟨x, this, hpx⟩]
    · simp [List.dropWhile, hy]

/-- A list containing `?` splits at its first `?`. -/
theorem split_first_q (base : Bytes) (h : 63 ∈ base) :
    ∃ pre qb, base = pre ++ 63 :: qb ∧ 63 ∉ pre ∧ base.dropWhile (· != 63) = 63 :: qb := by
  induction base with
  | nil => cases h
  | cons y l ih =>
    by_cases hy : y = 63
    · subst hy; exact ⟨[], l, rfl, by simp, by simp [List.dropWhile]⟩
    · have hl : 63 ∈ l := by
        rcases List.mem_cons.mp h with e | e
        · exact absurd e.symm hy
        · exact e
      obtain ⟨pre, qb, h1, h2, h3⟩ := ih hl
      refine ⟨y :: pre, qb, by simp [h1], ?_, ?_⟩
      · simp only [List.mem_cons, not_or]; exact ⟨fun e => hy e.symm, h2⟩
      · have : (y != 63) = true := by simp [hy]
        simp only [List.dropWhile, this]; exact h3

theorem snoc_of_getLast? (l : Bytes) (x : Nat) (h : l.getLast? = some x) : ∃ l', l = l' ++ [x] := by
  induction l with
  | nil => simp at h
  | cons a t ih =>
    cases t with
    | nil => simp at h; subst h; exact ⟨[], rfl⟩
    | cons b t' =>
      rw [List.getLast?_cons_cons] at h
      obtain ⟨l', hl⟩ := ih h
      exact ⟨a :: l', by rw [hl]; rfl⟩

theorem parseQsl_nil : parseQsl [] = [] := by
  simp [parseQsl, split, splitOn, parseField, splitFirst]

theorem parseQsl_append' (q e : Bytes) : parseQsl (q ++ 38 :: e) = parseQsl q ++ parseQsl e := by
  unfold parseQsl
  rw [split_append_sep_any, List.filterMap_append]

/-- **`add_query` delivers** for EVERY destination (with or without fragment, with no query, an
    empty query or an existing one): the receiver's parameters are the destination's own followed
    by the parameters of the appended query. -/
theorem addQuery_spec (loc q : Bytes) (args : List (Bytes × Bytes)) (hq : 35 ∉ q) (hp : parseQsl q = args) :
    specUrl loc args (addQuery loc q) = true := by
  unfold specUrl addQuery
  simp only
  generalize hbase : loc.takeWhile (· != 35) = base
  have hb35 : 35 ∉ base := by rw [← hbase]; exact not_mem_takeWhile_hash loc
  have hfrag := dropWhile_head loc
  have hqloc : queryOf loc = (base.dropWhile (· != 63)).drop 1 := by unfold queryOf; rw [hbase]
  rw [hqloc]
  by_cases h63 : 63 ∈ base
  · obtain ⟨pre, qb, hsplit, hpre, hdw⟩ := split_first_q base h63
    have hc : base.contains 63 = true := by simpa using h63
    simp only [hc, Bool.not_true, Bool.false_eq_true, if_false]
    rw [hdw]
    simp only [List.drop_succ_cons, List.drop_zero]
    by_cases hg : qb = [] ∨ qb.getLast? = some 38
    · simp only [hg, if_true, List.append_nil]
      unfold queryOf
      rw [takeWhile_hash (base ++ q) _ (by simp [hb35, hq]) hfrag,
        dropWhile_append_mem base q ⟨63, h63, by decide⟩, hdw]
      simp only [List.cons_append, List.drop_succ_cons, List.drop_zero]
      rcases hg with hqb | h38
      · subst hqb; simp [parseQsl_nil, hp]
      · obtain ⟨qb', rfl⟩ := snoc_of_getLast? qb 38 h38
        rw [List.append_assoc, List.singleton_append, parseQsl_append', parseQsl_append', parseQsl_nil, hp]
        simp
    · simp only [hg, if_false]
      unfold queryOf
      rw [takeWhile_hash (base ++ [38] ++ q) _ (by simp [hb35, hq]) hfrag, List.append_assoc,
        dropWhile_append_mem base ([38] ++ q) ⟨63, h63, by decide⟩, hdw]
      simp only [List.cons_append, List.drop_succ_cons, List.drop_zero, List.nil_append]
      rw [parseQsl_append', hp]
      simp
  · have hc : base.contains 63 = false := by simpa using h63
    simp only [hc, Bool.not_false, if_true]
    unfold queryOf
    rw [takeWhile_hash (base ++ [63] ++ q) _ (by simp [hb35, hq]) hfrag, List.append_assoc]
    simp only [List.singleton_append]
    rw [dropWhile_q_fresh base q h63]
    have : base.dropWhile (· != 63) = [] := dropWhile_all' base (by
      intro x hx; simp; intro e; subst e; exact h63 hx)
    rw [this]
    simp [parseQsl_nil, hp]

end Codec

namespace C14
open Codec Bindings C14Spec



theorem isBytes_SAMLRequest : IsBytes sSAMLRequest := by decide
theorem isBytes_SAMLResponse : IsBytes sSAMLResponse := by decide
theorem isBytes_SAMLart : IsBytes sSAMLart := by decide
theorem isBytes_RelayState : IsBytes sRelayState := by decide

theorem unravelRedirect_deflated (D : Deflate) (m : Bytes) (hm : IsBytes m) :
    unravelRedirect D.inflate (b64encode (D.deflate m)) = some m := by
  unfold unravelRedirect
  rw [b64decodeStr_encode _ (D.isBytes m hm)]
  simp [D.law m hm]

/-- `withRelay` parameters survive `urlencode`/`parse_qsl`. -/
theorem withRelay_roundtrip (k v rs : Bytes) (hk : IsBytes k) (hv : IsBytes v) (hne : v ≠ []) (hrs : IsBytes rs) :
    parseQsl (urlencode (withRelay (k, v) rs)) = withRelay (k, v) rs := by
  apply urlencode_roundtrip
  intro kv hkv
  unfold withRelay at hkv
  by_cases he : rs.isEmpty = true
  · simp [he] at hkv; subst hkv; exact ⟨hk, hv, hne⟩
  · simp [he] at hkv
    rcases hkv with e | e
    · subst e; exact ⟨hk, hv, hne⟩
    · subst e
      refine ⟨isBytes_RelayState, hrs, ?_⟩
      intro e; exact he (by simpa using e)




theorem specRedirect_of_params (inflate : Bytes → Option Bytes) (typ msg loc rs url v : Bytes)
    (hps : parseQsl (queryOf url) = parseQsl (queryOf loc) ++ withRelay (typ, v) rs)
    (hv : (if typ = sSAMLart then v == msg else specRedirectDelivery inflate v msg) = true) :
    specRedirect inflate typ msg loc rs url = true := by
  unfold specRedirect
  rw [Bool.or_eq_true]
  right
  simp only [hps, List.take_left', List.drop_left', beq_self_eq_true, Bool.true_and]
  unfold withRelay
  by_cases he : rs.isEmpty = true
  · simp [he, hv]
  · simp [he, hv]


end C14
