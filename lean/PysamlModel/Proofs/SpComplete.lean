/-
  Lemmas for the completeness halves of C01 (signatures) over the SP model: the checks other than
  the signature tests do not look at `Assertion.sig` / `Response.sig`.
-/
import PysamlModel.Proofs.Sp

namespace Sp

def setValid (a : Assertion) : Assertion := { a with sig := .valid }

theorem allSigned_assertions (r : Response) : (allSigned r).assertions = r.assertions.map setValid := rfl

theorem filter_map_setValid (p : Assertion → Bool) (hp : ∀ a, p (setValid a) = p a) (l : List Assertion) :
    (l.map setValid).filter p = (l.filter p).map setValid := by
  induction l with
  | nil => rfl
  | cons a rest ih =>
    simp only [List.map_cons, List.filter_cons, hp a]
    split <;> simp [ih]

theorem takeWhile_map_setValid (p : Assertion → Bool) (hp : ∀ a, p (setValid a) = p a) (l : List Assertion) :
    (l.map setValid).takeWhile p = (l.takeWhile p).map setValid := by
  induction l with
  | nil => rfl
  | cons a rest ih =>
    simp only [List.map_cons, List.takeWhile_cons, hp a]
    split <;> simp [ih]

theorem plainOf_allSigned (r : Response) : plainOf (allSigned r) = (plainOf r).map setValid := by
  unfold plainOf
  rw [allSigned_assertions]
  exact filter_map_setValid _ (fun _ => rfl) _

theorem encOf_allSigned (r : Response) : encOf (allSigned r) = (encOf r).map setValid := by
  unfold encOf
  rw [allSigned_assertions]
  exact filter_map_setValid _ (fun _ => rfl) _

theorem decOf_allSigned (r : Response) : decOf (allSigned r) = (decOf r).map setValid := by
  unfold decOf
  rw [encOf_allSigned]
  exact takeWhile_map_setValid _ (fun _ => rfl) _

/-- the body of `_assertion` after the signature tests -/
def checkBody (cfg : Cfg) (env : Env) (st : St) (a : Assertion) : Except Err St :=
  match authnStatementOk cfg env { st with hasAssertion := true } a with
  | .error e => .error e
  | .ok st1 =>
    match conditionOk cfg env st1 a with
    | .error e => .error e
    | .ok st2 =>
      match getSubject cfg env st2 a with
      | .error e => .error e
      | .ok st3 =>
        if env.asynchop && !cfg.allowUnsolicited && st3.cameFrom.isNone then .error .cameFrom else .ok st3

theorem checkBody_setValid (cfg : Cfg) (env : Env) (st : St) (a : Assertion) :
    checkBody cfg env st (setValid a) = checkBody cfg env st a := rfl

theorem checkAssertion_eq (cfg : Cfg) (env : Env) (rs v : Bool) (st : St) (a : Assertion) :
    checkAssertion cfg env rs v st a =
      (if !a.sig.present && rs then .error .sigMissingAssertion
       else if a.sig.present && !v && a.sig != .valid then .error .sigBadAssertion
       else checkBody cfg env st a) := rfl

theorem checkAssertion_valid (cfg : Cfg) (env : Env) (rs v : Bool) (st : St) (a : Assertion) (h : a.sig = .valid) :
    checkAssertion cfg env rs v st a = checkBody cfg env st a := by
  rw [checkAssertion_eq]
  simp [h, Sig.present]

theorem checkAssertion_absent_lax (cfg : Cfg) (env : Env) (v : Bool) (st : St) (a : Assertion) (h : a.sig = .absent) :
    checkAssertion cfg env false v st a = checkBody cfg env st a := by
  rw [checkAssertion_eq]
  simp [h, Sig.present]

theorem checkAssertion_absent_forced (cfg : Cfg) (env : Env) (v : Bool) (st : St) (a : Assertion) (h : a.sig = .absent) :
    checkAssertion cfg env true v st a = .error .sigMissingAssertion := by
  rw [checkAssertion_eq]
  simp [h, Sig.present]

theorem sigOk_cases {s : Sig} (h : sigOk s = true) : s = .absent ∨ s = .valid := by
  cases s <;> simp_all [sigOk]

/-- lax pass on a list whose signatures are absent-or-valid = any pass on the all-valid copy -/
theorem checkAll_lax (cfg : Cfg) (env : Env) (v rs' v' : Bool) :
    ∀ (as : List Assertion) (st : St), (∀ a ∈ as, sigOk a.sig = true) →
      checkAll cfg env false v st as = checkAll cfg env rs' v' st (as.map setValid)
  | [], _, _ => rfl
  | a :: rest, st, h => by
    have ha := sigOk_cases (h a (List.mem_cons_self ..))
    have hbody : checkAssertion cfg env false v st a = checkAssertion cfg env rs' v' st (setValid a) := by
      rw [checkAssertion_valid cfg env rs' v' st (setValid a) rfl, checkBody_setValid]
      rcases ha with ha | ha
      · exact checkAssertion_absent_lax cfg env v st a ha
      · exact checkAssertion_valid cfg env false v st a ha
    simp only [List.map_cons, checkAll, hbody]
    cases checkAssertion cfg env rs' v' st (setValid a) with
    | error e => rfl
    | ok st1 => exact checkAll_lax cfg env v rs' v' rest st1 (fun b hb => h b (List.mem_cons_of_mem _ hb))

/-- forced pass on a list whose signatures are all valid = any pass on the all-valid copy -/
theorem checkAll_forced_valid (cfg : Cfg) (env : Env) (v rs' v' : Bool) :
    ∀ (as : List Assertion) (st : St), (∀ a ∈ as, a.sig = .valid) →
      checkAll cfg env true v st as = checkAll cfg env rs' v' st (as.map setValid)
  | [], _, _ => rfl
  | a :: rest, st, h => by
    have ha := h a (List.mem_cons_self ..)
    have hbody : checkAssertion cfg env true v st a = checkAssertion cfg env rs' v' st (setValid a) := by
      rw [checkAssertion_valid cfg env rs' v' st (setValid a) rfl, checkBody_setValid,
        checkAssertion_valid cfg env true v st a ha]
    simp only [List.map_cons, checkAll, hbody]
    cases checkAssertion cfg env rs' v' st (setValid a) with
    | error e => rfl
    | ok st1 => exact checkAll_forced_valid cfg env v rs' v' rest st1 (fun b hb => h b (List.mem_cons_of_mem _ hb))

/-- forced pass fails with "signature missing" when some signature is absent, all are absent-or-valid
    and the all-valid copy passes -/
theorem checkAll_forced_missing (cfg : Cfg) (env : Env) (v rs' v' : Bool) :
    ∀ (as : List Assertion) (st st' : St), (∀ a ∈ as, sigOk a.sig = true) → (∃ a ∈ as, a.sig ≠ .valid) →
      checkAll cfg env rs' v' st (as.map setValid) = .ok st' →
      checkAll cfg env true v st as = .error .sigMissingAssertion
  | [], _, _, _, hex, _ => by obtain ⟨a, ha, _⟩ := hex; cases ha
  | a :: rest, st, st', h, hex, hok => by
    rcases sigOk_cases (h a (List.mem_cons_self ..)) with ha | ha
    · simp only [checkAll, checkAssertion_absent_forced cfg env v st a ha]
    · have hbody : checkAssertion cfg env true v st a = checkAssertion cfg env rs' v' st (setValid a) := by
        rw [checkAssertion_valid cfg env rs' v' st (setValid a) rfl, checkBody_setValid,
          checkAssertion_valid cfg env true v st a ha]
      simp only [List.map_cons, checkAll] at hok
      simp only [checkAll, hbody]
      cases hc : checkAssertion cfg env rs' v' st (setValid a) with
      | error e => rw [hc] at hok; cases hok
      | ok st1 =>
        rw [hc] at hok
        simp only at hok ⊢
        apply checkAll_forced_missing cfg env v rs' v' rest st1 st' (fun b hb => h b (List.mem_cons_of_mem _ hb)) _ hok
        obtain ⟨b, hb, hbv⟩ := hex
        rcases List.mem_cons.mp hb with rfl | hb'
        · exact absurd ha hbv
        · exact ⟨b, hb', hbv⟩

theorem scanSc_sigfree (irp : Option String) (l : List SubjConf) : scanSc irp l = scanSc irp l := rfl

theorem scanAssertions_setValid (irp : Option String) :
    ∀ (as : List Assertion), scanAssertions irp (as.map setValid) = scanAssertions irp as
  | [] => rfl
  | a :: rest => by
    simp only [List.map_cons, scanAssertions]
    have : (setValid a).subject = a.subject := rfl
    rw [this]
    cases a.subject with
    | none => rfl
    | some s =>
      simp only
      rw [scanAssertions_setValid irp rest]

end Sp

namespace Sp

/-- the correlation part of `loads` (everything after the signature tests) -/
def corr (cfg : Cfg) (env : Env) (r : Response) : Except Err (Option String) :=
  if env.asynchop then
    match r.inResponseTo.bind (fun i => env.outstanding.lookup i) with
    | some cf =>
      if scanAssertions r.inResponseTo (plainOf r) then .error .unsolicited
      else .ok (some cf)
    | none =>
      if cfg.allowUnsolicited then .ok none else .error .unsolicited
  else .ok none

theorem loads_eq (cfg : Cfg) (env : Env) (req : Bool) (r : Response) :
    loads cfg env req r =
      (if r.sig.present && r.sig != .valid then .error .sigBadResponse
       else if !r.sig.present && req then .error .sigMissingResponse
       else corr cfg env r) := rfl

theorem corr_allSigned (cfg : Cfg) (env : Env) (r : Response) : corr cfg env (allSigned r) = corr cfg env r := by
  unfold corr
  rw [plainOf_allSigned, scanAssertions_setValid]
  rfl

theorem loads_valid (cfg : Cfg) (env : Env) (req : Bool) (r : Response) (h : r.sig = .valid) :
    loads cfg env req r = corr cfg env r := by
  rw [loads_eq]; simp [h, Sig.present]

theorem loads_absent_lax (cfg : Cfg) (env : Env) (r : Response) (h : r.sig = .absent) :
    loads cfg env false r = corr cfg env r := by
  rw [loads_eq]; simp [h, Sig.present]

theorem loads_absent_forced (cfg : Cfg) (env : Env) (r : Response) (h : r.sig = .absent) :
    loads cfg env true r = .error .sigMissingResponse := by
  rw [loads_eq]; simp [h, Sig.present]

theorem corr_of_pass1_allSigned {cfg : Cfg} {env : Env} {r : Response} {cf : Option String} {b : Bool}
    (h : pass1 cfg env (allSigned r) = .ok (cf, b)) : corr cfg env r = .ok cf := by
  obtain ⟨req, hl, _, _⟩ := pass1_ok_inv h
  rw [loads_valid cfg env req (allSigned r) rfl, corr_allSigned] at hl
  exact hl

/-- `pass1` on the original message, given that the fully signed copy got through -/
theorem pass1_complete {cfg : Cfg} {env : Env} {r : Response} {cf : Option String} {b : Bool}
    (h : pass1 cfg env (allSigned r) = .ok (cf, b))
    (hsig : sigOk r.sig = true) (hwant : cfg.wantResp = true → r.sig = .valid) :
    pass1 cfg env r = .ok (cf, decide (r.sig = .valid)) := by
  have hc := corr_of_pass1_allSigned h
  unfold pass1
  rcases sigOk_cases hsig with hs | hs
  · rw [loads_absent_forced cfg env r hs]
    simp only
    have hw : cfg.wantResp = false := by
      cases hw : cfg.wantResp with
      | false => rfl
      | true => have := hwant hw; rw [hs] at this; cases this
    rw [hw, loads_absent_lax cfg env r hs, hc]
    simp [hs]
  · rw [loads_valid cfg env true r hs, hc]
    simp [hs]

theorem verifyEnvelope_allSigned (cfg : Cfg) (env : Env) (r : Response) :
    verifyEnvelope cfg env (allSigned r) = verifyEnvelope cfg env r := rfl

theorem mem_visible_iff {r : Response} {a : Assertion} : a ∈ visible r ↔ a ∈ decOf r ∨ a ∈ plainOf r := by
  unfold visible; exact List.mem_append

/-- `parse_assertion` on the original vs. on the fully signed copy -/
theorem parseAssertion_complete {cfg : Cfg} {env : Env} {rs' : Bool} {st : St} {r : Response} {p' : Parsed}
    (h : parseAssertion cfg env rs' st (allSigned r) = .ok p')
    (hsig : ∀ a ∈ visible r, sigOk a.sig = true) :
    parseAssertion cfg env false st r = .ok { st := p'.st, used := decOf r ++ plainOf r, encLeft := p'.encLeft } ∧
    ((∀ a ∈ visible r, a.sig = .valid) →
      parseAssertion cfg env true st r = .ok { st := p'.st, used := decOf r ++ plainOf r, encLeft := p'.encLeft }) ∧
    ((∃ a ∈ visible r, a.sig ≠ .valid) → parseAssertion cfg env true st r = .error .sigMissingAssertion) := by
  obtain ⟨⟨st1, h1, h2⟩, _, hscan, _, hleft, hcount⟩ := parseAssertion_inv h
  rw [plainOf_allSigned] at h1 hcount
  rw [decOf_allSigned] at h2 hscan hleft
  rw [encOf_allSigned] at hcount hleft
  simp only [List.length_map, List.isEmpty_map] at hcount hleft
  have hscan' : (env.asynchop && (r.inResponseTo.bind (fun i => env.outstanding.lookup i)).isSome
      && scanAssertions r.inResponseTo (decOf r)) = false := by
    rw [scanAssertions_setValid] at hscan; exact hscan
  have hplain : ∀ a ∈ plainOf r, sigOk a.sig = true := fun a ha => hsig a (mem_visible_iff.mpr (Or.inr ha))
  have hdec : ∀ a ∈ decOf r, sigOk a.sig = true := fun a ha => hsig a (mem_visible_iff.mpr (Or.inl ha))
  have hnobad : (decOf r).any (fun a => a.sig.present && a.sig != .valid) = false := by
    apply List.any_eq_false.mpr
    intro a ha
    rcases sigOk_cases (hdec a ha) with hs | hs <;> simp [hs, Sig.present]
  have hcountB : ((plainOf r).length != 1 && (encOf r).length != 1 && !st.hasAssertion) = false := hcount
  refine ⟨?_, ?_, ?_⟩
  · unfold parseAssertion
    rw [hcountB, checkAll_lax cfg env false rs' false (plainOf r) st hplain, h1]
    simp only [Bool.false_eq_true, if_false, hnobad, hscan']
    rw [checkAll_lax cfg env true rs' true (decOf r) st1 hdec, h2]
    simp [hleft]
  · intro hall
    unfold parseAssertion
    rw [hcountB, checkAll_forced_valid cfg env false rs' false (plainOf r) st
      (fun a ha => hall a (mem_visible_iff.mpr (Or.inr ha))), h1]
    simp only [Bool.false_eq_true, if_false, hnobad, hscan']
    rw [checkAll_forced_valid cfg env true rs' true (decOf r) st1
      (fun a ha => hall a (mem_visible_iff.mpr (Or.inl ha))), h2]
    simp [hleft]
  · intro hex
    obtain ⟨a, ha, hav⟩ := hex
    unfold parseAssertion
    rw [hcountB]
    simp only [Bool.false_eq_true, if_false]
    by_cases hpl : ∃ b ∈ plainOf r, b.sig ≠ .valid
    · rw [checkAll_forced_missing cfg env false rs' false (plainOf r) st st1 hplain hpl h1]
    · have hallp : ∀ b ∈ plainOf r, b.sig = .valid := by
        intro b hb
        by_cases hv : b.sig = .valid
        · exact hv
        · exact absurd ⟨b, hb, hv⟩ hpl
      rw [checkAll_forced_valid cfg env false rs' false (plainOf r) st hallp, h1]
      simp only [hnobad, hscan', Bool.false_eq_true, if_false]
      have hdx : ∃ b ∈ decOf r, b.sig ≠ .valid := by
        rcases mem_visible_iff.mp ha with hd | hp
        · exact ⟨a, hd, hav⟩
        · exact absurd (hallp a hp) hav
      rw [checkAll_forced_missing cfg env true rs' true (decOf r) st1 p'.st hdec hdx h2]

end Sp
