/-
  C16 — the issuing side of encrypted assertions and the recipient's view of the wire form.

  IdP side, mirrored as it is in the pinned tree:

    Server.create_authn_response → gather_authn_response_args (keyword argument, else the idp
    configuration value, else `param_defaults`) → Server._authn_response (PEFIM: advice assertion,
    `encrypted_advice_attributes = encrypt_assertion_self_contained = True`; `to_sign` holds the assertion
    iff it is to be signed and NOT to be encrypted) → Entity._response: the early return (only when no
    advice is left to encrypt), the downgrade
    when no certificate exists (`has_encrypt_cert_in_metadata`, `… is None` tests), part B (advice:
    sign, then encrypt), part C (assertion: signature template, `pre_encrypt_assertion`, sign, encrypt) or
    the `to_sign` parts, part D (Response signature last) → Entity._encrypt_assertion (explicit
    certificate if truthy, else the metadata encryption certificates in order, first one that works)
    → CryptoBackendXmlSec1.encrypt_assertion (handed the serialised message).

  The wire form is a small tree in which an `EncryptedData` is an opaque box `sealed k x`
  (ideal encryption: it opens only for the private key matching `k`, and only while `intact`);
  a signature carries a snapshot of what it covered when it was computed (ideal signature: it
  verifies iff the covered part still looks the same).  Keys are opaque numbers.

  Recipient side: `receive` computes what `AuthnResponse.parse_assertion`'s decrypt loops make
  visible to a holder of a set of private keys (`decrypt_keys` order: per-request keys, then the
  configured `encryption_keypairs`) and in which state each signature is when it is checked; the result
  is an abstract `Sp.Response` handed to the shared `Sp.process`.
-/
import PysamlModel.Model.Sp

namespace Encrypt

abbrev Key := Nat

/-! ### certificates -/

inductive Use where
  | signing | encryption | unspecified
deriving Repr, DecidableEq, Inhabited

/-- one KeyDescriptor of the recipient in the IdP's metadata; `usable = false`: the certificate text is
    no certificate (encrypting with it raises) -/
structure MdKey where
  use : Use
  key : Key
  usable : Bool
deriving Repr, DecidableEq, Inhabited

/-- an `encrypt_cert_assertion` / `encrypt_cert_advice` argument -/
inductive CertArg where
  | none                              -- None
  | empty                             -- "" : falsy, but `is None` is false
  | cert (k : Key) (usable : Bool)
deriving Repr, DecidableEq, Inhabited

def CertArg.isNone : CertArg → Bool
  | .none => true
  | _ => false

/-- `MetaData.certs(entity, "any", "encryption")`: descriptors whose `use` is "encryption" or absent. -/
def encCerts (md : List MdKey) : List MdKey := md.filter (fun m => m.use != .signing)

/-- `has_encrypt_cert_in_metadata` (usable or not). -/
def hasEncryptCert (md : List MdKey) : Bool := !(encCerts md).isEmpty

inductive Choice where
  | key (k : Key)      -- encryption with this certificate is attempted first-successfully
  | nothing            -- no certificate to try: the message is returned as it is
  | raised             -- every certificate tried raised; the last exception is re-raised
deriving Repr, DecidableEq, Inhabited

/-- The certificate loop of `Entity._encrypt_assertion`. -/
def chooseCert (arg : CertArg) (md : List MdKey) : Choice :=
  match arg with
  | .cert k true => .key k
  | .cert _ false => .raised
  | _ =>
    match encCerts md with
    | [] => .nothing
    | c :: cs =>
      match (c :: cs).find? (·.usable) with
      | some m => .key m.key
      | none => .raised

/-! ### arguments -/

/-- keyword argument / configuration value: None, False, True -/
abbrev Tri := Option Bool

structure Opts (α : Type) where
  signResponse : α
  signAssertion : α
  encryptAssertion : α
  encryptedAdvice : α
  selfContained : α
deriving Repr, DecidableEq, Inhabited

/-- `val_kw if val_kw is not None else val_config if val_config is not None else val_default` -/
def resolve1 (kw cfg : Tri) (d : Bool) : Bool := kw.getD (cfg.getD d)

def resolve (kw cfg : Opts Tri) (d : Opts Bool) : Opts Bool :=
  { signResponse := resolve1 kw.signResponse cfg.signResponse d.signResponse
    signAssertion := resolve1 kw.signAssertion cfg.signAssertion d.signAssertion
    encryptAssertion := resolve1 kw.encryptAssertion cfg.encryptAssertion d.encryptAssertion
    encryptedAdvice := resolve1 kw.encryptedAdvice cfg.encryptedAdvice d.encryptedAdvice
    selfContained := resolve1 kw.selfContained cfg.selfContained d.selfContained }

/-- an assertion placed in the Advice element -/
structure Adv where
  signed : Bool := false
  schemaValid : Bool := true     -- since 8a6bffac PEFIM's advice assertion carries its Issuer: always true for issued advice
deriving Repr, DecidableEq, Inhabited

/-- The call `create_authn_response(…)` as far as signing / encryption go. -/
structure Call where
  kw : Opts Tri
  cfg : Opts Tri := ⟨none, none, none, none, none⟩
  dflt : Opts Bool := ⟨false, false, false, false, true⟩
  pefim : Bool := false
  certAssertion : CertArg := .none
  certAdvice : CertArg := .none
  md : List MdKey := []
  /-- the assertion handed to `_response` already carries one advice assertion (not PEFIM's own;
      unsigned, schema-valid) -/
  extraAdvice : Bool := false
deriving Repr, DecidableEq, Inhabited

/-! ### wire form -/

inductive AdvBox where
  | clear (a : Adv)
  | wrapped (a : Adv)                          -- <EncryptedAssertion><Assertion>…: never encrypted
  | sealed (k : Key) (a : Adv) (intact : Bool)
deriving Repr, DecidableEq, Inhabited

/-- the Response-level assertion -/
structure Outer where
  /-- signature, with the advice as it looked when the signature was computed -/
  sig : Option (Option AdvBox) := none
  advice : Option AdvBox := none
deriving Repr, DecidableEq, Inhabited

inductive Body where
  | clear (o : Outer)
  | wrapped (o : Outer)
  | sealed (k : Key) (o : Outer) (intact : Bool)
deriving Repr, DecidableEq, Inhabited

structure Wire where
  /-- Response signature, with the body as it looked when the signature was computed -/
  sig : Option Body := none
  body : Body
deriving Repr, DecidableEq, Inhabited

inductive Op where
  | signAdvice | encAdvice (k : Key) | signAssertion | encAssertion (k : Key) | signResponse
deriving Repr, DecidableEq, Inhabited

inductive Refusal where
  | noUsableCert      -- every certificate tried raised
  | parseObject       -- `response_from_string` applied to an object
  | ecpNeedsObject    -- create_ecp_authn_request_response wraps the Response with `element_to_extension_element`,
                      -- which raises AttributeError on text
deriving Repr, DecidableEq, Inhabited

/-- which way `_response` went (for the coverage histogram; no theorem looks at it) -/
inductive Branch where
  | early | plain | encrypting
deriving Repr, DecidableEq, Inhabited

structure Trace where
  branch : Branch := .plain
  downgradedAssertion : Bool := false
  downgradedAdvice : Bool := false
  partB : Bool := false
  partC : Bool := false
deriving Repr, DecidableEq, Inhabited

structure Issued where
  ops : List Op
  wire : Wire
  /-- the call returns text (something was signed, encrypted or rendered self-contained), not a Response object -/
  asString : Bool := false
  trace : Trace := {}
deriving Repr, DecidableEq, Inhabited

inductive Form where
  | obj | str
deriving Repr, DecidableEq, Inhabited

/-! ### Entity._response -/

structure RArgs where
  sign : Bool
  toSign : Bool                 -- the assertion is in `to_sign` (template attached by `_authn_response`)
  signAssertion : Bool
  encryptAssertion : Bool
  encryptedAdvice : Bool
  selfContained : Bool
  pefim : Bool
  certAssertion : CertArg
  certAdvice : CertArg
  md : List MdKey
  advice : Option Adv
deriving Repr, DecidableEq, Inhabited

/-- One `_encrypt_assertion` call: `some k` = encrypted with `k`, `none` = no certificate to try, the
    message comes back as it was.  (Since 9b391349 the message is handed to the crypto backend serialised,
    so it no longer matters whether it is still an object.) -/
def encryptStep (c : Choice) : Except Refusal (Option Key) :=
  match c with
  | .nothing => .ok none
  | .raised => .error .noUsableCert
  | .key k => .ok (some k)

/-- `encrypted_advice_attributes` after `if not has_encrypt_cert and encrypt_cert_advice is None: … = False` -/
def adviceKept (a : RArgs) : Bool := a.encryptedAdvice && (hasEncryptCert a.md || !a.certAdvice.isNone)
/-- `encrypt_assertion` after `if not has_encrypt_cert and encrypt_cert_assertion is None: … = False` -/
def assertionKept (a : RArgs) : Bool := a.encryptAssertion && (hasEncryptCert a.md || !a.certAssertion.isNone)

/-- `if to_sign and not sign and not encrypt_assertion:` … `if not advice_to_encrypt: return
    signed_instance_factory(response, …, to_sign)` (130fd4d2), where `advice_to_encrypt` is
    `encrypted_advice_attributes and advice is not None and len(advice.assertion) == 1 and
    (has_encrypt_cert or encrypt_cert_advice is not None)`. -/
def earlyReturn (a : RArgs) : Bool :=
  a.toSign && !a.sign && !a.encryptAssertion && !(adviceKept a && a.advice.isSome)

/-- part B signs the advice assertion: `if sign_assertion and not pefim` -/
def signsAdvice (a : RArgs) : Bool := a.signAssertion && !a.pefim

/-- is the message a string when part B is through with it?  It becomes one through the self-contained
    rendering, through `signed_instance_factory`, or through an encryption that took place. -/
def formB (a : RArgs) : Form := if a.selfContained || signsAdvice a then .str else .obj

/-- the advice assertion after part B's signing step -/
def advAfterB (a : RArgs) (adv : Adv) : Adv := { adv with signed := adv.signed || signsAdvice a }

def sealAdv (ko : Option Key) (adv : Adv) : AdvBox :=
  match ko with
  | some k => .sealed k adv true
  | none => .wrapped adv

def sealBody (ko : Option Key) (o : Outer) : Body :=
  match ko with
  | some k => .sealed k o true
  | none => .wrapped o

def optOp (b : Bool) (op : Op) : List Op := if b then [op] else []
def keyOp (f : Key → Op) (ko : Option Key) : List Op :=
  match ko with
  | some k => [f k]
  | none => []

/-- Part B: the advice assertion is moved into an EncryptedAssertion, signed (not under PEFIM) and
    encrypted; the result is parsed back (`response_from_string`, which needs a string).
    Returns the operations and the advice as it leaves the step. -/
def partB (a : RArgs) : Except Refusal (List Op × Option AdvBox) :=
  match a.advice with
  | none => .ok ([], none)
  | some adv =>
    if !adviceKept a then .ok ([], some (.clear adv))
    else
      match encryptStep (chooseCert a.certAdvice a.md) with
      | .error e => .error e
      | .ok ko =>
        if ko.isNone && formB a = .obj then .error .parseObject
        else .ok (optOp (signsAdvice a) .signAdvice ++ keyOp .encAdvice ko, some (sealAdv ko (advAfterB a adv)))

/-- Part D: the Response signature is computed last, over the body as it then is. -/
def finish (sign : Bool) (ops : List Op) (body : Body) (t : Trace) (str : Bool) : Issued :=
  { ops := ops ++ optOp sign .signResponse
    wire := { sig := if sign then some body else none, body := body }
    asString := str || sign
    trace := t }

/-- Part C: signature template on the assertion, `pre_encrypt_assertion`, sign, encrypt. -/
def partC (a : RArgs) (opsB : List Op) (advB : Option AdvBox) (t : Trace) : Except Refusal Issued :=
  let outer : Outer := { sig := if a.signAssertion then some advB else none, advice := advB }
  match encryptStep (chooseCert a.certAssertion a.md) with
  | .error e => .error e
  | .ok ko =>
    .ok (finish a.sign (opsB ++ optOp a.signAssertion .signAssertion ++ keyOp .encAssertion ko) (sealBody ko outer)
          { t with partC := true } (a.selfContained || a.signAssertion || ko.isSome))

def response (a : RArgs) : Except Refusal Issued :=
  let adv0 : Option AdvBox := a.advice.map .clear
  if earlyReturn a then
    -- only the extra parts are signed: return at once
    .ok { ops := [.signAssertion], wire := { sig := none, body := .clear { sig := some adv0, advice := adv0 } },
          asString := true, trace := { branch := .early } }
  else
    let t : Trace := { branch := .encrypting, downgradedAssertion := a.encryptAssertion && !assertionKept a,
                       downgradedAdvice := a.encryptedAdvice && !adviceKept a }
    if assertionKept a || (adviceKept a && a.advice.isSome) then
      match partB a with
      | .error e => .error e
      | .ok (opsB, advB) =>
        let t := { t with partB := adviceKept a && a.advice.isSome }
        if assertionKept a then partC a opsB advB t
        else
          -- `if to_sign: signed_instance_factory(response, …, to_sign)`
          let outer : Outer := { sig := if a.toSign then some advB else none, advice := advB }
          -- part B ended with `response_from_string`: an object again unless `to_sign` is signed now
          .ok (finish a.sign (opsB ++ optOp a.toSign .signAssertion) (.clear outer) t a.toSign)
    else
      -- nothing to encrypt: `self.sign(response, to_sign=to_sign)` or the bare message
      let signed := a.sign && a.toSign
      let outer : Outer := { sig := if signed then some adv0 else none, advice := adv0 }
      .ok (finish a.sign (optOp signed .signAssertion) (.clear outer) { t with branch := .plain } false)

/-! ### Server._authn_response / create_authn_response -/

def Call.opts (c : Call) : Opts Bool := resolve c.kw c.cfg c.dflt

/-- the advice assertion `_response` finds: PEFIM's own (attributes; with Issuer since 8a6bffac) or the one handed in -/
def Call.advice (c : Call) : Option Adv :=
  if c.pefim then some { signed := false, schemaValid := true }
  else if c.extraAdvice then some { signed := false, schemaValid := true }
  else none

def Call.rargs (c : Call) : RArgs :=
  let o := c.opts
  { sign := o.signResponse
    toSign := !o.encryptAssertion && o.signAssertion
    signAssertion := o.signAssertion
    encryptAssertion := o.encryptAssertion
    encryptedAdvice := o.encryptedAdvice || c.pefim
    selfContained := o.selfContained || c.pefim
    pefim := c.pefim
    certAssertion := c.certAssertion
    certAdvice := c.certAdvice
    md := c.md
    advice := c.advice }

def createAuthnResponse (c : Call) : Except Refusal Issued := response c.rargs

/-- `Server.create_ecp_authn_request_response`: the Response is put into a SOAP body as an extension element;
    that works for a Response object only. -/
def ecpWrap (iss : Issued) : Except Refusal Issued :=
  if iss.asString then .error .ecpNeedsObject else .ok iss

/-- the three entry points; the two wrappers forward `sign_response` / `sign_assertion` only (always, as
    positional arguments - `None` when the caller omitted them) and swallow every other keyword argument -/
inductive Entry where
  | direct | requestResponse | ecp
deriving Repr, DecidableEq, Inhabited

/-- the argument as the function body sees it: what the caller passed, else the signature default -/
def argOf (sigDefault : Tri) (given : Option Tri) : Tri := given.getD sigDefault

/-- keyword arguments reaching `gather_authn_response_args`.  `sig`: signature defaults of
    `create_authn_response`; `wsr`/`wsa`: signature defaults of the wrapper's `sign_response` / `sign_assertion`;
    `given`: what the caller wrote (`none` = omitted). -/
def kwOf (e : Entry) (sig : Opts Tri) (wsr wsa : Tri) (given : Opts (Option Tri)) : Opts Tri :=
  match e with
  | .direct =>
    { signResponse := argOf sig.signResponse given.signResponse, signAssertion := argOf sig.signAssertion given.signAssertion,
      encryptAssertion := argOf sig.encryptAssertion given.encryptAssertion,
      encryptedAdvice := argOf sig.encryptedAdvice given.encryptedAdvice,
      selfContained := argOf sig.selfContained given.selfContained }
  | _ =>
    { signResponse := argOf wsr given.signResponse, signAssertion := argOf wsa given.signAssertion,
      encryptAssertion := sig.encryptAssertion, encryptedAdvice := sig.encryptedAdvice, selfContained := sig.selfContained }

/-! ### what is readable on the wire without any key -/

structure Clear where
  assertion : Bool          -- an <Assertion> at Response level (also inside an EncryptedAssertion wrapper)
  adviceAssertion : Bool    -- an <Assertion> below an <Advice> (also inside a wrapper)
  nameId : Bool             -- the subject identifier (lives in the Response-level assertion)
  attrsOuter : Bool         -- attribute values of the Response-level assertion
  attrsAdvice : Bool        -- attribute values of the advice assertion
deriving Repr, DecidableEq, Inhabited

def AdvBox.isClearText : AdvBox → Bool
  | .sealed _ _ _ => false
  | _ => true

def Outer.adviceClear (o : Outer) : Bool :=
  match o.advice with
  | some b => b.isClearText
  | none => false

/-- `outerHasAttrs` / `adviceHasAttrs`: the Response-level assertion / the advice assertion carries attribute
    values (a content-shape parameter: an empty identity gives no attribute statement; under PEFIM the values
    live in the advice assertion). -/
def clearOf (outerHasAttrs adviceHasAttrs : Bool) (w : Wire) : Clear :=
  match w.body with
  | .sealed _ _ _ => ⟨false, false, false, false, false⟩
  | .clear o | .wrapped o => ⟨true, o.adviceClear, true, outerHasAttrs, adviceHasAttrs && o.adviceClear⟩

/-! ### the recipient -/

/-- private keys in the order `SecurityContext.decrypt` tries them: per-request keys, then configured ones -/
structure Recipient where
  explicitKeys : List Key := []
  configured : List Key := []
deriving Repr, DecidableEq, Inhabited

def Recipient.keys (r : Recipient) : List Key := r.explicitKeys ++ r.configured
def Recipient.holds (r : Recipient) (k : Key) : Bool := r.keys.contains k

/-- A bit flip in the wrapped key or the ciphertext of the EncryptedData that is visible on the wire. -/
def AdvBox.damage : AdvBox → AdvBox
  | .sealed k a _ => .sealed k a false
  | b => b

def Outer.damage (o : Outer) : Outer := { o with advice := o.advice.map AdvBox.damage }

def Body.damage : Body → Body
  | .sealed k o _ => .sealed k o false
  | .clear o => .clear o.damage
  | .wrapped o => .wrapped o.damage

def Wire.damage (w : Wire) : Wire := { w with body := w.body.damage }

/-- Does the damage hit anything? -/
def Wire.hasCiphertext (w : Wire) : Bool :=
  match w.body with
  | .sealed _ _ _ => true
  | .clear o | .wrapped o => match o.advice with | some (.sealed _ _ _) => true | _ => false

/-- Schema validity of what a signature check looks at (`validate_doc_with_schema` runs on the signed
    element): a wrapper without EncryptedData is invalid; so would be an advice assertion flagged
    `schemaValid = false` (none is issued since 8a6bffac gave PEFIM's advice assertion its Issuer). -/
def AdvBox.schemaOk : AdvBox → Bool
  | .clear a => a.schemaValid
  | .wrapped _ => false
  | .sealed _ _ _ => true

def Outer.schemaOk (o : Outer) : Bool :=
  match o.advice with
  | some b => b.schemaOk
  | none => true

def Body.schemaOk : Body → Bool
  | .clear o => o.schemaOk
  | .wrapped _ => false
  | .sealed _ _ _ => true

/-- State of the Response signature when `correctly_signed_response` checks it (on the message as received). -/
def respSig (w : Wire) : Sp.Sig :=
  match w.sig with
  | none => .absent
  | some b => if b = w.body && w.body.schemaOk then .valid else .corrupted

/-- State of the assertion signature when it is checked: for a clear assertion on the message as received,
    for an encrypted one right after ITS EncryptedData was opened (the advice is still as it was sent). -/
def outerSig (o : Outer) : Sp.Sig :=
  match o.sig with
  | none => .absent
  | some v => if v = o.advice && o.schemaOk then .valid else .corrupted

def Body.outer : Body → Outer
  | .clear o | .wrapped o | .sealed _ o _ => o

/-- What the recipient's decrypt loops make of the wire form. -/
structure Seen where
  respSig : Sp.Sig
  asrtSig : Sp.Sig
  encrypted : Bool            -- the Response holds an EncryptedAssertion, not an Assertion
  decryptable : Bool          -- … and its EncryptedData opens with one of the recipient's keys
  adviceVisible : Bool        -- the advice assertion's content reaches `get_identity` (given the outer one does)
deriving Repr, DecidableEq, Inhabited

def receive (rc : Recipient) (w : Wire) : Seen :=
  let o := w.body.outer
  let (enc, dec) : Bool × Bool :=
    match w.body with
    | .clear _ => (false, true)
    | .wrapped _ => (true, false)        -- no EncryptedData: `find_encrypt_data` is false, the wrapper is ignored
    | .sealed k _ intact => (true, intact && rc.holds k)
  let adv : Bool :=
    match o.advice with
    | none => false
    | some (.clear _) => true
    | some (.wrapped _) => enc && dec      -- read only when the decrypt block runs at all
    | some (.sealed k _ intact) => intact && rc.holds k
  { respSig := respSig w, asrtSig := outerSig o, encrypted := enc, decryptable := dec, adviceVisible := adv }

/-- The abstract Response handed to `Sp.process`: envelope `r` (its own `sig`/`assertions` are ignored),
    issued assertion content `a`. -/
def toSp (r : Sp.Response) (a : Sp.Assertion) (s : Seen) : Sp.Response :=
  { r with sig := s.respSig,
           assertions := [{ a with sig := s.asrtSig, encrypted := s.encrypted, decryptable := s.decryptable }] }

/-- Which attribute values the application gets when identity is produced. -/
structure Ava where
  outer : Bool      -- those of the Response-level assertion
  advice : Bool     -- those of the advice assertion
deriving Repr, DecidableEq, Inhabited

def avaOf (outerHasAttrs hasAdvice : Bool) (s : Seen) : Ava :=
  { outer := outerHasAttrs, advice := hasAdvice && s.adviceVisible }

end Encrypt
