/-
  C02 — which assertions `AuthnResponse.parse_assertion` adopts and which signature checks it makes
  on the way, across the encryption boundary (response.py: parse_assertion, _assertion,
  decrypt_assertions, find_encrypt_data).

  Two documents: `recv` (the text received, `self.xmlstr`: clear assertions are verified on it) and
  `decr` (the text after decryption, `decr_text`: assertions that travelled inside an
  EncryptedAssertion, directly below the Response or below an Advice, are verified on it).
  The signature check itself is a parameter `chk : decrypted? → path → Bool` (instantiated with
  `Xsw.checkSignature` by the driver and by the theorems).

  Order of the code, kept here because the sequence of checks is compared with the implementation:
    1. the saml2int rule: one clear assertion or one EncryptedAssertion, else refused;
    2. every clear assertion, in order: signed -> checked on `recv`; unsigned -> refused when a
       signature is required;
    3. only if the received Response holds EncryptedData (below the Response or below the Advice of a
       clear assertion): every assertion below an EncryptedAssertion child of the decrypted Response:
       signed -> checked on `decr`;  then the EncryptedAssertions inside the Advice of every assertion
       (decrypted ones first, then the clear ones): signed -> checked on `decr` (these are NOT adopted);
       then every decrypted assertion again: unsigned -> refused when a signature is required;
    4. adopted = decrypted assertions ++ clear assertions (the first one is `self.assertion`).
  A single decryption stage is modelled (no EncryptedData inside decrypted content).
-/
import PysamlModel.Model.Xsw

namespace Xsw

def tAssertion := "{urn:oasis:names:tc:SAML:2.0:assertion}Assertion"
def tEncryptedAssertion := "{urn:oasis:names:tc:SAML:2.0:assertion}EncryptedAssertion"
def tAdvice := "{urn:oasis:names:tc:SAML:2.0:assertion}Advice"
def tEncryptedData := "{http://www.w3.org/2001/04/xmlenc#}EncryptedData"

/-- object model: `x.signature` is set (some ds:Signature child) -/
def hasSig (n : XNode) : Bool := (lastChild n dsSignature).isSome

/-- the children of `n` (which sits at path `p`) with a given tag, with their paths -/
def kidsWith (n : XNode) (p : Path) (tag : String) : List (Path × XNode) :=
  (n.kids.zipIdx.filter (fun q => q.1.tag == tag)).map (fun q => (p ++ [q.2], q.1))

/-- `encrypted_assertion.encrypted_data is not None` -/
def hasEncData (ea : XNode) : Bool := (lastChild ea tEncryptedData).isSome

/-- `assertion.advice.encrypted_assertion` (singleton member Advice: the last one) -/
def adviceEnc (a : Path × XNode) : List (Path × XNode) :=
  match lastChild a.2 tAdvice with
  | some (i, adv) => kidsWith adv (a.1 ++ [i]) tEncryptedAssertion
  | none => []

/-- `find_encrypt_data(resp)` -/
def findEncryptData (resp : XNode) : Bool :=
  (kidsWith resp [] tEncryptedAssertion).any (fun e => hasEncData e.2) ||
  (kidsWith resp [] tAssertion).any (fun a => (adviceEnc a).any (fun e => hasEncData e.2))

/-- the assertions carried by a list of EncryptedAssertion elements (`decrypt_assertions`) -/
def carried (eas : List (Path × XNode)) : List (Path × XNode) :=
  eas.flatMap (fun e => kidsWith e.2 e.1 tAssertion)

/-- one step of the flow -/
inductive Act where
  | check (decr : Bool) (p : Path)      -- `_check_signature` on recv (false) / decr (true)
  | fail                                -- SignatureError("Signature missing for assertion")
deriving Repr, DecidableEq

/-- run the steps in order, stop at the first that fails; the checks made with their results -/
def runActs (chk : Bool → Path → Bool) : List Act → List (Bool × Path × Bool) × Bool
  | [] => ([], true)
  | .fail :: _ => ([], false)
  | .check d p :: rest =>
    if chk d p then
      let r := runActs chk rest
      ((d, p, true) :: r.1, r.2)
    else ([(d, p, false)], false)

inductive Adopted where
  | clear (p : Path)        -- path in `recv`
  | decrypted (p : Path)    -- path in `decr`
deriving Repr, DecidableEq

/-- the document and path an adopted assertion was taken from -/
def Adopted.doc (recv decr : XNode) : Adopted → XNode
  | .clear _ => recv
  | .decrypted _ => decr
def Adopted.path : Adopted → Path
  | .clear p => p
  | .decrypted p => p
def Adopted.isDecr : Adopted → Bool
  | .clear _ => false
  | .decrypted _ => true

/-- step for an assertion whose signature is checked where it is met -/
def actMust (requireSig decr : Bool) (a : Path × XNode) : List Act :=
  if hasSig a.2 then [.check decr a.1] else if requireSig then [.fail] else []
/-- `decrypt_assertions`: signed -> checked, unsigned -> let through (for now) -/
def actIfSigned (a : Path × XNode) : List Act :=
  if hasSig a.2 then [.check true a.1] else []
/-- `_assertion(assertion, verified=True)`: only the presence of a signature is looked at -/
def actPresence (requireSig : Bool) (a : Path × XNode) : List Act :=
  if !hasSig a.2 && requireSig then [.fail] else []

/-- the steps and (if all succeed) the adopted assertions -/
def plan (recv decr : XNode) (requireSig : Bool) : Option (List Act × List Adopted) :=
  let clear := kidsWith recv [] tAssertion
  let nEnc := (kidsWith recv [] tEncryptedAssertion).length
  if clear.length != 1 && nEnc != 1 then none
  else
    let s1 := clear.flatMap (actMust requireSig false)
    if findEncryptData recv then
      let enc := carried (kidsWith decr [] tEncryptedAssertion)
      let clearD := kidsWith decr [] tAssertion
      let adv := carried ((enc ++ clearD).flatMap adviceEnc)
      some (s1 ++ enc.flatMap actIfSigned ++ adv.flatMap actIfSigned ++ enc.flatMap (actPresence requireSig),
            enc.map (fun a => .decrypted a.1) ++ clear.map (fun a => .clear a.1))
    else some (s1, clear.map (fun a => .clear a.1))

structure FlowResult where
  calls : List (Bool × Path × Bool)
  adopted : Option (List Adopted)       -- none: refused
deriving Repr

def flow (recv decr : XNode) (requireSig : Bool) (chk : Bool → Path → Bool) : FlowResult :=
  match plan recv decr requireSig with
  | none => ⟨[], none⟩
  | some (acts, ad) =>
    let r := runActs chk acts
    ⟨r.1, if r.2 then some ad else none⟩

end Xsw
