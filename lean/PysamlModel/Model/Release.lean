/-
  C10 — attribute release: `saml2.assertion` (`_filter_values`, `_match`, `filter_on_attributes`,
  `filter_attribute_value_assertions`, `compile`, `Policy.get`, `Policy.get_entity_categories`,
  `Policy.filter`, `Policy.restrict`, `Assertion.apply_policy`), `MetadataStore.subject_id_requirement`
  (shape only) and the `MissingValue` handling of `Server.setup_assertion` / `_authn_response` /
  `create_attribute_response`.

  Strings are an arbitrary type `α` with decidable equality.  What the code does with a `str`
  is a parameter record `StrOps`: `lower` (`str.lower`), `truthy` (`bool(s)`), `empty` (`""`).  Compiled regular
  expressions are an arbitrary type `ρ`; `M r v` is `bool(r.match(v))` (supplied per case by the
  harness from the real `re`).  The driver instantiates `α := String`, `ρ := Nat`.

  The model mirrors the code AS IT IS (after the `fix:` commits), quirks included:
    * a `str`-valued identity attribute is ONE value (`_filter_values` wraps it, fix cea74591); a value
      listed twice by one RequestedAttribute is kept once; an unrestricted `str` passes through as a `str`;
    * `res[_fn].extend` on such a stored `str` (the same scalar attribute requested a second time)
      still raises `AttributeError`; an `AttributeValue` without text raises
      `KeyError`; `post_entity_categories` raises on a required attribute without friendly name
      and without a map entry (all three: `Err.crash`);
    * `for … else` in `post_entity_categories` always adds the key `""`;
    * `_authn_response` passes `best_effort=True` to `setup_assertion` whatever the caller said, so a
      `MissingValue` is swallowed and the UNFILTERED identity goes into the assertion.
-/
namespace Release

/-- Value of one identity attribute: pysaml2 accepts a plain `str` or a list of `str`. -/
inductive Val (α : Type) where
  | scalar (s : α)
  | list (l : List α)
deriving Repr, DecidableEq

/-- The values an attribute value stands for (what `do_ava` puts on the wire). -/
def Val.values {α : Type} : Val α → List α
  | .scalar s => [s]
  | .list l => l

/-- A Python dict with `str` keys, in insertion order. -/
abbrev Ava (α : Type) := List (α × Val α)

inductive Err where
  | missing   -- `MissingValue`
  | crash     -- any other exception escaping the call (`AttributeError`, `KeyError`)
deriving Repr, DecidableEq

structure StrOps (α : Type) where
  lower : α → α
  truthy : α → Bool
  empty : α

/-- `md:RequestedAttribute` as the dictionary `mdstore` hands out. -/
structure ReqAttr (α : Type) where
  name : α
  nameFormat : Option α := none
  friendlyName : Option α := none
  values : List α := []
  /-- some `AttributeValue` child carries no text: `av["text"]` raises `KeyError` -/
  noText : Bool := false
deriving Repr, DecidableEq

/-- One attribute converter: its name format and its `_fro` table (lower-cased wire name → local name). -/
structure Conv (α : Type) where
  nameFormat : α
  fro : List (α × α)
deriving Repr

variable {α : Type} [DecidableEq α]

/-- `d.get(k)` on an association list (first entry wins; Python dict keys are unique). -/
def dget {β : Type} (d : List (α × β)) (k : α) : Option β :=
  (d.find? (fun p => p.1 = k)).map (·.2)

/-- `d[k] = v`: replace in place or append. -/
def dset {β : Type} : List (α × β) → α → β → List (α × β)
  | [], k, v => [(k, v)]
  | (k', v') :: rest, k, v => if k' = k then (k, v) :: rest else (k', v') :: dset rest k v

/-- `attribute_converter.get_local_name`: the FIRST converter with that name format decides. -/
def getLocalName (acs : List (Conv α)) (attr : α) (nf : Option α) : Option α :=
  match acs.find? (fun c => some c.nameFormat = nf) with
  | some c => dget c.fro attr
  | none => none

/-- `assertion._match`. -/
def matchKey (S : StrOps α) (attr : α) (ava : Ava α) : Option α :=
  if ava.any (fun p => p.1 = attr) then some attr
  else if ava.any (fun p => p.1 = S.lower attr) then some (S.lower attr)
  else (ava.find? (fun p => S.lower p.1 = S.lower attr)).map (·.1)

/-- `get_local_name(acs, name, name_format) or friendly_name or ""`. -/
def localName (S : StrOps α) (acs : List (Conv α)) (r : ReqAttr α) : α :=
  match (getLocalName acs (S.lower r.name) r.nameFormat).filter S.truthy with
  | some x => x
  | none =>
    match r.friendlyName.filter S.truthy with
    | some x => x
    | none => S.empty

/-- `_match_attr_name` followed by the `if _fn:` test: `some k` = a truthy key of `ava`. -/
def matchAttrName (S : StrOps α) (acs : List (Conv α)) (r : ReqAttr α) (ava : Ava α) : Option α :=
  match (matchKey S (localName S acs r) ava).filter S.truthy with
  | some k => some k
  | none => (matchKey S (S.lower r.name) ava).filter S.truthy

/-- `old.extend(v for v in xs if v not in old)` — the generator sees what was appended before;
    also the loop `for val in vlist: if … and val not in res: res.append(val)` started from `[]`. -/
def extendNew (old : List α) : List α → List α
  | [] => old
  | v :: vs => if v ∈ old then extendNew old vs else extendNew (old ++ [v]) vs

/-- `_filter_values(vals, vlist)` without the `must` test: no listed value = any value (the
    attribute value passes through as it is, `str` or list); otherwise the listed values the
    user holds, each once (a `str` is one value). -/
def filterValues (vals : Val α) (vlist : List α) : Val α :=
  if vlist.isEmpty then vals
  else .list (extendNew [] (vlist.filter (fun v => decide (v ∈ vals.values))))

/-- `_apply_attr_value_restrictions(attr, res, must)` for the matched key `fn`. -/
def applyRestr (ava : Ava α) (r : ReqAttr α) (fn : α) (must : Bool) (res : Ava α) :
    Except Err (Ava α) :=
  if r.noText then .error .crash else
  match dget ava fn with
  | none => .error .crash                      -- unreachable: `fn` is a key of `ava`
  | some cur =>
    let fv := filterValues cur r.values
    let stored : Except Err (Ava α) :=
      match dget res fn with
      | some (.list old) => .ok (dset res fn (.list (extendNew old fv.values)))
      | some (.scalar _) => .error .crash      -- 'str' object has no attribute 'extend'
      | none => .ok (dset res fn fv)
    match stored with
    | .error e => .error e
    | .ok res' =>
      if must && !r.values.isEmpty && fv.values.isEmpty then .error .missing else .ok res'

/-- One iteration of the `for attr in required` / `for attr in optional` loops. -/
def foaStep (S : StrOps α) (acs : List (Conv α)) (ava : Ava α) (must failOn : Bool) (res : Ava α)
    (r : ReqAttr α) : Except Err (Ava α) :=
  match matchAttrName S acs r ava with
  | some fn => applyRestr ava r fn must res
  | none => if must && failOn then .error .missing else .ok res

/-- The two loops, left to right, stopping at the first exception. -/
def foaLoop (S : StrOps α) (acs : List (Conv α)) (ava : Ava α) (must failOn : Bool) :
    List (ReqAttr α) → Ava α → Except Err (Ava α)
  | [], res => .ok res
  | r :: rs, res =>
    match foaStep S acs ava must failOn res r with
    | .error e => .error e
    | .ok res' => foaLoop S acs ava must failOn rs res'

/-- `filter_on_attributes(ava, required, optional, acs, fail_on_unfulfilled_requirements)`. -/
def filterOnAttributes (S : StrOps α) (acs : List (Conv α)) (ava : Ava α) (required optional : List (ReqAttr α))
    (failOn : Bool) : Except Err (Ava α) :=
  match foaLoop S acs ava true failOn required [] with
  | .error e => .error e
  | .ok res => foaLoop S acs ava false failOn optional res

/-! ### attribute restrictions -/

/-- `list(set(l))` up to order. -/
def dedup : List α → List α
  | [] => []
  | x :: xs => if x ∈ dedup xs then dedup xs else x :: dedup xs

/-- Raw `attribute_restrictions` of one policy section: key → `None` | list of patterns. -/
abbrev RawRestr (α ρ : Type) := List (α × Option (List ρ))

/-- `compile`: keys lower-cased (a later key wins), an empty pattern list becomes `None`. -/
def compileRestr {ρ : Type} (S : StrOps α) (raw : RawRestr α ρ) : RawRestr α ρ :=
  raw.foldl (fun acc p => dset acc (S.lower p.1) (match p.2 with
    | some (x :: xs) => some (x :: xs)
    | _ => none)) []

/-- `filter_attribute_value_assertions(ava, restr)` for a non-empty compiled `restr`. -/
def filterAva {ρ : Type} (S : StrOps α) (M : ρ → α → Bool) (restr : RawRestr α ρ) (ava : Ava α) : Ava α :=
  ava.filterMap (fun p =>
    match dget restr (S.lower p.1) with
    | none => none                                   -- KeyError: attribute not listed
    | some none => some p                            -- listed without value restriction
    | some (some rs) =>
      let rvals := rs.flatMap (fun r => p.2.values.filter (M r))
      if rvals.isEmpty then none else some (p.1, .list (dedup rvals)))

/-! ### entity categories -/

inductive CatKey (α : Type) where
  | always                 -- key `""`
  | single (c : α)
  | all (cs : List α)      -- tuple key: every member must be among the requester's categories
deriving Repr, DecidableEq

/-- One item of a module's `RELEASE` with its `ONLY_REQUIRED` / `NO_AGGREGATION` flags. -/
structure CatEntry (α : Type) where
  key : CatKey α
  attrs : List α
  onlyRequired : Bool := false
  noAggregation : Bool := false
deriving Repr, DecidableEq

/-- Lower-cased friendly name of one required attribute, as `post_entity_categories` computes it
    (`d.get("friendly_name") or get_local_name(acs, d["name"], d["name_format"])`, then `.lower()`). -/
def reqFriendly (S : StrOps α) (acs : List (Conv α)) (d : ReqAttr α) : Except Err α :=
  match d.friendlyName.filter S.truthy with
  | some f => .ok (S.lower f)
  | none =>
    match d.nameFormat with
    | none => .error .crash                    -- KeyError: 'name_format'
    | some nf =>
      match getLocalName acs d.name (some nf) with
      | some l => .ok (S.lower l)
      | none => .error .crash                  -- 'NoneType' object has no attribute 'lower'

def reqFriendlyAll (S : StrOps α) (acs : List (Conv α)) : List (ReqAttr α) → Except Err (List α)
  | [] => .ok []
  | d :: ds =>
    match reqFriendly S acs d with
    | .error e => .error e
    | .ok f =>
      match reqFriendlyAll S acs ds with
      | .error e => .error e
      | .ok fs => .ok (f :: fs)

/-- Does the entry apply to a requester with entity categories `ecs`? -/
def CatKey.applies (ecs : List α) : CatKey α → Bool
  | .always => true
  | .single c => decide (c ∈ ecs)
  | .all cs => cs.all (fun c => decide (c ∈ ecs))

/-- Attributes one `RELEASE` item contributes (`attrs` of the loop body); the table's attribute
    names are lower-cased by `compile`. -/
def entryAttrs (S : StrOps α) (ecs required : List α) (e : CatEntry α) : List α :=
  let atlist := e.attrs.map S.lower
  match e.key with
  | .always => atlist                           -- `only_required` is not consulted for key ""
  | k =>
    if k.applies ecs then
      (if e.onlyRequired then atlist.filter (fun a => decide (a ∈ required)) else atlist)
    else []

/-- Loop body of `post_entity_categories`; the `for … else` adds `""` every time. -/
def catStep (S : StrOps α) (ecs required : List α) (restr : List α) (e : CatEntry α) : List α :=
  let attrs := entryAttrs S ecs required e
  (if !attrs.isEmpty && e.noAggregation then [] else restr) ++ attrs ++ [S.empty]

/-- `post_entity_categories`: the key set of the restriction dictionary. -/
def postEntityCategories (S : StrOps α) (acs : List (Conv α)) (maps : List (List (CatEntry α))) (hasMds : Bool)
    (ecs : List α) (required : List (ReqAttr α)) : Except Err (List α) :=
  match reqFriendlyAll S acs required with
  | .error e => .error e
  | .ok req => .ok (if hasMds then maps.flatten.foldl (catStep S ecs req) [] else [])

/-! ### policy sections and `Policy.get` -/

/-- One section of the policy configuration after `compile` (raw values kept; `compileRestr`
    is applied where the code uses the compiled form). -/
structure Section (α ρ : Type) where
  /-- `attribute_restrictions` as configured (`none` = absent / `None`) -/
  attrRestr : Option (RawRestr α ρ) := none
  /-- truthiness of a configured `fail_on_missing_requested` (`none` = absent / `None`) -/
  failOnMissing : Option Bool := none
  /-- `RELEASE` tables of the configured `entity_categories` modules, in configured order -/
  entCats : List (List (CatEntry α)) := []
  /-- `bool(spec)`: the configured section has at least one key (a section `{}` has none of the
      fields above; it still counts as the requester's / authority's section, but
      `get("default") or get("")` skips it) -/
  nonEmpty : Bool := true

/-- The sections: who → `None` | section. -/
abbrev Sections (α ρ : Type) := List (α × Option (Section α ρ))

/-- `self._restrictions.get(who)`: an absent key and a `None` value look the same. -/
def secOf {ρ : Type} (secs : Sections α ρ) (k : α) : Option (Section α ρ) := (dget secs k).join

/-- The section `Policy.get` reads: requester, else registration authority, else
    `get("default") or get("")`; `none` = `{}` (every lookup yields its default). -/
def applicable {ρ : Type} (secs : Sections α ρ) (dflt empty : α) (sp : α) (ra : Option α) : Option (Section α ρ) :=
  let g := secOf secs
  match g sp with
  | some s => some s
  | none =>
    match ra.bind g with
    | some s => some s
    | none =>
      match (g dflt).filter (·.nonEmpty) with
      | some s => some s
      | none => g empty

/-- `get_attribute_restrictions`: compiled, `none` when absent or empty. -/
def Section.compiledRestr {ρ : Type} (S : StrOps α) (s : Section α ρ) : Option (RawRestr α ρ) :=
  match s.attrRestr with
  | none => none
  | some raw => let c := compileRestr S raw; if c.isEmpty then none else some c

/-- `get_fail_on_missing_requested` (default `True`). -/
def failOnOf {ρ : Type} (sec : Option (Section α ρ)) : Bool :=
  match sec with
  | none => true
  | some s => s.failOnMissing.getD true

/-- `self.get("entity_categories", …)`: `none` = the sentinel (nothing configured). -/
def entCatsOf {ρ : Type} (sec : Option (Section α ρ)) : Option (List (List (CatEntry α))) :=
  match sec with
  | none => none
  | some s => if s.entCats.isEmpty then none else some s.entCats

/-- Everything `Policy.filter` reads besides the identity and the requested attributes. -/
structure Ctx (α ρ : Type) where
  S : StrOps α
  M : ρ → α → Bool
  acs : List (Conv α)
  secs : Sections α ρ
  dflt : α                       -- the string "default"
  sp : α                         -- requester's entity id
  ra : Option α                  -- its registration authority (metadata), if any
  hasMds : Bool                  -- `if mds:` (a metadata store with at least one source)
  spCats : List α                -- requester's entity categories (metadata)

def Ctx.section {ρ : Type} (c : Ctx α ρ) : Option (Section α ρ) :=
  applicable c.secs c.dflt c.S.empty c.sp c.ra

/-- `get_entity_categories`: key set of the restriction dictionary (`[]` = `{}`). -/
def entityRestr {ρ : Type} (c : Ctx α ρ) (required : List (ReqAttr α)) : Except Err (List α) :=
  match entCatsOf c.section with
  | none => .ok []
  | some maps => postEntityCategories c.S c.acs maps c.hasMds c.spCats required

/-- `Policy.filter(ava, sp_entity_id, required=…, optional=…)`. -/
def policyFilter {ρ : Type} (c : Ctx α ρ) (ava : Ava α) (required optional : List (ReqAttr α)) :
    Except Err (Ava α) :=
  match entityRestr c required with
  | .error e => .error e
  | .ok entRest =>
    let step1 : Except Err (Ava α) :=
      if !entRest.isEmpty then .ok (ava.filter (fun p => decide (c.S.lower p.1 ∈ entRest)))
      else if !required.isEmpty || !optional.isEmpty then
        filterOnAttributes c.S c.acs ava required optional (failOnOf c.section)
      else .ok ava
    match step1 with
    | .error e => .error e
    | .ok a1 =>
      match c.section.bind (Section.compiledRestr c.S) with
      | none => .ok a1
      | some restr => .ok (filterAva c.S c.M restr a1)

/-- `Policy.restrict`: required attributes of the metadata plus the subject-id requirement
    entries that are not already listed. -/
def addSubjectReqs (required subj : List (ReqAttr α)) : List (ReqAttr α) :=
  subj.foldl (fun acc r => if r ∈ acc then acc else acc ++ [r]) required

def policyRestrict {ρ : Type} (c : Ctx α ρ) (ava : Ava α) (required optional subj : List (ReqAttr α)) :
    Except Err (Ava α) :=
  policyFilter c ava (addSubjectReqs required subj) optional

/-- What the `Assertion` (a dict initialised from the identity) holds after `apply_policy`. -/
def selfAfter (identity released : Ava α) : Ava α :=
  identity.filterMap (fun p => (dget released p.1).map (fun v => (p.1, v)))

/-! ### response level -/

inductive Release (α : Type) where
  | assertion (ava : Ava α)      -- an assertion built from this dictionary
  | errorResponse                -- an error status instead of an assertion
  | raised (e : Err)             -- the call raised
deriving Repr, DecidableEq

/-- `Server.setup_assertion` with its `best_effort` argument. -/
def setupAssertion {ρ : Type} (c : Ctx α ρ) (identity : Ava α) (required optional subj : List (ReqAttr α))
    (bestEffort : Bool) : Release α :=
  match policyRestrict c identity required optional subj with
  | .ok ava => .assertion (selfAfter identity ava)
  | .error .missing => if bestEffort then .assertion identity else .errorResponse
  | .error .crash => .raised .crash

/-- `Server.create_authn_response` → `_authn_response`: `setup_assertion(…, True, …)` whatever the
    caller's `best_effort`. -/
def authnRelease {ρ : Type} (c : Ctx α ρ) (identity : Ava α) (required optional subj : List (ReqAttr α))
    (_callerBestEffort : Bool) : Release α :=
  setupAssertion c identity required optional subj true

/-- `Server.create_attribute_response` with a policy: `MissingValue` propagates to the caller; an
    empty identity skips the `if identity:` block and the call dies on the unbound `assertion`. -/
def attributeRelease {ρ : Type} (c : Ctx α ρ) (identity : Ava α) (required optional subj : List (ReqAttr α)) :
    Release α :=
  if identity.isEmpty then .raised .crash else
  match policyRestrict c identity required optional subj with
  | .ok ava => .assertion (selfAfter identity ava)
  | .error e => .raised e

end Release
