/-
  C14 — a tiny HTML tag/attribute scanner: the stand-in for the receiving browser's tokenizer.
  Its definition is part of the statement of `C14_form_inert` / `C14_post_roundtrip`.

  Two layers:
  * `scan` turns bytes into a stream of events with a FINITE control state (`Mode`, no data in it),
    so that `scan m (a ++ b) = scan m a ++ scan (endMode m a) b`;
  * `collect` groups events into tags with their attributes; it is polymorphic in the type `α` of
    attribute-value characters (values are only copied, never inspected).

  Simplifications w.r.t. the HTML5 tokenizer (all on the strict side): `<!…>` and `<?…>` end at the
  first `>`; a character that HTML5 flags as a parse error inside a tag (`"`, `'`, `<`, `=` in the
  wrong place, missing space between attributes, `/` not followed by `>`) is reported as `err`
  and scanning stops producing events.
-/
namespace HtmlScan

inductive Mode where
  | data | lt | bang | endName | tagName | inTag | attrName | afterAttrName | beforeVal
  | valDQ | valSQ | valUnq | afterVal | slash | bad
deriving DecidableEq, Repr

inductive Ev (α : Type) where
  | openTag                 -- a start tag begins
  | closeTag                -- an end tag begins
  | nameCh (c : Nat)        -- character of the tag name
  | attrBegin               -- an attribute begins
  | attrCh (c : Nat)        -- character of the attribute name
  | valBegin                -- the attribute has a value
  | valCh (c : α)           -- character of the (raw, still escaped) attribute value
  | tagEnd (selfClosing : Bool)
  | err
deriving DecidableEq, Repr

def isWs (c : Nat) : Bool := c == 32 || c == 9 || c == 10 || c == 12 || c == 13
def isAlpha (c : Nat) : Bool := (65 ≤ c && c ≤ 90) || (97 ≤ c && c ≤ 122)

/-- One character: next mode and the events it produces. -/
def step (m : Mode) (c : Nat) : Mode × List (Ev Nat) :=
  match m with
  | .data => if c = 60 then (.lt, []) else (.data, [])
  | .lt =>
    if c = 33 || c = 63 then (.bang, [])
    else if c = 47 then (.endName, [.closeTag])
    else if isAlpha c then (.tagName, [.openTag, .nameCh c])
    else (.bad, [.err])
  | .bang => if c = 62 then (.data, []) else (.bang, [])
  | .endName =>
    if c = 62 then (.data, [.tagEnd false])
    else if isWs c then (.endName, [])
    else if c = 60 || c = 34 || c = 39 || c = 61 || c = 47 then (.bad, [.err])
    else (.endName, [.nameCh c])
  | .tagName =>
    if isWs c then (.inTag, [])
    else if c = 47 then (.slash, [])
    else if c = 62 then (.data, [.tagEnd false])
    else if c = 60 || c = 34 || c = 39 || c = 61 then (.bad, [.err])
    else (.tagName, [.nameCh c])
  | .inTag =>
    if isWs c then (.inTag, [])
    else if c = 47 then (.slash, [])
    else if c = 62 then (.data, [.tagEnd false])
    else if c = 60 || c = 34 || c = 39 || c = 61 then (.bad, [.err])
    else (.attrName, [.attrBegin, .attrCh c])
  | .attrName =>
    if isWs c then (.afterAttrName, [])
    else if c = 61 then (.beforeVal, [])
    else if c = 47 then (.slash, [])
    else if c = 62 then (.data, [.tagEnd false])
    else if c = 60 || c = 34 || c = 39 then (.bad, [.err])
    else (.attrName, [.attrCh c])
  | .afterAttrName =>
    if isWs c then (.afterAttrName, [])
    else if c = 61 then (.beforeVal, [])
    else if c = 47 then (.slash, [])
    else if c = 62 then (.data, [.tagEnd false])
    else if c = 60 || c = 34 || c = 39 then (.bad, [.err])
    else (.attrName, [.attrBegin, .attrCh c])
  | .beforeVal =>
    if isWs c then (.beforeVal, [])
    else if c = 34 then (.valDQ, [.valBegin])
    else if c = 39 then (.valSQ, [.valBegin])
    else if c = 62 || c = 60 || c = 61 || c = 96 then (.bad, [.err])
    else (.valUnq, [.valBegin, .valCh c])
  | .valDQ => if c = 34 then (.afterVal, []) else (.valDQ, [.valCh c])
  | .valSQ => if c = 39 then (.afterVal, []) else (.valSQ, [.valCh c])
  | .valUnq =>
    if isWs c then (.inTag, [])
    else if c = 62 then (.data, [.tagEnd false])
    else if c = 60 || c = 34 || c = 39 || c = 61 || c = 96 then (.bad, [.err])
    else (.valUnq, [.valCh c])
  | .afterVal =>
    if isWs c then (.inTag, [])
    else if c = 47 then (.slash, [])
    else if c = 62 then (.data, [.tagEnd false])
    else (.bad, [.err])
  | .slash => if c = 62 then (.data, [.tagEnd true]) else (.bad, [.err])
  | .bad => (.bad, [])

def scan (m : Mode) : List Nat → List (Ev Nat)
  | [] => []
  | c :: rest =>
    match step m c with
    | (m', evs) => evs ++ scan m' rest

def endMode (m : Mode) : List Nat → Mode
  | [] => m
  | c :: rest => endMode (step m c).1 rest

/-- The document is well formed for this scanner: it ends outside any tag and no error event. -/
def wellFormed (html : List Nat) : Bool :=
  endMode .data html == .data && !(scan .data html).contains .err

/-! ### Tags -/

structure Tag (α : Type) where
  closing : Bool
  name : List Nat
  attrs : List (List Nat × Option (List α))
  selfClosing : Bool
deriving DecidableEq, Repr

/-- Collector state: the tag being read (closing?, name, finished attributes) and the attribute
    being read (name, "has a value", value so far).  All lists are kept reversed. -/
structure CSt (α : Type) where
  closing : Bool := false
  name : List Nat := []
  attrs : List (List Nat × Option (List α)) := []
  cur : Option (List Nat × Bool × List α) := none

def CSt.flush {α : Type} (s : CSt α) : List (List Nat × Option (List α)) :=
  match s.cur with
  | none => s.attrs
  | some (n, f, v) => (n.reverse, if f then some v.reverse else none) :: s.attrs

def collect {α : Type} (s : CSt α) : List (Ev α) → List (Tag α)
  | [] => []
  | e :: rest =>
    match e with
    | .openTag => collect {} rest
    | .closeTag => collect { closing := true } rest
    | .nameCh c => collect { s with name := c :: s.name } rest
    | .attrBegin => collect { s with attrs := s.flush, cur := some ([], false, []) } rest
    | .attrCh c => collect { s with cur := s.cur.map (fun x => (c :: x.1, x.2.1, x.2.2)) } rest
    | .valBegin => collect { s with cur := s.cur.map (fun x => (x.1, true, x.2.2)) } rest
    | .valCh c => collect { s with cur := s.cur.map (fun x => (x.1, x.2.1, c :: x.2.2)) } rest
    | .tagEnd sc =>
      { closing := s.closing, name := s.name.reverse, attrs := s.flush.reverse, selfClosing := sc } :: collect {} rest
    | .err => []

def tags (html : List Nat) : List (Tag Nat) := collect {} (scan .data html)

/-- `wellFormed` and `tags` from one pass (what the checker evaluates). -/
def scanDoc (html : List Nat) : Bool × List (Tag Nat) :=
  let evs := scan .data html
  (endMode .data html == .data && !evs.contains .err, collect {} evs)

/-- Value of the first attribute called `n` (HTML: later duplicates are ignored); a valueless
    attribute has the empty value. -/
def Tag.attr {α : Type} (t : Tag α) (n : List Nat) : Option (List α) :=
  (t.attrs.find? (fun a => a.1 = n)).map (fun a => a.2.getD [])

def sInput : List Nat := [105, 110, 112, 117, 116]
def sForm : List Nat := [102, 111, 114, 109]
def sName : List Nat := [110, 97, 109, 101]
def sValue : List Nat := [118, 97, 108, 117, 101]
def sAction : List Nat := [97, 99, 116, 105, 111, 110]

/-- The controls a browser submits: every `input` start tag that has a `name` (raw attribute
    values, still escaped). -/
def rawFields {α : Type} (ts : List (Tag α)) : List (List α × List α) :=
  ts.filterMap (fun t =>
    if t.closing = false ∧ t.name = sInput then
      match t.attr sName with
      | some n => some (n, (t.attr sValue).getD [])
      | none => none
    else none)

/-- Raw `action` values of the `form` start tags. -/
def rawActions {α : Type} (ts : List (Tag α)) : List (List α) :=
  ts.filterMap (fun t => if t.closing = false ∧ t.name = sForm then some ((t.attr sAction).getD []) else none)

end HtmlScan
