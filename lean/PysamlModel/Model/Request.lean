/-
  C07 — request reception: `Entity._parse_request`, `Request._loads`, `Request._do_redirect_sig_check`,
  `Request._verify` / `issue_instant_ok`, `SecurityContext.correctly_signed_message` and the part of
  `_check_signature` that decides which certificate verifies, `Config.endpoint`.

  Strings are an arbitrary type `α`, key identities an arbitrary type `κ` (both with decidable
  equality).  Signatures are ideal: an enveloped signature is the term `signed key intact`
  (made with `key`; `intact` = the covered element and the signature values are what was signed),
  a detached Redirect signature is the term `signed key msg relay alg` (made with `key` over the
  octet string built from exactly these three query parameters) or `garbage`.
  Python truthiness of a string is the parameter `truthy`, the constant `"2.0"` the parameter `v20`,
  membership of `SIGNER_ALGS` the parameter `algOk`.

  The nine XML-signature profile validators of `_check_signature` (single Reference, it has a URI,
  the URI is an anchor, the anchor is the ID of the enclosing element, c14n method allowed, one or two
  transforms, all allowed, the enveloped-signature transform among them, no ds:Object) are ONE
  predicate of the message, `profileOk`: the model says where it is required, not how it is computed
  from the XML.  `intact` is what xmlsec answers for the element the Reference names; `covers` says
  whether that is the request element being processed (used by the specification only).

  Not modelled (inputs are kept inside this fragment by the harness): XML parsing, schema validation
  in `_check_signature`, `only_use_keys_in_metadata` other than its default `True` (C03), bindings
  other than POST / Redirect / SOAP.
-/
namespace Request

inductive Binding where
  | post | redirect | soap
deriving DecidableEq, Repr

/-- How an endpoint was written in the configuration: a bare string (no binding), a
    `(url, binding)` pair for one of the three bindings, or a pair for any other binding. -/
inductive EpB where
  | bare
  | known (b : Binding)
  | foreign
deriving DecidableEq, Repr

structure Ep (α : Type) where
  url : α
  binding : EpB
deriving DecidableEq, Repr

/-- A certificate the metadata binds to the claimed issuer for signing (`MetaData.certs(issuer,
    "any", "signing")`, in order).  `chainOk` is what OpenSSL says about the certificate against the
    receiver's own certificate (`CertHandler.verify_cert` when `validate_certificate` is on). -/
structure Cert (κ : Type) where
  key : κ
  chainOk : Bool
deriving DecidableEq, Repr

inductive Enveloped (κ : Type) where
  | absent
  | signed (key : κ) (intact : Bool)
deriving DecidableEq, Repr

inductive DSig (α κ : Type) where
  | garbage
  | signed (key : κ) (msg : α) (relay : Option α) (alg : α)
deriving DecidableEq, Repr

/-- One row of the request-class dispatch (regenerated from `SERVICE2REQUEST`, the request classes,
    `sigver.correctly_signed_*`, `samlp.*_from_string`, `soap.parse_soap_enveloped_saml_*`). -/
structure KindRow where
  soapParser : Bool        -- `soap.parse_soap_enveloped_saml_<msgtype>` exists (else `unravel` fails for SOAP)
  parsesOwnType : Bool     -- `signature_check` parses the XML as the element the class stands for
  forwardsMust : Bool      -- `signature_check` hands `must` on to `correctly_signed_message`
  forwardsCertOnly : Bool  -- … and `only_valid_cert`
deriving DecidableEq, Repr

def KindRow.wf (r : KindRow) : Bool := r.parsesOwnType && r.forwardsMust && r.forwardsCertOnly

/-- A table entry as regenerated: the strings are `Nat` codes (`0x01 ‖ utf8`, big endian). -/
structure TableEntry where
  service : Nat
  cls : Nat
  msgtype : Nat          -- `request_cls.msgtype` (selects the SOAP parser in `unravel`)
  checkedMsgtype : Nat   -- the msgtype `signature_check` hands to `correctly_signed_message`
  parsesOwnElement : Bool -- `<checkedMsgtype>_from_string` exists and yields the element named like the class
  soapParser : Bool
  forwardsMust : Bool
  forwardsCertOnly : Bool
deriving DecidableEq, Repr

def TableEntry.row (e : TableEntry) : KindRow :=
  { soapParser := e.soapParser
    parsesOwnType := e.parsesOwnElement && e.msgtype == e.checkedMsgtype
    forwardsMust := e.forwardsMust
    forwardsCertOnly := e.forwardsCertOnly }

structure Cfg (α : Type) where
  isIdp : Bool                     -- `self.entity_type == "idp"`
  own : List (Ep α)                -- `endpoints[service]` of the entity's own context
  fallback : List (List (Ep α))    -- `endpoints[service]` of the contexts aa, aq, pdp (this order)
  wantSigned : Bool                -- truthiness of `config.getattr("want_authn_requests_signed", "idp")`
  certOnly : Bool                  -- truthiness of `want_authn_requests_only_with_valid_cert`
  validateCert : Bool              -- `validate_certificate is True`
  slack : Nat                      -- `accepted_time_diff or 0`
deriving Repr

/-- The request as it arrives. -/
structure Msg (α κ : Type) where
  binding : Binding
  samlRequest : α                  -- the transport form (`origdoc`), what a detached signature covers
  relayState : Option α
  sigAlg : Option α
  signature : Option (DSig α κ)
  enveloped : Enveloped κ
  profileOk : Bool                 -- all nine structural validators of `_check_signature` hold (signature present)
  covers : Bool                    -- the signature verifies over the request element that is processed (spec only)
  version : α
  destination : Option α
  issueInstant : Option Int        -- the instant the attribute denotes; `none`: not an `xs:dateTime` at all
  instantLexOk : Bool              -- written in a form the receiver reads (`YYYY-MM-DDThh:mm:ss(.f*)?Z?`); a
                                   -- numeric zone designator (`+hh:mm`) is refused by `valid_instance`
deriving Repr

/-- Where `_parse_request` stops.  Everything but `ok` is an exception in pysaml2. -/
inductive Verdict where
  | unravelError        -- UnravelError (no SOAP parser for this message type)
  | notThisType         -- signature_check cannot parse the element (TypeError → IncorrectlySigned)
  | signatureMissing    -- required enveloped signature absent
  | missingKey          -- signature present, no metadata certificate for the issuer
  | profileBad          -- signature present, an xmldsig profile validator fails
  | signatureBad        -- signature present, verifies under no metadata certificate
  | certificateBad      -- CertificateError from `verify_cert`
  | detachedMissing     -- Redirect, required, SigAlg or Signature parameter absent
  | detachedBad         -- Redirect, required, detached signature does not verify
  | notValid            -- `valid_instance` refuses the message
  | versionMismatch
  | notForMe
  | instantTooOld
  | instantTooNew
  | ok
deriving DecidableEq, Repr

variable {α κ : Type} [DecidableEq α] [DecidableEq κ]

/-- `Config.endpoint(service, binding, context)` over that context's list for the service:
    the pairs for the binding, and only if there is none the bare strings. -/
def endpointFor (eps : List (Ep α)) (b : Binding) : List α :=
  let spec := (eps.filter (fun e => e.binding = .known b)).map (·.url)
  if spec.isEmpty then (eps.filter (fun e => e.binding = .bare)).map (·.url) else spec

def firstNonEmpty : List (List α) → List α
  | [] => []
  | l :: rest => if l.isEmpty then firstNonEmpty rest else l

/-- The receiver addresses `_parse_request` hands to the request object. -/
def receiverAddrs (cfg : Cfg α) (b : Binding) : List α :=
  let a := endpointFor cfg.own b
  if a.isEmpty && cfg.isIdp then firstNonEmpty (cfg.fallback.map (endpointFor · b)) else a

/-- `CertHandler.verify_cert`. -/
def verifyCert (validate : Bool) (c : Cert κ) : Bool := !validate || c.chainOk

/-- `_check_signature` for a message that carries an enveloped signature made with `key`
    (`none` = the message object is returned). -/
def checkSignature (validate certOnly : Bool) (md : List (Cert κ)) (key : κ) (intact profileOk : Bool) :
    Option Verdict :=
  if md.isEmpty then some .missingKey else    -- `only_use_keys_in_metadata`: no fallback to the embedded certificate
  if !profileOk then some .profileBad else    -- `if not all(validators.values()): raise SignatureError` (any mode)
  match md.find? (fun c => intact && decide (c.key = key)) with
  | some c => if verifyCert validate c then none else some .certificateBad
  | none =>
    if certOnly then
      match md.getLast? with                  -- `last_pem_file`: the last certificate tried
      | some c => if verifyCert validate c then none else some .certificateBad
      | none => some .missingKey
    else some .signatureBad

/-- `self.signature_check(xmldata, must=sign_post, only_valid_cert=…)` = `correctly_signed_message`. -/
def signatureCheck (row : KindRow) (validate : Bool) (md : List (Cert κ)) (signPost certOnly : Bool)
    (e : Enveloped κ) (profileOk : Bool) : Option Verdict :=
  if !row.parsesOwnType then some .notThisType else
  match e with
  | .absent => if signPost && row.forwardsMust then some .signatureMissing else none
  | .signed k i => checkSignature validate (certOnly && row.forwardsCertOnly) md k i profileOk

/-- `verify_redirect_signature` with one metadata certificate. -/
def verifyRedirect (algOk : α → Bool) (m : Msg α κ) (alg : α) (sig : DSig α κ) (c : Cert κ) : Bool :=
  algOk alg &&
  match sig with
  | .garbage => false
  | .signed k msg relay a =>
    decide (k = c.key) && decide (msg = m.samlRequest) && decide (relay = m.relayState) && decide (a = alg)

/-- `_do_redirect_sig_check`: any metadata certificate of the sender verifies. -/
def detachedOk (algOk : α → Bool) (md : List (Cert κ)) (m : Msg α κ) : Bool :=
  match m.sigAlg, m.signature with
  | some alg, some sig => md.any (verifyRedirect algOk m alg sig)
  | _, _ => false

def detachedPresent (m : Msg α κ) : Bool := m.sigAlg.isSome && m.signature.isSome

/-- The Destination test of `Request._verify`. -/
def destRefused (truthy : α → Bool) (addrs : List α) (dest : Option α) : Bool :=
  match dest.filter truthy with
  | none => false
  | some d => !addrs.isEmpty && !decide (d ∈ addrs)

/-- `Entity._parse_request` as a whole. -/
def parseRequest (algOk : α → Bool) (v20 : α) (truthy : α → Bool) (row : KindRow) (cfg : Cfg α)
    (md : List (Cert κ)) (now : Int) (m : Msg α κ) : Verdict :=
  if m.binding = .soap ∧ row.soapParser = false then .unravelError else
  let must := cfg.wantSigned || cfg.certOnly          -- `if only_valid_cert: must = True`
  let signRedirect := must && decide (m.binding = .redirect)
  let signPost := must && !signRedirect
  match signatureCheck row cfg.validateCert md signPost cfg.certOnly m.enveloped m.profileOk with
  | some v => v
  | none =>
    if signRedirect && !detachedPresent m then .detachedMissing else
    if signRedirect && !detachedOk algOk md m then .detachedBad else
    match m.issueInstant with
    | none => .notValid
    | some ts =>
      if !m.instantLexOk then .notValid else
      if m.version ≠ v20 then .versionMismatch else
      if destRefused truthy (receiverAddrs cfg m.binding) m.destination then .notForMe else
      -- struct_time comparison: `issued_at > lower` holds at the equal second (tm_isdst 0 > -1),
      -- `issued_at < upper` does not
      if ts < now - 86400 - (cfg.slack : Int) then .instantTooOld else
      if now + 86400 + (cfg.slack : Int) ≤ ts then .instantTooNew else .ok

/-! ### State across calls on one receiver: the metadata store and `Entity.reload_metadata`

  `MetadataStore` is an ordered collection of sources; `MetadataStore.__getitem__` answers from the
  first source that knows the entity (and only from it).  `MetadataStore.reload(spec)` empties the
  store and imports `spec`; if the import raises, the previous store is put back and
  `reload_metadata` reports `False`. -/

/-- One metadata source: the entities it describes with their signing certificates. -/
structure Source (α κ : Type) where
  entities : List (α × List (Cert κ))
deriving Repr

/-- `MetaData.certs(issuer, "any", "signing")` over the store: the first source that lists the
    issuer decides; unknown issuer (`KeyError`) = no certificate. -/
def lookupCerts (srcs : List (Source α κ)) (issuer : α) : List (Cert κ) :=
  match srcs.findSome? (fun s => (s.entities.find? (fun e => decide (e.1 = issuer))).map (·.2)) with
  | some cs => cs
  | none => []

/-- One request delivered to the receiver. -/
structure Recv (α κ : Type) where
  row : KindRow
  cfg : Cfg α
  now : Int
  issuer : α
  msg : Msg α κ

/-- One call on the long-lived receiver.  `reload none` = a specification whose import raises. -/
inductive Step (α κ : Type) where
  | reload (spec : Option (List (Source α κ)))
  | recv (r : Recv α κ)

inductive StepOut where
  | reloaded
  | reloadFailed
  | verdict (v : Verdict)
deriving DecidableEq, Repr

/-- The receiver's answers along a history, starting from the store `srcs`. -/
def runHistory (algOk : α → Bool) (v20 : α) (truthy : α → Bool) :
    List (Source α κ) → List (Step α κ) → List StepOut
  | _, [] => []
  | _, .reload (some new) :: rest => .reloaded :: runHistory algOk v20 truthy new rest
  | srcs, .reload none :: rest => .reloadFailed :: runHistory algOk v20 truthy srcs rest
  | srcs, .recv r :: rest =>
    .verdict (parseRequest algOk v20 truthy r.row r.cfg (lookupCerts srcs r.issuer) r.now r.msg)
      :: runHistory algOk v20 truthy srcs rest

/-- What the harness observes per step: for a request whether it was processed, for a reload
    whether it was reported successful. -/
def StepOut.flag : StepOut → Bool
  | .reloaded => true
  | .reloadFailed => false
  | .verdict v => decide (v = .ok)

end Request
