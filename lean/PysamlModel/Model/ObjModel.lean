/-
  C12 — executable model of pysaml2's generic object (de)serialiser
  (src/saml2/__init__.py: create_class_from_element_tree, ExtensionElement,
  ExtensionContainer/SamlBase.harvest_element_tree, _convert_element_tree_to_member,
  _convert_element_attribute_to_member, _add_members_to_element_tree, _to_element_tree;
  src/saml2/saml.py: AttributeValueBase, AttributeType_.harvest_element_tree) over a class table
  (regenerated into Gen/ClassTable.lean).

  Conventions
  * `Name`  = one string as a Nat code (0x01 ‖ utf-8, big endian) — tags, attribute names, members.
  * `Str`   = a string as its list of Unicode code points — attribute values and text.
  * `Attrs` = an insertion-ordered Python dict str -> str (keys unique; `dictSet` is `d[k] = v`).
  * An `XNode` is an `xml.etree.ElementTree.Element` (tag as (namespace, local name), attrib, text,
    children; `tail` is never read or written by the anchored code).
  * An `Inst` is a SamlBase instance: class id, the values of the declared XML attributes (aligned
    with `c_attributes`), the child members (aligned with `c_children`; a singleton member is a list
    of length ≤ 1, `None`/`[]` = empty), text, extension elements, extension attributes.
  * The table is total (`Nat → ClassDef`): ids beyond the generated list denote a class that declares
    nothing.  Python cannot hold an instance of a class that does not exist, so no behaviour hides there.
  * Where Python raises, the functions below still return a value, and the separate predicate
    `raises` says so; the driver reports an explicit error observable in that case.
-/
namespace ObjModel

abbrev Name := Nat
abbrev Str := List Nat
abbrev Attrs := List (Name × Str)

structure QName where
  ns : Option Name
  name : Name
deriving DecidableEq, Repr, Inhabited

inductive XNode where
  | mk (tag : QName) (attrs : Attrs) (text : Option Str) (kids : List XNode)
deriving Repr, Inhabited

/-- saml2.ExtensionElement -/
inductive ExtEl where
  | mk (ns : Option Name) (tag : Name) (attrs : Attrs) (kids : List ExtEl) (text : Option Str)
deriving Repr, Inhabited

inductive Inst where
  | mk (cls : Nat) (attrs : List (Option Str)) (slots : List (List Inst)) (text : Option Str)
       (extEls : List ExtEl) (extAttrs : Attrs)
deriving Repr, Inhabited

def XNode.tag : XNode → QName | .mk t _ _ _ => t
def XNode.attrs : XNode → Attrs | .mk _ a _ _ => a
def XNode.text : XNode → Option Str | .mk _ _ t _ => t
def XNode.kids : XNode → List XNode | .mk _ _ _ k => k
def ExtEl.qname : ExtEl → QName | .mk ns t _ _ _ => ⟨ns, t⟩
def Inst.cls : Inst → Nat | .mk c _ _ _ _ _ => c
def Inst.attrs : Inst → List (Option Str) | .mk _ a _ _ _ _ => a
def Inst.slots : Inst → List (List Inst) | .mk _ _ s _ _ _ => s
def Inst.text : Inst → Option Str | .mk _ _ _ t _ _ => t
def Inst.extEls : Inst → List ExtEl | .mk _ _ _ _ e _ => e
def Inst.extAttrs : Inst → Attrs | .mk _ _ _ _ _ a => a

/-! ### class table -/

/-- one entry of `c_children`: key (qualified tag) -> (member name, class | [class]) -/
structure ChildDecl where
  key : QName
  member : Name
  cls : Option Nat      -- `none`: the source has `None` as class
  isList : Bool
deriving DecidableEq, Repr

/-- one entry of `c_attributes`: xml attribute name -> member name -/
structure AttrDecl where
  name : Name
  member : Name
deriving DecidableEq, Repr

inductive Kind where
  | plain       -- SamlBase.harvest_element_tree
  | attrValue   -- saml.AttributeValueBase.harvest_element_tree
deriving DecidableEq, Repr

structure ClassDef where
  tag : QName
  children : List ChildDecl
  attrs : List AttrDecl
  order : List Name                   -- c_child_order
  defaults : List (Name × Str) := []  -- `tree.attrib.setdefault(k, v)` prologue of an overriding harvest_element_tree
  attrInit : List (Option Str)        -- the attribute members of a fresh `cls()` (constructor defaults), aligned with `attrs`
  kind : Kind := .plain
deriving Repr

/-- the class that declares nothing (ids outside the table) -/
def emptyClass : ClassDef := { tag := ⟨none, 0⟩, children := [], attrs := [], order := [], attrInit := [] }

def tableOf (l : List ClassDef) : Nat → ClassDef := fun c => l.getD c emptyClass

/-! ### Python dict operations on `Attrs` -/

def dictHas (d : Attrs) (k : Name) : Bool := d.any (fun p => p.1 == k)

/-- `d[k] = v` -/
def dictSet : Attrs → Name → Str → Attrs
  | [], k, v => [(k, v)]
  | (k', v') :: r, k, v => if k' = k then (k, v) :: r else (k', v') :: dictSet r k v

/-- `for k, v in l: d[k] = v` -/
def dictSetAll (d : Attrs) (l : Attrs) : Attrs := l.foldl (fun d p => dictSet d p.1 p.2) d

/-- `d.setdefault(k, v)` -/
def dictSetDefault (d : Attrs) (k : Name) (v : Str) : Attrs := if dictHas d k then d else d ++ [(k, v)]

/-- `del d[k]` (ignoring KeyError) -/
def dictDel (d : Attrs) (k : Name) : Attrs := d.filter (fun p => !(p.1 == k))

def dictGet : Attrs → Name → Option Str
  | [], _ => none
  | (k', v') :: r, k => if k' = k then some v' else dictGet r k

/-! ### serialisation: `_to_element_tree` / `_add_members_to_element_tree` -/

def members (cd : ClassDef) : List Name := cd.children.map (·.member)

/-- `_get_all_c_children_with_order` -/
def memberOrder (cd : ClassDef) : List Name := if cd.order.isEmpty then members cd else cd.order

/-- position of the first occurrence -/
def idxOf : List Name → Name → Option Nat
  | [], _ => none
  | a :: r, m => if a = m then some 0 else (idxOf r m).map (· + 1)

/-- the XML attributes written for the declared attribute members that are not `None` -/
def declaredAttrs : List AttrDecl → List (Option Str) → Attrs
  | d :: ds, some v :: vs => (d.name, v) :: declaredAttrs ds vs
  | _ :: ds, none :: vs => declaredAttrs ds vs
  | _, _ => []

/-- children in the order of `_get_all_c_children_with_order`; `ks` = serialised members, aligned
    with `c_children`.  A name that is no child member contributes nothing here (Python raises
    AttributeError: see `classSerialisable`). -/
def orderedKids (cd : ClassDef) (ks : List (List XNode)) : List XNode :=
  (memberOrder cd).flatMap fun m =>
    match idxOf (members cd) m with
    | some j => ks.getD j []
    | none => []

/-- `getattr(self, name)` succeeds for every name `_get_all_c_children_with_order` yields -/
def classSerialisable (cd : ClassDef) : Bool := (memberOrder cd).all fun m => (idxOf (members cd) m).isSome

mutual
/-- ExtensionElement.transfer_to_element_tree -/
def ofExt : ExtEl → XNode
  | .mk ns tag attrs kids text => .mk ⟨ns, tag⟩ attrs text (ofExtList kids)
def ofExtList : List ExtEl → List XNode
  | [] => []
  | e :: r => ofExt e :: ofExtList r
end

mutual
/-- _extension_element_from_element_tree -/
def toExt : XNode → ExtEl
  | .mk tag attrs text kids => .mk tag.ns tag.name attrs (toExtList kids) text
def toExtList : List XNode → List ExtEl
  | [] => []
  | e :: r => toExt e :: toExtList r
end

mutual
/-- SamlBase._to_element_tree -/
def serialise (T : Nat → ClassDef) : Inst → XNode
  | .mk c as ss t ee ea =>
    .mk (T c).tag (dictSetAll (dictSetAll [] (declaredAttrs (T c).attrs as)) ea) t
      (orderedKids (T c) (serSlots T ss) ++ ofExtList ee)
def serSlots (T : Nat → ClassDef) : List (List Inst) → List (List XNode)
  | [] => []
  | s :: r => serList T s :: serSlots T r
def serList (T : Nat → ClassDef) : List Inst → List XNode
  | [] => []
  | i :: r => serialise T i :: serList T r
end

/-! ### AttributeValueBase (saml.py) -/

structure AvConsts where
  xsiType : Name    -- XSI_TYPE
  xsiNil : Name     -- XSI_NIL
  xmlnsXs : Name    -- "xmlns:xs"
  xmlnsXsd : Name   -- "xmlns:xsd"
  xsNs : Str        -- XS_NAMESPACE
  xsd : Str         -- XSD = "xs"
deriving Repr

/-- the python types behind `xsd_types_props` -/
inductive TKind where
  | str | int | float | bool | date | none
deriving DecidableEq, Repr

def sString : Str := [115, 116, 114, 105, 110, 103]
def sInteger : Str := [105, 110, 116, 101, 103, 101, 114]
def sShort : Str := [115, 104, 111, 114, 116]
def sInt : Str := [105, 110, 116]
def sLong : Str := [108, 111, 110, 103]
def sFloat : Str := [102, 108, 111, 97, 116]
def sDouble : Str := [100, 111, 117, 98, 108, 101]
def sBoolean : Str := [98, 111, 111, 108, 101, 97, 110]
def sDate : Str := [100, 97, 116, 101]
def sBase64Binary : Str := [98, 97, 115, 101, 54, 52, 66, 105, 110, 97, 114, 121]
def sAnyType : Str := [97, 110, 121, 84, 121, 112, 101]
def sTrue : Str := [116, 114, 117, 101]
def sXsColon : Str := [120, 115, 58]
def sXsdColon : Str := [120, 115, 100, 58]

/-- keys of `xsd_types_props` with the python type each entry converts to (string/base64Binary/anyType
    leave a `str` value alone) -/
def typeKind (s : Str) : Option TKind :=
  if s = sString then some .str else if s = sInteger then some .int else if s = sShort then some .int
  else if s = sInt then some .int else if s = sLong then some .int else if s = sFloat then some .float
  else if s = sDouble then some .float else if s = sBoolean then some .bool else if s = sDate then some .date
  else if s = sBase64Binary then some .str else if s = sAnyType then some .str else if s = [] then some .none
  else none

/-- `s.split(":", 1)` when ":" occurs -/
def splitColon : Str → Option (Str × Str)
  | [] => none
  | c :: r => if c = 58 then some ([], r) else (splitColon r).map fun p => (c :: p.1, p.2)

/-- characters `str.strip()` removes (within XML 1.0 characters) -/
def isSpace (c : Nat) : Bool :=
  c = 9 || c = 10 || c = 11 || c = 12 || c = 13 || c = 32 || (28 ≤ c && c ≤ 31) || c = 0x85 || c = 0xa0 || c = 0x1680 ||
  (0x2000 ≤ c && c ≤ 0x200a) || c = 0x2028 || c = 0x2029 || c = 0x202f || c = 0x205f || c = 0x3000

def strip (s : Str) : Str := ((s.dropWhile isSpace).reverse.dropWhile isSpace).reverse

/-- External conversions (`int`, `float`, `strptime`, the boolean dict) followed by `to_text`:
    canonical text, or `none` when the cast raises.  Supplied by the harness per text (they are
    builtins, not pysaml2 code); `.str` and `.none` are modelled here. -/
abbrev Conv := TKind → Str → Option Str

def convert (conv : Conv) (k : TKind) (t : Str) : Option Str :=
  match k with
  | .str => some t
  | .none => some []      -- to_type gives None, to_text gives ""
  | k => conv k t

/-- `set_type(typ)` on the extension attributes -/
def avSetType (K : AvConsts) (ea : Attrs) (typ : Str) : Attrs :=
  let ea := dictSet (dictDel ea K.xsiNil) K.xsiType typ
  let ea := if sXsColon.isPrefixOf typ then dictSet ea K.xmlnsXs K.xsNs else ea
  if sXsdColon.isPrefixOf typ then dictSet ea K.xmlnsXsd K.xsNs else ea

/-- namespace prefix and type name `set_text` derives from `get_type() or "string"` -/
def avTypeParts (K : AvConsts) (ea : Attrs) : Str × Str :=
  let ty := match dictGet ea K.xsiType with
    | some (c :: r) => c :: r
    | _ => sString
  match splitColon ty with
  | some p => p
  | none => (if (typeKind ty).isSome then K.xsd else [], ty)

/-- `tree.text.strip() if tree.text and self.extension_elements else tree.text` (`[]` = None or "") -/
def avText1 (text : Option Str) (hasExt : Bool) : Str :=
  match text with
  | some t => if hasExt then strip t else t
  | none => []

/-- the tail of AttributeValueBase.harvest_element_tree after children and attributes were converted:
    `ea` = extension attributes so far, `hasExt` = extension_elements non-empty.
    Result: extension attributes and text (`""` is reported as no text); `none` = ValueError. -/
def avFinish (K : AvConsts) (conv : Conv) (ea : Attrs) (text : Option Str) (hasExt : Bool) : Option (Attrs × Option Str) :=
  let text1 : Str := avText1 text hasExt
  if text1 = [] then
    some (if hasExt then dictDel ea K.xsiNil else ea, none)
  else
    let ns := (avTypeParts K ea).1
    let tn := (avTypeParts K ea).2
    match convert conv ((typeKind tn).getD .str) text1 with
    | none => none
    | some t' =>
      let typ := if ns = [] then tn else ns ++ [58] ++ tn
      some (dictDel (avSetType K ea typ) K.xsiNil, if t' = [] then none else some t')

/-! ### parsing: `create_class_from_element_tree` / `harvest_element_tree` -/

/-- `child_tree.tag in c_children` and the entry found -/
def findDecl : List ChildDecl → QName → Option (Nat × ChildDecl)
  | [], _ => none
  | d :: r, q => if d.key = q then some (0, d) else (findDecl r q).map fun p => (p.1 + 1, p.2)

def attrIdx : List AttrDecl → Name → Option Nat
  | [], _ => none
  | d :: r, k => if d.name = k then some 0 else (attrIdx r k).map (· + 1)

/-- list member: append; singleton member: `setattr` (the last one wins) -/
def putSlot (ss : List (List Inst)) (j : Nat) (isList : Bool) (x : Inst) : List (List Inst) :=
  ss.modify j fun l => if isList then l ++ [x] else [x]

/-- `_convert_element_attribute_to_member` over `tree.attrib.items()` -/
def harvestAttrs (ds : List AttrDecl) : Attrs → List (Option Str) → Attrs → List (Option Str) × Attrs
  | [], as, ea => (as, ea)
  | (k, v) :: r, as, ea =>
    match attrIdx ds k with
    | some j => harvestAttrs ds r (as.set j (some v)) ea
    | none => harvestAttrs ds r as (dictSet ea k v)

structure Env where
  T : Nat → ClassDef
  K : AvConsts
  conv : Conv

mutual
/-- `target_class().harvest_element_tree(tree)` for class id `c` -/
def harvest (E : Env) (c : Nat) : XNode → Inst
  | .mk _ attrs text kids =>
    let r := harvestKids E (E.T c).children kids ((E.T c).children.map fun _ => []) []
    match (E.T c).kind with
    | .plain =>
      let attrs' := (E.T c).defaults.foldl (fun d p => dictSetDefault d p.1 p.2) attrs
      let a := harvestAttrs (E.T c).attrs attrs' (E.T c).attrInit []
      .mk c a.1 r.1 text r.2 a.2
    | .attrValue =>
      -- a fresh AttributeValue starts with extension_attributes = {xsi:nil: "true"}
      let a := harvestAttrs (E.T c).attrs attrs (E.T c).attrInit [(E.K.xsiNil, sTrue)]
      match avFinish E.K E.conv a.2 text (!r.2.isEmpty) with
      | some (ea, t) => .mk c a.1 r.1 t r.2 ea
      | none => .mk c a.1 r.1 none r.2 a.2   -- ValueError, see `raises`
/-- `for child in tree: self._convert_element_tree_to_member(child)` -/
def harvestKids (E : Env) (ds : List ChildDecl) : List XNode → List (List Inst) → List ExtEl → List (List Inst) × List ExtEl
  | [], ss, ee => (ss, ee)
  | k :: r, ss, ee =>
    match findDecl ds k.tag with
    | some (j, d) =>
      match d.cls with
      | some c' =>
        if (E.T c').tag = k.tag then harvestKids E ds r (putSlot ss j d.isList (harvest E c' k)) ee
        else
          -- create_class_from_element_tree returned None: a singleton member becomes None,
          -- a list member would get a None entry (reported by `raises`)
          harvestKids E ds r (if d.isList then ss else ss.set j []) ee
      | none => harvestKids E ds r ss ee   -- AttributeError, see `raises`
    | none => harvestKids E ds r ss (ee ++ [toExt k])
end

mutual
/-- Python raises while harvesting (or leaves a `None` inside a list member) -/
def raises (E : Env) (c : Nat) : XNode → Bool
  | .mk _ attrs text kids =>
    raisesKids E (E.T c).children kids ||
    (match (E.T c).kind with
     | .plain => false
     | .attrValue =>
       let a := harvestAttrs (E.T c).attrs attrs (E.T c).attrInit [(E.K.xsiNil, sTrue)]
       let r := harvestKids E (E.T c).children kids ((E.T c).children.map fun _ => []) []
       (avFinish E.K E.conv a.2 text (!r.2.isEmpty)).isNone)
def raisesKids (E : Env) (ds : List ChildDecl) : List XNode → Bool
  | [] => false
  | k :: r =>
    (match findDecl ds k.tag with
     | some (_, d) =>
       match d.cls with
       | some c' => if (E.T c').tag = k.tag then raises E c' k else d.isList
       | none => true
     | none => false) || raisesKids E ds r
end

/-- `create_class_from_element_tree(cls, tree)`: `none` = the function returns None (root tag differs) -/
def fromTree (E : Env) (c : Nat) (x : XNode) : Option Inst :=
  if x.tag = (E.T c).tag then some (harvest E c x) else none

/-! ### the wire: `ElementTree.tostring` followed by `defusedxml.ElementTree.fromstring`, at the level of
    element trees.  Library behaviour (not pysaml2 code), modelled so that model and implementation can
    be compared on every input: an empty text cannot be told from no text; the parser normalises line
    ends in character data (the writer escapes CR in attribute values but not in text); an attribute
    whose name is `xmlns` or starts with `xmlns:` is written verbatim and consumed by the parser as a
    namespace declaration. -/

def normEmpty : Option Str → Option Str
  | some [] => none
  | t => t

/-- XML 1.0 §2.11 end-of-line handling -/
def normCR : Str → Str
  | [] => []
  | 13 :: 10 :: r => 10 :: normCR r
  | 13 :: r => 10 :: normCR r
  | c :: r => c :: normCR r

/-- bytes of the string a `Name` code stands for, most significant first (sentinel 0x01 included) -/
def codeBytesAux : Nat → Nat → List Nat → List Nat
  | 0, _, acc => acc
  | fuel + 1, n, acc => if n = 0 then acc else codeBytesAux fuel (n / 256) (n % 256 :: acc)

def codeBytes (n : Nat) : List Nat := codeBytesAux (n.log2 / 8 + 1) n []

/-- attribute names the parser takes for namespace declarations: "xmlns", "xmlns:…" -/
def isNsDecl (n : Name) : Bool :=
  let b := codeBytes n
  b = [1, 120, 109, 108, 110, 115] || [1, 120, 109, 108, 110, 115, 58].isPrefixOf b

mutual
/-- what `ElementTree.tostring` keeps of a tree -/
def emit : XNode → XNode
  | .mk tag attrs text kids => .mk tag attrs (normEmpty text) (emitList kids)
def emitList : List XNode → List XNode
  | [] => []
  | k :: r => emit k :: emitList r
end

mutual
/-- what the parser returns for an emitted tree -/
def read : XNode → XNode
  | .mk tag attrs text kids => .mk tag (attrs.filter fun p => !isNsDecl p.1) (normEmpty (text.map normCR)) (readList kids)
def readList : List XNode → List XNode
  | [] => []
  | k :: r => read k :: readList r
end

def wire (x : XNode) : XNode := read (emit x)

/-- `cls_from_string(str(obj))` -/
def roundTrip (E : Env) (i : Inst) : Inst := harvest E i.cls (wire (serialise E.T i))

/-- the re-parse raises -/
def roundTripRaises (E : Env) (i : Inst) : Bool := raises E i.cls (wire (serialise E.T i))

/-! ### documents with a DTD: `defusedxml` (forbid_dtd = False, forbid_entities = True, forbid_external = True) -/

inductive DtdDecl where
  | element | attlist | notation | comment | pi
  | entityInternal | entityExternal | entityParameter | entityUnparsed
deriving DecidableEq, Repr

def DtdDecl.isEntity : DtdDecl → Bool
  | .entityInternal | .entityExternal | .entityParameter | .entityUnparsed => true
  | _ => false

inductive ParseResult where
  | refused            -- EntitiesForbidden
  | notThisClass       -- None
  | raised             -- harvest raises
  | obj (i : Inst)

/-- `cls_from_string(document)` for a document whose internal subset holds `dtd` and whose root element is `x` -/
def parseDoc (E : Env) (c : Nat) (dtd : List DtdDecl) (x : XNode) : ParseResult :=
  if dtd.any DtdDecl.isEntity then .refused
  else if x.tag = (E.T c).tag then (if raises E c x then .raised else .obj (harvest E c x))
  else .notThisClass

end ObjModel
