/-
  C20 — redirect-binding signing under concurrency.

  Code mirrored (after `fix:` d2fa3ada):
    * `sigver.SIGNER_ALGS`                 module-level table alg ↦ RSASigner(digest)      (shared, READ-ONLY)
    * `sigver.RSACrypto.get_signer`         returns a NEW `RSASigner(table[alg].digest, sigkey or self.key)`,
                                            `None` when `alg` is not in the table
    * `sigver.RSASigner.sign/verify`        use `key or self.key` of the signer object they are called on
    * `pack.http_redirect_message`          allowed-list test, `backend.get_signer(sigalg)`, `signer.sign(octets)`
    * `sigver.verify_redirect_signature`    `crypto.get_signer(SigAlg, sigkey)`, `signer.verify(octets, sig, cert key or sigkey)`
    * `entity.Entity.apply_binding`         passes the entity's own `sec.sec_backend` (an `RSACrypto` holding the entity's key)

  A second model (`…Sh`) keeps the design BEFORE the repair: `get_signer` stored the key on the shared
  table entry and returned that shared object, so `sign` used whatever key the entry held at that moment.

    * `sigver.security_context` / `import_rsa_key_from_file`   entity set-up: the key an entity signs with is
                                            what its key file holds WHEN it is set up (no state keyed by path)
    * `sigver.extract_rsa_key_from_x509_cert` + `verify_redirect_signature`: the verification key is the one in
                                            the certificate passed with THIS call (no shared verification state)

  Concurrency: every logical thread runs a program (list of operations); an operation consists of one or
  two atomic actions at the points where the signing state is read or written (`get_signer`, `sign`,
  `verify`); a schedule is ANY list of thread numbers, each entry lets that thread perform its next atomic
  action (entries naming a finished or non-existent thread do nothing).

  Crypto is ideal: a signature is the term (key pair, digest, signed octets); it verifies under key pair
  `k`, digest `a` and octets `m` iff all three coincide.  `κ` key pairs (an entity's certificate is the
  public half of its pair), `α` algorithm identifiers, `μ` signed octets; all arbitrary types with
  decidable equality.
-/
namespace Signer

/-- Ideal signature value. -/
structure Sig (κ α μ : Type) where
  key : κ
  digest : α
  msg : μ
deriving DecidableEq, Repr

variable {κ α μ : Type} [DecidableEq κ] [DecidableEq α] [DecidableEq μ]

/-- `key_verify(k, sig, m, digest a)`. -/
def verifies (k : κ) (a : α) (m : μ) (s : Sig κ α μ) : Bool :=
  decide (s.key = k) && decide (s.digest = a) && decide (s.msg = m)

/-- Operations of a logical thread. -/
inductive Op (κ α μ : Type) where
  /-- `http_redirect_message(message, …, sigalg=alg, sign=True, backend=<own RSACrypto>)` -/
  | sign (alg : α) (msg : μ)
  /-- `verify_redirect_signature({…, SigAlg: alg, Signature: sig}, <own RSACrypto>, cert, sigkey)` -/
  | verify (alg : α) (msg : μ) (sig : Sig κ α μ) (cert sigkey : Option κ)
  /-- the key file at `path` now holds key pair `content` (roll-over or first use, done by the deployment, in
      the same slot) and a NEW entity is set up from it (`security_context` → `import_rsa_key_from_file`);
      from now on the thread acts for that entity.  On the unchanged tree loading is a pure function of the
      file content at load time, so the model does not look at `path`; it is part of the input because the
      same path with changed content and the same content at different paths are different histories for
      the implementation. -/
  | setup (path : Nat) (content : κ)
deriving DecidableEq, Repr

/-- The key of the entity a thread acts for after having carried out `ops`, starting with `k`. -/
def keyAfter (k : κ) (ops : List (Op κ α μ)) : κ :=
  ops.foldl (fun k op => match op with | .setup _ c => c | _ => k) k

/-- A logical thread: the key of the entity it acts for at the start (`RSACrypto.key`) and its program. -/
structure Thread (κ α μ : Type) where
  key : κ
  prog : List (Op κ α μ)
deriving DecidableEq, Repr

/-- The two tables the code consults. -/
structure Tables (α : Type) where
  /-- `sigalg in [long for short, long in SIG_ALLOWED_ALG]` -/
  allowed : α → Bool
  /-- `sigalg in SIGNER_ALGS` -/
  hasSigner : α → Bool

/-- What an operation reports. -/
inductive Event (κ α μ : Type) where
  /-- the operation raised before any signature was made (algorithm refused / no signer) -/
  | refused
  /-- `signer.sign` raised (only possible in the shared design: entry without a key) -/
  | crashed
  /-- a redirect URL carrying `SigAlg=alg`, the octets `msg` and the signature `sig` -/
  | signed (alg : α) (msg : μ) (sig : Sig κ α μ)
  | verified (ok : Bool)
  /-- a new entity was set up -/
  | setupDone
deriving DecidableEq, Repr

/-- Branch of the model taken by one atomic action. -/
inductive Branch where
  | signNotAllowed | signNoSigner | signGetSigner | signSign
  | verifyNoSigner | verifyGetSigner | verifyExplicitKey | verifySignerKey
  | setupEntity
deriving DecidableEq, Repr

/-- Gate point at which the action happens in the real code (`pad`: the operation ended without
    reaching the signing state at all). -/
inductive Point where
  | pad | getSigner | sign | verify
deriving DecidableEq, Repr

def Branch.point : Branch → Point
  | .signNotAllowed | .setupEntity => .pad
  | .signNoSigner | .signGetSigner | .verifyNoSigner | .verifyGetSigner => .getSigner
  | .signSign => .sign
  | .verifyExplicitKey | .verifySignerKey => .verify

/-! ## Repaired design: `get_signer` hands out a signer object of its own -/

/-- The `RSASigner` instance returned by `get_signer`. -/
structure SignerObj (κ α : Type) where
  digest : α
  key : κ
deriving DecidableEq, Repr

/-- Where a thread is inside its current operation (its local variables). -/
inductive Pending (κ α μ : Type) where
  | idle
  /-- between `signer = backend.get_signer(sigalg)` and `signer.sign(string_enc)` -/
  | signing (s : SignerObj κ α) (alg : α) (msg : μ)
  /-- between `signer = crypto.get_signer(…)` and `signer.verify(string, _sign, _key)`; `cert`, `sigkey` are
      the arguments of THIS call (`_key` = key of `cert` if given, else `sigkey`) -/
  | verifying (s : SignerObj κ α) (alg : α) (msg : μ) (sig : Sig κ α μ) (cert sigkey : Option κ)
deriving DecidableEq, Repr

/-- `_key` of `verify_redirect_signature`. -/
def explicitKey (cert sigkey : Option κ) : Option κ :=
  match cert with
  | some c => some c
  | none => sigkey

structure TState (κ α μ : Type) where
  /-- key of the entity the thread currently acts for -/
  key : κ
  /-- number of operations of the program completed so far (index of the current / next one) -/
  pc : Nat
  rest : List (Op κ α μ)
  pend : Pending κ α μ
deriving DecidableEq, Repr

/-- One atomic action of one thread; `none` = the thread has finished its program.  An event
    belongs to the operation with index `st.pc` (the value BEFORE the step). -/
def stepThread (tb : Tables α) (st : TState κ α μ) :
    Option (TState κ α μ × Branch × Option (Event κ α μ)) :=
  match st.pend with
  | .signing s alg msg =>
      -- `signer.sign(string_enc)`: `key_sign(key or self.key, msg, self.digest)` with key=None
      some ({ st with pend := .idle, pc := st.pc + 1 }, .signSign, some (.signed alg msg ⟨s.key, s.digest, msg⟩))
  | .verifying s _ msg sig cert sigkey =>
      -- `signer.verify(string, _sign, _key)`: `key_verify(key or self.key, sig, msg, self.digest)`
      some ({ st with pend := .idle, pc := st.pc + 1 },
            (if (explicitKey cert sigkey).isSome then .verifyExplicitKey else .verifySignerKey),
            some (.verified (verifies ((explicitKey cert sigkey).getD s.key) s.digest msg sig)))
  | .idle =>
    match st.rest with
    | [] => none
    | .sign alg msg :: r =>
        if !tb.allowed alg then
          some ({ st with rest := r, pc := st.pc + 1 }, .signNotAllowed, some .refused)  -- raise before get_signer
        else if !tb.hasSigner alg then
          some ({ st with rest := r, pc := st.pc + 1 }, .signNoSigner, some .refused)    -- get_signer -> None -> raise
        else
          some ({ st with rest := r, pend := .signing ⟨alg, st.key⟩ alg msg }, .signGetSigner, none)
    | .verify alg msg sig cert sigkey :: r =>
        if !tb.hasSigner alg then
          -- get_signer -> None; `SigAlg in SIGNER_ALGS` false -> falls off the end (None, falsy)
          some ({ st with rest := r, pc := st.pc + 1 }, .verifyNoSigner, some (.verified false))
        else
          some ({ st with rest := r, pend := .verifying ⟨alg, sigkey.getD st.key⟩ alg msg sig cert sigkey },
                .verifyGetSigner, none)
    | .setup _ content :: r =>
        -- new entity: `RSACrypto(import_rsa_key_from_file(key_file))`, the file holding `content` now
        some ({ st with rest := r, pc := st.pc + 1, key := content }, .setupEntity, some .setupDone)

/-- Process-wide state of the repaired design: only the threads' own locals change; the table
    `SIGNER_ALGS` is never written (it is the parameter `tb`); there is no shared verification state and
    no state keyed by key-file path. -/
structure State (κ α μ : Type) where
  ts : List (TState κ α μ)
  /-- gate points passed, in order -/
  trace : List (Nat × Branch)
  /-- operation results `(thread, index of the operation in its program, result)`, in order of completion -/
  out : List (Nat × Nat × Event κ α μ)

def init (threads : List (Thread κ α μ)) : State κ α μ :=
  { ts := threads.map (fun th => { key := th.key, pc := 0, rest := th.prog, pend := .idle }), trace := [], out := [] }

def step (tb : Tables α) (g : State κ α μ) (t : Nat) : State κ α μ :=
  match g.ts[t]? with
  | none => g
  | some st =>
    match stepThread tb st with
    | none => g
    | some (st', b, ev) =>
      { ts := g.ts.set t st', trace := g.trace ++ [(t, b)],
        out := g.out ++ (match ev with | some e => [(t, st.pc, e)] | none => []) }

/-- Run a schedule (any list of thread numbers). -/
def run (tb : Tables α) (threads : List (Thread κ α μ)) (sched : List Nat) : State κ α μ :=
  sched.foldl (step tb) (init threads)

/-- The harness lets every thread finish after the schedule is used up: thread 0 to its end, then
    thread 1, … (an operation takes at most two actions; surplus entries do nothing). -/
def completion (threads : List (Thread κ α μ)) : List Nat :=
  (List.range threads.length).flatMap (fun i =>
    match threads[i]? with
    | some th => List.replicate (2 * th.prog.length) i
    | none => [])

def complete (threads : List (Thread κ α μ)) (sched : List Nat) : List Nat :=
  sched ++ completion threads

/-! ## Design before the repair: one mutable key per table entry, shared by everybody -/

/-- Thread locals in the shared design: `signer` is a reference to the table entry `handle`. -/
inductive PendingSh (κ α μ : Type) where
  | idle
  | signing (handle : α) (alg : α) (msg : μ)
  | verifying (handle : α) (alg : α) (msg : μ) (sig : Sig κ α μ) (key : Option κ)
deriving DecidableEq, Repr

structure TStateSh (κ α μ : Type) where
  key : κ
  pc : Nat
  rest : List (Op κ α μ)
  pend : PendingSh κ α μ
deriving DecidableEq, Repr

structure StateSh (κ α μ : Type) where
  ts : List (TStateSh κ α μ)
  /-- `SIGNER_ALGS[alg].key` -/
  signerKey : α → Option κ
  trace : List (Nat × Branch)
  out : List (Nat × Nat × Event κ α μ)

def initSh (threads : List (Thread κ α μ)) : StateSh κ α μ :=
  { ts := threads.map (fun th => { key := th.key, pc := 0, rest := th.prog, pend := .idle }),
    signerKey := fun _ => none, trace := [], out := [] }

/-- One atomic action in the shared design: result thread state, new shared keys, branch, event. -/
def stepThreadSh (tb : Tables α) (keys : α → Option κ) (st : TStateSh κ α μ) :
    Option (TStateSh κ α μ × (α → Option κ) × Branch × Option (Event κ α μ)) :=
  match st.pend with
  | .signing h alg msg =>
      -- the key is whatever the shared entry holds NOW
      some ({ st with pend := .idle, pc := st.pc + 1 }, keys, .signSign,
            some (match keys h with
                  | some k => .signed alg msg ⟨k, h, msg⟩
                  | none => .crashed))
  | .verifying h _ msg sig key =>
      let k := match key with | some k => some k | none => keys h
      some ({ st with pend := .idle, pc := st.pc + 1 }, keys,
            (if key.isSome then .verifyExplicitKey else .verifySignerKey),
            some (.verified (match k with | some k => verifies k h msg sig | none => false)))
  | .idle =>
    match st.rest with
    | [] => none
    | .sign alg msg :: r =>
        if !tb.allowed alg then
          some ({ st with rest := r, pc := st.pc + 1 }, keys, .signNotAllowed, some .refused)
        else if !tb.hasSigner alg then
          some ({ st with rest := r, pc := st.pc + 1 }, keys, .signNoSigner, some .refused)
        else
          -- `signer.key = self.key` on the shared entry
          some ({ st with rest := r, pend := .signing alg alg msg },
                (fun a => if a = alg then some st.key else keys a), .signGetSigner, none)
    | .verify alg msg sig cert sigkey :: r =>
        if !tb.hasSigner alg then
          some ({ st with rest := r, pc := st.pc + 1 }, keys, .verifyNoSigner, some (.verified false))
        else
          some ({ st with rest := r, pend := .verifying alg alg msg sig (explicitKey cert sigkey) },
                (fun a => if a = alg then some (sigkey.getD st.key) else keys a), .verifyGetSigner, none)
    | .setup _ content :: r =>
        some ({ st with rest := r, pc := st.pc + 1, key := content }, keys, .setupEntity, some .setupDone)

def stepSh (tb : Tables α) (g : StateSh κ α μ) (t : Nat) : StateSh κ α μ :=
  match g.ts[t]? with
  | none => g
  | some st =>
    match stepThreadSh tb g.signerKey st with
    | none => g
    | some (st', keys', b, ev) =>
      { ts := g.ts.set t st', signerKey := keys', trace := g.trace ++ [(t, b)],
        out := g.out ++ (match ev with | some e => [(t, st.pc, e)] | none => []) }

def runSh (tb : Tables α) (threads : List (Thread κ α μ)) (sched : List Nat) : StateSh κ α μ :=
  sched.foldl (stepSh tb) (initSh threads)

end Signer
