/-
  C15 — redirect-binding signatures: `saml2.pack.http_redirect_message` (signer side, with the
  allow-list test of `Entity.apply_binding` in front of it), `saml2.sigver.verify_redirect_signature`
  (verifier side) and its use by `Request._loads` / `_do_redirect_sig_check`.

  * Strings are byte strings, `Str = List Nat` (UTF-8 octets).
  * External functions are parameters, bundled in `Codec`:
      `enc`  = `urllib.parse.quote_plus`  (what `urlencode({k: v})` applies to key and value),
      `b64e` = `base64.b64encode` of the signature octets,
      `b64d` = `base64.b64decode` (lenient, `none` = `binascii.Error`).
    The laws the theorems need are in `CodecLaws`; `quotePlus` below is an executable instance of
    `enc` (used by the driver, compared byte-for-byte with what the implementation signs).
  * `deflate_and_base64_encode(message)` is external too: the model starts from the parameter VALUE.
  * Signatures are ideal: `Sig.signed k d m` is a term; `Sig.verify pk d' m'` accepts it iff
    `pk = pub k ∧ d' = d ∧ m' = m`.  Real RSA is exercised by the correspondence run only.
  * The tables the code reads (`SIG_ALLOWED_ALG`, `SIGNER_ALGS`, `REQ_ORDER`, `RESP_ORDER`) are a
    parameter `Tables`; `genTables` is the instance regenerated from the source on every run.
  * Python raising = an explicit error value.
-/
import PysamlModel.Gen.RedirectSigTables

namespace RedirectSig

abbrev Str := List Nat

/-- `&` -/
def amp : Nat := 38
/-- `=` -/
def eqc : Nat := 61

/-- `0x01 ‖ bytes` as one big-endian number: the coding used by the generated tables. -/
def Str.toCode (s : Str) : Nat := s.foldl (fun a b => a * 256 + b) 1

def ofCodeAux : Nat → Nat → Str → Str
  | 0, _, acc => acc
  | f + 1, n, acc => if n ≤ 1 then acc else ofCodeAux f (n / 256) ((n % 256) :: acc)

/-- inverse of `Str.toCode` on byte strings -/
def Str.ofCode (n : Nat) : Str := ofCodeAux (n.log2 / 8 + 1) n []

/-! ### literal strings of the code -/

/-- `"SAMLRequest"` -/
def kSAMLRequest : Str := [83, 65, 77, 76, 82, 101, 113, 117, 101, 115, 116]
/-- `"SAMLResponse"` -/
def kSAMLResponse : Str := [83, 65, 77, 76, 82, 101, 115, 112, 111, 110, 115, 101]
/-- `"SAMLart"` -/
def kSAMLart : Str := [83, 65, 77, 76, 97, 114, 116]
/-- `"RelayState"` -/
def kRelayState : Str := [82, 101, 108, 97, 121, 83, 116, 97, 116, 101]
/-- `"SigAlg"` -/
def kSigAlg : Str := [83, 105, 103, 65, 108, 103]
/-- `"Signature"` -/
def kSignature : Str := [83, 105, 103, 110, 97, 116, 117, 114, 101]

/-! ### dictionaries (Python `dict` with string keys and values) -/

abbrev Dict := List (Str × Str)

/-- `d[k]` / `d.get(k)`; `none` = `KeyError` -/
def Dict.get : Dict → Str → Option Str
  | [], _ => none
  | (k', v) :: t, k => if k' = k then some v else Dict.get t k

/-- `k in d` -/
def Dict.has (d : Dict) (k : Str) : Bool := (d.get k).isSome

/-- `del d[k]` (on a copy) -/
def Dict.del : Dict → Str → Dict
  | [], _ => []
  | (k', v) :: t, k => if k' = k then Dict.del t k else (k', v) :: Dict.del t k

/-! ### tables read by the code -/

structure Tables where
  /-- long names of `saml2.entity.SIG_ALLOWED_ALG` -/
  allowedEntity : List Str
  /-- long names of `saml2.pack.SIG_ALLOWED_ALG` -/
  allowedPack : List Str
  /-- `saml2.sigver.SIGNER_ALGS`: URI ↦ name of the digest of its `RSASigner` -/
  signers : List (Str × Str)
  /-- `saml2.pack.REQ_ORDER` / `RESP_ORDER` (signer) -/
  reqOrderS : List Str
  respOrderS : List Str
  /-- `saml2.sigver.REQ_ORDER` / `RESP_ORDER` (verifier) -/
  reqOrderV : List Str
  respOrderV : List Str
deriving DecidableEq, Repr

/-- the tables of the current source, regenerated on every run -/
def genTables : Tables where
  allowedEntity := Gen.RedirectSig.allowedEntity.map Str.ofCode
  allowedPack := Gen.RedirectSig.allowedPack.map Str.ofCode
  signers := Gen.RedirectSig.signers.map fun p => (Str.ofCode p.1, Str.ofCode p.2)
  reqOrderS := Gen.RedirectSig.reqOrderS.map Str.ofCode
  respOrderS := Gen.RedirectSig.respOrderS.map Str.ofCode
  reqOrderV := Gen.RedirectSig.reqOrderV.map Str.ofCode
  respOrderV := Gen.RedirectSig.respOrderV.map Str.ofCode

/-- `saml2.xmldsig.SIG_ALLOWED_ALG` itself (the two lists above are imports of it) -/
def genAllowedDef : List Str := Gen.RedirectSig.allowedDef.map Str.ofCode

/-! ### ideal signatures -/

/-- the public half of key pair `k` (what a certificate carries) -/
structure Pub (κ : Type) where
  id : κ
deriving DecidableEq, Repr

def pub {κ : Type} (k : κ) : Pub κ := ⟨k⟩

/-- the octets a `Signature` parameter can denote: a signature made with private key `key`,
    digest `digest` over `msg` — or anything else -/
inductive Sig (κ : Type) where
  | signed (key : κ) (digest : Str) (msg : Str)
  | junk (n : Nat)
deriving DecidableEq, Repr

/-- `key_verify(pk, sig, msg, digest)` -/
def Sig.verify {κ : Type} [DecidableEq κ] (pk : Pub κ) (digest msg : Str) : Sig κ → Bool
  | .signed k d m => decide (pk = pub k) && decide (d = digest) && decide (m = msg)
  | .junk _ => false

/-! ### external codecs -/

structure Codec (σ : Type) where
  /-- `urllib.parse.quote_plus` -/
  enc : Str → Str
  /-- `base64.b64encode` of signature octets (as text) -/
  b64e : σ → Str
  /-- `base64.b64decode` of the `Signature` parameter; `none` = `binascii.Error` -/
  b64d : Str → Option σ

structure CodecLaws {σ : Type} (C : Codec σ) : Prop where
  enc_inj : ∀ a b, C.enc a = C.enc b → a = b
  enc_no_amp : ∀ a, amp ∉ C.enc a
  enc_no_eq : ∀ a, eqc ∉ C.enc a
  b64_roundtrip : ∀ s, C.b64d (C.b64e s) = some s

/-! ### the signed octet string -/

/-- `"&".join(l)` -/
def joinAmp : List Str → Str
  | [] => []
  | [a] => a
  | a :: b :: t => a ++ amp :: joinAmp (b :: t)

/-- `urlencode({k: v})` -/
def pair (enc : Str → Str) (k v : Str) : Str := enc k ++ eqc :: enc v

/-- `"&".join(urlencode({k: args[k]}) for k in _order if k in args)` -/
def signedString (enc : Str → Str) (order : List Str) (args : Dict) : Str :=
  joinAmp (order.filterMap fun k => (args.get k).map (pair enc k))

/-! ### signer: `http_redirect_message` and `Entity.apply_binding` -/

inductive SignErr where
  | unknownType        -- `raise Exception("Unknown message type")`
  | notAllowedEntity   -- apply_binding: `Signature algo not in allowed list`
  | notAllowedPack     -- http_redirect_message: `Signature algo not in allowed list`
  | noSigner           -- `Could not init signer fro algo`
  | orderTypeError     -- typ = SAMLart with sign: `for k in None` (TypeError)
deriving DecidableEq, Repr

structure Signed (κ : Type) where
  octets : Str
  digest : Str
  sig : Sig κ
deriving DecidableEq, Repr

inductive SignOut (κ : Type) where
  | refused (e : SignErr)
  /-- the query parameters in emission order, and what was signed (if anything) -/
  | ok (params : Dict) (signed : Option (Signed κ))
deriving DecidableEq, Repr

variable {κ : Type} [DecidableEq κ]

/-- `http_redirect_message(message, location, relay_state, typ, sigalg, sign, backend)`;
    `value` is `deflate_and_base64_encode(message)` (the message itself for `SAMLart`), `key` the
    private key of `backend`.  The dictionary is written as a list: all keys assigned are
    distinct, so every assignment appends. -/
def redirectMessage (T : Tables) (C : Codec (Sig κ)) (key : κ) (typ value relayState : Str)
    (sign : Bool) (sigalg : Option Str) : SignOut κ :=
  if typ ≠ kSAMLRequest ∧ typ ≠ kSAMLResponse ∧ typ ≠ kSAMLart then .refused .unknownType else
  let order : Option (List Str) :=
    if typ = kSAMLRequest then some T.reqOrderS
    else if typ = kSAMLResponse then some T.respOrderS else none
  let args1 : Dict := (typ, value) :: (if relayState ≠ [] then [(kRelayState, relayState)] else [])
  if !sign then .ok args1 none else
  match sigalg with
  | none => .refused .notAllowedPack
  | some alg =>
    if alg ∉ T.allowedPack then .refused .notAllowedPack else
    match (if alg ≠ [] then Dict.get T.signers alg else none) with
    | none => .refused .noSigner
    | some dig =>
      let args2 := args1 ++ [(kSigAlg, alg)]
      match order with
      | none => .refused .orderTypeError
      | some ord =>
        let octets := signedString C.enc ord args2
        let sig := Sig.signed key dig octets
        .ok (args2 ++ [(kSignature, C.b64e sig)]) (some ⟨octets, dig, sig⟩)

/-- `sign_alg = sigalg or self.signing_algorithm` -/
def effAlg (cfgAlg : Str) (sigalg : Option Str) : Str :=
  match sigalg.filter (· ≠ []) with
  | some a => a
  | none => cfgAlg

/-- `Entity.apply_binding(BINDING_HTTP_REDIRECT, msg_str, destination, relay_state, response, sign, sigalg)`:
    `cfgAlg` = `self.signing_algorithm`, `shouldSign` = truth value of `self.should_sign`.
    The allow-list test comes first, whether or not anything is signed. -/
def applyBinding (T : Tables) (C : Codec (Sig κ)) (key : κ) (cfgAlg : Str) (shouldSign response : Bool)
    (value relayState : Str) (sign : Option Bool) (sigalg : Option Str) : SignOut κ :=
  if effAlg cfgAlg sigalg ∉ T.allowedEntity then .refused .notAllowedEntity
  else redirectMessage T C key (if response then kSAMLResponse else kSAMLRequest) value relayState
    (sign.getD shouldSign) (some (effAlg cfgAlg sigalg))

/-! ### verifier: `verify_redirect_signature` -/

inductive VErr where
  | keyError      -- `saml_msg["SigAlg"]` / `del _args["Signature"]`
  | unsupported   -- neither SAMLRequest nor SAMLResponse
  | b64           -- `binascii.Error`
  | cert          -- the certificate string is not a certificate
deriving DecidableEq, Repr

inductive VOut where
  | verified
  | notVerified   -- returns `False`
  | none          -- falls through: returns `None` (SigAlg not in SIGNER_ALGS)
  | error (e : VErr)
deriving DecidableEq, Repr

/-- a key object handed to / extracted by the verifier: an RSA public key (a private key counts as
    its public half, `key_verify` takes `public_key()`), or some other key object (EC, Ed25519, DSA):
    truthy, but its `verify()` cannot be called the RSA way — the exception is swallowed by
    `key_verify`, the answer is `False` -/
inductive VKey (κ : Type) where
  | rsa (pk : Pub κ)
  | other
deriving DecidableEq, Repr

/-- a non-empty certificate string: `extract_rsa_key_from_x509_cert` returns whatever public key
    it holds, or raises (not a certificate).  An EMPTY string is falsy: it counts as "no certificate". -/
inductive Cert (κ : Type) where
  | holds (k : VKey κ)
  | malformed
deriving DecidableEq, Repr

/-- what `signer.verify(string, _sign, _key)` ends up verifying under -/
inductive KeyRes (κ : Type) where
  /-- key extraction raised -/
  | raises
  /-- `some pk`: RSA verification under `pk`; `none`: no key / a key that cannot verify RSA signatures -/
  | under (pk : Option (Pub κ))
deriving DecidableEq, Repr

def VKey.pub? : VKey κ → Option (Pub κ)
  | .rsa pk => some pk
  | .other => none

/-- `_key = extract(cert) if cert else sigkey`, then `key_verify(_key or (sigkey or crypto.key), …)`:
    the certificate's key if a certificate is given, else `sigkey`, else the verifier's own key
    (`own = none`: a backend without key).  Key objects are truthy, so a certificate's key is never
    replaced by the fallback. -/
def effKey (own : Option κ) (cert : Option (Cert κ)) (sigkey : Option (VKey κ)) : KeyRes κ :=
  match cert with
  | some (.holds k) => .under k.pub?
  | some .malformed => .raises
  | none => match sigkey with
    | some k => .under k.pub?
    | none => .under (own.map pub)

/-- `key_verify` under what `effKey` gave -/
def verifyUnder (pk : Option (Pub κ)) (digest msg : Str) (s : Sig κ) : Bool :=
  match pk with
  | some pk => s.verify pk digest msg
  | none => false

/-- `verify_redirect_signature` once the key question is settled -/
def verifyWith (T : Tables) (C : Codec (Sig κ)) (kr : KeyRes κ) (msg : Dict) : VOut :=
  match msg.get kSigAlg with
  | none => .error .keyError
  | some alg =>
    match Dict.get T.signers alg with
    | none => .none
    | some dig =>
      let order : Option (List Str) :=
        if msg.has kSAMLRequest then some T.reqOrderV
        else if msg.has kSAMLResponse then some T.respOrderV else none
      match order with
      | none => .error .unsupported
      | some ord =>
        match msg.get kSignature with
        | none => .error .keyError
        | some sigText =>
          let octets := signedString C.enc ord (msg.del kSignature)
          match kr with
          | .raises => .error .cert
          | .under pk =>
            match C.b64d sigText with
            | none => .error .b64
            | some s => if verifyUnder pk dig octets s then .verified else .notVerified

/-- `verify_redirect_signature(saml_msg, crypto, cert, sigkey)`; `own` is `crypto.key`. -/
def verifyRedirect (T : Tables) (C : Codec (Sig κ)) (own : Option κ) (msg : Dict)
    (cert : Option (Cert κ)) (sigkey : Option (VKey κ)) : VOut :=
  verifyWith T C (effKey own cert sigkey) msg

/-! ### receiver: `Request._loads` / `_do_redirect_sig_check` -/

/-- `any(verify_redirect_signature(...) for cert in certs)`; `none` = an exception escaped -/
def anyVerified : List VOut → Option Bool
  | [] => some false
  | .verified :: _ => some true
  | .error _ :: _ => Option.none
  | _ :: t => anyVerified t

/-- the dictionary `_loads` builds -/
def loadsMsg (origdoc sigalg signature : Str) (relayState : Option Str) : Dict :=
  [(kSAMLRequest, origdoc), (kSignature, signature), (kSigAlg, sigalg)] ++
    (match relayState with
     | some r => [(kRelayState, r)]
     | none => [])

/-- the `if sign_redirect:` block of `Request._loads`: `true` = passes, `false` = `IncorrectlySigned`.
    `certs`: the keys held by the (well-formed) signing certificates metadata lists for the sender. -/
def redirectSigCheck (T : Tables) (C : Codec (Sig κ)) (own : Option κ) (certs : List (VKey κ)) (origdoc : Str)
    (relayState sigalg signature : Option Str) : Bool :=
  match sigalg, signature with
  | some a, some s =>
    anyVerified (certs.map fun c =>
      verifyRedirect T C own (loadsMsg origdoc a s relayState) (some (.holds c)) Option.none) == some true
  | _, _ => false

/-- `Server.parse_authn_request` as far as this property goes: `must` = want_authn_requests_signed,
    `redirect` = the binding is HTTP-Redirect, `wellformed` = every other check of the receiver
    (decoding, XML, schema, destination, IssueInstant) passes. -/
def requestAccepted (T : Tables) (C : Codec (Sig κ)) (own : Option κ) (must redirect wellformed : Bool)
    (certs : List (VKey κ)) (origdoc : Str) (relayState sigalg signature : Option Str) : Bool :=
  (if must && redirect then redirectSigCheck T C own certs origdoc relayState sigalg signature else true)
    && wellformed

/-! ### an executable `quote_plus` -/

def isUnreserved (b : Nat) : Bool :=
  (65 ≤ b && b ≤ 90) || (97 ≤ b && b ≤ 122) || (48 ≤ b && b ≤ 57) ||
  b == 95 || b == 46 || b == 45 || b == 126

/-- upper-case hexadecimal digit -/
def hexDigit (n : Nat) : Nat := if n < 10 then 48 + n else 55 + n

def quoteByte (b : Nat) : Str :=
  if isUnreserved b then [b] else if b = 32 then [43] else [37, hexDigit (b / 16), hexDigit (b % 16)]

/-- `urllib.parse.quote_plus(s, safe="")` on the UTF-8 octets of `s` -/
def quotePlus (s : Str) : Str := s.flatMap quoteByte

def unhex (c : Nat) : Nat := if c ≤ 57 then c - 48 else c - 55

/-- left inverse of `quotePlus` (`unquote_plus`) -/
def unquotePlus : Str → Str
  | [] => []
  | 43 :: t => 32 :: unquotePlus t
  | 37 :: h :: l :: t => (unhex h * 16 + unhex l) :: unquotePlus t
  | c :: t => c :: unquotePlus t

end RedirectSig
