/-
  C13 — regular expressions over an arbitrary symbol type `σ`, matched against words over an
  alphabet `α` through a satisfaction relation `sat : σ → α → Bool` (a symbol is an element
  particle or a wildcard, a letter is the qualified name of a child element).

  `Re.matches` is the executable matcher used by the XSD content-model check
  (Brzozowski derivatives with the usual smart constructors so that derivatives stay small);
  `Re.Lang` is the declarative language.  `Props/C13.lean` proves `matches = true ↔ Lang`.
-/
namespace Validate

inductive Re (σ : Type) where
  | empty
  | eps
  | sym (s : σ)
  | seq (a b : Re σ)
  | alt (a b : Re σ)
  | star (a : Re σ)
deriving Repr, DecidableEq

namespace Re
variable {σ α : Type}

def nullable : Re σ → Bool
  | empty => false
  | eps => true
  | sym _ => false
  | seq a b => a.nullable && b.nullable
  | alt a b => a.nullable || b.nullable
  | star _ => true

def isEmpty : Re σ → Bool
  | empty => true
  | _ => false

def isEps : Re σ → Bool
  | eps => true
  | _ => false

/-- `seq` that absorbs `empty` and `eps` on the left. -/
def mkSeq (a b : Re σ) : Re σ :=
  if a.isEmpty then empty else if a.isEps then b else seq a b

/-- `alt` that drops `empty` operands. -/
def mkAlt (a b : Re σ) : Re σ :=
  if a.isEmpty then b else if b.isEmpty then a else alt a b

/-- Brzozowski derivative with respect to one letter. -/
def deriv (sat : σ → α → Bool) : Re σ → α → Re σ
  | empty, _ => empty
  | eps, _ => empty
  | sym s, x => if sat s x then eps else empty
  | seq a b, x => mkAlt (mkSeq (deriv sat a x) b) (if a.nullable then deriv sat b x else empty)
  | alt a b, x => mkAlt (deriv sat a x) (deriv sat b x)
  | star a, x => mkSeq (deriv sat a x) (star a)

/-- The matcher: derive by every letter, then test nullability. -/
def «matches» (sat : σ → α → Bool) (r : Re σ) : List α → Bool
  | [] => r.nullable
  | x :: w => «matches» sat (deriv sat r x) w

/-- Declarative language of a regular expression. -/
inductive Lang (sat : σ → α → Bool) : Re σ → List α → Prop where
  | eps : Lang sat eps []
  | sym {s : σ} {x : α} : sat s x = true → Lang sat (sym s) [x]
  | seq {a b : Re σ} {u v : List α} : Lang sat a u → Lang sat b v → Lang sat (seq a b) (u ++ v)
  | altL {a b : Re σ} {u : List α} : Lang sat a u → Lang sat (alt a b) u
  | altR {a b : Re σ} {u : List α} : Lang sat b u → Lang sat (alt a b) u
  | starNil {a : Re σ} : Lang sat (star a) []
  | starCons {a : Re σ} {u v : List α} : Lang sat a u → Lang sat (star a) v → Lang sat (star a) (u ++ v)

/-! Derived forms used by the schema translator (`minOccurs`/`maxOccurs`, `xs:sequence`, `xs:choice`). -/

def opt (r : Re σ) : Re σ := alt eps r

def seqL : List (Re σ) → Re σ
  | [] => eps
  | r :: rs => seq r (seqL rs)

def altL : List (Re σ) → Re σ
  | [] => empty
  | r :: rs => alt r (altL rs)

/-- exactly `n` copies -/
def pow (r : Re σ) : Nat → Re σ
  | 0 => eps
  | n + 1 => seq r (pow r n)

/-- at most `n` copies -/
def upTo (r : Re σ) : Nat → Re σ
  | 0 => eps
  | n + 1 => opt (seq r (upTo r n))

/-- `r{min,max}`; `max = none` is `unbounded`. -/
def rep (r : Re σ) (min : Nat) : Option Nat → Re σ
  | none => seq (pow r min) (star r)
  | some max => seq (pow r min) (upTo r (max - min))

/-- All symbols of an expression, left to right. -/
def syms : Re σ → List σ
  | empty => []
  | eps => []
  | sym s => [s]
  | seq a b => a.syms ++ b.syms
  | alt a b => a.syms ++ b.syms
  | star a => a.syms

/-- Syntactic emptiness of the language (used only to classify a failure as
    "unexpected child" vs "content incomplete"). -/
def isVoid : Re σ → Bool
  | empty => true
  | eps => false
  | sym _ => false
  | seq a b => a.isVoid || b.isVoid
  | alt a b => a.isVoid && b.isVoid
  | star _ => false

/-- Does some prefix of the word already leave the language empty? -/
def stuck (sat : σ → α → Bool) (r : Re σ) : List α → Bool
  | [] => r.isVoid
  | x :: w => r.isVoid || stuck sat (deriv sat r x) w

end Re
end Validate
