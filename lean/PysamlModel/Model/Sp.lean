/-
  The shared service-provider model (DESIGN.md section 6): one function `Sp.process` mirrors

    Saml2Client.parse_authn_request_response → Entity._parse_response → AuthnResponse.loads/_loads
    → SecurityContext.correctly_signed_response → StatusResponse._verify → AuthnResponse.verify /
    parse_assertion / _assertion → authn_statement_ok / condition_ok / for_me / get_subject /
    _bearer_confirmed / verify_recipient → session_info → identity cache.

  It follows the code as it is (after the `fix:` commits recorded in KNOWN_FINDINGS.jsonl):
  the two forced passes of `_parse_response` with their `except SigverError` / `except
  SignatureError` asymmetry, `verify()` returning `None`, the order of the tests in
  `condition_ok`, the `None` cases of `later_than`, the three places that touch `came_from`.

  Abstractions (trusted base): XML parsing/serialisation; a signature is one of four states
  (ideal crypto); an encrypted assertion is "decryptable or not"; times are `Int` seconds.
  Strings are Lean `String`s, used only through equality / list membership and the opaque
  `pyStrip` (Python `str.strip`).
-/
namespace Sp

inductive Sig where
  | absent | valid | corrupted | untrusted
deriving Repr, DecidableEq, Inhabited

def Sig.present : Sig → Bool
  | .absent => false
  | _ => true

inductive Method where
  | bearer | holderOfKey | senderVouches | other
deriving Repr, DecidableEq, Inhabited

structure ScData where
  nb : Option Int := none
  nooa : Option Int := none
  recipient : Option String := none
  irt : Option String := none
  address : Option String := none      -- only syntactically valid addresses are generated
  hasKeyInfo : Bool := false           -- holder-of-key: a ds:KeyInfo extension element is present
deriving Repr, DecidableEq, Inhabited

structure SubjConf where
  method : Method
  data : Option ScData
deriving Repr, DecidableEq, Inhabited

structure Subject where
  nameId : Option String                   -- the identifier, carried as `<saml:NameID>` or inside `<saml:EncryptedID>`
  confs : List SubjConf
  idSealed : Bool := false                 -- the identifier is carried as `<saml:EncryptedID>` (there is no NameID element)
  idOpens : Bool := true                   -- … and one of the provider's own decryption keys opens it
deriving Repr, DecidableEq, Inhabited

structure Conditions where
  nb : Option Int := none
  nooa : Option Int := none
  audiences : List (List String) := []     -- one list per AudienceRestriction
  extra : List (Option String) := []       -- extension <Condition> elements: the value of xsi:type (`none` = no xsi:type)
deriving Repr, DecidableEq, Inhabited

structure AuthnStmt where
  sessionNooa : Option Int := none
  sessionIndex : Option String := none
deriving Repr, DecidableEq, Inhabited

structure Assertion where
  sig : Sig := .absent
  encrypted : Bool := false
  decryptable : Bool := true
  conditions : Option Conditions := none
  authn : List AuthnStmt := []
  subject : Option Subject := none
deriving Repr, DecidableEq, Inhabited

structure Response where
  sig : Sig := .absent
  version : String := "2.0"
  issueInstant : Int := 0
  destination : Option String := none
  inResponseTo : Option String := none
  issuer : Option String := none
  statusTop : String := "urn:oasis:names:tc:SAML:2.0:status:Success"
  statusSecond : Option String := none
  assertions : List Assertion := []      -- document order; `encrypted` marks EncryptedAssertion
deriving Repr, DecidableEq, Inhabited

/-- What the SP is configured with / called with. -/
structure Cfg where
  wantResp : Bool := true            -- want_response_signed
  wantAssert : Bool := false         -- want_assertions_signed
  wantEither : Bool := false         -- want_assertions_or_response_signed
  allowUnsolicited : Bool := false
  skew : Nat := 0                    -- accepted_time_diff (unset = 0)
  entityId : String := ""
  returnAddrs : List String := []    -- own ACS endpoints for the binding used
  extSchemas : List String := []     -- `extension_schema` handed to the AuthnResponse constructor (namespace keys)
deriving Repr, DecidableEq, Inhabited

/-- `Entity._parse_response` (every `Saml2Client.parse_*_response`) and the factory `authn_response()` construct the
    `AuthnResponse` WITHOUT `extension_schema`: whatever `extension_schemas` the configuration names, the set applied
    is empty.  Only `response_factory()` hands the configuration's set on. -/
def noExt (cfg : Cfg) : Cfg := { cfg with extSchemas := [] }

structure Env where
  now : Int := 0
  bindingOk : Bool := true                    -- `unravel` knows the binding (PAOS is refused)
  asynchop : Bool := true                     -- binding ∉ {SOAP, PAOS}
  outstanding : List (String × String) := []  -- request id ↦ came_from
  convInfo : Bool := false                    -- caller supplied conversation info
  convEntityId : Option String := none        -- conv_info["entity_id"]
  remoteAddr : Option String := none          -- conv_info["remote_addr"]
deriving Repr, DecidableEq, Inhabited

/-- Classes of rejection (raised exceptions).  Only `status` carries data the property talks about. -/
inductive Err where
  | sigMissingResponse | sigBadResponse | unsolicited
  | versionLow | versionHigh | versionGarbage
  | status (second : Option String)
  | invalidAssertionCount | authnStmtCount
  | sigMissingAssertion | sigBadAssertion
  | expired | premature | conditionNotOk | audience | unknownCondition
  | noSubject | noAttesting | unknownMethod | noScData | noRecipient | noValidSc | bearerUnknownIrt | cameFrom
  | eitherUnsigned | unknownBinding
  | timeForm        -- a timestamp attribute is not in the UTC form the library reads (Model/SpLex.lean)
  | idUndecryptable -- the EncryptedID of the subject is not opened by any of the provider's keys (DecryptError)
deriving Repr, DecidableEq, Inhabited

/-- Does the pass-2 handler (`except SignatureError`) catch this error? -/
def Err.isSignatureError : Err → Bool
  | .sigMissingAssertion | .sigBadAssertion => true
  | _ => false

structure Reported where
  nameId : Option String
  issuer : String
  cameFrom : Option String
  notOnOrAfter : Int
  sessionIndex : Option String
  cached : Bool
deriving Repr, DecidableEq, Inhabited

inductive Outcome where
  | identity (o : Reported)
  | noIdentity
  | rejected (e : Err)
deriving Repr, DecidableEq, Inhabited

/-- `str.isspace` for one character (the code points Python 3.12 treats as whitespace). -/
def pyIsSpace (c : Char) : Bool :=
  let n := c.toNat
  (9 ≤ n && n ≤ 13) || (28 ≤ n && n ≤ 32) || n == 133 || n == 160 || n == 5760 || (8192 ≤ n && n ≤ 8202) ||
  n == 8232 || n == 8233 || n == 8239 || n == 8287 || n == 12288

/-- Python `str.strip()`; written over character lists so that the kernel can evaluate it
    (the proofs never look inside). -/
def pyStrip (s : String) : String :=
  String.ofList (((s.toList.dropWhile pyIsSpace).reverse.dropWhile pyIsSpace).reverse)

def truthy (s : Option String) : Bool :=
  match s with
  | some t => t != ""
  | none => false

def plainOf (r : Response) : List Assertion := r.assertions.filter (fun a => !a.encrypted)
def encOf (r : Response) : List Assertion := r.assertions.filter (fun a => a.encrypted)
/-- decryption proceeds in document order until the first EncryptedData that cannot be decrypted -/
def decOf (r : Response) : List Assertion := (encOf r).takeWhile (·.decryptable)

/-! ### time checks (validate.py, time_util.py) -/

/-- `validate_on_or_after`: raises when `now > nooa + slack`. -/
def onOrAfterOk (now : Int) (skew : Nat) (nooa : Int) : Bool := !(now > nooa + skew)
/-- `validate_before`: raises when `nb > now + slack`. -/
def beforeOk (now : Int) (skew : Nat) (nb : Int) : Bool := !(nb > now + skew)
/-- `later_than(after, before)` with its `None` cases. -/
def laterThan (after before : Option Int) : Bool :=
  match before, after with
  | none, _ => true
  | some _, none => false
  | some b, some a => decide (a ≥ b)

/-- an optional NotOnOrAfter that `validate_on_or_after` refuses -/
def optExpired (now : Int) (skew : Nat) : Option Int → Bool
  | some t => !onOrAfterOk now skew t
  | none => false
/-- an optional NotBefore that `validate_before` refuses -/
def optPremature (now : Int) (skew : Nat) : Option Int → Bool
  | some t => !beforeOk now skew t
  | none => false

/-- `issue_instant_ok`: `lower < issued < upper` on struct_time tuples; the `isdst` field (-1 for the
    bounds, 0 for the parsed instant) makes the lower bound inclusive and the upper one exclusive. -/
def issueInstantOk (now : Int) (skew : Nat) (issued : Int) : Bool :=
  decide (now - 86400 - skew ≤ issued) && decide (issued < now + 86400 + skew)

/-! ### audience (`for_me`, after fix 786b46ed) -/

def restrictionMatches (me : String) (r : List String) : Bool :=
  r.any (fun a => a != "" && pyStrip a == me)

/-- `for_me(conditions, myself)`. -/
def forMe (me : String) (rs : List (List String)) : Bool :=
  if rs.isEmpty then true
  else
    (rs.all fun r => r.isEmpty || restrictionMatches me r) &&
    (rs.any fun r => !r.isEmpty && restrictionMatches me r)

/-! ### per-assertion checks -/

structure St where
  cameFrom : Option String := none
  notOnOrAfter : Int := 0
  sessionNooa : Int := 0
  nameId : Option String := none
  hasAssertion : Bool := false             -- `self.assertion is not None`
deriving Repr, DecidableEq, Inhabited

/-- `authn_statement_ok` (its boolean result is ignored by `_assertion`; it raises or sets state). -/
def authnStatementOk (cfg : Cfg) (env : Env) (st : St) (a : Assertion) : Except Err St :=
  match a.authn with
  | [s] =>
    match s.sessionNooa with
    | some t =>
      if onOrAfterOk env.now cfg.skew t then
        -- validate_on_or_after returns the (truthy unless 0) timestamp
        if t != 0 then .ok { st with sessionNooa := t } else .ok st
      else .error .expired
    | none => .ok st
  | _ => .error .authnStmtCount

/-- An extension `<Condition>` is understood iff its `xsi:type` value is a key of `extension_schema`
    (the code compares the attribute value as written with the schema modules' namespaces); without `xsi:type`
    it never is ('Missing xsi:type specification'). -/
def extKnown (cfg : Cfg) : Option String → Bool
  | some t => cfg.extSchemas.contains t
  | none => false

/-- `condition_ok(lax=False)`. -/
def conditionOk (cfg : Cfg) (env : Env) (st : St) (a : Assertion) : Except Err St :=
  match a.conditions with
  | none => .ok st
  | some c =>
    if c.nb.isNone && c.nooa.isNone && c.audiences.isEmpty && c.extra.isEmpty then .ok st  -- `not conditions.keyswv()`
    else if c.nb.isSome && c.nooa.isSome && !laterThan c.nooa c.nb then .error .conditionNotOk
    else if optExpired env.now cfg.skew c.nooa then .error .expired
    else if optPremature env.now cfg.skew c.nb then .error .premature
    else if !forMe cfg.entityId c.audiences then .error .audience
    else if c.extra.any (fun t => !extKnown cfg t) then .error .unknownCondition
    else .ok { st with notOnOrAfter := c.nooa.getD st.notOnOrAfter }

/-- `verify_attesting_entity`. -/
def attestingOk (env : Env) (confs : List SubjConf) : Bool :=
  let address := if env.convInfo then env.remoteAddr.getD "0.0.0.0" else "0.0.0.0"
  confs.any fun sc =>
    match sc.data with
    | none => true
    | some d =>
      if truthy d.address then address == "0.0.0.0" || d.address == some address
      else true

/-- `verify_recipient`. -/
def recipientOk (cfg : Cfg) (env : Env) (r : String) : Bool :=
  if !env.convInfo then true
  else env.convEntityId == some r || cfg.returnAddrs.contains r

inductive Confirm where
  | yes (st : St)
  | skip
  | fail (e : Err)

/-- `_bearer_confirmed`. -/
def bearerConfirmed (cfg : Cfg) (env : Env) (st : St) (data : Option ScData) : Confirm :=
  match data with
  | none => .skip
  | some d =>
    if optExpired env.now cfg.skew d.nooa then .fail .expired
    else if optPremature env.now cfg.skew d.nb then .fail .premature
    else if !laterThan d.nooa d.nb then .skip
    else if env.asynchop && st.cameFrom.isNone then
      match d.irt with
      | some i =>
        if i == "" then .yes st
        else match env.outstanding.lookup i with
          | some cf => .yes { st with cameFrom := some cf }
          | none => if cfg.allowUnsolicited then .yes st else .fail .bearerUnknownIrt
      | none => .yes st
    else .yes st

/-- The loop of `get_subject` over the subject confirmations. Returns the state and the number confirmed. -/
def confirmLoop (cfg : Cfg) (env : Env) : St → List SubjConf → Nat → Except Err (St × Nat)
  | st, [], n => .ok (st, n)
  | st, sc :: rest, n =>
    let step : Confirm :=
      match sc.method with
      | .bearer => bearerConfirmed cfg env st sc.data
      | .holderOfKey =>
        match sc.data with
        | some d => if d.hasKeyInfo then .yes st else .skip
        | none => .skip
      | .senderVouches => .yes st
      | .other => .fail .unknownMethod
    match step with
    | .fail e => .error e
    | .skip => confirmLoop cfg env st rest n
    | .yes st' =>
      match sc.data with
      | none => .error .noScData                      -- `_data.recipient` on None: AttributeError
      | some d =>
        match d.recipient with
        | some r => if r != "" && recipientOk cfg env r then confirmLoop cfg env st' rest (n + 1) else .error .noRecipient
        | none => .error .noRecipient

/-- The identifier `get_subject` stores: the NameID when there is one, else the NameID inside the EncryptedID
    (decrypted with the provider's own keys; `DecryptError` when none opens it), else nothing. -/
def subjectId (s : Subject) : Except Err (Option String) :=
  if s.idSealed && !s.idOpens then .error .idUndecryptable else .ok s.nameId

/-- `get_subject`. -/
def getSubject (cfg : Cfg) (env : Env) (st : St) (a : Assertion) : Except Err St :=
  match a.subject with
  | none => .error .noSubject
  | some s =>
    if !attestingOk env s.confs then .error .noAttesting
    else
      match confirmLoop cfg env st s.confs 0 with
      | .error e => .error e
      | .ok (st', n) =>
        if n == 0 then .error .noValidSc
        else
          match subjectId s with
          | .error e => .error e
          | .ok none => .ok st'
          | .ok (some n) => .ok { st' with nameId := some n }

/-- `_assertion(assertion, verified)`; `requireSig` is the current value of `require_signature`. -/
def checkAssertion (cfg : Cfg) (env : Env) (requireSig verified : Bool) (st : St) (a : Assertion) : Except Err St :=
  if !a.sig.present && requireSig then .error .sigMissingAssertion
  else if a.sig.present && !verified && a.sig != .valid then .error .sigBadAssertion
  else
    match authnStatementOk cfg env { st with hasAssertion := true } a with
    | .error e => .error e
    | .ok st1 =>
      match conditionOk cfg env st1 a with
      | .error e => .error e
      | .ok st2 =>
        match getSubject cfg env st2 a with
        | .error e => .error e
        | .ok st3 =>
          if env.asynchop && !cfg.allowUnsolicited && st3.cameFrom.isNone then .error .cameFrom else .ok st3

/-! ### Response level -/

/-- Inner loop of `check_subject_confirmation_in_response_to` (after fixes 9b28429c/…): `true` = a
    confirmation whose data carries another InResponseTo was found; data-less confirmations are skipped. -/
def scanSc (irp : Option String) : List SubjConf → Bool
  | [] => false
  | sc :: more =>
    match sc.data with
    | none => scanSc irp more
    | some d => if d.irt != irp then true else scanSc irp more

/-- `check_subject_confirmation_in_response_to` over a list of assertions: `true` = mismatch.
    An assertion without Subject raises `AttributeError`, which the caller takes for "nothing to
    compare" (the whole check is abandoned; such an assertion is rejected later by `get_subject`). -/
def scanAssertions (irp : Option String) : List Assertion → Bool
  | [] => false
  | a :: rest =>
    match a.subject with
    | none => false
    | some s => if scanSc irp s.confs then true else scanAssertions irp rest

/-- `correctly_signed_response` + `_postamble` + `AuthnResponse.loads`.
    Returns the `came_from` found at load time. -/
def loads (cfg : Cfg) (env : Env) (requireRespSig : Bool) (r : Response) : Except Err (Option String) :=
  if r.sig.present && r.sig != .valid then .error .sigBadResponse
  else if !r.sig.present && requireRespSig then .error .sigMissingResponse
  else if env.asynchop then
    match r.inResponseTo.bind (fun i => env.outstanding.lookup i) with
    | some cf =>
      if scanAssertions r.inResponseTo (plainOf r) then .error .unsolicited
      else .ok (some cf)
    | none =>
      if cfg.allowUnsolicited then .ok none else .error .unsolicited
  else .ok none

/-- Pass 1 of `_parse_response`: force the Response signature requirement, fall back when it was
    not really required.  Returns (came_from, response_is_signed). -/
def pass1 (cfg : Cfg) (env : Env) (r : Response) : Except Err (Option String × Bool) :=
  match loads cfg env true r with
  | .ok cf => .ok (cf, true)
  | .error e =>
    match e with
    | .unsolicited => .error e
    | _ =>  -- SigverError
      if cfg.wantResp then .error e
      else match loads cfg env false r with
        | .ok cf => .ok (cf, false)
        | .error e' => .error e'

/-- `StatusResponse._verify`: `none` = the method returned a falsy value (no exception). -/
def verifyEnvelope (cfg : Cfg) (env : Env) (r : Response) : Except Err Bool :=
  if r.version != "2.0" then
    match r.version with
    | "1.0" | "1.1" | "0.9" | "1.9" => .error .versionLow
    | "2.1" | "3.0" | "2.5" | "10.0" => .error .versionHigh
    | _ => .error .versionGarbage        -- float() raises ValueError (or one of the two above)
  else if env.asynchop && truthy r.destination && !(cfg.returnAddrs.contains (r.destination.getD "")) then .ok false
  else if !issueInstantOk env.now cfg.skew r.issueInstant then .ok false
  else if r.statusTop != "urn:oasis:names:tc:SAML:2.0:status:Success" then .error (.status r.statusSecond)
  else .ok true

/-- Fold `_assertion` over a list of assertions. -/
def checkAll (cfg : Cfg) (env : Env) (requireSig verified : Bool) : St → List Assertion → Except Err St
  | st, [] => .ok st
  | st, a :: rest =>
    match checkAssertion cfg env requireSig verified st a with
    | .error e => .error e
    | .ok st' => checkAll cfg env requireSig verified st' rest

structure Parsed where
  st : St
  used : List Assertion        -- self.assertions
  encLeft : Bool               -- response.encrypted_assertion still non-empty afterwards
deriving Repr, Inhabited

/-- `parse_assertion`. -/
def parseAssertion (cfg : Cfg) (env : Env) (requireSig : Bool) (st : St) (r : Response) : Except Err Parsed :=
  if (plainOf r).length != 1 && (encOf r).length != 1 && !st.hasAssertion then .error .invalidAssertionCount
  else
    match checkAll cfg env requireSig false st (plainOf r) with
    | .error e => .error e
    | .ok st1 =>
      -- decrypt_assertions(..., verified=False): a signature on a decrypted assertion is verified here
      if (decOf r).any (fun a => a.sig.present && a.sig != .valid) then .error .sigBadAssertion
      -- the InResponseTo comparison of `loads`, repeated on the decrypted assertions (fix 9b28429c)
      else if env.asynchop && (r.inResponseTo.bind (fun i => env.outstanding.lookup i)).isSome
          && scanAssertions r.inResponseTo (decOf r) then .error .unsolicited
      else
        match checkAll cfg env requireSig true st1 (decOf r) with
        | .error e => .error e
        | .ok st2 => .ok { st := st2, used := decOf r ++ plainOf r, encLeft := !(encOf r).isEmpty && (decOf r).isEmpty }

/-- `AuthnResponse.verify`: `none` = returned None. -/
def verify (cfg : Cfg) (env : Env) (requireSig : Bool) (st : St) (r : Response) : Except Err (Option Parsed) :=
  match verifyEnvelope cfg env r with
  | .error e => .error e
  | .ok false => .ok none
  | .ok true =>
    match parseAssertion cfg env requireSig st r with
    | .error e => .error e
    | .ok p => .ok (some p)

/-- Pass 2 of `_parse_response`.  Returns (result of the last verify(), assertions_are_signed). -/
def pass2 (cfg : Cfg) (env : Env) (st : St) (r : Response) : Except Err (Option Parsed × Bool) :=
  match verify cfg env true st r with
  | .ok p => .ok (p, true)
  | .error e =>
    if e.isSignatureError then
      if cfg.wantAssert then .error e
      else
        -- State written by the aborted first call (self.assertion, came_from, not_on_or_after …)
        -- is written again with the same values by the second call, which re-runs the same checks
        -- in the same order with only `require_signature` lowered; the model restarts from `st`.
        match verify cfg env false st r with
        | .ok p => .ok (p, false)
        | .error e' => .error e'
    else .error e

/-- The whole of `parse_authn_request_response`. -/
def process (cfg : Cfg) (env : Env) (r : Response) : Outcome :=
  if !env.bindingOk then .rejected .unknownBinding else
  match pass1 cfg env r with
  | .error e => .rejected e
  | .ok (cf, respSigned) =>
    let st0 : St := { cameFrom := cf }
    match pass2 cfg env st0 r with
    | .error e => .rejected e
    | .ok (p, assertSigned) =>
      if cfg.wantEither && !respSigned && !assertSigned then .rejected .eitherUnsigned
      else
        match p with
        | none => .noIdentity
        | some p =>
          match p.used with            -- self.assertion = self.assertions[0]
          | [] => .noIdentity
          | a :: _ =>
            match a.authn with
            | s :: _ =>
              .identity {
                nameId := p.st.nameId
                issuer := pyStrip (r.issuer.getD "")
                cameFrom := p.st.cameFrom
                notOnOrAfter := if p.st.sessionNooa > 0 then p.st.sessionNooa else p.st.notOnOrAfter
                sessionIndex := s.sessionIndex
                cached := !p.encLeft && p.st.nameId.isSome }
            | [] => .noIdentity

end Sp
