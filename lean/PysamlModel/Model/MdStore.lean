/-
  C11 — the metadata store: `InMemoryMetaData.do_entity_descriptor / parse /
  parse_and_check_signature`, `MetaDataFile/Loader/Extern.load`, `MetaDataMDX.__getitem__ /
  _fetch_metadata`, `MetadataStore.load / imp / reload` and the lookups `__getitem__`, `service`,
  `certs`, `attribute_requirement`, `entity_categories`, `registration_info`, `keys`, `items`,
  `with_descriptor` (src/saml2/mdstore.py).

  Strings are an arbitrary type `α` with decidable equality; time is `Int` seconds.
  A document is what the XML parser hands to `parse` (element tree level): the XML -> object ->
  `to_dict` conversion is glue exercised by the correspondence run only.

  The one place where the code still departs from the property (F9: an unsigned document passes
  although a certificate is configured) is an explicit switch of a `Policy` record; `Policy.code`
  is the code as it is, `Policy.ideal` the behaviour the property asks for.  Everything else is
  one and the same definition for both.
-/
namespace MdStore

/-! ## Documents -/

/-- Descriptor kinds, in the order of the loop in `do_entity_descriptor`
    (`role` = the abstract `RoleDescriptor`, never produced by the writer, is left out). -/
inductive Kind where
  | spsso | idpsso | authn | aa | pdp | affiliation
deriving DecidableEq, Repr

def Kind.all : List Kind := [.spsso, .idpsso, .authn, .aa, .pdp, .affiliation]
/-- the descriptors `MetaData.certs(…, "any", …)` walks through, in its order -/
def Kind.certOrder : List Kind := [.spsso, .idpsso, .authn, .aa, .pdp]

structure Endpoint (α : Type) where
  svc : α                      -- dictionary key of the service ("single_sign_on_service", …)
  binding : α
  location : α
  index : Option α := none
deriving DecidableEq, Repr

structure KeyD (α : Type) where
  use : Option α               -- KeyDescriptor/@use
  cert : α                     -- the certificate (identified by the harness with a key name)
  /-- the KeyDescriptor carries no usable certificate (no X509Data, or an X509Certificate element that
      is empty / blank): `extract_certs` skips it -/
  nocert : Bool := false
deriving DecidableEq, Repr

structure ReqAttr (α : Type) where
  acs : α                      -- index of the enclosing AttributeConsumingService
  name : α
  required : Option α          -- text of @isRequired
deriving DecidableEq, Repr

structure Reg (α : Type) where
  authority : Option α
  instant : Option α
  policies : List (α × α)      -- (lang, text)
deriving DecidableEq, Repr

structure Role (α : Type) where
  kind : Kind
  protocols : List α           -- protocolSupportEnumeration split at single blanks
  endpoints : List (Endpoint α)
  keys : List (KeyD α)
  reqAttrs : List (ReqAttr α)
deriving DecidableEq, Repr

structure Ent (α : Type) where
  id : α                       -- entityID
  tag : α                      -- EntityDescriptor/@ID: tells occurrences of one entityID apart
  validUntil : Option Int
  roles : List (Role α)
  attrs : List (α × List α)    -- mdattr:EntityAttributes: (Name, values), document order
  regs : List (Reg α)          -- mdrpi:RegistrationInfo elements, document order
deriving DecidableEq, Repr

inductive Sig where
  | unsigned | valid | tampered | wrongKey
deriving DecidableEq, Repr

structure Doc (α : Type) where
  group : Bool                 -- root is md:EntitiesDescriptor (else md:EntityDescriptor)
  validUntil : Option Int      -- of the EntitiesDescriptor
  sig : Sig                    -- state of the root's signature w.r.t. the configured certificate
  entities : List (Ent α)
deriving DecidableEq, Repr

/-- What a source yields when it is read. -/
inductive Fetch (α : Type) where
  | unavailable                -- missing file / HTTP status ≠ 200
  | malformed                  -- not well-formed XML
  | doc (d : Doc α)
deriving DecidableEq, Repr

/-- Constants of the code the model depends on (read from the code by the harness on every run). -/
structure Consts (α : Type) where
  p2 : α                       -- samlp.NAMESPACE
  ecName : α                   -- mdstore.ENTITY_CATEGORY
  trueStr : α                  -- "true"

/-- Behaviour switches.  `unsignedPasses` is the one on which the pinned code and the property
    disagree (F9).  `storeFirst` is the behaviour BEFORE fix 85b6178b (F11); the code no longer has
    it (`Policy.code.storeFirst = false`), the switch is kept only so that the driver can tell the
    classifier when observations are explained by exactly that old behaviour coming back. -/
structure Policy where
  /-- certificate configured, document carries no signature: accepted
      (`_parse_and_check_signature`: `if not self.signed(): return True`). -/
  unsignedPasses : Bool
  /-- MDQ, before 85b6178b: what `parse` stored stayed in the source when the signature check then
      raised.  Since the fix `parse_and_check_signature` restores `self.entity` to the snapshot it
      took on entry (i.e. AFTER `__getitem__` popped a stale entry). -/
  storeFirst : Bool
deriving DecidableEq, Repr

def Policy.code : Policy := ⟨true, false⟩
def Policy.ideal : Policy := ⟨false, false⟩

variable {α : Type} [DecidableEq α]

/-! ## One source -/

/-- `not valid(valid_until)`: `time.gmtime() <= str_to_time(valid_until)` fails. -/
def expired (now : Int) (vu : Option Int) : Bool :=
  match vu with
  | none => false
  | some t => decide (t < now)

/-- The role descriptor supports SAML 2.0 (the affiliation descriptor is "not protocol specific"). -/
def saml2 (p2 : α) (r : Role α) : Bool :=
  decide (r.kind = .affiliation) || r.protocols.contains p2

/-- `to_dict` + the "verify support for SAML2" loop: per kind only the descriptors that name the
    SAML 2.0 protocol are kept (`_ent[descr] = _res`, since fix 096626db); `none` = no descriptor
    left (`flag == 0`). -/
def prepEnt (p2 : α) (e : Ent α) : Option (Ent α) :=
  let rs := e.roles.filter (saml2 p2)
  if rs.isEmpty then none else some { e with roles := rs }

/-- `InMemoryMetaData.entity`: insertion-ordered dictionary entityID -> descriptor. -/
abbrev EntMap (α : Type) := List (α × Ent α)

def has (m : EntMap α) (id : α) : Bool := m.any (fun p => decide (p.1 = id))
def lookup (m : EntMap α) (id : α) : Option (Ent α) := (m.find? (fun p => decide (p.1 = id))).map (·.2)
def erase (m : EntMap α) (id : α) : EntMap α := m.filter (fun p => !decide (p.1 = id))

/-- `do_entity_descriptor`. -/
def doEntity (chk : Bool) (now : Int) (p2 : α) (m : EntMap α) (e : Ent α) : EntMap α :=
  if chk && expired now e.validUntil then m
  else if has m e.id then m
  else match prepEnt p2 e with
    | none => m
    | some d => m ++ [(e.id, d)]

inductive LoadErr where
  | unavailable | parse | tooOld | signature
deriving DecidableEq, Repr

/-- `InMemoryMetaData.parse` on a well-formed document, starting from the entities the source
    already holds (non-empty only for an MDQ source). -/
def parseDoc (chk : Bool) (now : Int) (p2 : α) (m : EntMap α) (d : Doc α) : Except LoadErr (EntMap α) :=
  if d.group then
    if chk && expired now d.validUntil then .error .tooOld
    else .ok (d.entities.foldl (doEntity chk now p2) m)
  else
    match d.entities with
    | e :: _ => .ok (doEntity chk now p2 m e)
    | [] => .ok m

/-! ### The `filter` callable (`MetadataStore(filter=…)`, handed to the sources it constructs) -/

/-- `do_entity_descriptor` with a filter: after the SAML 2.0 loop `_ent = self.filter(_ent)`; a falsy
    result (`None`, `{}`) sets `flag = 0` — the entity is not stored and does NOT occupy its entityID
    (a later occurrence may be stored); otherwise the filter's RESULT is stored under the entityID of
    the element (`self.entity[entity_descr.entity_id] = _ent`), as it is: no second protocol check. -/
def doEntityF (g : Ent α → Option (Ent α)) (chk : Bool) (now : Int) (p2 : α) (m : EntMap α) (e : Ent α) : EntMap α :=
  if chk && expired now e.validUntil then m
  else if has m e.id then m
  else match prepEnt p2 e with
    | none => m
    | some d =>
      match g d with
      | none => m
      | some d' => m ++ [(e.id, d')]

/-- `InMemoryMetaData.parse` of a source that was given a filter. -/
def parseDocF (g : Ent α → Option (Ent α)) (chk : Bool) (now : Int) (p2 : α) (m : EntMap α) (d : Doc α) :
    Except LoadErr (EntMap α) :=
  if d.group then
    if chk && expired now d.validUntil then .error .tooOld
    else .ok (d.entities.foldl (doEntityF g chk now p2) m)
  else
    match d.entities with
    | e :: _ => .ok (doEntityF g chk now p2 m e)
    | [] => .ok m

/-- The filters the correspondence run hands to the store (a finite description of a callable
    dict -> dict | None): refuse entities by entityID, refuse entities that lack an entity attribute
    value (the shape of an entity-category filter), and REWRITE what is kept by deleting the
    descriptors of some kinds.  The theorems on `doEntityF` / `parseDocF` hold for every function. -/
structure Filt (α : Type) where
  drop : List α                -- entityIDs the filter refuses
  need : Option (α × α)        -- (attribute name, value) an entity must carry to be kept
  strip : List Kind            -- `<kind>_descriptor` keys the filter deletes from what it keeps
deriving DecidableEq, Repr

/-- what the filter makes of an entity it keeps -/
def stripKinds (f : Filt α) (e : Ent α) : Ent α :=
  { e with roles := e.roles.filter (fun r => !f.strip.contains r.kind) }

def applyFilt (f : Filt α) (e : Ent α) : Option (Ent α) :=
  if f.drop.contains e.id then none
  else
    match f.need with
    | none => some (stripKinds f e)
    | some nv => if e.attrs.any (fun a => decide (a.1 = nv.1) && a.2.contains nv.2) then some (stripKinds f e) else none

inductive SrcKind where
  | file | inline | loader | remote | mdq
deriving DecidableEq, Repr

/-- Does the store hand a `SecurityContext` to this kind of source?  (`imp` passes `security`
    to `MetaDataExtern` only, `load` to `MetaDataExtern` and `MetaDataMDX`; a `MetaDataFile` with a
    certificate ends in `None.verify_signature` for every signed document.) -/
def SrcKind.hasSec : SrcKind → Bool
  | .remote => true
  | .mdq => true
  | _ => false

/-- The tail of `parse_and_check_signature`: `true` = returns `True`, `false` = raises. -/
def checkSig (pol : Policy) (k : SrcKind) (cert : Bool) (s : Sig) : Bool :=
  if !cert then true
  else match s with
    | .unsigned => pol.unsignedPasses
    | .valid => k.hasSec
    | .tampered => false
    | .wrongKey => false

/-- One entry of the metadata configuration together with what the source yields when read. -/
structure SrcSpec (α : Type) where
  key : α                      -- key under which `MetadataStore.metadata` registers the source
  kind : SrcKind
  cert : Bool                  -- a verification certificate is configured
  chk : Bool                   -- check_validity (false only for an old-style remote entry)
  fresh : Nat                  -- MDQ freshness period, seconds
  fetch : Fetch α              -- ignored for MDQ (nothing is read at load time)
  /-- the store's `filter`, if this source is constructed with it AND runs `do_entity_descriptor`
      (`load`: local files and remote; `imp`, class style: every class; never MDQ / MetaDataMD) -/
  filt : Option (Filt α) := none
deriving DecidableEq, Repr

structure Source (α : Type) where
  key : α
  kind : SrcKind
  cert : Bool
  chk : Bool
  fresh : Nat
  entities : EntMap α
  expiry : List (α × Int)      -- MetaDataMDX.expiration_date
deriving DecidableEq, Repr

/-- inline sources (`InMemoryMetaData.load` = `parse` only) never look at a certificate -/
def effCert (k : SrcKind) (cert : Bool) : Bool := cert && !decide (k = .inline)

/-- `parse` as the source built from this specification runs it (from the empty entity table). -/
def parseSrc (sp : SrcSpec α) (now : Int) (p2 : α) (d : Doc α) : Except LoadErr (EntMap α) :=
  match sp.filt with
  | none => parseDoc sp.chk now p2 [] d
  | some f => parseDocF (applyFilt f) sp.chk now p2 [] d

/-- Construct and `load()` one source.  `error` = the exception leaves `MetadataStore.load/imp`. -/
def loadSource (pol : Policy) (p2 : α) (now : Int) (sp : SrcSpec α) : Except LoadErr (Source α) :=
  let mk (m : EntMap α) : Source α :=
    { key := sp.key, kind := sp.kind, cert := sp.cert, chk := sp.chk, fresh := sp.fresh, entities := m, expiry := [] }
  match sp.kind with
  | .loader => .error .unavailable          -- MetaDataLoader.__init__ raises SAMLError("No file specified.")
  | .mdq => .ok (mk [])                      -- MetaDataMDX.load does nothing
  | _ =>
    match sp.fetch with
    | .unavailable => .error .unavailable
    | .malformed => .error .parse
    | .doc d =>
      match parseSrc sp now p2 d with
      | .error e => .error e
      | .ok m => if checkSig pol sp.kind (effCert sp.kind sp.cert) d.sig then .ok (mk m) else .error .signature

inductive Res (β : Type) where
  | ok (b : β)
  | keyErr                     -- KeyError
  | raised                     -- any other exception
deriving DecidableEq, Repr

def setKV (l : List (α × Int)) (k : α) (v : Int) : List (α × Int) :=
  if l.any (fun p => decide (p.1 = k)) then l.map (fun p => if p.1 = k then (k, v) else p) else l ++ [(k, v)]

def getKV (l : List (α × Int)) (k : α) : Option Int := (l.find? (fun p => decide (p.1 = k))).map (·.2)

/-- `MetaDataMDX._fetch_metadata(item)` given the MDQ server's answer. -/
def mdxFetch (pol : Policy) (p2 : α) (now : Int) (resp : Fetch α) (s : Source α) (eid : α) :
    Res (Ent α) × Source α :=
  match resp with
  | .unavailable => (.keyErr, s)             -- status ≠ 200: KeyError
  | .malformed => (.raised, s)               -- SAMLError from parse
  | .doc d =>
    match parseDoc s.chk now p2 s.entities d with
    | .error _ => (.raised, s)
    | .ok m =>
      if checkSig pol .mdq s.cert d.sig then
        let s' := { s with entities := m, expiry := setKV s.expiry eid (now + s.fresh) }
        match lookup m eid with
        | some e => (.ok e, s')
        | none => (.keyErr, s')              -- `self.entity[item]` raises KeyError
      else (.raised, if pol.storeFirst then { s with entities := m } else s)

/-- `MetaDataMDX.__getitem__`. -/
def mdxGet (pol : Policy) (p2 : α) (now : Int) (resp : Fetch α) (s : Source α) (eid : α) :
    Res (Ent α) × Source α :=
  if !has s.entities eid then mdxFetch pol p2 now resp s eid
  else match getKV s.expiry eid with
    | none => (.keyErr, s)                   -- `self.expiration_date[item]` raises KeyError
    | some t =>
      if now ≤ t then
        (match lookup s.entities eid with | some e => .ok e | none => .keyErr, s)
      else mdxFetch pol p2 now resp { s with entities := erase s.entities eid } eid

/-- The environment of one call: policy, constants, clock, and the MDQ servers' answers
    (source key -> entity id -> answer). -/
structure Env (α : Type) where
  pol : Policy
  c : Consts α
  now : Int
  mdq : α → α → Fetch α

/-- `source[eid]`. -/
def srcGet (env : Env α) (s : Source α) (eid : α) : Res (Ent α) × Source α :=
  if s.kind = .mdq then mdxGet env.pol env.c.p2 env.now (env.mdq s.key eid) s eid
  else (match lookup s.entities eid with | some e => .ok e | none => .keyErr, s)

/-! ## Lookups on one descriptor (`to_dict` form) -/

def rolesOf (e : Ent α) (k : Kind) : List (Role α) := e.roles.filter (fun r => decide (r.kind = k))

/-- `self[entity_id][typ]` then `srvs.extend(t[service])`: `none` = KeyError (no such descriptor). -/
def roleEndpoints (e : Ent α) (k : Kind) (svc : α) : Option (List (Endpoint α)) :=
  let rs := rolesOf e k
  if rs.isEmpty then none
  else some (rs.flatMap (fun r => r.endpoints.filter (fun ep => decide (ep.svc = svc))))

/-- binding given: the matching services; no binding: grouped by binding (dictionary order). -/
def selectBinding (eps : List (Endpoint α)) (b : Option α) : List (Endpoint α) :=
  match b with
  | some b => eps.filter (fun ep => decide (ep.binding = b))
  | none => (eps.map (·.binding)).eraseDups.flatMap (fun b => eps.filter (fun ep => decide (ep.binding = b)))

/-- `extract_certs`. -/
def extractCerts (use : α) (rs : List (Role α)) : List α :=
  rs.flatMap (fun r => (r.keys.filter (fun k => !k.nocert && (decide (k.use = none) || decide (k.use = some use)))).map (·.cert))

/-- `MetaData.certs(entity, descriptor, use)` on the descriptor found; `kind = none` is "any". -/
def certsOf (e : Ent α) (kind : Option Kind) (use : α) : Option (List α) :=
  match kind with
  | none => some (Kind.certOrder.flatMap (fun k => extractCerts use (rolesOf e k)))
  | some k => if (rolesOf e k).isEmpty then none else some (extractCerts use (rolesOf e k))

/-- `InMemoryMetaData.attribute_requirement`: names of the required / optional attributes. -/
def attrReqOf (trueStr : α) (e : Ent α) (index : Option α) : List α × List α :=
  let ras := ((rolesOf e .spsso).flatMap (·.reqAttrs)).filter
    (fun ra => decide (index = none) || decide (index = some ra.acs))
  ((ras.filter (fun ra => decide (ra.required = some trueStr))).map (·.name),
   (ras.filter (fun ra => !decide (ra.required = some trueStr))).map (·.name))

/-- `entity_attributes(eid).get(ENTITY_CATEGORY, [])`. -/
def catsOf (ecName : α) (e : Ent α) : List α :=
  (e.attrs.filter (fun a => decide (a.1 = ecName))).flatMap (·.2)

def kindCounts (e : Ent α) : List Nat := Kind.all.map (fun k => (rolesOf e k).length)

/-! ## The store -/

/-- `MetadataStore.metadata`, in insertion order. -/
abbrev Store (α : Type) := List (Source α)

/-- `self.metadata[key] = _md`. -/
def setSrc (st : Store α) (s : Source α) : Store α :=
  if st.any (fun x => decide (x.key = s.key)) then st.map (fun x => if x.key = s.key then s else x)
  else st ++ [s]

/-- `MetadataStore.imp(spec)`: sources are loaded and registered one after the other; the first
    exception leaves the loop (what was registered before stays registered). -/
def impFrom (pol : Policy) (p2 : α) (now : Int) : Store α → List (SrcSpec α) → Store α × Bool
  | st, [] => (st, true)
  | st, sp :: rest =>
    match loadSource pol p2 now sp with
    | .error _ => (st, false)
    | .ok s => impFrom pol p2 now (setSrc st s) rest

/-- `MetadataStore.reload(spec)`. -/
def reload (pol : Policy) (p2 : α) (now : Int) (st : Store α) (specs : List (SrcSpec α)) : Store α × Bool :=
  match impFrom pol p2 now [] specs with
  | (st', true) => (st', true)
  | (_, false) => (st, false)

/-- `MetadataStore.__getitem__`. -/
def getItem (env : Env α) (eid : α) : Store α → Res (Ent α) × Store α
  | [] => (.keyErr, [])
  | s :: rest =>
    match srcGet env s eid with
    | (.keyErr, s') => let (r, rest') := getItem env eid rest; (r, s' :: rest')
    | (r, s') => (r, s' :: rest)

inductive SvcAns (α : Type) where
  | eps (l : List (Endpoint α))
  | unknown                    -- UnknownSystemEntity
  | unsupported                -- UnsupportedBinding
  | raised
deriving DecidableEq, Repr

/-- `MetadataStore.service`. -/
def serviceLoop (env : Env α) (eid : α) (k : Kind) (svc : α) (b : Option α) :
    Store α → Bool → SvcAns α × Store α
  | [], known => (if known then .unsupported else .unknown, [])
  | s :: rest, known =>
    match srcGet env s eid with
    | (.raised, s') => (.raised, s' :: rest)
    | (.keyErr, s') => let (r, rest') := serviceLoop env eid k svc b rest known; (r, s' :: rest')
    | (.ok e, s') =>
      match roleEndpoints e k svc with
      | none => let (r, rest') := serviceLoop env eid k svc b rest known; (r, s' :: rest')
      | some eps =>
        let sel := selectBinding eps b
        if sel.isEmpty then let (r, rest') := serviceLoop env eid k svc b rest true; (r, s' :: rest')
        else (.eps sel, s' :: rest)

/-- `MetadataStore.attribute_requirement`: the first source that lists the entity answers. -/
def attrReqLoop (env : Env α) (eid : α) : Store α → Option (Res (Ent α)) × Store α
  | [] => (none, [])
  | s :: rest =>
    if has s.entities eid then
      let (r, s') := srcGet env s eid
      (some r, s' :: rest)
    else let (r, rest') := attrReqLoop env eid rest; (r, s :: rest')

def keysOf (st : Store α) : List α := st.flatMap (fun s => s.entities.map (·.1))

/-- `res.setdefault(entity_id, entity)` over a sequence of (id, descriptor) pairs. -/
def firstWins : EntMap α → EntMap α → EntMap α
  | acc, [] => acc
  | acc, p :: rest => firstWins (if has acc p.1 then acc else acc ++ [p]) rest

def itemsOf (st : Store α) : EntMap α := firstWins [] (st.flatMap (·.entities))

def withDescOf (st : Store α) (k : Kind) : EntMap α :=
  firstWins [] (st.flatMap (fun s => s.entities.filter (fun p => !(rolesOf p.2 k).isEmpty)))

/-! ## Operations and observations -/

inductive Query (α : Type) where
  | get (eid : α)
  | service (eid : α) (k : Kind) (svc : α) (b : Option α)
  | certs (eid : α) (k : Option Kind) (use : α)
  | attrReq (eid : α) (index : Option α)
  | cats (eid : α)
  | reg (eid : α)
  | keys
  | items
  | withDesc (k : Kind)
deriving DecidableEq, Repr

inductive Op (α : Type) where
  | imp (specs : List (SrcSpec α))
  | reload (specs : List (SrcSpec α))
  | q (query : Query α)
deriving DecidableEq, Repr

inductive Ans (α : Type) where
  | done (ok : Bool)                        -- imp / reload returned (true) or raised (false)
  | ent (tag : α) (kinds : List Nat)        -- store[eid]
  | missing                                 -- KeyError / UnknownSystemEntity / None
  | unsupported                             -- UnsupportedBinding
  | raised                                  -- another exception escaped the lookup
  | eps (l : List (Endpoint α))
  | strs (l : List α)
  | req (required optional : List α)
  | reg (r : Option (Reg α))
  | ents (l : List (α × α))                 -- (entityID, tag)
deriving DecidableEq, Repr

def tagsOf (m : EntMap α) : List (α × α) := m.map (fun p => (p.1, p.2.tag))

def query (env : Env α) (st : Store α) : Query α → Ans α × Store α
  | .get eid =>
    match getItem env eid st with
    | (.ok e, st') => (.ent e.tag (kindCounts e), st')
    | (.keyErr, st') => (.missing, st')
    | (.raised, st') => (.raised, st')
  | .service eid k svc b =>
    match serviceLoop env eid k svc b st false with
    | (.eps l, st') => (.eps l, st')
    | (.unknown, st') => (.missing, st')
    | (.unsupported, st') => (.unsupported, st')
    | (.raised, st') => (.raised, st')
  | .certs eid k use =>
    match getItem env eid st with
    | (.ok e, st') => (match certsOf e k use with | some l => .strs l | none => .missing, st')
    | (.keyErr, st') => (.missing, st')
    | (.raised, st') => (.raised, st')
  | .attrReq eid index =>
    match attrReqLoop env eid st with
    | (some (.ok e), st') => let r := attrReqOf env.c.trueStr e index; (.req r.1 r.2, st')
    | (some .keyErr, st') => (.missing, st')
    | (some .raised, st') => (.raised, st')
    | (none, st') => (.missing, st')
  | .cats eid =>
    match getItem env eid st with
    | (.ok e, st') => (.strs (catsOf env.c.ecName e), st')
    | (.keyErr, st') => (.strs [], st')       -- `except KeyError: return res`
    | (.raised, st') => (.raised, st')
  | .reg eid =>
    match getItem env eid st with
    | (.ok e, st') => (.reg e.regs.head?, st')
    | (.keyErr, st') => (.reg none, st')
    | (.raised, st') => (.raised, st')
  | .keys => (.strs (keysOf st), st)
  | .items => (.ents (tagsOf (itemsOf st)), st)
  | .withDesc k => (.ents (tagsOf (withDescOf st k)), st)

structure MdqResp (α : Type) where
  src : α
  eid : α
  fetch : Fetch α
deriving DecidableEq, Repr

def mdqFn (l : List (MdqResp α)) (src eid : α) : Fetch α :=
  match l.find? (fun r => decide (r.src = src) && decide (r.eid = eid)) with
  | some r => r.fetch
  | none => .unavailable

structure Step (α : Type) where
  now : Int
  mdq : List (MdqResp α)
  op : Op α
deriving DecidableEq, Repr

def Step.env (pol : Policy) (c : Consts α) (s : Step α) : Env α :=
  { pol := pol, c := c, now := s.now, mdq := mdqFn s.mdq }

def step (pol : Policy) (c : Consts α) (st : Store α) (s : Step α) : Ans α × Store α :=
  match s.op with
  | .imp specs => let r := impFrom pol c.p2 s.now st specs; (.done r.2, r.1)
  | .reload specs => let r := reload pol c.p2 s.now st specs; (.done r.2, r.1)
  | .q qu => query (s.env pol c) st qu

/-- A whole history from a given store: the observations, in order, and the final store. -/
def run (pol : Policy) (c : Consts α) : Store α → List (Step α) → List (Ans α) × Store α
  | st, [] => ([], st)
  | st, s :: rest =>
    let (a, st') := step pol c st s
    let (as, st'') := run pol c st' rest
    (a :: as, st'')

end MdStore
