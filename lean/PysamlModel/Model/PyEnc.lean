import PysamlModel.Model.MiniPy
import PysamlModel.Model.Sp

/-!
# How the arguments of the translated functions are written as MiniPy values

The encoders used by the refinement theorems (Props/PyTie.lean) and by the driver that runs the interpreter against
CPython (Drivers/PyFuns.lean): a `Conditions` object is an object with `audience_restriction`, a list of objects with
`audience`, a list of objects with `text` (a string or `None`).
-/

namespace PyTie
open MiniPy

def noExt : Ext := fun f _ => .stuck ("external " ++ f)

def encA (a : Option String) : Val := .obj [("text", match a with | some t => .str t | none => .none)]
def encR (r : List (Option String)) : Val := .obj [("audience", .list (r.map encA))]
def encC (rs : List (List (Option String))) : Val := .obj [("audience_restriction", .list (rs.map encR))]

/-- The audiences the hand-written model sees: an absent text is the empty string there. -/
def toModel (rs : List (List (Option String))) : List (List String) := rs.map (fun r => r.map (fun a => a.getD ""))

/-- The external functions the two `validate_*` functions call: the clock, and the reading of a lexical timestamp
    (`tm`, arbitrary); `time.strftime`/`time.gmtime` only build message text. -/
def timeExt (now : Int) (tm : String → Int) : Ext := fun f args =>
  match f, args with
  | "time_util.utc_now", [] => .ok (.int now)
  | "time_util.str_to_time", [.str s] => .ok (.int (tm s))
  | "calendar.timegm", [.int t] => .ok (.int t)
  | "time.gmtime", [_] => .ok .none
  | "time.strftime", [_, _] => .ok (.str "")
  | f, _ => .stuck ("external " ++ f)

end PyTie
