import PysamlModel.Model.MiniPy
import PysamlModel.Model.Sp
import PysamlModel.Gen.PyFuns

/-!
# How the arguments of the translated functions are written as MiniPy values

The encoders used by the refinement theorems (Props/PyTie.lean) and by the driver that runs the interpreter against
CPython (Drivers/PyFuns.lean): a `Conditions` object is an object with `audience_restriction`, a list of objects with
`audience`, a list of objects with `text` (a string or `None`).
-/

namespace PyTie
open MiniPy

def noExt : Ext := fun f _ => .stuck ("external " ++ f)

def encA (a : Option String) : Val := .obj [("text", match a with | some t => .str t | none => .none)]
def encR (r : List (Option String)) : Val := .obj [("audience", .list (r.map encA))]
def encC (rs : List (List (Option String))) : Val := .obj [("audience_restriction", .list (rs.map encR))]

/-- The audiences the hand-written model sees: an absent text is the empty string there. -/
def toModel (rs : List (List (Option String))) : List (List String) := rs.map (fun r => r.map (fun a => a.getD ""))

/-- The external functions the two `validate_*` functions call: the clock, and the reading of a lexical timestamp
    (`tm`, arbitrary); `time.strftime`/`time.gmtime` only build message text. -/
def timeExt (now : Int) (tm : String → Int) : Ext := fun f args =>
  match f, args with
  | "time_util.utc_now", [] => .ok (.int now)
  | "time_util.str_to_time", [.str s] => .ok (.int (tm s))
  | "calendar.timegm", [.int t] => .ok (.int t)
  | "time.gmtime", [_] => .ok .none
  | "time.strftime", [_, _] => .ok (.str "")
  | f, _ => .stuck ("external " ++ f)


/-- A call of one translated function from another: the callee is RUN (its regenerated term under the interpreter),
    not replaced by an assumption about it. -/
def asExt (r : Result) : R Val :=
  match r with
  | .value v => .ok v
  | .raised c => .raise c
  | .stuck w => .stuck w

/-- `SamlBase.keyswv()`: the names of the members that have a value. -/
def keyswv (v : Val) : R Val :=
  match v with
  | .obj fs => .ok (.list ((fs.filter (fun p => truthy p.2)).map (fun p => .str p.1)))
  | _ => .stuck "keyswv of a non-object"

/-- The externals of the translated METHODS (`condition_ok`, `authn_statement_ok`, `_verify`): the module-level
    functions they call are the translated terms themselves (`for_me`, `validate_on_or_after`, `validate_before`),
    run under the interpreter; the clock, the reading of timestamps (`tm`), `later_than` on two present timestamps,
    `keyswv`, and the two checks `_verify` delegates to (`issue_instant_ok`, `status_ok`, given as `iiOk`/`stOk`). -/
def pyExt (now : Int) (tm : String → Int) (iiOk : Bool) (stOk : R Val) : Ext := fun f args =>
  match f, args with
  | "for_me", [c, me] => asExt (run Sp.pyStrip noExt Gen.PyFuns.for_me [c, me])
  | "validate_on_or_after", [t, s] => asExt (run Sp.pyStrip (timeExt now tm) Gen.PyFuns.validate_on_or_after [t, s])
  | "validate_before", [t, s] => asExt (run Sp.pyStrip (timeExt now tm) Gen.PyFuns.validate_before [t, s])
  | "later_than", [.str a, .str b] => .ok (.bool (decide (tm a ≥ tm b)))
  | ".keyswv", [v] => keyswv v
  | ".issue_instant_ok", [_] => .ok (.bool iiOk)
  | ".status_ok", [_] => stOk
  | f, args => timeExt now tm f args

/-- `pyExt` for the methods that do not delegate to `issue_instant_ok` / `status_ok`. -/
abbrev pyExt0 (now : Int) (tm : String → Int) : Ext := pyExt now tm true (.ok (.bool true))

/-- The instant a lexical timestamp attribute denotes for the model: absent and empty are "no value". -/
def lexTime (tm : String → Int) (o : Option String) : Option Int :=
  match o with
  | some s => if s = "" then none else some (tm s)
  | none => none

def optStr (o : Option String) : Val := match o with | some s => .str s | none => .none

/-- one `AuthnStatement` as the method sees it -/
def encStmt (s : Option String) : Val := .obj [("session_not_on_or_after", optStr s)]

/-- `self` as `authn_statement_ok` sees it -/
def selfAuthn (stmts : List (Option String)) (skew : Nat) (sess : Int) : Val :=
  .obj [("assertion", .obj [("authn_statement", .list (stmts.map encStmt))]), ("timeslack", .int skew),
        ("session_not_on_or_after", .int sess)]

/-- the value of `self.session_not_on_or_after` when the method ends -/
def sessionOf (o : Option Val) : Option Val :=
  match o with
  | some (.obj fs) => lookup fs "session_not_on_or_after"
  | _ => none

/-- the assertion the model sees: one `AuthnStmt` per statement, with the instant its lexical value denotes -/
def authnOf (tm : String → Int) (stmts : List (Option String × Option String)) : List Sp.AuthnStmt :=
  stmts.map (fun s => { sessionNooa := lexTime tm s.1, sessionIndex := s.2 })

def errClass : Sp.Err → String
  | .authnStmtCount => "ValueError"
  | .expired => "ResponseLifetimeExceed"
  | .premature => "ToEarly"
  | _ => "Exception"


/-- `self` as `StatusResponse._verify` sees it (no `request_id` given: the client never passes one) -/
def selfVerify (asynchop : Bool) (dest : Option String) (addrs : List String) : Val :=
  .obj [("request_id", .none), ("in_response_to", .none),
        ("response", .obj [("version", .str "2.0"), ("destination", optStr dest)]),
        ("asynchop", .bool asynchop), ("return_addrs", .list (addrs.map .str))]

def successUri : String := "urn:oasis:names:tc:SAML:2.0:status:Success"

/-- what `self.status_ok()` does, as far as `_verify` can tell: `True` for a Success status, else an exception -/
def statusExt (statusTop : String) (cls : String) : R Val :=
  if statusTop != successUri then .raise cls else .ok (.bool true)


def xsiType : String := "{http://www.w3.org/2001/XMLSchema-instance}type"

/-- an extension `<saml:Condition>`: its `extension_attributes` hold `xsi:type` when the element carries one -/
def encCond (t : Option String) : Val :=
  .obj [("extension_attributes", .obj (match t with | some x => [(xsiType, .str x)] | none => []))]

/-- a `Conditions` element: lexical NotBefore / NotOnOrAfter, the audience restrictions, the extension conditions -/
def condV (nb nooa : Option String) (auds : List (List (Option String))) (extra : List (Option String)) : Val :=
  .obj [("not_before", optStr nb), ("not_on_or_after", optStr nooa),
        ("audience_restriction", .list (auds.map encR)), ("condition", .list (extra.map encCond))]

/-- the fields of `self` that `condition_ok` reads or writes -/
def selfCondFields (conds : Val) (skew : Nat) (me : String) (schemas : List String) (nooa0 : Int) : List (String × Val) :=
  [("assertion", .obj [("conditions", conds)]), ("test", .bool false), ("timeslack", .int skew),
   ("entity_id", .str me), ("extension_schema", .obj (schemas.map (fun s => (s, Val.none)))),
   ("not_on_or_after", .int nooa0)]

/-- the value of `self.not_on_or_after` when the method ends -/
def nooaOf (o : Option Val) : Option Val :=
  match o with
  | some (.obj fs) => lookup fs "not_on_or_after"
  | _ => none

/-- the parsed Response as `correctly_signed_response` sees it: only whether it carries a `ds:Signature` -/
def respV (signed : Bool) : Val := .obj [("signature", if signed then .obj [] else .none)]

/-- externals of `correctly_signed_response`: the parser hands back the Response object; `_check_signature` (C02/C03:
    what is covered, by which key) either returns or raises `SignatureError` (`sigOk`) -/
def csrExt (signed sigOk : Bool) : Ext := fun f args =>
  match f, args with
  | "samlp.any_response_from_string", [_] => .ok (respV signed)
  | "class_name", [_] => .ok (.str "urn:oasis:names:tc:SAML:2.0:protocol:Response")
  | "._check_signature", [_, _, _, _, _] => if sigOk then .ok (respV signed) else .raise "SignatureError"
  | f, _ => .stuck ("external " ++ f)

/-- the two signature decisions at the head of `Sp.loads` -/
def sigGate (s : Sp.Sig) (requireRespSig : Bool) : Option Sp.Err :=
  if s.present && s != .valid then some .sigBadResponse
  else if !s.present && requireRespSig then some .sigMissingResponse
  else none

/-- the caller's outstanding requests as a Python dict: request id ↦ came_from -/
def encOuts (outs : List (String × String)) : List (String × Val) := outs.map (fun p => (p.1, Val.str p.2))

/-- `self` as `AuthnResponse.loads` sees it AFTER `self._loads(...)` returned (which parses the message and records
    `in_response_to`) -/
def selfLoads (asynchop : Bool) (irt : Option String) (outs : List (String × String)) (allowUns : Bool) : List (String × Val) :=
  [("asynchop", .bool asynchop), ("in_response_to", optStr irt), ("outstanding_queries", .obj (encOuts outs)),
   ("allow_unsolicited", .bool allowUns), ("came_from", .none)]

/-- externals: `_loads` (signature check and parsing: returns or raises), and the comparison of the subject
    confirmations' InResponseTo (`True` = all agree; `AttributeError` when an assertion has no Subject) -/
def loadsExt (sigR chk : R Val) : Ext := fun f args =>
  match f, args with
  | "._loads", [_, _, _, _] => sigR
  | ".check_subject_confirmation_in_response_to", [_, _] => chk
  | f, _ => .stuck ("external " ++ f)

def cameFromOf (o : Option Val) : Option Val :=
  match o with
  | some (.obj fs) => lookup fs "came_from"
  | _ => none

def obsL (fl : Flow) : Result × Option Val :=
  match fl with
  | .normal e => (.value .none, lookup e "self")
  | .ret v e => (.value v, lookup e "self")
  | .raise c e => (.raised c, lookup e "self")
  | .brk _ => (.stuck "break outside a loop", none)
  | .cont _ => (.stuck "continue outside a loop", none)
  | .stuck w => (.stuck w, none)


/-- a SubjectConfirmation: its data (absent, or present with an optional InResponseTo) -/
abbrev ConfD := Option (Option String)
/-- an assertion: its Subject (absent, or the list of its confirmations) -/
abbrev AssD := Option (List ConfD)

def dataOf (c : ConfD) : Val := match c with | some i => .obj [("in_response_to", optStr i)] | none => .none
def encConfD (c : ConfD) : Val := .obj [("subject_confirmation_data", dataOf c)]
def encAssD (a : AssD) : Val :=
  .obj [("subject", match a with | some cs => .obj [("subject_confirmation", .list (cs.map encConfD))] | none => .none)]
def selfScan (as : List AssD) : Val := .obj [("response", .obj [("assertion", .list (as.map encAssD))])]

/-- the assertions the model sees -/
def toAssertion (a : AssD) : Sp.Assertion :=
  { subject := a.map (fun cs => { nameId := none, confs := cs.map (fun d => { method := .bearer, data := d.map (fun i => { irt := i }) }) }) }

/-- does this confirmation carry another InResponseTo? -/
def confMis (irp : Option String) (c : ConfD) : Bool :=
  match c with
  | some i => i != irp
  | none => false

inductive Scan3 where
  | ok | mismatch | attrErr
deriving DecidableEq, Repr

/-- what the comparison of the confirmations' InResponseTo finds, assertion by assertion -/
def scan3 (irp : Option String) : List AssD → Scan3
  | [] => .ok
  | none :: _ => .attrErr
  | some cs :: rest => if cs.any (confMis irp) then .mismatch else scan3 irp rest


end PyTie
