/-
  C17 — strings as numbers.  A string is the number whose base-256 digits are a leading 1 followed
  by its UTF-8 bytes ("" = 1).  The encoding is injective, equality of codes is equality of strings,
  and the kernel evaluates it with GMP arithmetic (see DESIGN.md section 3).  `natOps` implements the
  string operations the converter code uses on such codes:
    lower  = ASCII lower-casing byte by byte (bytes >= 128 belong to non-ASCII characters and are kept;
             equal to `str.lower()` on every string without non-ASCII cased characters),
    strip  = `str.strip()`: removes the characters for which `str.isspace()` holds (their UTF-8 forms)
             from both ends.
  The driver runs the model on the same `natOps`, so the correspondence run checks these functions
  against Python's on every generated string.
-/
import PysamlModel.Model.AttrConv
import PysamlModel.Gen.AttrMaps

namespace AttrCode
open AttrConv

def bytesAux : Nat → Nat → List Nat → List Nat
  | 0, _, acc => acc
  | fuel + 1, n, acc => if n < 256 then acc else bytesAux fuel (n / 256) (n % 256 :: acc)

/-- The UTF-8 bytes of the string with code `n`. -/
def bytes (n : Nat) : List Nat := bytesAux (n.log2 / 8 + 1) n []

/-- The code of the string with UTF-8 bytes `l`. -/
def ofBytes (l : List Nat) : Nat := l.foldl (fun n b => n * 256 + b) 1

def lowerByte (b : Nat) : Nat := if 65 ≤ b && b ≤ 90 then b + 32 else b

def lower (n : Nat) : Nat := ofBytes ((bytes n).map lowerByte)

/-- One-byte white space: \t \n \v \f \r, \x1c-\x1f, space. -/
def ws1 (b : Nat) : Bool := (9 ≤ b && b ≤ 13) || (28 ≤ b && b ≤ 32)

/-- third byte of E2 80 xx white space: U+2000-U+200A, U+2028, U+2029, U+202F -/
def wsE280 (c : Nat) : Bool := (0x80 ≤ c && c ≤ 0x8A) || c == 0xA8 || c == 0xA9 || c == 0xAF

/-- Length of the white-space character a byte list starts with (0 = none). -/
def wsPrefix (l : List Nat) : Nat :=
  match l with
  | [] => 0
  | b :: t =>
    if ws1 b then 1
    else match t with
      | [] => 0
      | c :: t' =>
        if b == 0xC2 then (if c == 0x85 || c == 0xA0 then 2 else 0)
        else match t' with
          | [] => 0
          | d :: _ =>
            if b == 0xE1 && c == 0x9A && d == 0x80 then 3
            else if b == 0xE2 && c == 0x80 && wsE280 d then 3
            else if b == 0xE2 && c == 0x81 && d == 0x9F then 3
            else if b == 0xE3 && c == 0x80 && d == 0x80 then 3
            else 0

/-- Length of the white-space character a REVERSED byte list starts with (0 = none). -/
def wsSuffix (l : List Nat) : Nat :=
  match l with
  | [] => 0
  | d :: t =>
    if ws1 d then 1
    else match t with
      | [] => 0
      | c :: t' =>
        if c == 0xC2 then (if d == 0x85 || d == 0xA0 then 2 else 0)
        else match t' with
          | [] => 0
          | b :: _ =>
            if b == 0xE1 && c == 0x9A && d == 0x80 then 3
            else if b == 0xE2 && c == 0x80 && wsE280 d then 3
            else if b == 0xE2 && c == 0x81 && d == 0x9F then 3
            else if b == 0xE3 && c == 0x80 && d == 0x80 then 3
            else 0

/-- Drop leading white space (bytes in reading order). -/
def dropWs : Nat → List Nat → List Nat
  | 0, l => l
  | fuel + 1, l => match wsPrefix l with
    | 0 => l
    | k => dropWs fuel (l.drop k)

/-- Drop trailing white space; the argument is the byte list REVERSED. -/
def dropWsRev : Nat → List Nat → List Nat
  | 0, l => l
  | fuel + 1, l => match wsSuffix l with
    | 0 => l
    | k => dropWsRev fuel (l.drop k)

def stripBytes (l : List Nat) : List Nat :=
  let a := dropWs l.length l
  (dropWsRev a.length a.reverse).reverse

def strip (n : Nat) : Nat := ofBytes (stripBytes (bytes n))

def digitsAux : Nat → Nat → List Nat → List Nat
  | 0, _, acc => acc
  | fuel + 1, n, acc => if n < 10 then (48 + n) :: acc else digitsAux fuel (n / 10) ((48 + n % 10) :: acc)

/-- `str(i)` -/
def ofInt (i : Int) : Nat :=
  let n := i.natAbs
  let ds := digitsAux (n.log2 + 1) n []
  ofBytes (if i < 0 then 45 :: ds else ds)

def natOps : StrOps Nat where
  lower := lower
  strip := strip
  truthy := fun n => n != 1
  empty := 1
  unspecified := Gen.AttrMaps.nameFormatUnspecified
  defaultFormat := Gen.AttrMaps.nameFormatUri
  eptidOid := Gen.AttrMaps.eptidOid
  eptidLocal := Gen.AttrMaps.eptidLocal
  persistent := Gen.AttrMaps.nameIdFormatPersistent
  ofBool := fun b => if b then 0x174727565 else 0x166616c7365   -- "true" / "false"
  ofInt := ofInt

/-- The converters `ac_factory()` builds from the bundled maps. -/
def bundledConvs : List (Conv Nat) := acFactory natOps Gen.AttrMaps.attrMaps

/-- One entry per bundled map (`none`: the dictionary is not an attribute map). -/
def bundledConvOf : List (Option (Conv Nat)) :=
  Gen.AttrMaps.attrMaps.map fun m => if isMap m then fromDict natOps m else none

end AttrCode
