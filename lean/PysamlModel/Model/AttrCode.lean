/-
  C17 — strings as numbers.  A string is the number whose base-256 digits are a leading 1 followed
  by its UTF-8 bytes ("" = 1).  The encoding is injective, equality of codes is equality of strings,
  and the kernel evaluates it with GMP arithmetic (see DESIGN.md section 3).  `natOps` implements the
  string operations the converter code uses on such codes:
    lower  = ASCII lower-casing byte by byte (bytes >= 128 belong to non-ASCII characters and are kept;
             equal to `str.lower()` on every string without non-ASCII cased characters),
    strip  = `str.strip()`: removes the characters for which `str.isspace()` holds (their UTF-8 forms)
             from both ends.
  The driver runs the model on the same `natOps`, so the correspondence run checks these functions
  against Python's on every generated string.
-/
import PysamlModel.Model.AttrConv
import PysamlModel.Gen.AttrMaps

namespace AttrCode
open AttrConv

def bytesAux : Nat → Nat → List Nat → List Nat
  | 0, _, acc => acc
  | fuel + 1, n, acc => if n < 256 then acc else bytesAux fuel (n / 256) (n % 256 :: acc)

/-- The UTF-8 bytes of the string with code `n`. -/
def bytes (n : Nat) : List Nat := bytesAux (n.log2 / 8 + 1) n []

/-- The code of the string with UTF-8 bytes `l`. -/
def ofBytes (l : List Nat) : Nat := l.foldl (fun n b => n * 256 + b) 1

def lowerByte (b : Nat) : Nat := if 65 ≤ b && b ≤ 90 then b + 32 else b

/-- Number of bytes of the string with code `n` (the leading 1 sits at bit 8·length). -/
def blen (n : Nat) : Nat := n.log2 / 8

/-- One pass from the last byte to the first, in arithmetic only (no lists: the kernel evaluates this
    for every table entry). -/
def lowerAux : Nat → Nat → Nat → Nat → Nat
  | 0, n, acc, mult => acc + n * mult
  | fuel + 1, n, acc, mult =>
    if n < 256 then acc + n * mult
    else lowerAux fuel (n / 256) (acc + lowerByte (n % 256) * mult) (mult * 256)

def lower (n : Nat) : Nat := lowerAux (blen n + 1) n 0 1

/-- One-byte white space: \t \n \v \f \r, \x1c-\x1f, space. -/
def ws1 (b : Nat) : Bool := (9 ≤ b && b ≤ 13) || (28 ≤ b && b ≤ 32)

/-- third byte of E2 80 xx white space: U+2000-U+200A, U+2028, U+2029, U+202F -/
def wsE280 (c : Nat) : Bool := (0x80 ≤ c && c ≤ 0x8A) || c == 0xA8 || c == 0xA9 || c == 0xAF

/-- `b c d` is the UTF-8 form of U+1680, U+2000-200A, U+2028, U+2029, U+202F, U+205F or U+3000. -/
def ws3 (b c d : Nat) : Bool :=
  (b == 0xE1 && c == 0x9A && d == 0x80) || (b == 0xE2 && c == 0x80 && wsE280 d) ||
  (b == 0xE2 && c == 0x81 && d == 0x9F) || (b == 0xE3 && c == 0x80 && d == 0x80)

/-- Length in bytes of the white-space character the string ends with (0: none). -/
def wsEnd (n : Nat) : Nat :=
  if n < 256 then 0
  else if ws1 (n % 256) then 1
  else if n < 65536 then 0
  else if (n / 256) % 256 == 0xC2 then (if n % 256 == 0x85 || n % 256 == 0xA0 then 2 else 0)
  else if n < 16777216 then 0
  else if ws3 ((n / 65536) % 256) ((n / 256) % 256) (n % 256) then 3
  else 0

def rstrip : Nat → Nat → Nat
  | 0, n => n
  | fuel + 1, n =>
    match wsEnd n with
    | 0 => n
    | k => rstrip fuel (n / 256 ^ k)

/-- byte `i` (0 = first) of a string of `len` bytes -/
def byteAt (n len i : Nat) : Nat := (n / 256 ^ (len - 1 - i)) % 256

/-- Length in bytes of the white-space character the string starts with (0: none). -/
def wsStart (n : Nat) : Nat :=
  if blen n == 0 then 0
  else if ws1 (byteAt n (blen n) 0) then 1
  else if blen n < 2 then 0
  else if byteAt n (blen n) 0 == 0xC2 then
    (if byteAt n (blen n) 1 == 0x85 || byteAt n (blen n) 1 == 0xA0 then 2 else 0)
  else if blen n < 3 then 0
  else if ws3 (byteAt n (blen n) 0) (byteAt n (blen n) 1) (byteAt n (blen n) 2) then 3
  else 0

def lstrip : Nat → Nat → Nat
  | 0, n => n
  | fuel + 1, n =>
    match wsStart n with
    | 0 => n
    | k => lstrip fuel (256 ^ (blen n - k) + n % 256 ^ (blen n - k))

/-- `str.strip()` -/
def strip (n : Nat) : Nat := rstrip (blen n + 1) (lstrip (blen n + 1) n)

def digitsAux : Nat → Nat → List Nat → List Nat
  | 0, _, acc => acc
  | fuel + 1, n, acc => if n < 10 then (48 + n) :: acc else digitsAux fuel (n / 10) ((48 + n % 10) :: acc)

/-- `str(i)` -/
def ofInt (i : Int) : Nat :=
  let n := i.natAbs
  let ds := digitsAux (n.log2 + 1) n []
  ofBytes (if i < 0 then 45 :: ds else ds)

def natOps : StrOps Nat where
  lower := lower
  strip := strip
  truthy := fun n => n != 1
  empty := 1
  unspecified := Gen.AttrMaps.nameFormatUnspecified
  defaultFormat := Gen.AttrMaps.nameFormatUri
  eptidOid := Gen.AttrMaps.eptidOid
  eptidLocal := Gen.AttrMaps.eptidLocal
  persistent := Gen.AttrMaps.nameIdFormatPersistent
  ofBool := fun b => if b then 0x174727565 else 0x166616c7365   -- "true" / "false"
  ofInt := ofInt

/-- One entry per bundled map (`none`: the dictionary is not an attribute map). -/
def bundledConvOf : List (Option (Conv Nat)) :=
  Gen.AttrMaps.attrMaps.map fun m => if isMap m then fromDict natOps m else none

/-- the part of an xsi:type value after the first ':' (58); the whole value if there is none -/
def typeLocal (n : Nat) : Nat :=
  match (bytes n).dropWhile (fun b => b != 58) with
  | [] => n
  | _ :: rest => ofBytes rest

/-- `xsd_types_props` of `AttributeValueBase.set_text`: the local names with a conversion. -/
def typeKind (n : Nat) : ConvKind :=
  if n == 0x1696e7465676572 || n == 0x173686f7274 || n == 0x1696e74 || n == 0x16c6f6e67 then .int        -- integer short int long
  else if n == 0x1666c6f6174 || n == 0x1646f75626c65 then .float                          -- float double
  else if n == 0x1626f6f6c65616e then .bool                                      -- boolean
  else if n == 0x164617465 then .date                                      -- date
  else .preserve

def natTypeOps : TypeOps Nat := { typeLocal := typeLocal, kind := typeKind }

end AttrCode
