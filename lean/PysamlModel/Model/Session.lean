/-
  C19 — session knowledge at the service provider: `saml2.cache.Cache`, `saml2.population.Population`,
  the caching step of `Base.parse_authn_request_response`, `Saml2Client.global_logout / do_logout /
  handle_logout_response / handle_logout_request / local_logout`.

  The model mirrors the code that exists:
  * Python `dict`s are insertion-ordered association lists (`Dict`): assignment to an existing key keeps
    its position, a new key is appended, `del` removes the key.
  * `time_util.before(p)` is `True` for a falsy `p` (0) and `now <= p` otherwise; `time_util.after(p)`
    is `True` for a falsy `p` and `not before(p)` otherwise — so a cache entry stored with timestamp 0
    is "too old" for `Cache.get` and at the same time "active" for `Cache.active`.
  * every `state[req_id]` record written by one `do_logout` call stores THE SAME `entity_ids` list
    object; `handle_logout_response` mutates that object (`.remove(issuer)`) and hands it to the next
    `do_logout`.  The model keeps these list objects in an explicit heap (`St.heap`), records hold a
    reference (`Rec.cell`).
  * a Python exception is an explicit `Out.error`, together with the state changes made before it.

  Abstraction: subjects, identity providers, attribute names, attribute values and session indexes are
  numbers; a request id is the pair (step that created the request, identity provider it went to).
  Imports: Lean core only.
-/
namespace Session

/-! ### Python dictionaries -/
namespace Dict
variable {κ : Type} [DecidableEq κ] {β : Type}

/-- `d[k]` (`none` = `KeyError`). -/
def get? (k : κ) : List (κ × β) → Option β
  | [] => none
  | (k', v) :: t => if k' = k then some v else get? k t

/-- `d[k] = v`: an existing key keeps its position, a new one is appended. -/
def set (k : κ) (v : β) : List (κ × β) → List (κ × β)
  | [] => [(k, v)]
  | (k', v') :: t => if k' = k then (k', v) :: t else (k', v') :: set k v t

/-- `del d[k]`. -/
def del (k : κ) (l : List (κ × β)) : List (κ × β) := l.filter (fun p => !decide (p.1 = k))

/-- `d.keys()`. -/
def keys (l : List (κ × β)) : List κ := l.map (·.1)

end Dict

abbrev Subj := Nat
abbrev Idp := Nat
/-- attribute-value assertion: attribute ↦ values, as the dictionary `ava`. -/
abbrev Ava := List (Nat × List Nat)

/-! ### time_util -/

/-- `time_util.before(point)` (= `not_on_or_after`, `valid`) for an integer `point`. -/
def before (now p : Int) : Bool := p == 0 || decide (now ≤ p)

/-- `time_util.after(point)` for an integer `point`. -/
def after (now p : Int) : Bool := p == 0 || !before now p

/-- `not not_on_or_after(expire)` in `do_logout`; `expire` is `None` or a time string. -/
def deadlinePassed (now : Int) : Option Int → Bool
  | none => false
  | some t => decide (t < now)

/-! ### Cache -/

/-- The session-info dictionary stored per (subject, issuer) (the fields the property talks about). -/
structure Info where
  ava : Ava
  nooa : Int            -- info["not_on_or_after"]
  sidx : Option Nat     -- info["session_index"]
deriving DecidableEq, Repr

/-- `(timestamp, info)`; `info = none` is the empty dictionary written by `Cache.reset`. -/
structure Entry where
  ts : Int
  info : Option Info
deriving DecidableEq, Repr

/-- `Cache._db`: encoded subject ↦ issuer ↦ entry. -/
abbrev Db := List (Subj × List (Idp × Entry))

/-- `Cache.set`. -/
def cacheSet (db : Db) (s : Subj) (i : Idp) (e : Entry) : Db :=
  Dict.set s (Dict.set i e ((Dict.get? s db).getD [])) db

/-- `Cache.delete` (`none` = `KeyError`). -/
def cacheDelete (db : Db) (s : Subj) : Option Db :=
  match Dict.get? s db with
  | none => none
  | some _ => some (Dict.del s db)

inductive GetRes where
  | info (x : Info)
  | empty            -- `info or None` for an empty dictionary
  | tooOld           -- raise TooOld
  | keyError
deriving DecidableEq, Repr

/-- `Cache.get`: the `KeyError` comes first, then the expiry test, then `info or None`. -/
def cacheGet (db : Db) (now : Int) (s : Subj) (i : Idp) (check : Bool) : GetRes :=
  match Dict.get? s db with
  | none => .keyError
  | some m =>
    match Dict.get? i m with
    | none => .keyError
    | some e =>
      if check && after now e.ts then .tooOld
      else match e.info with
        | none => .empty
        | some x => .info x

/-- `list(set(l))` up to order. -/
def dedup : List Nat → List Nat
  | [] => []
  | a :: t => if a ∈ t then dedup t else a :: dedup t

/-- The merge loop of `get_identity` over one source's `ava`: a key seen before gets the set union,
    a new key gets the source's own list. -/
def mergeAva (res : Ava) : Ava → Ava
  | [] => res
  | (k, vals) :: t =>
    mergeAva (match Dict.get? k res with
      | some old => Dict.set k (dedup (old ++ vals)) res
      | none => Dict.set k vals res) t

/-- The `for entity_id in entities` loop of `Cache.get_identity` (`none` = `KeyError` escaping). -/
def identityLoop (db : Db) (now : Int) (s : Subj) (check : Bool) : List Idp → Ava → List Idp → Option (Ava × List Idp)
  | [], res, old => some (res, old)
  | e :: t, res, old =>
    match cacheGet db now s e check with
    | .keyError => none
    | .tooOld => identityLoop db now s check t res (old ++ [e])
    | .empty => identityLoop db now s check t res (old ++ [e])
    | .info x => identityLoop db now s check t (mergeAva res x.ava) old

/-- `Cache.get_identity(name_id, entities, check_not_on_or_after)`; `entities = []` is `None`/empty. -/
def getIdentity (db : Db) (now : Int) (s : Subj) (ents : List Idp) (check : Bool) : Option (Ava × List Idp) :=
  if ents.isEmpty then
    match Dict.get? s db with
    | none => some ([], [])
    | some m => identityLoop db now s check (Dict.keys m) [] []
  else identityLoop db now s check ents [] []

/-- `Cache.active`. -/
def active (db : Db) (now : Int) (s : Subj) (i : Idp) : Bool :=
  match Dict.get? s db with
  | none => false
  | some m =>
    match Dict.get? i m with
    | none => false
    | some e => e.info.isSome && before now e.ts

/-- `Population.stale_sources_for_person` (`none` = `KeyError`). -/
def staleSources (db : Db) (now : Int) (s : Subj) (srcs : List Idp) : Option (List Idp) :=
  let l := if srcs.isEmpty then (Dict.get? s db).map Dict.keys else some srcs
  l.map (fun l => l.filter (fun m => !active db now s m))

/-- `Saml2Client.is_logged_in`. -/
def isLoggedIn (db : Db) (now : Int) (s : Subj) : Bool :=
  match getIdentity db now s [] true with
  | some (ava, _) => !ava.isEmpty
  | none => false

/-! ### configuration, requests, state -/

inductive Bind where
  | redirect | post | soap
  | none       -- the entity publishes no single-logout endpoint
deriving DecidableEq, Repr

/-- What the stub transport answers to a SOAP LogoutRequest. -/
inductive SoapMode where
  | ok         -- HTTP 200, LogoutResponse with status Success
  | http500    -- any non-200 answer
  | denied     -- HTTP 200, LogoutResponse with an error status (parsing raises)
deriving DecidableEq, Repr

structure IdpCfg where
  b : Bind
  soap : SoapMode := .ok
deriving DecidableEq, Repr

structure Cfg where
  idps : List IdpCfg
deriving Repr

def Cfg.bind (c : Cfg) (j : Idp) : Bind := match c.idps[j]? with | some d => d.b | none => .none
def Cfg.soapMode (c : Cfg) (j : Idp) : SoapMode := match c.idps[j]? with | some d => d.soap | none => .http500

/-- Abstract request id: (step that created the LogoutRequest, identity provider it was sent to). -/
structure ReqId where
  step : Nat
  idp : Idp
deriving DecidableEq, Repr

/-- One `state[req_id]` record.  `cell` refers to the shared `entity_ids` list object. -/
structure Rec where
  entity : Idp
  cell : Nat
  subj : Subj
  expire : Option Int
deriving DecidableEq, Repr

/-- What an emitted LogoutRequest says. -/
structure Sent where
  id : ReqId
  b : Bind
  subj : Subj
  sidx : Option Nat
deriving DecidableEq, Repr

inductive Err where
  | key          -- KeyError
  | value        -- ValueError (`list.remove` of an absent issuer)
  | tooOld       -- cache.TooOld
  | logout       -- LogoutError: some entity could not be reached
  | attribute    -- AttributeError: `None.get("session_index")` on an entry emptied by `reset`
  | status       -- StatusError from a SOAP answer with an error status
  | unsupported  -- UnsupportedBinding from the metadata store
  | noresponse   -- SAMLError: no binding to answer a LogoutRequest on
deriving DecidableEq, Repr

inductive Status where
  | success | requestDenied | unknownPrincipal
deriving DecidableEq, Repr

inductive Out where
  | ok
  | accepted | rejected
  | identity (ava : Ava) (old : List Idp)
  | info (x : Info) (subj : Subj)
  | empty
  | stale (l : List Idp)
  | sent (reqs : List Sent)      -- do_logout returned its dictionary
  | timeout                      -- (0, "504 Gateway Timeout", [], [])
  | done                         -- (0, "200 Ok", ...)
  | slo (st : Status)            -- handle_logout_request produced a LogoutResponse with this status
  | error (e : Err) (soap : List Sent)   -- exception; `soap` = requests that had already left over SOAP
deriving DecidableEq, Repr

structure St where
  now : Int
  db : Db := []
  pending : List (ReqId × Rec) := []     -- Saml2Client.state
  heap : List (Nat × List Idp) := []     -- the `entity_ids` list objects, keyed by the step that made them
  last : Option ReqId := none            -- harness bookkeeping: request id of the last delivered response
  stepNo : Nat := 0
deriving Repr

def heapGet (h : List (Nat × List Idp)) (c : Nat) : List Idp := (Dict.get? c h).getD []

/-! ### login -/

inductive LoginKind where
  | ok | audience | expired | destination
deriving DecidableEq, Repr

structure Login where
  s : Subj
  i : Idp
  cond : Option Int       -- Conditions/@NotOnOrAfter
  sess : Option Int       -- AuthnStatement/@SessionNotOnOrAfter
  ava : Ava
  sidx : Option Nat
  kind : LoginKind
deriving DecidableEq, Repr

/-- `AuthnResponse.session_info()["not_on_or_after"]`. -/
def Login.nooa (l : Login) : Int :=
  let c := l.cond.getD 0
  match l.sess with
  | some t => if t > 0 then t else c
  | none => c

def Login.info (l : Login) : Info := { ava := l.ava, nooa := l.nooa, sidx := l.sidx }

/-- The caching step of `parse_authn_request_response`: only a verified response reaches
    `Population.add_information_about_person`. -/
def doLogin (st : St) (l : Login) : St × Out :=
  if l.kind = .ok then
    ({ st with db := cacheSet st.db l.s l.i { ts := l.nooa, info := some l.info } }, .accepted)
  else (st, .rejected)

/-! ### logout -/

/-- `local_logout` (`none` = `KeyError` from `Cache.delete`). -/
def localLogout (st : St) (s : Subj) : Option St :=
  match cacheDelete st.db s with
  | none => none
  | some db => some { st with db := db }

/-- Lines 301-306 of `do_logout`: `None` = no session index, `none` of the outer option = AttributeError. -/
def sessionIndexOf (db : Db) (now : Int) (s : Subj) (j : Idp) : Option (Option Nat) :=
  match cacheGet db now s j false with
  | .keyError => some none
  | .tooOld => some none          -- unreachable: the check is off
  | .empty => none
  | .info x => some x.sidx

structure LoopSt where
  pending : List (ReqId × Rec)
  notDone : List Idp
  sent : List Sent
deriving Repr

/-- The `for entity_id in entity_ids` loop of `do_logout`. -/
def sloLoop (cfg : Cfg) (db : Db) (now : Int) (stepNo : Nat) (s : Subj) (cell : Nat) (expire : Option Int) :
    List Idp → LoopSt → LoopSt × Option Err
  | [], ls => (ls, none)
  | j :: t, ls =>
    match cfg.bind j with
    | .none => (ls, some .unsupported)
    | b =>
      match sessionIndexOf db now s j with
      | none => (ls, some .attribute)
      | some sidx =>
        let rid : ReqId := ⟨stepNo, j⟩
        let snt : Sent := { id := rid, b := b, subj := s, sidx := sidx }
        if b = .soap then
          match cfg.soapMode j with
          | .ok => sloLoop cfg db now stepNo s cell expire t
              { ls with notDone := ls.notDone.erase j, sent := ls.sent ++ [snt] }
          | .http500 => sloLoop cfg db now stepNo s cell expire t { ls with sent := ls.sent ++ [snt] }
          | .denied => ({ ls with notDone := ls.notDone.erase j, sent := ls.sent ++ [snt] }, some .status)
        else
          sloLoop cfg db now stepNo s cell expire t
            { pending := Dict.set rid { entity := j, cell := cell, subj := s, expire := expire } ls.pending,
              notDone := ls.notDone.erase j, sent := ls.sent ++ [snt] }

def soapOnly (l : List Sent) : List Sent := l.filter (fun r => r.b = .soap)

/-- `Saml2Client.do_logout(name_id, entity_ids, reason, expire)` where `entity_ids` is the list object `cell`. -/
def doLogout (cfg : Cfg) (st : St) (s : Subj) (cell : Nat) (expire : Option Int) : St × Out :=
  if deadlinePassed st.now expire then
    match localLogout st s with
    | none => (st, .error .key [])
    | some st' => (st', .timeout)
  else
    let es := heapGet st.heap cell
    let r := sloLoop cfg st.db st.now st.stepNo s cell expire es { pending := st.pending, notDone := es, sent := [] }
    let st' := { st with pending := r.1.pending }
    match r.2 with
    | some e => (st', .error e (soapOnly r.1.sent))
    | none =>
      if r.1.notDone.isEmpty then (st', .sent r.1.sent)
      else (st', .error .logout (soapOnly r.1.sent))

/-- `Saml2Client.global_logout`: a NEW list object with the issuers known for the subject. -/
def globalLogout (cfg : Cfg) (st : St) (s : Subj) (expire : Option Int) : St × Out :=
  match Dict.get? s st.db with
  | none => (st, .error .key [])
  | some m =>
    doLogout cfg { st with heap := Dict.set st.stepNo (Dict.keys m) st.heap } s st.stepNo expire

/-- `Saml2Client.handle_logout_response` for a response with `InResponseTo = irt` issued by `issuer`. -/
def handleResponse (cfg : Cfg) (st : St) (irt : Option ReqId) (issuer : Idp) : St × Out :=
  match irt with
  | none => (st, .error .key [])
  | some irt =>
    match Dict.get? irt st.pending with
    | none => (st, .error .key [])                       -- `self.state[response.in_response_to]`
    | some rec =>
      let st := { st with pending := Dict.del irt st.pending }
      let l := heapGet st.heap rec.cell
      if l = [issuer] then                                  -- done
        match localLogout st rec.subj with
        | none => (st, .error .key [])
        | some st' => (st', .done)
      else if issuer ∈ l then
        doLogout cfg { st with heap := Dict.set rec.cell (l.erase issuer) st.heap } rec.subj rec.cell rec.expire
      else (st, .error .value [])                           -- `list.remove(x)`: x not in list

/-- Can `handle_logout_request` find a binding to answer on?  SOAP is answered on the back channel;
    a front-channel request needs a Redirect or POST single-logout endpoint of the requester. -/
def canRespond (cfg : Cfg) (j : Idp) (b : Bind) : Bool :=
  match b with
  | .soap => true
  | .redirect | .post => cfg.bind j = .redirect || cfg.bind j = .post
  | .none => false

/-- `Saml2Client.handle_logout_request(request, name_id = current, binding)` for a request naming `named`. -/
def handleRequest (cfg : Cfg) (st : St) (named current : Subj) (b : Bind) (j : Idp) : St × Out :=
  let r : St × Status :=
    if named = current then
      match localLogout st current with
      | some st' => (st', .success)
      | none => (st, .requestDenied)
    else (st, .unknownPrincipal)
  if canRespond cfg j b then (r.1, .slo r.2) else (r.1, .error .noresponse [])

/-! ### histories -/

inductive Sel where
  | pending (n : Nat)   -- the n-th (mod size) pending request, in dictionary order
  | dup                 -- the request id of the previously delivered response
  | unknown             -- an id that was never issued
deriving DecidableEq, Repr

def resolve (pend : List ReqId) (last : Option ReqId) : Sel → Option ReqId
  | .pending n => if pend.isEmpty then none else pend[n % pend.length]?
  | .dup => last
  | .unknown => none

/-- Who issues the delivered response: the identity provider the request went to, or a given one. -/
def issuerOf (irt : Option ReqId) : Option Idp → Idp
  | some j => j
  | none => match irt with | some r => r.idp | none => 0

inductive Op where
  | login (l : Login)
  | identity (s : Subj) (ents : List Idp) (check : Bool)
  | info (s : Subj) (i : Idp) (check : Bool)
  | stale (s : Subj) (srcs : List Idp)
  | advance (dt : Nat)
  | reset (s : Subj) (i : Idp)
  | logout (s : Subj) (expire : Option Int)
  | resp (sel : Sel) (issuer : Option Idp)
  | slo (named current : Subj) (b : Bind) (j : Idp)
deriving DecidableEq, Repr

def stepCore (cfg : Cfg) (st : St) : Op → St × Out
  | .login l => doLogin st l
  | .identity s ents check =>
    match getIdentity st.db st.now s ents check with
    | some (ava, old) => (st, .identity ava old)
    | none => (st, .error .key [])
  | .info s i check =>
    match cacheGet st.db st.now s i check with
    | .info x => (st, .info x s)
    | .empty => (st, .empty)
    | .tooOld => (st, .error .tooOld [])
    | .keyError => (st, .error .key [])
  | .stale s srcs =>
    match staleSources st.db st.now s srcs with
    | some l => (st, .stale l)
    | none => (st, .error .key [])
  | .advance dt => ({ st with now := st.now + dt }, .ok)
  | .reset s i => ({ st with db := cacheSet st.db s i { ts := 0, info := none } }, .ok)
  | .logout s expire => globalLogout cfg st s expire
  | .resp sel issuer =>
    let irt := resolve (Dict.keys st.pending) st.last sel
    let r := handleResponse cfg st irt (issuerOf irt issuer)
    ({ r.1 with last := irt }, r.2)
  | .slo named current b j => handleRequest cfg st named current b j

def step (cfg : Cfg) (st : St) (op : Op) : St × Out :=
  let r := stepCore cfg st op
  ({ r.1 with stepNo := st.stepNo + 1 }, r.2)

/-- Structural observation of the client after a step. -/
structure Obs where
  subjects : List Subj                  -- users.subjects()
  sources : List (Subj × List Idp)      -- users.sources(s) for every cached subject
  pending : List ReqId                  -- keys of Saml2Client.state, in dictionary order
  loggedIn : List Subj                  -- is_logged_in
deriving DecidableEq, Repr

def obsOf (st : St) : Obs :=
  { subjects := Dict.keys st.db
    sources := st.db.map (fun p => (p.1, Dict.keys p.2))
    pending := Dict.keys st.pending
    loggedIn := (Dict.keys st.db).filter (isLoggedIn st.db st.now) }

/-- One trace element: the operation, its result, the observation after it. -/
structure Ev where
  op : Op
  out : Out
  obs : Obs
deriving Repr

/-- Run a history; returns the trace. -/
def run (cfg : Cfg) : St → List Op → List Ev
  | _, [] => []
  | st, op :: t =>
    let r := step cfg st op
    { op := op, out := r.2, obs := obsOf r.1 } :: run cfg r.1 t

/-- State reached after a history. -/
def exec (cfg : Cfg) : St → List Op → St
  | st, [] => st
  | st, op :: t => exec cfg (step cfg st op).1 t

/-- Name of the model branch taken by a step (for coverage evidence). -/
def pathOf (op : Op) (out : Out) : String :=
  let o := match out with
    | .ok => "ok" | .accepted => "accepted" | .rejected => "rejected"
    | .identity _ old => if old.isEmpty then "identity" else "identity+stale"
    | .info _ _ => "info" | .empty => "empty" | .stale l => if l.isEmpty then "stale0" else "stale+"
    | .sent _ => "sent" | .timeout => "timeout" | .done => "done"
    | .slo .success => "success" | .slo .requestDenied => "denied" | .slo .unknownPrincipal => "unknown-principal"
    | .error .key _ => "KeyError" | .error .value _ => "ValueError" | .error .tooOld _ => "TooOld"
    | .error .logout _ => "LogoutError" | .error .attribute _ => "AttributeError" | .error .status _ => "StatusError"
    | .error .unsupported _ => "UnsupportedBinding" | .error .noresponse _ => "no-response-binding"
  let p := match op with
    | .login _ => "login" | .identity _ _ _ => "identity" | .info _ _ _ => "info" | .stale _ _ => "stale"
    | .advance _ => "advance" | .reset _ _ => "reset" | .logout _ _ => "logout" | .resp _ _ => "resp" | .slo _ _ _ _ => "slo"
  p ++ "/" ++ o

end Session
