/-
  The attribute-query answer path (`Saml2Client.parse_attribute_query_response` → `AttributeResponse`, context
  "AttrQuery") as a REDUCTION to the authentication-response model: the code is the same `_parse_response` /
  `AuthnResponse` machinery with
    * a synchronous binding (SOAP): no Destination / InResponseTo / outstanding-request checks,
    * no conversation information (the caller cannot pass any),
    * `authn_statement_ok()` not called (context ≠ "AuthnReq"): AuthnStatements are not looked at,
    * the skew (`accepted_time_diff`) handed to the constructor as `timeslack`,
    * the signature options of the configuration NOT handed on (see `attrCfg`),
    * nothing written to the identity cache.
  So `processAttr` is `process` on a copy of the Response in which every assertion carries exactly one neutral
  AuthnStatement, under the synchronous environment.  The reduction is checked against the real code by the
  correspondence runs of C05 (stream `attr`), and every theorem about `process` transfers (Props/C05.lean).
-/
import PysamlModel.Model.Sp

namespace Sp

/-- an AuthnStatement without SessionNotOnOrAfter / SessionIndex -/
def neutralStmt : AuthnStmt := {}

def attrAssertion (a : Assertion) : Assertion := { a with authn := [neutralStmt] }

def attrView (r : Response) : Response := { r with assertions := r.assertions.map attrAssertion }

def attrEnv (env : Env) : Env :=
  { env with asynchop := false, outstanding := [], convInfo := false, convEntityId := none, remoteAddr := none }

/-- `parse_attribute_query_response` hands only `entity_id` and `attribute_converters` to the constructor: the three
    signature options and `allow_unsolicited` keep their constructor defaults (all false) whatever the configuration
    says.  A signature that is present is still verified.  No `extension_schema` either (`noExt`). -/
def attrCfg (cfg : Cfg) : Cfg :=
  { cfg with allowUnsolicited := false, wantResp := false, wantAssert := false, wantEither := false, extSchemas := [] }

/-- `parse_attribute_query_response`. -/
def processAttr (cfg : Cfg) (env : Env) (r : Response) : Outcome :=
  match process (attrCfg cfg) (attrEnv env) (attrView r) with
  | .identity o => .identity { o with cached := false, sessionIndex := none, cameFrom := none }
  | x => x

end Sp
