/-
  C02 — signature coverage.  A model of
    * the XML document as a tree (`XNode`), with ideal digests / signature values as leaves,
    * what the xmlsec1 stand-in (DESIGN 5.1: xmlSecFindNode start-node search, ID registration by
      node name, same-document references, enveloped-signature transform) verifies,
    * what pysaml2's object model shows `SecurityContext._check_signature` (singleton members keep
      the LAST occurrence) and the nine SAML signature-profile validators,
    * `_check_signature` as their conjunction (schema validity of the re-serialised item is an input).

  Ideal cryptography (definitions, not axioms): a DigestValue leaf `digest t` IS the canonical
  content `t` it was computed over; a SignatureValue leaf `sigval k si` IS (key, signed SignedInfo).
-/
namespace Xsw

inductive XNode where
  | elem (tag : String) (attrs : List (String × String)) (kids : List XNode)
  | text (s : String)
  | digest (of : XNode)                 -- content of ds:DigestValue: ideal digest of a canonical subtree
  | sigval (key : Nat) (over : XNode)   -- content of ds:SignatureValue: ideal signature over a SignedInfo
  | junk (s : String)                   -- base64 that is not a genuine digest / signature value
deriving Repr, Inhabited

abbrev Path := List Nat

/-! ### structural equality (the kernel must be able to evaluate it) -/
mutual
def XNode.beq : XNode → XNode → Bool
  | .elem t a k, .elem t' a' k' => t == t' && a == a' && beqL k k'
  | .text s, .text s' => s == s'
  | .digest x, .digest y => XNode.beq x y
  | .sigval k x, .sigval k' y => k == k' && XNode.beq x y
  | .junk s, .junk s' => s == s'
  | _, _ => false
def beqL : List XNode → List XNode → Bool
  | [], [] => true
  | x :: xs, y :: ys => XNode.beq x y && beqL xs ys
  | _, _ => false
end

instance : BEq XNode := ⟨XNode.beq⟩

/-! ### basic accessors -/
def XNode.tag : XNode → String
  | .elem t _ _ => t
  | _ => ""
def XNode.kids : XNode → List XNode
  | .elem _ _ k => k
  | _ => []
def XNode.attr (n : XNode) (name : String) : Option String :=
  match n with
  | .elem _ a _ => a.lookup name
  | _ => none
def XNode.isElem : XNode → Bool
  | .elem .. => true
  | _ => false

def nodeAt : XNode → Path → Option XNode
  | n, [] => some n
  | n, i :: rest =>
    match n.kids[i]? with
    | some c => nodeAt c rest
    | none => none

/-- child indexes of the element children with a given tag, in order -/
def childIdx (n : XNode) (tag : String) : List Nat :=
  (n.kids.zipIdx.filter (fun p => p.1.tag == tag)).map (·.2)

/-! ### document order (pre-order) as paths -/
mutual
def preorder : XNode → Path → List Path
  | .elem _ _ ks, p => p :: preorderL ks p 0
  | _, p => [p]
def preorderL : List XNode → Path → Nat → List Path
  | [], _, _ => []
  | x :: xs, p, i => preorder x (p ++ [i]) ++ preorderL xs p (i + 1)
end

/-- remove the subtree at a relative path (the enveloped-signature transform) -/
def removeAt : XNode → Path → XNode
  | n, [] => n                         -- removing the node itself is not meaningful here
  | .elem t a ks, [i] => .elem t a (ks.eraseIdx i)
  | .elem t a ks, i :: rest =>
    .elem t a (ks.modify i (fun c => removeAt c rest))
  | n, _ => n

/-! ### names -/
def dsSignature := "{http://www.w3.org/2000/09/xmldsig#}Signature"
def dsSignedInfo := "{http://www.w3.org/2000/09/xmldsig#}SignedInfo"
def dsReference := "{http://www.w3.org/2000/09/xmldsig#}Reference"
def dsTransforms := "{http://www.w3.org/2000/09/xmldsig#}Transforms"
def dsTransform := "{http://www.w3.org/2000/09/xmldsig#}Transform"
def dsC14nMethod := "{http://www.w3.org/2000/09/xmldsig#}CanonicalizationMethod"
def dsDigestValue := "{http://www.w3.org/2000/09/xmldsig#}DigestValue"
def dsSignatureValue := "{http://www.w3.org/2000/09/xmldsig#}SignatureValue"
def dsObject := "{http://www.w3.org/2000/09/xmldsig#}Object"
def algEnveloped := "http://www.w3.org/2000/09/xmldsig#enveloped-signature"
def algExcC14n := "http://www.w3.org/2001/10/xml-exc-c14n#"
def algExcC14nC := "http://www.w3.org/2001/10/xml-exc-c14n#WithComments"
/-- transforms the stand-in knows (others make it fail) -/
def knownTransforms : List String :=
  [algEnveloped, algExcC14n, algExcC14nC, "http://www.w3.org/TR/2001/REC-xml-c14n-20010315",
   "http://www.w3.org/TR/2001/REC-xml-c14n-20010315#WithComments"]
/-- ALLOWED_TRANSFORMS / ALLOWED_CANONICALIZATIONS of sigver.py -/
def allowedTransforms : List String := [algEnveloped, algExcC14n, algExcC14nC]
def allowedC14n : List String := [algExcC14n, algExcC14nC]

/-! ### the stand-in's view (xmlsec semantics) -/

/-- `--id-attr:ID <nodeName>`: every element with that name carrying an `ID`; a duplicate value is an error -/
def registerIds (doc : XNode) (nodeName : String) : Option (List (String × Path)) :=
  let hits := (preorder doc []).filterMap fun p =>
    match nodeAt doc p with
    | some n => if n.tag == nodeName then (n.attr "ID").map (fun v => (v, p)) else none
    | none => none
  if (hits.map (·.1)).eraseDups.length == hits.length then some hits else none

def firstChild (n : XNode) (tag : String) : Option (Nat × XNode) :=
  (n.kids.zipIdx.find? (fun p => p.1.tag == tag)).map (fun p => (p.2, p.1))

def lastChild (n : XNode) (tag : String) : Option (Nat × XNode) :=
  (n.kids.zipIdx.reverse.find? (fun p => p.1.tag == tag)).map (fun p => (p.2, p.1))

def childrenWith (n : XNode) (tag : String) : List XNode := n.kids.filter (fun c => c.tag == tag)

/-- all descendant elements with a tag (`Element.iter`) -/
def descendantsWith (n : XNode) (tag : String) : List XNode :=
  (preorder n []).filterMap fun p =>
    match nodeAt n p with
    | some c => if c.tag == tag then some c else none
    | none => none

def isPrefixPath (p q : Path) : Bool := p.isPrefixOf q

/-- white space inside a base64 value is ignored by the verifier -/
def isWsText : XNode → Bool
  | .text s => s.toList.all (fun c => c == ' ' || c == '\n' || c == '\t' || c == '\r')
  | _ => false
def valueKids (n : XNode) : List XNode := n.kids.filter (fun k => !isWsText k)

/-- Verification as the stand-in performs it for `--verify --id-attr:ID nodeName --node-id id`
    with the key restricted to `key` (`--enabled-key-data raw-x509-cert`). -/
def xmlsecVerify (doc : XNode) (nodeName id : String) (key : Nat) : Bool :=
  match registerIds doc nodeName with
  | none => false
  | some ids =>
    match ids.lookup id with
    | none => false
    | some start =>
      match nodeAt doc start with
      | none => false
      | some startNode =>
        -- first ds:Signature in document order from the start node
        match (preorder startNode []).find? (fun p => (nodeAt startNode p).map (·.tag) == some dsSignature) with
        | none => false
        | some sigRel =>
          let sigPath := start ++ sigRel
          match nodeAt doc sigPath with
          | none => false
          | some sig =>
            match firstChild sig dsSignedInfo with
            | none => false
            | some (_, si) =>
              let refs := childrenWith si dsReference
              !refs.isEmpty &&
              refs.all (fun ref =>
                let uri := (ref.attr "URI").getD ""
                let target : Option Path :=
                  if uri == "" then some []
                  else (ids.find? (fun e => uri == "#" ++ e.1)).map (·.2)   -- same-document reference to a registered ID
                match target with
                | none => false
                | some tp =>
                  let algs := (descendantsWith ref dsTransform).map (fun (t : XNode) => (t.attr "Algorithm").getD "")
                  algs.all (fun a => knownTransforms.contains a) &&
                  (match nodeAt doc tp with
                   | none => false
                   | some tnode =>
                     let content :=
                       if algs.contains algEnveloped && isPrefixPath tp sigPath then removeAt tnode (sigPath.drop tp.length)
                       else tnode
                     match firstChild ref dsDigestValue with
                     | some (_, dv) => valueKids dv == [XNode.digest content]
                     | none => false)) &&
              (match firstChild sig dsSignatureValue with
               | some (_, sv) => valueKids sv == [XNode.sigval key si]
               | none => false)

/-! ### pysaml2's view: object model (last occurrence of singleton members) + validators -/

/-- The nine validators of `_check_signature`, on the object model of the item at `item`. -/
def validatorsOk (item : XNode) : Bool :=
  match lastChild item dsSignature with
  | none => false
  | some (_, sig) =>
    match lastChild sig dsSignedInfo with
    | none => false
    | some (_, si) =>
      let refs := childrenWith si dsReference
      match refs with
      | [ref] =>
        let uri := ref.attr "URI"
        let idOk := match uri, item.attr "ID" with
          | some u, some i => u == "#" ++ i && i != ""   -- startswith("#"), len > 1, == "#" + item.id
          | _, _ => false
        let c14nOk := match lastChild si dsC14nMethod with
          | some (_, c) => allowedC14n.contains ((c.attr "Algorithm").getD "")
          | none => false
        let algs := match lastChild ref dsTransforms with
          | some (_, ts) => (childrenWith ts dsTransform).map (fun (t : XNode) => (t.attr "Algorithm").getD "")
          | none => []
        idOk && c14nOk && (1 ≤ algs.length && algs.length ≤ 2) &&
        algs.eraseDups.length == algs.length && algs.all (fun a => allowedTransforms.contains a) &&
        algs.contains algEnveloped && (childrenWith sig dsObject).isEmpty
      | _ => false

/-- `SecurityContext._check_signature` for the item found at `itemPath`, given that metadata has a
    key for the issuer (`key`) and whether the re-serialised item passed schema validation. -/
def checkSignature (doc : XNode) (itemPath : Path) (nodeName : String) (key : Nat) (schemaOk : Bool) : Bool :=
  match nodeAt doc itemPath with
  | none => false
  | some item =>
    schemaOk && validatorsOk item &&
    (match item.attr "ID" with
     | some id => xmlsecVerify doc nodeName id key
     | none => false)

end Xsw
