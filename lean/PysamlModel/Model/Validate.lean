/-
  C13 — an executable model of XML-Schema validation for the regular-language core of XSD 1.0
  as used by the schema documents pysaml2 ships (`saml2/data/schemas`): element declarations,
  complex types with content models (regular expressions over child names, see `Regex.lean`),
  attribute uses and attribute wildcards, element wildcards with lax/strict/skip processing,
  `xsi:type` / `xsi:nil`, lexical checks of the built-in simple types that occur, enumeration /
  maxLength / (finite) pattern facets, list and union types, and uniqueness of `xs:ID` values.

  The schema itself (`Schema`) is data: it is regenerated from the XSD files on every run
  (`Gen/Schema.lean`).  Documents are element trees (`XNode`); names are interned:
  a qualified name is `(ns, id)` with `ns = 0` for "no namespace", `ns = 1` for a namespace the
  schema set does not know, `id = 0` for a name the schema set does not know.
  Character data is `List Char`.
-/
import PysamlModel.Model.Regex

namespace Validate

/-! ## Lexical level -/
namespace Lex

def isWs (c : Char) : Bool := c == ' ' || c == '\t' || c == '\n' || c == '\r'
def isDigit (c : Char) : Bool := 48 ≤ c.toNat && c.toNat ≤ 57
def isAlpha (c : Char) : Bool := (65 ≤ c.toNat && c.toNat ≤ 90) || (97 ≤ c.toNat && c.toNat ≤ 122)
def isAlnum (c : Char) : Bool := isAlpha c || isDigit c
def isHex (c : Char) : Bool := isDigit c || (65 ≤ c.toNat && c.toNat ≤ 70) || (97 ≤ c.toNat && c.toNat ≤ 102)

/-- whitespace-separated tokens -/
def tokensAux : List Char → List Char → List (List Char)
  | [], acc => if acc.isEmpty then [] else [acc.reverse]
  | c :: cs, acc =>
    if isWs c then (if acc.isEmpty then tokensAux cs [] else acc.reverse :: tokensAux cs [])
    else tokensAux cs (c :: acc)

def tokens (s : List Char) : List (List Char) := tokensAux s []

/-- `whiteSpace = collapse` -/
def collapse (s : List Char) : List Char := List.intercalate [' '] (tokens s)
/-- `whiteSpace = replace` -/
def replaceWs (s : List Char) : List Char := s.map fun c => if isWs c then ' ' else c

def natOf (ds : List Char) : Nat := ds.foldl (fun n c => 10 * n + (c.toNat - 48)) 0
def allDigits (ds : List Char) : Bool := !ds.isEmpty && ds.all isDigit

/-- `[+-]?[0-9]+` -/
def intOf? : List Char → Option Int
  | '-' :: ds => if allDigits ds then some (- (natOf ds : Int)) else none
  | '+' :: ds => if allDigits ds then some (natOf ds : Int) else none
  | ds => if allDigits ds then some (natOf ds : Int) else none

def stripSign : List Char → List Char
  | '-' :: ds => ds
  | '+' :: ds => ds
  | ds => ds

/-- `[0-9]+(\.[0-9]*)?|\.[0-9]+` -/
def unsignedDecimal (s : List Char) : Bool :=
  let ip := s.takeWhile isDigit
  let r := s.dropWhile isDigit
  match r with
  | [] => !ip.isEmpty
  | '.' :: fr => fr.all isDigit && (!ip.isEmpty || !fr.isEmpty)
  | _ => false

def decimalOk (s : List Char) : Bool := unsignedDecimal (stripSign s)

/-- xs:float / xs:double, XSD 1.0 lexical space -/
def floatOk (s : List Char) : Bool :=
  if s == "INF".toList || s == "-INF".toList || s == "NaN".toList then true else
  let body := stripSign s
  let mant := body.takeWhile fun c => !(c == 'e' || c == 'E')
  let ex := body.dropWhile fun c => !(c == 'e' || c == 'E')
  unsignedDecimal mant &&
    (match ex with
     | [] => true
     | _ :: e => allDigits (stripSign e))

/-- exactly `n` digits from the front -/
def takeNum (n : Nat) (s : List Char) : Option (Nat × List Char) :=
  let ds := s.take n
  if ds.length == n && ds.all isDigit then some (natOf ds, s.drop n) else none

/-- `Z|[+-]((0[0-9]|1[0-3]):[0-5][0-9]|14:00)` or nothing -/
def tzOk : List Char → Bool
  | [] => true
  | ['Z'] => true
  | sg :: rest =>
    (sg == '+' || sg == '-') &&
    (match takeNum 2 rest with
     | some (h, ':' :: r2) =>
       (match takeNum 2 r2 with
        | some (m, []) => (h ≤ 13 && m ≤ 59) || (h == 14 && m == 0)
        | _ => false)
     | _ => false)

def pyMod (a : Int) (n : Nat) : Nat := (a % (n : Int)).toNat
def isLeap (y : Int) : Bool := pyMod y 4 == 0 && (pyMod y 100 != 0 || pyMod y 400 == 0)
def daysIn (y : Int) (m : Nat) : Nat :=
  if m == 2 then (if isLeap y then 29 else 28)
  else if m == 4 || m == 6 || m == 9 || m == 11 then 30 else 31

/-- year part `-?[0-9]*[0-9]{4}`, no leading zero beyond four digits, not 0000 -/
def yearOf? (s : List Char) : Option (Int × List Char) :=
  let neg := s.head? == some '-'
  let s1 := if neg then s.drop 1 else s
  let ds := s1.takeWhile isDigit
  let r := s1.dropWhile isDigit
  if ds.length < 4 then none
  else if ds.length > 4 && ds.head? == some '0' then none
  else
    let y := natOf ds
    if y == 0 then none
    else if y > 2147483648 then none
    else some (if neg then - (y : Int) else (y : Int), r)

def dateOf? (s : List Char) : Option (List Char) :=
  match yearOf? s with
  | some (y, '-' :: r1) =>
    (match takeNum 2 r1 with
     | some (m, '-' :: r2) =>
       (match takeNum 2 r2 with
        | some (d, r3) => if 1 ≤ m && m ≤ 12 && 1 ≤ d && d ≤ daysIn y m then some r3 else none
        | none => none)
     | _ => none)
  | _ => none

/-- `hh:mm:ss(.s+)?` followed by a time-zone; `24:00:00` (with zero fraction) is allowed -/
def timeTzOk (s : List Char) : Bool :=
  match takeNum 2 s with
  | some (h, ':' :: r1) =>
    (match takeNum 2 r1 with
     | some (mi, ':' :: r2) =>
       (match takeNum 2 r2 with
        | some (sec, r3) =>
          let (fracOk, fracZero, r4) :=
            match r3 with
            | '.' :: f =>
              let fd := f.takeWhile isDigit
              (!fd.isEmpty, (fd.take 6).all (· == '0'), f.dropWhile isDigit)
            | _ => (true, true, r3)
          fracOk && tzOk r4 &&
            ((h ≤ 23 && mi ≤ 59 && sec ≤ 59) || (h == 24 && mi == 0 && sec == 0 && fracZero))
        | none => false)
     | _ => false)
  | _ => false

def dateTimeOk (s : List Char) : Bool :=
  match dateOf? s with
  | some ('T' :: r) => timeTzOk r
  | _ => false

def dateOk (s : List Char) : Bool :=
  match dateOf? s with
  | some r => tzOk r
  | none => false

/-- one `[0-9]+X` component; returns the rest when present -/
def durPart (x : Char) (s : List Char) : List Char :=
  let ds := s.takeWhile isDigit
  match s.dropWhile isDigit with
  | c :: r => if !ds.isEmpty && c == x then r else s
  | [] => s

/-- seconds component `[0-9]+(\.[0-9]+)?S` -/
def durSec (s : List Char) : List Char :=
  let ds := s.takeWhile isDigit
  if ds.isEmpty then s else
  match s.dropWhile isDigit with
  | 'S' :: r => r
  | '.' :: f =>
    let fd := f.takeWhile isDigit
    (match f.dropWhile isDigit with
     | 'S' :: r => if fd.isEmpty then s else r
     | _ => s)
  | _ => s

/-- `-?P(nY)?(nM)?(nD)?(T(nH)?(nM)?(n(.n)?S)?)?`, at least one component, `T` needs one too -/
def durationOk (s : List Char) : Bool :=
  let s1 := match s with | '-' :: r => r | _ => s
  match s1 with
  | 'P' :: r0 =>
    let startOk := match r0 with | c :: _ => isDigit c || c == 'T' | [] => false
    let r1 := durPart 'D' (durPart 'M' (durPart 'Y' r0))
    startOk &&
    (match r1 with
     | [] => true
     | 'T' :: t0 =>
       (match t0 with | c :: _ => isDigit c | [] => false) &&
       durSec (durPart 'M' (durPart 'H' t0)) == []
     | _ => false)
  | _ => false

/-- name start character (ASCII exact; every non-ASCII character is accepted) -/
def isNameStart (c : Char) : Bool := isAlpha c || c == '_' || c.toNat ≥ 128
def isNameChar (c : Char) : Bool := isAlnum c || c == '_' || c == '-' || c == '.' || c.toNat ≥ 128

def ncNameOk : List Char → Bool
  | [] => false
  | c :: cs => isNameStart c && cs.all isNameChar

def nameOk : List Char → Bool
  | [] => false
  | c :: cs => (isNameStart c || c == ':') && cs.all fun d => isNameChar d || d == ':'

def nmtokenOk (s : List Char) : Bool := !s.isEmpty && s.all fun d => isNameChar d || d == ':'

def qnameOk (s : List Char) : Bool :=
  let p := s.takeWhile (· != ':')
  match s.dropWhile (· != ':') with
  | [] => ncNameOk p
  | _ :: l => ncNameOk p && ncNameOk l

/-- `[a-zA-Z]{1,8}(-[a-zA-Z0-9]{1,8})*` -/
def languageOk (s : List Char) : Bool :=
  let rec parts (cur : List Char) (acc : List (List Char)) : List Char → List (List Char)
    | [] => (cur.reverse :: acc).reverse
    | c :: cs => if c == '-' then parts [] (cur.reverse :: acc) cs else parts (c :: cur) acc cs
  match parts [] [] s with
  | [] => false
  | p :: ps => (1 ≤ p.length && p.length ≤ 8 && p.all isAlpha) &&
      ps.all fun q => 1 ≤ q.length && q.length ≤ 8 && q.all isAlnum

def isB64 (c : Char) : Bool := isAlnum c || c == '+' || c == '/'

/-- canonical-padding base64 after removal of blanks (the value is already collapsed) -/
def base64Ok (s : List Char) : Bool :=
  let v := s.filter (· != ' ')
  let body := v.takeWhile (· != '=')
  let pad := v.dropWhile (· != '=')
  body.all isB64 && v.length % 4 == 0 &&
  (match pad with
   | [] => true
   | ['='] => (match body.getLast? with | some c => "AEIMQUYcgkosw048".toList.contains c | none => false)
   | ['=', '='] => (match body.getLast? with | some c => "AQgw".toList.contains c | none => false)
   | _ => false)

def hexBinaryOk (s : List Char) : Bool := s.length % 2 == 0 && s.all isHex

/-- split at every occurrence of `sep` (like Python's `str.split(sep)`) -/
def splitOn (sep : Char) : List Char → List (List Char)
  | [] => [[]]
  | c :: cs =>
    match splitOn sep cs with
    | [] => [[]]
    | l :: ls => if c == sep then [] :: l :: ls else (c :: l) :: ls

/-- `[a-z0-9]` under `re.I`: ASCII letters and digits, plus the two characters whose case folding lands in
    `a-z` (U+017F LATIN SMALL LETTER LONG S, U+212A KELVIN SIGN) -/
def isDnsAlnum (c : Char) : Bool := isAlnum c || c.toNat == 0x17F || c.toNat == 0x212A

/-- `[a-z0-9]([a-z0-9-]*[a-z0-9])?` -/
def dnsLabelOk (l : List Char) : Bool :=
  match l.head?, l.getLast? with
  | some a, some z => isDnsAlnum a && isDnsAlnum z && l.all fun c => isDnsAlnum c || c == '-'
  | _, _ => false

/-- `saml2.validate.valid_domain_name` (the library's own check of `SubjectLocality/@DNSName`, part of
    `valid_instance`): `^label(\.label)*(:[0-9]{1,5})?$` with `re.I`; Python's `$` also matches before one
    trailing newline. -/
def domainNameOk (s : List Char) : Bool :=
  let s := if s.getLast? == some '\n' then s.dropLast else s
  let host := s.takeWhile (· != ':')
  let portOk :=
    match s.dropWhile (· != ':') with
    | [] => true
    | _ :: p => 1 ≤ p.length && p.length ≤ 5 && p.all isDigit
  portOk && (splitOn '.' host).all dnsLabelOk

def booleanOk (s : List Char) : Bool :=
  s == "true".toList || s == "false".toList || s == "1".toList || s == "0".toList

end Lex

/-! ## Simple types -/

inductive Builtin where
  | anySimple | string | normalizedString | token | language | name | ncName | id | idref | entity
  | nmtoken | anyURI | qname | boolean | decimal | float | double
  | integer | nonNegativeInteger | positiveInteger | nonPositiveInteger | negativeInteger
  | long | int | short | byte | unsignedLong | unsignedInt | unsignedShort | unsignedByte
  | dateTime | date | time | duration | base64Binary | hexBinary
deriving Repr, DecidableEq

inductive Ws where | preserve | replace | collapse
deriving Repr, DecidableEq

def Builtin.ws : Builtin → Ws
  | .anySimple => .preserve
  | .string => .preserve
  | .normalizedString => .replace
  | _ => .collapse

def Ws.norm : Ws → List Char → List Char
  | .preserve, s => s
  | .replace, s => Lex.replaceWs s
  | .collapse, s => Lex.collapse s

def intIn (s : List Char) (lo hi : Option Int) : Bool :=
  match Lex.intOf? s with
  | none => false
  | some v => (match lo with | some l => l ≤ v | none => true) && (match hi with | some h => v ≤ h | none => true)

/-- lexical check of a built-in type on an already normalised value -/
def Builtin.ok : Builtin → List Char → Bool
  | .anySimple, _ => true
  | .string, _ => true
  | .normalizedString, _ => true
  | .token, _ => true
  | .anyURI, _ => true          -- xmlschema 2.5.1 applies no lexical check to xs:anyURI
  | .language, s => Lex.languageOk s
  | .name, s => Lex.nameOk s
  | .ncName, s => Lex.ncNameOk s
  | .id, s => Lex.ncNameOk s
  | .idref, s => Lex.ncNameOk s
  | .entity, s => Lex.ncNameOk s
  | .nmtoken, s => Lex.nmtokenOk s
  | .qname, s => Lex.qnameOk s
  | .boolean, s => Lex.booleanOk s
  | .decimal, s => Lex.decimalOk s
  | .float, s => Lex.floatOk s
  | .double, s => Lex.floatOk s
  | .integer, s => intIn s none none
  | .nonNegativeInteger, s => intIn s (some 0) none
  | .positiveInteger, s => intIn s (some 1) none
  | .nonPositiveInteger, s => intIn s none (some 0)
  | .negativeInteger, s => intIn s none (some (-1))
  | .long, s => intIn s (some (-9223372036854775808)) (some 9223372036854775807)
  | .int, s => intIn s (some (-2147483648)) (some 2147483647)
  | .short, s => intIn s (some (-32768)) (some 32767)
  | .byte, s => intIn s (some (-128)) (some 127)
  | .unsignedLong, s => intIn s (some 0) (some 18446744073709551615)
  | .unsignedInt, s => intIn s (some 0) (some 4294967295)
  | .unsignedShort, s => intIn s (some 0) (some 65535)
  | .unsignedByte, s => intIn s (some 0) (some 255)
  | .dateTime, s => Lex.dateTimeOk s
  | .date, s => Lex.dateOk s
  | .time, s => Lex.timeTzOk s
  | .duration, s => Lex.durationOk s
  | .base64Binary, s => Lex.base64Ok s
  | .hexBinary, s => Lex.hexBinaryOk s

/-- A finite pattern: alternatives of fixed-length sequences of character ranges
    (enough for the patterns in the shipped schemas: `0|1`, `[A-Z][A-Z]`). -/
abbrev Pattern := List (List (List (Nat × Nat)))

def Pattern.ok (p : Pattern) (s : List Char) : Bool :=
  p.any fun alt => alt.length == s.length &&
    (alt.zip s).all fun (cls, c) => cls.any fun (lo, hi) => lo ≤ c.toNat && c.toNat ≤ hi

inductive Facet where
  | enum (vals : List (List Char))
  | maxLength (n : Nat)
  | pattern (p : Pattern)
  | named (k : Nat)            -- no constraint: keeps a named restriction distinct from its base (for `xsi:type`)
deriving Repr, DecidableEq

def Facet.ok : Facet → List Char → Bool
  | .enum vals, s => vals.contains s
  | .maxLength n, s => s.length ≤ n
  | .pattern p, s => p.ok s
  | .named _, _ => true

inductive SimpleTy where
  | prim (b : Builtin)
  | restrict (base : SimpleTy) (f : Facet)
  | list (item : SimpleTy)
  | union (a b : SimpleTy)
deriving Repr, DecidableEq

def SimpleTy.ws : SimpleTy → Ws
  | .prim b => b.ws
  | .restrict base _ => base.ws
  | .list _ => .collapse
  | .union _ _ => .preserve

/-- validity of a raw lexical value (whitespace normalisation included) -/
def SimpleTy.ok : SimpleTy → List Char → Bool
  | .prim b, s => b.ok (b.ws.norm s)
  | .restrict base f, s => base.ok s && f.ok (base.ws.norm s)
  | .list item, s => (Lex.tokens s).all fun t => item.ok t
  | .union a b, s => a.ok s || b.ok s

def SimpleTy.isId : SimpleTy → Bool
  | .prim b => b == .id
  | .restrict base _ => base.isId
  | _ => false

/-! ## Schema components -/

structure QN where
  ns : Nat
  id : Nat
deriving Repr, DecidableEq

/-- namespace constraint of a wildcard -/
inductive NsC where
  | any
  | other (tns : Nat)          -- `##other`: not absent and not the target namespace
  | oneOf (l : List Nat)       -- explicit list (`##local` = 0, `##targetNamespace` = its id)
deriving Repr, DecidableEq

def NsC.admits : NsC → Nat → Bool
  | .any, _ => true
  | .other t, n => n != 0 && n != t
  | .oneOf l, n => l.contains n

inductive PC where | strict | lax | skip
deriving Repr, DecidableEq

/-- A particle's symbol: an element particle (name id, index of its declaration) or a wildcard. -/
inductive Sym where
  | el (name decl : Nat)
  | any (c : NsC) (pc : PC)
deriving Repr, DecidableEq

def Sym.sat : Sym → QN → Bool
  | .el n _, q => q.id != 0 && q.id == n
  | .any c _, q => c.admits q.ns

def Sym.isEl : Sym → Bool
  | .el _ _ => true
  | .any _ _ => false

/-- A top-level particle of a content model.  `leaf` is an element particle, a wildcard, or a
    choice among such, with its occurrence bounds; everything else is an opaque expression. -/
inductive Particle where
  | leaf (syms : List Sym) (min : Nat) (max : Option Nat)
  | group (re : Re Sym)
deriving Repr, DecidableEq

def Particle.re : Particle → Re Sym
  | .leaf syms lo hi => Re.rep (Re.altL (syms.map Re.sym)) lo hi
  | .group r => r

/-- A content model is the sequence of its top-level particles. -/
def contentRe (ps : List Particle) : Re Sym := Re.seqL (ps.map Particle.re)

inductive TypeRef where
  | anyType
  | simple (t : SimpleTy)
  | complex (i : Nat)
deriving Repr, DecidableEq

structure AttrUse where
  name : Nat
  required : Bool
  ty : SimpleTy
  fixed : Option (List Char) := none
deriving Repr, DecidableEq

inductive Content where
  | empty
  | simple (t : SimpleTy)
  | elems (mixed : Bool) (re : Re Sym)
deriving Repr, DecidableEq

structure TypeDef where
  attrs : List AttrUse
  anyAttr : Option (NsC × PC)
  content : Content
  abstract : Bool := false
  ancestors : List Nat := []       -- indexes of the complex types this one derives from
deriving Repr

structure ElemDecl where
  name : Nat
  ty : TypeRef
  nillable : Bool := false
  abstract : Bool := false
deriving Repr

structure Schema where
  types : Array TypeDef
  elems : Array ElemDecl
  globals : List (Nat × Nat)                 -- name id ↦ index of the global element declaration
  gattrs : List (Nat × SimpleTy)             -- name id ↦ type of the global attribute declaration
  typeNames : List (List Char × TypeRef)     -- Clark name of a named type ↦ the type (for `xsi:type`)
  xsiNs : Nat                                -- namespace id of XMLSchema-instance
  xsiType : Nat                              -- name id of xsi:type
  xsiNil : Nat                               -- name id of xsi:nil

inductive XNode where
  | mk (name : QN) (attrs : List (QN × List Char)) (text : List Char) (kids : List XNode)

def XNode.name : XNode → QN
  | .mk n _ _ _ => n

/-- `xs:anyType`: mixed, any children (lax), any attributes (lax). -/
def anyTypeDef : TypeDef :=
  { attrs := [], anyAttr := some (.any, .lax), content := .elems true (.star (.sym (.any .any .lax))) }

def anyDecl : ElemDecl := { name := 0, ty := .anyType, nillable := false }

inductive Err where
  | unknownRoot | abstractElem | abstractType | badXsiType | nilNotAllowed | nilNotEmpty
  | undeclaredAttr | missingAttr | badAttrValue | fixedMismatch
  | unexpectedChild | contentIncomplete | textNotAllowed | childInSimple | badText
  | strictUnknown | dupId | badSchemaRef
deriving Repr, DecidableEq

def Err.toString : Err → String
  | .unknownRoot => "unknown-root" | .abstractElem => "abstract-element" | .abstractType => "abstract-type"
  | .badXsiType => "bad-xsi-type" | .nilNotAllowed => "nil-not-allowed" | .nilNotEmpty => "nil-not-empty"
  | .undeclaredAttr => "undeclared-attribute" | .missingAttr => "missing-attribute"
  | .badAttrValue => "bad-attribute-value" | .fixedMismatch => "fixed-mismatch"
  | .unexpectedChild => "unexpected-child" | .contentIncomplete => "content-incomplete"
  | .textNotAllowed => "text-not-allowed" | .childInSimple => "child-in-simple-content" | .badText => "bad-text"
  | .strictUnknown => "strict-wildcard-unknown-element" | .dupId => "duplicate-id" | .badSchemaRef => "bad-schema-ref"

abbrev Ids := List (List Char)

def lookupNat {β : Type} (k : Nat) : List (Nat × β) → Option β
  | [] => none
  | (k', v) :: r => if k' == k then some v else lookupNat k r

def Schema.global? (S : Schema) (q : QN) : Option ElemDecl :=
  if q.id == 0 then none else
  match lookupNat q.id S.globals with
  | some i => S.elems[i]?
  | none => none

def attrVal? (ns id : Nat) : List (QN × List Char) → Option (List Char)
  | [] => none
  | (q, v) :: r => if q.ns == ns && q.id == id then some v else attrVal? ns id r

/-- The symbol that decides how a child is processed: element particles first, then wildcards. -/
def assign (re : Re Sym) (q : QN) : Option Sym :=
  match re.syms.find? (fun s => s.isEl && s.sat q) with
  | some s => some s
  | none => re.syms.find? (fun s => s.sat q)

/-- The content-model check proper: the sequence of child names is in the language of the
    type's regular expression. -/
def contentOk (re : Re Sym) (kids : List XNode) : Bool :=
  Re.matches Sym.sat re (kids.map XNode.name)

def contentErr (re : Re Sym) (kids : List XNode) : Err :=
  if Re.stuck Sym.sat re (kids.map XNode.name) then .unexpectedChild else .contentIncomplete

/-- base type of a built-in type in the XSD 1.0 hierarchy (`none` for primitives) -/
def Builtin.base? : Builtin → Option Builtin
  | .normalizedString => some .string
  | .token => some .normalizedString
  | .language => some .token
  | .name => some .token
  | .nmtoken => some .token
  | .ncName => some .name
  | .id => some .ncName
  | .idref => some .ncName
  | .entity => some .ncName
  | .integer => some .decimal
  | .nonNegativeInteger => some .integer
  | .nonPositiveInteger => some .integer
  | .long => some .integer
  | .positiveInteger => some .nonNegativeInteger
  | .unsignedLong => some .nonNegativeInteger
  | .negativeInteger => some .nonPositiveInteger
  | .int => some .long
  | .short => some .int
  | .byte => some .short
  | .unsignedInt => some .unsignedLong
  | .unsignedShort => some .unsignedInt
  | .unsignedByte => some .unsignedShort
  | _ => none

def Builtin.derivesN : Nat → Builtin → Builtin → Bool
  | 0, b, b' => b == b'
  | n + 1, b, b' => b == b' || (match b.base? with | some c => Builtin.derivesN n c b' | none => false)

/-- `u` is `t` or is derived from it by restriction (built-in hierarchy included) -/
def SimpleTy.derivesFrom : SimpleTy → SimpleTy → Bool
  | u, t =>
    u == t || t == .prim .anySimple ||
    (match u with
     | .prim b => (match t with | .prim b' => Builtin.derivesN 8 b b' | _ => false)
     | .restrict base _ => base.derivesFrom t
     | _ => false)

/-- `xsi:type` may name the declared type itself, a type derived from it (a complex type with
    simple content counts as derived from its simple base), or anything when the declared type is
    `xs:anyType`. -/
def derivedOk (S : Schema) (actual declared : TypeRef) : Bool :=
  match declared with
  | .anyType => true
  | .complex d =>
    (match actual with
     | .complex a => a == d || (match S.types[a]? with | some T => T.ancestors.contains d | none => false)
     | _ => false)
  | .simple t =>
    (match actual with
     | .simple u => u.derivesFrom t
     | .complex a =>
       (match S.types[a]? with
        | some T => (match T.content with | .simple u => u.derivesFrom t | _ => false)
        | none => false)
     | .anyType => false)

/-- one attribute against a complex type; returns the ID value it contributes, if any -/
def attrOk (S : Schema) (T : TypeDef) (q : QN) (v : List Char) : Except Err Ids :=
  if q.ns == S.xsiNs then pure [] else
  match T.attrs.find? (fun u => q.id != 0 && u.name == q.id) with
  | some u =>
    if !u.ty.ok v then throw .badAttrValue
    else match u.fixed with
      | some f => if u.ty.ws.norm v == f then pure [] else throw .fixedMismatch
      | none => pure (if u.ty.isId then [u.ty.ws.norm v] else [])
  | none =>
    match T.anyAttr with
    | none => throw .undeclaredAttr
    | some (c, pc) =>
      if !c.admits q.ns then throw .undeclaredAttr else
      match pc with
      | .skip => pure []
      | .lax =>
        (match lookupNat q.id S.gattrs with
         | some t => if q.id != 0 && !t.ok v then throw .badAttrValue else pure []
         | none => pure [])
      | .strict =>
        (match (if q.id == 0 then none else lookupNat q.id S.gattrs) with
         | some t => if t.ok v then pure [] else throw .badAttrValue
         | none => throw .undeclaredAttr)

def attrsOk (S : Schema) (T : TypeDef) : List (QN × List Char) → Except Err Ids
  | [] => pure []
  | (q, v) :: r => do
    let a ← attrOk S T q v
    let b ← attrsOk S T r
    pure (a ++ b)

def requiredOk (T : TypeDef) (attrs : List (QN × List Char)) : Bool :=
  T.attrs.all fun u => !u.required || attrs.any fun (q, _) => q.id == u.name

/-- the type an element is validated against: the declared one or the `xsi:type` override -/
def effectiveType (S : Schema) (d : ElemDecl) (attrs : List (QN × List Char)) : Except Err TypeRef :=
  match attrVal? S.xsiNs S.xsiType attrs with
  | none => pure d.ty
  | some v =>
    match S.typeNames.find? (fun p => p.1 == Lex.collapse v) with
    | none => throw .badXsiType
    | some (_, t) => if derivedOk S t d.ty then pure t else throw .badXsiType

/-- `xsi:nil` -/
def nilOf (S : Schema) (d : ElemDecl) (attrs : List (QN × List Char)) : Except Err Bool :=
  match attrVal? S.xsiNs S.xsiNil attrs with
  | none => pure false
  | some v =>
    if !d.nillable then throw .nilNotAllowed
    else
      let w := Lex.collapse v
      if !Lex.booleanOk w then throw .badAttrValue
      else pure (w == "true".toList || w == "1".toList)

/-- Everything about a complex-typed element except the recursion into its children:
    attributes, `xsi:nil`, character data, and the content-model check.  Returns the IDs
    contributed by the attributes / simple content and, when children have to be validated,
    the content model that assigns their declarations. -/
def complexPre (S : Schema) (T : TypeDef) (nil : Bool) (attrs : List (QN × List Char)) (text : List Char)
    (kids : List XNode) : Except Err (Ids × Option (Re Sym)) := do
  let ids1 ← attrsOk S T attrs
  if !requiredOk T attrs then throw .missingAttr
  if nil then
    if kids.isEmpty && text.isEmpty then pure (ids1, none) else throw .nilNotEmpty
  else
  match T.content with
  | .empty =>
    if !kids.isEmpty then throw .unexpectedChild
    else if !text.isEmpty then throw .textNotAllowed
    else pure (ids1, none)
  | .simple st =>
    if !kids.isEmpty then throw .childInSimple
    else if st.ok text then pure (ids1 ++ (if st.isId then [st.ws.norm text] else []), none)
    else throw .badText
  | .elems mixed re =>
    if !mixed && !text.all Lex.isWs then throw .textNotAllowed
    else if !contentOk re kids then throw (contentErr re kids)
    else pure (ids1, some re)

/-- The type definition an element is validated against (`none` = simple type). -/
def typeDefOf (S : Schema) : TypeRef → Except Err (Option TypeDef)
  | .simple _ => pure none
  | .anyType => pure (some anyTypeDef)
  | .complex i =>
    match S.types[i]? with
    | none => throw .badSchemaRef
    | some T => if T.abstract then throw .abstractType else pure (some T)

def simpleElemOk (S : Schema) (st : SimpleTy) (nil : Bool) (attrs : List (QN × List Char)) (text : List Char)
    (kids : List XNode) : Except Err Ids :=
  if attrs.any (fun (q, _) => q.ns != S.xsiNs) then throw .undeclaredAttr
  else if !kids.isEmpty then throw .childInSimple
  else if nil then (if text.isEmpty then pure [] else throw .nilNotEmpty)
  else if st.ok text then pure (if st.isId then [st.ws.norm text] else [])
  else throw .badText

mutual
/-- An element information item against an element declaration. Returns the `xs:ID` values found. -/
def vElem (S : Schema) (d : ElemDecl) : XNode → Except Err Ids
  | .mk _ attrs text kids => do
    if d.abstract then throw .abstractElem
    let nil ← nilOf S d attrs
    let ty ← effectiveType S d attrs
    match ty with
    | .simple st => simpleElemOk S st nil attrs text kids
    | ty =>
      match ← typeDefOf S ty with
      | none => throw .badSchemaRef
      | some T =>
        match ← complexPre S T nil attrs text kids with
        | (ids1, none) => pure ids1
        | (ids1, some re) => do
          let ids2 ← vKids S re kids
          pure (ids1 ++ ids2)

/-- every child against the declaration its particle assigns to it -/
def vKids (S : Schema) (re : Re Sym) : List XNode → Except Err Ids
  | [] => pure []
  | k :: ks => do
    let a ← (match assign re k.name with
      | none => throw .unexpectedChild
      | some (.el _ di) =>
        (match S.elems[di]? with
         | none => throw .badSchemaRef
         | some d => vElem S d k)
      | some (.any _ pc) =>
        (match pc with
         | .skip => pure []
         | .strict =>
           (match S.global? k.name with
            | some d => vElem S d k
            | none => throw .strictUnknown)
         | .lax =>
           (match S.global? k.name with
            | some d => vElem S d k
            | none => vElem S anyDecl k)))
    let b ← vKids S re ks
    pure (a ++ b)
end

def nodup : Ids → Bool
  | [] => true
  | x :: r => !r.contains x && nodup r

/-- Validation of a document: the root must be a global element, the tree must be valid against
    it, `xs:ID` values must be pairwise different. -/
def validate (S : Schema) (n : XNode) : Except Err Unit :=
  match S.global? n.name with
  | none => throw .unknownRoot
  | some d => do
    let ids ← vElem S d n
    if nodup ids then pure () else throw .dupId

/-- the error class that rejects a document, `none` when it is accepted -/
def verdict (S : Schema) (n : XNode) : Option Err :=
  match validate S n with
  | .ok _ => none
  | .error e => some e

def valid (S : Schema) (n : XNode) : Bool :=
  match validate S n with
  | .ok _ => true
  | .error _ => false

end Validate
